/-
C10 helpers: `MarkerString::new` computes the token view.  The guarded sequential replace over the escaped
template equals the rendering of the parsed template with every reference filled by `(?:re)` / `(?P<name>re)`.
-/
import RioModel.Proofs.Marker
set_option linter.unusedSimpArgs false

namespace Rio.Marker

theorem mem_of_lookup_eq_some {β : Type} {l : List (Str × β)} {n : Str} {w : β} (h : l.lookup n = some w) :
    (n, w) ∈ l := by
  induction l with
  | nil => simp at h
  | cons p ps ih =>
    obtain ⟨k, v⟩ := p
    simp only [List.lookup_cons] at h
    by_cases hk : n = k
    · subst hk; simp at h; subst h; simp
    · have : (n == k) = false := by simpa using hk
      simp only [this] at h
      exact List.mem_cons_of_mem _ (ih h)

/-! ### plain strings and escaping -/

def Plain (s : Str) : Prop := ∀ c ∈ s, isMeta c = false ∧ c ≠ '@'

theorem plainName_iff (n : Str) : plainName n = true ↔ Plain n := by
  simp [plainName, Plain, List.all_eq_true]

theorem Plain.noAt {s : Str} (h : Plain s) : '@' ∉ s := fun e => (h _ e).2 rfl

theorem Plain.tail {c : Char} {s : Str} (h : Plain (c :: s)) : Plain s :=
  fun d hd => h d (List.mem_cons_of_mem _ hd)

theorem Plain.of_append_right {a b : Str} (h : Plain (a ++ b)) : Plain b :=
  fun d hd => h d (List.mem_append_right _ hd)

theorem escape_plain {s : Str} (h : Plain s) : escape s = s := by
  induction s with
  | nil => rfl
  | cons c cs ih =>
    have hc := (h c (by simp)).1
    simp only [escape, List.flatMap_cons, escChar, hc] at ih ⊢
    simp [ih h.tail]

theorem escape_append (a b : Str) : escape (a ++ b) = escape a ++ escape b := by
  simp [escape]

theorem escChar_noAt (c : Char) (h : c ≠ '@') : '@' ∉ escChar c := by
  unfold escChar
  split <;> simp [Ne.symm h]

theorem isMeta_at : isMeta '@' = false := by decide

/-- Escaping commutes with parsing when the names are plain. -/
theorem escape_eq_render (ns : List Str) (hns : ∀ n ∈ ns, Plain n) (t : Str) :
    escape t = render escChar (parse ns t) := by
  induction t using parse_induction ns with
  | hnil => simp [parse_nil, render, escape]
  | hlit c cs hc ih =>
    rw [parse_lit _ _ _ hc, render_cons, ← ih]
    simp [escape, Item.render]
  | href cs n hl ih =>
    rw [parse_ref _ _ _ hl, render_cons, ← ih]
    obtain ⟨hn, r, hr⟩ := longest_some hl
    have : cs.drop n.length = r := by rw [← hr]; simp
    rw [this, ← hr]
    have e1 : escape ('@' :: (n ++ r)) = '@' :: (escape n ++ escape r) := by
      simp [escape, escChar, isMeta_at]
    rw [e1, escape_plain (hns n hn)]
    simp [Item.render]
  | hstray cs hl ih =>
    rw [parse_stray _ _ hl, render_cons, ← ih]
    simp [escape, Item.render, escChar, isMeta_at]

/-! ### maximality of the parsed references -/

/-- Every reference of the list is to the longest name that fits, every stray `@` is followed by no name. -/
def MaxP (ns : List Str) : List Item → Prop
  | [] => True
  | .ref n :: post => (∀ m ∈ ns, m <+: n ++ render idEsc post → blen m ≤ blen n) ∧ MaxP ns post
  | .stray :: post => (∀ m ∈ ns, ¬ m <+: render idEsc post) ∧ MaxP ns post
  | _ :: post => MaxP ns post

theorem parse_maxP (ns : List Str) (t : Str) : MaxP ns (parse ns t) := by
  induction t using parse_induction ns with
  | hnil => simp [parse_nil, MaxP]
  | hlit c cs hc ih => rw [parse_lit _ _ _ hc]; simpa [MaxP] using ih
  | href cs n hl ih =>
    rw [parse_ref _ _ _ hl]
    simp only [MaxP]
    refine ⟨?_, ih⟩
    rw [render_parse]
    obtain ⟨_, r, hr⟩ := longest_some hl
    have : n ++ cs.drop n.length = cs := by rw [← hr]; simp
    rw [this]
    exact longest_max hl
  | hstray cs hl ih =>
    rw [parse_stray _ _ hl]
    simp only [MaxP]
    refine ⟨?_, ih⟩
    rw [render_parse]
    exact longest_none hl

/-! ### `str::replacen(.., 1)` -/

theorem replaceFirst1_nil (p : Char) (ps w : Str) : replaceFirst1 p ps w [] = [] := rfl

theorem replaceFirst1_hit (p : Char) (ps w rest : Str) :
    replaceFirst1 p ps w (p :: (ps ++ rest)) = w ++ rest := by
  have : pre ps (ps ++ rest) = true := pre_iff.mpr (List.prefix_append _ _)
  simp [replaceFirst1, this]

theorem replaceFirst1_miss (p : Char) (ps w : Str) (c : Char) (cs : Str) (h : ¬ (c = p ∧ ps <+: cs)) :
    replaceFirst1 p ps w (c :: cs) = c :: replaceFirst1 p ps w cs := by
  have : ¬ (c = p ∧ pre ps cs = true) := by rw [pre_iff]; exact h
  simp [replaceFirst1, this]

theorem replaceFirst1_skip (p : Char) (ps w : Str) (s rest : Str) (h : p ∉ s) :
    replaceFirst1 p ps w (s ++ rest) = s ++ replaceFirst1 p ps w rest := by
  induction s with
  | nil => simp
  | cons c cs ih =>
    have hc : c ≠ p := by intro e; apply h; simp [e]
    have hcs : p ∉ cs := by intro e; apply h; simp [e]
    rw [List.cons_append, replaceFirst1_miss _ _ _ _ _ (by simp [hc]), ih hcs]
    rfl

/-- Fill the first reference to `m`. -/
def fillFirst (m w : Str) : List Item → List Item
  | [] => []
  | .ref n :: rest => if n = m then .txt w :: rest else .ref n :: fillFirst m w rest
  | i :: rest => i :: fillFirst m w rest

theorem replaceFirst_render (esc : Char → Str) (m w : Str) (is : List Item)
    (hclean : Clean esc is) (hsep : Sep esc m is) :
    replaceFirst1 '@' m w (render esc is) = render esc (fillFirst m w is) := by
  induction is with
  | nil => simp [render_nil, replaceFirst1_nil, fillFirst]
  | cons i is ih =>
    have ih' := ih hclean.tail
    cases i with
    | lit c =>
      simp only [Sep] at hsep
      simp only [fillFirst, render_cons, Item.render]
      rw [replaceFirst1_skip _ _ _ _ _ (hclean.lit c (by simp)), ih' hsep]
    | txt s =>
      simp only [Sep] at hsep
      simp only [fillFirst, render_cons, Item.render]
      rw [replaceFirst1_skip _ _ _ _ _ (hclean.txt s (by simp)), ih' hsep]
    | stray =>
      simp only [Sep] at hsep
      simp only [fillFirst, render_cons, Item.render, List.cons_append, List.nil_append]
      rw [replaceFirst1_miss _ _ _ _ _ (by simp [hsep.1]), ih' hsep.2]
    | ref n =>
      simp only [Sep] at hsep
      by_cases hn : n = m
      · subst hn
        simp only [fillFirst, if_true, render_cons, Item.render, List.cons_append]
        rw [replaceFirst1_hit]
      · simp only [fillFirst, if_neg hn, render_cons, Item.render, List.cons_append]
        rw [replaceFirst1_miss _ _ _ _ _ (by simp [hsep.1 hn]),
          replaceFirst1_skip _ _ _ _ _ (hclean.ref n (by simp)), ih' hsep.2]

/-! ### the invariant of the construction: what follows an `@` never reads as a longer name -/

/-- The unescaped plain chars at the head of an item list (up to the first meta char, inserted text, `@`). -/
def plainLead : List Item → Str
  | .lit c :: post => if isMeta c then [] else c :: plainLead post
  | _ => []

/-- Every reference is maximal and every stray `@` is followed by no name, judged on the plain text that
follows (inserted texts start with `(` and can never extend a name). -/
def PlainInv (ns : List Str) : List Item → Prop
  | [] => True
  | .ref n :: post => (∀ m ∈ ns, m <+: n ++ plainLead post → blen m ≤ blen n) ∧ PlainInv ns post
  | .stray :: post => (∀ m ∈ ns, ¬ m <+: plainLead post) ∧ PlainInv ns post
  | _ :: post => PlainInv ns post

theorem plainLead_prefix_render (is : List Item) : plainLead is <+: render idEsc is := by
  induction is with
  | nil => simp [plainLead]
  | cons i is ih =>
    cases i with
    | lit c =>
      simp only [plainLead, render_cons, Item.render, idEsc]
      split
      · exact List.nil_prefix
      · simpa using ih
    | _ => simp [plainLead]

theorem plainInv_of_maxP (ns : List Str) (is : List Item) (h : MaxP ns is) : PlainInv ns is := by
  induction is with
  | nil => simp [PlainInv]
  | cons i is ih =>
    cases i with
    | lit c => simp only [MaxP] at h; simp only [PlainInv]; exact ih h
    | txt s => simp only [MaxP] at h; simp only [PlainInv]; exact ih h
    | stray =>
      simp only [MaxP] at h
      simp only [PlainInv]
      exact ⟨fun m hm hp => h.1 m hm (hp.trans (plainLead_prefix_render is)), ih h.2⟩
    | ref n =>
      simp only [MaxP] at h
      simp only [PlainInv]
      refine ⟨fun m hm hp => h.1 m hm (hp.trans ?_), ih h.2⟩
      exact (List.prefix_append_right_inj n).mpr (plainLead_prefix_render is)

/-- Functions that turn references into inserted text (and nothing else) keep the plain lead. -/
theorem plainLead_map (f : Item → Item) (hf : ∀ c, f (.lit c) = .lit c)
    (hr : ∀ n, (∃ w, f (.ref n) = .txt w) ∨ f (.ref n) = .ref n)
    (ht : ∀ x, f (.txt x) = .txt x) (hs : f .stray = .stray) (is : List Item) :
    plainLead (is.map f) = plainLead is := by
  induction is with
  | nil => rfl
  | cons i is ih =>
    cases i with
    | lit c => simp only [List.map_cons, hf, plainLead, ih]
    | txt x => simp [plainLead, ht]
    | stray => simp [plainLead, hs]
    | ref n =>
      rcases hr n with ⟨w, hw⟩ | hw <;> simp [plainLead, hw]

theorem plainLead_map_fill1 (m w : Str) (is : List Item) : plainLead (is.map (fill1 m w)) = plainLead is := by
  apply plainLead_map
  · intro c; rfl
  · intro n
    by_cases h : n = m
    · left; exact ⟨w, by simp [fill1, h]⟩
    · right; simp [fill1, h]
  · intro x; rfl
  · rfl

theorem plainLead_fillFirst (m w : Str) (is : List Item) : plainLead (fillFirst m w is) = plainLead is := by
  induction is with
  | nil => rfl
  | cons i is ih =>
    cases i with
    | lit c => simp only [fillFirst, plainLead, ih]
    | txt x => simp [fillFirst, plainLead]
    | stray => simp [fillFirst, plainLead]
    | ref n =>
      simp only [fillFirst]
      split <;> simp [plainLead]

theorem plainInv_map_fill1 (ns : List Str) (m w : Str) (is : List Item) (h : PlainInv ns is) :
    PlainInv ns (is.map (fill1 m w)) := by
  induction is with
  | nil => simp [PlainInv]
  | cons i is ih =>
    cases i with
    | lit c => simp only [PlainInv, List.map_cons, fill1] at h ⊢; exact ih h
    | txt s => simp only [PlainInv, List.map_cons, fill1] at h ⊢; exact ih h
    | stray =>
      simp only [PlainInv, List.map_cons, fill1] at h ⊢
      rw [plainLead_map_fill1]; exact ⟨h.1, ih h.2⟩
    | ref n =>
      simp only [PlainInv, List.map_cons, fill1] at h ⊢
      split
      · simp only [PlainInv]; exact ih h.2
      · simp only [PlainInv]; rw [plainLead_map_fill1]; exact ⟨h.1, ih h.2⟩

theorem plainInv_fillFirst (ns : List Str) (m w : Str) (is : List Item) (h : PlainInv ns is) :
    PlainInv ns (fillFirst m w is) := by
  induction is with
  | nil => simp [PlainInv, fillFirst]
  | cons i is ih =>
    cases i with
    | lit c => simp only [PlainInv, fillFirst] at h ⊢; exact ih h
    | txt s => simp only [PlainInv, fillFirst] at h ⊢; exact ih h
    | stray =>
      simp only [PlainInv, fillFirst] at h ⊢
      rw [plainLead_fillFirst]; exact ⟨h.1, ih h.2⟩
    | ref n =>
      simp only [PlainInv, fillFirst] at h ⊢
      split
      · simp only [PlainInv]; exact h.2
      · simp only [PlainInv]; rw [plainLead_fillFirst]; exact ⟨h.1, ih h.2⟩

/-- Inserted texts start with a meta character (`(`). -/
def TxtMeta (is : List Item) : Prop := ∀ x, Item.txt x ∈ is → ∃ d r, x = d :: r ∧ isMeta d = true

/-- A plain prefix of the escaped rendering lies in the plain lead. -/
theorem plain_prefix_plainLead (is : List Item) (htxt : TxtMeta is) (s : Str) (hs : Plain s)
    (h : s <+: render escChar is) : s <+: plainLead is := by
  have headMeta : ∀ (s : Str), Plain s → ∀ (d : Char) (r : Str), (isMeta d = true ∨ d = '@') →
      s <+: d :: r → s = [] := by
    intro s hs d r hd hx
    cases s with
    | nil => rfl
    | cons c cs =>
      have hc : c = d := by
        obtain ⟨t, ht⟩ := hx
        simp at ht; exact ht.1
      have := hs c (by simp)
      rcases hd with hd | hd
      · rw [hc, hd] at this; simp at this
      · exact absurd (hc.trans hd) this.2
  induction is generalizing s with
  | nil => simpa [render_nil, plainLead] using h
  | cons i is ih =>
    have ih' := ih (fun x hx => htxt x (List.mem_cons_of_mem _ hx))
    rw [render_cons] at h
    cases i with
    | lit c =>
      simp only [Item.render] at h
      simp only [plainLead]
      by_cases hc : isMeta c = true
      · simp only [escChar, hc, if_true, List.cons_append, List.nil_append] at h
        rw [headMeta s hs '\\' _ (Or.inl (by decide)) h]; exact List.nil_prefix
      · have hc' : isMeta c = false := by simpa using hc
        simp only [escChar, hc', Bool.false_eq_true, if_false, List.cons_append, List.nil_append] at h
        simp only [hc', Bool.false_eq_true, if_false]
        cases s with
        | nil => exact List.nil_prefix
        | cons d ds =>
          rw [List.cons_prefix_cons] at h ⊢
          exact ⟨h.1, ih' ds hs.tail h.2⟩
    | txt x =>
      obtain ⟨d, r, rfl, hd⟩ := htxt x (by simp)
      simp only [Item.render, List.cons_append] at h
      rw [headMeta s hs d _ (Or.inl hd) h]; exact List.nil_prefix
    | stray =>
      simp only [Item.render, List.cons_append, List.nil_append] at h
      rw [headMeta s hs '@' _ (Or.inr rfl) h]; exact List.nil_prefix
    | ref n =>
      simp only [Item.render, List.cons_append] at h
      rw [headMeta s hs '@' _ (Or.inr rfl) h]; exact List.nil_prefix

/-- When the longest remaining name `m` is processed, `@m` occurs only at the references to it. -/
theorem sep_of_plainInv (ns : List Str) (m : Str) (hm : m ∈ ns) (hmp : Plain m) (is : List Item)
    (htxt : TxtMeta is) (hlen : ∀ n, Item.ref n ∈ is → blen n ≤ blen m) (hinv : PlainInv ns is) :
    Sep escChar m is := by
  induction is with
  | nil => simp [Sep]
  | cons i is ih =>
    have ih' := ih (fun x hx => htxt x (List.mem_cons_of_mem _ hx)) (fun n hn => hlen n (List.mem_cons_of_mem _ hn))
    have htxt' : TxtMeta is := fun x hx => htxt x (List.mem_cons_of_mem _ hx)
    cases i with
    | lit c => simp only [PlainInv] at hinv; simp only [Sep]; exact ih' hinv
    | txt s => simp only [PlainInv] at hinv; simp only [Sep]; exact ih' hinv
    | stray =>
      simp only [PlainInv] at hinv
      simp only [Sep]
      exact ⟨fun hp => hinv.1 m hm (plain_prefix_plainLead is htxt' m hmp hp), ih' hinv.2⟩
    | ref n =>
      simp only [PlainInv] at hinv
      simp only [Sep]
      refine ⟨?_, ih' hinv.2⟩
      intro hne hp
      rcases List.prefix_or_prefix_of_prefix hp (List.prefix_append n (render escChar is)) with h1 | h1
      · have := blen_lt_of_prefix_ne h1 (Ne.symm hne)
        have := hlen n (by simp)
        omega
      · obtain ⟨s', rfl⟩ := h1
        have hs' : Plain s' := hmp.of_append_right
        have h2 : s' <+: render escChar is := (List.prefix_append_right_inj n).mp hp
        have h3 := plain_prefix_plainLead is htxt' s' hs' h2
        have h4 := hinv.1 (n ++ s') hm ((List.prefix_append_right_inj n).mpr h3)
        have := blen_lt_of_prefix_ne (List.prefix_append n s') hne
        omega

/-! ### the guarded fold of `MarkerString::new` -/

def regexVal (m : Str × Str) : Str × Str := (m.1, groupRegex m.2)

/-- One marker on the capture side: the first reference becomes the named group, the others plain groups. -/
def capStep (m re : Str) (is : List Item) : List Item :=
  (fillFirst m (groupCapture m re) is).map (fill1 m (groupRegex re))

def capFold (l : List (Str × Str)) (is : List Item) : List Item := l.foldl (fun is p => capStep p.1 p.2 is) is

theorem render_append (esc : Char → Str) (a b : List Item) : render esc (a ++ b) = render esc a ++ render esc b := by
  simp [render]

theorem containsSub1_hit (p : Char) (ps a b : Str) : containsSub1 p ps (a ++ p :: (ps ++ b)) = true := by
  induction a with
  | nil =>
    have : pre ps (ps ++ b) = true := pre_iff.mpr (List.prefix_append _ _)
    simp [containsSub1, this]
  | cons c cs ih => simp [containsSub1, ih]

theorem contains_of_ref_mem (esc : Char → Str) (m : Str) (is : List Item) (h : Item.ref m ∈ is) :
    containsSub (fmt m) (render esc is) = true := by
  obtain ⟨l₁, l₂, rfl⟩ := List.append_of_mem h
  rw [render_append, render_cons]
  simp only [fmt, containsSub, Item.render, List.cons_append]
  exact containsSub1_hit _ _ _ _

theorem map_fill1_of_not_mem (m w : Str) (is : List Item) (h : Item.ref m ∉ is) : is.map (fill1 m w) = is := by
  induction is with
  | nil => rfl
  | cons i is ih =>
    have h1 : Item.ref m ∉ is := fun e => h (List.mem_cons_of_mem _ e)
    rw [List.map_cons, ih h1]
    cases i with
    | ref n =>
      have : n ≠ m := by intro e; subst e; exact h (by simp)
      simp [fill1, this]
    | _ => simp [fill1]

theorem fillFirst_of_not_mem (m w : Str) (is : List Item) (h : Item.ref m ∉ is) : fillFirst m w is = is := by
  induction is with
  | nil => rfl
  | cons i is ih =>
    have h1 : Item.ref m ∉ is := fun e => h (List.mem_cons_of_mem _ e)
    cases i with
    | ref n =>
      have : n ≠ m := by intro e; subst e; exact h (by simp)
      simp [fillFirst, this, ih h1]
    | _ => simp [fillFirst, ih h1]

theorem mem_map_fill1 (m w : Str) (is : List Item) (i : Item) (h : i ∈ is.map (fill1 m w)) :
    i = .txt w ∨ i ∈ is := by
  obtain ⟨j, hj, he⟩ := List.mem_map.mp h
  cases j with
  | ref n =>
    simp only [fill1] at he
    split at he
    · left; exact he.symm
    · right; rw [← he]; exact hj
  | _ => right; simp only [fill1] at he; rw [← he]; exact hj

theorem mem_fillFirst (m w : Str) (is : List Item) (i : Item) (h : i ∈ fillFirst m w is) :
    i = .txt w ∨ i ∈ is := by
  induction is with
  | nil => simp [fillFirst] at h
  | cons j js ih =>
    cases j with
    | ref n =>
      simp only [fillFirst] at h
      split at h
      · rcases List.mem_cons.mp h with h1 | h1
        · left; exact h1
        · right; exact List.mem_cons_of_mem _ h1
      · rcases List.mem_cons.mp h with h1 | h1
        · right; rw [h1]; simp
        · rcases ih h1 with h2 | h2
          · left; exact h2
          · right; exact List.mem_cons_of_mem _ h2
    | lit c =>
      simp only [fillFirst] at h
      rcases List.mem_cons.mp h with h1 | h1
      · right; rw [h1]; simp
      · rcases ih h1 with h2 | h2
        · left; exact h2
        · right; exact List.mem_cons_of_mem _ h2
    | txt x =>
      simp only [fillFirst] at h
      rcases List.mem_cons.mp h with h1 | h1
      · right; rw [h1]; simp
      · rcases ih h1 with h2 | h2
        · left; exact h2
        · right; exact List.mem_cons_of_mem _ h2
    | stray =>
      simp only [fillFirst] at h
      rcases List.mem_cons.mp h with h1 | h1
      · right; rw [h1]; simp
      · rcases ih h1 with h2 | h2
        · left; exact h2
        · right; exact List.mem_cons_of_mem _ h2

theorem mem_fillFirst_ref_ne (m w n : Str) (hne : n ≠ m) (is : List Item) :
    Item.ref n ∈ fillFirst m w is ↔ Item.ref n ∈ is := by
  induction is with
  | nil => simp [fillFirst]
  | cons j js ih =>
    cases j with
    | ref k =>
      simp only [fillFirst]
      split
      · rename_i hk
        subst hk
        simp [hne]
      · simp [ih]
    | lit c => simp [fillFirst, ih]
    | txt x => simp [fillFirst, ih]
    | stray => simp [fillFirst, ih]

theorem mem_map_fill1_ref (m w n : Str) (is : List Item) :
    Item.ref n ∈ is.map (fill1 m w) ↔ Item.ref n ∈ is ∧ n ≠ m := by
  constructor
  · intro h
    obtain ⟨i, hi, he⟩ := List.mem_map.mp h
    cases i with
    | lit c => simp [fill1] at he
    | txt s => simp [fill1] at he
    | stray => simp [fill1] at he
    | ref n' =>
      simp only [fill1] at he
      split at he
      · simp at he
      · rename_i hne
        simp at he; subst he; exact ⟨hi, hne⟩
  · rintro ⟨h, hne⟩
    exact List.mem_map.mpr ⟨.ref n, h, by simp [fill1, hne]⟩

theorem mem_capStep_ref (m re n : Str) (is : List Item) :
    Item.ref n ∈ capStep m re is ↔ Item.ref n ∈ is ∧ n ≠ m := by
  unfold capStep
  rw [mem_map_fill1_ref]
  constructor
  · rintro ⟨h, hne⟩; exact ⟨(mem_fillFirst_ref_ne m _ n hne is).mp h, hne⟩
  · rintro ⟨h, hne⟩; exact ⟨(mem_fillFirst_ref_ne m _ n hne is).mpr h, hne⟩

/-- Replacing items by inserted texts without `@` keeps the list clean. -/
theorem clean_of_sub (esc : Char → Str) (w : Str) (hw : '@' ∉ w) (is is' : List Item)
    (hsub : ∀ i ∈ is', i = .txt w ∨ i ∈ is) (h : Clean esc is) : Clean esc is' := by
  refine ⟨?_, ?_, ?_⟩
  · intro c hc
    rcases hsub _ hc with h1 | h1
    · simp at h1
    · exact h.lit c h1
  · intro x hx
    rcases hsub _ hx with h1 | h1
    · simp at h1; subst h1; exact hw
    · exact h.txt x h1
  · intro n hn
    rcases hsub _ hn with h1 | h1
    · simp at h1
    · exact h.ref n h1

theorem txtMeta_of_sub (w : Str) (hw : ∃ d r, w = d :: r ∧ isMeta d = true) (is is' : List Item)
    (hsub : ∀ i ∈ is', i = .txt w ∨ i ∈ is) (h : TxtMeta is) : TxtMeta is' := by
  intro x hx
  rcases hsub _ hx with h1 | h1
  · simp at h1; subst h1; exact hw
  · exact h x h1

theorem sorted_map {β γ : Type} (f : Str × β → Str × γ) (hf : ∀ p, (f p).1 = p.1) (l : List (Str × β))
    (h : Sorted l) : Sorted (l.map f) := by
  unfold Sorted at h ⊢
  rw [List.pairwise_map]
  exact h.imp (by intro a b hab; rw [hf a, hf b]; exact hab)

theorem names_map {β γ : Type} (f : Str × β → Str × γ) (hf : ∀ p, (f p).1 = p.1) (l : List (Str × β)) :
    names (l.map f) = names l := by
  simp [names, List.map_map, Function.comp_def, hf]

theorem groupRegex_noAt (re : Str) (h : '@' ∉ re) : '@' ∉ groupRegex re := by
  simp [groupRegex, h, Rio.Consts.markerGroupRegexFormat]

theorem groupCapture_noAt (n re : Str) (hn : '@' ∉ n) (h : '@' ∉ re) : '@' ∉ groupCapture n re := by
  simp [groupCapture, h, hn, Rio.Consts.markerGroupCaptureFormat]

theorem groupRegex_meta (re : Str) : ∃ d r, groupRegex re = d :: r ∧ isMeta d = true :=
  ⟨'(', _, rfl, by decide⟩

theorem groupCapture_meta (n re : Str) : ∃ d r, groupCapture n re = d :: r ∧ isMeta d = true :=
  ⟨'(', _, rfl, by decide⟩

/-- The loop of `MarkerString::new` in the item view: both strings are renderings of item lists with the same
open references; processing the (sorted) markers fills the references of the matching side with `(?:re)` and, on
the capturing side, the first reference of a name with `(?P<name>re)` and the others with `(?:re)`; the `contains`
guard only skips markers that are not referenced. -/
theorem foldl_buildStep (ns : List Str) (l : List (Str × Str)) (isR isC : List Item) (used : List Str)
    (hsorted : Sorted l) (hns : ∀ p ∈ l, p.1 ∈ ns) (hplain : ∀ p ∈ l, Plain p.1) (hre : ∀ p ∈ l, '@' ∉ p.2)
    (hcleanR : Clean escChar isR) (hcleanC : Clean escChar isC) (htxtR : TxtMeta isR) (htxtC : TxtMeta isC)
    (hrefsR : ∀ n, Item.ref n ∈ isR → n ∈ names l)
    (hsame : ∀ n, Item.ref n ∈ isR ↔ Item.ref n ∈ isC)
    (hinvR : PlainInv ns isR) (hinvC : PlainInv ns isC) :
    (l.foldl buildStep ⟨render escChar isR, render escChar isC, used⟩).regex
        = render escChar (isR.map (fill (l.map regexVal))) ∧
    (l.foldl buildStep ⟨render escChar isR, render escChar isC, used⟩).capture
        = render escChar (capFold l isC) := by
  induction l generalizing isR isC used with
  | nil =>
    simp only [List.foldl_nil, List.map_nil, capFold]
    rw [show (fill []) = id from funext fill_nil]; simp
  | cons p rest ih =>
    obtain ⟨m, re⟩ := p
    have hmp : Plain m := hplain (m, re) (by simp)
    have hm : '@' ∉ m := hmp.noAt
    have hr : '@' ∉ re := hre (m, re) (by simp)
    have hmns : m ∈ ns := hns (m, re) (by simp)
    have hlenR : ∀ n, Item.ref n ∈ isR → blen n ≤ blen m := by
      intro n hn
      have := hrefsR n hn
      simp only [names, List.map_cons, List.mem_cons, List.mem_map] at this
      rcases this with rfl | ⟨q, hq, rfl⟩
      · exact Nat.le_refl _
      · exact (List.pairwise_cons.mp hsorted).1 q hq
    have hlenC : ∀ n, Item.ref n ∈ isC → blen n ≤ blen m := fun n hn => hlenR n ((hsame n).mpr hn)
    have hsepR := sep_of_plainInv ns m hmns hmp isR htxtR hlenR hinvR
    have hsepC := sep_of_plainInv ns m hmns hmp isC htxtC hlenC hinvC
    have hR := replace_render escChar m (groupRegex re) isR hcleanR hsepR
    -- the capture side: first occurrence, then the others
    have hC1 := replaceFirst_render escChar m (groupCapture m re) isC hcleanC hsepC
    have hsubF : ∀ i ∈ fillFirst m (groupCapture m re) isC, i = .txt (groupCapture m re) ∨ i ∈ isC :=
      fun i hi => mem_fillFirst m _ isC i hi
    have hcleanF : Clean escChar (fillFirst m (groupCapture m re) isC) :=
      clean_of_sub escChar _ (groupCapture_noAt m re hm hr) isC _ hsubF hcleanC
    have htxtF : TxtMeta (fillFirst m (groupCapture m re) isC) :=
      txtMeta_of_sub _ (groupCapture_meta m re) isC _ hsubF htxtC
    have hlenF : ∀ n, Item.ref n ∈ fillFirst m (groupCapture m re) isC → blen n ≤ blen m := by
      intro n hn
      rcases hsubF _ hn with h1 | h1
      · simp at h1
      · exact hlenC n h1
    have hsepF := sep_of_plainInv ns m hmns hmp _ htxtF hlenF (plainInv_fillFirst ns m _ isC hinvC)
    have hC2 := replace_render escChar m (groupRegex re) _ hcleanF hsepF
    have hstep : ∃ used', buildStep ⟨render escChar isR, render escChar isC, used⟩ (m, re) =
        ⟨render escChar (isR.map (fill1 m (groupRegex re))), render escChar (capStep m re isC), used'⟩ := by
      by_cases hg : containsSub (fmt m) (render escChar isR) = true
      · refine ⟨used ++ [m], ?_⟩
        simp only [buildStep]
        rw [if_pos hg]
        simp only [fmt, strReplace, strReplaceFirst]
        rw [hR, hC1, hC2]
        rfl
      · refine ⟨used, ?_⟩
        have hnR : Item.ref m ∉ isR := fun e => hg (contains_of_ref_mem escChar m isR e)
        have hnC : Item.ref m ∉ isC := fun e => hnR ((hsame m).mpr e)
        simp only [buildStep]
        rw [if_neg hg, map_fill1_of_not_mem _ _ _ hnR]
        unfold capStep
        rw [fillFirst_of_not_mem _ _ _ hnC, map_fill1_of_not_mem _ _ _ hnC]
    obtain ⟨used', hstep⟩ := hstep
    rw [List.foldl_cons, hstep]
    have hsubR : ∀ i ∈ isR.map (fill1 m (groupRegex re)), i = .txt (groupRegex re) ∨ i ∈ isR :=
      fun i hi => mem_map_fill1 m _ isR i hi
    have hsubC : ∀ i ∈ capStep m re isC, i = .txt (groupRegex re) ∨ i ∈ fillFirst m (groupCapture m re) isC :=
      fun i hi => mem_map_fill1 m _ _ i hi
    have hrest := ih (isR.map (fill1 m (groupRegex re))) (capStep m re isC) used'
      (List.pairwise_cons.mp hsorted).2
      (fun p hp => hns p (List.mem_cons_of_mem _ hp))
      (fun p hp => hplain p (List.mem_cons_of_mem _ hp)) (fun p hp => hre p (List.mem_cons_of_mem _ hp))
      (clean_of_sub escChar _ (groupRegex_noAt re hr) isR _ hsubR hcleanR)
      (clean_of_sub escChar _ (groupRegex_noAt re hr) _ _ hsubC hcleanF)
      (txtMeta_of_sub _ (groupRegex_meta re) isR _ hsubR htxtR)
      (txtMeta_of_sub _ (groupRegex_meta re) _ _ hsubC htxtF)
      (by
        intro n hn
        obtain ⟨h1, h2⟩ := (mem_map_fill1_ref _ _ _ _).mp hn
        have := hrefsR n h1
        simp only [names, List.map_cons, List.mem_cons] at this
        rcases this with h | h
        · exact absurd h h2
        · exact h)
      (by
        intro n
        rw [mem_map_fill1_ref, mem_capStep_ref, hsame n])
      (plainInv_map_fill1 ns m _ isR hinvR)
      (plainInv_map_fill1 ns m _ _ (plainInv_fillFirst ns m _ isC hinvC))
    rw [hrest.1, hrest.2]
    constructor
    · rw [List.map_cons, show regexVal (m, re) = (m, groupRegex re) from rfl, map_fill_cons]
    · simp [capFold]

/-! ### closed form of the capture side: one left-to-right pass -/

/-- One pass with the list of names already declared. -/
def capPass (ms : List (Str × Str)) : List Str → List Item → List Item
  | _, [] => []
  | seen, .ref n :: rest =>
    match ms.lookup n with
    | some re =>
      if n ∈ seen then .txt (groupRegex re) :: capPass ms seen rest
      else .txt (groupCapture n re) :: capPass ms (n :: seen) rest
    | none => .ref n :: capPass ms seen rest
  | seen, .lit c :: rest => .lit c :: capPass ms seen rest
  | seen, .txt x :: rest => .txt x :: capPass ms seen rest
  | seen, .stray :: rest => .stray :: capPass ms seen rest

theorem lookup_cons_ne {β : Type} (m n : Str) (v : β) (rest : List (Str × β)) (h : n ≠ m) :
    ((m, v) :: rest).lookup n = rest.lookup n := by
  have : (n == m) = false := by simpa using h
  simp [List.lookup_cons, this]

theorem lookup_cons_self {β : Type} (m : Str) (v : β) (rest : List (Str × β)) :
    ((m, v) :: rest).lookup m = some v := by
  simp [List.lookup_cons]

/-- After the first reference to `m`: the remaining references to `m` are plain groups. -/
theorem capPass_after (m re : Str) (rest : List (Str × Str)) (is : List Item) (seen seen' : List Str)
    (hrel : ∀ n, n ≠ m → (n ∈ seen ↔ n ∈ seen')) (hm : m ∈ seen') :
    capPass rest seen (is.map (fill1 m (groupRegex re))) = capPass ((m, re) :: rest) seen' is := by
  induction is generalizing seen seen' with
  | nil => simp [capPass]
  | cons i is ih =>
    cases i with
    | lit c => simp only [List.map_cons, fill1, capPass]; rw [ih seen seen' hrel hm]
    | txt x => simp only [List.map_cons, fill1, capPass]; rw [ih seen seen' hrel hm]
    | stray => simp only [List.map_cons, fill1, capPass]; rw [ih seen seen' hrel hm]
    | ref n =>
      by_cases hn : n = m
      · subst hn
        simp only [List.map_cons, fill1, if_true, capPass, lookup_cons_self, hm]
        rw [ih seen seen' hrel hm]
      · simp only [List.map_cons, fill1, if_neg hn, capPass, lookup_cons_ne m n re rest hn]
        cases rest.lookup n with
        | none => simp only; rw [ih seen seen' hrel hm]
        | some r =>
          simp only
          by_cases hs : n ∈ seen
          · have hs' : n ∈ seen' := (hrel n hn).mp hs
            simp only [hs, hs', if_true]
            rw [ih seen seen' hrel hm]
          · have hs' : n ∉ seen' := fun e => hs ((hrel n hn).mpr e)
            simp only [hs, hs', if_false]
            rw [ih (n :: seen) (n :: seen') (by
              intro k hk
              simp only [List.mem_cons]
              rw [hrel k hk]) (List.mem_cons_of_mem _ hm)]

/-- Up to and including the first reference to `m`. -/
theorem capPass_step (m re : Str) (rest : List (Str × Str)) (is : List Item) (seen seen' : List Str)
    (hrel : ∀ n, n ≠ m → (n ∈ seen ↔ n ∈ seen')) (hm : m ∉ seen') :
    capPass rest seen (capStep m re is) = capPass ((m, re) :: rest) seen' is := by
  unfold capStep
  induction is generalizing seen seen' with
  | nil => simp [capPass, fillFirst]
  | cons i is ih =>
    cases i with
    | lit c => simp only [fillFirst, List.map_cons, fill1, capPass]; rw [ih seen seen' hrel hm]
    | txt x => simp only [fillFirst, List.map_cons, fill1, capPass]; rw [ih seen seen' hrel hm]
    | stray => simp only [fillFirst, List.map_cons, fill1, capPass]; rw [ih seen seen' hrel hm]
    | ref n =>
      by_cases hn : n = m
      · subst hn
        simp only [fillFirst, if_true, List.map_cons, fill1, capPass, lookup_cons_self, hm, if_false]
        rw [capPass_after n re rest is seen (n :: seen') (by
          intro k hk
          simp only [List.mem_cons]
          rw [hrel k hk]
          constructor
          · intro h; right; exact h
          · rintro (h | h)
            · exact absurd h hk
            · exact h) (by simp)]
      · simp only [fillFirst, if_neg hn, List.map_cons, fill1, capPass, lookup_cons_ne m n re rest hn]
        cases rest.lookup n with
        | none => simp only; rw [ih seen seen' hrel hm]
        | some r =>
          simp only
          by_cases hs : n ∈ seen
          · have hs' : n ∈ seen' := (hrel n hn).mp hs
            simp only [hs, hs', if_true]
            rw [ih seen seen' hrel hm]
          · have hs' : n ∉ seen' := fun e => hs ((hrel n hn).mpr e)
            simp only [hs, hs', if_false]
            rw [ih (n :: seen) (n :: seen') (by
              intro k hk
              simp only [List.mem_cons]
              rw [hrel k hk]) (by
              intro e
              rcases List.mem_cons.mp e with h | h
              · exact hn h.symm
              · exact hm h)]

theorem capPass_nil_lookup (seen : List Str) (is : List Item) : capPass [] seen is = is := by
  induction is generalizing seen with
  | nil => rfl
  | cons i is ih => cases i <;> simp [capPass, ih]

/-- The fold over the markers is the single pass. -/
theorem capFold_eq_capPass (l : List (Str × Str)) (is : List Item) : capFold l is = capPass l [] is := by
  induction l generalizing is with
  | nil => simp [capFold, capPass_nil_lookup]
  | cons p rest ih =>
    obtain ⟨m, re⟩ := p
    have : capFold ((m, re) :: rest) is = capFold rest (capStep m re is) := by simp [capFold]
    rw [this, ih, capPass_step m re rest is [] [] (fun _ _ => Iff.rfl) (by simp)]

theorem capPass_congr (ms ms' : List (Str × Str)) (h : ∀ n, ms.lookup n = ms'.lookup n) (seen : List Str)
    (is : List Item) : capPass ms seen is = capPass ms' seen is := by
  induction is generalizing seen with
  | nil => rfl
  | cons i is ih =>
    cases i with
    | ref n => simp only [capPass, h n]; cases ms'.lookup n <;> simp [ih]
    | lit c => simp [capPass, ih]
    | txt x => simp [capPass, ih]
    | stray => simp [capPass, ih]

/-! ### assembling `build` -/

theorem insertBy_map {β γ : Type} (before : Str → Str → Bool) (f : Str × β → Str × γ) (hf : ∀ p, (f p).1 = p.1)
    (x : Str × β) (l : List (Str × β)) : insertBy before (f x) (l.map f) = (insertBy before x l).map f := by
  induction l with
  | nil => simp [insertBy]
  | cons y ys ih =>
    simp only [List.map_cons, insertBy, hf]
    split
    · simp [ih]
    · simp

theorem sortByLen_map {β γ : Type} (f : Str × β → Str × γ) (hf : ∀ p, (f p).1 = p.1) (l : List (Str × β)) :
    sortByLen (l.map f) = (sortByLen l).map f := by
  unfold sortByLen
  induction l with
  | nil => simp [sortBy]
  | cons x xs ih => simp only [List.map_cons, sortBy, ih, insertBy_map lenBefore f hf]

theorem lookup_map_regexVal (ms : List (Str × Str)) (n : Str) :
    (ms.map regexVal).lookup n = (ms.lookup n).map groupRegex := by
  induction ms with
  | nil => simp
  | cons p ps ih =>
    obtain ⟨k, v⟩ := p
    simp only [List.map_cons, regexVal, List.lookup_cons]
    cases h : n == k <;> simp [ih, regexVal]

theorem lookup_isSome_of_mem_names {β : Type} (ms : List (Str × β)) (n : Str) (h : n ∈ names ms) :
    ∃ v, ms.lookup n = some v := by
  induction ms with
  | nil => simp [names] at h
  | cons p ps ih =>
    obtain ⟨k, v⟩ := p
    simp only [List.lookup_cons]
    cases hk : n == k with
    | true => exact ⟨v, rfl⟩
    | false =>
      have hne : n ≠ k := by simpa using hk
      simp only [names, List.map_cons, List.mem_cons] at h
      rcases h with h | h
      · exact absurd h hne
      · exact ih h

/-- Rendering the filled items = rendering the tokens. -/
theorem render_fill_eq_tokens (ms : List (Str × Str)) (is : List Item)
    (hrefs : ∀ n, Item.ref n ∈ is → n ∈ names ms) (hnotxt : ∀ x, Item.txt x ∉ is) :
    render escChar (is.map (fill (ms.map regexVal))) = renderRegex (is.map (tokOf ms)) := by
  induction is with
  | nil => simp [render, renderRegex]
  | cons i is ih =>
    have ih' := ih (fun n hn => hrefs n (List.mem_cons_of_mem _ hn)) (fun x hx => hnotxt x (List.mem_cons_of_mem _ hx))
    simp only [List.map_cons, render_cons, renderRegex, List.flatMap_cons]
    simp only [renderRegex] at ih'
    rw [ih']
    cases i with
    | lit c => simp [fill, Item.render, tokOf, Tok.regex]
    | txt x => exact absurd (by simp) (hnotxt x)
    | stray => simp [fill, Item.render, tokOf, Tok.regex, escChar, isMeta_at]
    | ref n =>
      obtain ⟨re, hre⟩ := lookup_isSome_of_mem_names ms n (hrefs n (by simp))
      simp [fill, lookup_map_regexVal, hre, Item.render, tokOf, Tok.regex]

theorem render_capPass_eq_tokens (ms : List (Str × Str)) (seen : List Str) (is : List Item)
    (hrefs : ∀ n, Item.ref n ∈ is → n ∈ names ms) (hnotxt : ∀ x, Item.txt x ∉ is) :
    render escChar (capPass ms seen is) = renderCaptureAux seen (is.map (tokOf ms)) := by
  induction is generalizing seen with
  | nil => simp [render, renderCaptureAux, capPass]
  | cons i is ih =>
    have ih' := fun seen => ih seen (fun n hn => hrefs n (List.mem_cons_of_mem _ hn))
      (fun x hx => hnotxt x (List.mem_cons_of_mem _ hx))
    cases i with
    | lit c => simp [capPass, render_cons, Item.render, tokOf, renderCaptureAux, ih']
    | txt x => exact absurd (by simp) (hnotxt x)
    | stray => simp [capPass, render_cons, Item.render, tokOf, renderCaptureAux, ih', escChar, isMeta_at]
    | ref n =>
      obtain ⟨re, hre⟩ := lookup_isSome_of_mem_names ms n (hrefs n (by simp))
      simp only [capPass, hre, List.map_cons, tokOf, renderCaptureAux]
      by_cases hs : n ∈ seen
      · simp [hs, render_cons, Item.render, ih']
      · simp [hs, render_cons, Item.render, ih']

/-- `MarkerString::new` computes the token view (both regexes). -/
theorem build_eq_tokens (t : Str) (ms : List (Str × Str))
    (hplain : ∀ p ∈ ms, Plain p.1) (hre : ∀ p ∈ ms, '@' ∉ p.2) :
    (build t ms).regex = renderRegex (tokens t ms) ∧ (build t ms).capture = renderCapture (tokens t ms) := by
  have hnsPlain : ∀ n ∈ names ms, Plain n := by
    intro n hn
    simp only [names, List.mem_map] at hn
    obtain ⟨p, hp, rfl⟩ := hn
    exact hplain p hp
  let is := parse (names ms) t
  have hesc : escape t = render escChar is := escape_eq_render (names ms) hnsPlain t
  have hclean : Clean escChar is := by
    refine ⟨?_, ?_, ?_⟩
    · intro c hc; exact escChar_noAt c (parse_lit_ne_at _ _ c hc)
    · intro s hs; exact absurd hs (parse_no_txt _ _ s)
    · intro n hn; exact (hnsPlain n (parse_refs _ _ n hn)).noAt
  have hrefs : ∀ n, Item.ref n ∈ is → n ∈ names ms := parse_refs _ _
  have htxt : TxtMeta is := fun x hx => absurd hx (parse_no_txt _ _ x)
  have hinv : PlainInv (names ms) is := plainInv_of_maxP _ _ (parse_maxP _ _)
  have h := foldl_buildStep (names ms) (sortByLen ms) is is []
    (sorted_sortByLen ms)
    (fun p hp => List.mem_map.mpr ⟨p, (mem_sortByLen p ms).mp hp, rfl⟩)
    (fun p hp => hplain p ((mem_sortByLen p ms).mp hp))
    (fun p hp => hre p ((mem_sortByLen p ms).mp hp))
    hclean hclean htxt htxt (fun n hn => (mem_names_sortByLen ms n).mpr (hrefs n hn)) (fun _ => Iff.rfl) hinv hinv
  have hfR : fill ((sortByLen ms).map regexVal) = fill (ms.map regexVal) := by
    rw [← sortByLen_map regexVal (fun _ => rfl), fill_sortByLen]
  unfold build
  rw [hesc, h.1, h.2, hfR, capFold_eq_capPass, capPass_congr _ ms (lookup_sortByLen ms)]
  exact ⟨render_fill_eq_tokens ms is hrefs (parse_no_txt _ _),
    render_capPass_eq_tokens ms [] is hrefs (parse_no_txt _ _)⟩

end Rio.Marker
