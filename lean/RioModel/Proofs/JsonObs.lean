/-
Where the serde model (C06, `Rio.Json.Action` / `Rio.Json.Request`) meets the models that READ an action or a
request:

* `ofJsonAction readId : Rio.Json.Action → Rio.Action.Action` takes a (restored) serde-model action into the
  action model of C05, so that C05's observers (`getStatusCode`, `filterHeaders`, `createFilterBody`,
  `shouldLogRequest`, `getFinalStatusCodeWithFallback`, and sequences of them: `runOpsC`) are functions of a
  serde-model action.  It is a left inverse of W3's `toJsonAction showId` on every action whose codes fit a `u16`
  (`ofJson_toJson`; the Rust fields ARE `u16`, the action model keeps them as `Nat`) as soon as `readId` reads back
  what `showId` renders; the bound holds of every action built from rules whose codes fit (`fromRoutesRule_u16`).
* `reqOfJson ipOf instant : Rio.Json.Request → Rio.Router.Req` takes a (restored) request into the request of the
  router model of C01 (the seven things matching reads; `path` is `Request::path_and_query()`).
-/
import RioModel.Proofs.ActionJsonBridge
import RioModel.Proofs.Action
import RioModel.Model.RouterLayers
set_option linter.unusedSimpArgs false
set_option linter.unusedVariables false

namespace Rio.Action
open Spec

/-! ### from the serde model back into the action model -/

def ofJsonHeaderFilter (f : Rio.Json.HeaderFilter) : HeaderFilter :=
  ⟨f.action, f.header, f.value, f.id, f.target_hash⟩

def ofJsonTextAction : Rio.Json.TextAction → TextAction
  | .append => .append | .prepend => .prepend | .replace => .replace

def ofJsonBodyFilter : Rio.Json.BodyFilter → BodyFilter
  | .text t => .text ⟨ofJsonTextAction t.action, t.content, t.id, t.target_hash⟩
  | .html h => .html ⟨h.action, h.value, h.inner_value, h.element_tree, h.css_selector, h.id, h.target_hash⟩

/-- a `Vec<u16>` as the action model keeps it -/
def natCodes (l : List UInt16) : List Nat := l.map (·.toNat)

section
variable (readId : String → RuleId)

def ofJsonStatus (u : Rio.Json.StatusCodeUpdate) : StatusCodeUpdate :=
  ⟨u.status_code.toNat, natCodes u.on_response_status_codes, u.exclude_response_status_codes,
   u.fallback_status_code.toNat, u.rule_id.map readId, u.fallback_rule_id.map readId, u.unit_id, u.target_hash⟩

def ofJsonLog (l : Rio.Json.LogOverride) : LogOverride :=
  ⟨l.log_override, l.rule_id.map readId, natCodes l.on_response_status_codes, l.exclude_response_status_codes,
   l.fallback_log_override, l.fallback_rule_id.map readId, l.unit_id⟩

/-- A serde-model action as the action model (C05) sees it: every field is carried over (there is no field of
`Rio.Action.Action` that is not computed from the JSON fields, so whatever an observer reads has travelled). -/
def ofJsonAction (a : Rio.Json.Action) : Action :=
  { statusCodeUpdate := a.status_code_update.map (ofJsonStatus readId)
    headerFilters := a.header_filters.map fun f =>
      ⟨ofJsonHeaderFilter f.filter, natCodes f.on_response_status_codes, f.exclude_response_status_codes,
       f.rule_id.map readId⟩
    bodyFilters := a.body_filters.map fun f =>
      ⟨ofJsonBodyFilter f.filter, natCodes f.on_response_status_codes, f.exclude_response_status_codes,
       f.rule_id.map readId⟩
    ruleIds := a.rule_ids.map readId
    ruleTraces := a.rule_traces.map fun t =>
      ⟨readId t.id, natCodes t.on_response_status_codes, t.exclude_response_status_codes⟩
    rulesApplied := a.rules_applied.map readId
    logOverride := a.log_override.map (ofJsonLog readId) }

end

/-! ### the codes of an action fit a `u16` -/

def CodesOk (l : List Nat) : Prop := ∀ c ∈ l, c < 65536

/-- Every status code an action mentions fits a `u16` (an invariant of the Rust type; the action model keeps the
codes as `Nat`). -/
structure Action.U16 (a : Action) : Prop where
  status : ∀ u, a.statusCodeUpdate = some u →
    u.statusCode < 65536 ∧ u.fallbackStatusCode < 65536 ∧ CodesOk u.onResponseStatusCodes
  headers : ∀ f ∈ a.headerFilters, CodesOk f.onResponseStatusCodes
  bodies : ∀ f ∈ a.bodyFilters, CodesOk f.onResponseStatusCodes
  traces : ∀ t ∈ a.ruleTraces, CodesOk t.onResponseStatusCodes
  log : ∀ l, a.logOverride = some l → CodesOk l.onResponseStatusCodes

/-- The same for a rule (`status_code: Option<u16>`, `response_status_codes: Option<Vec<u16>>`). -/
def Rule.U16 (r : Rule) : Prop := r.statusCode.getD 0 < 65536 ∧ CodesOk (codesOf r)

theorem u16_toNat (n : Nat) (h : n < 65536) : (u16 n).toNat = n := by
  unfold u16
  rw [UInt16.toNat_ofNat']
  exact Nat.mod_eq_of_lt h

theorem map_eq_self {α : Type} (f : α → α) (l : List α) (h : ∀ x ∈ l, f x = x) : l.map f = l := by
  induction l with
  | nil => rfl
  | cons x xs ih =>
    simp only [List.map_cons, List.cons.injEq]
    exact ⟨h x (by simp), ih fun y hy => h y (List.mem_cons_of_mem _ hy)⟩

theorem natCodes_u16 (l : List Nat) (h : CodesOk l) : natCodes (l.map u16) = l := by
  unfold natCodes
  rw [List.map_map]
  exact map_eq_self _ l fun x hx => u16_toNat x (h x hx)

theorem ofJson_toJson_headerFilter (f : HeaderFilter) : ofJsonHeaderFilter (toJsonHeaderFilter f) = f := rfl

theorem ofJson_toJson_bodyFilter (f : BodyFilter) : ofJsonBodyFilter (toJsonBodyFilter f) = f := by
  cases f with
  | text t => cases t with | mk a c i h => cases a <;> rfl
  | html h => rfl

theorem opt_map_left {α β : Type} (f : α → β) (g : β → α) (h : ∀ x, g (f x) = x) (o : Option α) :
    (o.map f).map g = o := by
  cases o <;> simp [h]

/-- **`ofJsonAction` undoes `toJsonAction`** on every action whose codes fit a `u16`, for every pair of an id
rendering and a reader that reads it back. -/
theorem ofJson_toJson (showId : RuleId → String) (readId : String → RuleId)
    (hleft : ∀ i, readId (showId i) = i) (a : Action) (h : a.U16) :
    ofJsonAction readId (toJsonAction showId a) = a := by
  obtain ⟨st, hf, bf, rids, tr, ra, lg⟩ := a
  have hids : ∀ l : List RuleId, (l.map showId).map readId = l := fun l => by
    rw [List.map_map]; exact map_eq_self _ l fun x _ => hleft x
  have hopt : ∀ o : Option RuleId, (o.map showId).map readId = o := opt_map_left showId readId hleft
  simp only [ofJsonAction, toJsonAction, hids, List.map_map, Action.mk.injEq, true_and]
  refine ⟨?_, ?_, ?_, ?_, ?_⟩
  · cases st with
    | none => rfl
    | some u =>
      obtain ⟨h1, h2, h3⟩ := h.status u rfl
      simp only [Option.map_some, ofJsonStatus, toJsonStatus, u16_toNat _ h1, u16_toNat _ h2,
        natCodes_u16 _ h3, hopt]
  · apply map_eq_self
    intro f hfm
    simp only [Function.comp, ofJson_toJson_headerFilter, natCodes_u16 _ (h.headers f hfm), hopt]
  · apply map_eq_self
    intro f hfm
    simp only [Function.comp, ofJson_toJson_bodyFilter, natCodes_u16 _ (h.bodies f hfm), hopt]
  · apply map_eq_self
    intro t htm
    simp only [Function.comp, natCodes_u16 _ (h.traces t htm), hleft]
  · cases lg with
    | none => rfl
    | some l =>
      simp only [Option.map_some, ofJsonLog, toJsonLog, natCodes_u16 _ (h.log l rfl), hopt]

/-! ### every action built from `u16` rules has `u16` codes -/

theorem spec_action_u16 (q : Req) (C : List Rule) (hC : ∀ r ∈ C, r.U16) : (Spec.action q C).U16 := by
  refine ⟨?_, ?_, ?_, ?_, ?_⟩
  · intro u hu
    simp only [Spec.action] at hu
    cases hpf : primaryFallback carriesStatus C with
    | none => rw [hpf] at hu; cases hu
    | some pf =>
      obtain ⟨p, fb⟩ := pf
      rw [hpf] at hu
      simp only [Option.map_some, Option.some.injEq] at hu
      subst hu
      obtain ⟨⟨hp, _⟩, hfb⟩ := primaryFallback_mem carriesStatus C p fb hpf
      refine ⟨(hC p hp).1, ?_, (hC p hp).2⟩
      cases fb with
      | none => simp [statusUpdateOf]
      | some f => exact (hC f (hfb f rfl).1).1
  · intro f hf
    simp only [Spec.action, List.mem_flatMap] at hf
    obtain ⟨r, hr, hfr⟩ := hf
    simp only [ruleHeaderFilters, List.mem_map] at hfr
    obtain ⟨_, _, rfl⟩ := hfr
    exact (hC r hr).2
  · intro f hf
    simp only [Spec.action, List.mem_flatMap] at hf
    obtain ⟨r, hr, hfr⟩ := hf
    simp only [ruleBodyFilters, List.mem_map] at hfr
    obtain ⟨_, _, rfl⟩ := hfr
    exact (hC r hr).2
  · intro t ht
    simp only [Spec.action, List.mem_map] at ht
    obtain ⟨r, hr, rfl⟩ := ht
    exact (hC r hr).2
  · intro l hl
    simp only [Spec.action] at hl
    cases hpf : primaryFallback carriesLog C with
    | none => rw [hpf] at hl; cases hl
    | some pf =>
      obtain ⟨p, fb⟩ := pf
      rw [hpf] at hl
      simp only [Option.map_some, Option.some.injEq] at hl
      subst hl
      obtain ⟨⟨hp, _⟩, _⟩ := primaryFallback_mem carriesLog C p fb hpf
      exact (hC p hp).2

theorem withApplied_u16 (a : Action) (s : List RuleId) (h : a.U16) : (withApplied a s).U16 :=
  ⟨h.status, h.headers, h.bodies, h.traces, h.log⟩

/-! ### requests: from the serde model into the router model -/

end Rio.Action

namespace Rio.Json

/-- `std::net::IpAddr` as the router model keeps it: family and numeric value. -/
def ipNum : Ip → Rio.Router.Ip
  | .v4 x => ⟨false, ((x.a.toNat * 256 + x.b.toNat) * 256 + x.c.toNat) * 256 + x.d.toNat⟩
  | .v6 x => ⟨true, x.segs.foldl (fun acc s => acc * 65536 + s.toNat) 0⟩

/-- Days from 1970-01-01 to the civil date (proleptic Gregorian; the usual era arithmetic). -/
def daysFromCivil (y : Int) (m d : Nat) : Int :=
  let y' := if m ≤ 2 then y - 1 else y
  let era := (if y' ≥ 0 then y' else y' - 399) / 400
  let yoe := y' - era * 400
  let mp : Int := if m > 2 then (m : Int) - 3 else (m : Int) + 9
  let doy := (153 * mp + 2) / 5 + (d : Int) - 1
  let doe := yoe * 365 + yoe / 4 - yoe / 100 + doy
  era * 146097 + doe - 719468

/-- `DateTime::timestamp()` clipped at the epoch (the router model keeps instants as `Nat` seconds). -/
def unixSeconds (t : DateTime) : Nat :=
  (daysFromCivil t.year t.month t.day * 86400 + (t.hour * 3600 + t.min * 60 + min t.sec 59 : Nat)).toNat

/-- The request the router model matches, from the fields of a serde-model request.  `ipOf` / `instant` convert
the two atoms (`ipNum`, `unixSeconds` are the intended ones; the theorems hold for every choice).  `path` is
`Request::path_and_query()`: the `path_and_query_matching` of the skipped pair when present, otherwise its
`path_and_query`.  `path_and_query` (the original), `sampling_override` and the other members of the skipped pair
are not read by matching (they are read by `rebuild_with_config` and `Action::from_routes_rule`). -/
def reqOfJson (ipOf : Ip → Rio.Router.Ip) (instant : DateTime → Nat) (q : Request) : Rio.Router.Req :=
  { scheme := q.scheme
    host := q.host
    method := q.method
    headers := q.headers.map fun h => (h.name, h.value)
    ip := q.remote_addr.map ipOf
    createdAt := q.created_at.map instant
    path := q.path_and_query_skipped.path_and_query_matching.getD q.path_and_query_skipped.path_and_query }

/-- The request the action model reads (`Action::from_routes_rule(rules, Some(request))`): the sampling override
and the skipped query parameters. -/
def actionReqOfJson (q : Request) : Rio.Action.Req :=
  ⟨q.sampling_override, q.path_and_query_skipped.skipped_query_params⟩

end Rio.Json
