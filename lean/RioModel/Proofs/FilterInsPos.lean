/-
C04-2 (review C): WHERE an insert filter without selector puts its copies.  `IScript c pre P T out`: `out` renders the token
list `T` left to right, every token kept, and a copy of the value `c` placed IMMEDIATELY AFTER some opener tokens named on
the path (prepend_child, `pre = true`) resp. IMMEDIATELY BEFORE some closer tokens named on the path (append_child).
`fold_insert_nosel_strong`: the token loop of a fresh append_child / prepend_child stage WITHOUT selector renders any token
list this way (such a stage never buffers).  With a selector the stage buffers the element and re-tokenises it
(`append_child` / `prepend_child` of body_append.rs / body_prepend.rs): only the count bound `fold_len2` is proved then.
"Named on the path", not "named by the last path element": with an absent last element append_child acts on the parent
(observation O7).
-/
import RioModel.Proofs.FilterCount
set_option linter.unusedSimpArgs false
set_option linter.unusedVariables false

namespace Rio.Filter

inductive IScript (c : Bytes) (pre : Bool) (P : List Bytes) : List Tok → Bytes → Prop
  | nil : IScript c pre P [] []
  | keep (t : Tok) {T : List Tok} {o : Bytes} : IScript c pre P T o → IScript c pre P (T ++ [t]) (o ++ t.raw)
  | after (t : Tok) {T : List Tok} {o : Bytes} : pre = true → isOpener t = true → t.name ∈ P →
      IScript c pre P T o → IScript c pre P (T ++ [t]) (o ++ (t.raw ++ c))
  | before (t : Tok) {T : List Tok} {o : Bytes} : pre = false → isCloser t = true → t.name ∈ P →
      IScript c pre P T o → IScript c pre P (T ++ [t]) (o ++ (c ++ t.raw))

/-- a stage with an insert visitor without selector: it never buffers -/
structure NS (c : Bytes) (pre : Bool) (P : List Bytes) (s : HtmlSt) : Prop where
  kind : s.visitor.kind = (if pre then .prepend else .append)
  nosel : s.visitor.hasSel = false
  nobuf : s.visitor.isBuffering = false
  stack : s.stack = []
  content : s.visitor.content = c
  pinv : PInv P s

theorem hasSel_of_static {v w : Visitor} (h : v.static = w.static) : v.hasSel = w.hasSel := by
  simp [Visitor.static] at h
  simp [Visitor.hasSel, h.2.1]

theorem enter_nosel (v : Visitor) (d : Bytes) (hk : v.kind ≠ .replace) (hs : v.hasSel = false) (hb : v.isBuffering = false) :
    (v.enter d).1.2.2.1 = false ∧ (v.enter d).2.isBuffering = false ∧
    ((v.enter d).1.2.2.2 = d ∨ (v.kind = .prepend ∧ (v.enter d).1.2.2.2 = d ++ v.content)) := by
  unfold Visitor.enter
  split
  · refine ⟨rfl, ?_, Or.inl rfl⟩
    unfold Visitor.advance; split <;> exact hb
  · cases hkk : v.kind with
    | append => simp [hs, hb]
    | prepend => simp [hs, hb]
    | replace => exact absurd hkk hk

theorem leaveMove_isBuffering (v : Visitor) (g : Bool) : (v.leaveMove g).2.isBuffering = v.isBuffering := by
  unfold Visitor.leaveMove
  split
  · unfold Visitor.retreat; split <;> rfl
  · rfl

theorem leave_nosel (tk : Tokenize) (ev : Bytes → Bytes → Bool) (v : Visitor) (d : Bytes) (hk : v.kind ≠ .replace)
    (hs : v.hasSel = false) (hb : v.isBuffering = false) :
    (v.leave tk ev d).2.isBuffering = false ∧
    ((v.leave tk ev d).1.2.2 = d ∨ (v.kind = .append ∧ (v.leave tk ev d).1.2.2 = v.content ++ d)) := by
  have hm := leaveMove_isBuffering v true
  unfold Visitor.leave
  cases hkk : v.kind with
  | append =>
    simp only [hs, Bool.false_eq_true, if_false]
    split
    · refine ⟨hm.trans hb, ?_⟩; simp
    · refine ⟨hm.trans hb, ?_⟩; simp
  | prepend =>
    simp only [hs, hb, Bool.and_false, Bool.false_eq_true, if_false]
    refine ⟨hm.trans hb, ?_⟩; simp
  | replace => exact absurd hkk hk

section
variable (tk : Tokenize) (ev : Bytes → Bytes → Bool) {c : Bytes} {pre : Bool} {P : List Bytes}

theorem ns_kind_ne {s : HtmlSt} (h : NS c pre P s) : s.visitor.kind ≠ .replace := by
  rw [h.kind]; cases pre <;> simp

theorem onStart_nosel {s : HtmlSt} (h : NS c pre P s) (n d : Bytes) :
    NS c pre P (onStart s n d).1 ∧
    ((onStart s n d).2 = d ∨ (pre = true ∧ n ∈ P ∧ (onStart s n d).2 = d ++ c)) := by
  obtain ⟨a1, a2, _, _⟩ := onStart_len s n d h.pinv
  rw [onStart_eq] at a1 a2 ⊢
  by_cases he : s.enter = some n
  · rw [if_pos he] at a1 a2 ⊢
    obtain ⟨e1, e2, e3⟩ := enter_nosel s.visitor d (ns_kind_ne h) h.nosel h.nobuf
    simp only [e1, Bool.false_eq_true, if_false] at a1 a2 ⊢
    refine ⟨⟨?_, ?_, e2, h.stack, ?_, a2⟩, ?_⟩
    · rw [kind_of_static a1]; exact h.kind
    · rw [hasSel_of_static a1]; exact h.nosel
    · rw [content_of_static a1]; exact h.content
    · rcases e3 with e3 | ⟨k, e3⟩
      · exact Or.inl e3
      · right
        refine ⟨?_, h.pinv.enter n he, by rw [e3, h.content]⟩
        have := h.kind
        rw [k] at this
        cases pre with
        | true => rfl
        | false => exact absurd this (by simp)
  · rw [if_neg he]
    exact ⟨h, Or.inl rfl⟩

theorem onEnd_nosel {s : HtmlSt} (h : NS c pre P s) (n d : Bytes) :
    NS c pre P (onEnd tk ev s n d).1 ∧
    ((onEnd tk ev s n d).2 = d ∨ (pre = false ∧ n ∈ P ∧ (onEnd tk ev s n d).2 = c ++ d)) := by
  have hP := h.pinv
  have hpath := pathOf_leave tk ev s.visitor d
  obtain ⟨hn1, hn2⟩ := leave_names tk ev s.visitor d
  have hst := s.visitor.leave_static tk ev d
  rw [onEnd_eq]
  have htm : topMatches s.stack n = false := by rw [h.stack]; rfl
  simp only [htm, Bool.false_eq_true, if_false]
  by_cases hlv : s.leave = some n
  · simp only [if_pos hlv]
    obtain ⟨l1, l2⟩ := leave_nosel tk ev s.visitor d (ns_kind_ne h) h.nosel h.nobuf
    refine ⟨⟨?_, ?_, l1, h.stack, ?_, ⟨hpath.trans hP.path, fun x hx => hP.path ▸ hn1 x hx, fun x hx => hP.path ▸ hn2 x hx⟩⟩, ?_⟩
    · show (s.visitor.leave tk ev d).2.kind = _
      rw [kind_of_static hst]; exact h.kind
    · show (s.visitor.leave tk ev d).2.hasSel = false
      rw [hasSel_of_static hst]; exact h.nosel
    · show (s.visitor.leave tk ev d).2.content = c
      rw [content_of_static hst]; exact h.content
    · rcases l2 with l2 | ⟨k, l2⟩
      · exact Or.inl l2
      · right
        refine ⟨?_, hP.leave n hlv, by rw [l2, h.content]⟩
        have := h.kind
        rw [k] at this
        cases pre with
        | false => rfl
        | true => exact absurd this (by simp)
  · simp only [if_neg hlv]
    exact ⟨h, Or.inl (by first | rfl | trivial)⟩

theorem push_nosel {s : HtmlSt} (h : NS c pre P s) (out d : Bytes) : push s out d = (s, out ++ d) := by
  unfold push; rw [h.stack]

/-- one token: kept, or kept with a copy right after it (opener, prepend) / right before it (closer, append) -/
theorem stepTok_nosel {s : HtmlSt} {out : Bytes} {T : List Tok} (t : Tok) (h : NS c pre P s) (hr : IScript c pre P T out) :
    NS c pre P (stepTok tk ev (s, out) t).1 ∧ IScript c pre P (T ++ [t]) (stepTok tk ev (s, out) t).2 := by
  cases hk : t.kind with
  | startTag =>
    have hop : isOpener t = true := by simp [isOpener, hk]
    rw [stepTok_start tk ev s out t hk]
    obtain ⟨a1, a2⟩ := onStart_nosel h t.name t.raw
    generalize onStart s t.name t.raw = p1 at a1 a2
    obtain ⟨s1, d1⟩ := p1
    simp only at a1 a2 ⊢
    by_cases hv : isVoid t.name = true
    · rw [if_pos hv]
      have hcl : isCloser t = true := by simp [isCloser, hk, hv]
      obtain ⟨b1, b2⟩ := onEnd_nosel tk ev a1 t.name d1
      generalize onEnd tk ev s1 t.name d1 = p2 at b1 b2
      obtain ⟨s2, d2⟩ := p2
      simp only at b1 b2 ⊢
      rw [push_nosel b1]
      refine ⟨b1, ?_⟩
      rcases a2 with rfl | ⟨hp, hn, rfl⟩
      · rcases b2 with rfl | ⟨hp', hn', rfl⟩
        · exact .keep t hr
        · exact .before t hp' hcl hn' hr
      · rcases b2 with rfl | ⟨hp', _, _⟩
        · exact .after t hp hop hn hr
        · rw [hp] at hp'; cases hp'
    · rw [if_neg hv, push_nosel a1]
      refine ⟨a1, ?_⟩
      rcases a2 with rfl | ⟨hp, hn, rfl⟩
      · exact .keep t hr
      · exact .after t hp hop hn hr
  | endTag =>
    have hcl : isCloser t = true := by simp [isCloser, hk]
    rw [stepTok_end tk ev s out t hk]
    obtain ⟨b1, b2⟩ := onEnd_nosel tk ev h t.name t.raw
    generalize onEnd tk ev s t.name t.raw = p2 at b1 b2
    obtain ⟨s2, d2⟩ := p2
    simp only at b1 b2 ⊢
    rw [push_nosel b1]
    refine ⟨b1, ?_⟩
    rcases b2 with rfl | ⟨hp', hn', rfl⟩
    · exact .keep t hr
    · exact .before t hp' hcl hn' hr
  | selfClosing =>
    have hop : isOpener t = true := by simp [isOpener, hk]
    have hcl : isCloser t = true := by simp [isCloser, hk]
    rw [stepTok_self tk ev s out t hk]
    obtain ⟨a1, a2⟩ := onStart_nosel h t.name t.raw
    generalize onStart s t.name t.raw = p1 at a1 a2
    obtain ⟨s1, d1⟩ := p1
    simp only at a1 a2 ⊢
    obtain ⟨b1, b2⟩ := onEnd_nosel tk ev a1 t.name d1
    generalize onEnd tk ev s1 t.name d1 = p2 at b1 b2
    obtain ⟨s2, d2⟩ := p2
    simp only at b1 b2 ⊢
    rw [push_nosel b1]
    refine ⟨b1, ?_⟩
    rcases a2 with rfl | ⟨hp, hn, rfl⟩
    · rcases b2 with rfl | ⟨hp', hn', rfl⟩
      · exact .keep t hr
      · exact .before t hp' hcl hn' hr
    · rcases b2 with rfl | ⟨hp', _, _⟩
      · exact .after t hp hop hn hr
      · rw [hp] at hp'; cases hp'
  | text =>
    rw [stepTok_other tk ev s out t (by simp [hk, isTagKind]), push_nosel h]
    exact ⟨h, .keep t hr⟩
  | other =>
    rw [stepTok_other tk ev s out t (by simp [hk, isTagKind]), push_nosel h]
    exact ⟨h, .keep t hr⟩

theorem fold_nosel : ∀ (ts T : List Tok) (s : HtmlSt) (out : Bytes), NS c pre P s → IScript c pre P T out →
    NS c pre P (ts.foldl (stepTok tk ev) (s, out)).1 ∧ IScript c pre P (T ++ ts) (ts.foldl (stepTok tk ev) (s, out)).2
  | [], T, s, out, h, hr => by simpa using ⟨h, hr⟩
  | t :: ts, T, s, out, h, hr => by
    obtain ⟨a1, a2⟩ := stepTok_nosel tk ev t h hr
    rw [List.foldl_cons]
    generalize stepTok tk ev (s, out) t = p at a1 a2
    obtain ⟨s1, o1⟩ := p
    have := fold_nosel ts (T ++ [t]) s1 o1 a1 a2
    simpa [List.append_assoc] using this

/-- **The token loop of a fresh append_child / prepend_child stage WITHOUT selector**: every token is kept in place and
copies of the value go immediately after openers (prepend_child) / immediately before closers (append_child) named on the
path; nothing is buffered. -/
theorem fold_insert_nosel_strong (v : Visitor) (hk : v.kind ≠ .replace) (hb : v.before = []) (hnb : v.isBuffering = false)
    (hs : v.hasSel = false) (T : List Tok) :
    IScript v.content (v.kind == .prepend) (pathOf v) T (T.foldl (stepTok tk ev) (HtmlSt.new v, [])).2 ∧
      (T.foldl (stepTok tk ev) (HtmlSt.new v, [])).1.stack = [] := by
  have h0 : NS v.content (v.kind == .prepend) (pathOf v) (HtmlSt.new v) := by
    refine ⟨?_, hs, hnb, rfl, rfl, ⟨rfl, ?_, ?_⟩⟩
    · show v.kind = _
      cases hkk : v.kind <;> simp_all
    · intro x hx
      simp only [HtmlSt.new, Visitor.first, hb, List.reverse_nil] at hx
      injection hx with hx
      subst hx
      exact cur_mem_path v
    · intro x hx; simp [HtmlSt.new] at hx
  obtain ⟨a1, a2⟩ := fold_nosel tk ev T [] (HtmlSt.new v) [] h0 .nil
  exact ⟨by simpa using a2, a1.stack⟩

end

end Rio.Filter
