/-
Router proofs, part 1: association-list lemmas, unique ids, and the law interface `MLaws` every
matcher layer is proved to satisfy (the induction hypothesis of the layer tower).
-/
import RioModel.Model.RouterSpec

set_option linter.unusedSimpArgs false
set_option linter.unusedVariables false
set_option linter.unusedSectionVars false

namespace Rio.Router

/-! ### association lists -/

section
variable {K V : Type} [DecidableEq K]

@[simp] theorem alookup_nil (k : K) : alookup k ([] : List (K × V)) = none := rfl

theorem alookup_cons (k k' : K) (v : V) (l : List (K × V)) :
    alookup k ((k', v) :: l) = if k' = k then some v else alookup k l := rfl

theorem akeys_cons (k : K) (v : V) (l : List (K × V)) : akeys ((k, v) :: l) = k :: akeys l := rfl

@[simp] theorem akeys_nil : akeys ([] : List (K × V)) = [] := rfl

theorem mem_akeys_of_mem {k : K} {v : V} {l : List (K × V)} (h : (k, v) ∈ l) : k ∈ akeys l :=
  List.mem_map.mpr ⟨(k, v), h, rfl⟩

theorem alookup_eq_none_iff (k : K) (l : List (K × V)) : alookup k l = none ↔ k ∉ akeys l := by
  induction l with
  | nil => simp
  | cons a l ih =>
    obtain ⟨ka, va⟩ := a
    simp only [alookup_cons, akeys_cons, List.mem_cons]
    by_cases e : ka = k
    · simp [e]
    · simp only [e, if_false, ih]
      constructor
      · intro h1 h2; rcases h2 with h2 | h2
        · exact e h2.symm
        · exact h1 h2
      · intro h1 h2; exact h1 (Or.inr h2)

theorem mem_of_alookup {k : K} {v : V} {l : List (K × V)} (h : alookup k l = some v) : (k, v) ∈ l := by
  induction l with
  | nil => simp at h
  | cons a l ih =>
    obtain ⟨ka, va⟩ := a
    simp only [alookup_cons] at h
    by_cases e : ka = k
    · simp only [e, if_true, Option.some.injEq] at h; subst h; subst e; simp
    · simp only [e, if_false] at h; exact List.mem_cons_of_mem _ (ih h)

theorem alookup_of_mem {k : K} {v : V} {l : List (K × V)} (hn : (akeys l).Nodup) (h : (k, v) ∈ l) :
    alookup k l = some v := by
  induction l with
  | nil => simp at h
  | cons a l ih =>
    obtain ⟨ka, va⟩ := a
    simp only [akeys_cons, List.nodup_cons] at hn
    simp only [alookup_cons]
    rcases List.mem_cons.mp h with h | h
    · simp only [Prod.mk.injEq] at h; simp [h.1, h.2]
    · have : ka ≠ k := fun e => hn.1 (e ▸ mem_akeys_of_mem h)
      simp only [this, if_false]; exact ih hn.2 h

theorem mem_iff_alookup {l : List (K × V)} (hn : (akeys l).Nodup) (k : K) (v : V) :
    (k, v) ∈ l ↔ alookup k l = some v := ⟨alookup_of_mem hn, mem_of_alookup⟩

theorem alookup_aupsert (f : V → V) (emp : V) (k k' : K) (l : List (K × V)) :
    alookup k' (aupsert f emp k l) =
      if k' = k then some (f ((alookup k l).getD emp)) else alookup k' l := by
  induction l with
  | nil =>
    simp only [aupsert, alookup_cons, alookup_nil, Option.getD_none]
    by_cases e : k = k'
    · simp [e]
    · have : ¬ k' = k := fun h => e h.symm
      simp [e, this]
  | cons a l ih =>
    obtain ⟨ka, va⟩ := a
    simp only [aupsert]
    by_cases e : ka = k
    · subst e
      simp only [if_true, alookup_cons]
      by_cases e2 : ka = k'
      · subst e2; simp
      · have : ¬ k' = ka := fun h => e2 h.symm
        simp [e2, this]
    · simp only [e, if_false, alookup_cons, ih]
      by_cases e2 : ka = k'
      · subst e2; simp [e]
      · simp [e2]

theorem akeys_aupsert_mem (f : V → V) (emp : V) (k : K) (l : List (K × V)) (k' : K) :
    k' ∈ akeys (aupsert f emp k l) ↔ k' = k ∨ k' ∈ akeys l := by
  induction l with
  | nil => simp [aupsert, akeys]
  | cons a l ih =>
    obtain ⟨ka, va⟩ := a
    simp only [aupsert]
    by_cases e : ka = k
    · subst e; simp [akeys]
    · simp only [e, if_false, akeys_cons, List.mem_cons, ih]
      constructor
      · rintro (h | h | h)
        · exact Or.inr (Or.inl h)
        · exact Or.inl h
        · exact Or.inr (Or.inr h)
      · rintro (h | h | h)
        · exact Or.inr (Or.inl h)
        · exact Or.inl h
        · exact Or.inr (Or.inr h)

theorem akeys_aupsert_nodup (f : V → V) (emp : V) (k : K) (l : List (K × V))
    (h : (akeys l).Nodup) : (akeys (aupsert f emp k l)).Nodup := by
  induction l with
  | nil => simp [aupsert, akeys]
  | cons a l ih =>
    obtain ⟨ka, va⟩ := a
    simp only [akeys_cons, List.nodup_cons] at h
    simp only [aupsert]
    by_cases e : ka = k
    · subst e; simp only [if_true, akeys_cons, List.nodup_cons]; exact h
    · simp only [e, if_false, akeys_cons, List.nodup_cons]
      refine ⟨?_, ih h.2⟩
      rw [akeys_aupsert_mem]
      rintro (h1 | h1)
      · exact e h1
      · exact h.1 h1

/-- With distinct keys, a key-selecting `flatMap` is a lookup. -/
theorem flatMap_select {β : Type} (l : List (K × V)) (hn : (akeys l).Nodup) (k : K) (g : V → List β) :
    l.flatMap (fun e => if e.1 = k then g e.2 else []) = ((alookup k l).map g).getD [] := by
  induction l with
  | nil => simp
  | cons a l ih =>
    obtain ⟨ka, va⟩ := a
    simp only [akeys_cons, List.nodup_cons] at hn
    simp only [List.flatMap_cons, alookup_cons]
    by_cases e : ka = k
    · subst e
      have hnone : alookup ka l = none := (alookup_eq_none_iff _ _).2 hn.1
      have := ih hn.2
      simp only [hnone] at this
      simp [this]
    · simp [e, ih hn.2]

end

theorem nodup_of_map_nodup {α β : Type} (f : α → β) (l : List α) (h : (l.map f).Nodup) : l.Nodup := by
  induction l with
  | nil => simp
  | cons a l ih =>
    simp only [List.map_cons, List.nodup_cons, List.mem_map, not_exists, not_and] at h ⊢
    exact ⟨fun ha => h.1 a ha rfl, ih h.2⟩

/-! ### unique ids -/

/-- Routes with the same id are the same route (the list may repeat a route). -/
def UIds (L : List Route) : Prop := ∀ a ∈ L, ∀ b ∈ L, a.id = b.id → a = b

theorem UIds.mono {L L' : List Route} (h : UIds L) (hs : ∀ x ∈ L', x ∈ L) : UIds L' :=
  fun a ha b hb e => h a (hs a ha) b (hs b hb) e

theorem UIds.filter {L : List Route} (h : UIds L) (p : Route → Bool) : UIds (L.filter p) :=
  h.mono (fun x hx => (List.mem_filter.mp hx).1)

theorem UIds.tail {L : List Route} {r : Route} (h : UIds (r :: L)) : UIds L :=
  h.mono (fun x hx => List.mem_cons_of_mem _ hx)

theorem UIds.nil : UIds [] := fun a ha => by simp at ha

/-- `ids` of a duplicate-free list of routes with unique ids are duplicate-free. -/
theorem UIds.nodup_ids {L : List Route} (h : UIds L) (hn : L.Nodup) : (L.map (·.id)).Nodup := by
  induction L with
  | nil => simp
  | cons a L ih =>
    simp only [List.nodup_cons] at hn
    simp only [List.map_cons, List.nodup_cons, List.mem_map, not_exists, not_and]
    refine ⟨?_, ih h.tail hn.2⟩
    intro b hb e
    have : b = a := h b (List.mem_cons_of_mem _ hb) a (List.mem_cons_self ..) e
    exact hn.1 (this ▸ hb)

theorem nodupIds_uids {L : List Route} (h : (L.map (·.id)).Nodup) : UIds L ∧ L.Nodup := by
  induction L with
  | nil => exact ⟨UIds.nil, List.nodup_nil⟩
  | cons a L ih =>
    simp only [List.map_cons, List.nodup_cons, List.mem_map, not_exists, not_and] at h
    obtain ⟨ihU, ihN⟩ := ih h.2
    refine ⟨?_, ?_⟩
    · intro x hx y hy e
      rcases List.mem_cons.mp hx with hx1 | hx1 <;> rcases List.mem_cons.mp hy with hy1 | hy1
      · rw [hx1, hy1]
      · rw [hx1] at e; exact absurd e.symm (h.1 y hy1)
      · rw [hy1] at e; exact absurd e (h.1 x hx1)
      · exact ihU x hx1 y hy1 e
    · simp only [List.nodup_cons]
      exact ⟨fun ha => h.1 a ha rfl, ihN⟩

/-! ### report-once by id -/

theorem pushNew_nil (acc : List Route) : pushNew acc [] = acc := rfl

theorem pushNew_cons (acc : List Route) (r : Route) (new : List Route) :
    pushNew acc (r :: new) =
      pushNew (if acc.any (fun x => x.id == r.id) then acc else acc ++ [r]) new := rfl

theorem pushNew_mem (L : List Route) (hU : UIds L) (new : List Route) (x : Route) :
    ∀ acc, (∀ y ∈ acc, y ∈ L) → (∀ y ∈ new, y ∈ L) →
      (x ∈ pushNew acc new ↔ x ∈ acc ∨ x ∈ new) := by
  induction new with
  | nil => intro acc _ _; simp [pushNew_nil]
  | cons r new ih =>
    intro acc hacc hnew
    rw [pushNew_cons]
    have hr : r ∈ L := hnew r (List.mem_cons_self ..)
    have hnew' : ∀ y ∈ new, y ∈ L := fun y hy => hnew y (List.mem_cons_of_mem _ hy)
    by_cases hany : acc.any (fun y => y.id == r.id) = true
    · simp only [hany, if_true]
      rw [ih acc hacc hnew']
      have hin : r ∈ acc := by
        rw [List.any_eq_true] at hany
        obtain ⟨y, hy, hid⟩ := hany
        have : y = r := hU y (hacc y hy) r hr (by simpa using hid)
        exact this ▸ hy
      constructor
      · rintro (h | h)
        · exact Or.inl h
        · exact Or.inr (List.mem_cons_of_mem _ h)
      · rintro (h | h)
        · exact Or.inl h
        · rcases List.mem_cons.mp h with h | h
          · exact Or.inl (h ▸ hin)
          · exact Or.inr h
    · simp only [hany, if_false, Bool.false_eq_true]
      rw [ih (acc ++ [r]) (by
        intro y hy
        rcases List.mem_append.mp hy with hy | hy
        · exact hacc y hy
        · simp at hy; exact hy ▸ hr) hnew']
      simp only [List.mem_append, List.mem_singleton, List.mem_cons, List.not_mem_nil, or_false]
      constructor
      · rintro ((h | h) | h)
        · exact Or.inl h
        · exact Or.inr (Or.inl h)
        · exact Or.inr (Or.inr h)
      · rintro (h | h | h)
        · exact Or.inl (Or.inl h)
        · exact Or.inl (Or.inr h)
        · exact Or.inr h

theorem pushNew_nodupIds (new : List Route) :
    ∀ acc, (acc.map (·.id)).Nodup → ((pushNew acc new).map (·.id)).Nodup := by
  induction new with
  | nil => intro acc h; exact h
  | cons r new ih =>
    intro acc h
    rw [pushNew_cons]
    by_cases hany : acc.any (fun y => y.id == r.id) = true
    · simp only [hany, if_true]; exact ih acc h
    · simp only [hany, if_false, Bool.false_eq_true]
      apply ih
      rw [List.map_append, List.nodup_append]
      refine ⟨h, by simp, ?_⟩
      intro a ha b hb hab
      simp only [List.map_cons, List.map_nil, List.mem_singleton] at hb
      subst hab
      apply hany
      rw [List.any_eq_true]
      obtain ⟨y, hy, hid⟩ := List.mem_map.mp ha
      exact ⟨y, hy, by simp [hid, hb]⟩

/-! ### the law interface of a layer -/

/-- What is proved about every matcher layer.  `Repr m L`: state `m` represents the list `L` of
inserted, not yet removed routes (a route may be listed several times: a rule listing the same
method twice is inserted twice into the same bucket).  `sat L r q`: the layer's (and the layers'
below) triggers of `r` accept `q`; it depends on `L` only through the any-host fallback. -/
structure MLaws (I : MOps) where
  Repr : I.M → List Route → Prop
  sat : List Route → Route → Req → Bool
  /-- routes that can be found again by `remove` (every route built by `IntoRoute`) -/
  wf : Route → Prop
  /-- routes that may be inserted: `True` for the specification-level layers; for the layers over
  the real regex-tree model "the route's pattern is in the domain of property C08" -/
  okIns : Route → Prop
  sat_congr : ∀ L L' r q, (∀ x, x ∈ L ↔ x ∈ L') → sat L r q = sat L' r q
  repr_empty : Repr I.empty []
  repr_congr : ∀ m L L', Repr m L → L'.Sublist L → (∀ r ∈ L, r ∈ L') → Repr m L'
  len_zero : ∀ m L, Repr m L → I.len m = 0 → L = []
  repr_insert : ∀ m L r, Repr m L → UIds (r :: L) → okIns r → Repr (I.insert r m) (r :: L)
  repr_remove : ∀ m L id, Repr m L → UIds L →
    Repr (I.remove id m).1 (L.filter (fun r => r.id != id))
  remove_some : ∀ m L id r, Repr m L → UIds L → r ∈ L → wf r → r.id = id → (I.remove id m).2 = some r
  remove_none : ∀ m L id, Repr m L → (∀ r ∈ L, r.id ≠ id) → (I.remove id m).2 = none
  /-- `self.count -= 1` never underflows: it is executed only when `remove` found the route, and then
  the count is positive -/
  remove_pos : ∀ m L id, Repr m L → (I.remove id m).2.isSome = true → 0 < I.len m
  repr_batch : ∀ m L ids, Repr m L →
    Repr (I.batchRemove ids m) (L.filter (fun r => !ids.contains r.id))
  /-- `cache` compiles regexes only: the state represents the same routes afterwards … -/
  repr_cache : ∀ m L limit level, Repr m L → Repr (I.cache limit level m).1 L
  /-- … and the budget it returns is at most the budget it received -/
  cache_le : ∀ m limit level, (I.cache limit level m).2 ≤ limit
  mem_match : ∀ m L q r, Repr m L → UIds L → (r ∈ I.matchReq m q ↔ r ∈ L ∧ sat L r q = true)
  nodup_match : ∀ m L q, Repr m L → UIds L → (I.matchReq m q).Nodup
  mem_trace : ∀ m L q r, Repr m L → UIds L → (r ∈ rawRoutesOfList (I.trace m q) ↔ r ∈ I.matchReq m q)

end Rio.Router
