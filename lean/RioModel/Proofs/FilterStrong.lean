/-
C04, strong form for REPLACE stages: what a replace visitor substitutes is an ELEMENT SPAN of the token stream — a run of
whole consecutive tokens that starts with a start tag named by the LAST element of the filter's path and ends with the
first closer of that name (end tag / self-closing tag; or the single void / self-closing tag) — spans never overlap, every
other token is kept in place.  `RScript tgt c T out`: `out` is the left-to-right rendering of the token list `T` in which
some element spans are replaced by the value `c` (one pass, non-overlapping).

`fold_replace_strong`: the token loop of `HtmlFilterBodyAction` with a fresh replace visitor renders ANY token list this
way (`ledger` = emitted bytes followed by what is still buffered).  Lifted to whole bodies in Props/C04strong.lean.
-/
import RioModel.Proofs.FilterHtml
set_option linter.unusedSimpArgs false
set_option linter.unusedVariables false

namespace Rio.Filter

/-- a token that closes the element `tgt` for `HtmlFilterBodyAction`: an end tag or a self-closing tag of that name (or a
start tag of that name when the name is a void element) -/
def Closer (tgt : Bytes) (t : Tok) : Prop :=
  t.name = tgt ∧ (t.kind = .endTag ∨ t.kind = .selfClosing ∨ (t.kind = .startTag ∧ isVoid t.name = true))

/-- **element span** of `tgt`: one void / self-closing tag named `tgt`, or a start tag named `tgt`, tokens that do not
close `tgt`, and the first closer of `tgt` -/
def ElemSpan (tgt : Bytes) (ts : List Tok) : Prop :=
  (∃ t, ts = [t] ∧ t.name = tgt ∧ (t.kind = .selfClosing ∨ (t.kind = .startTag ∧ isVoid tgt = true))) ∨
  (∃ t1 mid t2, ts = t1 :: mid ++ [t2] ∧ t1.kind = .startTag ∧ t1.name = tgt ∧ isVoid tgt = false ∧
    (∀ t ∈ mid, ¬ Closer tgt t) ∧ Closer tgt t2)

/-- one-pass rendering of a token list: every token is kept, or a whole element span of `tgt` is replaced by `c` -/
inductive RScript (tgt c : Bytes) : List Tok → Bytes → Prop
  | nil : RScript tgt c [] []
  | keep (t : Tok) {T : List Tok} {o : Bytes} : RScript tgt c T o → RScript tgt c (T ++ [t]) (o ++ t.raw)
  | rep (ts : List Tok) {T : List Tok} {o : Bytes} : ElemSpan tgt ts → RScript tgt c T o → RScript tgt c (T ++ ts) (o ++ c)

theorem RScript.keeps {tgt c : Bytes} {T : List Tok} {o : Bytes} (h : RScript tgt c T o) :
    ∀ ts : List Tok, RScript tgt c (T ++ ts) (o ++ rawsOf ts) := by
  intro ts
  induction ts generalizing T o with
  | nil => simpa [rawsOf] using h
  | cons t ts ih =>
    have := ih (RScript.keep t h)
    simpa [rawsOf_cons, List.append_assoc] using this

/-- nothing is replaced when the value never fires: the rendering of `T` without `rep` is `rawsOf T` -/
theorem RScript.refl (tgt c : Bytes) (T : List Tok) : RScript tgt c T (rawsOf T) := by
  have := (RScript.nil (tgt := tgt) (c := c)).keeps T
  simpa using this

/-! ### the replace visitor -/

def pathOf (v : Visitor) : List Bytes := v.before.reverse ++ v.cur :: v.after

theorem pathOf_advance (v : Visitor) (h : v.after ≠ []) : pathOf v.advance = pathOf v := by
  unfold Visitor.advance pathOf
  cases ha : v.after with
  | nil => exact absurd ha h
  | cons a rest => simp

theorem pathOf_retreat (v : Visitor) (h : v.before ≠ []) : pathOf v.retreat = pathOf v := by
  unfold Visitor.retreat pathOf
  cases hb : v.before with
  | nil => exact absurd hb h
  | cons b rest => simp

theorem enter_replace (v : Visitor) (d : Bytes) (hk : v.kind = .replace) :
    v.enter d = if v.after ≠ [] then ((some v.advance.cur, some v.cur, false, d), v.advance)
      else ((none, some v.cur, true, d), { v with isBuffering := true }) := by
  unfold Visitor.enter
  split
  · rfl
  · simp [hk]

theorem leave_replace_idle (tk : Tokenize) (ev : Bytes → Bytes → Bool) (v : Visitor) (d : Bytes)
    (hk : v.kind = .replace) (hb : v.isBuffering = false) :
    v.leave tk ev d = ((some v.cur, (v.leaveMove true).1, d), (v.leaveMove true).2) := by
  unfold Visitor.leave
  simp [hk, hb]

theorem leave_replace_buf (tk : Tokenize) (ev : Bytes → Bytes → Bool) (v : Visitor) (d : Bytes)
    (hk : v.kind = .replace) (hb : v.isBuffering = true) :
    (v.leave tk ev d).2 = { v with isBuffering := false } ∧ (v.leave tk ev d).1.1 = some v.cur ∧
    (v.leave tk ev d).1.2.1 = none ∧ ((v.leave tk ev d).1.2.2 = v.content ∨ (v.leave tk ev d).1.2.2 = d) := by
  unfold Visitor.leave
  simp only [hk, hb, Bool.not_true, Visitor.leaveMove, Bool.false_eq_true, and_false, if_false, if_true]
  split
  · exact ⟨rfl, rfl, rfl, Or.inl rfl⟩
  · split
    · exact ⟨rfl, rfl, rfl, Or.inl rfl⟩
    · exact ⟨rfl, rfl, rfl, Or.inr rfl⟩

/-! ### the two states of a replace stage -/

/-- not inside a target element: nothing buffered -/
structure Idle (P : List Bytes) (s : HtmlSt) : Prop where
  kind : s.visitor.kind = .replace
  path : pathOf s.visitor = P
  nobuf : s.visitor.isBuffering = false
  stack : s.stack = []
  enterOK : ∀ x, s.enter = some x → x = s.visitor.cur ∨ s.visitor.after.head? = some x

/-- inside a target element whose bytes so far are `buf` -/
structure Buf (P : List Bytes) (tgt : Bytes) (s : HtmlSt) (buf : Bytes) : Prop where
  kind : s.visitor.kind = .replace
  path : pathOf s.visitor = P
  after : s.visitor.after = []
  cur : s.visitor.cur = tgt
  isbuf : s.visitor.isBuffering = true
  stack : s.stack = [⟨buf, tgt⟩]
  enter : s.enter = none
  leave : s.leave = some tgt

section
variable (tk : Tokenize) (ev : Bytes → Bytes → Bool) {P : List Bytes} {tgt : Bytes}

theorem push_idle {s : HtmlSt} (h : Idle P s) (out d : Bytes) : push s out d = (s, out ++ d) := by
  unfold push
  rw [h.stack]

theorem push_buf {s : HtmlSt} {buf : Bytes} (h : Buf P tgt s buf) (out d : Bytes) :
    (push s out d).2 = out ∧ Buf P tgt (push s out d).1 (buf ++ d) := by
  unfold push
  rw [h.stack]
  exact ⟨rfl, ⟨h.kind, h.path, h.after, h.cur, h.isbuf, rfl, h.enter, h.leave⟩⟩

theorem onStart_buf {s : HtmlSt} {buf : Bytes} (h : Buf P tgt s buf) (n d : Bytes) : onStart s n d = (s, d) := by
  rw [onStart_eq, if_neg (by rw [h.enter]; simp)]

theorem onEnd_buf_other {s : HtmlSt} {buf : Bytes} (h : Buf P tgt s buf) (n d : Bytes) (hn : n ≠ tgt) :
    onEnd tk ev s n d = (s, d) := by
  rw [onEnd_eq]
  have htm : topMatches s.stack n = false := by
    rw [h.stack]; simp [topMatches]; exact fun e => hn e.symm
  have hlv : ¬ s.leave = some n := by rw [h.leave]; simp; exact fun e => hn e.symm
  simp only [htm, Bool.false_eq_true, if_false, if_neg hlv]

theorem onEnd_buf_close {s : HtmlSt} {buf : Bytes} (h : Buf P tgt s buf) (d : Bytes) :
    Idle P (onEnd tk ev s tgt d).1 ∧
      ((onEnd tk ev s tgt d).2 = s.visitor.content ∨ (onEnd tk ev s tgt d).2 = buf ++ d) ∧
      (onEnd tk ev s tgt d).1.visitor.content = s.visitor.content := by
  rw [onEnd_eq]
  have htm : topMatches s.stack tgt = true := by rw [h.stack]; simp [topMatches]
  have htb : topBuffer s.stack = buf := by rw [h.stack]; rfl
  simp only [htm, if_true, if_pos h.leave, htb]
  obtain ⟨l1, l2, l3, l4⟩ := leave_replace_buf tk ev s.visitor (buf ++ d) h.kind h.isbuf
  refine ⟨⟨?_, ?_, ?_, ?_, ?_⟩, l4, ?_⟩
  · simp only [l1]; exact h.kind
  · simp only [l1]; exact h.path
  · simp only [l1]
  · simp only [h.stack, List.tail_cons]
  · intro x hx
    simp only [l2] at hx
    injection hx with hx
    left; simp only [l1]; exact hx.symm
  · simp only [l1]

theorem leaveMove_idle (v : Visitor) (g : Bool) :
    pathOf (v.leaveMove g).2 = pathOf v ∧ (v.leaveMove g).2.kind = v.kind ∧
    (v.leaveMove g).2.isBuffering = v.isBuffering ∧
    ((v.leaveMove g).2.cur = v.cur ∨ (v.leaveMove g).2.after.head? = some v.cur) := by
  unfold Visitor.leaveMove
  split
  · rename_i hc
    refine ⟨pathOf_retreat v hc.1, ?_, ?_, Or.inr ?_⟩
    all_goals
      unfold Visitor.retreat
      cases hb : v.before with
      | nil => exact absurd hb hc.1
      | cons b rest => simp
  · exact ⟨rfl, rfl, rfl, Or.inl rfl⟩

theorem onEnd_idle {s : HtmlSt} (h : Idle P s) (n d : Bytes) :
    (onEnd tk ev s n d).2 = d ∧ Idle P (onEnd tk ev s n d).1 ∧
      (onEnd tk ev s n d).1.visitor.content = s.visitor.content := by
  rw [onEnd_eq]
  have htm : topMatches s.stack n = false := by rw [h.stack]; rfl
  simp only [htm, Bool.false_eq_true, if_false]
  by_cases hlv : s.leave = some n
  · simp only [if_pos hlv]
    rw [leave_replace_idle tk ev s.visitor d h.kind h.nobuf]
    obtain ⟨m1, m2, m3, m4⟩ := leaveMove_idle s.visitor true
    refine ⟨rfl, ⟨by simpa using m2.trans h.kind, by simpa using m1.trans h.path, by simpa using m3.trans h.nobuf,
      h.stack, ?_⟩, ?_⟩
    · intro x hx
      simp only at hx
      injection hx with hx
      subst hx
      rcases m4 with m4 | m4
      · left; exact m4.symm
      · right; exact m4
    · simp only
      unfold Visitor.leaveMove
      split
      · unfold Visitor.retreat; split <;> rfl
      · rfl
  · simp only [if_neg hlv]
    exact ⟨(by first | rfl | trivial), h, (by first | rfl | trivial)⟩

/-- a start tag seen outside a target: either nothing is buffered, or the tag is a `tgt` start tag at the end of the path
and buffering starts (empty buffer) -/
theorem onStart_idle {s : HtmlSt} (h : Idle P s) (htgt : P.getLast? = some tgt) (n d : Bytes) :
    (onStart s n d).2 = d ∧ (onStart s n d).1.visitor.content = s.visitor.content ∧
      (Idle P (onStart s n d).1 ∨ (n = tgt ∧ Buf P tgt (onStart s n d).1 [])) := by
  rw [onStart_eq]
  by_cases he : s.enter = some n
  · rw [if_pos he, enter_replace s.visitor d h.kind]
    by_cases ha : s.visitor.after ≠ []
    · rw [if_pos ha]
      simp only [Bool.false_eq_true, if_false]
      refine ⟨(by first | rfl | trivial), ?_, Or.inl ⟨?_, ?_, ?_, h.stack, ?_⟩⟩
      · unfold Visitor.advance; split <;> rfl
      · have := s.visitor.advance_static; simp [Visitor.static] at this; exact this.1.trans h.kind
      · exact (pathOf_advance s.visitor ha).trans h.path
      · unfold Visitor.advance; split
        · exact h.nobuf
        · exact h.nobuf
      · intro x hx
        simp only at hx
        injection hx with hx
        left; exact hx.symm
    · rw [if_neg ha]
      simp only [if_true]
      have ha' : s.visitor.after = [] := by simpa using ha
      have hcur : n = s.visitor.cur := by
        rcases h.enterOK n he with e | e
        · exact e
        · rw [ha'] at e; simp at e
      have htg : s.visitor.cur = tgt := by
        have hp := h.path
        unfold pathOf at hp
        rw [ha'] at hp
        rw [← hp] at htgt
        simpa using htgt
      refine ⟨(by first | rfl | trivial), (by first | rfl | trivial), Or.inr ⟨hcur.trans htg, ⟨h.kind, ?_, ha', htg, rfl, ?_, rfl, ?_⟩⟩⟩
      · exact h.path
      · simp only [h.stack, hcur, htg]
      · simp only [htg]
  · rw [if_neg he]
    exact ⟨rfl, rfl, Or.inl h⟩

end

/-! ### the invariant of the token loop -/

/-- after the tokens `T`: either idle with `T` rendered into `out`, or inside a target element that began at `t1` -/
def FInv (P : List Bytes) (tgt c : Bytes) (T : List Tok) (so : HtmlSt × Bytes) : Prop :=
  so.1.visitor.content = c ∧
  ((Idle P so.1 ∧ RScript tgt c T so.2) ∨
   (∃ T0 t1 mid, Buf P tgt so.1 (rawsOf (t1 :: mid)) ∧ T = T0 ++ t1 :: mid ∧ RScript tgt c T0 so.2 ∧
      t1.kind = .startTag ∧ t1.name = tgt ∧ isVoid tgt = false ∧ ∀ t ∈ mid, ¬ Closer tgt t))

section
variable (tk : Tokenize) (ev : Bytes → Bytes → Bool) {P : List Bytes} {tgt c : Bytes}

theorem finv_keep {s : HtmlSt} {T : List Tok} {out : Bytes} (t : Tok) (hc : s.visitor.content = c) (h : Idle P s)
    (hr : RScript tgt c T out) : FInv P tgt c (T ++ [t]) (s, out ++ t.raw) :=
  ⟨hc, Or.inl ⟨h, .keep t hr⟩⟩

/-- the target element that began at `t1` is closed by `t` -/
theorem finv_close {s : HtmlSt} {T0 mid : List Tok} {t1 : Tok} {out : Bytes} (t : Tok)
    (hc : s.visitor.content = c) (hB : Buf P tgt s (rawsOf (t1 :: mid))) (hr : RScript tgt c T0 out)
    (h1 : t1.kind = .startTag) (h2 : t1.name = tgt) (h3 : isVoid tgt = false) (h4 : ∀ t ∈ mid, ¬ Closer tgt t)
    (hcl : Closer tgt t) :
    FInv P tgt c ((T0 ++ t1 :: mid) ++ [t])
      (push (onEnd tk ev s tgt t.raw).1 out (onEnd tk ev s tgt t.raw).2) := by
  obtain ⟨i1, i2, i3⟩ := onEnd_buf_close tk ev hB t.raw
  rw [push_idle i1]
  have hT : (T0 ++ t1 :: mid) ++ [t] = T0 ++ (t1 :: mid ++ [t]) := by simp
  refine ⟨i3.trans hc, Or.inl ⟨i1, ?_⟩⟩
  rw [hT]
  rcases i2 with i2 | i2
  · rw [i2, hc]
    exact .rep _ (Or.inr ⟨t1, mid, t, rfl, h1, h2, h3, h4, hcl⟩) hr
  · rw [i2]
    have := hr.keeps (t1 :: mid ++ [t])
    have e : rawsOf (t1 :: mid ++ [t]) = rawsOf (t1 :: mid) ++ t.raw := by
      have : t1 :: mid ++ [t] = (t1 :: mid) ++ [t] := rfl
      rw [this, rawsOf_append]; simp [rawsOf]
    rw [e] at this
    exact this

/-- one more token inside the target element -/
theorem finv_more {s : HtmlSt} {T0 mid : List Tok} {t1 : Tok} {out : Bytes} (t : Tok)
    (hc : s.visitor.content = c) (hB : Buf P tgt s (rawsOf (t1 :: mid))) (hr : RScript tgt c T0 out)
    (h1 : t1.kind = .startTag) (h2 : t1.name = tgt) (h3 : isVoid tgt = false) (h4 : ∀ t ∈ mid, ¬ Closer tgt t)
    (hncl : ¬ Closer tgt t) :
    FInv P tgt c ((T0 ++ t1 :: mid) ++ [t]) (push s out t.raw) := by
  obtain ⟨p1, p2⟩ := push_buf hB out t.raw
  refine ⟨?_, Or.inr ⟨T0, t1, mid ++ [t], ?_, by simp, ?_, h1, h2, h3, ?_⟩⟩
  · have : (push s out t.raw).1.visitor = s.visitor := by
      unfold push; rw [hB.stack]
    rw [this]; exact hc
  · have e : rawsOf (t1 :: (mid ++ [t])) = rawsOf (t1 :: mid) ++ t.raw := by
      have : t1 :: (mid ++ [t]) = (t1 :: mid) ++ [t] := rfl
      rw [this, rawsOf_append]; simp [rawsOf]
    rw [e]; exact p2
  · rw [p1]; exact hr
  · intro t' ht'
    simp only [List.mem_append, List.mem_singleton] at ht'
    rcases ht' with ht' | rfl
    · exact h4 t' ht'
    · exact hncl

/-- **one step of the token loop keeps the invariant** -/
theorem stepTok_finv (htgt : P.getLast? = some tgt) (T : List Tok) (so : HtmlSt × Bytes) (t : Tok)
    (h : FInv P tgt c T so) : FInv P tgt c (T ++ [t]) (stepTok tk ev so t) := by
  obtain ⟨s, out⟩ := so
  obtain ⟨hc, h⟩ := h
  simp only at hc h
  rcases h with ⟨hI, hr⟩ | ⟨T0, t1, mid, hB, rfl, hr, h1, h2, h3, h4⟩
  · -- idle
    cases hk : t.kind with
    | startTag =>
      rw [stepTok_start tk ev s out t hk]
      obtain ⟨e1, e2, e3⟩ := onStart_idle hI htgt t.name t.raw
      generalize onStart s t.name t.raw = p at e1 e2 e3
      obtain ⟨s1, d1⟩ := p
      simp only at e1 e2 e3
      subst e1
      rcases e3 with hI1 | ⟨hn, hB1⟩
      · by_cases hv : isVoid t.name = true
        · rw [if_pos hv]
          obtain ⟨f1, f2, f3⟩ := onEnd_idle tk ev hI1 t.name t.raw
          rw [f1, push_idle f2]
          exact finv_keep t (f3.trans (e2.trans hc)) f2 hr
        · rw [if_neg hv, push_idle hI1]
          exact finv_keep t (e2.trans hc) hI1 hr
      · by_cases hv : isVoid t.name = true
        · rw [if_pos hv, hn]
          obtain ⟨i1, i2, i3⟩ := onEnd_buf_close tk ev hB1 t.raw
          rw [push_idle i1]
          refine ⟨i3.trans (e2.trans hc), Or.inl ⟨i1, ?_⟩⟩
          rcases i2 with i2 | i2
          · rw [i2, e2, hc]
            exact .rep [t] (Or.inl ⟨t, rfl, hn, Or.inr ⟨hk, by rw [← hn]; exact hv⟩⟩) hr
          · rw [i2]
            simpa using RScript.keep t hr
        · rw [if_neg hv]
          obtain ⟨p1, p2⟩ := push_buf hB1 out t.raw
          refine ⟨?_, Or.inr ⟨T, t, [], ?_, by simp, ?_, hk, hn, ?_, by simp⟩⟩
          · have : (push s1 out t.raw).1.visitor = s1.visitor := by
              unfold push; rw [hB1.stack]
            rw [this]; exact e2.trans hc
          · have e : rawsOf [t] = [] ++ t.raw := by simp [rawsOf]
            rw [e]; exact p2
          · rw [p1]; exact hr
          · rw [← hn]; simpa using hv
    | endTag =>
      rw [stepTok_end tk ev s out t hk]
      obtain ⟨f1, f2, f3⟩ := onEnd_idle tk ev hI t.name t.raw
      rw [f1, push_idle f2]
      exact finv_keep t (f3.trans hc) f2 hr
    | selfClosing =>
      rw [stepTok_self tk ev s out t hk]
      obtain ⟨e1, e2, e3⟩ := onStart_idle hI htgt t.name t.raw
      generalize onStart s t.name t.raw = p at e1 e2 e3
      obtain ⟨s1, d1⟩ := p
      simp only at e1 e2 e3
      subst e1
      rcases e3 with hI1 | ⟨hn, hB1⟩
      · obtain ⟨f1, f2, f3⟩ := onEnd_idle tk ev hI1 t.name t.raw
        rw [f1, push_idle f2]
        exact finv_keep t (f3.trans (e2.trans hc)) f2 hr
      · rw [hn]
        obtain ⟨i1, i2, i3⟩ := onEnd_buf_close tk ev hB1 t.raw
        rw [push_idle i1]
        refine ⟨i3.trans (e2.trans hc), Or.inl ⟨i1, ?_⟩⟩
        rcases i2 with i2 | i2
        · rw [i2, e2, hc]
          exact .rep [t] (Or.inl ⟨t, rfl, hn, Or.inl hk⟩) hr
        · rw [i2]
          simpa using RScript.keep t hr
    | text =>
      rw [stepTok_other tk ev s out t (by simp [hk, isTagKind]), push_idle hI]
      exact finv_keep t hc hI hr
    | other =>
      rw [stepTok_other tk ev s out t (by simp [hk, isTagKind]), push_idle hI]
      exact finv_keep t hc hI hr
  · -- inside the target element
    cases hk : t.kind with
    | startTag =>
      rw [stepTok_start tk ev s out t hk, onStart_buf hB]
      simp only
      by_cases hv : isVoid t.name = true
      · rw [if_pos hv]
        have hn : t.name ≠ tgt := by
          intro e; rw [e, h3] at hv; cases hv
        rw [onEnd_buf_other tk ev hB t.name t.raw hn]
        exact finv_more t hc hB hr h1 h2 h3 h4 (fun hcl => hn hcl.1)
      · rw [if_neg hv]
        refine finv_more t hc hB hr h1 h2 h3 h4 ?_
        intro hcl
        rcases hcl.2 with e | e | e
        · rw [hk] at e; cases e
        · rw [hk] at e; cases e
        · exact hv e.2
    | endTag =>
      rw [stepTok_end tk ev s out t hk]
      by_cases hn : t.name = tgt
      · rw [hn]
        exact finv_close tk ev t hc hB hr h1 h2 h3 h4 ⟨hn, Or.inl hk⟩
      · rw [onEnd_buf_other tk ev hB t.name t.raw hn]
        exact finv_more t hc hB hr h1 h2 h3 h4 (fun hcl => hn hcl.1)
    | selfClosing =>
      rw [stepTok_self tk ev s out t hk, onStart_buf hB]
      simp only
      by_cases hn : t.name = tgt
      · rw [hn]
        exact finv_close tk ev t hc hB hr h1 h2 h3 h4 ⟨hn, Or.inr (Or.inl hk)⟩
      · rw [onEnd_buf_other tk ev hB t.name t.raw hn]
        exact finv_more t hc hB hr h1 h2 h3 h4 (fun hcl => hn hcl.1)
    | text =>
      rw [stepTok_other tk ev s out t (by simp [hk, isTagKind])]
      refine finv_more t hc hB hr h1 h2 h3 h4 ?_
      intro hcl
      rcases hcl.2 with e | e | ⟨e, _⟩ <;> (rw [hk] at e; cases e)
    | other =>
      rw [stepTok_other tk ev s out t (by simp [hk, isTagKind])]
      refine finv_more t hc hB hr h1 h2 h3 h4 ?_
      intro hcl
      rcases hcl.2 with e | e | ⟨e, _⟩ <;> (rw [hk] at e; cases e)

theorem fold_finv (htgt : P.getLast? = some tgt) : ∀ (ts T : List Tok) (so : HtmlSt × Bytes),
    FInv P tgt c T so → FInv P tgt c (T ++ ts) (ts.foldl (stepTok tk ev) so)
  | [], T, so, h => by simpa using h
  | t :: ts, T, so, h => by
    have := fold_finv htgt ts (T ++ [t]) _ (stepTok_finv tk ev htgt T so t h)
    simpa [List.append_assoc] using this

/-- the invariant gives the rendering of the ledger: what is still buffered is kept -/
theorem finv_ledger {T : List Tok} {so : HtmlSt × Bytes} (h : FInv P tgt c T so) :
    RScript tgt c T (ledger so.1 so.2) := by
  obtain ⟨_, h⟩ := h
  rcases h with ⟨hI, hr⟩ | ⟨T0, t1, mid, hB, rfl, hr, _⟩
  · simpa [ledger, hI.stack] using hr
  · have := hr.keeps (t1 :: mid)
    simpa [ledger, hB.stack, flat] using this

/-- **The token loop of a fresh replace stage renders any token list by replacing non-overlapping element spans of the
target (the last element of the path) and keeping every other token in place.** -/
theorem fold_replace_strong (v : Visitor) (hk : v.kind = .replace) (hb : v.before = []) (hnb : v.isBuffering = false)
    (htgt : (pathOf v).getLast? = some tgt) (T : List Tok) :
    RScript tgt v.content T
      (ledger (T.foldl (stepTok tk ev) (HtmlSt.new v, [])).1 (T.foldl (stepTok tk ev) (HtmlSt.new v, [])).2) := by
  have h0 : FInv (pathOf v) tgt v.content [] (HtmlSt.new v, []) := by
    refine ⟨rfl, Or.inl ⟨⟨hk, rfl, hnb, rfl, ?_⟩, .nil⟩⟩
    intro x hx
    left
    simp only [HtmlSt.new, Visitor.first, hb, List.reverse_nil] at hx
    injection hx with hx
    exact hx.symm
  have := fold_finv tk ev htgt T [] _ h0
  simpa using finv_ledger this

end

/-! ### nothing targeted: the stage is the identity (any visitor) -/

section
variable (tk : Tokenize) (ev : Bytes → Bytes → Bool)

/-- while no start / self-closing tag carries the name the stage is waiting for, the token loop copies the tokens -/
theorem fold_untargeted : ∀ (T : List Tok) (s : HtmlSt) (out : Bytes), s.stack = [] → s.leave = none →
    (∀ t ∈ T, (t.kind = .startTag ∨ t.kind = .selfClosing) → s.enter ≠ some t.name) →
    T.foldl (stepTok tk ev) (s, out) = (s, out ++ rawsOf T)
  | [], s, out, _, _, _ => by simp [rawsOf]
  | t :: T, s, out, hs, hlv, hno => by
    have hend : ∀ n d, onEnd tk ev s n d = (s, d) := by
      intro n d
      rw [onEnd_eq]
      have htm : topMatches s.stack n = false := by rw [hs]; rfl
      have hl' : ¬ s.leave = some n := by rw [hlv]; simp
      simp only [htm, Bool.false_eq_true, if_false, if_neg hl']
    have hpush : ∀ d, push s out d = (s, out ++ d) := by
      intro d; unfold push; rw [hs]
    have hstep : stepTok tk ev (s, out) t = (s, out ++ t.raw) := by
      cases hk : t.kind with
      | startTag =>
        have hst : onStart s t.name t.raw = (s, t.raw) := by
          rw [onStart_eq, if_neg (hno t (by simp) (Or.inl hk))]
        rw [stepTok_start tk ev s out t hk, hst]
        simp only [hend, hpush]
        split <;> rfl
      | endTag => rw [stepTok_end tk ev s out t hk, hend, hpush]
      | selfClosing =>
        have hst : onStart s t.name t.raw = (s, t.raw) := by
          rw [onStart_eq, if_neg (hno t (by simp) (Or.inr hk))]
        rw [stepTok_self tk ev s out t hk, hst]
        simp only [hend, hpush]
      | text => rw [stepTok_other tk ev s out t (by simp [hk, isTagKind]), hpush]
      | other => rw [stepTok_other tk ev s out t (by simp [hk, isTagKind]), hpush]
    rw [List.foldl_cons, hstep, fold_untargeted T s (out ++ t.raw) hs hlv (fun t' h' => hno t' (by simp [h']))]
    simp [rawsOf_cons, List.append_assoc]

end

end Rio.Filter
