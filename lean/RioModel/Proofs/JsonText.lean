/-
The text level: reading back what the printer wrote.

`parseText (render j) = some j` for every printable value `j` (no float, no junk, integers within
`i64 ∪ u64`): string escaping is inverted by the reader's escape decoding, the decimal digits of
an integer are read back to the same integer, separators and brackets are unambiguous.  Hence the
printer is injective and the C06 round trip holds on the level of the JSON *text* that travels
from the agent to the proxy.
-/
import RioModel.Model.JsonText
import RioModel.Proofs.JsonAction
set_option linter.unusedSimpArgs false

namespace Rio.Json

/-! ### strings -/

theorem hex_ctrl : ∀ n, n < 32 → hex4 '0' '0' (hexDigit (n / 16)) (hexDigit (n % 16)) = some n := by
  decide

theorem not_surrogate_of_lt (n : Nat) (h : n < 32) :
    isLowSurrogate n = false ∧ isHighSurrogate n = false := by
  simp [isLowSurrogate, isHighSurrogate]; omega

theorem char_eq_of_toNat (c : Char) (n : Nat) (h : c.toNat = n) : Char.ofNat n = c := by
  rw [← h, Char.ofNat_toNat]

/-- reading one escaped character gives the character back -/
theorem parseStrBody_escapeChar (c : Char) (rest acc : List Char) :
    parseStrBody (escapeChar c ++ rest) acc true none = parseStrBody rest (c :: acc) true none := by
  unfold escapeChar
  by_cases h1 : c = '"'
  · subst h1; rw [parseStrBody.eq_def]; simp
  by_cases h2 : c = '\\'
  · subst h2; rw [parseStrBody.eq_def]; simp
  by_cases h3 : c.toNat = 8
  · have := char_eq_of_toNat c 8 h3
    rw [parseStrBody.eq_def]; simp [h1, h2, h3]; rw [this]
  by_cases h4 : c.toNat = 12
  · have := char_eq_of_toNat c 12 h4
    rw [parseStrBody.eq_def]; simp [h1, h2, h3, h4]; rw [this]
  by_cases h5 : c.toNat = 10
  · have := char_eq_of_toNat c 10 h5
    rw [parseStrBody.eq_def]; simp [h1, h2, h3, h4, h5, ← this]
  by_cases h6 : c.toNat = 13
  · have := char_eq_of_toNat c 13 h6
    rw [parseStrBody.eq_def]; simp [h1, h2, h3, h4, h5, h6, ← this]
  by_cases h7 : c.toNat = 9
  · have := char_eq_of_toNat c 9 h7
    rw [parseStrBody.eq_def]; simp [h1, h2, h3, h4, h5, h6, h7, ← this]
  by_cases h8 : c.toNat < 32
  · have hh := hex_ctrl c.toNat h8
    have hs := not_surrogate_of_lt c.toNat h8
    rw [parseStrBody.eq_def]; simp [h1, h2, h3, h4, h5, h6, h7, h8, hh, hs.1, hs.2, Char.ofNat_toNat]
  · rw [parseStrBody.eq_def]; simp [h1, h2, h3, h4, h5, h6, h7, h8]

theorem parseStrBody_escapeChars (cs rest acc : List Char) :
    parseStrBody (escapeChars cs ++ '"' :: rest) acc true none
      = some (some (String.ofList (acc.reverse ++ cs)), rest) := by
  induction cs generalizing acc with
  | nil => rw [parseStrBody.eq_def]; simp [escapeChars]
  | cons c t ih =>
    simp only [escapeChars, List.append_assoc]
    rw [parseStrBody_escapeChar, ih]
    simp

theorem parseStrBody_renderStr (s : String) (rest : List Char) :
    parseStrBody (escapeChars s.toList ++ '"' :: rest) [] true none = some (some s, rest) := by
  rw [parseStrBody_escapeChars]; simp

/-! ### integers -/

theorem isDigit_digitChar (d : Nat) (h : d < 10) : isDigit (digitChar d) = true := by
  have : ∀ d, d < 10 → isDigit (digitChar d) = true := by decide
  exact this d h

theorem digitVal_digitChar (d : Nat) (h : d < 10) : digitVal (digitChar d) = d := by
  have : ∀ d, d < 10 → digitVal (digitChar d) = d := by decide
  exact this d h

theorem digitChar_ne_zero (d : Nat) (h : d < 10) (h0 : d ≠ 0) : digitChar d ≠ '0' := by
  have : ∀ d, d < 10 → d ≠ 0 → digitChar d ≠ '0' := by decide
  exact this d h h0

theorem natDigits_all_digits (n : Nat) : ∀ c ∈ natDigits n, isDigit c = true := by
  induction n using Nat.strongRecOn with
  | _ n ih =>
    rw [natDigits.eq_def]
    split
    · intro c hc
      simp at hc
      subst hc
      exact isDigit_digitChar n (by omega)
    · intro c hc
      simp at hc
      rcases hc with hc | hc
      · exact ih (n / 10) (by omega) c hc
      · subst hc
        exact isDigit_digitChar _ (by omega)

theorem digitsToNat_append (xs : List Char) (d : Char) :
    digitsToNat (xs ++ [d]) = digitsToNat xs * 10 + digitVal d := by
  simp [digitsToNat, List.foldl_append]

theorem digitsToNat_natDigits (n : Nat) : digitsToNat (natDigits n) = n := by
  induction n using Nat.strongRecOn with
  | _ n ih =>
    rw [natDigits.eq_def]
    split
    · simp [digitsToNat, digitVal_digitChar n (by omega)]
    · rw [digitsToNat_append, ih (n / 10) (by omega), digitVal_digitChar _ (by omega)]
      omega

/-- shape of the digit string: a first digit, which is `0` only for the number 0 (and then alone) -/
theorem natDigits_head (n : Nat) :
    ∃ c ds, natDigits n = c :: ds ∧ isDigit c = true ∧ (n = 0 → c = '0' ∧ ds = []) ∧ (n ≠ 0 → c ≠ '0') := by
  induction n using Nat.strongRecOn with
  | _ n ih =>
    rw [natDigits.eq_def]
    split
    · rename_i h
      refine ⟨digitChar n, [], rfl, isDigit_digitChar n (by omega), ?_, ?_⟩
      · intro h0; subst h0; exact ⟨rfl, rfl⟩
      · intro h0; exact digitChar_ne_zero n (by omega) h0
    · rename_i h
      obtain ⟨c, ds, heq, hd, _, hnz⟩ := ih (n / 10) (by omega)
      refine ⟨c, ds ++ [digitChar (n % 10)], by rw [heq]; rfl, hd, ?_, ?_⟩
      · intro h0; omega
      · intro _; exact hnz (by omega)

/-- the next character cannot continue a number -/
def numEnd (rest : List Char) : Prop :=
  ∀ c r, rest = c :: r → isDigit c = false ∧ c ≠ '.' ∧ c ≠ 'e' ∧ c ≠ 'E'

theorem takeDigits_append (ds rest : List Char) (hd : ∀ c ∈ ds, isDigit c = true)
    (hr : ∀ c r, rest = c :: r → isDigit c = false) : takeDigits (ds ++ rest) = (ds, rest) := by
  induction ds with
  | nil =>
    cases rest with
    | nil => rfl
    | cons c r => simp [takeDigits, hr c r rfl]
  | cons d t ih =>
    have h1 := hd d (by simp)
    simp [takeDigits, h1, ih (fun c hc => hd c (by simp [hc]))]

theorem parseExp_end (neg : Bool) (ids pre rest : List Char) (hr : numEnd rest) :
    parseExp neg ids pre false rest = some (classifyInt neg ids, rest) := by
  unfold parseExp
  cases rest with
  | nil => simp
  | cons c r =>
    obtain ⟨_, _, h2, h3⟩ := hr c r rfl
    simp [h2, h3]

theorem parseFrac_end (neg : Bool) (ids pre rest : List Char) (hr : numEnd rest) :
    parseFrac neg ids pre rest = some (classifyInt neg ids, rest) := by
  unfold parseFrac
  cases rest with
  | nil => simp [parseExp_end neg ids pre [] hr]
  | cons c r =>
    obtain ⟨_, h1, _, _⟩ := hr c r rfl
    simp [h1, parseExp_end neg ids pre (c :: r) hr]

theorem parseUnsigned_natDigits (neg : Bool) (sign : List Char) (n : Nat) (rest : List Char)
    (hr : numEnd rest) :
    parseUnsigned neg sign (natDigits n ++ rest) = some (classifyInt neg (natDigits n), rest) := by
  obtain ⟨c, ds, heq, hd, hz, hnz⟩ := natDigits_head n
  have hall := natDigits_all_digits n
  rw [heq] at hall ⊢
  unfold parseUnsigned
  simp only [List.cons_append]
  by_cases h0 : n = 0
  · obtain ⟨hc, hds⟩ := hz h0
    subst hc; subst hds
    simp only [List.nil_append, if_true]
    cases rest with
    | nil => simp [parseFrac_end neg ['0'] _ [] hr]
    | cons d r =>
      have := (hr d r rfl).1
      simp [this, parseFrac_end neg ['0'] _ (d :: r) hr]
  · have hc0 := hnz h0
    have htd : takeDigits (ds ++ rest) = (ds, rest) :=
      takeDigits_append ds rest (fun x hx => hall x (by simp [hx])) (fun x r hx => (hr x r hx).1)
    simp [hc0, hd, htd, parseFrac_end neg (c :: ds) _ rest hr]

theorem natDigits_head_ne_minus (n : Nat) (rest : List Char) :
    ∃ c r, natDigits n ++ rest = c :: r ∧ c ≠ '-' := by
  obtain ⟨c, ds, heq, hd, _, _⟩ := natDigits_head n
  refine ⟨c, ds ++ rest, by rw [heq]; rfl, ?_⟩
  intro h; subst h; revert hd; decide

/-- integers in the range serde_json classifies as integers -/
def intInRange (i : Int) : Prop := -9223372036854775808 ≤ i ∧ i < 18446744073709551616

theorem parseNumber_renderInt (i : Int) (rest : List Char) (hi : intInRange i) (hr : numEnd rest) :
    parseNumber (renderInt i ++ rest) = some (.num i, rest) := by
  cases i with
  | ofNat n =>
    obtain ⟨c, r, heq, hc⟩ := natDigits_head_ne_minus n rest
    simp only [renderInt]
    unfold parseNumber
    rw [heq]
    simp only [hc, if_false]
    rw [← heq, parseUnsigned_natDigits false [] n rest hr]
    have hn : n < 18446744073709551616 := by
      have := hi.2
      simp at this
      omega
    simp [classifyInt, digitsToNat_natDigits, hn]
  | negSucc m =>
    simp only [renderInt, List.cons_append]
    unfold parseNumber
    simp only [if_true]
    rw [parseUnsigned_natDigits true ['-'] (m + 1) rest hr]
    have hm : m + 1 ≤ 9223372036854775808 := by
      have := hi.1
      omega
    simp [classifyInt, digitsToNat_natDigits, hm, Int.negSucc_eq]

/-! ### values -/

mutual
def Printable : Json → Prop
  | .null => True
  | .bool _ => True
  | .str _ => True
  | .num i => intInRange i
  | .flt _ => False
  | .junk => False
  | .arr xs => PrintableList xs
  | .obj kvs => PrintableFields kvs
def PrintableList : List Json → Prop
  | [] => True
  | x :: xs => Printable x ∧ PrintableList xs
def PrintableFields : List (String × Json) → Prop
  | [] => True
  | (_, v) :: r => Printable v ∧ PrintableFields r
end

mutual
def need : Json → Nat
  | .arr xs => 1 + needList xs
  | .obj kvs => 1 + needFields kvs
  | _ => 1
def needList : List Json → Nat
  | [] => 1
  | x :: xs => 1 + need x + needList xs
def needFields : List (String × Json) → Nat
  | [] => 1
  | (_, v) :: r => 2 + need v + needFields r
end

/-- a character a value can start with -/
def startOk (c : Char) : Prop :=
  isWs c = false ∧ c ≠ ']' ∧ c ≠ '}'

instance (c : Char) : Decidable (startOk c) := by unfold startOk; exact inferInstance

theorem skipWs_cons (c : Char) (cs : List Char) (h : isWs c = false) : skipWs (c :: cs) = c :: cs := by
  simp [skipWs, h]

theorem digit_facts (c : Char) (h : isDigit c = true) :
    isWs c = false ∧ c ≠ ']' ∧ c ≠ '}' ∧ c ≠ 'n' ∧ c ≠ 't' ∧ c ≠ 'f' ∧ c ≠ '"' ∧ c ≠ '[' ∧ c ≠ '{' := by
  refine ⟨?_, ?_, ?_, ?_, ?_, ?_, ?_, ?_, ?_⟩
  · simp only [isWs, Bool.or_eq_false_iff, beq_eq_false_iff_ne]
    refine ⟨⟨⟨?_, ?_⟩, ?_⟩, ?_⟩ <;> (intro h'; subst h'; revert h; decide)
  all_goals (intro h'; subst h'; revert h; decide)

theorem renderInt_head (i : Int) :
    ∃ c r, renderInt i = c :: r ∧ (c = '-' ∨ isDigit c = true) := by
  cases i with
  | ofNat n =>
    obtain ⟨c, ds, heq, hd, _, _⟩ := natDigits_head n
    exact ⟨c, ds, by simp [renderInt, heq], Or.inr hd⟩
  | negSucc m => exact ⟨'-', natDigits (m + 1), rfl, Or.inl rfl⟩

theorem render_head (j : Json) (h : Printable j) : ∃ c r, render j = c :: r ∧ startOk c := by
  cases j with
  | null => exact ⟨'n', _, rfl, by decide⟩
  | bool b => cases b <;> exact ⟨_, _, rfl, by decide⟩
  | num i =>
    obtain ⟨c, r, heq, hc⟩ := renderInt_head i
    refine ⟨c, r, by simp [render, heq], ?_⟩
    rcases hc with hc | hc
    · subst hc; decide
    · have := digit_facts c hc
      exact ⟨this.1, this.2.1, this.2.2.1⟩
  | flt r => simp [Printable] at h
  | str s => exact ⟨'"', _, rfl, by decide⟩
  | arr xs => cases xs <;> exact ⟨'[', _, rfl, by decide⟩
  | obj kvs =>
    cases kvs with
    | nil => exact ⟨'{', _, rfl, by decide⟩
    | cons kv t => obtain ⟨k, v⟩ := kv; exact ⟨'{', _, rfl, by decide⟩
  | junk => simp [Printable] at h

theorem numEnd_nil : numEnd [] := by intro c r h; cases h
theorem numEnd_cons (c : Char) (r : List Char) (h : isDigit c = false ∧ c ≠ '.' ∧ c ≠ 'e' ∧ c ≠ 'E') :
    numEnd (c :: r) := by
  intro c' r' heq; cases heq; exact h

theorem renderElems_head (xs : List Json) (rest : List Char) : numEnd (renderElems xs ++ rest) := by
  cases xs with
  | nil => exact numEnd_cons _ _ (by decide)
  | cons x t => exact numEnd_cons _ _ (by decide)

theorem renderMembers_head (kvs : List (String × Json)) (rest : List Char) :
    numEnd (renderMembers kvs ++ rest) := by
  cases kvs with
  | nil => exact numEnd_cons _ _ (by decide)
  | cons kv t => obtain ⟨k, v⟩ := kv; exact numEnd_cons _ _ (by decide)

theorem parseValue_num (fuel : Nat) (i : Int) (rest : List Char) (hi : intInRange i) (hr : numEnd rest) :
    parseValue (fuel + 1) (renderInt i ++ rest) = some (.num i, rest) := by
  obtain ⟨c, r, heq, hc⟩ := renderInt_head i
  have hnum := parseNumber_renderInt i rest hi hr
  rw [heq] at hnum ⊢
  simp only [List.cons_append] at hnum ⊢
  rcases hc with hc | hc
  · subst hc
    simp [parseValue, skipWs, isWs, hnum]
  · obtain ⟨h1, _, _, h4, h5, h6, h7, h8, h9⟩ := digit_facts c hc
    simp [parseValue, skipWs, h1, h4, h5, h6, h7, h8, h9, hc, hnum]

theorem collectKeys_some (kvs : List (String × Json)) :
    collectKeys (kvs.map (fun kv => (some kv.1, kv.2))) = some kvs := by
  induction kvs with
  | nil => rfl
  | cons kv t ih => obtain ⟨k, v⟩ := kv; simp [collectKeys, ih]

mutual
theorem parseValue_render (j : Json) (fuel : Nat) (rest : List Char) (hp : Printable j)
    (hf : need j ≤ fuel) (hr : numEnd rest) :
    parseValue fuel (render j ++ rest) = some (j, rest) := by
  match j, fuel with
  | .null, f + 1 => simp [render, parseValue, skipWs, isWs, stripPrefix]
  | .bool true, f + 1 => simp [render, parseValue, skipWs, isWs, stripPrefix]
  | .bool false, f + 1 => simp [render, parseValue, skipWs, isWs, stripPrefix]
  | .num i, f + 1 => simpa [render] using parseValue_num f i rest (by simpa [Printable] using hp) hr
  | .flt r, _ => simp [Printable] at hp
  | .junk, _ => simp [Printable] at hp
  | .str s, f + 1 =>
    have := parseStrBody_renderStr s rest
    simp [render, renderStr, parseValue, skipWs, isWs, this]
  | .arr [], f + 1 => simp [render, parseValue, skipWs, isWs]
  | .arr (x :: xs), f + 1 =>
    have hpx : Printable x ∧ PrintableList xs := by simpa [Printable, PrintableList] using hp
    have hfx : need x ≤ f ∧ needList xs ≤ f := by
      simp only [need, needList] at hf; omega
    obtain ⟨c, r, hc, hs⟩ := render_head x hpx.1
    have hv := parseValue_render x f (renderElems xs ++ rest) hpx.1 hfx.1 (renderElems_head xs rest)
    have he := parseElems_render xs f rest hpx.2 hfx.2
    have hsk : skipWs (render x ++ (renderElems xs ++ rest)) = c :: (r ++ (renderElems xs ++ rest)) := by
      rw [hc]; exact skipWs_cons c _ hs.1
    simp only [render, List.cons_append, List.append_assoc]
    rw [parseValue]
    simp only [skipWs, isWs]
    simp [hsk, hs.2.1, hv, he]
  | .obj [], f + 1 => simp [render, parseValue, skipWs, isWs]
  | .obj ((k, v) :: kvs), f + 1 =>
    have hpx : Printable v ∧ PrintableFields kvs := by simpa [Printable, PrintableFields] using hp
    have hfx : 1 + need v ≤ f ∧ needFields kvs ≤ f := by
      simp only [need, needFields] at hf; omega
    have hm := parseMember_render k v f (renderMembers kvs ++ rest) hpx.1 hfx.1 (renderMembers_head kvs rest)
    have hms := parseMembers_render kvs f rest hpx.2 hfx.2
    simp only [render, renderStr, List.cons_append, List.append_assoc, List.nil_append] at hm ⊢
    rw [parseValue]
    simp [skipWs, isWs, hm, hms, objOfMembers, collectKeys, collectKeys_some]
  | .null, 0 | .bool _, 0 | .num _, 0 | .str _, 0 | .arr _, 0 | .obj _, 0 =>
    cases j <;> simp [need] at hf
theorem parseElems_render (xs : List Json) (fuel : Nat) (rest : List Char) (hp : PrintableList xs)
    (hf : needList xs ≤ fuel) :
    parseElems fuel (renderElems xs ++ rest) = some (xs, rest) := by
  match xs, fuel with
  | [], f + 1 => simp [renderElems, parseElems, skipWs, isWs]
  | x :: t, f + 1 =>
    have hpx : Printable x ∧ PrintableList t := by simpa [PrintableList] using hp
    have hfx : need x ≤ f ∧ needList t ≤ f := by
      simp only [needList] at hf; omega
    have hv := parseValue_render x f (renderElems t ++ rest) hpx.1 hfx.1 (renderElems_head t rest)
    have he := parseElems_render t f rest hpx.2 hfx.2
    simp only [renderElems, List.cons_append, List.append_assoc]
    rw [parseElems]
    simp [skipWs, isWs, hv, he]
  | [], 0 => simp [needList] at hf
  | _ :: _, 0 => simp [needList] at hf
theorem parseMember_render (k : String) (v : Json) (fuel : Nat) (rest : List Char) (hp : Printable v)
    (hf : 1 + need v ≤ fuel) (hr : numEnd rest) :
    parseMember fuel (renderStr k ++ ':' :: render v ++ rest) = some ((some k, v), rest) := by
  match fuel with
  | f + 1 =>
    have hv := parseValue_render v f rest hp (by omega) hr
    have hs := parseStrBody_renderStr k (':' :: (render v ++ rest))
    rw [parseMember]
    simp only [List.append_assoc, List.cons_append] at hs ⊢
    simp [renderStr, skipWs, isWs, hs, hv]
  | 0 => omega
theorem parseMembers_render (kvs : List (String × Json)) (fuel : Nat) (rest : List Char)
    (hp : PrintableFields kvs) (hf : needFields kvs ≤ fuel) :
    parseMembers fuel (renderMembers kvs ++ rest)
      = some (kvs.map (fun kv => (some kv.1, kv.2)), rest) := by
  match kvs, fuel with
  | [], f + 1 => simp [renderMembers, parseMembers, skipWs, isWs]
  | (k, v) :: t, f + 1 =>
    have hpx : Printable v ∧ PrintableFields t := by simpa [PrintableFields] using hp
    have hfx : 1 + need v ≤ f ∧ needFields t ≤ f := by
      simp only [needFields] at hf; omega
    have hm := parseMember_render k v f (renderMembers t ++ rest) hpx.1 hfx.1 (renderMembers_head t rest)
    have hms := parseMembers_render t f rest hpx.2 hfx.2
    simp only [renderMembers, List.cons_append, List.append_assoc]
    rw [parseMembers]
    simp only [List.append_assoc, List.cons_append] at hm
    simp [skipWs, isWs, hm, hms]
  | [], 0 => simp [needFields] at hf
  | _ :: _, 0 => simp [needFields] at hf
end

/-! ### enough fuel -/

theorem natDigits_length_pos (n : Nat) : 1 ≤ (natDigits n).length := by
  obtain ⟨c, ds, heq, _⟩ := natDigits_head n
  simp [heq]

theorem renderInt_length_pos (i : Int) : 1 ≤ (renderInt i).length := by
  cases i with
  | ofNat n => simpa [renderInt] using natDigits_length_pos n
  | negSucc m => simp [renderInt]

mutual
theorem need_le (j : Json) (hp : Printable j) : need j ≤ 2 * (render j).length := by
  match j with
  | .null => simp [need, render]
  | .bool true => simp [need, render]
  | .bool false => simp [need, render]
  | .num i => have := renderInt_length_pos i; simp only [need, render]; omega
  | .flt r => simp [Printable] at hp
  | .junk => simp [Printable] at hp
  | .str s => simp [need, render, renderStr]; omega
  | .arr [] => simp [need, needList, render]
  | .arr (x :: xs) =>
    have hpx : Printable x ∧ PrintableList xs := by simpa [Printable, PrintableList] using hp
    have h1 := need_le x hpx.1
    have h2 := needList_le xs hpx.2
    simp only [need, needList, render, List.length_cons, List.length_append]
    omega
  | .obj [] => simp [need, needFields, render]
  | .obj ((k, v) :: kvs) =>
    have hpx : Printable v ∧ PrintableFields kvs := by simpa [Printable, PrintableFields] using hp
    have h1 := need_le v hpx.1
    have h2 := needFields_le kvs hpx.2
    simp only [need, needFields, render, List.length_cons, List.length_append]
    omega
theorem needList_le (xs : List Json) (hp : PrintableList xs) :
    needList xs ≤ 2 * (renderElems xs).length := by
  match xs with
  | [] => simp [needList, renderElems]
  | x :: t =>
    have hpx : Printable x ∧ PrintableList t := by simpa [PrintableList] using hp
    have h1 := need_le x hpx.1
    have h2 := needList_le t hpx.2
    simp only [needList, renderElems, List.length_cons, List.length_append]
    omega
theorem needFields_le (kvs : List (String × Json)) (hp : PrintableFields kvs) :
    needFields kvs ≤ 2 * (renderMembers kvs).length := by
  match kvs with
  | [] => simp [needFields, renderMembers]
  | (k, v) :: t =>
    have hpx : Printable v ∧ PrintableFields t := by simpa [PrintableFields] using hp
    have h1 := need_le v hpx.1
    have h2 := needFields_le t hpx.2
    simp only [needFields, renderMembers, List.length_cons, List.length_append]
    omega
end

/-- **The reader inverts the printer.** -/
theorem parseText_render (j : Json) (hp : Printable j) : parseText (render j) = some j := by
  have hn := need_le j hp
  have h := parseValue_render j (2 * (render j).length + 2) [] hp (by omega) numEnd_nil
  simp only [List.append_nil] at h
  simp [parseText, h, skipWs]

/-- The printer is injective on printable values: two different values never print alike. -/
theorem render_injective (j j' : Json) (hp : Printable j) (hp' : Printable j')
    (h : render j = render j') : j = j' := by
  have h1 := parseText_render j hp
  rw [h, parseText_render j' hp'] at h1
  exact (Option.some.inj h1).symm

/-! ### what the serialisers emit is printable -/

theorem printable_serOption {α} (s : α → Json) (o : Option α) (h : ∀ a, Printable (s a)) :
    Printable (serOption s o) := by
  cases o with
  | none => simp [serOption, Printable]
  | some a => exact h a

theorem printable_str (s : String) : Printable (.str s) := by simp [Printable]
theorem printable_bool (b : Bool) : Printable (.bool b) := by simp [Printable]

theorem printable_serU16 (c : UInt16) : Printable (serU16 c) := by
  have h : c.toNat < 65536 := UInt16.toNat_lt c
  simp only [serU16, Printable, intInRange, Int.ofNat_eq_natCast]
  constructor <;> omega

theorem printableList_map {α} (s : α → Json) (l : List α) (h : ∀ a, Printable (s a)) :
    PrintableList (l.map s) := by
  induction l with
  | nil => simp [PrintableList]
  | cons a t ih => simp [PrintableList, h a, ih]

theorem printable_serVec {α} (s : α → Json) (l : List α) (h : ∀ a, Printable (s a)) :
    Printable (serVec s l) := by
  simp only [serVec, Printable]; exact printableList_map s l h

theorem printable_serSet (l : List String) : Printable (serSet l) := by
  simp only [serSet, Printable]; exact printableList_map _ l printable_str

theorem printable_serHeaderFilter (f : HeaderFilter) : Printable (serHeaderFilter f) := by
  simp [serHeaderFilter, Printable, PrintableFields, printable_serOption _ _ printable_str]

theorem printable_serBodyFilter (f : BodyFilter) : Printable (serBodyFilter f) := by
  cases f with
  | text t =>
    simp [serBodyFilter, serTextBodyFilter, Printable, PrintableFields,
      printable_serOption _ _ printable_str]
  | html h =>
    have := printable_serVec .str h.element_tree printable_str
    simp [serBodyFilter, serHtmlBodyFilter, Printable, PrintableFields,
      printable_serOption _ _ printable_str, this]

theorem printable_serStatusCodeUpdate (s : StatusCodeUpdate) : Printable (serStatusCodeUpdate s) := by
  have := printable_serVec serU16 s.on_response_status_codes printable_serU16
  simp [serStatusCodeUpdate, Printable, PrintableFields, printable_serOption _ _ printable_str,
    printable_serU16, this]

theorem printable_serLogOverride (l : LogOverride) : Printable (serLogOverride l) := by
  have := printable_serVec serU16 l.on_response_status_codes printable_serU16
  simp [serLogOverride, Printable, PrintableFields, printable_serOption _ _ printable_str,
    printable_serOption _ _ printable_bool, this]

theorem printable_serRuleTrace (t : RuleTrace) : Printable (serRuleTrace t) := by
  have := printable_serVec serU16 t.on_response_status_codes printable_serU16
  simp [serRuleTrace, Printable, PrintableFields, this]

theorem printable_serHeaderFilterAction (f : HeaderFilterAction) :
    Printable (serHeaderFilterAction f) := by
  have := printable_serVec serU16 f.on_response_status_codes printable_serU16
  simp [serHeaderFilterAction, Printable, PrintableFields, printable_serOption _ _ printable_str,
    printable_serHeaderFilter, this]

theorem printable_serBodyFilterAction (f : BodyFilterAction) :
    Printable (serBodyFilterAction f) := by
  have := printable_serVec serU16 f.on_response_status_codes printable_serU16
  simp [serBodyFilterAction, Printable, PrintableFields, printable_serOption _ _ printable_str,
    printable_serBodyFilter, this]

theorem printable_serAction (a : Action) : Printable (serAction a) := by
  have h1 := printable_serOption serStatusCodeUpdate a.status_code_update printable_serStatusCodeUpdate
  have h2 := printable_serVec serHeaderFilterAction a.header_filters printable_serHeaderFilterAction
  have h3 := printable_serVec serBodyFilterAction a.body_filters printable_serBodyFilterAction
  have h4 := printable_serSet a.rule_ids
  have h5 := printable_serVec serRuleTrace a.rule_traces printable_serRuleTrace
  have h6 := printable_serSet a.rules_applied
  have h7 := printable_serOption serLogOverride a.log_override printable_serLogOverride
  simp [serAction, Printable, PrintableFields, h1, h2, h3, h4, h5, h6, h7]

theorem printable_serHeader (h : Header) : Printable (serHeader h) := by
  simp [serHeader, Printable, PrintableFields]

theorem printable_serPathAndQuery (p : PathAndQuery) : Printable (serPathAndQuery p) := by
  simp [serPathAndQuery, Printable, PrintableFields, printable_serOption _ _ printable_str]

theorem printable_serRequest (q : Request) : Printable (serRequest q) := by
  have h1 := printable_serVec serHeader q.headers printable_serHeader
  have h2 := printable_serOption (fun x : Ip => Json.str (String.ofList (showIp x))) q.remote_addr
    (fun _ => printable_str _)
  have h3 := printable_serOption (fun d : DateTime => Json.str (String.ofList (showDt d))) q.created_at
    (fun _ => printable_str _)
  simp [serRequest, Printable, PrintableFields, printable_serOption _ _ printable_str,
    printable_serOption _ _ printable_bool, printable_serPathAndQuery, h1, h2, h3]

end Rio.Json
