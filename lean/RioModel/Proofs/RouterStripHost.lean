/-
`SLaws` for `HostMatcher` over the real regex tree, the tower over the real trees, and the twin theorem: a valid history and
the same history without its cache calls end in routers that are equal up to cached regex values (`stripG`), hence have
the same explain-trace forest.

`HostMatcher` state stripped: static buckets stripped, the tree's own regexes stripped (`Item.strip`) AND every bucket stored
in the tree stripped (`Item.mapVals`), any-host bucket stripped.
-/
import RioModel.Proofs.RouterStripSim
import RioModel.Proofs.TreeMapVals

set_option linter.unusedSimpArgs false
set_option linter.unusedVariables false
set_option linter.unusedSectionVars false

namespace Rio.Router
open Rio.Regex Rio.Tree

section
variable {I : MOps} {Repr : I.M → List Route → Prop} (SI : SLaws I Repr)

/-- the tree of buckets with its regexes and its buckets stripped -/
def stripTree (t : Item (List Char) I.M) : Item (List Char) I.M := t.strip.mapVals (fun _ => SI.strip)

def hostStrip (s : HostTState I) : HostTState I :=
  ⟨mapVals SI.strip s.statics, stripTree SI s.tree, SI.strip s.any, s.count⟩

theorem lastHit_strip (id : String) (ms : List I.M) :
    lastHit I id (ms.map SI.strip) = lastHit I id ms := by
  unfold lastHit
  rw [List.foldl_map]
  congr 1
  funext acc m
  unfold hitStep
  rw [← (SI.strip_remove id m).2]

theorem pruneVal_strip (g : I.M → I.M) (hg : ∀ m, SI.strip (g m) = g (SI.strip m)) (m : I.M) :
    (pruneVal I g m).map SI.strip = pruneVal I g (SI.strip m) := by
  unfold pruneVal
  rw [← hg, isEmpty_strip' SI]
  split <;> rfl

theorem stripTree_retain_prune (g : I.M → I.M) (hg : ∀ m, SI.strip (g m) = g (SI.strip m))
    (t : Item (List Char) I.M) :
    stripTree SI (t.retain (fun _ m => pruneVal I g m)) = (stripTree SI t).retain (fun _ m => pruneVal I g m) := by
  unfold stripTree
  rw [retain_strip]
  exact retain_mapVals (fun _ => SI.strip) _ _ (fun _ v => pruneVal_strip SI g hg v) _

theorem uGet_stripTree (t : Item (List Char) I.M) (k : List Char) :
    (uGet (stripTree SI t) k).isSome = (uGet t k).isSome := by
  unfold uGet stripTree
  rw [get_mapVals, get_strip, List.getLast?_map]
  cases (t.get k).getLast? <;> rfl

end

section
variable {I : MOps} (T : TEnv) (Good : List Char → Prop) (IL : MLaws I) (hPS : PrefixSound T.engine Good)
  (SI : SLaws I IL.Repr)

theorem hostStrip_insert (r : Route) (s : HostTState I) :
    hostStrip SI (HostT.insert T I r s) = HostT.insert T I r (hostStrip SI s) := by
  unfold HostT.insert
  cases hh : r.host with
  | none => simp only [hostStrip, SI.strip_insert]
  | some sd =>
    cases sd with
    | static x =>
      by_cases hx : x = ""
      · simp only [hx, if_true, hostStrip, SI.strip_insert]
      · simp only [hx, if_false, hostStrip]
        rw [aupsert_mapVals SI.strip (I.insert r) I.empty (SI.strip_insert r) SI.strip_empty]
    | dyn p =>
      simp only
      have hu := uGet_stripTree SI s.tree (T.render p)
      cases h1 : uGet s.tree (T.render p) with
      | some b =>
        rw [h1] at hu
        have h2 : ∃ b', uGet (hostStrip SI s).tree (T.render p) = some b' := by
          cases hc : uGet (stripTree SI s.tree) (T.render p) with
          | none => rw [hc] at hu; simp at hu
          | some b' => exact ⟨b', hc⟩
        obtain ⟨b', h2⟩ := h2
        rw [h2]
        simp only [hostStrip]
        congr 1
        unfold stripTree
        rw [modifyAt_strip]
        exact modifyAt_mapVals (fun _ => SI.strip) _ _ (fun _ v => SI.strip_insert r v) _ _
      | none =>
        rw [h1] at hu
        have h2 : uGet (hostStrip SI s).tree (T.render p) = none := by
          cases hc : uGet (stripTree SI s.tree) (T.render p) with
          | none => exact hc
          | some b' => rw [hc] at hu; simp at hu
        rw [h2]
        simp only [hostStrip]
        congr 1
        unfold stripTree uInsert
        rw [insert_strip, insert_mapVals, SI.strip_insert, SI.strip_empty]

theorem hostStrip_remove (id : String) (s : HostTState I) :
    hostStrip SI (HostT.remove I id s).1 = (HostT.remove I id (hostStrip SI s)).1 ∧
      (HostT.remove I id s).2 = (HostT.remove I id (hostStrip SI s)).2 := by
  obtain ⟨h1, h2⟩ := SI.strip_remove id s.any
  obtain ⟨h3, h4⟩ := removeAll_strip SI id s.statics
  have h5 : lastHit I id ((stripTree SI s.tree).contents.map (·.val)) = lastHit I id (s.tree.contents.map (·.val)) := by
    unfold stripTree
    rw [contents_mapVals, contents_strip, List.map_map]
    rw [← lastHit_strip SI id (s.tree.contents.map (·.val)), List.map_map]
    rfl
  have h6 := stripTree_retain_prune SI (fun m => (I.remove id m).1) (fun m => (SI.strip_remove id m).1) s.tree
  unfold HostT.remove
  simp only [hostStrip, ← h2, ← h1, ← h3, ← h4, h5, ← h6]
  split
  · exact ⟨rfl, rfl⟩
  · exact ⟨rfl, rfl⟩

theorem hostStrip_batch (ids : List String) (s : HostTState I) :
    hostStrip SI (HostT.batchRemove I ids s) = HostT.batchRemove I ids (hostStrip SI s) := by
  have h6 := stripTree_retain_prune SI (I.batchRemove ids) (fun m => SI.strip_batch ids m) s.tree
  unfold HostT.batchRemove
  simp only [hostStrip, SI.strip_batch, batchAll_strip SI, h6]

/-- lists with the same stripped buckets: a bucket found under a key on one side has a stripped twin on the other -/
theorem alookup_mapVals_strip {K : Type} [DecidableEq K] : ∀ {m m' : List (K × I.M)},
    mapVals SI.strip m' = mapVals SI.strip m → ∀ (k : K) (b' : I.M), alookup k m' = some b' →
      ∃ b, alookup k m = some b ∧ SI.strip b' = SI.strip b
  | [], [], _, k, b', h => by simp [alookup] at h
  | [], _ :: _, h, _, _, _ => by simp [mapVals] at h
  | _ :: _, [], h, _, _, _ => by simp [mapVals] at h
  | (ka, va) :: l, (ka', va') :: l', h, k, b', hb' => by
    simp only [mapVals, List.map_cons, List.cons.injEq, Prod.mk.injEq] at h
    obtain ⟨⟨hk, hv⟩, hrest⟩ := h
    subst hk
    simp only [alookup_cons] at hb' ⊢
    by_cases e : ka' = k
    · simp only [e, if_true, Option.some.injEq] at hb' ⊢
      subst hb'
      exact ⟨va, rfl, hv⟩
    · simp only [e, if_false] at hb' ⊢
      exact alookup_mapVals_strip (m := l) (m' := l') hrest k b' hb'

include hPS in
theorem hostStrip_cache (s : HostTState I) (L : List Route) (limit level : Nat) (h : HTRepr T Good IL s L) :
    hostStrip SI (HostT.cache T I limit level s).1 = hostStrip SI s := by
  obtain ⟨t1, n1, h1, hs, hn1⟩ := treeCache_spec T.engine s.tree limit (some level)
  have hc : t1.contents = s.tree.contents := by rw [← contents_strip, hs, contents_strip]
  have hi : t1.inv T.icHost = true := by rw [inv_of_treeCache h1 T.icHost]; exact h.inv
  have hnd := h.repr.nodup
  have hstR : ∀ e ∈ s.statics, ∃ L', IL.Repr e.2 L' := by
    intro e he
    have hm : (HKeyG.static e.1, e.2) ∈ (absH s).map := by
      simp only [absH, List.mem_append, staticMap, List.mem_map]
      exact Or.inl ⟨e, he, rfl⟩
    exact ⟨_, h.repr.some _ _ (alookup_of_mem hnd hm)⟩
  have htrR : ∀ e ∈ t1.contents.map (fun e => (e.id, e.val)), ∃ L', IL.Repr e.2 L' := by
    intro e he
    obtain ⟨e0, he0, rfl⟩ := List.mem_map.mp he
    rw [hc] at he0
    have hm : (HKeyG.dyn e0.pat, e0.val) ∈ (absH s).map := by
      simp only [absH, List.mem_append, treeMap, List.mem_map]
      exact Or.inr ⟨e0, he0, rfl⟩
    exact ⟨_, h.repr.some _ _ (alookup_of_mem hnd hm)⟩
  have hst := cacheAll_strip IL SI level s.statics n1 hstR
  have hbk := cacheAll_strip IL SI level (t1.contents.map (fun e => (e.id, e.val)))
    (cacheAll I level s.statics n1).2 htrR
  have hidn : (akeys (s.tree.contents.map (fun e => (e.id, e.val)))).Nodup := by
    have hkn : (akeys (treeMap s.tree)).Nodup := by
      have h0 : (akeys (staticMap s.statics ++ treeMap s.tree)).Nodup := hnd
      simp only [akeys, List.map_append] at h0
      exact (List.nodup_append.mp h0).2.1
    have : akeys (treeMap s.tree) =
        (akeys (s.tree.contents.map (fun e => (e.id, e.val)))).map (fun k => (HKeyG.dyn k : HK)) := by
      unfold akeys treeMap
      simp only [List.map_map]
      apply List.map_congr_left
      intro x hx
      simp only [Function.comp]
      rw [h.uniq x hx]
    rw [this] at hkn
    exact nodup_of_map_nodup _ _ hkn
  unfold HostT.cache
  simp only [h1, Option.getD_some]
  generalize hrb : cacheAll I level (t1.contents.map (fun e => (e.id, e.val))) (cacheAll I level s.statics n1).2 = rb
    at hbk
  rw [retain_some_eq_mapVals (fun id m => (alookup id rb.1).getD m) t1 hi]
  have hany := SI.strip_cache s.any _ rb.2 level h.repr.any
  -- the tree: strip commutes with the value map, the stored-back buckets strip to the old ones
  have htree : stripTree SI (t1.mapVals (fun id m => (alookup id rb.1).getD m)) = stripTree SI s.tree := by
    unfold stripTree
    rw [strip_mapVals, hs]
    -- both sides are value maps of `s.tree.strip`; compare through the contents
    have key : ∀ (t : Item (List Char) I.M),
        (∀ e ∈ t.contents, SI.strip ((alookup e.id rb.1).getD e.val) = SI.strip e.val) →
        (t.mapVals (fun id m => (alookup id rb.1).getD m)).mapVals (fun _ => SI.strip) =
          t.mapVals (fun _ => SI.strip) := by
      intro t
      induction t using Item.ind with
      | hE ic => intro _; simp [mapVals_empty]
      | hL rx vs =>
        intro hv
        rw [mapVals_leaf, mapVals_leaf, mapVals_leaf, List.map_map]
        congr 1
        apply List.map_congr_left
        intro kv hkv
        simp only [Function.comp]
        rw [hv ⟨rx.original, kv.1, kv.2⟩ (by simp; exact hkv)]
      | hN rx cs ih =>
        intro hv
        rw [mapVals_node, mapVals_node, mapVals_node, List.map_map]
        congr 1
        apply List.map_congr_left
        intro c hc
        exact ih c hc (fun e he => hv e (by simp [mem_contentsL]; exact ⟨c, hc, he⟩))
    apply key
    intro e he
    rw [contents_strip] at he
    cases hl : alookup e.id rb.1 with
    | none => rfl
    | some b' =>
      obtain ⟨b, hb, hsb⟩ := alookup_mapVals_strip IL SI hbk e.id b' hl
      rw [hc] at hb
      have hmem : (e.id, e.val) ∈ s.tree.contents.map (fun e => (e.id, e.val)) :=
        List.mem_map.mpr ⟨e, he, rfl⟩
      rw [alookup_of_mem hidn hmem] at hb
      simp only [Option.some.injEq] at hb
      simp only [Option.getD_some]
      rw [hb]; exact hsb
  simp only [hostStrip, hst, htree, hany]

include hPS in
theorem hostStrip_trace (TC : TCache I IL.Repr) (s : HostTState I) (L : List Route) (q : Req)
    (h : HTRepr T Good IL s L) : HostT.trace T I (hostStrip SI s) q = HostT.trace T I s q := by
  have hnd := h.repr.nodup
  have hstR : ∀ e ∈ s.statics, ∃ L', IL.Repr e.2 L' := by
    intro e he
    have hm : (HKeyG.static e.1, e.2) ∈ (absH s).map := by
      simp only [absH, List.mem_append, staticMap, List.mem_map]
      exact Or.inl ⟨e, he, rfl⟩
    exact ⟨_, h.repr.some _ _ (alookup_of_mem hnd hm)⟩
  have hst := bobs_mapVals_strip IL SI q s.statics hstR
  have hany := SI.strip_trace s.any _ q h.repr.any
  have htree : ∀ hs : List Char,
      hostTreeTrace I q ((stripTree SI s.tree).trace T.engine hs) = hostTreeTrace I q (s.tree.trace T.engine hs) := by
    intro hs'
    unfold stripTree
    rw [hostTreeTrace_mapVals T.engine q _ s.tree.strip ?_ hs',
      trace_strip T.engine s.tree h.inv (fun e he => (h.dom e he).2)]
    intro e he
    rw [contents_strip] at he
    have hm : (HKeyG.dyn e.pat, e.val) ∈ (absH s).map := by
      simp only [absH, List.mem_append, treeMap, List.mem_map]
      exact Or.inr ⟨e, he, rfl⟩
    exact SI.strip_trace e.val _ q (h.repr.some _ _ (alookup_of_mem hnd hm))
  have hstat : (mapVals SI.strip s.statics).map (HostT.staticNode I q) = s.statics.map (HostT.staticNode I q) := by
    apply map_of_bobs q _ _ hst
    rintro ⟨k, b⟩ ⟨k', b'⟩ hb
    simp only [bobs, Prod.mk.injEq] at hb
    obtain ⟨hk, hl, ht⟩ := hb
    subst hk
    simp only [HostT.staticNode, hl, ht]
  have hlook : ∀ hh : String, (alookup hh (mapVals SI.strip s.statics)).isNone = (alookup hh s.statics).isNone :=
    fun hh => (alookup_bobs_congr q hst hh).1
  have hbound : HostT.traceBound T I (hostStrip SI s) q = HostT.traceBound T I s q := by
    unfold HostT.traceBound
    simp only [hostStrip, hstat]
    cases hq : q.host with
    | none => rfl
    | some hh => simp only [htree, hlook]
  unfold HostT.trace
  rw [hbound]
  simp only [hostStrip, hany]

include hPS in
def hostTSLaws : SLaws (hostTOps T I) (hostTLaws T Good IL hPS).Repr where
  strip := hostStrip SI
  strip_empty := by
    show hostStrip SI (HostT.empty T I) = HostT.empty T I
    simp [hostStrip, HostT.empty, mapVals, stripTree, mapVals_empty, SI.strip_empty]
  strip_insert := fun r s => hostStrip_insert T IL SI r s
  strip_remove := fun id s => hostStrip_remove IL SI id s
  strip_batch := fun ids s => hostStrip_batch IL SI ids s
  strip_len := fun _ => rfl
  strip_cache := fun s L limit level h => hostStrip_cache T Good IL hPS SI s L limit level h
  strip_trace := fun s L q h => hostStrip_trace T Good IL hPS SI (by
    exact ⟨fun m L limit level q hm => by
      rw [← SI.strip_trace _ L q (IL.repr_cache m L limit level hm), SI.strip_cache m L limit level hm,
        SI.strip_trace m L q hm], fun m L limit level hm => by
      rw [← SI.strip_len, SI.strip_cache m L limit level hm, SI.strip_len]⟩) s L q h

end

/-! ### The towers -/

section
variable (E : Env) {P0 : MOps} (PL : MLaws P0) (SP : SLaws P0 PL.Repr)

def dateTimeS : SLaws (dateTimeOps P0) (dateTimeL PL).Repr :=
  outerSLaws PL SP DateTime.keysOf _ _ (groupTrace_obs DCond.eval "date_time_group")
def headerS : SLaws (headerOps E (dateTimeOps P0)) (headerL E PL).Repr :=
  outerSLaws (dateTimeL PL) (dateTimeS PL SP) (Header.keysOf E) _ _ (groupTrace_obs (HCond.eval E) "header_group")
def methodS : SLaws (methodOps (headerOps E (dateTimeOps P0))) (methodL E PL).Repr :=
  outerSLaws (headerL E PL) (headerS E PL SP) Method.keysOf _ _ methodTrace_obs
def ipS : SLaws (ipOps (methodOps (headerOps E (dateTimeOps P0)))) (ipL E PL).Repr :=
  outerSLaws (methodL E PL) (methodS E PL SP) Ip.keysOf _ _ ipTrace_obs

end

section
variable (T : TEnv) (Good : List Char → Prop) (hPS : PrefixSound T.engine Good)

/-- `strip` and its laws for the whole tower over the real regex trees. -/
def towerTSLaws : SLaws (towerTOps T) (towerTLaws T Good hPS).Repr :=
  outerSLaws (hostTLaws T Good (innerTLaws T Good hPS) hPS)
    (hostTSLaws T Good (innerTLaws T Good hPS) hPS
      (ipS T.env (pathTLaws T Good hPS) (pathTSLaws T Good hPS)))
    Scheme.keysOf _ _ schemeTrace_obs

end

end Rio.Router
