/-
`trace.rs`: the trace of a tree lists, under its matched leaves, exactly what `find` returns; its count
fields are the `len()` of the sub-trees.
-/
import RioModel.Proofs.TreeSpec
set_option linter.unusedSimpArgs false
set_option linter.unusedVariables false
set_option linter.unusedSectionVars false

namespace Rio.Tree
open Rio.Scan Rio.Regex

variable {ι V : Type} [DecidableEq ι]

theorem foundL_eq (ts : List (Trace V)) : Trace.foundL ts = ts.flatMap Trace.found := by
  induction ts with
  | nil => simp [Trace.foundL]
  | cons t ts ih => simp [Trace.foundL, ih]

theorem found_mk (r : List Char) (c : Nat) (m : Bool) (cs : List (Trace V)) (vs : List V) :
    (Trace.mk r c m cs vs).found = if m then vs ++ cs.flatMap Trace.found else [] := by
  rw [Trace.found, foundL_eq]

theorem traceL_eq (E : Engine) (cs : List (Item ι V)) (s : List Char) :
    traceL E cs s = cs.map fun c => c.trace E s := by
  induction cs with
  | nil => simp [traceL]
  | cons c cs ih => simp [traceL, ih]

theorem trace_empty (E : Engine) (ic : Bool) (s : List Char) :
    (Item.empty ic : Item ι V).trace E s = .mk [] 0 true [] [] := by rw [Item.trace]

theorem trace_leaf (E : Engine) (rx) (vs : List (ι × V)) (s : List Char) :
    (Item.leaf rx vs).trace E s = .mk rx.original vs.length (rx.isMatch E s) [] (vs.map (·.2)) := by
  rw [Item.trace]

theorem trace_node (E : Engine) (rx) (cs : List (Item ι V)) (s : List Char) :
    (Item.node rx cs).trace E s =
      .mk rx.original (lenL cs) (rx.isMatch E s)
        (if rx.isMatch E s then cs.map fun c => c.trace E s else []) [] := by
  rw [Item.trace, traceL_eq]

/-- The values under the matched leaves of the trace are exactly `find`, in the same order. -/
theorem trace_found_eq_find (E : Engine) (t : Item ι V) (s : List Char) :
    (t.trace E s).found = t.find E s := by
  induction t using Item.ind with
  | hE ic => rw [trace_empty, found_mk, find_empty]; simp
  | hL rx vs => rw [trace_leaf, found_mk, find_leaf]; simp
  | hN rx cs ih =>
    rw [trace_node, found_mk, find_node, findL_eq]
    cases hm : rx.isMatch E s
    · simp
    · simp only [if_true, List.nil_append, List.flatMap_map]
      exact flatMap_congr' ih

theorem trace_count (E : Engine) (t : Item ι V) (s : List Char) : (t.trace E s).count = t.len := by
  cases t with
  | empty ic => rw [trace_empty]; simp [Trace.count, Item.len]
  | leaf rx vs => rw [trace_leaf]; simp [Trace.count, Item.len]
  | node rx cs => rw [trace_node]; simp [Trace.count, Item.len]

theorem trace_regex (E : Engine) (t : Item ι V) (s : List Char) : (t.trace E s).regex = t.regex := by
  cases t with
  | empty ic => rw [trace_empty]; rfl
  | leaf rx vs => rw [trace_leaf]; rfl
  | node rx cs => rw [trace_node]; rfl

end Rio.Tree
