/-
`iter.rs`: the stack machine `ItemIter::next` enumerates the stored values, each once, in tree order:
collecting it gives `contents.map val`.  Every self-call of `next` decreases `IterSt.measure`, so the
recursion of the Rust function terminates and `measure + 1` is enough fuel.
-/
import RioModel.Proofs.TreeSpec
set_option linter.unusedSimpArgs false
set_option linter.unusedVariables false
set_option linter.unusedSectionVars false

namespace Rio.Tree
open Rio.Scan Rio.Regex

variable {ι V : Type} [DecidableEq ι]

/-- Values below a slice of items, in order. -/
def valsL (cs : List (Item ι V)) : List V := (contentsL cs).map (·.val)

/-- What the iterator has still to yield. -/
def IterSt.pending (st : IterSt ι V) : List V :=
  (match st.values with | none => [] | some vs => vs) ++ valsL st.children ++ st.parents.flatMap valsL

theorem szL_cons (c : Item ι V) (cs : List (Item ι V)) : szL (c :: cs) = c.sz + szL cs := by rw [szL]
theorem szL_nil : szL ([] : List (Item ι V)) = 0 := by rw [szL]
theorem sz_empty (ic : Bool) : (Item.empty ic : Item ι V).sz = 1 := by rw [Item.sz]
theorem sz_leaf (rx) (vs : List (ι × V)) : (Item.leaf rx vs).sz = vs.length + 2 := by rw [Item.sz]
theorem sz_node (rx) (cs : List (Item ι V)) : (Item.node rx cs).sz = szL cs + 2 := by rw [Item.sz]

theorem valsL_nil : valsL ([] : List (Item ι V)) = [] := by simp [valsL, contentsL]
theorem valsL_cons (c : Item ι V) (cs : List (Item ι V)) :
    valsL (c :: cs) = c.contents.map (·.val) ++ valsL cs := by simp [valsL, contentsL]

/-- One call of `next` with enough fuel: it is exhausted iff nothing is pending; otherwise it yields the first
pending value and the rest stays pending (and the measure went down). -/
theorem next_spec (fuel : Nat) : ∀ st : IterSt ι V, st.measure < fuel →
    (IterSt.next fuel st = some none ∧ st.pending = []) ∨
    (∃ v st', IterSt.next fuel st = some (some (v, st')) ∧ st.pending = v :: st'.pending ∧
      st'.measure < st.measure) := by
  induction fuel with
  | zero => intro st h; omega
  | succ fuel ih =>
    intro st hm
    obtain ⟨children, parents, values⟩ := st
    cases values with
    | some vs =>
      cases vs with
      | nil =>
        have := ih ⟨children, parents, none⟩ (by simp [IterSt.measure] at hm ⊢; omega)
        rw [IterSt.next]
        simp only [IterSt.pending, IterSt.measure] at this ⊢
        rcases this with h | ⟨v, st', h1, h2, h3⟩
        · exact Or.inl (by simpa using h)
        · exact Or.inr ⟨v, st', h1, by simpa using h2, by simp at h3 ⊢; omega⟩
      | cons v vs =>
        right
        refine ⟨v, ⟨children, parents, some vs⟩, by rw [IterSt.next], by simp [IterSt.pending],
          by simp [IterSt.measure]⟩
    | none =>
      cases children with
      | nil =>
        cases parents with
        | nil => left; exact ⟨by rw [IterSt.next], by simp [IterSt.pending, valsL_nil]⟩
        | cons p ps =>
          have := ih ⟨p, ps, none⟩ (by simp [IterSt.measure, szL_nil] at hm ⊢; omega)
          rw [IterSt.next]
          simp only [IterSt.pending, IterSt.measure, valsL_nil, szL_nil, List.flatMap_cons, List.map_cons,
            List.sum_cons] at this ⊢
          rcases this with h | ⟨v, st', h1, h2, h3⟩
          · exact Or.inl (by simpa using h)
          · exact Or.inr ⟨v, st', h1, by simpa using h2, by simp at h3 ⊢; omega⟩
      | cons c rest =>
        cases c with
        | empty ic =>
          have := ih ⟨rest, parents, none⟩ (by simp [IterSt.measure, szL_cons, sz_empty] at hm ⊢; omega)
          rw [IterSt.next]
          simp only [IterSt.pending, IterSt.measure, valsL_cons, szL_cons, sz_empty, contents_empty,
            List.map_nil, List.nil_append] at this ⊢
          rcases this with h | ⟨v, st', h1, h2, h3⟩
          · exact Or.inl h
          · exact Or.inr ⟨v, st', h1, h2, by omega⟩
        | leaf rx vs =>
          have := ih ⟨rest, parents, some (vs.map (·.2))⟩
            (by simp [IterSt.measure, szL_cons, sz_leaf] at hm ⊢; omega)
          rw [IterSt.next]
          simp only [IterSt.pending, IterSt.measure, valsL_cons, szL_cons, sz_leaf, contents_leaf,
            List.map_map, List.nil_append, List.length_map] at this ⊢
          have hv : List.map ((fun x => x.val) ∘ fun kv => ({ pat := rx.original, id := kv.1, val := kv.2 } : Entry ι V)) vs
              = vs.map (·.2) := by apply List.map_congr_left; intro a _; rfl
          rw [hv]
          rcases this with h | ⟨v, st', h1, h2, h3⟩
          · exact Or.inl h
          · exact Or.inr ⟨v, st', h1, h2, by omega⟩
        | node rx cs =>
          have := ih ⟨cs, rest :: parents, none⟩
            (by simp [IterSt.measure, szL_cons, sz_node] at hm ⊢; omega)
          rw [IterSt.next]
          simp only [IterSt.pending, IterSt.measure, valsL_cons, szL_cons, sz_node, contents_node,
            List.nil_append, List.flatMap_cons, List.map_cons, List.sum_cons] at this ⊢
          have hv : (contentsL cs).map (·.val) = valsL cs := rfl
          rw [hv]
          rcases this with h | ⟨v, st', h1, h2, h3⟩
          · exact Or.inl (by simpa [List.append_assoc] using h)
          · exact Or.inr ⟨v, st', h1, by simpa [List.append_assoc] using h2, by omega⟩

/-- Draining the iterator gives everything pending, in order. -/
theorem drain_spec (fuel : Nat) : ∀ (n : Nat) (st : IterSt ι V), st.measure < fuel → st.pending.length < n →
    IterSt.drain fuel n st = some st.pending := by
  intro n
  induction n with
  | zero => intro st _ h; omega
  | succ n ih =>
    intro st hm hn
    rw [IterSt.drain]
    rcases next_spec fuel st hm with ⟨h1, h2⟩ | ⟨v, st', h1, h2, h3⟩
    · rw [h1, h2]
    · rw [h1]
      simp only
      rw [ih st' (by omega) (by rw [h2] at hn; simp at hn; omega), h2]
      rfl

theorem pending_length_le (st : IterSt ι V) : st.pending.length ≤ st.measure := by
  have key : ∀ cs : List (Item ι V), (valsL cs).length ≤ szL cs := by
    intro cs
    induction cs with
    | nil => simp [valsL_nil]
    | cons c cs ihl =>
      rw [valsL_cons, szL_cons, List.length_append, List.length_map]
      have : c.contents.length ≤ c.sz := by
        rw [← len_spec]
        clear ihl
        induction c using Item.ind with
        | hE ic => simp [Item.len, sz_empty]
        | hL rx vs => simp [Item.len, sz_leaf]
        | hN rx cs' ih =>
          rw [sz_node]
          simp only [Item.len]
          have : ∀ l : List (Item ι V), (∀ c ∈ l, c ∈ cs') → lenL l ≤ szL l := by
            intro l
            induction l with
            | nil => intro _; simp [lenL, szL_nil]
            | cons d l ihl' =>
              intro hsub
              rw [szL_cons]
              simp only [lenL]
              have := ih d (hsub d (by simp))
              have := ihl' fun e he => hsub e (by simp [he])
              omega
          have := this cs' fun _ h => h
          omega
      omega
  obtain ⟨children, parents, values⟩ := st
  simp only [IterSt.pending, IterSt.measure, List.length_append]
  have h1 := key children
  have h2 : (parents.flatMap valsL).length ≤ (parents.map fun p => szL p + 1).sum := by
    induction parents with
    | nil => simp
    | cons p ps ihp =>
      simp only [List.flatMap_cons, List.length_append, List.map_cons, List.sum_cons]
      have := key p
      omega
  cases values with
  | none => dsimp only; simp only [List.length_nil]; omega
  | some vs => dsimp only; omega

/-- **`iter()` enumerates the stored values**: collecting the iterator terminates and returns the value of every
entry of `contents`, each once, in tree order. -/
theorem iterCollect_eq (t : Item ι V) : t.iterCollect = some (t.contents.map (·.val)) := by
  unfold Item.iterCollect
  rw [drain_spec _ _ _ (Nat.lt_succ_self _) (Nat.lt_succ_of_le (pending_length_le _))]
  simp [Item.iter, IterSt.pending, valsL, contentsL]

end Rio.Tree
