/-
The derivative matcher of Model/Regex.lean decides the denotation `Lang`:
  `fmatch ic r s = true ↔ Lang ic r s`            (the model of `^r$`)
  `pmatch ic r s = true ↔ some prefix of s ∈ Lang`  (the model of `^r`)
-/
import RioModel.Model.Regex
set_option linter.unusedSimpArgs false
set_option linter.unusedVariables false

namespace Rio.Regex

variable {ic : Bool}

theorem lang_none {w : List Char} : ¬ Lang ic .none w := by
  intro h; cases h

theorem lang_eps {w : List Char} : Lang ic .eps w ↔ w = [] := by
  constructor
  · intro h; cases h; rfl
  · rintro rfl; exact .eps

theorem lang_cls {k : Cls} {w : List Char} : Lang ic (.cls k) w ↔ ∃ c, w = [c] ∧ k.mem ic c = true := by
  constructor
  · intro h; cases h with | cls hm => exact ⟨_, rfl, hm⟩
  · rintro ⟨c, rfl, hm⟩; exact .cls hm

theorem lang_cat {a b : Re} {w : List Char} :
    Lang ic (.cat a b) w ↔ ∃ u v, w = u ++ v ∧ Lang ic a u ∧ Lang ic b v := by
  constructor
  · intro h; cases h with | cat h1 h2 => exact ⟨_, _, rfl, h1, h2⟩
  · rintro ⟨u, v, rfl, h1, h2⟩; exact .cat h1 h2

theorem lang_alt {a b : Re} {w : List Char} : Lang ic (.alt a b) w ↔ Lang ic a w ∨ Lang ic b w := by
  constructor
  · intro h; cases h with
    | altL h => exact Or.inl h
    | altR h => exact Or.inr h
  · rintro (h | h)
    · exact .altL h
    · exact .altR h

theorem nullable_iff (r : Re) : nullable r = true ↔ Lang ic r [] := by
  induction r with
  | none => simp [nullable, lang_none]
  | eps => simp [nullable, lang_eps]
  | cls k => simp [nullable, lang_cls]
  | cat a b iha ihb =>
    simp only [nullable, Bool.and_eq_true, iha, ihb, lang_cat]
    constructor
    · rintro ⟨h1, h2⟩; exact ⟨[], [], rfl, h1, h2⟩
    · rintro ⟨u, v, e, h1, h2⟩
      have : u = [] ∧ v = [] := by simpa using e.symm
      rw [this.1] at h1; rw [this.2] at h2; exact ⟨h1, h2⟩
  | alt a b iha ihb => simp [nullable, iha, ihb, lang_alt]
  | star a _ => simp [nullable]; exact .starNil

theorem mkCat_eq (a b : Re) : mkCat a b = if a = .none ∨ b = .none then .none else .cat a b := by
  cases a <;> cases b <;> simp [mkCat]

theorem mkAlt_cases (a b : Re) :
    (a = .none ∧ mkAlt a b = b) ∨ (b = .none ∧ mkAlt a b = a) ∨ mkAlt a b = .alt a b := by
  cases a <;> cases b <;> simp [mkAlt]

theorem lang_mkCat {a b : Re} {w : List Char} : Lang ic (mkCat a b) w ↔ Lang ic (.cat a b) w := by
  rw [mkCat_eq]
  split
  · next h =>
    constructor
    · intro h'; exact absurd h' lang_none
    · rw [lang_cat]
      rintro ⟨u, v, _, h1, h2⟩
      rcases h with rfl | rfl
      · exact absurd h1 lang_none
      · exact absurd h2 lang_none
  · rfl

theorem lang_mkAlt {a b : Re} {w : List Char} : Lang ic (mkAlt a b) w ↔ Lang ic (.alt a b) w := by
  rcases mkAlt_cases a b with ⟨rfl, e⟩ | ⟨rfl, e⟩ | e
  · rw [e, lang_alt]; simp [lang_none]
  · rw [e, lang_alt]; simp [lang_none]
  · rw [e]

/-- A non-empty word of `a*` starts with a non-empty word of `a`. -/
theorem lang_star_cons {a : Re} {c : Char} {w : List Char} (h : Lang ic (.star a) (c :: w)) :
    ∃ u v, w = u ++ v ∧ Lang ic a (c :: u) ∧ Lang ic (.star a) v := by
  generalize hr : Re.star a = r at h
  generalize hx : c :: w = x at h
  induction h generalizing w with
  | eps => cases hr
  | cls _ => cases hr
  | cat _ _ => cases hr
  | altL _ => cases hr
  | altR _ => cases hr
  | starNil => cases hx
  | @starCons a' u v h1 h2 _ ih2 =>
    cases hr
    cases u with
    | nil =>
      simp only [List.nil_append] at hx
      exact ih2 rfl hx
    | cons d u' =>
      simp only [List.cons_append, List.cons.injEq] at hx
      obtain ⟨rfl, rfl⟩ := hx
      exact ⟨u', v, rfl, h1, h2⟩

theorem lang_der (r : Re) (c : Char) (w : List Char) : Lang ic (der ic c r) w ↔ Lang ic r (c :: w) := by
  induction r generalizing w with
  | none => simp [der, lang_none]
  | eps => simp [der, lang_none, lang_eps]
  | cls k =>
    simp only [der, lang_cls]
    split
    · next hm =>
      rw [lang_eps]
      constructor
      · rintro rfl; exact ⟨c, rfl, hm⟩
      · rintro ⟨d, e, _⟩; simp at e; exact e.2
    · next hm =>
      constructor
      · intro h; exact absurd h lang_none
      · rintro ⟨d, e, hd⟩
        simp only [List.cons.injEq] at e
        rw [← e.1] at hd; exact absurd hd hm
  | cat a b iha ihb =>
    have hcat : Lang ic (.cat a b) (c :: w) ↔
        (∃ u v, w = u ++ v ∧ Lang ic a (c :: u) ∧ Lang ic b v) ∨ (Lang ic a [] ∧ Lang ic b (c :: w)) := by
      rw [lang_cat]
      constructor
      · rintro ⟨u, v, e, h1, h2⟩
        cases u with
        | nil => right; simp only [List.nil_append] at e; rw [e]; exact ⟨h1, h2⟩
        | cons d u' =>
          left
          simp only [List.cons_append, List.cons.injEq] at e
          obtain ⟨rfl, rfl⟩ := e
          exact ⟨u', v, rfl, h1, h2⟩
      · rintro (⟨u, v, rfl, h1, h2⟩ | ⟨h1, h2⟩)
        · exact ⟨c :: u, v, rfl, h1, h2⟩
        · exact ⟨[], c :: w, rfl, h1, h2⟩
    have hleft : Lang ic (mkCat (der ic c a) b) w ↔ ∃ u v, w = u ++ v ∧ Lang ic a (c :: u) ∧ Lang ic b v := by
      rw [lang_mkCat, lang_cat]
      constructor
      · rintro ⟨u, v, e, h1, h2⟩; exact ⟨u, v, e, (iha u).1 h1, h2⟩
      · rintro ⟨u, v, e, h1, h2⟩; exact ⟨u, v, e, (iha u).2 h1, h2⟩
    rw [hcat]
    simp only [der]
    split
    · next hn =>
      rw [lang_mkAlt, lang_alt, hleft, ihb]
      have := (nullable_iff (ic := ic) a).1 hn
      simp [this]
    · next hn =>
      rw [hleft]
      have : ¬ Lang ic a [] := fun h => hn ((nullable_iff a).2 h)
      simp [this]
  | alt a b iha ihb => simp [der, lang_mkAlt, lang_alt, iha, ihb]
  | star a iha =>
    simp only [der]
    rw [lang_mkCat, lang_cat]
    constructor
    · rintro ⟨u, v, rfl, h1, h2⟩
      have := Lang.starCons ((iha u).1 h1) h2
      simpa using this
    · intro h
      obtain ⟨u, v, e, h1, h2⟩ := lang_star_cons h
      exact ⟨u, v, e, (iha u).2 h1, h2⟩

/-- The matcher for `^r$` decides the language. -/
theorem fmatch_iff (r : Re) (s : List Char) : fmatch ic r s = true ↔ Lang ic r s := by
  induction s generalizing r with
  | nil => simp only [fmatch]; exact nullable_iff r
  | cons c cs ih => simp [fmatch, ih, lang_der]

/-- The matcher for `^r` accepts iff some prefix of the haystack is in the language. -/
theorem pmatch_iff (r : Re) (s : List Char) :
    pmatch ic r s = true ↔ ∃ u v, s = u ++ v ∧ Lang ic r u := by
  induction s generalizing r with
  | nil =>
    simp only [pmatch]; rw [nullable_iff (ic := ic)]
    constructor
    · intro h; exact ⟨[], [], rfl, h⟩
    · rintro ⟨u, v, e, h⟩
      have : u = [] := by
        have := e.symm; simp at this; exact this.1
      rw [this] at h; exact h
  | cons c cs ih =>
    simp only [pmatch, Bool.or_eq_true, ih, lang_der]; rw [nullable_iff (ic := ic)]
    constructor
    · rintro (h | ⟨u, v, e, h⟩)
      · exact ⟨[], c :: cs, rfl, h⟩
      · exact ⟨c :: u, v, by simp [e], h⟩
    · rintro ⟨u, v, e, h⟩
      cases u with
      | nil => exact Or.inl h
      | cons d u' =>
        simp only [List.cons_append, List.cons.injEq] at e
        obtain ⟨rfl, rfl⟩ := e
        exact Or.inr ⟨u', v, rfl, h⟩

theorem lang_catAll_append (ra rb : List Re) (w : List Char) :
    Lang ic (catAll (ra ++ rb)) w ↔ ∃ u v, w = u ++ v ∧ Lang ic (catAll ra) u ∧ Lang ic (catAll rb) v := by
  induction ra generalizing w with
  | nil =>
    simp only [List.nil_append, catAll, lang_eps]
    constructor
    · intro h; exact ⟨[], w, rfl, rfl, h⟩
    · rintro ⟨u, v, rfl, rfl, h⟩; simpa using h
  | cons r ra ih =>
    simp only [List.cons_append, catAll, lang_cat, ih]
    constructor
    · rintro ⟨u, v, rfl, h1, u', v', rfl, h2, h3⟩
      exact ⟨u ++ u', v', by simp, ⟨u, u', rfl, h1, h2⟩, h3⟩
    · rintro ⟨u, v, rfl, ⟨u1, u2, rfl, h1, h2⟩, h3⟩
      exact ⟨u1, u2 ++ v, by simp, h1, u2, v, rfl, h2, h3⟩

end Rio.Regex
