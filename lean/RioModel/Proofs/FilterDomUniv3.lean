/-
C15, byte level, universal form on `Simple2` with the NO-OP domain (W13): every filter of the chain is either in its
domain `InDomain htmlTokenize vtP` on the document it sees, or one of its path names stands in no tag of that document
(`NoOp vtP`, Proofs/FilterDomNoop.lean: the filter is the identity, as is the reference edit).

  `StepsSimple3`, `stepsOK3_of_simple3`, `stepsSimple3B`, `stepsSimple3B_sound`, `stepsSimple3B_of_2B`
-/
import RioModel.Proofs.FilterDomUniv2
import RioModel.Proofs.FilterDomNoop
set_option linter.unusedSimpArgs false
set_option linter.unusedVariables false

namespace Rio.Filter
open Rio.Html Rio.Html.Tokenizer Rio.Consts

/-- several filters on `Simple2` documents, each in its domain or in its no-op domain on the document it sees -/
def StepsSimple3 (L : Laws) (ev : Bytes → Bytes → Bool) : List Node → List BodyFilter → Prop
  | _, [] => True
  | d, f :: fs =>
    Simple2L L d ∧ utf8Split (serializeList d) = some (serializeList d, []) ∧ NoHeld2 d ∧
    (InDomain htmlTokenize vtP d f ∨ NoOp vtP d f) ∧
    (fs ≠ [] → serializeList (editD (decOf ev) d f) ≠ []) ∧ StepsSimple3 L ev (editD (decOf ev) d f) fs

theorem stepsOK3_of_simple3 (L : Laws) (ev : Bytes → Bytes → Bool) :
    ∀ (fs : List BodyFilter) (d : List Node), StepsSimple3 L ev d fs → StepsOK3 vtP htmlTokenize ev d fs
  | [], _, _ => trivial
  | f :: fs, d, h => by
    obtain ⟨hs, hu, hh, hd, hne, hrest⟩ := h
    exact ⟨hd, tokAgree2_of_laws L d hs hu hh, hne, stepsOK3_of_simple3 L ev fs _ hrest⟩

/-- decidable `StepsSimple3 simpleLaws ev` -/
def stepsSimple3B (ev : Bytes → Bytes → Bool) : List Node → List BodyFilter → Bool
  | _, [] => true
  | d, f :: fs =>
    simple2LB d && decide (utf8Split (serializeList d) = some (serializeList d, [])) && decide (NoHeld2 d) &&
    (inDomainB htmlTokenize vtP d f || noOpB vtP d f) &&
    (fs.isEmpty || !(serializeList (editD (decOf ev) d f)).isEmpty) &&
    stepsSimple3B ev (editD (decOf ev) d f) fs

theorem stepsSimple3B_sound (ev : Bytes → Bytes → Bool) : ∀ (fs : List BodyFilter) (d : List Node),
    stepsSimple3B ev d fs = true → StepsSimple3 simpleLaws ev d fs
  | [], _, _ => trivial
  | f :: fs, d, h => by
    unfold stepsSimple3B at h
    simp only [Bool.and_eq_true, Bool.or_eq_true, Bool.not_eq_true', List.isEmpty_eq_false_iff,
      decide_eq_true_eq] at h
    obtain ⟨⟨⟨⟨⟨h1, h2⟩, hh⟩, h3⟩, h4⟩, h5⟩ := h
    refine ⟨simple2LB_sound d h1, h2, hh, ?_, ?_, stepsSimple3B_sound ev fs _ h5⟩
    · rcases h3 with h3 | h3
      · exact Or.inl (inDomainB_sound htmlTokenize vtP h3)
      · exact Or.inr (noOpB_sound vtP h3)
    · intro hne
      rcases h4 with h4 | h4
      · exact absurd (List.isEmpty_iff.mp h4) hne
      · exact h4

/-- the third recogniser accepts what the second accepts -/
theorem stepsSimple3B_of_2B (ev : Bytes → Bytes → Bool) : ∀ (fs : List BodyFilter) (d : List Node),
    stepsSimple2B ev d fs = true → stepsSimple3B ev d fs = true
  | [], _, _ => rfl
  | f :: fs, d, h => by
    unfold stepsSimple2B at h
    unfold stepsSimple3B
    simp only [Bool.and_eq_true] at h ⊢
    obtain ⟨⟨⟨⟨⟨h1, h2⟩, hh⟩, h3⟩, h4⟩, h5⟩ := h
    exact ⟨⟨⟨⟨⟨h1, h2⟩, hh⟩, by simp [h3]⟩, h4⟩, stepsSimple3B_of_2B ev fs _ h5⟩

end Rio.Filter
