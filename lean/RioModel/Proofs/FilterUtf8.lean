/-
The UTF-8 prologue of `HtmlFilterBodyAction::filter` under concatenation: the valid part of `d ++ y` is the valid part
of `d` followed by the valid part of `pending(d) ++ y` (repair of D3: an incomplete trailing sequence is carried).
-/
import RioModel.Model.Filter
set_option linter.unusedSimpArgs false
set_option linter.unusedVariables false

namespace Rio.Filter

/-- the validator over a byte string, from state `st`; `none` = invalid -/
def u8Run : U8St → Bytes → Option U8St
  | st, [] => some st
  | st, b :: bs =>
    match u8Step st b with
    | none => none
    | some st' => u8Run st' bs

theorem u8Run_append (st : U8St) (a b : Bytes) :
    u8Run st (a ++ b) = match u8Run st a with | none => none | some st' => u8Run st' b := by
  induction a generalizing st with
  | nil => rfl
  | cons x xs ih =>
    simp only [List.cons_append, u8Run]
    cases u8Step st x with
    | none => rfl
    | some st' => exact ih st'

/-- after a byte the state has `need = 0` only as the initial state `{}` -/
theorem u8Step_need0 (st st' : U8St) (b : Nat) (h : u8Step st b = some st') (h0 : st'.need = 0) : st' = {} := by
  unfold u8Step at h
  split at h
  · repeat' split at h
    all_goals (first | (injection h with h; subst h; first | rfl | simp at h0) | simp at h)
  · split at h
    · injection h with h; subst h; simp at h0; simp [h0]
    · simp at h

/-- shifting the positions -/
theorem utf8Go_shift (k : Nat) : ∀ (bs : Bytes) (st : U8St) (pos bd : Nat),
    utf8Go bs st (pos + k) (bd + k) =
      match utf8Go bs st pos bd with
      | .ok => .ok
      | .incomplete n => .incomplete (n + k)
      | .invalid => .invalid
  | [], st, pos, bd => by simp only [utf8Go]; split <;> rfl
  | b :: bs, st, pos, bd => by
    simp only [utf8Go]
    cases h : u8Step st b with
    | none => rfl
    | some st' =>
      simp only
      have : pos + k + 1 = pos + 1 + k := by omega
      rw [this]
      by_cases h0 : st'.need = 0
      · simp only [h0, if_true]; exact utf8Go_shift k bs st' (pos + 1) (pos + 1)
      · simp only [h0, if_false]; exact utf8Go_shift k bs st' (pos + 1) bd

/-- scanning a complete valid prefix `a` (state back to `{}`) and then the rest -/
theorem utf8Go_prefix : ∀ (a rest : Bytes) (st : U8St) (pos bd : Nat), a ≠ [] → u8Run st a = some {} →
    utf8Go (a ++ rest) st pos bd = utf8Go rest {} (pos + a.length) (pos + a.length)
  | [], rest, st, pos, bd, hne, _ => absurd rfl hne
  | [b], rest, st, pos, bd, _, h => by
    simp only [u8Run] at h
    cases hs : u8Step st b with
    | none => simp [hs] at h
    | some st' =>
      simp only [hs] at h
      injection h with h
      subst h
      simp [utf8Go, hs]
  | b :: c :: cs, rest, st, pos, bd, _, h => by
    simp only [u8Run] at h
    cases hs : u8Step st b with
    | none => simp [hs] at h
    | some st' =>
      simp only [hs] at h
      simp only [List.cons_append]
      rw [utf8Go]
      simp only [hs]
      have := utf8Go_prefix (c :: cs) rest st' (pos + 1) (if st'.need = 0 then pos + 1 else bd) (by simp) (by simpa [u8Run] using h)
      simp only [List.cons_append] at this
      rw [this]
      simp only [List.length_cons]
      have e : pos + 1 + (cs.length + 1) = pos + (cs.length + 1 + 1) := by omega
      rw [e]

/-- what `utf8Go` returns, in terms of the state after the last complete character -/
theorem utf8Go_spec : ∀ (bs : Bytes) (st : U8St) (pos bd : Nat),
    (utf8Go bs st pos bd = .invalid ↔ u8Run st bs = none) ∧
    (utf8Go bs st pos bd = .ok ↔ ∃ s, u8Run st bs = some s ∧ s.need = 0) ∧
    (∀ n, utf8Go bs st pos bd = .incomplete n →
      (∃ s, u8Run st bs = some s ∧ s.need ≠ 0) ∧
      ((n = bd ∧ ∀ (a r : Bytes), a ≠ [] → bs = a ++ r → u8Run st a ≠ some {}) ∨
       (∃ a r, a ≠ [] ∧ bs = a ++ r ∧ u8Run st a = some {} ∧ n = pos + a.length ∧
          ∀ (a' r' : Bytes), a' ≠ [] → r = a' ++ r' → u8Run {} a' ≠ some {})))
  | [], st, pos, bd => by
    simp only [utf8Go, u8Run]
    refine ⟨?_, ?_, ?_⟩
    · split <;> simp
    · split <;> simp_all
    · intro n h
      split at h
      · simp at h
      · injection h with h
        subst h
        refine ⟨⟨st, rfl, by assumption⟩, Or.inl ⟨rfl, ?_⟩⟩
        intro a r ha hbs
        cases a with
        | nil => exact absurd rfl ha
        | cons x xs => simp at hbs
  | b :: bs, st, pos, bd => by
    simp only [utf8Go, u8Run]
    cases hs : u8Step st b with
    | none =>
      simp only
      refine ⟨by simp, by simp, ?_⟩
      intro n h; simp at h
    | some st' =>
      simp only
      obtain ⟨i1, i2, i3⟩ := utf8Go_spec bs st' (pos + 1) (if st'.need = 0 then pos + 1 else bd)
      refine ⟨i1, i2, ?_⟩
      intro n h
      obtain ⟨j1, j2⟩ := i3 n h
      refine ⟨j1, ?_⟩
      by_cases h0 : st'.need = 0
      · have hst : st' = {} := u8Step_need0 st st' b hs h0
        subst hst
        simp only [if_true] at j2 h
        right
        rcases j2 with ⟨hn, hall⟩ | ⟨a, r, ha, hbs, hrun, hn, hall⟩
        · refine ⟨[b], bs, by simp, rfl, by simp [u8Run, hs], by simp [hn], ?_⟩
          intro a' r' ha' hr'
          exact hall a' r' ha' hr'
        · refine ⟨b :: a, r, by simp, by simp [hbs], by simp [u8Run, hs, hrun], by simp [hn]; omega, hall⟩
      · simp only [h0, if_false] at j2 h
        rcases j2 with ⟨hn, hall⟩ | ⟨a, r, ha, hbs, hrun, hn, hall⟩
        · left
          refine ⟨hn, ?_⟩
          intro a r ha hbs
          cases a with
          | nil => exact absurd rfl ha
          | cons x xs =>
            simp only [List.cons_append, List.cons.injEq] at hbs
            obtain ⟨rfl, hbs⟩ := hbs
            simp only [u8Run, hs]
            cases xs with
            | nil =>
              simp only [u8Run]
              intro hc
              injection hc with hc
              subst hc
              exact h0 rfl
            | cons y ys => exact hall (y :: ys) r (by simp) hbs
        · right
          exact ⟨b :: a, r, by simp, by simp [hbs], by simp [u8Run, hs, hrun], by simp [hn]; omega, hall⟩

theorem u8Run_need0 : ∀ (bs : Bytes) (st s : U8St), st = {} ∨ bs ≠ [] → u8Run st bs = some s → s.need = 0 → s = {}
  | [], st, s, h, hr, _ => by
    simp only [u8Run] at hr
    injection hr with hr
    subst hr
    rcases h with h | h
    · exact h
    · exact absurd rfl h
  | [b], st, s, _, hr, h0 => by
    simp only [u8Run] at hr
    cases hs : u8Step st b with
    | none => simp [hs] at hr
    | some st' =>
      simp only [hs] at hr
      injection hr with hr
      subst hr
      exact u8Step_need0 st st' b hs h0
  | b :: c :: cs, st, s, _, hr, h0 => by
    simp only [u8Run] at hr
    cases hs : u8Step st b with
    | none => simp [hs] at hr
    | some st' =>
      simp only [hs] at hr
      exact u8Run_need0 (c :: cs) st' s (Or.inr (by simp)) (by simpa [u8Run] using hr) h0

/-- the valid part is complete valid UTF-8 and the split is a split -/
theorem utf8Split_spec {d a p : Bytes} (h : utf8Split d = some (a, p)) : u8Run {} a = some {} ∧ a ++ p = d := by
  unfold utf8Split utf8Scan at h
  obtain ⟨i1, i2, i3⟩ := utf8Go_spec d {} 0 0
  cases hg : utf8Go d {} 0 0 with
  | ok =>
    simp only [hg] at h
    injection h with h
    injection h with h1 h2
    subst h1 h2
    obtain ⟨s, hs, h0⟩ := i2.mp hg
    have := u8Run_need0 d {} s (Or.inl rfl) hs h0
    subst this
    exact ⟨hs, by simp⟩
  | incomplete n =>
    simp only [hg] at h
    injection h with h
    injection h with h1 h2
    subst h1 h2
    refine ⟨?_, by simp⟩
    obtain ⟨_, j2⟩ := i3 n hg
    rcases j2 with ⟨hn, _⟩ | ⟨a, r, ha, hbs, hrun, hn, _⟩
    · subst hn; simp [u8Run]
    · subst hbs
      simp only [Nat.zero_add] at hn
      subst hn
      simpa using hrun
  | invalid => simp [hg] at h

/-- a complete valid prefix `c` can be split off -/
theorem utf8Split_prefix (c z : Bytes) (hc : u8Run {} c = some {}) :
    utf8Split (c ++ z) = (utf8Split z).map fun r => (c ++ r.1, r.2) := by
  by_cases hne : c = []
  · subst hne
    simp only [List.nil_append]
    cases hz : utf8Split z with
    | none => rfl
    | some r => simp
  · unfold utf8Split utf8Scan
    rw [utf8Go_prefix c z {} 0 0 hne hc]
    have := utf8Go_shift c.length z {} 0 0
    rw [this]
    cases utf8Go z {} 0 0 with
    | ok => simp
    | incomplete n =>
      simp only [Option.map_some]
      have e1 : (c ++ z).take (n + c.length) = c ++ z.take n := by
        rw [List.take_append]
        have : n + c.length - c.length = n := by omega
        rw [this, List.take_of_length_le (by omega)]
      have e2 : (c ++ z).drop (n + c.length) = z.drop n := by
        rw [List.drop_append]
        have : n + c.length - c.length = n := by omega
        rw [this, List.drop_of_length_le (by omega)]
        simp
      rw [e1, e2]
    | invalid => rfl

/-- **Concatenation law of the UTF-8 prologue**: the valid part of `d ++ y` is the valid part of `d` followed by the
valid part of `pending(d) ++ y`. -/
theorem utf8Split_append_right {d a p : Bytes} (h : utf8Split d = some (a, p)) (y : Bytes) :
    utf8Split (d ++ y) = (utf8Split (p ++ y)).map fun r => (a ++ r.1, r.2) := by
  obtain ⟨h1, h2⟩ := utf8Split_spec h
  rw [← h2, List.append_assoc]
  exact utf8Split_prefix a (p ++ y) h1

/-- an invalid prefix stays invalid -/
theorem utf8Split_none_append {d : Bytes} (h : utf8Split d = none) (y : Bytes) : utf8Split (d ++ y) = none := by
  unfold utf8Split utf8Scan at h ⊢
  obtain ⟨i1, _, _⟩ := utf8Go_spec d {} 0 0
  obtain ⟨k1, _, _⟩ := utf8Go_spec (d ++ y) {} 0 0
  cases hg : utf8Go d {} 0 0 with
  | ok => simp [hg] at h
  | incomplete n => simp [hg] at h
  | invalid =>
    have := i1.mp hg
    have h2 : u8Run {} (d ++ y) = none := by rw [u8Run_append, this]
    rw [k1.mpr h2]

/-- complete valid UTF-8 -/
def V (a : Bytes) : Prop := u8Run {} a = some {}

theorem V_nil : V [] := rfl

theorem V_append {a b : Bytes} (ha : V a) (hb : V b) : V (a ++ b) := by
  unfold V at *
  rw [u8Run_append, ha]
  exact hb

theorem V_of_append_left {a b : Bytes} (hab : V (a ++ b)) (ha : V a) : V b := by
  unfold V at *
  rw [u8Run_append, ha] at hab
  exact hab

theorem V_utf8Split {d a p : Bytes} (h : utf8Split d = some (a, p)) : V a := (utf8Split_spec h).1

theorem utf8Split_of_V {d : Bytes} (h : V d) : utf8Split d = some (d, []) := by
  have := utf8Split_prefix d [] h
  simpa [utf8Split, utf8Scan, utf8Go] using this

end Rio.Filter
