/-
Helper lemmas for C10 (Props/C10.lean): `str::replace` equations, the parser, the key step
"one sequential replace = filling one name in the item view", the fold over a length-sorted list, the sort.
-/
import RioModel.Model.Marker
set_option linter.unusedSimpArgs false

namespace Rio.Marker

/-! ### prefixes, byte length -/

theorem pre_iff {p s : Str} : pre p s = true ↔ p <+: s := by
  unfold pre; exact List.isPrefixOf_iff_prefix

theorem pre_false_iff {p s : Str} : pre p s = false ↔ ¬ p <+: s := by
  rw [← pre_iff]; simp

theorem blen_append (a b : Str) : blen (a ++ b) = blen a + blen b := by
  induction a with
  | nil => simp [blen]
  | cons c cs ih => simp [blen, ih]; omega

theorem blen_pos_of_ne_nil {s : Str} (h : s ≠ []) : 0 < blen s := by
  cases s with
  | nil => exact absurd rfl h
  | cons c cs =>
    have := Char.utf8Size_pos c
    simp [blen]; omega

/-- A proper extension is strictly longer in bytes. -/
theorem blen_lt_of_prefix_ne {n m : Str} (h : n <+: m) (hne : n ≠ m) : blen n < blen m := by
  obtain ⟨s, rfl⟩ := h
  have hs : s ≠ [] := by
    intro hs; apply hne; simp [hs]
  have := blen_pos_of_ne_nil hs
  rw [blen_append]; omega

/-! ### `str::replace` -/

theorem replaceAll1_nil (p : Char) (ps w : Str) : replaceAll1 p ps w [] = [] := by
  simp [replaceAll1]

theorem replaceAll1_hit (p : Char) (ps w rest : Str) :
    replaceAll1 p ps w (p :: (ps ++ rest)) = w ++ replaceAll1 p ps w rest := by
  rw [replaceAll1]
  have : pre ps (ps ++ rest) = true := pre_iff.mpr (List.prefix_append _ _)
  simp [this]

theorem replaceAll1_miss (p : Char) (ps w : Str) (c : Char) (cs : Str)
    (h : ¬ (c = p ∧ ps <+: cs)) :
    replaceAll1 p ps w (c :: cs) = c :: replaceAll1 p ps w cs := by
  rw [replaceAll1]
  have : ¬ (c = p ∧ pre ps cs = true) := by rw [pre_iff]; exact h
  simp [this]

/-- Text without the first pattern char is copied. -/
theorem replaceAll1_skip (p : Char) (ps w : Str) (s rest : Str) (h : p ∉ s) :
    replaceAll1 p ps w (s ++ rest) = s ++ replaceAll1 p ps w rest := by
  induction s with
  | nil => simp
  | cons c cs ih =>
    have hc : c ≠ p := by intro e; apply h; simp [e]
    have hcs : p ∉ cs := by intro e; apply h; simp [e]
    rw [List.cons_append, replaceAll1_miss _ _ _ _ _ (by simp [hc]), ih hcs]
    rfl

theorem replaceAll1_of_not_contains (p : Char) (ps w : Str) (s : Str)
    (h : containsSub1 p ps s = false) : replaceAll1 p ps w s = s := by
  induction s with
  | nil => simp [replaceAll1]
  | cons c cs ih =>
    simp only [containsSub1, Bool.or_eq_false_iff, Bool.and_eq_false_iff, decide_eq_false_iff_not] at h
    have hm : ¬ (c = p ∧ ps <+: cs) := by
      rintro ⟨e, hp⟩
      rcases h.1 with h1 | h1
      · exact h1 e
      · rw [pre_false_iff] at h1; exact h1 hp
    rw [replaceAll1_miss _ _ _ _ _ hm, ih h.2]

/-- The `if regex.contains(..)` guard of `MarkerString::new` does not change the strings. -/
theorem strReplace_fmt_of_not_contains (n w s : Str) (h : containsSub (fmt n) s = false) :
    strReplace (fmt n) w s = s := by
  simp only [fmt, containsSub] at h
  simp only [fmt, strReplace]
  exact replaceAll1_of_not_contains _ _ _ _ h

/-! ### `longest`, `parse` -/

theorem longest_none {ns : List Str} {s : Str} (h : longest ns s = none) : ∀ m ∈ ns, ¬ m <+: s := by
  induction ns with
  | nil => simp
  | cons a as ih =>
    rw [longest] at h
    cases hl : longest as s with
    | some b =>
      simp only [hl] at h
      split at h <;> simp at h
    | none =>
      rw [hl] at h
      cases hp : pre a s with
      | true => simp [hp] at h
      | false =>
        intro m hm
        rcases List.mem_cons.mp hm with rfl | hm'
        · exact pre_false_iff.mp hp
        · exact ih hl m hm'

theorem longest_some {ns : List Str} {s n : Str} (h : longest ns s = some n) : n ∈ ns ∧ n <+: s := by
  induction ns generalizing n with
  | nil => simp [longest] at h
  | cons a as ih =>
    rw [longest] at h
    cases hl : longest as s with
    | none =>
      rw [hl] at h
      cases hp : pre a s with
      | false => simp [hp] at h
      | true =>
        simp [hp] at h
        subst h
        exact ⟨by simp, pre_iff.mp hp⟩
    | some b =>
      rw [hl] at h
      have hb := ih hl
      by_cases hc : (pre a s && decide (blen b < blen a)) = true
      · simp only [if_pos hc, Option.some.injEq] at h
        subst h
        simp only [Bool.and_eq_true] at hc
        exact ⟨by simp, pre_iff.mp hc.1⟩
      · simp only [if_neg hc, Option.some.injEq] at h
        subst h
        exact ⟨by simp [hb.1], hb.2⟩

/-- `longest` is maximal among the names that are prefixes. -/
theorem longest_max {ns : List Str} {s n : Str} (h : longest ns s = some n) :
    ∀ m ∈ ns, m <+: s → blen m ≤ blen n := by
  induction ns generalizing n with
  | nil => simp
  | cons a as ih =>
    rw [longest] at h
    intro m hm hpm
    cases hl : longest as s with
    | none =>
      rw [hl] at h
      have hnone := longest_none hl
      cases hp : pre a s with
      | false => simp [hp] at h
      | true =>
        simp [hp] at h
        subst h
        rcases List.mem_cons.mp hm with rfl | hm'
        · exact Nat.le_refl _
        · exact absurd hpm (hnone m hm')
    | some b =>
      rw [hl] at h
      have hb := ih hl
      by_cases hc : (pre a s && decide (blen b < blen a)) = true
      · simp only [if_pos hc, Option.some.injEq] at h
        subst h
        simp only [Bool.and_eq_true, decide_eq_true_eq] at hc
        rcases List.mem_cons.mp hm with rfl | hm'
        · exact Nat.le_refl _
        · have := hb m hm' hpm; omega
      · simp only [if_neg hc, Option.some.injEq] at h
        subst h
        rcases List.mem_cons.mp hm with rfl | hm'
        · simp only [Bool.and_eq_true, decide_eq_true_eq, not_and, Nat.not_lt] at hc
          exact hc (pre_iff.mpr hpm)
        · exact hb m hm' hpm

theorem parse_nil (ns : List Str) : parse ns [] = [] := by simp [parse]

theorem parse_lit (ns : List Str) (c : Char) (cs : Str) (h : c ≠ '@') :
    parse ns (c :: cs) = .lit c :: parse ns cs := by
  rw [parse]; simp [h]

theorem parse_ref (ns : List Str) (cs n : Str) (h : longest ns cs = some n) :
    parse ns ('@' :: cs) = .ref n :: parse ns (cs.drop n.length) := by
  rw [parse]; simp [h]

theorem parse_stray (ns : List Str) (cs : Str) (h : longest ns cs = none) :
    parse ns ('@' :: cs) = .stray :: parse ns cs := by
  rw [parse]; simp [h]

/-- Induction principle following the parser. -/
theorem parse_induction (ns : List Str) (P : Str → Prop)
    (hnil : P [])
    (hlit : ∀ c cs, c ≠ '@' → P cs → P (c :: cs))
    (href : ∀ cs n, longest ns cs = some n → P (cs.drop n.length) → P ('@' :: cs))
    (hstray : ∀ cs, longest ns cs = none → P cs → P ('@' :: cs)) :
    ∀ t, P t := by
  intro t
  induction hlen : t.length using Nat.strongRecOn generalizing t with
  | _ k ih =>
    cases t with
    | nil => exact hnil
    | cons c cs =>
      by_cases hc : c = '@'
      · subst hc
        cases hl : longest ns cs with
        | none => exact hstray cs hl (ih cs.length (by simp at hlen; omega) cs rfl)
        | some n =>
          exact href cs n hl (ih (cs.drop n.length).length (by simp at hlen ⊢; omega) _ rfl)
      · exact hlit c cs hc (ih cs.length (by simp at hlen; omega) cs rfl)

/-- The parser loses nothing: rendering the items without escaping gives the template back. -/
theorem render_parse (ns : List Str) (t : Str) : render idEsc (parse ns t) = t := by
  induction t using parse_induction ns with
  | hnil => simp [parse_nil, render]
  | hlit c cs hc ih =>
    rw [parse_lit _ _ _ hc]
    simp only [render, List.flatMap_cons, Item.render, idEsc] at ih ⊢
    simp [ih]
  | href cs n hl ih =>
    rw [parse_ref _ _ _ hl]
    obtain ⟨r, hr⟩ := (longest_some hl).2
    simp only [render, List.flatMap_cons, Item.render] at ih ⊢
    rw [ih]
    simp
    conv => rhs; rw [← List.take_append_drop n.length cs]
    congr 1
    rw [← hr]; simp
  | hstray cs hl ih =>
    rw [parse_stray _ _ hl]
    simp only [render, List.flatMap_cons, Item.render] at ih ⊢
    simp [ih]

end Rio.Marker
