/-
Helper lemmas for C10 (Props/C10.lean): `str::replace` equations, the parser, the key step
"one sequential replace = filling one name in the item view", the fold over a length-sorted list, the sort.
-/
import RioModel.Model.Marker
set_option linter.unusedSimpArgs false

namespace Rio.Marker

/-! ### prefixes, byte length -/

theorem pre_iff {p s : Str} : pre p s = true ↔ p <+: s := by
  unfold pre; exact List.isPrefixOf_iff_prefix

theorem pre_false_iff {p s : Str} : pre p s = false ↔ ¬ p <+: s := by
  rw [← pre_iff]; simp

theorem blen_append (a b : Str) : blen (a ++ b) = blen a + blen b := by
  induction a with
  | nil => simp [blen]
  | cons c cs ih => simp [blen, ih]; omega

theorem blen_pos_of_ne_nil {s : Str} (h : s ≠ []) : 0 < blen s := by
  cases s with
  | nil => exact absurd rfl h
  | cons c cs =>
    have := Char.utf8Size_pos c
    simp [blen]; omega

/-- A proper extension is strictly longer in bytes. -/
theorem blen_lt_of_prefix_ne {n m : Str} (h : n <+: m) (hne : n ≠ m) : blen n < blen m := by
  obtain ⟨s, rfl⟩ := h
  have hs : s ≠ [] := by
    intro hs; apply hne; simp [hs]
  have := blen_pos_of_ne_nil hs
  rw [blen_append]; omega

/-! ### `str::replace` -/

theorem replaceAux_skip (p : Char) (ps w : Str) (a rest : Str) :
    replaceAux p ps w a.length (a ++ rest) = replaceAux p ps w 0 rest := by
  induction a with
  | nil => simp
  | cons c cs ih => simpa [replaceAux] using ih

theorem replaceAll1_nil (p : Char) (ps w : Str) : replaceAll1 p ps w [] = [] := by
  simp [replaceAll1, replaceAux]

theorem replaceAll1_hit (p : Char) (ps w rest : Str) :
    replaceAll1 p ps w (p :: (ps ++ rest)) = w ++ replaceAll1 p ps w rest := by
  have : pre ps (ps ++ rest) = true := pre_iff.mpr (List.prefix_append _ _)
  simp [replaceAll1, replaceAux, this, replaceAux_skip]

theorem replaceAll1_miss (p : Char) (ps w : Str) (c : Char) (cs : Str)
    (h : ¬ (c = p ∧ ps <+: cs)) :
    replaceAll1 p ps w (c :: cs) = c :: replaceAll1 p ps w cs := by
  have : ¬ (c = p ∧ pre ps cs = true) := by rw [pre_iff]; exact h
  simp [replaceAll1, replaceAux, this]

/-- Text without the first pattern char is copied. -/
theorem replaceAll1_skip (p : Char) (ps w : Str) (s rest : Str) (h : p ∉ s) :
    replaceAll1 p ps w (s ++ rest) = s ++ replaceAll1 p ps w rest := by
  induction s with
  | nil => simp
  | cons c cs ih =>
    have hc : c ≠ p := by intro e; apply h; simp [e]
    have hcs : p ∉ cs := by intro e; apply h; simp [e]
    rw [List.cons_append, replaceAll1_miss _ _ _ _ _ (by simp [hc]), ih hcs]
    rfl

theorem replaceAll1_of_not_contains (p : Char) (ps w : Str) (s : Str)
    (h : containsSub1 p ps s = false) : replaceAll1 p ps w s = s := by
  induction s with
  | nil => simp [replaceAll1_nil]
  | cons c cs ih =>
    simp only [containsSub1, Bool.or_eq_false_iff, Bool.and_eq_false_iff, decide_eq_false_iff_not] at h
    have hm : ¬ (c = p ∧ ps <+: cs) := by
      rintro ⟨e, hp⟩
      rcases h.1 with h1 | h1
      · exact h1 e
      · rw [pre_false_iff] at h1; exact h1 hp
    rw [replaceAll1_miss _ _ _ _ _ hm, ih h.2]

/-- The `if regex.contains(..)` guard of `MarkerString::new` does not change the strings. -/
theorem strReplace_fmt_of_not_contains (n w s : Str) (h : containsSub (fmt n) s = false) :
    strReplace (fmt n) w s = s := by
  simp only [fmt, containsSub] at h
  simp only [fmt, strReplace]
  exact replaceAll1_of_not_contains _ _ _ _ h

/-! ### `longest`, `parse` -/

theorem longest_none {ns : List Str} {s : Str} (h : longest ns s = none) : ∀ m ∈ ns, ¬ m <+: s := by
  induction ns with
  | nil => simp
  | cons a as ih =>
    rw [longest] at h
    cases hl : longest as s with
    | some b =>
      simp only [hl] at h
      split at h <;> simp at h
    | none =>
      rw [hl] at h
      cases hp : pre a s with
      | true => simp [hp] at h
      | false =>
        intro m hm
        rcases List.mem_cons.mp hm with rfl | hm'
        · exact pre_false_iff.mp hp
        · exact ih hl m hm'

theorem longest_some {ns : List Str} {s n : Str} (h : longest ns s = some n) : n ∈ ns ∧ n <+: s := by
  induction ns generalizing n with
  | nil => simp [longest] at h
  | cons a as ih =>
    rw [longest] at h
    cases hl : longest as s with
    | none =>
      rw [hl] at h
      cases hp : pre a s with
      | false => simp [hp] at h
      | true =>
        simp [hp] at h
        subst h
        exact ⟨by simp, pre_iff.mp hp⟩
    | some b =>
      rw [hl] at h
      have hb := ih hl
      by_cases hc : (pre a s && decide (blen b < blen a)) = true
      · simp only [if_pos hc, Option.some.injEq] at h
        subst h
        simp only [Bool.and_eq_true] at hc
        exact ⟨by simp, pre_iff.mp hc.1⟩
      · simp only [if_neg hc, Option.some.injEq] at h
        subst h
        exact ⟨by simp [hb.1], hb.2⟩

/-- `longest` is maximal among the names that are prefixes. -/
theorem longest_max {ns : List Str} {s n : Str} (h : longest ns s = some n) :
    ∀ m ∈ ns, m <+: s → blen m ≤ blen n := by
  induction ns generalizing n with
  | nil => simp
  | cons a as ih =>
    rw [longest] at h
    intro m hm hpm
    cases hl : longest as s with
    | none =>
      rw [hl] at h
      have hnone := longest_none hl
      cases hp : pre a s with
      | false => simp [hp] at h
      | true =>
        simp [hp] at h
        subst h
        rcases List.mem_cons.mp hm with rfl | hm'
        · exact Nat.le_refl _
        · exact absurd hpm (hnone m hm')
    | some b =>
      rw [hl] at h
      have hb := ih hl
      by_cases hc : (pre a s && decide (blen b < blen a)) = true
      · simp only [if_pos hc, Option.some.injEq] at h
        subst h
        simp only [Bool.and_eq_true, decide_eq_true_eq] at hc
        rcases List.mem_cons.mp hm with rfl | hm'
        · exact Nat.le_refl _
        · have := hb m hm' hpm; omega
      · simp only [if_neg hc, Option.some.injEq] at h
        subst h
        rcases List.mem_cons.mp hm with rfl | hm'
        · simp only [Bool.and_eq_true, decide_eq_true_eq, not_and, Nat.not_lt] at hc
          exact hc (pre_iff.mpr hpm)
        · exact hb m hm' hpm

theorem parseAux_skip (ns : List Str) (k : Nat) (cs : Str) :
    parseAux ns k cs = parseAux ns 0 (cs.drop k) := by
  induction cs generalizing k with
  | nil => cases k <;> simp [parseAux]
  | cons c cs ih =>
    cases k with
    | zero => simp
    | succ k => simpa [parseAux] using ih k

theorem parse_nil (ns : List Str) : parse ns [] = [] := by simp [parse, parseAux]

theorem parse_lit (ns : List Str) (c : Char) (cs : Str) (h : c ≠ '@') :
    parse ns (c :: cs) = .lit c :: parse ns cs := by
  simp [parse, parseAux, h]

theorem parse_ref (ns : List Str) (cs n : Str) (h : longest ns cs = some n) :
    parse ns ('@' :: cs) = .ref n :: parse ns (cs.drop n.length) := by
  simp only [parse, parseAux, h, if_true]
  rw [parseAux_skip]

theorem parse_stray (ns : List Str) (cs : Str) (h : longest ns cs = none) :
    parse ns ('@' :: cs) = .stray :: parse ns cs := by
  simp [parse, parseAux, h]

/-- Induction principle following the parser. -/
theorem parse_induction (ns : List Str) (P : Str → Prop)
    (hnil : P [])
    (hlit : ∀ c cs, c ≠ '@' → P cs → P (c :: cs))
    (href : ∀ cs n, longest ns cs = some n → P (cs.drop n.length) → P ('@' :: cs))
    (hstray : ∀ cs, longest ns cs = none → P cs → P ('@' :: cs)) :
    ∀ t, P t := by
  intro t
  induction hlen : t.length using Nat.strongRecOn generalizing t with
  | _ k ih =>
    cases t with
    | nil => exact hnil
    | cons c cs =>
      by_cases hc : c = '@'
      · subst hc
        cases hl : longest ns cs with
        | none => exact hstray cs hl (ih cs.length (by simp at hlen; omega) cs rfl)
        | some n =>
          exact href cs n hl (ih (cs.drop n.length).length (by simp at hlen ⊢; omega) _ rfl)
      · exact hlit c cs hc (ih cs.length (by simp at hlen; omega) cs rfl)

/-- The parser loses nothing: rendering the items without escaping gives the template back. -/
theorem render_parse (ns : List Str) (t : Str) : render idEsc (parse ns t) = t := by
  induction t using parse_induction ns with
  | hnil => simp [parse_nil, render]
  | hlit c cs hc ih =>
    rw [parse_lit _ _ _ hc]
    simp only [render, List.flatMap_cons, Item.render, idEsc] at ih ⊢
    simp [ih]
  | href cs n hl ih =>
    rw [parse_ref _ _ _ hl]
    obtain ⟨r, hr⟩ := (longest_some hl).2
    simp only [render, List.flatMap_cons, Item.render] at ih ⊢
    rw [ih]
    simp
    conv => rhs; rw [← List.take_append_drop n.length cs]
    congr 1
    rw [← hr]; simp
  | hstray cs hl ih =>
    rw [parse_stray _ _ hl]
    simp only [render, List.flatMap_cons, Item.render] at ih ⊢
    simp [ih]

/-! ### One sequential replace = filling one name -/

/-- Fill the references to one name. -/
def fill1 (m w : Str) : Item → Item
  | .ref n => if n = m then .txt w else .ref n
  | i => i

/-- `@m` occurs in the rendering only where a `ref m` item stands: at a reference to another name and at a
stray `@`, the text that follows does not read as `m`. -/
def Sep (esc : Char → Str) (m : Str) : List Item → Prop
  | [] => True
  | .ref n :: post => (n ≠ m → ¬ m <+: n ++ render esc post) ∧ Sep esc m post
  | .stray :: post => ¬ m <+: render esc post ∧ Sep esc m post
  | _ :: post => Sep esc m post

/-- `@` occurs in the rendering only at stray `@`s and at the head of references. -/
structure Clean (esc : Char → Str) (is : List Item) : Prop where
  lit : ∀ c, Item.lit c ∈ is → '@' ∉ esc c
  txt : ∀ s, Item.txt s ∈ is → '@' ∉ s
  ref : ∀ n, Item.ref n ∈ is → '@' ∉ n

theorem Clean.tail {esc : Char → Str} {i : Item} {is : List Item} (h : Clean esc (i :: is)) : Clean esc is :=
  ⟨fun c hc => h.lit c (List.mem_cons_of_mem _ hc), fun s hs => h.txt s (List.mem_cons_of_mem _ hs),
   fun n hn => h.ref n (List.mem_cons_of_mem _ hn)⟩

theorem render_cons (esc : Char → Str) (i : Item) (is : List Item) :
    render esc (i :: is) = i.render esc ++ render esc is := by
  simp [render]

theorem render_nil (esc : Char → Str) : render esc [] = [] := rfl

theorem replace_render (esc : Char → Str) (m w : Str) (is : List Item)
    (hclean : Clean esc is) (hsep : Sep esc m is) :
    replaceAll1 '@' m w (render esc is) = render esc (is.map (fill1 m w)) := by
  induction is with
  | nil => simp [render_nil, replaceAll1_nil]
  | cons i is ih =>
    have ih' := ih hclean.tail
    cases i with
    | lit c =>
      simp only [Sep] at hsep
      rw [render_cons, List.map_cons, render_cons]
      simp only [Item.render, fill1]
      rw [replaceAll1_skip _ _ _ _ _ (hclean.lit c (by simp)), ih' hsep]
    | txt s =>
      simp only [Sep] at hsep
      rw [render_cons, List.map_cons, render_cons]
      simp only [Item.render, fill1]
      rw [replaceAll1_skip _ _ _ _ _ (hclean.txt s (by simp)), ih' hsep]
    | stray =>
      simp only [Sep] at hsep
      rw [render_cons, List.map_cons, render_cons]
      simp only [Item.render, fill1, List.cons_append, List.nil_append]
      rw [replaceAll1_miss _ _ _ _ _ (by simp [hsep.1]), ih' hsep.2]
    | ref n =>
      simp only [Sep] at hsep
      rw [render_cons, List.map_cons, render_cons]
      by_cases hn : n = m
      · subst hn
        simp only [Item.render, fill1, if_true, List.cons_append]
        rw [replaceAll1_hit, ih' hsep.2]
      · simp only [Item.render, fill1, if_neg hn, List.cons_append]
        rw [replaceAll1_miss _ _ _ _ _ (by simp [hsep.1 hn]),
          replaceAll1_skip _ _ _ _ _ (hclean.ref n (by simp)), ih' hsep.2]

/-! ### The fold over a length-sorted variable list -/

/-- Names in descending byte length. -/
def Sorted {β : Type} (vs : List (Str × β)) : Prop := vs.Pairwise fun a b => blen b.1 ≤ blen a.1

/-- Prop form of `noJoinItems`. -/
def NoJoinP (esc : Char → Str) (vs : List (Str × Str)) : List Item → Prop
  | [] => True
  | .ref n :: post =>
    (∀ m ∈ names vs, n <+: m → n ≠ m → ¬ m <+: n ++ render esc (post.map (fill vs))) ∧ NoJoinP esc vs post
  | .stray :: post => (∀ m ∈ names vs, ¬ m <+: render esc (post.map (fill vs))) ∧ NoJoinP esc vs post
  | _ :: post => NoJoinP esc vs post

theorem noJoinItems_iff (esc : Char → Str) (vs : List (Str × Str)) (is : List Item) :
    noJoinItems esc vs is = true ↔ NoJoinP esc vs is := by
  induction is with
  | nil => simp [noJoinItems, NoJoinP]
  | cons i is ih =>
    cases i with
    | lit c => simp [noJoinItems, NoJoinP, ih]
    | txt s => simp [noJoinItems, NoJoinP, ih]
    | stray =>
      simp only [noJoinItems, NoJoinP, Bool.and_eq_true, List.all_eq_true, Bool.not_eq_true', ih,
        pre_false_iff]
    | ref n =>
      simp only [noJoinItems, NoJoinP, Bool.and_eq_true, List.all_eq_true, Bool.not_eq_true',
        Bool.and_eq_false_iff, ih, properExt]
      constructor
      · rintro ⟨h, h2⟩
        refine ⟨?_, h2⟩
        intro m hm hnm hne
        rcases h m hm with h1 | h1
        · rcases h1 with h1 | h1
          · exact absurd hnm (pre_false_iff.mp h1)
          · simp at h1; exact absurd h1 hne
        · exact pre_false_iff.mp h1
      · rintro ⟨h, h2⟩
        refine ⟨?_, h2⟩
        intro m hm
        by_cases hnm : n <+: m
        · by_cases hne : n = m
          · left; right; simp [hne]
          · right; exact pre_false_iff.mpr (h m hm hnm hne)
        · left; left; exact pre_false_iff.mpr hnm

theorem fill_cons (m w : Str) (rest : List (Str × Str)) (i : Item) :
    fill ((m, w) :: rest) i = fill rest (fill1 m w i) := by
  cases i with
  | ref n =>
    by_cases h : n = m
    · subst h; simp [fill, fill1, List.lookup]
    · have : (n == m) = false := by simpa using h
      simp [fill, fill1, List.lookup, this, h]
  | _ => simp [fill, fill1]

theorem map_fill_cons (m w : Str) (rest : List (Str × Str)) (is : List Item) :
    is.map (fill ((m, w) :: rest)) = (is.map (fill1 m w)).map (fill rest) := by
  simp [List.map_map, Function.comp_def, fill_cons]

theorem fill_nil (i : Item) : fill [] i = i := by
  cases i <;> simp [fill, List.lookup]

/-- A prefix without `@` of a rendering survives the filling of references (it lies before the first `@`). -/
theorem prefix_map_of_noAt (esc : Char → Str) (f : Item → Item)
    (hf : ∀ i, (∀ n, i ≠ .ref n) → f i = i) (is : List Item) (s : Str) (hs : '@' ∉ s)
    (h : s <+: render esc is) : s <+: render esc (is.map f) := by
  induction is generalizing s with
  | nil => simpa [render_nil] using h
  | cons i is ih =>
    rw [render_cons] at h
    rw [List.map_cons, render_cons]
    have key : ∀ x : Str, s <+: x ++ render esc is → s <+: x ++ render esc (is.map f) := by
      intro x hx
      rcases List.prefix_or_prefix_of_prefix hx (List.prefix_append x (render esc is)) with h1 | h1
      · exact h1.trans (List.prefix_append _ _)
      · obtain ⟨s', rfl⟩ := h1
        have hs' : '@' ∉ s' := fun e => hs (by simp [e])
        have := ih s' hs' ((List.prefix_append_right_inj x).mp hx)
        exact (List.prefix_append_right_inj x).mpr this
    have atHead : ∀ r r' : Str, s <+: '@' :: r → s <+: r' := by
      intro r r' hx
      cases s with
      | nil => exact List.nil_prefix
      | cons c cs =>
        have : c = '@' := by
          obtain ⟨t, ht⟩ := hx
          simp at ht; exact ht.1
        exact absurd (by simp [this]) hs
    cases i with
    | lit c => rw [hf (.lit c) (by simp)]; exact key _ h
    | txt x => rw [hf (.txt x) (by simp)]; exact key _ h
    | stray =>
      rw [hf .stray (by simp)]
      exact atHead _ _ (by simpa [Item.render] using h)
    | ref n => exact atHead _ _ (by simpa [Item.render] using h)

theorem fill_fixes (vs : List (Str × Str)) (i : Item) (h : ∀ n, i ≠ .ref n) : fill vs i = i := by
  cases i with
  | ref n => exact absurd rfl (h n)
  | _ => simp [fill]

/-- From the static no-join condition and the sort: when the head of the list is processed, `@head` occurs only
at the references to it. -/
theorem sep_of_noJoin (esc : Char → Str) (m w : Str) (rest : List (Str × Str)) (is : List Item)
    (hsorted : Sorted ((m, w) :: rest)) (hm : '@' ∉ m)
    (hrefs : ∀ n, Item.ref n ∈ is → n ∈ names ((m, w) :: rest))
    (hnj : NoJoinP esc ((m, w) :: rest) is) : Sep esc m is := by
  have hmem : m ∈ names ((m, w) :: rest) := by simp [names]
  have hlen : ∀ n ∈ names ((m, w) :: rest), blen n ≤ blen m := by
    intro n hn
    simp only [names, List.map_cons, List.mem_cons, List.mem_map] at hn
    rcases hn with rfl | ⟨p, hp, rfl⟩
    · exact Nat.le_refl _
    · exact (List.pairwise_cons.mp hsorted).1 p hp
  induction is with
  | nil => simp [Sep]
  | cons i is ih =>
    have ih' := ih (fun n hn => hrefs n (List.mem_cons_of_mem _ hn))
    cases i with
    | lit c => simp only [NoJoinP] at hnj; simp only [Sep]; exact ih' hnj
    | txt s => simp only [NoJoinP] at hnj; simp only [Sep]; exact ih' hnj
    | stray =>
      simp only [NoJoinP] at hnj
      simp only [Sep]
      refine ⟨?_, ih' hnj.2⟩
      intro hp
      exact hnj.1 m hmem (prefix_map_of_noAt esc _ (fill_fixes _) is m hm hp)
    | ref n =>
      simp only [NoJoinP] at hnj
      simp only [Sep]
      refine ⟨?_, ih' hnj.2⟩
      intro hne hp
      rcases List.prefix_or_prefix_of_prefix hp (List.prefix_append n (render esc is)) with h1 | h1
      · -- `m` a proper prefix of `n`: excluded by the sort (longer names first)
        have := blen_lt_of_prefix_ne h1 (Ne.symm hne)
        have := hlen n (hrefs n (by simp))
        omega
      · -- `n` a proper prefix of `m`: excluded by the no-join condition
        obtain ⟨s', rfl⟩ := h1
        have hs' : '@' ∉ s' := fun e => hm (by simp [e])
        have h2 : s' <+: render esc is := (List.prefix_append_right_inj n).mp hp
        have h3 := prefix_map_of_noAt esc _ (fill_fixes ((n ++ s', w) :: rest)) is s' hs' h2
        exact hnj.1 (n ++ s') hmem (List.prefix_append _ _) hne
          ((List.prefix_append_right_inj n).mpr h3)

theorem noJoin_step (esc : Char → Str) (m w : Str) (rest : List (Str × Str)) (is : List Item)
    (hnj : NoJoinP esc ((m, w) :: rest) is) : NoJoinP esc rest (is.map (fill1 m w)) := by
  have hsub : ∀ x ∈ names rest, x ∈ names ((m, w) :: rest) := by
    intro x hx; simp only [names, List.map_cons, List.mem_cons]; right; exact hx
  induction is with
  | nil => simp [NoJoinP]
  | cons i is ih =>
    cases i with
    | lit c => simp only [NoJoinP, List.map_cons, fill1] at hnj ⊢; exact ih hnj
    | txt s => simp only [NoJoinP, List.map_cons, fill1] at hnj ⊢; exact ih hnj
    | stray =>
      simp only [NoJoinP, List.map_cons, fill1] at hnj ⊢
      refine ⟨?_, ih hnj.2⟩
      intro x hx
      rw [← map_fill_cons]
      exact hnj.1 x (hsub x hx)
    | ref n =>
      simp only [NoJoinP, List.map_cons, fill1] at hnj ⊢
      by_cases h : n = m
      · simp only [if_pos h, NoJoinP]; exact ih hnj.2
      · simp only [if_neg h, NoJoinP]
        refine ⟨?_, ih hnj.2⟩
        intro x hx
        rw [← map_fill_cons]
        exact hnj.1 x (hsub x hx)

theorem replaceSeq_cons (t m w : Str) (rest : List (Str × Str)) :
    replaceSeq t ((m, w) :: rest) = replaceSeq (replaceAll1 '@' m w t) rest := rfl

theorem replaceSeq_nil (t : Str) : replaceSeq t [] = t := rfl

/-- **Sequential = simultaneous in the item view.**  Replacing `@name` by its value, name after name in a
list sorted by descending byte length, turns the rendering of an item list into the rendering of the list with
every reference filled — provided no name and no value contains `@` and the no-join condition holds. -/
theorem foldl_replace_render (esc : Char → Str) (vs : List (Str × Str)) (is : List Item)
    (hsorted : Sorted vs) (hnames : ∀ p ∈ vs, '@' ∉ p.1) (hvals : ∀ p ∈ vs, '@' ∉ p.2)
    (hclean : Clean esc is) (hrefs : ∀ n, Item.ref n ∈ is → n ∈ names vs)
    (hnj : NoJoinP esc vs is) :
    replaceSeq (render esc is) vs = render esc (is.map (fill vs)) := by
  induction vs generalizing is with
  | nil =>
    rw [replaceSeq_nil, show (fill []) = id from funext fill_nil]; simp
  | cons p rest ih =>
    obtain ⟨m, w⟩ := p
    have hm : '@' ∉ m := hnames (m, w) (by simp)
    have hw : '@' ∉ w := hvals (m, w) (by simp)
    have hsep := sep_of_noJoin esc m w rest is hsorted hm hrefs hnj
    rw [replaceSeq_cons, replace_render esc m w is hclean hsep]
    have hclean' : Clean esc (is.map (fill1 m w)) := by
      refine ⟨?_, ?_, ?_⟩
      · intro c hc
        obtain ⟨i, hi, he⟩ := List.mem_map.mp hc
        cases i with
        | lit c' => simp [fill1] at he; subst he; exact hclean.lit _ hi
        | txt s => simp [fill1] at he
        | stray => simp [fill1] at he
        | ref n => simp only [fill1] at he; split at he <;> simp at he
      · intro s hs
        obtain ⟨i, hi, he⟩ := List.mem_map.mp hs
        cases i with
        | lit c' => simp [fill1] at he
        | txt s' => simp [fill1] at he; subst he; exact hclean.txt _ hi
        | stray => simp [fill1] at he
        | ref n =>
          simp only [fill1] at he
          split at he
          · simp at he; subst he; exact hw
          · simp at he
      · intro n hn
        obtain ⟨i, hi, he⟩ := List.mem_map.mp hn
        cases i with
        | lit c' => simp [fill1] at he
        | txt s' => simp [fill1] at he
        | stray => simp [fill1] at he
        | ref n' =>
          simp only [fill1] at he
          split at he
          · simp at he
          · simp at he; subst he; exact hclean.ref _ hi
    have hrefs' : ∀ n, Item.ref n ∈ is.map (fill1 m w) → n ∈ names rest := by
      intro n hn
      obtain ⟨i, hi, he⟩ := List.mem_map.mp hn
      cases i with
      | lit c' => simp [fill1] at he
      | txt s' => simp [fill1] at he
      | stray => simp [fill1] at he
      | ref n' =>
        simp only [fill1] at he
        split at he
        · simp at he
        · rename_i hne
          simp at he; subst he
          have := hrefs _ hi
          simp only [names, List.map_cons, List.mem_cons] at this
          rcases this with h | h
          · exact absurd h hne
          · exact h
    have := ih (is.map (fill1 m w)) (List.pairwise_cons.mp hsorted).2
      (fun p hp => hnames p (List.mem_cons_of_mem _ hp)) (fun p hp => hvals p (List.mem_cons_of_mem _ hp))
      hclean' hrefs' (noJoin_step esc m w rest is hnj)
    rw [this, map_fill_cons]

/-! ### The sorts -/

/-- What the substitution needs of the comparator: it is a longest-first order (`before a b` only if `a` is at
least as long, `¬ before a b` only if `b` is at least as long) and strict (never relates a name to itself, so a
stable sort keeps the first entry of every name first). -/
structure LawfulBefore (before : Str → Str → Bool) : Prop where
  len_of_before : ∀ a b, before a b = true → blen b ≤ blen a
  len_of_not : ∀ a b, before a b = false → blen a ≤ blen b
  irrefl : ∀ a, before a a = false

theorem lawful_lenBefore : LawfulBefore lenBefore := by
  refine ⟨?_, ?_, ?_⟩
  · intro a b h; simp [lenBefore] at h; omega
  · intro a b h; simp [lenBefore] at h; omega
  · intro a; simp [lenBefore]

theorem strLt_irrefl (a : Str) : strLt a a = false := by
  induction a with
  | nil => rfl
  | cons c cs ih => simp [strLt, ih]

theorem lawful_varBefore : LawfulBefore varBefore := by
  refine ⟨?_, ?_, ?_⟩
  · intro a b h
    simp only [varBefore, Bool.or_eq_true, Bool.and_eq_true, decide_eq_true_eq] at h
    rcases h with h | h <;> omega
  · intro a b h
    simp only [varBefore, Bool.or_eq_false_iff, Bool.and_eq_false_iff, decide_eq_false_iff_not] at h
    omega
  · intro a; simp [varBefore, strLt_irrefl]

section generic
variable {before : Str → Str → Bool}

theorem mem_insertBy {β : Type} (x y : Str × β) (l : List (Str × β)) :
    y ∈ insertBy before x l ↔ y = x ∨ y ∈ l := by
  induction l with
  | nil => simp [insertBy]
  | cons z zs ih =>
    simp only [insertBy]
    split
    · simp only [List.mem_cons, ih]
      constructor
      · rintro (h | h | h)
        · right; left; exact h
        · left; exact h
        · right; right; exact h
      · rintro (h | h | h)
        · right; left; exact h
        · left; exact h
        · right; right; exact h
    · simp

theorem mem_sortBy {β : Type} (y : Str × β) (l : List (Str × β)) : y ∈ sortBy before l ↔ y ∈ l := by
  induction l with
  | nil => simp [sortBy]
  | cons x xs ih => simp [sortBy, mem_insertBy, ih]

theorem sorted_insertBy (hb : LawfulBefore before) {β : Type} (x : Str × β) (l : List (Str × β)) (h : Sorted l) :
    Sorted (insertBy before x l) := by
  induction l with
  | nil => simp [insertBy, Sorted]
  | cons z zs ih =>
    simp only [insertBy]
    have hz := List.pairwise_cons.mp h
    split
    · rename_i hbz
      refine List.pairwise_cons.mpr ⟨?_, ih hz.2⟩
      intro y hy
      rcases (mem_insertBy x y zs).mp hy with rfl | hy'
      · exact hb.len_of_before _ _ hbz
      · exact hz.1 y hy'
    · rename_i hnb
      have hle : blen z.1 ≤ blen x.1 := hb.len_of_not _ _ (by simpa using hnb)
      refine List.pairwise_cons.mpr ⟨?_, h⟩
      intro y hy
      rcases List.mem_cons.mp hy with rfl | hy'
      · exact hle
      · exact Nat.le_trans (hz.1 y hy') hle

theorem sorted_sortBy (hb : LawfulBefore before) {β : Type} (l : List (Str × β)) : Sorted (sortBy before l) := by
  induction l with
  | nil => simp [sortBy, Sorted]
  | cons x xs ih => exact sorted_insertBy hb x _ ih

/-- Stability: the element that is moved only passes names different from its own, so the first entry of every
name stays the first. -/
theorem lookup_insertBy (hb : LawfulBefore before) {β : Type} (x : Str × β) (l : List (Str × β)) (n : Str) :
    (insertBy before x l).lookup n = (x :: l).lookup n := by
  induction l with
  | nil => simp [insertBy]
  | cons z zs ih =>
    simp only [insertBy]
    split
    · rename_i hbz
      have hne : z.1 ≠ x.1 := by
        intro e; rw [e, hb.irrefl] at hbz; simp at hbz
      obtain ⟨zk, zv⟩ := z
      obtain ⟨xk, xv⟩ := x
      simp only [List.lookup_cons] at ih ⊢
      rw [ih]
      by_cases h1 : n = zk
      · subst h1
        have : (n == xk) = false := by simpa using hne
        simp [this]
      · have : (n == zk) = false := by simpa using h1
        simp [this]
    · rfl

theorem lookup_sortBy (hb : LawfulBefore before) {β : Type} (l : List (Str × β)) (n : Str) :
    (sortBy before l).lookup n = l.lookup n := by
  induction l with
  | nil => simp [sortBy]
  | cons x xs ih =>
    obtain ⟨xk, xv⟩ := x
    simp only [sortBy]
    rw [lookup_insertBy hb]
    simp only [List.lookup_cons, ih]

theorem mem_names_sortBy {β : Type} (l : List (Str × β)) (n : Str) :
    n ∈ names (sortBy before l) ↔ n ∈ names l := by
  simp only [names, List.mem_map]
  constructor
  · rintro ⟨p, hp, rfl⟩; exact ⟨p, (mem_sortBy p l).mp hp, rfl⟩
  · rintro ⟨p, hp, rfl⟩; exact ⟨p, (mem_sortBy p l).mpr hp, rfl⟩

theorem fill_sortBy (hb : LawfulBefore before) (vs : List (Str × Str)) : fill (sortBy before vs) = fill vs := by
  funext i
  cases i with
  | ref n => simp [fill, lookup_sortBy hb]
  | _ => simp [fill]

theorem noJoinP_sortBy (hb : LawfulBefore before) (esc : Char → Str) (vs : List (Str × Str)) (is : List Item)
    (h : NoJoinP esc vs is) : NoJoinP esc (sortBy before vs) is := by
  induction is with
  | nil => simp [NoJoinP]
  | cons i is ih =>
    cases i with
    | lit c => simp only [NoJoinP] at h ⊢; exact ih h
    | txt s => simp only [NoJoinP] at h ⊢; exact ih h
    | stray =>
      simp only [NoJoinP] at h ⊢
      refine ⟨?_, ih h.2⟩
      intro m hm
      rw [fill_sortBy hb]
      exact h.1 m ((mem_names_sortBy vs m).mp hm)
    | ref n =>
      simp only [NoJoinP] at h ⊢
      refine ⟨?_, ih h.2⟩
      intro m hm
      rw [fill_sortBy hb]
      exact h.1 m ((mem_names_sortBy vs m).mp hm)

end generic

/-! the sort of `MarkerString::new` -/

theorem mem_sortByLen {β : Type} (y : Str × β) (l : List (Str × β)) : y ∈ sortByLen l ↔ y ∈ l := mem_sortBy y l
theorem sorted_sortByLen {β : Type} (l : List (Str × β)) : Sorted (sortByLen l) := sorted_sortBy lawful_lenBefore l
theorem lookup_sortByLen {β : Type} (l : List (Str × β)) (n : Str) : (sortByLen l).lookup n = l.lookup n :=
  lookup_sortBy lawful_lenBefore l n
theorem mem_names_sortByLen {β : Type} (l : List (Str × β)) (n : Str) : n ∈ names (sortByLen l) ↔ n ∈ names l :=
  mem_names_sortBy l n
theorem fill_sortByLen (vs : List (Str × Str)) : fill (sortByLen vs) = fill vs := fill_sortBy lawful_lenBefore vs

/-! ### What the parser produces -/

theorem parse_refs (ns : List Str) (t : Str) : ∀ n, Item.ref n ∈ parse ns t → n ∈ ns := by
  induction t using parse_induction ns with
  | hnil => simp [parse_nil]
  | hlit c cs hc ih => rw [parse_lit _ _ _ hc]; simpa using ih
  | href cs n hl ih =>
    rw [parse_ref _ _ _ hl]
    intro n' hn'
    rcases List.mem_cons.mp hn' with h | h
    · simp at h; subst h; exact (longest_some hl).1
    · exact ih n' h
  | hstray cs hl ih => rw [parse_stray _ _ hl]; simpa using ih

theorem parse_no_txt (ns : List Str) (t : Str) : ∀ s, Item.txt s ∉ parse ns t := by
  induction t using parse_induction ns with
  | hnil => simp [parse_nil]
  | hlit c cs hc ih => rw [parse_lit _ _ _ hc]; simpa using ih
  | href cs n hl ih => rw [parse_ref _ _ _ hl]; simpa using ih
  | hstray cs hl ih => rw [parse_stray _ _ hl]; simpa using ih

theorem parse_lit_ne_at (ns : List Str) (t : Str) : ∀ c, Item.lit c ∈ parse ns t → c ≠ '@' := by
  induction t using parse_induction ns with
  | hnil => simp [parse_nil]
  | hlit c cs hc ih =>
    rw [parse_lit _ _ _ hc]
    intro c' hc'
    rcases List.mem_cons.mp hc' with h | h
    · simp at h; subst h; exact hc
    · exact ih c' h
  | href cs n hl ih => rw [parse_ref _ _ _ hl]; simpa using ih
  | hstray cs hl ih => rw [parse_stray _ _ hl]; simpa using ih

theorem noAt_iff (s : Str) : noAt s = true ↔ '@' ∉ s := by
  simp [noAt]

/-! ### `subst` depends on the variable list only through membership of names and `lookup` -/

theorem prefix_eq_of_blen_eq {a b s : Str} (ha : a <+: s) (hb : b <+: s) (h : blen a = blen b) : a = b := by
  rcases List.prefix_or_prefix_of_prefix ha hb with h1 | h1
  · by_cases hne : a = b
    · exact hne
    · have := blen_lt_of_prefix_ne h1 hne; omega
  · by_cases hne : a = b
    · exact hne
    · have := blen_lt_of_prefix_ne h1 (Ne.symm hne); omega

theorem longest_eq_none_iff {ns : List Str} {s : Str} : longest ns s = none ↔ ∀ m ∈ ns, ¬ m <+: s := by
  constructor
  · exact longest_none
  · intro h
    cases hl : longest ns s with
    | none => rfl
    | some n => exact absurd (longest_some hl).2 (h n (longest_some hl).1)

theorem longest_eq_some_iff {ns : List Str} {s n : Str} :
    longest ns s = some n ↔ n ∈ ns ∧ n <+: s ∧ ∀ m ∈ ns, m <+: s → blen m ≤ blen n := by
  constructor
  · intro h; exact ⟨(longest_some h).1, (longest_some h).2, longest_max h⟩
  · rintro ⟨hn, hp, hmax⟩
    cases hl : longest ns s with
    | none => exact absurd hp (longest_none hl n hn)
    | some n' =>
      have h1 := longest_max hl n hn hp
      have h2 := hmax n' (longest_some hl).1 (longest_some hl).2
      rw [prefix_eq_of_blen_eq (longest_some hl).2 hp (by omega)]

theorem longest_congr {ns ns' : List Str} (h : ∀ m, m ∈ ns ↔ m ∈ ns') (s : Str) : longest ns s = longest ns' s := by
  cases hl : longest ns s with
  | none =>
    symm; rw [longest_eq_none_iff]
    intro m hm; exact longest_none hl m ((h m).mpr hm)
  | some n =>
    symm; rw [longest_eq_some_iff]
    obtain ⟨h1, h2, h3⟩ := longest_eq_some_iff.mp hl
    exact ⟨(h n).mp h1, h2, fun m hm => h3 m ((h m).mpr hm)⟩

theorem parseAux_congr {ns ns' : List Str} (h : ∀ m, m ∈ ns ↔ m ∈ ns') (k : Nat) (t : Str) :
    parseAux ns k t = parseAux ns' k t := by
  induction t generalizing k with
  | nil => cases k <;> simp [parseAux]
  | cons c cs ih =>
    cases k with
    | succ k => simp only [parseAux]; exact ih k
    | zero =>
      simp only [parseAux, longest_congr h cs]
      split
      · split <;> simp [ih]
      · simp [ih]

theorem parse_congr {ns ns' : List Str} (h : ∀ m, m ∈ ns ↔ m ∈ ns') (t : Str) : parse ns t = parse ns' t :=
  parseAux_congr h 0 t

/-- Order and repetitions of the variable list do not matter for the simultaneous substitution. -/
theorem subst_congr {vs vs' : List (Str × Str)} (hn : ∀ m, m ∈ names vs ↔ m ∈ names vs')
    (hl : ∀ n, vs.lookup n = vs'.lookup n) (t : Str) : subst vs t = subst vs' t := by
  unfold subst
  rw [parse_congr hn t]
  congr 1
  apply List.map_congr_left
  intro i _
  cases i with
  | ref n => simp [fill, hl n]
  | _ => simp [fill]

theorem noJoinP_congr (esc : Char → Str) {vs vs' : List (Str × Str)} (hn : ∀ m, m ∈ names vs ↔ m ∈ names vs')
    (hl : ∀ n, vs.lookup n = vs'.lookup n) (is : List Item) (h : NoJoinP esc vs is) : NoJoinP esc vs' is := by
  have hf : fill vs = fill vs' := by
    funext i
    cases i with
    | ref n => simp [fill, hl n]
    | _ => simp [fill]
  induction is with
  | nil => simp [NoJoinP]
  | cons i is ih =>
    cases i with
    | lit c => simp only [NoJoinP] at h ⊢; exact ih h
    | txt s => simp only [NoJoinP] at h ⊢; exact ih h
    | stray =>
      simp only [NoJoinP] at h ⊢
      exact ⟨fun m hm => by rw [← hf]; exact h.1 m ((hn m).mpr hm), ih h.2⟩
    | ref n =>
      simp only [NoJoinP] at h ⊢
      exact ⟨fun m hm => by rw [← hf]; exact h.1 m ((hn m).mpr hm), ih h.2⟩

theorem mem_names_iff_lookup {β : Type} (l : List (Str × β)) (n : Str) :
    n ∈ names l ↔ (l.lookup n).isSome = true := by
  induction l with
  | nil => simp [names]
  | cons p ps ih =>
    obtain ⟨k, v⟩ := p
    simp only [names, List.map_cons, List.mem_cons, List.lookup_cons] at ih ⊢
    cases h : n == k with
    | true => have : n = k := by simpa using h
              simp [this]
    | false =>
      have hne : n ≠ k := by simpa using h
      simp [hne, ih]

/-! ### The order of `Rule::variables` is total on names: the sorted list does not depend on the input order -/

theorem strLt_asymm (a b : Str) (h : strLt a b = true) : strLt b a = false := by
  induction a generalizing b with
  | nil => cases b <;> simp_all [strLt]
  | cons x xs ih =>
    cases b with
    | nil => simp [strLt] at h
    | cons y ys =>
      simp only [strLt, Bool.or_eq_true, Bool.and_eq_true, decide_eq_true_eq] at h
      simp only [strLt, Bool.or_eq_false_iff, Bool.and_eq_false_iff, decide_eq_false_iff_not]
      rcases h with h | ⟨rfl, h⟩
      · refine ⟨by omega, ?_⟩
        left; intro e; subst e; omega
      · exact ⟨by omega, Or.inr (ih ys h)⟩

theorem strLt_total (a b : Str) (h1 : strLt a b = false) (h2 : strLt b a = false) : a = b := by
  induction a generalizing b with
  | nil => cases b <;> simp_all [strLt]
  | cons x xs ih =>
    cases b with
    | nil => simp [strLt] at h2
    | cons y ys =>
      simp only [strLt, Bool.or_eq_false_iff, Bool.and_eq_false_iff, decide_eq_false_iff_not] at h1 h2
      have hxy : x = y := by
        apply Char.ext
        apply UInt32.toNat_inj.mp
        have : x.toNat = y.toNat := by omega
        exact this
      subst hxy
      rcases h1.2 with h | h
      · exact absurd rfl h
      · rcases h2.2 with h' | h'
        · exact absurd rfl h'
        · rw [ih ys h h']

theorem strLt_trans (a b c : Str) (h1 : strLt a b = true) (h2 : strLt b c = true) : strLt a c = true := by
  induction a generalizing b c with
  | nil =>
    cases c with
    | nil => cases b <;> simp [strLt] at h1 h2
    | cons z zs => simp [strLt]
  | cons x xs ih =>
    cases b with
    | nil => simp [strLt] at h1
    | cons y ys =>
      cases c with
      | nil => simp [strLt] at h2
      | cons z zs =>
        simp only [strLt, Bool.or_eq_true, Bool.and_eq_true, decide_eq_true_eq] at h1 h2 ⊢
        rcases h1 with h1 | ⟨rfl, h1⟩
        · rcases h2 with h2 | ⟨rfl, h2⟩
          · left; omega
          · left; exact h1
        · rcases h2 with h2 | ⟨rfl, h2⟩
          · left; exact h2
          · right; exact ⟨rfl, ih ys zs h1 h2⟩

theorem varBefore_asymm (a b : Str) (h : varBefore a b = true) : varBefore b a = false := by
  simp only [varBefore, Bool.or_eq_true, Bool.and_eq_true, decide_eq_true_eq] at h
  simp only [varBefore, Bool.or_eq_false_iff, Bool.and_eq_false_iff, decide_eq_false_iff_not]
  rcases h with h | ⟨h, hs⟩
  · exact ⟨by omega, Or.inl (by omega)⟩
  · exact ⟨by omega, Or.inr (strLt_asymm a b hs)⟩

theorem varBefore_total (a b : Str) (h1 : varBefore a b = false) (h2 : varBefore b a = false) : a = b := by
  simp only [varBefore, Bool.or_eq_false_iff, Bool.and_eq_false_iff, decide_eq_false_iff_not] at h1 h2
  have hlen : blen a = blen b := by omega
  rcases h1.2 with h | h
  · exact absurd hlen h
  · rcases h2.2 with h' | h'
    · exact absurd hlen.symm h'
    · exact strLt_total a b h h'

theorem varBefore_trans (a b c : Str) (h1 : varBefore a b = true) (h2 : varBefore b c = true) :
    varBefore a c = true := by
  simp only [varBefore, Bool.or_eq_true, Bool.and_eq_true, decide_eq_true_eq] at h1 h2 ⊢
  rcases h1 with h1 | ⟨h1, s1⟩
  · rcases h2 with h2 | ⟨h2, _⟩
    · left; omega
    · left; omega
  · rcases h2 with h2 | ⟨h2, s2⟩
    · left; omega
    · right; exact ⟨by omega, strLt_trans a b c s1 s2⟩

/-- `p` does not come after `q`. -/
def VarLe {β : Type} (p q : Str × β) : Prop := varBefore q.1 p.1 = false

theorem varLe_trans {β : Type} (p q r : Str × β) (h1 : VarLe p q) (h2 : VarLe q r) : VarLe p r := by
  unfold VarLe at *
  cases h : varBefore r.1 p.1 with
  | false => rfl
  | true =>
    -- r before p; compare q with p
    cases hqp : varBefore q.1 p.1 with
    | true => rw [hqp] at h1; simp at h1
    | false =>
      cases hpq : varBefore p.1 q.1 with
      | true =>
        have := varBefore_trans _ _ _ h hpq
        rw [this] at h2; simp at h2
      | false =>
        have : p.1 = q.1 := varBefore_total _ _ hpq hqp
        rw [this] at h; rw [h] at h2; simp at h2

theorem perm_insertBy {β : Type} (before : Str → Str → Bool) (x : Str × β) (l : List (Str × β)) :
    (insertBy before x l).Perm (x :: l) := by
  induction l with
  | nil => simp [insertBy]
  | cons y ys ih =>
    simp only [insertBy]
    split
    · exact (List.Perm.cons y ih).trans (List.Perm.swap x y ys)
    · exact List.Perm.refl _

theorem perm_sortBy {β : Type} (before : Str → Str → Bool) (l : List (Str × β)) : (sortBy before l).Perm l := by
  induction l with
  | nil => simp [sortBy]
  | cons x xs ih => exact (perm_insertBy before x _).trans (List.Perm.cons x ih)

theorem pairwise_insertVars {β : Type} (x : Str × β) (l : List (Str × β)) (h : l.Pairwise VarLe) :
    (insertBy varBefore x l).Pairwise VarLe := by
  induction l with
  | nil => simp [insertBy]
  | cons y ys ih =>
    have hy := List.pairwise_cons.mp h
    simp only [insertBy]
    split
    · rename_i hb
      refine List.pairwise_cons.mpr ⟨?_, ih hy.2⟩
      intro z hz
      rcases (mem_insertBy x z ys).mp hz with rfl | hz'
      · exact varBefore_asymm _ _ hb
      · exact hy.1 z hz'
    · rename_i hnb
      have hxy : VarLe x y := by simpa [VarLe] using hnb
      refine List.pairwise_cons.mpr ⟨?_, h⟩
      intro z hz
      rcases List.mem_cons.mp hz with rfl | hz'
      · exact hxy
      · exact varLe_trans x y z hxy (hy.1 z hz')

theorem pairwise_sortVars {β : Type} (l : List (Str × β)) : (sortVars l).Pairwise VarLe := by
  unfold sortVars
  induction l with
  | nil => simp [sortBy]
  | cons x xs ih => exact pairwise_insertVars x _ ih

theorem eq_of_name_eq {β : Type} (l : List (Str × β)) (hnd : (names l).Nodup) (p q : Str × β)
    (hp : p ∈ l) (hq : q ∈ l) (h : p.1 = q.1) : p = q := by
  induction l with
  | nil => simp at hp
  | cons x xs ih =>
    simp only [names, List.map_cons, List.nodup_cons] at hnd
    rcases List.mem_cons.mp hp with rfl | hp'
    · rcases List.mem_cons.mp hq with rfl | hq'
      · rfl
      · exact absurd (List.mem_map.mpr ⟨q, hq', h.symm⟩) hnd.1
    · rcases List.mem_cons.mp hq with rfl | hq'
      · exact absurd (List.mem_map.mpr ⟨p, hp', h⟩) hnd.1
      · exact ih hnd.2 hp' hq'

/-- With distinct names (the captured markers come out of a map) the sorted variable list is the same for every
input order. -/
theorem sortVars_perm {β : Type} (l l' : List (Str × β)) (hperm : l.Perm l') (hnd : (names l).Nodup) :
    sortVars l = sortVars l' := by
  apply List.Perm.eq_of_pairwise (le := VarLe) ?_ (pairwise_sortVars l) (pairwise_sortVars l')
  · exact ((perm_sortBy varBefore l).trans hperm).trans (perm_sortBy varBefore l').symm
  · intro p q hp hq h1 h2
    have hp' : p ∈ l := (mem_sortBy p l).mp hp
    have hq' : q ∈ l := hperm.mem_iff.mpr ((mem_sortBy q l').mp hq)
    exact eq_of_name_eq l hnd p q hp' hq' (varBefore_total _ _ h2 h1)

/-! ### The one-pass `StaticOrDynamic::replace` (repair 9f65cbb) is the simultaneous substitution -/

/-- On a list sorted longest first, the first entry whose name fits is the LONGEST name that fits, with the value of
the first entry of that name. -/
theorem firstMatch_sorted (l : List (Str × Str)) (hs : Sorted l) (s : Str) :
    firstMatch l s = (longest (names l) s).bind fun n => (l.lookup n).map fun v => (n, v) := by
  induction l with
  | nil => simp [firstMatch, names, longest]
  | cons p rest ih =>
    obtain ⟨k, v⟩ := p
    have hp := List.pairwise_cons.mp hs
    have ih' := ih hp.2
    simp only [firstMatch, names, List.map_cons, longest]
    simp only [names] at ih'
    cases hpre : pre k s with
    | true =>
      simp only [if_true]
      cases hl : longest (rest.map (·.1)) s with
      | none => simp [hpre]
      | some b =>
        have hb := longest_some hl
        obtain ⟨q, hq, hqb⟩ := List.mem_map.mp hb.1
        have hle : blen b ≤ blen k := by rw [← hqb]; exact hp.1 q hq
        by_cases hlt : blen b < blen k
        · simp [hpre, hlt]
        · have heq : b = k := prefix_eq_of_blen_eq hb.2 (pre_iff.mp hpre) (by omega)
          simp [hpre, hlt, heq]
    | false =>
      simp only [Bool.false_eq_true, if_false, ih']
      cases hl : longest (rest.map (·.1)) s with
      | none => simp [hpre]
      | some b =>
        have hb := longest_some hl
        have hne : b ≠ k := by
          intro e; rw [e] at hb
          exact (pre_false_iff.mp hpre) hb.2
        have : (b == k) = false := by simpa using hne
        simp [hpre, List.lookup_cons, this]

theorem firstMatch_sortBy (before : Str → Str → Bool) (hb : LawfulBefore before) (vs : List (Str × Str)) (s : Str) :
    firstMatch (sortBy before vs) s = (longest (names vs) s).bind fun n => (vs.lookup n).map fun v => (n, v) := by
  rw [firstMatch_sorted _ (sorted_sortBy hb vs), longest_congr (fun m => mem_names_sortBy vs m) s]
  cases longest (names vs) s with
  | none => rfl
  | some n => simp [lookup_sortBy hb]

theorem lookup_some_of_mem_names {β : Type} (l : List (Str × β)) (n : Str) (h : n ∈ names l) :
    ∃ v, l.lookup n = some v := by
  have := (mem_names_iff_lookup l n).mp h
  cases hl : l.lookup n with
  | none => rw [hl] at this; simp at this
  | some v => exact ⟨v, rfl⟩

/-- The scan over the sorted list renders the parsed template with every reference filled. -/
theorem scanAux_eq (before : Str → Str → Bool) (hb : LawfulBefore before) (vs : List (Str × Str)) (k : Nat) (t : Str) :
    scanAux (sortBy before vs) k t = render idEsc ((parseAux (names vs) k t).map (fill vs)) := by
  induction t generalizing k with
  | nil => cases k <;> simp [scanAux, parseAux, render]
  | cons c cs ih =>
    cases k with
    | succ k => simp only [scanAux, parseAux]; exact ih k
    | zero =>
      simp only [scanAux, parseAux]
      by_cases hc : c = '@'
      · subst hc
        simp only [if_true, firstMatch_sortBy before hb]
        cases hl : longest (names vs) cs with
        | none =>
          simp only [Option.bind_none, List.map_cons, fill, render_cons, Item.render, ih 0]
          rfl
        | some n =>
          obtain ⟨v, hv⟩ := lookup_some_of_mem_names vs n (longest_some hl).1
          simp only [Option.bind_some, hv, Option.map_some, List.map_cons, fill, render_cons, Item.render, ih n.length]
      · simp only [if_neg hc, List.map_cons, fill, render_cons, Item.render, idEsc, ih 0]
        rfl

end Rio.Marker
