/-
W22 (C10): helper lemmas for `translated Route::capture = hand-written Rule.capture`.

`Rio.Consts.genRouteCapture` is generic in the map type κ and in `HashMap::extend`.  Representation used by the hand model
(Model/MarkerRule.lean): a `HashMap<String, String>` is an association list with distinct keys; the map a `capture` callee
returns from the raw group list `l` of the regex engine is `extendMap [] l` (inserts into an empty map) and
`HashMap::extend` is `extendMap`.  The model writes `extendMap p (raw list)` where the code extends by a MAP:
`extendMap_normalise` shows both are the same list.
-/
import RioModel.Model.MarkerRule
import RioModel.Generated.Consts
import RioModel.Generated.Consts

namespace Rio.MarkerGen
open Rio.Marker Rio.Consts

theorem extendMap_cons (p : List (Str × Str)) (x : Str × Str) (l : List (Str × Str)) :
    extendMap p (x :: l) = extendMap ((p.filter fun e => e.1 != x.1) ++ [x]) l := by
  simp [extendMap]

theorem extendMap_append (p l₁ l₂ : List (Str × Str)) : extendMap p (l₁ ++ l₂) = extendMap (extendMap p l₁) l₂ := by
  simp [extendMap]

/-- Removing one key commutes with `extend`. -/
theorem filter_extendMap (k : Str) (l p : List (Str × Str)) :
    (extendMap p l).filter (fun e => e.1 != k) =
      extendMap (p.filter fun e => e.1 != k) (l.filter fun e => e.1 != k) := by
  induction l generalizing p with
  | nil => simp [extendMap]
  | cons x l ih =>
    rw [extendMap_cons, ih]
    by_cases hx : x.1 = k
    · have hf : (List.filter (fun e : Str × Str => e.1 != k) (x :: l)) = List.filter (fun e => e.1 != k) l := by
        simp [hx]
      rw [hf]
      congr 1
      subst hx
      simp [List.filter_append, List.filter_filter]
    · have hf : (List.filter (fun e : Str × Str => e.1 != k) (x :: l)) = x :: List.filter (fun e => e.1 != k) l := by
        simp [hx]
      rw [hf, extendMap_cons]
      congr 1
      simp [List.filter_append, List.filter_filter, hx, Bool.and_comm]

/-- Extending by the MAP built from a raw list = extending by the raw list. -/
theorem extendMap_normalise_rev (r p : List (Str × Str)) :
    extendMap p (extendMap [] r.reverse) = extendMap p r.reverse := by
  induction r with
  | nil => simp [extendMap]
  | cons a r ih =>
    have h1 : ∀ q : List (Str × Str), extendMap q (r.reverse ++ [a]) =
        (extendMap q r.reverse).filter (fun e => e.1 != a.1) ++ [a] := by
      intro q; rw [extendMap_append]; simp [extendMap]
    rw [List.reverse_cons, h1 [], h1 p, extendMap_append]
    have h2 : extendMap (extendMap p ((extendMap [] r.reverse).filter fun e => e.1 != a.1)) [a] =
        (extendMap p ((extendMap [] r.reverse).filter fun e => e.1 != a.1)).filter (fun e => e.1 != a.1) ++ [a] := by
      simp [extendMap]
    rw [h2, filter_extendMap a.1 _ p, List.filter_filter]
    simp only [Bool.and_self]
    rw [← filter_extendMap a.1 _ p, ih]

theorem extendMap_normalise (l p : List (Str × Str)) : extendMap p (extendMap [] l) = extendMap p l := by
  have := extendMap_normalise_rev l.reverse p
  simpa using this

/-- the inner loop of `Route::capture` over the request header lines, generic form -/
def innerStep {σ η κ : Type} [BEq σ] (lower : σ → σ) (headerName : η → σ) (headerCapture : η → σ → κ) (extend : κ → κ → κ)
    (header : η) (acc : κ) (rh : σ × σ) : κ :=
  if (lower rh.1 != lower (headerName header)) then acc else extend acc (headerCapture header rh.2)

theorem genRouteCapture_unfold {σ δ η κ : Type} [BEq σ]
    (lower : σ → σ) (sodCap : δ → σ → κ) (headerName : η → σ) (headerCapture : η → σ → κ) (extend : κ → κ → κ)
    (pq : δ) (host : Option δ) (headers : List η) (path : σ) (rhost : Option σ) (rheaders : List (σ × σ)) :
    genRouteCapture lower sodCap headerName headerCapture extend pq host headers path rhost rheaders =
      headers.foldl (fun acc h => rheaders.foldl (innerStep lower headerName headerCapture extend h) acc)
        (match host, rhost with
          | some h, some rh => extend (sodCap pq path) (sodCap h rh)
          | _, _ => sodCap pq path) := by
  unfold genRouteCapture innerStep
  cases host <;> cases rhost <;> rfl

/-- A request header line whose capture is neutral for `extend` (for every rule header of that name) can be removed. -/
theorem foldl_inner_remove {σ η κ : Type} [BEq σ] (lower : σ → σ) (headerName : η → σ) (headerCapture : η → σ → κ)
    (extend : κ → κ → κ) (h : η) (pre post : List (σ × σ)) (x : σ × σ)
    (hx : (lower x.1 != lower (headerName h)) = false → ∀ acc, extend acc (headerCapture h x.2) = acc) (acc : κ) :
    (pre ++ x :: post).foldl (innerStep lower headerName headerCapture extend h) acc =
      (pre ++ post).foldl (innerStep lower headerName headerCapture extend h) acc := by
  rw [List.foldl_append, List.foldl_append, List.foldl_cons]
  congr 1
  unfold innerStep
  cases hc : (lower x.1 != lower (headerName h))
  · simp [hx hc]
  · simp

/-! ### `Rule::variables` -/

theorem foldl_state_snd {α β γ : Type} (f : α × β → γ → α × β) (step : β → γ → β)
    (h : ∀ vs inp y, f (vs, inp) y = (vs, step inp y)) (l : List γ) (vs : α) (inp : β) :
    List.foldl f (vs, inp) l = (vs, List.foldl step inp l) := by
  induction l generalizing inp with
  | nil => rfl
  | cons a l ih => simp [h, ih]

theorem foldl_state_push {α β γ : Type} (f : List α × β → γ → List α × β) (g : β → γ → α)
    (h : ∀ vs inp y, f (vs, inp) y = (vs ++ [g inp y], inp)) (l : List γ) (vs : List α) (inp : β) :
    List.foldl f (vs, inp) l = (vs ++ l.map (g inp), inp) := by
  induction l generalizing vs with
  | nil => simp
  | cons a l ih => simp [h, ih]

theorem genRuleVariables_unfold {σ μ ν ι ρ : Type}
    (getMarker : σ → Option μ) (transform : μ → σ → σ) (varName : ν → σ) (getValue : ν → ι → ρ → σ)
    (emptyMap : ι) (insert : ι → σ → σ → ι) (iter : ι → List (σ × σ))
    (sortByKey : (σ → σ → Ordering) → List (σ × σ) → List (σ × σ)) (len : σ → Nat) (cmp : σ → σ → Ordering)
    (vars : List ν) (captured : List (σ × σ)) (req : ρ) :
    genRuleVariables getMarker transform varName getValue emptyMap insert iter sortByKey len cmp vars captured req =
      sortByKey (fun a b => (compare (len b) (len a)).then (cmp a b))
        (if vars.isEmpty then
          iter (captured.foldl (fun inp p => match getMarker p.1 with
            | none => insert inp p.1 p.2
            | some m => insert inp p.1 (transform m p.2)) emptyMap)
         else vars.map fun v => (varName v, getValue v (captured.foldl (fun inp p => match getMarker p.1 with
            | none => insert inp p.1 p.2
            | some m => insert inp p.1 (transform m p.2)) emptyMap) req)) := by
  unfold genRuleVariables
  dsimp only
  rw [foldl_state_snd _ (fun inp p => match getMarker p.1 with
            | none => insert inp p.1 p.2
            | some m => insert inp p.1 (transform m p.2))
      (by intro vs inp y; obtain ⟨n, v⟩ := y; dsimp only; cases getMarker n <;> rfl) captured]
  dsimp only
  congr 1
  cases hv : vars.isEmpty
  · simp only [Bool.false_eq_true, if_false]
    rw [foldl_state_push _ (fun inp v => (varName v, getValue v inp req)) (by intro vs inp y; rfl) vars]
    simp
  · simp only [if_true]
    rw [foldl_state_push _ (fun _ (p : σ × σ) => p) (by intro vs inp y; rfl)]
    simp

/-- `String::cmp` as an `Ordering`, from the model's `strLt` (`String::cmp == Less`). -/
def strCmp (a b : Str) : Ordering := if strLt a b then .lt else if a = b then .eq else .gt

/-- The translated comparator of the final sort, read as "`Less`", is the model's `varBefore`. -/
theorem gen_comparator_eq_varBefore (a b : Str) :
    ((compare (blen b) (blen a)).then (strCmp a b) == Ordering.lt) = varBefore a b := by
  unfold varBefore strCmp
  rcases Nat.lt_trichotomy (blen b) (blen a) with h | h | h
  · have hc : compare (blen b) (blen a) = .lt := Nat.compare_eq_lt.mpr h
    simp [hc, h]
  · have hc : compare (blen b) (blen a) = .eq := Nat.compare_eq_eq.mpr h
    have hn : ¬ blen b < blen a := by omega
    rw [hc]
    by_cases hs : strLt a b = true
    · simp [hs, h, Ordering.then]
    · have hs' : strLt a b = false := by simpa using hs
      by_cases he : a = b
      · subst he; simp [hs', Ordering.then]
      · simp [hs', he, h, Ordering.then]
  · have hc : compare (blen b) (blen a) = .gt := Nat.compare_eq_gt.mpr h
    have hn : ¬ blen b < blen a := by omega
    have hne : ¬ blen a = blen b := by omega
    simp [hc, hn, hne, Ordering.then]

/-- inserting the (distinct) captured names one after the other into the association-list map = `map` -/
theorem foldl_append_map {α β : Type} (f : List β → α → List β) (g : α → β) (h : ∀ acc x, f acc x = acc ++ [g x])
    (l : List α) (init : List β) : List.foldl f init l = init ++ l.map g := by
  induction l generalizing init with
  | nil => simp
  | cons a l ih => simp [h, ih]

/-- `HashMap::insert` on the association-list map, distinct keys: no entry is overwritten -/
theorem foldl_insert_map (f : List (Str × Str) → Str × Str → List (Str × Str)) (g : Str × Str → Str)
    (h : ∀ acc x, f acc x = extendMap acc [(x.1, g x)]) (l : List (Str × Str)) (init : List (Str × Str))
    (hnd : (names init ++ names l).Nodup) : List.foldl f init l = init ++ l.map (fun x => (x.1, g x)) := by
  induction l generalizing init with
  | nil => simp
  | cons x l ih =>
    have hx : x.1 ∉ names init := by
      intro hm
      simp only [names, List.map_cons] at hnd hm
      rw [List.nodup_append] at hnd
      exact hnd.2.2 _ hm _ (by simp) rfl
    have hf : f init x = init ++ [(x.1, g x)] := by
      rw [h]
      simp only [extendMap, List.foldl_cons, List.foldl_nil]
      congr 1
      rw [List.filter_eq_self]
      intro e he
      simp only [bne_iff_ne, ne_eq]
      intro heq
      exact hx (by simp only [names, List.mem_map]; exact ⟨e, he, heq⟩)
    rw [List.foldl_cons, hf, ih]
    · simp
    · simp only [names, List.map_append, List.map_cons, List.map_nil, List.append_assoc] at hnd ⊢
      simpa using hnd

/-! ### `StaticOrDynamic::replace` -/

theorem scanAux_nil (vars : List (Str × Str)) (k : Nat) : scanAux vars k [] = [] := by
  cases k <;> simp [scanAux]

theorem scanAux_skip (vars : List (Str × Str)) (k : Nat) (cs : Str) :
    scanAux vars k cs = scanAux vars 0 (cs.drop k) := by
  induction k generalizing cs with
  | zero => simp
  | succ k ih =>
    cases cs with
    | nil => simp [scanAux_nil]
    | cons c cs => simp [scanAux, ih]

theorem scanAux_noAt_append (vars : List (Str × Str)) (l cs : Str) (h : '@' ∉ l) :
    scanAux vars 0 (l ++ cs) = l ++ scanAux vars 0 cs := by
  induction l with
  | nil => rfl
  | cons c l ih =>
    have hc : c ≠ '@' := fun e => h (by simp [e])
    have hl : '@' ∉ l := fun e => h (by simp [e])
    simp [scanAux, hc, ih hl]

theorem scanAux_noAt (vars : List (Str × Str)) (l : Str) (h : '@' ∉ l) : scanAux vars 0 l = l := by
  have := scanAux_noAt_append vars l [] h
  simpa [scanAux_nil] using this

theorem scanAux_at (vars : List (Str × Str)) (cs : Str) :
    scanAux vars 0 ('@' :: cs) = match firstMatch vars cs with
      | some p => p.2 ++ scanAux vars 0 (cs.drop p.1.length)
      | none => '@' :: scanAux vars 0 cs := by
  simp only [scanAux, if_true]
  cases firstMatch vars cs with
  | none => rfl
  | some p => simp only; rw [scanAux_skip]

/-- What the equivalence assumes of the `str` / `String` operations, relative to a reading `toChars` of the string type as a
list of chars; each law constrains a slice ONLY at the offsets the code uses (where Rust does not panic). -/
structure StrLaws {σ : Type} (toChars : σ → Str) (find : σ → Char → Option Nat) (sliceTo sliceFrom : σ → Nat → σ)
    (startsWith : σ → σ → Bool) (len : σ → Nat) (append : σ → σ → σ) (push : σ → Char → σ) (withCapacity : Nat → σ) : Prop where
  /-- `find('@') = None`: no `@` -/
  find_none : ∀ s, find s '@' = none → '@' ∉ toChars s
  /-- `find('@') = Some(at)`: `s = s[..at] + "@" + s[at + 1..]`, no `@` in `s[..at]` -/
  find_some : ∀ s n, find s '@' = some n → '@' ∉ toChars (sliceTo s n) ∧
    toChars s = toChars (sliceTo s n) ++ '@' :: toChars (sliceFrom s (n + 1))
  starts : ∀ a n, startsWith a n = pre (toChars n) (toChars a)
  /-- after `a.starts_with(n)`: `a[n.len()..]` is `a` without the chars of `n` -/
  strip : ∀ a n, startsWith a n = true → toChars (sliceFrom a (len n)) = (toChars a).drop (toChars n).length
  append_chars : ∀ a b, toChars (append a b) = toChars a ++ toChars b
  push_chars : ∀ a c, toChars (push a c) = toChars a ++ [c]
  cap : ∀ n, toChars (withCapacity n) = []

section
variable {σ : Type} {toChars : σ → Str} {find : σ → Char → Option Nat} {sliceTo sliceFrom : σ → Nat → σ}
  {startsWith : σ → σ → Bool} {len : σ → Nat} {append : σ → σ → σ} {push : σ → Char → σ} {withCapacity : Nat → σ}

/-- the variable list as the model sees it -/
def varsChars (toChars : σ → Str) (vars : List (σ × σ)) : List (Str × Str) := vars.map fun p => (toChars p.1, toChars p.2)

theorem genReplaceFor_spec (L : StrLaws toChars find sliceTo sliceFrom startsWith len append push withCapacity)
    (n : Nat) (after result rest : σ) (vars : List (σ × σ)) :
    match firstMatch (varsChars toChars vars) (toChars after) with
    | none => genReplaceFor find sliceTo sliceFrom startsWith len append push n after result rest vars = none
    | some p => ∃ res' rest', genReplaceFor find sliceTo sliceFrom startsWith len append push n after result rest vars
          = some (res', rest') ∧ toChars res' = toChars result ++ p.2 ∧
          toChars rest' = (toChars after).drop p.1.length := by
  induction vars with
  | nil => simp [varsChars, firstMatch, genReplaceFor]
  | cons v vs ih =>
    obtain ⟨name, value⟩ := v
    simp only [varsChars, List.map_cons, firstMatch, genReplaceFor]
    rw [L.starts]
    cases hp : pre (toChars name) (toChars after)
    · simpa [varsChars] using ih
    · simp only [if_true]
      refine ⟨_, _, rfl, L.append_chars _ _, L.strip _ _ (by rw [L.starts]; exact hp)⟩

theorem genReplaceLoop_spec (L : StrLaws toChars find sliceTo sliceFrom startsWith len append push withCapacity)
    (vars : List (σ × σ)) (fuel : Nat) (result rest : σ) (hfuel : (toChars rest).length < fuel) :
    ∃ r, genReplaceLoop find sliceTo sliceFrom startsWith len append push vars fuel result rest = some r ∧
      toChars r = toChars result ++ scanAux (varsChars toChars vars) 0 (toChars rest) := by
  induction fuel generalizing result rest with
  | zero => omega
  | succ fuel ih =>
    unfold genReplaceLoop
    cases hf : find rest '@' with
    | none =>
      refine ⟨_, rfl, ?_⟩
      rw [L.append_chars, scanAux_noAt _ _ (L.find_none _ hf)]
    | some n =>
      obtain ⟨hno, hsplit⟩ := L.find_some _ _ hf
      simp only
      have hspec := genReplaceFor_spec L n (sliceFrom rest (n + 1)) (append result (sliceTo rest n)) rest vars
      have hlen : (toChars (sliceFrom rest (n + 1))).length < fuel := by
        have : (toChars rest).length = (toChars (sliceTo rest n)).length + (1 + (toChars (sliceFrom rest (n + 1))).length) := by
          rw [hsplit]; simp; omega
        omega
      rw [hsplit, scanAux_noAt_append _ _ _ hno, scanAux_at]
      cases hm : firstMatch (varsChars toChars vars) (toChars (sliceFrom rest (n + 1))) with
      | none =>
        rw [hm] at hspec
        simp only at hspec
        rw [hspec]
        simp only
        obtain ⟨r, hr, hc⟩ := ih (push (append result (sliceTo rest n)) '@') (sliceFrom rest (n + 1)) hlen
        refine ⟨r, hr, ?_⟩
        rw [hc, L.push_chars, L.append_chars]
        simp
      | some p =>
        rw [hm] at hspec
        obtain ⟨res', rest', hfor, hres, hrest⟩ := hspec
        rw [hfor]
        simp only
        obtain ⟨r, hr, hc⟩ := ih res' rest' (by rw [hrest, List.length_drop]; omega)
        refine ⟨r, hr, ?_⟩
        rw [hc, hres, hrest, L.append_chars]
        simp

theorem genReplace_spec (L : StrLaws toChars find sliceTo sliceFrom startsWith len append push withCapacity)
    (vars : List (σ × σ)) (fuel : Nat) (str : σ) (hfuel : (toChars str).length < fuel) :
    ∃ r, genReplace find sliceTo sliceFrom startsWith len append push withCapacity fuel str vars = some r ∧
      toChars r = replaceVars (toChars str) (varsChars toChars vars) := by
  obtain ⟨r, hr, hc⟩ := genReplaceLoop_spec L vars fuel (withCapacity (len str)) str hfuel
  refine ⟨r, hr, ?_⟩
  rw [hc, L.cap]; rfl
end

/-! an instance of the laws: strings as char lists with CHAR offsets (non-vacuity; the real `str` uses byte offsets) -/

def findChar (c : Char) : Str → Option Nat
  | [] => none
  | x :: xs => if x = c then some 0 else (findChar c xs).map (· + 1)

theorem findChar_none (c : Char) (s : Str) (h : findChar c s = none) : c ∉ s := by
  induction s with
  | nil => simp
  | cons x xs ih =>
    simp only [findChar] at h
    by_cases hx : x = c
    · simp [hx] at h
    · simp only [hx, if_false, Option.map_eq_none_iff] at h
      simp [ih h, Ne.symm hx]

theorem findChar_some (c : Char) (s : Str) (n : Nat) (h : findChar c s = some n) :
    c ∉ s.take n ∧ s = s.take n ++ c :: s.drop (n + 1) := by
  induction s generalizing n with
  | nil => simp [findChar] at h
  | cons x xs ih =>
    simp only [findChar] at h
    by_cases hx : x = c
    · simp only [hx, if_true, Option.some.injEq] at h
      subst h; simp [hx]
    · simp only [hx, if_false, Option.map_eq_some_iff] at h
      obtain ⟨m, hm, rfl⟩ := h
      obtain ⟨h1, h2⟩ := ih m hm
      refine ⟨?_, ?_⟩
      · simp [List.take_succ_cons, h1, Ne.symm hx]
      · simp only [List.take_succ_cons, List.drop_succ_cons, List.cons_append]
        rw [← h2]

theorem charLaws : StrLaws (σ := Str) id (fun s c => findChar c s) (fun s n => s.take n) (fun s n => s.drop n)
    (fun a n => pre n a) List.length (· ++ ·) (fun a c => a ++ [c]) (fun _ => []) where
  find_none := fun s h => findChar_none _ s h
  find_some := fun s n h => findChar_some _ s n h
  starts := fun _ _ => rfl
  strip := fun _ _ _ => rfl
  append_chars := fun _ _ => rfl
  push_chars := fun _ _ => rfl
  cap := fun _ => rfl

end Rio.MarkerGen
