/-
C15 helper lemmas: the token list of a document, neutral tokens, the path-following state machine
on a well-formed document, and the glue to the chain model.

The tokens of a verbatim piece (text, comment, declaration, an inserted value) are a PARAMETER
`vt : Bytes → List Tok` ("how the tokenizer sees it"); the token-level theorems hold for every `vt`
whose tokens carry no path name, the byte-level theorems instantiate it with the tokenizer.
-/
import RioModel.Model.FilterDom
import RioModel.Proofs.FilterHtml
set_option linter.unusedSimpArgs false
set_option linter.unusedVariables false
set_option linter.unusedSectionVars false

namespace Rio.Filter

/-! ### tokens of a document -/

def startTok (name disp attrs : Bytes) : Tok := ⟨.startTag, [60] ++ disp ++ attrs ++ [62], name⟩
def endTok (name disp : Bytes) : Tok := ⟨.endTag, [60, 47] ++ disp ++ [62], name⟩
def selfTok (name disp attrs : Bytes) : Tok := ⟨.selfClosing, [60] ++ disp ++ attrs ++ [47, 62], name⟩
/-- raw-text content is one text token (none when empty) -/
def textToks (bs : Bytes) : List Tok := if bs.isEmpty then [] else [⟨.text, bs, []⟩]

section
variable (vt : Bytes → List Tok)

mutual
  /-- the token list a tokenizer is expected to produce for `serialize n` -/
  def tokensOf : Node → List Tok
    | .verb raw _ => vt raw
    | .el name disp attrs kind children =>
      match kind with
      | .selfClosing => [selfTok name disp attrs]
      | .void => [startTok name disp attrs]
      | .raw => startTok name disp attrs :: (textToks (serializeList children) ++ [endTok name disp])
      | .normal => startTok name disp attrs :: (tokensOfList children ++ [endTok name disp])
  def tokensOfList : List Node → List Tok
    | [] => []
    | n :: ns => tokensOf n ++ tokensOfList ns
end

/-- what stands between the start and the end tag of a normal / raw-text element -/
def innerToks (kind : ElKind) (children : List Node) : List Tok :=
  match kind with
  | .raw => textToks (serializeList children)
  | _ => tokensOfList vt children

theorem tokensOf_el_normal (name disp attrs : Bytes) (cs : List Node) :
    tokensOf vt (.el name disp attrs .normal cs) =
      startTok name disp attrs :: (tokensOfList vt cs ++ [endTok name disp]) := by
  simp [tokensOf]

theorem tokensOf_el_raw (name disp attrs : Bytes) (cs : List Node) :
    tokensOf vt (.el name disp attrs .raw cs) =
      startTok name disp attrs :: (textToks (serializeList cs) ++ [endTok name disp]) := by
  simp [tokensOf]

theorem tokensOfList_append (a b : List Node) :
    tokensOfList vt (a ++ b) = tokensOfList vt a ++ tokensOfList vt b := by
  induction a with
  | nil => simp [tokensOfList]
  | cons n ns ih => simp [tokensOfList, ih]

theorem tokensOfList_cons (n : Node) (ns : List Node) :
    tokensOfList vt (n :: ns) = tokensOf vt n ++ tokensOfList vt ns := by
  simp [tokensOfList]

theorem serializeList_append (a b : List Node) :
    serializeList (a ++ b) = serializeList a ++ serializeList b := by
  induction a with
  | nil => simp [serializeList]
  | cons n ns ih => simp [serializeList, ih]

theorem rawsOf_textToks (bs : Bytes) : rawsOf (textToks bs) = bs := by
  unfold textToks
  cases bs with
  | nil => rfl
  | cons b r => simp [rawsOf]

/-- the verbatim pieces are tokenised losslessly -/
def VtLossless : Prop := ∀ raw, rawsOf (vt raw) = raw

mutual
  theorem rawsOf_tokensOf (hv : VtLossless vt) : ∀ n : Node, rawsOf (tokensOf vt n) = serialize n
    | .verb raw _ => by simp [tokensOf, serialize, hv raw]
    | .el name disp attrs kind cs => by
      cases kind with
      | selfClosing => simp [tokensOf, serialize, rawsOf, selfTok]
      | void => simp [tokensOf, serialize, rawsOf, startTok]
      | raw =>
        simp only [tokensOf, serialize, rawsOf_cons, rawsOf_append, rawsOf_textToks]
        simp [rawsOf, startTok, endTok]
      | normal =>
        simp only [tokensOf, serialize, rawsOf_cons, rawsOf_append, rawsOf_tokensOfList hv cs]
        simp [rawsOf, startTok, endTok]
  theorem rawsOf_tokensOfList (hv : VtLossless vt) : ∀ ns : List Node,
      rawsOf (tokensOfList vt ns) = serializeList ns
    | [] => by simp [tokensOfList, serializeList, rawsOf]
    | n :: ns => by
      simp only [tokensOfList, serializeList, rawsOf_append, rawsOf_tokensOf hv n,
        rawsOf_tokensOfList hv ns]
end

end

/-! ### neutral tokens: a tag whose name is none of the names the machine is waiting for -/

section
variable (tk : Tokenize) (ev : Bytes → Bytes → Bool)

def NeutralTok (P : List Bytes) (t : Tok) : Prop := isTagKind t.kind = true → t.name ∉ P

/-- every name the state refers to is a path name -/
structure StNames (P : List Bytes) (s : HtmlSt) : Prop where
  enter : ∀ n, s.enter = some n → n ∈ P
  leave : ∀ n, s.leave = some n → n ∈ P
  stack : ∀ l ∈ s.stack, l.tagName ∈ P

theorem push_nil (s : HtmlSt) (out : Bytes) : push s out [] = (s, out) := by
  unfold push
  split
  · rename_i l rest h
    cases s
    simp at h
    simp [h]
  · simp

theorem push_push (s : HtmlSt) (out a b : Bytes) :
    push (push s out a).1 (push s out a).2 b = push s out (a ++ b) := by
  unfold push
  cases h : s.stack with
  | nil => simp [h]
  | cons l rest => simp [h]

theorem push_empty_stack {s : HtmlSt} (h : s.stack = []) (out d : Bytes) : push s out d = (s, out ++ d) := by
  unfold push; simp [h]

theorem StNames.push {P : List Bytes} {s : HtmlSt} (h : StNames P s) (out d : Bytes) :
    StNames P (push s out d).1 := by
  unfold Rio.Filter.push
  cases hs : s.stack with
  | nil => simpa [hs] using h
  | cons l rest =>
    simp only [hs]
    refine ⟨h.enter, h.leave, ?_⟩
    intro l' hl'
    simp only [List.mem_cons] at hl'
    rcases hl' with e | e
    · subst e; exact h.stack l (by simp [hs])
    · exact h.stack l' (by simp [hs, e])

theorem onStart_neutral {P : List Bytes} {s : HtmlSt} (hs : StNames P s) {name : Bytes} (hn : name ∉ P)
    (data : Bytes) : onStart s name data = (s, data) := by
  rw [onStart_eq]
  have : s.enter ≠ some name := fun e => hn (hs.enter name e)
  simp [this]

theorem topMatches_neutral {P : List Bytes} {s : HtmlSt} (hs : StNames P s) {name : Bytes} (hn : name ∉ P) :
    topMatches s.stack name = false := by
  unfold topMatches
  cases h : s.stack with
  | nil => rfl
  | cons l rest =>
    simp only
    have : l.tagName ∈ P := hs.stack l (by simp [h])
    cases hb : (l.tagName == name) with
    | false => rfl
    | true => exact absurd ((beq_iff_eq.mp hb) ▸ this) hn

theorem onEnd_neutral {P : List Bytes} {s : HtmlSt} (hs : StNames P s) {name : Bytes} (hn : name ∉ P)
    (data : Bytes) : onEnd tk ev s name data = (s, data) := by
  rw [onEnd_eq]
  have h1 : s.leave ≠ some name := fun e => hn (hs.leave name e)
  simp [topMatches_neutral hs hn, h1]

theorem stepTok_neutral {P : List Bytes} {s : HtmlSt} (hs : StNames P s) {t : Tok} (ht : NeutralTok P t)
    (out : Bytes) : stepTok tk ev (s, out) t = push s out t.raw := by
  cases hk : isTagKind t.kind with
  | false => exact stepTok_other tk ev s out t hk
  | true =>
    have hn := ht hk
    cases hkind : t.kind with
    | text => simp [isTagKind, hkind] at hk
    | other => simp [isTagKind, hkind] at hk
    | startTag =>
      rw [stepTok_start tk ev s out t hkind, onStart_neutral hs hn, onEnd_neutral tk ev hs hn]
      simp
    | endTag => rw [stepTok_end tk ev s out t hkind, onEnd_neutral tk ev hs hn]
    | selfClosing =>
      rw [stepTok_self tk ev s out t hkind, onStart_neutral hs hn, onEnd_neutral tk ev hs hn]

/-- **neutral tokens are copied**: to the output, or into the element being buffered. -/
theorem fold_neutral {P : List Bytes} (toks : List Tok) (hn : ∀ t ∈ toks, NeutralTok P t) :
    ∀ (s : HtmlSt) (out : Bytes), StNames P s →
      toks.foldl (stepTok tk ev) (s, out) = push s out (rawsOf toks) := by
  induction toks with
  | nil => intro s out _; simp [rawsOf, push_nil]
  | cons t ts ih =>
    intro s out hs
    rw [List.foldl_cons, stepTok_neutral tk ev hs (hn t (by simp)),
      ih (fun x hx => hn x (List.mem_cons_of_mem _ hx)) _ _ (hs.push out t.raw), push_push, rawsOf_cons]

end

/-! ### the reference edit with the selector decision as a parameter -/

/-- `applyOp` with the decision `dec target selector` abstract -/
def applyOpD (dec : Node → Bytes → Bool) (op : EditOp) (sel : Option Bytes) (ins : Node) (n : Node) : Node :=
  match op with
  | .replace => if (sel.map (dec n)).getD true then ins else n
  | .append =>
    if (sel.map fun s => !dec n s).getD true then
      match n with
      | .el nm d a k cs => .el nm d a k (cs ++ [ins])
      | v => v
    else n
  | .prepend =>
    if (sel.map fun s => !dec n s).getD true then
      match n with
      | .el nm d a k cs => .el nm d a k (ins :: cs)
      | v => v
    else n

mutual
  def editListD (dec : Node → Bytes → Bool) (op : EditOp) (sel : Option Bytes) (ins : Node) (p : Bytes)
      (ps : List Bytes) (anywhere : Bool) : List Node → List Node
    | [] => []
    | n :: ns => editNodeD dec op sel ins p ps anywhere n :: editListD dec op sel ins p ps anywhere ns
  def editNodeD (dec : Node → Bytes → Bool) (op : EditOp) (sel : Option Bytes) (ins : Node) (p : Bytes)
      (ps : List Bytes) (anywhere : Bool) : Node → Node
    | .verb r m => .verb r m
    | .el nm d a k cs =>
      if nm == p then
        match ps with
        | [] => applyOpD dec op sel ins (.el nm d a k cs)
        | q :: qs => .el nm d a k (editListD dec op sel ins q qs false cs)
      else if anywhere && k != .raw then .el nm d a k (editListD dec op sel ins p ps true cs)
      else .el nm d a k cs
end

theorem applyOpD_selMatches : applyOpD selMatches = applyOp := by
  funext op sel ins n
  cases op <;> rfl

mutual
  theorem editListD_selMatches (op : EditOp) (sel : Option Bytes) (ins : Node) :
      ∀ (p : Bytes) (ps : List Bytes) (anywhere : Bool) (ns : List Node),
        editListD selMatches op sel ins p ps anywhere ns = editList op sel ins p ps anywhere ns
    | p, ps, anywhere, [] => by simp [editListD, editList]
    | p, ps, anywhere, n :: ns => by
      simp only [editListD, editList, editNodeD_selMatches op sel ins p ps anywhere n,
        editListD_selMatches op sel ins p ps anywhere ns]
  theorem editNodeD_selMatches (op : EditOp) (sel : Option Bytes) (ins : Node) :
      ∀ (p : Bytes) (ps : List Bytes) (anywhere : Bool) (n : Node),
        editNodeD selMatches op sel ins p ps anywhere n = editNode op sel ins p ps anywhere n
    | p, ps, anywhere, .verb r m => by simp [editNodeD, editNode]
    | p, ps, anywhere, .el nm d a k cs => by
      unfold editNodeD editNode
      cases ps with
      | nil => simp only [applyOpD_selMatches, editListD_selMatches op sel ins p [] true cs]
      | cons q qs =>
        simp only [editListD_selMatches op sel ins q qs false cs,
          editListD_selMatches op sel ins p (q :: qs) true cs]
end

/-- `edit` with the decision abstract -/
def editD (dec : Node → Bytes → Bool) (doc : List Node) (f : BodyFilter) : List Node :=
  match f with
  | .html action path sel value =>
    let op : Option EditOp :=
      if action = Rio.Consts.filterActionAppend then some .append
      else if action = Rio.Consts.filterActionPrepend then some .prepend
      else if action = Rio.Consts.filterActionReplace then some .replace
      else none
    let sel := match sel with
      | some s => if s.isEmpty then none else some s
      | none => none
    match op, path with
    | some op, p :: ps => editListD dec op sel (.verb value (valueMarks value)) p ps true doc
    | _, _ => doc
  | .text _ _ => doc

def editAllD (dec : Node → Bytes → Bool) (doc : List Node) (fs : List BodyFilter) : List Node :=
  fs.foldl (editD dec) doc

theorem editD_selMatches (doc : List Node) (f : BodyFilter) : editD selMatches doc f = edit doc f := by
  cases f with
  | text _ _ => rfl
  | html action path sel value =>
    unfold editD edit
    simp only
    generalize (if action = Rio.Consts.filterActionAppend then some EditOp.append
      else if action = Rio.Consts.filterActionPrepend then some EditOp.prepend
      else if action = Rio.Consts.filterActionReplace then some EditOp.replace else none) = op
    cases op with
    | none => rfl
    | some op =>
      cases path with
      | nil => rfl
      | cons p ps => exact editListD_selMatches op _ _ p ps true doc

theorem editAllD_selMatches (doc : List Node) (fs : List BodyFilter) :
    editAllD selMatches doc fs = editAll doc fs := by
  unfold editAllD editAll
  induction fs generalizing doc with
  | nil => rfl
  | cons f fs ih => simp only [List.foldl_cons, editD_selMatches, ih]

/-! ### the states of the path-following machine -/

section
variable (tk : Tokenize) (ev : Bytes → Bytes → Bool)
variable (k : VKind) (sel : Option Bytes) (content : Bytes)

/-- a visitor with zipper `(before, cur, after)` -/
def vis (before : List Bytes) (cur : Bytes) (after : List Bytes) (buf : Bool) : Visitor :=
  { kind := k, before := before, cur := cur, after := after, sel := sel, content := content, isBuffering := buf }

/-- general waiting state: `enter = some cur`, nothing buffered -/
def stG (lv : Option Bytes) (before : List Bytes) (cur : Bytes) (after : List Bytes) : HtmlSt :=
  { enter := some cur, leave := lv, visitor := vis k sel content before cur after false }

/-- seeking `cur` on the way down (`leave` = the element we are in) -/
def stS (before : List Bytes) (cur : Bytes) (after : List Bytes) : HtmlSt :=
  stG k sel content before.head? before cur after

/-- back inside `cur` after its child `a` has been left -/
def stR (before : List Bytes) (cur a : Bytes) (after : List Bytes) : HtmlSt :=
  { enter := some a, leave := some cur, visitor := vis k sel content before cur (a :: after) false }

/-- after the end tag of `cur` (append / prepend) -/
def stRet (before : List Bytes) (cur : Bytes) (after : List Bytes) : HtmlSt :=
  match before with
  | [] => stS k sel content [] cur after
  | b :: bs => stR k sel content bs b cur after

/-- inside the target, nothing buffered (append / prepend without selector) -/
def stT (before : List Bytes) (cur : Bytes) : HtmlSt :=
  { enter := none, leave := some cur, visitor := vis k sel content before cur [] false }

/-- inside the target, the element is being buffered -/
def stB (bufFlag : Bool) (before : List Bytes) (cur : Bytes) (buffer : Bytes) : HtmlSt :=
  { enter := none, leave := some cur, visitor := vis k sel content before cur [] bufFlag,
    stack := [⟨buffer, cur⟩] }

theorem hasSel_vis (before : List Bytes) (cur : Bytes) (after : List Bytes) (b : Bool) :
    (vis k sel content before cur after b).hasSel = (match sel with | some s => !s.isEmpty | none => false) := rfl

/-- going down: the start tag of a non-last path element -/
theorem step_start_down (lv : Option Bytes) (before : List Bytes) (cur a : Bytes) (rest : List Bytes)
    (disp attrs out : Bytes) (hv : isVoid cur = false) :
    stepTok tk ev (stG k sel content lv before cur (a :: rest), out) (startTok cur disp attrs) =
      (stS k sel content (cur :: before) a rest, out ++ (startTok cur disp attrs).raw) := by
  rw [stepTok_start tk ev _ _ _ rfl]
  simp only [startTok, hv, Bool.false_eq_true, if_false]
  rw [onStart_eq]
  simp [stG, stS, vis, Visitor.enter, Visitor.advance, push]

/-- coming back up: the end tag of a non-last path element (all three kinds) -/
theorem step_end_up (before : List Bytes) (cur a : Bytes) (rest : List Bytes) (disp out : Bytes) :
    stepTok tk ev (stR k sel content before cur a rest, out) (endTok cur disp) =
      (stRet k sel content before cur (a :: rest), out ++ (endTok cur disp).raw) := by
  rw [stepTok_end tk ev _ _ _ rfl]
  rw [onEnd_eq]
  cases k <;> cases before <;>
    simp [endTok, stR, stRet, stS, stG, vis, topMatches, Visitor.leave, Visitor.leaveMove, Visitor.retreat, push]

/-- `hasSel` of every visitor built with `sel` -/
def selOn : Bool :=
  match sel with
  | some s => !s.isEmpty
  | none => false

theorem hasSel_eq (before : List Bytes) (cur : Bytes) (after : List Bytes) (b : Bool) :
    (vis k sel content before cur after b).hasSel = selOn sel := rfl

/-- waiting for (further) targets after a replacement -/
def stX (before : List Bytes) (cur : Bytes) : HtmlSt := stG k sel content none before cur []

/-! #### append -/

theorem app_start_nosel (lv : Option Bytes) (before : List Bytes) (cur disp attrs out : Bytes)
    (hv : isVoid cur = false) (hs : selOn sel = false) :
    stepTok tk ev (stG .append sel content lv before cur [], out) (startTok cur disp attrs) =
      (stT .append sel content before cur, out ++ (startTok cur disp attrs).raw) := by
  rw [stepTok_start tk ev _ _ _ rfl]
  simp only [startTok, hv, Bool.false_eq_true, if_false]
  rw [onStart_eq]
  rcases sel with _ | (_ | ⟨b, r⟩) <;> simp [selOn] at hs <;>
    simp [stG, stT, vis, Visitor.enter, push, Visitor.hasSel]

theorem app_end_nosel (before : List Bytes) (cur disp out : Bytes) (hs : selOn sel = false) :
    stepTok tk ev (stT .append sel content before cur, out) (endTok cur disp) =
      (stRet .append sel content before cur [], out ++ content ++ (endTok cur disp).raw) := by
  rw [stepTok_end tk ev _ _ _ rfl]
  rw [onEnd_eq]
  rcases sel with _ | (_ | ⟨b, r⟩) <;> simp [selOn] at hs <;> cases before <;>
    simp [endTok, stT, stRet, stS, stG, stR, vis, topMatches, Visitor.leave, Visitor.leaveMove,
      Visitor.retreat, push, Visitor.hasSel]

theorem app_start_sel (lv : Option Bytes) (before : List Bytes) (cur disp attrs out : Bytes)
    (hv : isVoid cur = false) (hs : selOn sel = true) :
    stepTok tk ev (stG .append sel content lv before cur [], out) (startTok cur disp attrs) =
      (stB .append sel content false before cur (startTok cur disp attrs).raw, out) := by
  rw [stepTok_start tk ev _ _ _ rfl]
  simp only [startTok, hv, Bool.false_eq_true, if_false]
  rw [onStart_eq]
  rcases sel with _ | (_ | ⟨b, r⟩) <;> simp [selOn] at hs <;>
    simp [stG, stB, vis, Visitor.enter, push, Visitor.hasSel]

theorem app_end_sel (before : List Bytes) (cur disp out buffer : Bytes) (hs : selOn sel = true) :
    stepTok tk ev (stB .append sel content false before cur buffer, out) (endTok cur disp) =
      (stRet .append sel content before cur [],
        out ++ (if !ev (buffer ++ (endTok cur disp).raw) (sel.getD []) then
                  appendChild tk (buffer ++ (endTok cur disp).raw) content
                else buffer ++ (endTok cur disp).raw)) := by
  rw [stepTok_end tk ev _ _ _ rfl]
  rw [onEnd_eq]
  rcases sel with _ | (_ | ⟨b, r⟩) <;> simp [selOn] at hs <;> cases before <;>
    simp [endTok, stB, stRet, stS, stG, stR, vis, topMatches, topBuffer, Visitor.leave, Visitor.leaveMove,
      Visitor.retreat, push, Visitor.hasSel, Visitor.selector] <;>
    split <;> simp [push]

/-! #### prepend -/

theorem pre_start_nosel (lv : Option Bytes) (before : List Bytes) (cur disp attrs out : Bytes)
    (hv : isVoid cur = false) (hs : selOn sel = false) :
    stepTok tk ev (stG .prepend sel content lv before cur [], out) (startTok cur disp attrs) =
      (stT .prepend sel content before cur, out ++ (startTok cur disp attrs).raw ++ content) := by
  rw [stepTok_start tk ev _ _ _ rfl]
  simp only [startTok, hv, Bool.false_eq_true, if_false]
  rw [onStart_eq]
  rcases sel with _ | (_ | ⟨b, r⟩) <;> simp [selOn] at hs <;>
    simp [stG, stT, vis, Visitor.enter, push, Visitor.hasSel]

theorem pre_end_nosel (before : List Bytes) (cur disp out : Bytes) (hs : selOn sel = false) :
    stepTok tk ev (stT .prepend sel content before cur, out) (endTok cur disp) =
      (stRet .prepend sel content before cur [], out ++ (endTok cur disp).raw) := by
  rw [stepTok_end tk ev _ _ _ rfl]
  rw [onEnd_eq]
  rcases sel with _ | (_ | ⟨b, r⟩) <;> simp [selOn] at hs <;> cases before <;>
    simp [endTok, stT, stRet, stS, stG, stR, vis, topMatches, Visitor.leave, Visitor.leaveMove,
      Visitor.retreat, push, Visitor.hasSel]

theorem pre_start_sel (lv : Option Bytes) (before : List Bytes) (cur disp attrs out : Bytes)
    (hv : isVoid cur = false) (hs : selOn sel = true) :
    stepTok tk ev (stG .prepend sel content lv before cur [], out) (startTok cur disp attrs) =
      (stB .prepend sel content true before cur (startTok cur disp attrs).raw, out) := by
  rw [stepTok_start tk ev _ _ _ rfl]
  simp only [startTok, hv, Bool.false_eq_true, if_false]
  rw [onStart_eq]
  rcases sel with _ | (_ | ⟨b, r⟩) <;> simp [selOn] at hs <;>
    simp [stG, stB, vis, Visitor.enter, push, Visitor.hasSel]

theorem pre_end_sel (before : List Bytes) (cur disp out buffer : Bytes) (hs : selOn sel = true) :
    stepTok tk ev (stB .prepend sel content true before cur buffer, out) (endTok cur disp) =
      (stRet .prepend sel content before cur [],
        out ++ (if !ev (buffer ++ (endTok cur disp).raw) (sel.getD []) then
                  prependChild tk (buffer ++ (endTok cur disp).raw) content
                else buffer ++ (endTok cur disp).raw)) := by
  rw [stepTok_end tk ev _ _ _ rfl]
  rw [onEnd_eq]
  rcases sel with _ | (_ | ⟨b, r⟩) <;> simp [selOn] at hs <;> cases before <;>
    simp [endTok, stB, stRet, stS, stG, stR, vis, topMatches, topBuffer, Visitor.leave, Visitor.leaveMove,
      Visitor.retreat, push, Visitor.hasSel, Visitor.selector] <;>
    split <;> simp [push]

/-! #### replace -/

/-- the decision of `BodyReplace::leave` on the buffered element -/
def repOut (data : Bytes) : Bytes :=
  if !selOn sel || ev data (sel.getD []) then content else data

theorem rep_start (lv : Option Bytes) (before : List Bytes) (cur disp attrs out : Bytes)
    (hv : isVoid cur = false) :
    stepTok tk ev (stG .replace sel content lv before cur [], out) (startTok cur disp attrs) =
      (stB .replace sel content true before cur (startTok cur disp attrs).raw, out) := by
  rw [stepTok_start tk ev _ _ _ rfl]
  simp only [startTok, hv, Bool.false_eq_true, if_false]
  rw [onStart_eq]
  simp [stG, stB, vis, Visitor.enter, push]

theorem rep_end (before : List Bytes) (cur disp out buffer : Bytes) :
    stepTok tk ev (stB .replace sel content true before cur buffer, out) (endTok cur disp) =
      (stX .replace sel content before cur,
        out ++ repOut ev sel content (buffer ++ (endTok cur disp).raw)) := by
  rw [stepTok_end tk ev _ _ _ rfl]
  rw [onEnd_eq]
  rcases sel with _ | (_ | ⟨b, r⟩) <;>
    simp [endTok, stB, stX, stG, vis, topMatches, topBuffer, Visitor.leave, Visitor.leaveMove,
      push, Visitor.hasSel, Visitor.selector, repOut, selOn] <;>
    split <;> simp [push]

theorem rep_void (lv : Option Bytes) (before : List Bytes) (cur disp attrs out : Bytes)
    (hv : isVoid cur = true) :
    stepTok tk ev (stG .replace sel content lv before cur [], out) (startTok cur disp attrs) =
      (stX .replace sel content before cur, out ++ repOut ev sel content (startTok cur disp attrs).raw) := by
  rw [stepTok_start tk ev _ _ _ rfl]
  simp only [startTok, hv, if_true]
  rw [onStart_eq]
  simp only [stG, vis, Visitor.enter]
  simp only [ne_eq, not_true_eq_false, if_false, if_true]
  rw [onEnd_eq]
  rcases sel with _ | (_ | ⟨b, r⟩) <;>
    simp [stX, stG, vis, topMatches, topBuffer, Visitor.leave, Visitor.leaveMove,
      push, Visitor.hasSel, Visitor.selector, repOut, selOn] <;>
    split <;> simp [push]

theorem rep_self (lv : Option Bytes) (before : List Bytes) (cur disp attrs out : Bytes) :
    stepTok tk ev (stG .replace sel content lv before cur [], out) (selfTok cur disp attrs) =
      (stX .replace sel content before cur, out ++ repOut ev sel content (selfTok cur disp attrs).raw) := by
  rw [stepTok_self tk ev _ _ _ rfl]
  simp only [selfTok]
  rw [onStart_eq]
  simp only [stG, vis, Visitor.enter]
  simp only [ne_eq, not_true_eq_false, if_false, if_true]
  rw [onEnd_eq]
  rcases sel with _ | (_ | ⟨b, r⟩) <;>
    simp [stX, stG, vis, topMatches, topBuffer, Visitor.leave, Visitor.leaveMove,
      push, Visitor.hasSel, Visitor.selector, repOut, selOn] <;>
    split <;> simp [push]

/-! ### names of the states -/

theorem stNames_stG {P : List Bytes} (lv : Option Bytes) (before : List Bytes) (cur : Bytes) (after : List Bytes)
    (hc : cur ∈ P) (hl : ∀ n, lv = some n → n ∈ P) : StNames P (stG k sel content lv before cur after) :=
  ⟨fun n h => by simp [stG] at h; exact h ▸ hc, fun n h => hl n (by simpa [stG] using h),
   fun l h => by simp [stG] at h⟩

theorem stNames_stR {P : List Bytes} (before : List Bytes) (cur a : Bytes) (after : List Bytes)
    (hc : cur ∈ P) (ha : a ∈ P) : StNames P (stR k sel content before cur a after) :=
  ⟨fun n h => by simp [stR] at h; exact h ▸ ha, fun n h => by simp [stR] at h; exact h ▸ hc,
   fun l h => by simp [stR] at h⟩

theorem stNames_stT {P : List Bytes} (before : List Bytes) (cur : Bytes) (hc : cur ∈ P) :
    StNames P (stT k sel content before cur) :=
  ⟨fun n h => by simp [stT] at h, fun n h => by simp [stT] at h; exact h ▸ hc, fun l h => by simp [stT] at h⟩

theorem stNames_stB {P : List Bytes} (b : Bool) (before : List Bytes) (cur buffer : Bytes) (hc : cur ∈ P) :
    StNames P (stB k sel content b before cur buffer) :=
  ⟨fun n h => by simp [stB] at h, fun n h => by simp [stB] at h; exact h ▸ hc,
   fun l h => by simp [stB] at h; rw [h]; exact hc⟩

theorem push_stB (b : Bool) (before : List Bytes) (cur buffer out d : Bytes) :
    push (stB k sel content b before cur buffer) out d = (stB k sel content b before cur (buffer ++ d), out) := by
  simp [push, stB]

theorem push_stT (before : List Bytes) (cur out d : Bytes) :
    push (stT k sel content before cur) out d = (stT k sel content before cur, out ++ d) := by
  simp [push, stT]

theorem push_stG (lv : Option Bytes) (before : List Bytes) (cur : Bytes) (after : List Bytes) (out d : Bytes) :
    push (stG k sel content lv before cur after) out d = (stG k sel content lv before cur after, out ++ d) := by
  simp [push, stG]

theorem push_stR (before : List Bytes) (cur a : Bytes) (after : List Bytes) (out d : Bytes) :
    push (stR k sel content before cur a after) out d = (stR k sel content before cur a after, out ++ d) := by
  simp [push, stR]

/-! ### `append_child` / `prepend_child` on the tokens of an element -/

/-- a token list that leaves the nesting level of `append_child` unchanged and never closes it -/
def Bal (toks : List Tok) : Prop :=
  ∀ (child : Bytes) (more : List Tok) (rest : Bytes) (l : Int) (out : Bytes), 1 ≤ l →
    appendChildGo child (toks ++ more) rest l out = appendChildGo child more rest l (out ++ rawsOf toks)

theorem bal_nil : Bal [] := by
  intro child more rest l out _; simp [rawsOf]

theorem bal_append {a b : List Tok} (ha : Bal a) (hb : Bal b) : Bal (a ++ b) := by
  intro child more rest l out hl
  rw [List.append_assoc, ha child _ rest l out hl, hb child more rest l _ hl, rawsOf_append, List.append_assoc]

/-- a token that is neither a start nor an end tag -/
theorem bal_single {t : Tok} (h1 : t.kind ≠ .startTag) (h2 : t.kind ≠ .endTag) : Bal [t] := by
  intro child more rest l out _
  simp only [List.cons_append, List.nil_append]
  rw [appendChildGo]
  simp [h1, h2, rawsOf]

theorem bal_void {t : Tok} (h1 : t.kind = .startTag) (hv : isVoid t.name = true) : Bal [t] := by
  intro child more rest l out _
  simp only [List.cons_append, List.nil_append]
  rw [appendChildGo]
  simp [h1, hv, rawsOf]

theorem bal_textToks (bs : Bytes) : Bal (textToks bs) := by
  unfold textToks
  split
  · exact bal_nil
  · exact bal_single (by simp) (by simp)

/-- `<name …>` balanced content `</name>` is balanced -/
theorem bal_element {name disp attrs : Bytes} {inner : List Tok} (hv : isVoid name = false) (hi : Bal inner) :
    Bal (startTok name disp attrs :: (inner ++ [endTok name disp])) := by
  intro child more rest l out hl
  simp only [List.cons_append, List.append_assoc, List.nil_append]
  rw [appendChildGo]
  simp only [startTok, hv, Bool.false_eq_true, if_false, if_true, reduceCtorEq]
  rw [hi child _ rest (l + 1) _ (by omega)]
  simp only [List.cons_append, List.nil_append]
  rw [appendChildGo]
  have : l + 1 - 1 ≠ 0 := by omega
  simp only [endTok, reduceCtorEq, if_false, if_true, this]
  simp [rawsOf, startTok, endTok]

theorem appendChild_elem {data name disp attrs child : Bytes} {inner : List Tok}
    (hv : isVoid name = false) (hb : Bal inner)
    (htk : tk data = (startTok name disp attrs :: (inner ++ [endTok name disp]), [])) :
    appendChild tk data child =
      (startTok name disp attrs).raw ++ rawsOf inner ++ child ++ (endTok name disp).raw := by
  unfold appendChild
  rw [htk]
  simp only
  rw [appendChildGo]
  simp only [startTok, hv, Bool.false_eq_true, if_false, if_true, reduceCtorEq]
  rw [hb child _ [] (0 + 1) _ (by omega)]
  rw [appendChildGo]
  simp [endTok, rawsOf]

theorem prependChild_elem {data name disp attrs child : Bytes} {inner : List Tok}
    (htk : tk data = (startTok name disp attrs :: (inner ++ [endTok name disp]), [])) :
    prependChild tk data child =
      (startTok name disp attrs).raw ++ child ++ rawsOf inner ++ (endTok name disp).raw := by
  unfold prependChild
  rw [htk]
  simp only
  rw [prependChildGo]
  simp [startTok, rawsOf_append, rawsOf, endTok]

/-! ### the target element (append / prepend) -/

def opOf : VKind → EditOp
  | .append => .append
  | .prepend => .prepend
  | .replace => .replace

/-- the selector as the reference edit sees it (`Some("")` = no selector) -/
def selN (sel : Option Bytes) : Option Bytes :=
  match sel with
  | some s => if s.isEmpty then none else some s
  | none => none

theorem selN_of_off {sel : Option Bytes} (h : selOn sel = false) : selN sel = none := by
  rcases sel with _ | (_ | ⟨b, r⟩) <;> simp [selOn] at h <;> rfl

theorem selN_of_on {sel : Option Bytes} (h : selOn sel = true) : selN sel = some (sel.getD []) := by
  rcases sel with _ | (_ | ⟨b, r⟩) <;> simp [selOn] at h <;> rfl

variable (vt : Bytes → List Tok)

theorem tokensOf_el_inner (nm d at_ : Bytes) (knd : ElKind) (cs : List Node) (h : knd = .normal ∨ knd = .raw) :
    tokensOf vt (.el nm d at_ knd cs) = startTok nm d at_ :: (innerToks vt knd cs ++ [endTok nm d]) := by
  rcases h with h | h <;> subst h <;> simp [tokensOf, innerToks]

theorem serialize_el_inner (nm d at_ : Bytes) (knd : ElKind) (cs : List Node) (h : knd = .normal ∨ knd = .raw) :
    serialize (.el nm d at_ knd cs) = (startTok nm d at_).raw ++ serializeList cs ++ (endTok nm d).raw := by
  rcases h with h | h <;> subst h <;> simp [serialize, startTok, endTok]

theorem rawsOf_innerToks (hv : VtLossless vt) (knd : ElKind) (cs : List Node) :
    rawsOf (innerToks vt knd cs) = serializeList cs := by
  cases knd <;> simp [innerToks, rawsOf_textToks, rawsOf_tokensOfList vt hv]

/-- the decision the reference edit uses: the selector oracle applied to the serialised target -/
def decOf (ev : Bytes → Bytes → Bool) : Node → Bytes → Bool := fun n s => ev (serialize n) s

/-- what the theorems ask of an append / prepend target -/
structure TargetAP (P : List Bytes) (cur d at_ : Bytes) (knd : ElKind) (cs : List Node) : Prop where
  kind : knd = .normal ∨ knd = .raw
  nvoid : isVoid cur = false
  inner : ∀ t ∈ innerToks vt knd cs, NeutralTok P t
  /-- with a selector the buffered element is re-tokenised by `append_child` / `prepend_child` -/
  tkOK : selOn sel = true →
    tk (serialize (.el cur d at_ knd cs)) = (tokensOf vt (.el cur d at_ knd cs), [])
  bal : selOn sel = true → k = .append → Bal (innerToks vt knd cs)

theorem foldl_cons_append_single {α β : Type} (f : β → α → β) (b : β) (x : α) (mid : List α) (y : α) :
    (x :: (mid ++ [y])).foldl f b = f (mid.foldl f (f b x)) y := by
  simp [List.foldl_append]

theorem target_AP (hk : k = .append ∨ k = .prepend) (hvt : VtLossless vt) {P : List Bytes}
    {cur d at_ : Bytes} {knd : ElKind} {cs : List Node} (hcP : cur ∈ P)
    (h : TargetAP tk k sel vt P cur d at_ knd cs) (lv : Option Bytes) (before : List Bytes) (out : Bytes)
    (m : List Bytes) :
    (tokensOf vt (.el cur d at_ knd cs)).foldl (stepTok tk ev) (stG k sel content lv before cur [], out) =
      (stRet k sel content before cur [],
        out ++ serialize (applyOpD (decOf ev) (opOf k) (selN sel) (.verb content m) (.el cur d at_ knd cs))) := by
  have hin := rawsOf_innerToks vt hvt knd cs
  rw [tokensOf_el_inner vt cur d at_ knd cs h.kind, foldl_cons_append_single]
  cases hs : selOn sel with
  | false =>
    rw [selN_of_off hs]
    rcases hk with hk | hk <;> subst hk
    · rw [app_start_nosel tk ev sel content lv before cur d at_ out h.nvoid hs,
        fold_neutral tk ev _ h.inner _ _ (stNames_stT _ _ _ before cur hcP), push_stT,
        app_end_nosel tk ev sel content before cur d _ hs]
      simp only [applyOpD, opOf, Option.map_none, Option.getD_none, if_true]
      rw [serialize_el_inner cur d at_ knd _ h.kind, serializeList_append, hin]
      simp [serializeList, serialize]
    · rw [pre_start_nosel tk ev sel content lv before cur d at_ out h.nvoid hs,
        fold_neutral tk ev _ h.inner _ _ (stNames_stT _ _ _ before cur hcP), push_stT,
        pre_end_nosel tk ev sel content before cur d _ hs]
      simp only [applyOpD, opOf, Option.map_none, Option.getD_none, if_true]
      rw [serialize_el_inner cur d at_ knd _ h.kind, hin]
      simp [serializeList, serialize]
  | true =>
    rw [selN_of_on hs]
    have htk := h.tkOK hs
    rw [tokensOf_el_inner vt cur d at_ knd cs h.kind] at htk
    have hser := serialize_el_inner cur d at_ knd cs h.kind
    rcases hk with hk | hk <;> subst hk
    · rw [app_start_sel tk ev sel content lv before cur d at_ out h.nvoid hs,
        fold_neutral tk ev _ h.inner _ _ (stNames_stB _ _ _ false before cur _ hcP), push_stB,
        app_end_sel tk ev sel content before cur d _ _ hs, hin, ← hser]
      simp only [applyOpD, opOf, Option.map_some, Option.getD_some, decOf]
      rcases Bool.eq_false_or_eq_true (ev (serialize (.el cur d at_ knd cs)) (sel.getD [])) with hev | hev
      · simp only [hev, Bool.not_true, Bool.false_eq_true, if_false]
      · simp only [hev, Bool.not_false, if_true]
        rw [appendChild_elem tk h.nvoid (h.bal hs rfl) htk, hin,
          serialize_el_inner cur d at_ knd _ h.kind, serializeList_append]
        simp [serializeList, serialize]
    · rw [pre_start_sel tk ev sel content lv before cur d at_ out h.nvoid hs,
        fold_neutral tk ev _ h.inner _ _ (stNames_stB _ _ _ true before cur _ hcP), push_stB,
        pre_end_sel tk ev sel content before cur d _ _ hs, hin, ← hser]
      simp only [applyOpD, opOf, Option.map_some, Option.getD_some, decOf]
      rcases Bool.eq_false_or_eq_true (ev (serialize (.el cur d at_ knd cs)) (sel.getD [])) with hev | hev
      · simp only [hev, Bool.not_true, Bool.false_eq_true, if_false]
      · simp only [hev, Bool.not_false, if_true]
        rw [prependChild_elem tk htk, hin, serialize_el_inner cur d at_ knd _ h.kind]
        simp [serializeList, serialize]

/-! ### free (path-name-free) subtrees -/

/-- no tag token of the forest carries a path name -/
def FreeL (P : List Bytes) (ns : List Node) : Prop := ∀ t ∈ tokensOfList vt ns, NeutralTok P t

theorem FreeL.cons_head {P : List Bytes} {n : Node} {ns : List Node} (h : FreeL vt P (n :: ns)) :
    ∀ t ∈ tokensOf vt n, NeutralTok P t :=
  fun t ht => h t (by rw [tokensOfList_cons]; exact List.mem_append_left _ ht)

theorem FreeL.cons_tail {P : List Bytes} {n : Node} {ns : List Node} (h : FreeL vt P (n :: ns)) : FreeL vt P ns :=
  fun t ht => h t (by rw [tokensOfList_cons]; exact List.mem_append_right _ ht)

theorem name_not_mem_of_free {P : List Bytes} {nm d a : Bytes} {knd : ElKind} {cs : List Node}
    (h : ∀ t ∈ tokensOf vt (.el nm d a knd cs), NeutralTok P t) : nm ∉ P := by
  cases knd with
  | selfClosing => exact h (selfTok nm d a) (by simp [tokensOf]) (by simp [selfTok, isTagKind])
  | void => exact h (startTok nm d a) (by simp [tokensOf]) (by simp [startTok, isTagKind])
  | raw => exact h (startTok nm d a) (by simp [tokensOf]) (by simp [startTok, isTagKind])
  | normal => exact h (startTok nm d a) (by simp [tokensOf]) (by simp [startTok, isTagKind])

/-- with child semantics the reference edit leaves a free forest alone -/
theorem editListD_free_child (dec : Node → Bytes → Bool) (op : EditOp) (s' : Option Bytes) (ins : Node)
    {P : List Bytes} {p : Bytes} (hp : p ∈ P) (ps : List Bytes) :
    ∀ ns : List Node, FreeL vt P ns → editListD dec op s' ins p ps false ns = ns
  | [], _ => by simp [editListD]
  | n :: ns, h => by
    rw [editListD, editListD_free_child dec op s' ins hp ps ns (FreeL.cons_tail vt h)]
    congr 1
    cases n with
    | verb r m => simp [editNodeD]
    | el nm d a knd cs =>
      have hnm : nm ∉ P := name_not_mem_of_free vt (FreeL.cons_head vt h)
      have : (nm == p) = false := by
        cases hb : (nm == p) with
        | false => rfl
        | true => exact absurd ((beq_iff_eq.mp hb) ▸ hp) hnm
      simp [editNodeD, this]

theorem editListD_append (dec : Node → Bytes → Bool) (op : EditOp) (s' : Option Bytes) (ins : Node)
    (p : Bytes) (ps : List Bytes) (aw : Bool) (a b : List Node) :
    editListD dec op s' ins p ps aw (a ++ b) =
      editListD dec op s' ins p ps aw a ++ editListD dec op s' ins p ps aw b := by
  induction a with
  | nil => simp [editListD]
  | cons n ns ih => simp [editListD, ih]

theorem editNodeD_hit (dec : Node → Bytes → Bool) (op : EditOp) (s' : Option Bytes) (ins : Node)
    (p q : Bytes) (qs : List Bytes) (aw : Bool) (d a : Bytes) (knd : ElKind) (cs : List Node) :
    editNodeD dec op s' ins p (q :: qs) aw (.el p d a knd cs) =
      .el p d a knd (editListD dec op s' ins q qs false cs) := by
  simp [editNodeD]

theorem editNodeD_target (dec : Node → Bytes → Bool) (op : EditOp) (s' : Option Bytes) (ins : Node)
    (p : Bytes) (aw : Bool) (d a : Bytes) (knd : ElKind) (cs : List Node) :
    editNodeD dec op s' ins p [] aw (.el p d a knd cs) = applyOpD dec op s' ins (.el p d a knd cs) := by
  simp [editNodeD]

/-! ### an element of the path and everything below it (append / prepend) -/

/-- domain of an element named `cur` whose remaining path is `after` -/
def ChildDomAP (P : List Bytes) : List Bytes → Bytes → Bytes → Bytes → ElKind → List Node → Prop
  | [], cur, d, at_, knd, cs => TargetAP tk k sel vt P cur d at_ knd cs
  | a :: rest, cur, _, _, knd, cs =>
    knd = .normal ∧ isVoid cur = false ∧
    ∃ pre d' at' knd' cs' post, cs = pre ++ Node.el a d' at' knd' cs' :: post ∧
      FreeL vt P pre ∧ FreeL vt P post ∧ ChildDomAP P rest a d' at' knd' cs'

theorem elem_AP (hk : k = .append ∨ k = .prepend) (hvt : VtLossless vt) {P : List Bytes} (m : List Bytes) :
    ∀ (after before : List Bytes) (cur d at_ : Bytes) (knd : ElKind) (cs : List Node) (lv : Option Bytes)
      (out : Bytes), ChildDomAP tk k sel vt P after cur d at_ knd cs → cur ∈ P → (∀ a ∈ after, a ∈ P) →
      (tokensOf vt (.el cur d at_ knd cs)).foldl (stepTok tk ev) (stG k sel content lv before cur after, out) =
        (stRet k sel content before cur after,
          out ++ serialize (editNodeD (decOf ev) (opOf k) (selN sel) (.verb content m) cur after false
            (.el cur d at_ knd cs)))
  | [], before, cur, d, at_, knd, cs, lv, out, h, hc, _ => by
    rw [target_AP tk ev k sel content vt hk hvt hc h lv before out m, editNodeD_target]
  | a :: rest, before, cur, d, at_, knd, cs, lv, out, h, hc, ha => by
    obtain ⟨hknd, hvoid, pre, d', at', knd', cs', post, hcs, hpre, hpost, hch⟩ := h
    subst hknd
    subst hcs
    have haP : a ∈ P := ha a (by simp)
    rw [tokensOf_el_normal, foldl_cons_append_single, step_start_down tk ev k sel content lv before cur a rest d at_ out hvoid]
    rw [tokensOfList_append, tokensOfList_cons, List.foldl_append, List.foldl_append]
    -- the free siblings before the child
    have hS : stS k sel content (cur :: before) a rest = stG k sel content (some cur) (cur :: before) a rest := rfl
    rw [hS, fold_neutral tk ev _ hpre _ _ (stNames_stG k sel content _ _ _ _ haP
      (fun n hn => by simp at hn; exact hn ▸ hc)), push_stG]
    -- the child
    rw [elem_AP hk hvt m rest (cur :: before) a d' at' knd' cs' (some cur) _ hch haP
      (fun x hx => ha x (List.mem_cons_of_mem _ hx))]
    -- the free siblings after it
    have hR : stRet k sel content (cur :: before) a rest = stR k sel content before cur a rest := rfl
    rw [hR, fold_neutral tk ev _ hpost _ _ (stNames_stR k sel content _ _ _ _ hc haP), push_stR,
      step_end_up tk ev k sel content before cur a rest d]
    -- the reference edit
    congr 1
    rw [editNodeD_hit, editListD_append, editListD, editListD_free_child vt _ _ _ _ haP rest pre hpre,
      editListD_free_child vt _ _ _ _ haP rest post hpost]
    rw [rawsOf_tokensOfList vt hvt pre, rawsOf_tokensOfList vt hvt post]
    simp only [serialize, serializeList_append, serializeList, startTok, endTok]
    simp [List.append_assoc]

/-! ### the first path element is looked for anywhere in the document (append / prepend) -/

mutual
  /-- domain of a document for an append / prepend filter with path `p1 :: ps` (`P` = the path names):
  verbatim pieces and foreign elements carry no path name, every `p1` element satisfies `ChildDomAP` -/
  def AnyDomAP (P : List Bytes) (p1 : Bytes) (ps : List Bytes) : Node → Prop
    | .verb raw _ => ∀ t ∈ vt raw, NeutralTok P t
    | .el nm d at_ knd cs =>
      if nm = p1 then ChildDomAP tk k sel vt P ps p1 d at_ knd cs
      else nm ∉ P ∧
        (match knd with
         | .normal => AnyDomAPList P p1 ps cs
         | _ => True)
  def AnyDomAPList (P : List Bytes) (p1 : Bytes) (ps : List Bytes) : List Node → Prop
    | [] => True
    | n :: ns => AnyDomAP P p1 ps n ∧ AnyDomAPList P p1 ps ns
end

theorem neutral_of_name {P : List Bytes} {t : Tok} (h : t.name ∉ P) : NeutralTok P t := fun _ => h

theorem neutral_of_kind {P : List Bytes} {t : Tok} (h : isTagKind t.kind = false) : NeutralTok P t :=
  fun hk => by rw [h] at hk; cases hk

theorem neutral_textToks (P : List Bytes) (bs : Bytes) : ∀ t ∈ textToks bs, NeutralTok P t := by
  intro t ht
  unfold textToks at ht
  split at ht
  · cases ht
  · simp at ht; subst ht; exact neutral_of_kind (by simp [isTagKind])

mutual
  theorem any_AP (hk : k = .append ∨ k = .prepend) (hvt : VtLossless vt) {P : List Bytes} (m : List Bytes)
      (p1 : Bytes) (ps : List Bytes) (hp1 : p1 ∈ P) (hps : ∀ a ∈ ps, a ∈ P) :
      ∀ (n : Node) (out : Bytes), AnyDomAP tk k sel vt P p1 ps n →
        (tokensOf vt n).foldl (stepTok tk ev) (stG k sel content none [] p1 ps, out) =
          (stG k sel content none [] p1 ps,
            out ++ serialize (editNodeD (decOf ev) (opOf k) (selN sel) (.verb content m) p1 ps true n))
    | .verb raw mk, out, h => by
      have hS := stNames_stG k sel content (P := P) none [] p1 ps hp1 (fun n hn => by cases hn)
      simp only [AnyDomAP] at h
      rw [tokensOf, fold_neutral tk ev _ h _ _ hS, push_stG, hvt raw]
      simp [editNodeD, serialize]
    | .el nm d at_ knd cs, out, h => by
      have hS := stNames_stG k sel content (P := P) none [] p1 ps hp1 (fun n hn => by cases hn)
      unfold AnyDomAP at h
      by_cases hnm : nm = p1
      · subst hnm
        rw [if_pos rfl] at h
        have := elem_AP tk ev k sel content vt hk hvt m ps [] nm d at_ knd cs none out h hp1 hps
        rw [this]
        have e1 : stRet k sel content [] nm ps = stG k sel content none [] nm ps := rfl
        rw [e1]
        congr 2
        cases ps <;> simp [editNodeD]
      · rw [if_neg hnm] at h
        obtain ⟨hnP, hrec⟩ := h
        have hb : (nm == p1) = false := by
          cases hb : (nm == p1) with
          | false => rfl
          | true => exact absurd (beq_iff_eq.mp hb) hnm
        cases knd with
        | selfClosing =>
          have hn : ∀ t ∈ tokensOf vt (.el nm d at_ .selfClosing cs), NeutralTok P t := by
            intro t ht; simp [tokensOf] at ht; subst ht; exact neutral_of_name hnP
          rw [fold_neutral tk ev _ hn _ _ hS, push_stG, rawsOf_tokensOf vt hvt]
          simp [editNodeD, hb, serialize]
        | void =>
          have hn : ∀ t ∈ tokensOf vt (.el nm d at_ .void cs), NeutralTok P t := by
            intro t ht; simp [tokensOf] at ht; subst ht; exact neutral_of_name hnP
          rw [fold_neutral tk ev _ hn _ _ hS, push_stG, rawsOf_tokensOf vt hvt]
          simp [editNodeD, hb, serialize]
        | raw =>
          have hn : ∀ t ∈ tokensOf vt (.el nm d at_ .raw cs), NeutralTok P t := by
            intro t ht
            simp only [tokensOf, List.mem_cons, List.mem_append, List.not_mem_nil, or_false] at ht
            rcases ht with e | e | e
            · subst e; exact neutral_of_name hnP
            · exact neutral_textToks P _ t e
            · subst e; exact neutral_of_name hnP
          rw [fold_neutral tk ev _ hn _ _ hS, push_stG, rawsOf_tokensOf vt hvt]
          simp [editNodeD, hb]
        | normal =>
          simp only at hrec
          rw [tokensOf_el_normal, foldl_cons_append_single]
          have hst : NeutralTok P (startTok nm d at_) := neutral_of_name hnP
          have hen : NeutralTok P (endTok nm d) := neutral_of_name hnP
          rw [stepTok_neutral tk ev hS hst, push_stG,
            anyList_AP hk hvt m p1 ps hp1 hps cs _ hrec,
            stepTok_neutral tk ev hS hen, push_stG]
          congr 1
          simp [editNodeD, hb, serialize, startTok, endTok, List.append_assoc]
  theorem anyList_AP (hk : k = .append ∨ k = .prepend) (hvt : VtLossless vt) {P : List Bytes} (m : List Bytes)
      (p1 : Bytes) (ps : List Bytes) (hp1 : p1 ∈ P) (hps : ∀ a ∈ ps, a ∈ P) :
      ∀ (ns : List Node) (out : Bytes), AnyDomAPList tk k sel vt P p1 ps ns →
        (tokensOfList vt ns).foldl (stepTok tk ev) (stG k sel content none [] p1 ps, out) =
          (stG k sel content none [] p1 ps,
            out ++ serializeList (editListD (decOf ev) (opOf k) (selN sel) (.verb content m) p1 ps true ns))
    | [], out, _ => by simp [tokensOfList, editListD, serializeList]
    | n :: ns, out, h => by
      unfold AnyDomAPList at h
      rw [tokensOfList_cons, List.foldl_append, any_AP hk hvt m p1 ps hp1 hps n out h.1,
        anyList_AP hk hvt m p1 ps hp1 hps ns _ h.2]
      simp [editListD, serializeList, List.append_assoc]
end

/-! ### replace: the target element -/

/-- what the theorems ask of a replace target: a normal / raw-text element whose content carries no
path name, a void element (start tag only, void name), or a self-closing tag -/
def TargetR (P : List Bytes) (cur : Bytes) (knd : ElKind) (cs : List Node) : Prop :=
  match knd with
  | .normal => isVoid cur = false ∧ ∀ t ∈ innerToks vt .normal cs, NeutralTok P t
  | .raw => isVoid cur = false
  | .void => isVoid cur = true
  | .selfClosing => True

theorem repOut_eq (n : Node) (m : List Bytes) :
    repOut ev sel content (serialize n) =
      serialize (applyOpD (decOf ev) .replace (selN sel) (.verb content m) n) := by
  unfold repOut applyOpD
  cases hs : selOn sel with
  | false => rw [selN_of_off hs]; simp [serialize]
  | true =>
    rw [selN_of_on hs]
    simp only [Bool.not_true, Bool.false_or, Option.map_some, Option.getD_some, decOf]
    rcases Bool.eq_false_or_eq_true (ev (serialize n) (sel.getD [])) with h | h <;> simp [h, serialize]

theorem target_R (hvt : VtLossless vt) {P : List Bytes} {cur d at_ : Bytes} {knd : ElKind} {cs : List Node}
    (hcP : cur ∈ P) (h : TargetR vt P cur knd cs) (lv : Option Bytes) (before : List Bytes) (out : Bytes)
    (m : List Bytes) :
    (tokensOf vt (.el cur d at_ knd cs)).foldl (stepTok tk ev) (stG .replace sel content lv before cur [], out) =
      (stX .replace sel content before cur,
        out ++ serialize (applyOpD (decOf ev) .replace (selN sel) (.verb content m) (.el cur d at_ knd cs))) := by
  rw [← repOut_eq]
  cases knd with
  | selfClosing =>
    simp only [tokensOf, List.foldl_cons, List.foldl_nil]
    rw [rep_self]; simp [serialize, selfTok]
  | void =>
    simp only [tokensOf, List.foldl_cons, List.foldl_nil]
    rw [rep_void tk ev sel content lv before cur d at_ out h]; simp [serialize, startTok]
  | raw =>
    have hn : ∀ t ∈ innerToks vt .raw cs, NeutralTok P t := neutral_textToks P _
    rw [tokensOf_el_inner vt cur d at_ .raw cs (Or.inr rfl), foldl_cons_append_single,
      rep_start tk ev sel content lv before cur d at_ out h,
      fold_neutral tk ev _ hn _ _ (stNames_stB _ _ _ true before cur _ hcP), push_stB, rep_end,
      rawsOf_innerToks vt hvt, serialize_el_inner cur d at_ .raw cs (Or.inr rfl)]
  | normal =>
    rw [tokensOf_el_inner vt cur d at_ .normal cs (Or.inl rfl), foldl_cons_append_single,
      rep_start tk ev sel content lv before cur d at_ out h.1,
      fold_neutral tk ev _ h.2 _ _ (stNames_stB _ _ _ true before cur _ hcP), push_stB, rep_end,
      rawsOf_innerToks vt hvt, serialize_el_inner cur d at_ .normal cs (Or.inl rfl)]

/-- is the node an element named `cur`? -/
def hitB (cur : Bytes) : Node → Bool
  | .el nm _ _ _ _ => nm == cur
  | _ => false

/-- a list of siblings each of which is a replace target or free -/
def TargetsDom (P : List Bytes) (cur : Bytes) : List Node → Prop
  | [] => True
  | n :: ns =>
    (match n with
     | .el nm _ _ knd cs => if nm = cur then TargetR vt P cur knd cs else ∀ t ∈ tokensOf vt n, NeutralTok P t
     | .verb raw _ => ∀ t ∈ vt raw, NeutralTok P t) ∧ TargetsDom P cur ns

theorem stX_eq_stG (before : List Bytes) (cur : Bytes) :
    stX k sel content before cur = stG k sel content none before cur [] := rfl

/-- **repeated sibling targets are all replaced** (child semantics) -/
theorem targets_R (hvt : VtLossless vt) {P : List Bytes} {cur : Bytes} (hcP : cur ∈ P) (before : List Bytes)
    (m : List Bytes) :
    ∀ (ns : List Node) (lv : Option Bytes) (out : Bytes), (∀ n, lv = some n → n ∈ P) → TargetsDom vt P cur ns →
      (tokensOfList vt ns).foldl (stepTok tk ev) (stG .replace sel content lv before cur [], out) =
        ((if ns.any (hitB cur) then stX .replace sel content before cur
          else stG .replace sel content lv before cur []),
         out ++ serializeList (editListD (decOf ev) .replace (selN sel) (.verb content m) cur [] false ns))
  | [], lv, out, _, _ => by simp [tokensOfList, editListD, serializeList]
  | n :: ns, lv, out, hl, h => by
    obtain ⟨hn, hns⟩ := h
    rw [tokensOfList_cons, List.foldl_append]
    have hS := stNames_stG VKind.replace sel content (P := P) lv before cur [] hcP hl
    cases n with
    | verb raw mk =>
      simp only at hn
      rw [tokensOf, fold_neutral tk ev _ hn _ _ hS, push_stG, targets_R hvt hcP before m ns lv _ hl hns, hvt raw]
      simp [hitB, editListD, editNodeD, serializeList, serialize, List.append_assoc]
    | el nm d at_ knd cs =>
      simp only at hn
      by_cases hnm : nm = cur
      · subst hnm
        rw [if_pos rfl] at hn
        rw [target_R tk ev sel content vt hvt hcP hn lv before out m, stX_eq_stG,
          targets_R hvt hcP before m ns none _ (fun _ h => by cases h) hns]
        simp [hitB, editListD, editNodeD_target, serializeList, List.append_assoc, stX_eq_stG]
      · rw [if_neg hnm] at hn
        have hb : (nm == cur) = false := by
          cases hb : (nm == cur) with
          | false => rfl
          | true => exact absurd (beq_iff_eq.mp hb) hnm
        rw [fold_neutral tk ev _ hn _ _ hS, push_stG, targets_R hvt hcP before m ns lv _ hl hns,
          rawsOf_tokensOf vt hvt]
        simp [hitB, hb, editListD, editNodeD, serializeList, List.append_assoc]

/-! ### replace: an element of the path and everything below it -/

/-- where the zipper ends up when it has been advanced to the last path element -/
def zEndBefore : List Bytes → Bytes → List Bytes → List Bytes
  | before, _, [] => before
  | before, cur, a :: rest => zEndBefore (cur :: before) a rest

def zEndCur : Bytes → List Bytes → Bytes
  | cur, [] => cur
  | _, a :: rest => zEndCur a rest

theorem zEndCur_mem : ∀ (cur : Bytes) (after : List Bytes), zEndCur cur after ∈ cur :: after
  | cur, [] => by simp [zEndCur]
  | cur, a :: rest => by
    have := zEndCur_mem a rest
    simp only [zEndCur]
    exact List.mem_cons_of_mem _ this

def ChildDomR (P : List Bytes) : List Bytes → Bytes → ElKind → List Node → Prop
  | [], cur, knd, cs => TargetR vt P cur knd cs
  | [a], cur, knd, cs =>
    knd = .normal ∧ isVoid cur = false ∧ TargetsDom vt P a cs ∧ cs.any (hitB a) = true
  | a :: r :: rs, cur, knd, cs =>
    knd = .normal ∧ isVoid cur = false ∧
    ∃ pre d' at' knd' cs' post, cs = pre ++ Node.el a d' at' knd' cs' :: post ∧
      FreeL vt P pre ∧ FreeL vt P post ∧ ChildDomR P (r :: rs) a knd' cs'

theorem NeutralTok.mono {P Q : List Bytes} {t : Tok} (h : NeutralTok P t) (hq : ∀ x ∈ Q, x ∈ P) :
    NeutralTok Q t := fun hk hm => h hk (hq _ hm)

theorem stNames_stX (before : List Bytes) (cur : Bytes) : StNames [cur] (stX k sel content before cur) :=
  ⟨fun n h => by simp [stX, stG] at h; simp [h], fun n h => by simp [stX, stG] at h,
   fun l h => by simp [stX, stG] at h⟩

theorem push_stX (before : List Bytes) (cur out d : Bytes) :
    push (stX k sel content before cur) out d = (stX k sel content before cur, out ++ d) := by
  simp [push, stX, stG]

theorem elem_R (hvt : VtLossless vt) {P : List Bytes} (m : List Bytes) :
    ∀ (after before : List Bytes) (cur d at_ : Bytes) (knd : ElKind) (cs : List Node) (lv : Option Bytes)
      (out : Bytes), ChildDomR vt P after cur knd cs → cur ∈ P → (∀ a ∈ after, a ∈ P) →
      (cur :: after).Nodup → (∀ n, lv = some n → n ∈ P) →
      (tokensOf vt (.el cur d at_ knd cs)).foldl (stepTok tk ev) (stG .replace sel content lv before cur after, out) =
        (stX .replace sel content (zEndBefore before cur after) (zEndCur cur after),
          out ++ serialize (editNodeD (decOf ev) .replace (selN sel) (.verb content m) cur after false
            (.el cur d at_ knd cs)))
  | [], before, cur, d, at_, knd, cs, lv, out, h, hc, _, _, _ => by
    rw [target_R tk ev sel content vt hvt hc h lv before out m, editNodeD_target]
    rfl
  | [a], before, cur, d, at_, knd, cs, lv, out, h, hc, ha, hnd, _ => by
    obtain ⟨hknd, hvoid, htd, hany⟩ := h
    subst hknd
    have haP : a ∈ P := ha a (by simp)
    have hne : cur ≠ a := by
      intro e; subst e; simp at hnd
    rw [tokensOf_el_normal, foldl_cons_append_single,
      step_start_down tk ev .replace sel content lv before cur a [] d at_ out hvoid]
    have hS : stS VKind.replace sel content (cur :: before) a [] =
        stG VKind.replace sel content (some cur) (cur :: before) a [] := rfl
    rw [hS, targets_R tk ev sel content vt hvt haP (cur :: before) m cs (some cur) _
      (fun n hn => by simp at hn; exact hn ▸ hc) htd, hany]
    simp only [if_true]
    have hen : NeutralTok [a] (endTok cur d) := neutral_of_name (by simp [endTok, hne])
    rw [stepTok_neutral tk ev (stNames_stX _ _ _ _ _) hen, push_stX, editNodeD_hit]
    simp [zEndBefore, zEndCur, serialize, startTok, endTok, List.append_assoc]
  | a :: r :: rs, before, cur, d, at_, knd, cs, lv, out, h, hc, ha, hnd, _ => by
    obtain ⟨hknd, hvoid, pre, d', at', knd', cs', post, hcs, hpre, hpost, hch⟩ := h
    subst hknd
    subst hcs
    have haP : a ∈ P := ha a (by simp)
    have hnd' : (a :: r :: rs).Nodup := (List.nodup_cons.mp hnd).2
    have htm := zEndCur_mem a (r :: rs)
    have htP : zEndCur a (r :: rs) ∈ P := ha _ htm
    have hne : cur ≠ zEndCur a (r :: rs) := by
      intro e; exact (List.nodup_cons.mp hnd).1 (e ▸ htm)
    rw [tokensOf_el_normal, foldl_cons_append_single,
      step_start_down tk ev .replace sel content lv before cur a (r :: rs) d at_ out hvoid]
    rw [tokensOfList_append, tokensOfList_cons, List.foldl_append, List.foldl_append]
    have hS : stS VKind.replace sel content (cur :: before) a (r :: rs) =
        stG VKind.replace sel content (some cur) (cur :: before) a (r :: rs) := rfl
    rw [hS, fold_neutral tk ev _ hpre _ _ (stNames_stG VKind.replace sel content _ _ _ _ haP
      (fun n hn => by simp at hn; exact hn ▸ hc)), push_stG]
    rw [elem_R hvt m (r :: rs) (cur :: before) a d' at' knd' cs' (some cur) _ hch haP
      (fun x hx => ha x (List.mem_cons_of_mem _ hx)) hnd' (fun n hn => by simp at hn; exact hn ▸ hc)]
    have hpost' : ∀ t ∈ tokensOfList vt post, NeutralTok [zEndCur a (r :: rs)] t :=
      fun t ht => (hpost t ht).mono (fun x hx => by simp at hx; exact hx ▸ htP)
    rw [fold_neutral tk ev _ hpost' _ _ (stNames_stX _ _ _ _ _), push_stX]
    have hen : NeutralTok [zEndCur a (r :: rs)] (endTok cur d) :=
      neutral_of_name (by simp [endTok, hne])
    rw [stepTok_neutral tk ev (stNames_stX _ _ _ _ _) hen, push_stX]
    congr 1
    rw [editNodeD_hit (decOf ev) .replace (selN sel) (.verb content m) cur a (r :: rs) false d at_ .normal,
      editListD_append, editListD, editListD_free_child vt _ _ _ _ haP (r :: rs) pre hpre,
      editListD_free_child vt _ _ _ _ haP (r :: rs) post hpost]
    rw [rawsOf_tokensOfList vt hvt pre, rawsOf_tokensOfList vt hvt post]
    simp only [serialize, serializeList_append, serializeList, startTok, endTok]
    simp [List.append_assoc]

/-! ### searching the first path element: generic lemmas -/

mutual
  /-- the reference edit (anywhere semantics) does not change the bytes of a free subtree -/
  theorem ser_edit_free (dec : Node → Bytes → Bool) (op : EditOp) (s' : Option Bytes) (ins : Node)
      {P : List Bytes} {p : Bytes} (hp : p ∈ P) (ps : List Bytes) :
      ∀ n : Node, (∀ t ∈ tokensOf vt n, NeutralTok P t) →
        serialize (editNodeD dec op s' ins p ps true n) = serialize n
    | .verb r m, _ => by simp [editNodeD]
    | .el nm d a knd cs, h => by
      have hnm : nm ∉ P := name_not_mem_of_free vt h
      have hb : (nm == p) = false := by
        cases hb : (nm == p) with
        | false => rfl
        | true => exact absurd ((beq_iff_eq.mp hb) ▸ hp) hnm
      cases knd with
      | selfClosing => simp [editNodeD, hb, serialize]
      | void => simp [editNodeD, hb, serialize]
      | raw => simp [editNodeD, hb]
      | normal =>
        have hcs : FreeL vt P cs := by
          intro t ht
          apply h t
          rw [tokensOf_el_normal]
          exact List.mem_cons_of_mem _ (List.mem_append_left _ ht)
        simp only [editNodeD, hb, Bool.false_eq_true, if_false, Bool.true_and, bne_iff_ne, ne_eq,
          reduceCtorEq, not_false_eq_true, decide_true, if_true, serialize,
          ser_edit_free_list dec op s' ins hp ps cs hcs]
  theorem ser_edit_free_list (dec : Node → Bytes → Bool) (op : EditOp) (s' : Option Bytes) (ins : Node)
      {P : List Bytes} {p : Bytes} (hp : p ∈ P) (ps : List Bytes) :
      ∀ ns : List Node, FreeL vt P ns →
        serializeList (editListD dec op s' ins p ps true ns) = serializeList ns
    | [], _ => by simp [editListD]
    | n :: ns, h => by
      simp only [editListD, serializeList, ser_edit_free dec op s' ins hp ps n (FreeL.cons_head vt h),
        ser_edit_free_list dec op s' ins hp ps ns (FreeL.cons_tail vt h)]
end

section generic
variable (dec : Node → Bytes → Bool) (op : EditOp) (s' : Option Bytes) (ins : Node)
variable (P : List Bytes) (p1 : Bytes) (ps : List Bytes)
variable (Hit : Bytes → Bytes → ElKind → List Node → Prop)

mutual
  /-- every `p1` element (outside other `p1` elements and raw text) satisfies `Hit`, nothing else carries a path name -/
  def AnyDomG : Node → Prop
    | .verb raw _ => ∀ t ∈ vt raw, NeutralTok P t
    | .el nm d at_ knd cs =>
      if nm = p1 then Hit d at_ knd cs
      else nm ∉ P ∧
        (match knd with
         | .normal => AnyDomGList cs
         | _ => True)
  def AnyDomGList : List Node → Prop
    | [] => True
    | n :: ns => AnyDomG n ∧ AnyDomGList ns
end

mutual
  /-- exactly one `p1` element, satisfying `Hit`; everything else is free -/
  def OneHit : Node → Prop
    | .verb _ _ => False
    | .el nm d at_ knd cs =>
      if nm = p1 then Hit d at_ knd cs
      else nm ∉ P ∧ knd = .normal ∧ OneHitL cs
  def OneHitL : List Node → Prop
    | [] => False
    | n :: ns => (OneHit n ∧ FreeL vt P ns) ∨ ((∀ t ∈ tokensOf vt n, NeutralTok P t) ∧ OneHitL ns)
end

variable {A B : HtmlSt} {Q : List Bytes}
variable (hvt : VtLossless vt) (hp1 : p1 ∈ P)
variable (hA : StNames P A) (pushA : ∀ out d, push A out d = (A, out ++ d))
variable (hB : StNames Q B) (pushB : ∀ out d, push B out d = (B, out ++ d)) (hQ : ∀ x ∈ Q, x ∈ P)
variable (hhit : ∀ (d at_ : Bytes) (knd : ElKind) (cs : List Node) (out : Bytes), Hit d at_ knd cs →
  (tokensOf vt (.el p1 d at_ knd cs)).foldl (stepTok tk ev) (A, out) =
    (B, out ++ serialize (editNodeD dec op s' ins p1 ps true (.el p1 d at_ knd cs))))

include hvt hp1 hA pushA hB pushB hQ hhit in
mutual
  theorem onehit_gen : ∀ (n : Node) (out : Bytes), OneHit vt P p1 Hit n →
      (tokensOf vt n).foldl (stepTok tk ev) (A, out) =
        (B, out ++ serialize (editNodeD dec op s' ins p1 ps true n))
    | .verb _ _, _, h => by simp [OneHit] at h
    | .el nm d at_ knd cs, out, h => by
      unfold OneHit at h
      by_cases hnm : nm = p1
      · subst hnm
        rw [if_pos rfl] at h
        exact hhit d at_ knd cs out h
      · rw [if_neg hnm] at h
        obtain ⟨hnP, hknd, hrec⟩ := h
        subst hknd
        have hb : (nm == p1) = false := by
          cases hb : (nm == p1) with
          | false => rfl
          | true => exact absurd (beq_iff_eq.mp hb) hnm
        rw [tokensOf_el_normal, foldl_cons_append_single]
        have hst : NeutralTok P (startTok nm d at_) := neutral_of_name hnP
        have hen : NeutralTok Q (endTok nm d) := neutral_of_name (fun hm => hnP (hQ _ hm))
        rw [stepTok_neutral tk ev hA hst, pushA, onehitL_gen cs _ hrec,
          stepTok_neutral tk ev hB hen, pushB]
        congr 1
        simp [editNodeD, hb, serialize, startTok, endTok, List.append_assoc]
  theorem onehitL_gen : ∀ (ns : List Node) (out : Bytes), OneHitL vt P p1 Hit ns →
      (tokensOfList vt ns).foldl (stepTok tk ev) (A, out) =
        (B, out ++ serializeList (editListD dec op s' ins p1 ps true ns))
    | [], _, h => by simp [OneHitL] at h
    | n :: ns, out, h => by
      unfold OneHitL at h
      rw [tokensOfList_cons, List.foldl_append]
      rcases h with ⟨h1, h2⟩ | ⟨h1, h2⟩
      · have h2' : ∀ t ∈ tokensOfList vt ns, NeutralTok Q t := fun t ht => (h2 t ht).mono hQ
        rw [onehit_gen n out h1, fold_neutral tk ev _ h2' _ _ hB, pushB]
        simp only [editListD, serializeList, ser_edit_free_list vt dec op s' ins hp1 ps ns h2,
          rawsOf_tokensOfList vt hvt, List.append_assoc]
      · rw [fold_neutral tk ev _ h1 _ _ hA, pushA, onehitL_gen ns _ h2]
        simp only [editListD, serializeList, ser_edit_free vt dec op s' ins hp1 ps n h1,
          rawsOf_tokensOf vt hvt, List.append_assoc]
end

variable (hhitA : ∀ (d at_ : Bytes) (knd : ElKind) (cs : List Node) (out : Bytes), Hit d at_ knd cs →
  (tokensOf vt (.el p1 d at_ knd cs)).foldl (stepTok tk ev) (A, out) =
    (A, out ++ serialize (editNodeD dec op s' ins p1 ps true (.el p1 d at_ knd cs))))

include hvt hp1 hA pushA hhitA in
mutual
  theorem any_gen : ∀ (n : Node) (out : Bytes), AnyDomG vt P p1 Hit n →
      (tokensOf vt n).foldl (stepTok tk ev) (A, out) =
        (A, out ++ serialize (editNodeD dec op s' ins p1 ps true n))
    | .verb raw mk, out, h => by
      simp only [AnyDomG] at h
      rw [tokensOf, fold_neutral tk ev _ h _ _ hA, pushA, hvt raw]
      simp [editNodeD, serialize]
    | .el nm d at_ knd cs, out, h => by
      unfold AnyDomG at h
      by_cases hnm : nm = p1
      · subst hnm
        rw [if_pos rfl] at h
        exact hhitA d at_ knd cs out h
      · rw [if_neg hnm] at h
        obtain ⟨hnP, hrec⟩ := h
        have hb : (nm == p1) = false := by
          cases hb : (nm == p1) with
          | false => rfl
          | true => exact absurd (beq_iff_eq.mp hb) hnm
        cases knd with
        | selfClosing =>
          have hn : ∀ t ∈ tokensOf vt (.el nm d at_ .selfClosing cs), NeutralTok P t := by
            intro t ht; simp [tokensOf] at ht; subst ht; exact neutral_of_name hnP
          rw [fold_neutral tk ev _ hn _ _ hA, pushA, rawsOf_tokensOf vt hvt]
          simp [editNodeD, hb, serialize]
        | void =>
          have hn : ∀ t ∈ tokensOf vt (.el nm d at_ .void cs), NeutralTok P t := by
            intro t ht; simp [tokensOf] at ht; subst ht; exact neutral_of_name hnP
          rw [fold_neutral tk ev _ hn _ _ hA, pushA, rawsOf_tokensOf vt hvt]
          simp [editNodeD, hb, serialize]
        | raw =>
          have hn : ∀ t ∈ tokensOf vt (.el nm d at_ .raw cs), NeutralTok P t := by
            intro t ht
            simp only [tokensOf, List.mem_cons, List.mem_append, List.not_mem_nil, or_false] at ht
            rcases ht with e | e | e
            · subst e; exact neutral_of_name hnP
            · exact neutral_textToks P _ t e
            · subst e; exact neutral_of_name hnP
          rw [fold_neutral tk ev _ hn _ _ hA, pushA, rawsOf_tokensOf vt hvt]
          simp [editNodeD, hb]
        | normal =>
          simp only at hrec
          rw [tokensOf_el_normal, foldl_cons_append_single]
          have hst : NeutralTok P (startTok nm d at_) := neutral_of_name hnP
          have hen : NeutralTok P (endTok nm d) := neutral_of_name hnP
          rw [stepTok_neutral tk ev hA hst, pushA, anyList_gen cs _ hrec,
            stepTok_neutral tk ev hA hen, pushA]
          congr 1
          simp [editNodeD, hb, serialize, startTok, endTok, List.append_assoc]
  theorem anyList_gen : ∀ (ns : List Node) (out : Bytes), AnyDomGList vt P p1 Hit ns →
      (tokensOfList vt ns).foldl (stepTok tk ev) (A, out) =
        (A, out ++ serializeList (editListD dec op s' ins p1 ps true ns))
    | [], out, _ => by simp [tokensOfList, editListD, serializeList]
    | n :: ns, out, h => by
      unfold AnyDomGList at h
      rw [tokensOfList_cons, List.foldl_append, any_gen n out h.1, anyList_gen ns _ h.2]
      simp [editListD, serializeList, List.append_assoc]
end

end generic

/-! ### running one html filter over a token list -/

/-- the token loop of `filter` over all tokens, then `end()` -/
def runToks (v : Visitor) (toks : List Tok) : Bytes :=
  (toks.foldl (stepTok tk ev) (HtmlSt.new v, [])).2 ++ endHtml (toks.foldl (stepTok tk ev) (HtmlSt.new v, [])).1

theorem new_eq_stG (p1 : Bytes) (ps : List Bytes) :
    HtmlSt.new (vis k sel content [] p1 ps false) = stG k sel content none [] p1 ps := rfl

theorem endHtml_stG (lv : Option Bytes) (before : List Bytes) (cur : Bytes) (after : List Bytes) :
    endHtml (stG k sel content lv before cur after) = [] := rfl

theorem runToks_AP (hk : k = .append ∨ k = .prepend) (hvt : VtLossless vt) {P : List Bytes} (m : List Bytes)
    (p1 : Bytes) (ps : List Bytes) (hp1 : p1 ∈ P) (hps : ∀ a ∈ ps, a ∈ P) (doc : List Node)
    (h : AnyDomAPList tk k sel vt P p1 ps doc) :
    runToks tk ev (vis k sel content [] p1 ps false) (tokensOfList vt doc) =
      serializeList (editListD (decOf ev) (opOf k) (selN sel) (.verb content m) p1 ps true doc) := by
  unfold runToks
  rw [new_eq_stG, anyList_AP tk ev k sel content vt hk hvt m p1 ps hp1 hps doc [] h, endHtml_stG]
  simp

/-! ### replace: the whole document -/

/-- replace with a one-element path: every (non-nested) occurrence anywhere is a target -/
theorem runToks_R1 (hvt : VtLossless vt) (m : List Bytes) (p1 : Bytes) (doc : List Node)
    (h : AnyDomGList vt [p1] p1 (fun _ _ knd cs => TargetR vt [p1] p1 knd cs) doc) :
    runToks tk ev (vis .replace sel content [] p1 [] false) (tokensOfList vt doc) =
      serializeList (editListD (decOf ev) .replace (selN sel) (.verb content m) p1 [] true doc) := by
  unfold runToks
  rw [new_eq_stG]
  have hA := stNames_stG VKind.replace sel content (P := [p1]) none [] p1 [] (by simp) (fun _ h => by cases h)
  rw [anyList_gen tk ev vt (decOf ev) .replace (selN sel) (.verb content m) [p1] p1 []
    (fun _ _ knd cs => TargetR vt [p1] p1 knd cs) hvt (by simp) hA (push_stG _ _ _ _ _ _ _)
    (fun d at_ knd cs out hh => by
      rw [target_R tk ev sel content vt hvt (by simp) hh none [] out m, editNodeD_target]; rfl)
    doc [] h, endHtml_stG]
  simp

/-- replace with a longer path: the first path element occurs once, its descendants along the path
once each, the last one any number of times as children of the last but one -/
theorem runToks_Rn (hvt : VtLossless vt) (m : List Bytes) (p1 a : Bytes) (rest : List Bytes)
    (hnd : (p1 :: a :: rest).Nodup) (doc : List Node)
    (h : OneHitL vt (p1 :: a :: rest) p1
      (fun _ _ knd cs => ChildDomR vt (p1 :: a :: rest) (a :: rest) p1 knd cs) doc) :
    runToks tk ev (vis .replace sel content [] p1 (a :: rest) false) (tokensOfList vt doc) =
      serializeList (editListD (decOf ev) .replace (selN sel) (.verb content m) p1 (a :: rest) true doc) := by
  unfold runToks
  rw [new_eq_stG]
  have hA := stNames_stG VKind.replace sel content (P := p1 :: a :: rest) none [] p1 (a :: rest)
    (by simp) (fun _ h => by cases h)
  have htm : zEndCur p1 (a :: rest) ∈ p1 :: a :: rest := zEndCur_mem p1 (a :: rest)
  rw [onehitL_gen tk ev vt (decOf ev) .replace (selN sel) (.verb content m) (p1 :: a :: rest) p1 (a :: rest)
    (fun _ _ knd cs => ChildDomR vt (p1 :: a :: rest) (a :: rest) p1 knd cs)
    (A := stG .replace sel content none [] p1 (a :: rest))
    (B := stX .replace sel content (zEndBefore [] p1 (a :: rest)) (zEndCur p1 (a :: rest)))
    (Q := [zEndCur p1 (a :: rest)])
    hvt (by simp) hA (push_stG _ _ _ _ _ _ _) (stNames_stX _ _ _ _ _) (push_stX _ _ _ _ _)
    (fun x hx => by simp at hx; exact hx ▸ htm)
    (fun d at_ knd cs out hh => by
      rw [elem_R tk ev sel content vt hvt m (a :: rest) [] p1 d at_ knd cs none out hh (by simp)
        (fun x hx => List.mem_cons_of_mem _ hx) hnd (fun _ h => by cases h)]
      congr 2
      simp [editNodeD])
    doc [] h]
  simp [endHtml, stX, stG]


/-! ### glue: the chain model fed the whole document as one chunk -/

/-- one html stage processes the whole input `x` in one `filter` call, emits `y` and holds nothing afterwards.
Since fe7eac6 `filter` runs the STREAM tokenizer (`new_fragment(data, last_context)`, here with the empty context of a
fresh stage) and stops at the first token that the end of the data cut short (`isCut`): none may be. -/
structure StageOK (v : Visitor) (x y : Bytes) : Prop where
  utf8 : utf8Split x = some (x, [])
  rest : (tk.stream [] x).2.1 = []
  noCut : ∀ t ∈ (tk.stream [] x).1, isCut t = false
  noHeld : splitHeld (toksOf (tk.stream [] x).1) = (toksOf (tk.stream [] x).1, [])
  run : ∃ s, (toksOf (tk.stream [] x).1).foldl (stepTok tk ev) (HtmlSt.new v, []) = (s, y) ∧ s.stack = []

theorem cutSplit_of_noCut : ∀ (xs : List TokX), (∀ t ∈ xs, isCut t = false) → cutSplit xs = (xs, [])
  | [], _ => rfl
  | x :: xs, h => by
    have ih := cutSplit_of_noCut xs (fun t ht => h t (List.mem_cons_of_mem _ ht))
    have hx : isCut x = false := h x (by simp)
    unfold cutSplit at ih ⊢
    simp only [Prod.mk.injEq] at ih
    simp [List.takeWhile_cons, List.dropWhile_cons, hx, ih.1, ih.2]

/-- a stage that holds nothing: `end()` returns nothing -/
def CleanStage (st : Stage Unit Unit) : Prop :=
  match st with
  | .html s => endHtml s = []
  | _ => False

theorem stage_filter_ok {v : Visitor} {x y : Bytes} (h : StageOK tk ev v x y) :
    ∃ s', filterHtml tk ev (HtmlSt.new v) x = some (s', y) ∧ endHtml s' = [] := by
  obtain ⟨s, hrun, hst⟩ := h.run
  have hcs := cutSplit_of_noCut (tk.stream [] x).1 h.noCut
  have hv1 : (view tk [] x).todo = toksOf (tk.stream [] x).1 := by
    unfold view
    simp only [hcs, List.isEmpty_nil, if_true, h.noHeld]
  have hv2 : (view tk [] x).tail = [] := by
    unfold view
    simp only [hcs, List.isEmpty_nil, if_true, h.noHeld, h.rest]
    simp [toksOf, rawsOf]
  refine ⟨{ s with last := [], ctx := (view tk [] x).ctx' }, ?_, ?_⟩
  · rw [filterHtml_view]
    have hl : (HtmlSt.new v).last = [] := rfl
    have hc : (HtmlSt.new v).ctx = [] := rfl
    rw [hl, hc, List.nil_append, h.utf8]
    simp only [hv1, hv2, hrun, List.append_nil]
  · simp [endHtml, hst]

/-- the stages of a list of visitors -/
def stagesOf (vs : List Visitor) : List (Stage Unit Unit) := vs.map fun v => .html (HtmlSt.new v)

/-- the visitors process `x` one after the other, every stage in one call, ending with `y` -/
def Chained : List Visitor → Bytes → Bytes → Prop
  | [], x, y => x = y
  | v :: vs, x, y => ∃ z, StageOK tk ev v x z ∧ (vs ≠ [] → z ≠ []) ∧ Chained vs z y

theorem cleanStage_new (v : Visitor) : CleanStage (.html (HtmlSt.new v)) := by
  simp [CleanStage, endHtml, HtmlSt.new]

theorem doFilter_chained : ∀ (vs : List Visitor) (x y : Bytes), Chained tk ev vs x y →
    ∃ items', doFilter tk ev noCodec (stagesOf vs) x = (items', some y) ∧ ∀ st ∈ items', CleanStage st
  | [], x, y, h => by
    simp only [Chained] at h
    subst h
    exact ⟨[], by simp [stagesOf, doFilter], fun _ h => by cases h⟩
  | v :: vs, x, y, h => by
    obtain ⟨z, hok, hne, hch⟩ := h
    obtain ⟨s', hf, hclean⟩ := stage_filter_ok tk ev hok
    have hstage : Stage.filter tk ev noCodec (Stage.html (HtmlSt.new v) : Stage Unit Unit) x =
        some (.html s', z) := by simp [Stage.filter, hf]
    cases vs with
    | nil =>
      simp only [Chained] at hch
      subst hch
      refine ⟨[.html s'], ?_, ?_⟩
      · simp only [stagesOf, List.map_cons, List.map_nil, doFilter, hstage]
        cases z <;> simp [doFilter]
      · intro st hst; simp at hst; subst hst; exact hclean
    | cons w ws =>
      have hz : z ≠ [] := hne (by simp)
      obtain ⟨items', hd, hcl⟩ := doFilter_chained (w :: ws) z y hch
      refine ⟨.html s' :: items', ?_, ?_⟩
      · have : z.isEmpty = false := by cases z <;> simp_all
        simp only [stagesOf, List.map_cons] at hd ⊢
        rw [doFilter]
        simp only [hstage, this, Bool.false_eq_true, if_false]
        rw [hd]
      · intro st hst
        rcases List.mem_cons.mp hst with e | e
        · subst e; exact hclean
        · exact hcl st e

theorem doEnd_clean : ∀ (items : List (Stage Unit Unit)), (∀ st ∈ items, CleanStage st) →
    doEnd tk ev noCodec items none = (items, .ok none)
  | [], _ => by simp [doEnd]
  | st :: rest, h => by
    have hst := h st (by simp)
    cases st with
    | html s =>
      simp only [CleanStage] at hst
      have : Stage.endWith tk ev noCodec (Stage.html s : Stage Unit Unit) none = (.html s, some []) := by
        simp [Stage.endWith, Stage.end, hst]
      simp only [doEnd, this, List.isEmpty_nil, if_true,
        doEnd_clean rest (fun x hx => h x (List.mem_cons_of_mem _ hx))]
    | text _ => simp [CleanStage] at hst
    | decode _ => simp [CleanStage] at hst
    | encode _ => simp [CleanStage] at hst

/-- **the chain model, fed the whole document as one chunk, emits what the stages emit one after the other** -/
theorem chain_run_chained (vs : List Visitor) (x y : Bytes) (h : Chained tk ev vs x y) :
    (({ items := stagesOf vs } : Chain Unit Unit).run tk ev noCodec [x]) = y := by
  obtain ⟨items', hd, hcl⟩ := doFilter_chained tk ev vs x y h
  simp only [Chain.run, Chain.runOuts, Chain.feed, Chain.filter, Bool.false_eq_true, if_false, hd,
    Chain.end, doEnd_clean tk ev items' hcl]
  simp

/-- the visitors of a list of html filters -/
def VisitorsOf : List BodyFilter → List Visitor → Prop
  | [], [] => True
  | f :: fs, v :: vs => (∃ a p s c, f = BodyFilter.html a p s c ∧ Visitor.new a p s c = some v) ∧ VisitorsOf fs vs
  | _, _ => False

/-- `FilterBodyAction::new` without headers on html filters whose visitors exist -/
theorem chain_new_html (lower : String → String) :
    ∀ (fs : List BodyFilter) (vs : List Visitor), VisitorsOf fs vs →
      (Chain.new noCodec lower fs [] : Chain Unit Unit) = { items := stagesOf vs } := by
  intro fs vs h
  have hfm : ∀ (fs : List BodyFilter) (vs : List Visitor), VisitorsOf fs vs →
      (fs.filterMap fun f => (Stage.new f none : Option (Stage Unit Unit))) = stagesOf vs := by
    intro fs
    induction fs with
    | nil => intro vs h; cases vs with
      | nil => rfl
      | cons _ _ => simp [VisitorsOf] at h
    | cons f fs ih =>
      intro vs h
      cases vs with
      | nil => simp [VisitorsOf] at h
      | cons v vs =>
        obtain ⟨⟨a, p, s', c, rfl, hv⟩, hrest⟩ := h
        have := ih vs hrest
        have h1 : (Stage.new (BodyFilter.html a p s' c) none : Option (Stage Unit Unit)) =
            some (.html (HtmlSt.new v)) := by
          simp [Stage.new, htmlAllowed, hv]
        rw [List.filterMap_cons, h1]
        simp only [this, stagesOf, List.map_cons]
  unfold Chain.new
  simp only [headerValue, List.foldl_nil, hfm fs vs h]
  split <;> rfl

/-! ### the Content-Type gate of `FilterBodyAction::new` -/

theorem stage_new_allowed {D E : Type} (f : BodyFilter) (ct : Option String) (h : htmlAllowed ct = true) :
    (Stage.new f ct : Option (Stage D E)) = Stage.new f none := by
  cases f with
  | html a p s' v =>
    have h0 : htmlAllowed none = true := rfl
    simp only [Stage.new, h, h0]
  | text a c => rfl

/-- the gate is open (no Content-Type header, or one whose lower-cased value contains `text/html`) and there is no
Content-Encoding header: the chain is the one built without headers -/
theorem chain_new_gate_open {D E : Type} (codec : Codec D E) (lower : String → String) (fs : List BodyFilter)
    (headers : List (String × String))
    (hct : htmlAllowed (headerValue lower Rio.Consts.filterHeaderContentType headers) = true)
    (hce : headerValue lower Rio.Consts.filterHeaderContentEncoding headers = none) :
    (Chain.new codec lower fs headers : Chain D E) = Chain.new codec lower fs [] := by
  have hl : (fs.filterMap fun f => (Stage.new f (headerValue lower Rio.Consts.filterHeaderContentType headers) :
      Option (Stage D E))) = fs.filterMap fun f => (Stage.new f none : Option (Stage D E)) := by
    congr 1
    funext f
    exact stage_new_allowed f _ hct
  have hn : ∀ name, headerValue lower name [] = none := fun _ => rfl
  unfold Chain.new
  simp only [hce, hl, hn]

section
variable {D E : Type} (codec : Codec D E)

theorem feed_empty_chain : ∀ (chunks : List Bytes),
    (({ items := [] } : Chain D E).feed tk ev codec chunks) = ({ items := [] }, chunks)
  | [] => rfl
  | x :: xs => by
    simp only [Chain.feed, Chain.filter, doFilter, Bool.false_eq_true, if_false, feed_empty_chain xs]

/-- a chain without stages copies its input -/
theorem run_empty_chain (chunks : List Bytes) :
    (({ items := [] } : Chain D E).run tk ev codec chunks) = chunks.flatten := by
  simp [Chain.run, Chain.runOuts, feed_empty_chain, Chain.end, doEnd]

/-- the gate is closed (a Content-Type whose lower-cased value does not contain `text/html`): html filters build no
stage and the body passes unchanged, whatever the chunking and the encoding -/
theorem chain_gate_closed (lower : String → String) (fs : List BodyFilter) (headers : List (String × String))
    (hfs : ∀ f ∈ fs, ∃ a p s v, f = BodyFilter.html a p s v)
    (hct : htmlAllowed (headerValue lower Rio.Consts.filterHeaderContentType headers) = false)
    (chunks : List Bytes) :
    (Chain.new codec lower fs headers : Chain D E).run tk ev codec chunks = chunks.flatten := by
  have hl : (fs.filterMap fun f => (Stage.new f (headerValue lower Rio.Consts.filterHeaderContentType headers) :
      Option (Stage D E))) = [] := by
    rw [List.filterMap_eq_nil_iff]
    intro f hf
    obtain ⟨a, p, s', v, rfl⟩ := hfs f hf
    simp [Stage.new, hct]
  have : (Chain.new codec lower fs headers : Chain D E) = { items := [] } := by
    unfold Chain.new
    simp only [hl, List.isEmpty_nil, if_true]
  rw [this]
  exact run_empty_chain tk ev codec chunks

end

/-! ### from the token-level specifications to `StageOK` -/

/-- the stream tokenizer (fresh stage: empty context) sees the serialised document as its token list, leaves nothing,
no token is cut short by the end of the data (a final plain text does not count: `isCut`), the bytes are valid UTF-8
and the last token is not a text holding `<` (which `filter` would keep back until `end`) -/
structure TokAgree (doc : List Node) : Prop where
  toks : toksOf (tk.stream [] (serializeList doc)).1 = tokensOfList vt doc
  rest : (tk.stream [] (serializeList doc)).2.1 = []
  noCut : ∀ x ∈ (tk.stream [] (serializeList doc)).1, isCut x = false
  utf8 : utf8Split (serializeList doc) = some (serializeList doc, [])
  noHeld : splitHeld (tokensOfList vt doc) = (tokensOfList vt doc, [])

theorem stageOK_of_fold {v : Visitor} {doc : List Node} {s : HtmlSt} {y : Bytes} (ha : TokAgree tk vt doc)
    (hf : (tokensOfList vt doc).foldl (stepTok tk ev) (HtmlSt.new v, []) = (s, y)) (hs : s.stack = []) :
    StageOK tk ev v (serializeList doc) y := by
  refine ⟨ha.utf8, ha.rest, ha.noCut, by rw [ha.toks]; exact ha.noHeld, ⟨s, by rw [ha.toks]; exact hf, hs⟩⟩

/-- the domain of one filter on one document, by action -/
inductive InDomain (doc : List Node) : BodyFilter → Prop where
  | append (p1 : Bytes) (ps : List Bytes) (sel : Option Bytes) (value : Bytes)
      (h : AnyDomAPList tk .append sel vt (p1 :: ps) p1 ps doc) :
      InDomain doc (.html Rio.Consts.filterActionAppend (p1 :: ps) sel value)
  | prepend (p1 : Bytes) (ps : List Bytes) (sel : Option Bytes) (value : Bytes)
      (h : AnyDomAPList tk .prepend sel vt (p1 :: ps) p1 ps doc) :
      InDomain doc (.html Rio.Consts.filterActionPrepend (p1 :: ps) sel value)
  | replace1 (p1 : Bytes) (sel : Option Bytes) (value : Bytes)
      (h : AnyDomGList vt [p1] p1 (fun _ _ knd cs => TargetR vt [p1] p1 knd cs) doc) :
      InDomain doc (.html Rio.Consts.filterActionReplace [p1] sel value)
  | replaceN (p1 a : Bytes) (rest : List Bytes) (sel : Option Bytes) (value : Bytes)
      (hnd : (p1 :: a :: rest).Nodup)
      (h : OneHitL vt (p1 :: a :: rest) p1
        (fun _ _ knd cs => ChildDomR vt (p1 :: a :: rest) (a :: rest) p1 knd cs) doc) :
      InDomain doc (.html Rio.Consts.filterActionReplace (p1 :: a :: rest) sel value)

theorem actions_distinct :
    Rio.Consts.filterActionPrepend ≠ Rio.Consts.filterActionAppend ∧
    Rio.Consts.filterActionReplace ≠ Rio.Consts.filterActionAppend ∧
    Rio.Consts.filterActionReplace ≠ Rio.Consts.filterActionPrepend := by
  simp [Rio.Consts.filterActionPrepend, Rio.Consts.filterActionAppend, Rio.Consts.filterActionReplace]

/-- **one filter in its domain**: the fold over the document's tokens ends with nothing buffered and has
emitted the serialisation of the reference edit -/
theorem fold_inDomain (hvt : VtLossless vt) {doc : List Node} {f : BodyFilter} (h : InDomain tk vt doc f) :
    ∃ v s, VisitorsOf [f] [v] ∧
      (tokensOfList vt doc).foldl (stepTok tk ev) (HtmlSt.new v, []) =
        (s, serializeList (editD (decOf ev) doc f)) ∧ s.stack = [] := by
  obtain ⟨h1, h2, h3⟩ := actions_distinct
  cases h with
  | append p1 ps sel value h =>
    refine ⟨vis .append sel value [] p1 ps false, stG .append sel value none [] p1 ps,
      ⟨⟨_, _, _, _, rfl, by simp [Visitor.new, vis]⟩, trivial⟩, ?_, ?_⟩
    · rw [new_eq_stG, anyList_AP tk ev .append sel value vt (Or.inl rfl) hvt (valueMarks value) p1 ps
        (P := p1 :: ps) (by simp) (fun a ha => by simp [ha]) doc [] h]
      simp [editD, opOf, selN]
    · rfl
  | prepend p1 ps sel value h =>
    refine ⟨vis .prepend sel value [] p1 ps false, stG .prepend sel value none [] p1 ps,
      ⟨⟨_, _, _, _, rfl, by simp [Visitor.new, vis, h1]⟩, trivial⟩, ?_, ?_⟩
    · rw [new_eq_stG, anyList_AP tk ev .prepend sel value vt (Or.inr rfl) hvt (valueMarks value) p1 ps
        (P := p1 :: ps) (by simp) (fun a ha => by simp [ha]) doc [] h]
      simp [editD, opOf, selN, h1]
    · rfl
  | replace1 p1 sel value h =>
    refine ⟨vis .replace sel value [] p1 [] false, stG .replace sel value none [] p1 [],
      ⟨⟨_, _, _, _, rfl, by simp [Visitor.new, vis, h2, h3]⟩, trivial⟩, ?_, ?_⟩
    · rw [new_eq_stG]
      have hA := stNames_stG VKind.replace sel value (P := [p1]) none [] p1 [] (by simp) (fun _ h => by cases h)
      rw [anyList_gen tk ev vt (decOf ev) .replace (selN sel) (.verb value (valueMarks value)) [p1] p1 []
        (fun _ _ knd cs => TargetR vt [p1] p1 knd cs) hvt (by simp) hA (push_stG _ _ _ _ _ _ _)
        (fun d at_ knd cs out hh => by
          rw [target_R tk ev sel value vt hvt (by simp) hh none [] out (valueMarks value), editNodeD_target]; rfl)
        doc [] h]
      simp [editD, selN, h2, h3]
    · rfl
  | replaceN p1 a rest sel value hnd h =>
    refine ⟨vis .replace sel value [] p1 (a :: rest) false,
      stX .replace sel value (zEndBefore [] p1 (a :: rest)) (zEndCur p1 (a :: rest)),
      ⟨⟨_, _, _, _, rfl, by simp [Visitor.new, vis, h2, h3]⟩, trivial⟩, ?_, ?_⟩
    · rw [new_eq_stG]
      have hA := stNames_stG VKind.replace sel value (P := p1 :: a :: rest) none [] p1 (a :: rest)
        (by simp) (fun _ h => by cases h)
      have htm : zEndCur p1 (a :: rest) ∈ p1 :: a :: rest := zEndCur_mem p1 (a :: rest)
      rw [onehitL_gen tk ev vt (decOf ev) .replace (selN sel) (.verb value (valueMarks value)) (p1 :: a :: rest)
        p1 (a :: rest) (fun _ _ knd cs => ChildDomR vt (p1 :: a :: rest) (a :: rest) p1 knd cs)
        (A := stG .replace sel value none [] p1 (a :: rest))
        (B := stX .replace sel value (zEndBefore [] p1 (a :: rest)) (zEndCur p1 (a :: rest)))
        (Q := [zEndCur p1 (a :: rest)])
        hvt (by simp) hA (push_stG _ _ _ _ _ _ _) (stNames_stX _ _ _ _ _) (push_stX _ _ _ _ _)
        (fun x hx => by simp at hx; exact hx ▸ htm)
        (fun d at_ knd cs out hh => by
          rw [elem_R tk ev sel value vt hvt (valueMarks value) (a :: rest) [] p1 d at_ knd cs none out hh (by simp)
            (fun x hx => List.mem_cons_of_mem _ hx) hnd (fun _ h => by cases h)]
          congr 2
          simp [editNodeD])
        doc [] h]
      simp [editD, selN, h2, h3]
    · rfl

/-- a list of filters applied one after the other, each in its domain on the document it sees -/
def StepsOK : List Node → List BodyFilter → Prop
  | _, [] => True
  | d, f :: fs =>
    InDomain tk vt d f ∧ TokAgree tk vt d ∧ (fs ≠ [] → serializeList (editD (decOf ev) d f) ≠ []) ∧
    StepsOK (editD (decOf ev) d f) fs

theorem chained_of_steps (hvt : VtLossless vt) :
    ∀ (fs : List BodyFilter) (d : List Node), StepsOK tk ev vt d fs →
      ∃ vs, VisitorsOf fs vs ∧
        Chained tk ev vs (serializeList d) (serializeList (editAllD (decOf ev) d fs))
  | [], d, _ => ⟨[], trivial, by simp [Chained, editAllD]⟩
  | f :: fs, d, h => by
    obtain ⟨hdom, hag, hne, hrest⟩ := h
    obtain ⟨v, s, hv, hfold, hst⟩ := fold_inDomain tk ev vt hvt hdom
    obtain ⟨vs, hvs, hch⟩ := chained_of_steps hvt fs _ hrest
    refine ⟨v :: vs, ⟨hv.1, hvs⟩, ?_⟩
    refine ⟨_, stageOK_of_fold tk ev vt hag hfold hst, ?_, ?_⟩
    · intro hvsne
      apply hne
      intro e; subst e
      cases vs with
      | nil => exact hvsne rfl
      | cons _ _ => simp [VisitorsOf] at hvs
    · simpa [editAllD] using hch

/-! ### an executable check of the domain, proved sound

`inDomainB` decides a sufficient condition for `InDomain` (the decomposition `pre ++ hit :: post` is found by
cutting at the first child of the awaited name); the driver evaluates it on every generated case, and concrete
end-to-end instances are obtained by evaluation. -/

def neutralB (P : List Bytes) (t : Tok) : Bool := !isTagKind t.kind || !P.contains t.name

theorem neutralB_sound {P : List Bytes} {t : Tok} (h : neutralB P t = true) : NeutralTok P t := by
  intro hk hm
  unfold neutralB at h
  rw [hk] at h
  simp at h
  exact h hm

theorem all_neutralB_sound {P : List Bytes} {toks : List Tok} (h : toks.all (neutralB P) = true) :
    ∀ t ∈ toks, NeutralTok P t :=
  fun t ht => neutralB_sound (List.all_eq_true.mp h t ht)

/-- nesting depth walk of `append_child`: `none` = the level would be closed -/
def balWalk : List Tok → Nat → Option Nat
  | [], d => some d
  | t :: ts, d =>
    if t.kind = .startTag then (if isVoid t.name then balWalk ts d else balWalk ts (d + 1))
    else if t.kind = .endTag then (match d with | 0 => none | d' + 1 => balWalk ts d')
    else balWalk ts d

theorem balWalk_sound : ∀ (toks : List Tok) (d d' : Nat), balWalk toks d = some d' →
    ∀ (child : Bytes) (more : List Tok) (rest : Bytes) (l : Int) (out : Bytes), 1 ≤ l →
      appendChildGo child (toks ++ more) rest (l + d) out =
        appendChildGo child more rest (l + d') (out ++ rawsOf toks)
  | [], d, d', h, child, more, rest, l, out, _ => by
    simp [balWalk] at h; subst h; simp [rawsOf]
  | t :: ts, d, d', h, child, more, rest, l, out, hl => by
    unfold balWalk at h
    simp only [List.cons_append]
    rw [appendChildGo]
    by_cases hs : t.kind = .startTag
    · rw [if_pos hs] at h
      by_cases hv : isVoid t.name = true
      · rw [if_pos hv] at h
        simp only [hs, hv, if_true, reduceCtorEq, if_false]
        rw [balWalk_sound ts d d' h child more rest l _ hl, rawsOf_cons, List.append_assoc]
      · rw [if_neg hv] at h
        simp only [hs, hv, if_true, reduceCtorEq, if_false, Bool.false_eq_true]
        have e : l + (d : Int) + 1 = l + ((d + 1 : Nat) : Int) := by push_cast; omega
        rw [e, balWalk_sound ts (d + 1) d' h child more rest l (out ++ t.raw) hl, rawsOf_cons,
          List.append_assoc]
    · rw [if_neg hs] at h
      by_cases he : t.kind = .endTag
      · rw [if_pos he] at h
        cases d with
        | zero => simp at h
        | succ d0 =>
          simp only at h
          have hz : (l + ((d0 + 1 : Nat) : Int)) - 1 ≠ 0 := by push_cast; omega
          simp only [hs, he, if_false, if_true, reduceCtorEq, hz]
          have e : l + ((d0 + 1 : Nat) : Int) - 1 = l + (d0 : Int) := by push_cast; omega
          rw [e, balWalk_sound ts d0 d' h child more rest l (out ++ t.raw) hl, rawsOf_cons,
            List.append_assoc]
      · rw [if_neg he] at h
        simp only [hs, he, if_false]
        rw [balWalk_sound ts d d' h child more rest l _ hl, rawsOf_cons, List.append_assoc]

theorem bal_of_walk {toks : List Tok} (h : balWalk toks 0 = some 0) : Bal toks := by
  intro child more rest l out hl
  have := balWalk_sound toks 0 0 h child more rest l out hl
  simpa using this

/-- cut a children list at the first element named `a` -/
def cutAt (a : Bytes) : List Node → Option (List Node × (Bytes × Bytes × ElKind × List Node) × List Node)
  | [] => none
  | n :: ns =>
    match n with
    | .el nm d at_ knd cs =>
      if nm = a then some ([], (d, at_, knd, cs), ns)
      else (cutAt a ns).map fun r => (n :: r.1, r.2.1, r.2.2)
    | .verb _ _ => (cutAt a ns).map fun r => (n :: r.1, r.2.1, r.2.2)

theorem cutAt_sound {a : Bytes} : ∀ {ns pre post : List Node} {d at_ : Bytes} {knd : ElKind} {cs : List Node},
    cutAt a ns = some (pre, (d, at_, knd, cs), post) → ns = pre ++ Node.el a d at_ knd cs :: post
  | [], _, _, _, _, _, _, h => by simp [cutAt] at h
  | n :: ns, pre, post, d, at_, knd, cs, h => by
    unfold cutAt at h
    cases n with
    | verb r m =>
      simp only [Option.map_eq_some_iff] at h
      obtain ⟨r', hr', he⟩ := h
      obtain ⟨p', ⟨d', a', k', c'⟩, q'⟩ := r'
      simp only [Prod.mk.injEq] at he
      obtain ⟨h1, ⟨h2, h3, h4, h5⟩, h6⟩ := he
      subst h1 h2 h3 h4 h5 h6
      rw [cutAt_sound hr']; rfl
    | el nm d0 at0 knd0 cs0 =>
      simp only at h
      by_cases hnm : nm = a
      · rw [if_pos hnm] at h
        simp only [Option.some.injEq, Prod.mk.injEq] at h
        obtain ⟨h1, ⟨h2, h3, h4, h5⟩, h6⟩ := h
        subst h1 h2 h3 h4 h5 h6 hnm
        rfl
      · rw [if_neg hnm] at h
        simp only [Option.map_eq_some_iff] at h
        obtain ⟨r', hr', he⟩ := h
        obtain ⟨p', ⟨d', a', k', c'⟩, q'⟩ := r'
        simp only [Prod.mk.injEq] at he
        obtain ⟨h1, ⟨h2, h3, h4, h5⟩, h6⟩ := he
        subst h1 h2 h3 h4 h5 h6
        rw [cutAt_sound hr']; rfl

def freeLB (P : List Bytes) (ns : List Node) : Bool := (tokensOfList vt ns).all (neutralB P)

theorem freeLB_sound {P : List Bytes} {ns : List Node} (h : freeLB vt P ns = true) : FreeL vt P ns :=
  all_neutralB_sound h

def targetAPB (P : List Bytes) (cur d at_ : Bytes) (knd : ElKind) (cs : List Node) : Bool :=
  (knd == .normal || knd == .raw) && !isVoid cur && (innerToks vt knd cs).all (neutralB P) &&
  (!selOn sel || decide (tk (serialize (.el cur d at_ knd cs)) = (tokensOf vt (.el cur d at_ knd cs), []))) &&
  (!selOn sel || k != .append || decide (balWalk (innerToks vt knd cs) 0 = some 0))

theorem targetAPB_sound {P : List Bytes} {cur d at_ : Bytes} {knd : ElKind} {cs : List Node}
    (h : targetAPB tk k sel vt P cur d at_ knd cs = true) : TargetAP tk k sel vt P cur d at_ knd cs := by
  unfold targetAPB at h
  simp only [Bool.and_eq_true, Bool.or_eq_true, beq_iff_eq, Bool.not_eq_true', bne_iff_ne, ne_eq,
    decide_eq_true_eq] at h
  obtain ⟨⟨⟨⟨h1, h2⟩, h3⟩, h4⟩, h5⟩ := h
  refine ⟨h1, h2, all_neutralB_sound h3, ?_, ?_⟩
  · intro hs
    rcases h4 with h4 | h4
    · rw [hs] at h4; cases h4
    · exact h4
  · intro hs hk
    rcases h5 with (h5 | h5) | h5
    · rw [hs] at h5; cases h5
    · exact absurd hk h5
    · exact bal_of_walk h5

def childDomAPB (P : List Bytes) : List Bytes → Bytes → Bytes → Bytes → ElKind → List Node → Bool
  | [], cur, d, at_, knd, cs => targetAPB tk k sel vt P cur d at_ knd cs
  | a :: rest, cur, _, _, knd, cs =>
    knd == .normal && !isVoid cur &&
    (match cutAt a cs with
     | none => false
     | some (pre, (d', at', knd', cs'), post) =>
       freeLB vt P pre && freeLB vt P post && childDomAPB P rest a d' at' knd' cs')

theorem childDomAPB_sound {P : List Bytes} : ∀ (after : List Bytes) (cur d at_ : Bytes) (knd : ElKind)
    (cs : List Node), childDomAPB tk k sel vt P after cur d at_ knd cs = true →
      ChildDomAP tk k sel vt P after cur d at_ knd cs
  | [], cur, d, at_, knd, cs, h => targetAPB_sound tk k sel vt h
  | a :: rest, cur, d, at_, knd, cs, h => by
    unfold childDomAPB at h
    simp only [Bool.and_eq_true, beq_iff_eq, Bool.not_eq_true'] at h
    obtain ⟨⟨h1, h2⟩, h3⟩ := h
    cases hc : cutAt a cs with
    | none => rw [hc] at h3; cases h3
    | some r =>
      obtain ⟨pre, ⟨d', at', knd', cs'⟩, post⟩ := r
      rw [hc] at h3
      simp only [Bool.and_eq_true] at h3
      exact ⟨h1, h2, pre, d', at', knd', cs', post, cutAt_sound hc, freeLB_sound vt h3.1.1,
        freeLB_sound vt h3.1.2, childDomAPB_sound rest a d' at' knd' cs' h3.2⟩

mutual
  def anyDomAPB (P : List Bytes) (p1 : Bytes) (ps : List Bytes) : Node → Bool
    | .verb raw _ => (vt raw).all (neutralB P)
    | .el nm d at_ knd cs =>
      if nm = p1 then childDomAPB tk k sel vt P ps p1 d at_ knd cs
      else !P.contains nm &&
        (match knd with
         | .normal => anyDomAPListB P p1 ps cs
         | _ => true)
  def anyDomAPListB (P : List Bytes) (p1 : Bytes) (ps : List Bytes) : List Node → Bool
    | [] => true
    | n :: ns => anyDomAPB P p1 ps n && anyDomAPListB P p1 ps ns
end

mutual
  theorem anyDomAPB_sound {P : List Bytes} {p1 : Bytes} {ps : List Bytes} :
      ∀ n : Node, anyDomAPB tk k sel vt P p1 ps n = true → AnyDomAP tk k sel vt P p1 ps n
    | .verb raw _, h => by
      unfold AnyDomAP
      exact all_neutralB_sound (by simpa [anyDomAPB] using h)
    | .el nm d at_ knd cs, h => by
      unfold anyDomAPB at h
      unfold AnyDomAP
      by_cases hnm : nm = p1
      · rw [if_pos hnm] at h ⊢
        exact childDomAPB_sound tk k sel vt ps p1 d at_ knd cs h
      · rw [if_neg hnm] at h ⊢
        simp only [Bool.and_eq_true, Bool.not_eq_true'] at h
        refine ⟨by simpa using h.1, ?_⟩
        cases knd with
        | normal => exact anyDomAPListB_sound cs h.2
        | _ => trivial
  theorem anyDomAPListB_sound {P : List Bytes} {p1 : Bytes} {ps : List Bytes} :
      ∀ ns : List Node, anyDomAPListB tk k sel vt P p1 ps ns = true → AnyDomAPList tk k sel vt P p1 ps ns
    | [], _ => by unfold AnyDomAPList; trivial
    | n :: ns, h => by
      unfold anyDomAPListB at h
      unfold AnyDomAPList
      simp only [Bool.and_eq_true] at h
      exact ⟨anyDomAPB_sound n h.1, anyDomAPListB_sound ns h.2⟩
end

def targetRB (P : List Bytes) (cur : Bytes) (knd : ElKind) (cs : List Node) : Bool :=
  match knd with
  | .normal => !isVoid cur && (innerToks vt .normal cs).all (neutralB P)
  | .raw => !isVoid cur
  | .void => isVoid cur
  | .selfClosing => true

theorem targetRB_sound {P : List Bytes} {cur : Bytes} {knd : ElKind} {cs : List Node}
    (h : targetRB vt P cur knd cs = true) : TargetR vt P cur knd cs := by
  unfold targetRB at h
  unfold TargetR
  cases knd with
  | normal =>
    simp only [Bool.and_eq_true, Bool.not_eq_true'] at h
    exact ⟨h.1, all_neutralB_sound h.2⟩
  | raw => simpa using h
  | void => simpa using h
  | selfClosing => trivial

def targetsDomB (P : List Bytes) (cur : Bytes) : List Node → Bool
  | [] => true
  | n :: ns =>
    (match n with
     | .el nm _ _ knd cs => if nm = cur then targetRB vt P cur knd cs else (tokensOf vt n).all (neutralB P)
     | .verb raw _ => (vt raw).all (neutralB P)) && targetsDomB P cur ns

theorem targetsDomB_sound {P : List Bytes} {cur : Bytes} :
    ∀ ns : List Node, targetsDomB vt P cur ns = true → TargetsDom vt P cur ns
  | [], _ => trivial
  | n :: ns, h => by
    unfold targetsDomB at h
    simp only [Bool.and_eq_true] at h
    refine ⟨?_, targetsDomB_sound ns h.2⟩
    cases n with
    | verb raw m => exact all_neutralB_sound h.1
    | el nm d at_ knd cs =>
      simp only at h ⊢
      by_cases hnm : nm = cur
      · rw [if_pos hnm] at h ⊢; exact targetRB_sound vt h.1
      · rw [if_neg hnm] at h ⊢; exact all_neutralB_sound h.1

def childDomRB (P : List Bytes) : List Bytes → Bytes → ElKind → List Node → Bool
  | [], cur, knd, cs => targetRB vt P cur knd cs
  | [a], cur, knd, cs => knd == .normal && !isVoid cur && targetsDomB vt P a cs && cs.any (hitB a)
  | a :: r :: rs, cur, knd, cs =>
    knd == .normal && !isVoid cur &&
    (match cutAt a cs with
     | none => false
     | some (pre, (_, _, knd', cs'), post) =>
       freeLB vt P pre && freeLB vt P post && childDomRB P (r :: rs) a knd' cs')

theorem childDomRB_sound {P : List Bytes} : ∀ (after : List Bytes) (cur : Bytes) (knd : ElKind) (cs : List Node),
    childDomRB vt P after cur knd cs = true → ChildDomR vt P after cur knd cs
  | [], cur, knd, cs, h => targetRB_sound vt h
  | [a], cur, knd, cs, h => by
    unfold childDomRB at h
    simp only [Bool.and_eq_true, beq_iff_eq, Bool.not_eq_true'] at h
    exact ⟨h.1.1.1, h.1.1.2, targetsDomB_sound vt cs h.1.2, h.2⟩
  | a :: r :: rs, cur, knd, cs, h => by
    unfold childDomRB at h
    simp only [Bool.and_eq_true, beq_iff_eq, Bool.not_eq_true'] at h
    obtain ⟨⟨h1, h2⟩, h3⟩ := h
    cases hc : cutAt a cs with
    | none => rw [hc] at h3; cases h3
    | some x =>
      obtain ⟨pre, ⟨d', at', knd', cs'⟩, post⟩ := x
      rw [hc] at h3
      simp only [Bool.and_eq_true] at h3
      exact ⟨h1, h2, pre, d', at', knd', cs', post, cutAt_sound hc, freeLB_sound vt h3.1.1,
        freeLB_sound vt h3.1.2, childDomRB_sound (r :: rs) a knd' cs' h3.2⟩

section checkgen
variable (P : List Bytes) (p1 : Bytes) (HitB : Bytes → Bytes → ElKind → List Node → Bool)

mutual
  def anyDomGB : Node → Bool
    | .verb raw _ => (vt raw).all (neutralB P)
    | .el nm d at_ knd cs =>
      if nm = p1 then HitB d at_ knd cs
      else !P.contains nm &&
        (match knd with
         | .normal => anyDomGListB cs
         | _ => true)
  def anyDomGListB : List Node → Bool
    | [] => true
    | n :: ns => anyDomGB n && anyDomGListB ns
end

mutual
  def oneHitB : Node → Bool
    | .verb _ _ => false
    | .el nm d at_ knd cs =>
      if nm = p1 then HitB d at_ knd cs
      else !P.contains nm && knd == .normal && oneHitLB cs
  def oneHitLB : List Node → Bool
    | [] => false
    | n :: ns => (oneHitB n && freeLB vt P ns) || ((tokensOf vt n).all (neutralB P) && oneHitLB ns)
end

variable {Hit : Bytes → Bytes → ElKind → List Node → Prop}
variable (hHit : ∀ d at_ knd cs, HitB d at_ knd cs = true → Hit d at_ knd cs)

include hHit in
mutual
  theorem anyDomGB_sound : ∀ n : Node, anyDomGB vt P p1 HitB n = true → AnyDomG vt P p1 Hit n
    | .verb raw _, h => by
      unfold AnyDomG
      exact all_neutralB_sound (by simpa [anyDomGB] using h)
    | .el nm d at_ knd cs, h => by
      unfold anyDomGB at h
      unfold AnyDomG
      by_cases hnm : nm = p1
      · rw [if_pos hnm] at h ⊢; exact hHit d at_ knd cs h
      · rw [if_neg hnm] at h ⊢
        simp only [Bool.and_eq_true, Bool.not_eq_true'] at h
        refine ⟨by simpa using h.1, ?_⟩
        cases knd with
        | normal => exact anyDomGListB_sound cs h.2
        | _ => trivial
  theorem anyDomGListB_sound : ∀ ns : List Node, anyDomGListB vt P p1 HitB ns = true →
      AnyDomGList vt P p1 Hit ns
    | [], _ => by unfold AnyDomGList; trivial
    | n :: ns, h => by
      unfold anyDomGListB at h
      unfold AnyDomGList
      simp only [Bool.and_eq_true] at h
      exact ⟨anyDomGB_sound n h.1, anyDomGListB_sound ns h.2⟩
end

include hHit in
mutual
  theorem oneHitB_sound : ∀ n : Node, oneHitB vt P p1 HitB n = true → OneHit vt P p1 Hit n
    | .verb _ _, h => by simp [oneHitB] at h
    | .el nm d at_ knd cs, h => by
      unfold oneHitB at h
      unfold OneHit
      by_cases hnm : nm = p1
      · rw [if_pos hnm] at h ⊢; exact hHit d at_ knd cs h
      · rw [if_neg hnm] at h ⊢
        simp only [Bool.and_eq_true, Bool.not_eq_true', beq_iff_eq] at h
        exact ⟨by simpa using h.1.1, h.1.2, oneHitLB_sound cs h.2⟩
  theorem oneHitLB_sound : ∀ ns : List Node, oneHitLB vt P p1 HitB ns = true → OneHitL vt P p1 Hit ns
    | [], h => by simp [oneHitLB] at h
    | n :: ns, h => by
      unfold oneHitLB at h
      unfold OneHitL
      simp only [Bool.or_eq_true, Bool.and_eq_true] at h
      rcases h with h | h
      · exact Or.inl ⟨oneHitB_sound n h.1, freeLB_sound vt h.2⟩
      · exact Or.inr ⟨all_neutralB_sound h.1, oneHitLB_sound ns h.2⟩
end

end checkgen

/-- the executable domain check of one filter on one document -/
def inDomainB (doc : List Node) (f : BodyFilter) : Bool :=
  match f with
  | .text _ _ => false
  | .html action path sel value =>
    match path with
    | [] => false
    | p1 :: ps =>
      if action = Rio.Consts.filterActionAppend then anyDomAPListB tk .append sel vt (p1 :: ps) p1 ps doc
      else if action = Rio.Consts.filterActionPrepend then anyDomAPListB tk .prepend sel vt (p1 :: ps) p1 ps doc
      else if action = Rio.Consts.filterActionReplace then
        match ps with
        | [] => anyDomGListB vt [p1] p1 (fun _ _ knd cs => targetRB vt [p1] p1 knd cs) doc
        | a :: rest =>
          decide ((p1 :: a :: rest).Nodup) &&
          oneHitLB vt (p1 :: a :: rest) p1 (fun _ _ knd cs => childDomRB vt (p1 :: a :: rest) (a :: rest) p1 knd cs) doc
      else false

theorem inDomainB_sound {doc : List Node} {f : BodyFilter} (h : inDomainB tk vt doc f = true) :
    InDomain tk vt doc f := by
  unfold inDomainB at h
  cases f with
  | text _ _ => cases h
  | html action path sel value =>
    simp only at h
    cases path with
    | nil => cases h
    | cons p1 ps =>
      simp only at h
      by_cases h1 : action = Rio.Consts.filterActionAppend
      · rw [if_pos h1] at h; subst h1
        exact .append p1 ps sel value (anyDomAPListB_sound tk .append sel vt doc h)
      · rw [if_neg h1] at h
        by_cases h2 : action = Rio.Consts.filterActionPrepend
        · rw [if_pos h2] at h; subst h2
          exact .prepend p1 ps sel value (anyDomAPListB_sound tk .prepend sel vt doc h)
        · rw [if_neg h2] at h
          by_cases h3 : action = Rio.Consts.filterActionReplace
          · rw [if_pos h3] at h; subst h3
            cases ps with
            | nil =>
              exact .replace1 p1 sel value (anyDomGListB_sound vt [p1] p1 _
                (fun _ _ knd cs hh => targetRB_sound vt hh) doc h)
            | cons a rest =>
              simp only [Bool.and_eq_true, decide_eq_true_eq] at h
              exact .replaceN p1 a rest sel value h.1 (oneHitLB_sound vt _ p1 _
                (fun _ _ knd cs hh => childDomRB_sound vt (a :: rest) p1 knd cs hh) doc h.2)
          · rw [if_neg h3] at h; cases h

def tokAgreeB (doc : List Node) : Bool :=
  decide (toksOf (tk.stream [] (serializeList doc)).1 = tokensOfList vt doc) &&
  decide ((tk.stream [] (serializeList doc)).2.1 = []) &&
  (tk.stream [] (serializeList doc)).1.all (fun x => !isCut x) &&
  decide (utf8Split (serializeList doc) = some (serializeList doc, [])) &&
  decide (splitHeld (tokensOfList vt doc) = (tokensOfList vt doc, []))

theorem tokAgreeB_sound {doc : List Node} (h : tokAgreeB tk vt doc = true) : TokAgree tk vt doc := by
  unfold tokAgreeB at h
  simp only [Bool.and_eq_true, decide_eq_true_eq, List.all_eq_true, Bool.not_eq_true'] at h
  exact ⟨h.1.1.1.1, h.1.1.1.2, h.1.1.2, h.1.2, h.2⟩

/-- the executable check of `StepsOK` -/
def stepsOKB : List Node → List BodyFilter → Bool
  | _, [] => true
  | d, f :: fs =>
    inDomainB tk vt d f && tokAgreeB tk vt d &&
    (fs.isEmpty || !(serializeList (editD (decOf ev) d f)).isEmpty) &&
    stepsOKB (editD (decOf ev) d f) fs

theorem stepsOKB_sound : ∀ (fs : List BodyFilter) (d : List Node), stepsOKB tk ev vt d fs = true →
    StepsOK tk ev vt d fs
  | [], _, _ => trivial
  | f :: fs, d, h => by
    unfold stepsOKB at h
    simp only [Bool.and_eq_true, Bool.or_eq_true, Bool.not_eq_true', List.isEmpty_eq_false_iff] at h
    obtain ⟨⟨⟨h1, h2⟩, h3⟩, h4⟩ := h
    refine ⟨inDomainB_sound tk vt h1, tokAgreeB_sound tk vt h2, ?_, stepsOKB_sound fs _ h4⟩
    intro hne
    rcases h3 with h3 | h3
    · exact absurd (List.isEmpty_iff.mp h3) hne
    · exact h3

/-- a lossless view of verbatim pieces built from any tokenizer: its tokens when they cover the piece, one text token otherwise -/
def vtOf (tk : Tokenize) : Bytes → List Tok := fun raw =>
  if rawsOf (tk raw).1 = raw then (tk raw).1 else textToks raw

theorem vtOf_lossless (tk : Tokenize) : VtLossless (vtOf tk) := by
  intro raw
  unfold vtOf
  split
  · assumption
  · exact rawsOf_textToks raw

end

end Rio.Filter
