/-
C03: on a valid UTF-8 stream no call of a plain chain fails, however the stream is cut (a cut inside a multi-byte
character leaves an incomplete tail that is carried: repair of D3).  Stream-level argument along the pipeline of
`Proofs/FilterPipe.lean`: the concatenated input of every stage is complete valid UTF-8, hence so is its output.
-/
import RioModel.Proofs.FilterPipe
import RioModel.Proofs.FilterValid
set_option linter.unusedSimpArgs false
set_option linter.unusedVariables false

namespace Rio.Filter

/-- a prefix of a complete valid string is never *invalid* (at worst it ends inside a character) -/
theorem utf8Split_prefix_of_valid {u w : Bytes} (h : V (u ++ w)) : ∃ a p, utf8Split u = some (a, p) := by
  cases hs : utf8Split u with
  | some r => exact ⟨r.1, r.2, rfl⟩
  | none =>
    exfalso
    have := utf8Split_none_append hs w
    have h2 := utf8Split_of_V h
    rw [this] at h2
    cases h2

/-- `last_buffer = T ++ p`: a complete valid held tail `T` and an incomplete character `p` that the remaining stream
`R` completes -/
def LV (s : HtmlSt) (R : Bytes) : Prop := ∃ T p, s.last = T ++ p ∧ V T ∧ V (p ++ R)

section
variable {tk : Tokenize} (hl : LosslessAll tk) (hv : TokValidAll tk) (ev : Bytes → Bytes → Bool)
include hl hv

/-- one call on a piece of a valid stream does not fail, and the invariant moves on -/
theorem filterHtml_ok_of_LV (s : HtmlSt) (x R : Bytes) (hc : Ctx s.ctx) (h : LV s (x ++ R)) :
    ∃ s1 o, filterHtml tk ev s x = some (s1, o) ∧ LV s1 R := by
  obtain ⟨T, p, hlast, hT, hpR⟩ := h
  have hpx : V ((p ++ x) ++ R) := by simpa [List.append_assoc] using hpR
  obtain ⟨a', p', hsp⟩ := utf8Split_prefix_of_valid hpx
  have hsp2 : utf8Split (s.last ++ x) = some (T ++ a', p') := by
    rw [hlast, List.append_assoc, utf8Split_prefix T (p ++ x) hT, hsp]
    rfl
  obtain ⟨ha', hap⟩ := utf8Split_spec hsp
  have hd : V (T ++ a') := V_append hT ha'
  rw [filterHtml_view, hsp2]
  simp only
  refine ⟨_, _, rfl, (view tk s.ctx (T ++ a')).tail, p', rfl, view_tail_V hl hv hc hd, ?_⟩
  -- a' ++ p' ++ R = p ++ x ++ R is valid and a' is valid
  have : V (a' ++ (p' ++ R)) := by
    rw [← List.append_assoc, hap]; exact hpx
  exact V_of_append_left this ha'

end

variable {D E : Type}

section
variable {tk : Tokenize} (hl : LosslessAll tk) (hv : TokValidAll tk) (ev : Bytes → Bytes → Bool) (codec : Codec D E)
include hl hv

/-- the html stage over the pieces of a valid stream: no call fails, every output is valid -/
theorem seqRunL_ok : ∀ (ps : List Bytes) (s : HtmlSt) (R : Bytes), (HV s ∧ Ctx s.ctx) → LV s (ps.flatten ++ R) →
    ∃ s1 os, seqRunL tk ev s ps = some (s1, os) ∧ (HV s1 ∧ Ctx s1.ctx) ∧ LV s1 R ∧ V os.flatten
  | [], s, R, hh, hlv => ⟨s, [], rfl, hh, by simpa using hlv, V_nil⟩
  | p :: ps, s, R, hh, hlv => by
    have hlv' : LV s (p ++ (ps.flatten ++ R)) := by simpa [List.append_assoc] using hlv
    obtain ⟨s1, o, hf, hlv1⟩ := filterHtml_ok_of_LV hl hv ev s p _ hh.2 hlv'
    obtain ⟨hh1a, hh1b, ho⟩ := filterHtml_V hl hv ev s s1 p o hh.1 hh.2 hf
    obtain ⟨s2, os, e2, h2, l2, v2⟩ := seqRunL_ok ps s1 R ⟨hh1a, hh1b⟩ hlv1
    refine ⟨s2, o :: os, by simp [seqRunL, hf, e2], h2, l2, ?_⟩
    simp only [List.flatten_cons]
    exact V_append ho v2

omit hl hv in
theorem V_flat_of_HV {s : HtmlSt} (h : HV s) : V (flat s.stack) := by
  have : ∀ st : List Link, (∀ l ∈ st, V l.buffer) → V (flat st) := by
    intro st
    induction st with
    | nil => intro _; exact V_nil
    | cons l rest ih =>
      intro hs
      rw [flat_cons]
      exact V_append (ih fun l' h' => hs l' (by simp [h'])) (hs l (by simp))
  exact this s.stack h.2

omit hl hv in
theorem stageTotal_V (s : TextSt) (b : Bytes) (hc : V s.content) (hb : V b) : V (stageTotal s b) := by
  obtain ⟨a, c, e⟩ := s
  have hc' : V c := hc
  cases a <;> cases e <;> simp only [stageTotal] <;>
    first
      | exact hb
      | exact V_nil
      | exact hc'
      | exact V_append hb hc'
      | exact V_append hc' hb
      | (simp; first | exact hb | exact V_nil | exact hc' | exact V_append hb hc' | exact V_append hc' hb)

/-- a plain stage on a valid stream, however cut: no call fails and its total output is valid -/
theorem stTotal_ok (st : Stage D E) (ps : List Bytes) (fin : Option Bytes)
    (hready : DStage st)
    (hstream : V (ps.flatten ++ fin.getD [])) :
    ∃ st1 os st2 nd, stFeed tk ev codec st ps = some (st1, os) ∧ st1.endWith tk ev codec fin = (st2, some nd) ∧
      V (os.flatten ++ nd) := by
  cases st with
  | html s =>
    obtain ⟨hh, hlast⟩ := hready
    have hlv : LV s (ps.flatten ++ fin.getD []) := ⟨s.last, [], by simp, hlast, by simpa using hstream⟩
    obtain ⟨s1, os, e1, h1, l1, v1⟩ := seqRunL_ok hl hv ev ps s _ hh hlv
    have hfe : stFeed tk ev codec (.html s : Stage D E) ps = some (.html s1, os) := by
      rw [stFeed_html, e1]; rfl
    cases fin with
    | none =>
      refine ⟨_, os, .html s1, endHtml s1, hfe, rfl, ?_⟩
      obtain ⟨T, p, hl1, hT, hp⟩ := l1
      have hlast1 : V s1.last := by rw [hl1]; exact V_append hT (by simpa using hp)
      rw [endHtml_eq]
      exact V_append v1 (V_append (V_flat_of_HV h1.1) hlast1)
    | some d =>
      have l1' : LV s1 (d ++ []) := by simpa using l1
      obtain ⟨s2, o2, hf2, l2⟩ := filterHtml_ok_of_LV hl hv ev s1 d [] h1.2 l1'
      obtain ⟨h2, _, ho2⟩ := filterHtml_V hl hv ev s1 s2 d o2 h1.1 h1.2 hf2
      refine ⟨_, os, .html s2, o2 ++ endHtml s2, hfe, by simp [Stage.endWith, Stage.filter, hf2, Stage.end], ?_⟩
      obtain ⟨T, p, hl2, hT, hp⟩ := l2
      have hlast2 : V s2.last := by rw [hl2]; exact V_append hT (by simpa using hp)
      rw [endHtml_eq]
      exact V_append v1 (V_append ho2 (V_append (V_flat_of_HV h2) hlast2))
  | text s =>
    obtain ⟨s1, os, h1, h2⟩ := stFeed_text tk ev codec ps s
    have htot := stTotal_text tk ev codec s ps fin
    unfold stTotal at htot
    rw [h1] at htot
    simp only at htot
    cases hw : (Stage.text s1 : Stage D E).endWith tk ev codec fin with
    | mk st2 x =>
      rw [hw] at htot
      cases x with
      | none => simp at htot
      | some nd =>
        simp only at htot
        injection htot with htot
        refine ⟨_, os, st2, nd, h1, hw, ?_⟩
        rw [htot]
        exact stageTotal_V s _ hready hstream
  | decode d => exact absurd hready (by simp [DStage])
  | encode e => exact absurd hready (by simp [DStage])

/-- **On a valid UTF-8 stream no call of a plain chain fails**, whatever the pieces (and its output is valid). -/
theorem runG_ok : ∀ (items : List (Stage D E)) (ps : List Bytes) (fin : Option Bytes),
    Down items → V (ps.flatten ++ fin.getD []) →
    ∃ out, runG tk ev codec items ps fin = some out ∧ V out
  | [], ps, fin, _, hs => ⟨_, runG_nil tk ev codec ps fin, hs⟩
  | st :: rest, ps, fin, hd, hs => by
    have hready : DStage st := hd st (by simp)
    obtain ⟨st1, os, st2, nd, e1, e2, v⟩ := stTotal_ok hl hv ev codec st ps fin hready hs
    rw [runG_cons, e1]
    simp only [e2]
    exact runG_ok rest (nonEmpty os) (optB nd) (fun s h => hd s (by simp [h]))
      (by rw [nonEmpty_flatten, optB_getD]; exact v)

end

end Rio.Filter
