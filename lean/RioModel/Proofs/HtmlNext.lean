/-
C16: the invariant of `Tokenizer.next` (built on the helper lemmas of `Proofs/Html.lean`).
-/
import RioModel.Proofs.Html
set_option linter.unusedSimpArgs false
set_option linter.unusedVariables false

namespace Rio.Html
namespace Tokenizer
open Rio.Consts

local macro "tr" : tactic => `(tactic| first | trivial | rfl)

/-- What `next` needs and re-establishes; also preserved by the accessors. -/
structure Inv (t : Tokenizer) : Prop where
  raw : t.rawS ≤ t.rawE
  ok : Ok t
  tag : TagOk t.rawTag

/-- The span fields the accessors slice with, right after `next`. -/
structure Spans (t : Tokenizer) : Prop where
  dataLo : t.dataS ≤ t.dataE
  dataHi : t.dataE ≤ t.rawE
  tagData : isTagLike t.token = true → t.dataS < t.dataE
  attrs : (t.token = .startTag ∨ t.token = .selfClosing) → AttrsOk t ∧ t.nAttrRet = 0

/-- What a token-producing step establishes relative to the state `b` it started from. -/
structure Post (b t' : Tokenizer) : Prop where
  buf : t'.buf = b.buf
  rawS : t'.rawS = b.rawS
  inv : Inv t'
  spans : Spans t'
  progress : t'.token ≠ .error → t'.rawS < t'.rawE

/-- `Adv` without the clauses about `raw_tag` / `allow_cdata` -/
structure Adv0 (t t' : Tokenizer) : Prop where
  buf : t'.buf = t.buf
  rawS : t'.rawS = t.rawS
  mono : t.rawE ≤ t'.rawE
  ok : Ok t'

theorem Adv.to0 {t t' : Tokenizer} (h : Adv t t') : Adv0 t t' := ⟨h.buf, h.rawS, h.mono, h.ok⟩

theorem post_leaf (t x : Tokenizer) (k : TokenType) (a : Adv0 t x) (hr : t.rawS ≤ t.rawE) (ht : TagOk x.rawTag)
    (dlo : x.dataS ≤ x.dataE) (dhi : x.dataE ≤ x.rawE) (htd : isTagLike k = true → x.dataS < x.dataE)
    (hat : (k = .startTag ∨ k = .selfClosing) → AttrsOk x ∧ x.nAttrRet = 0)
    (hp : k ≠ .error → t.rawS < x.rawE) : Post t { x with token := k } := by
  refine ⟨a.buf, a.rawS, ⟨?_, ⟨a.ok.le, a.ok.panic, a.ok.hang, a.ok.utf8⟩, ht⟩, ⟨dlo, dhi, htd, hat⟩, ?_⟩
  · have := a.rawS; have := a.mono; simp only; omega
  · intro hk; have := a.rawS; have := hp hk; simp only; omega

theorem finishText_post (t x : Tokenizer) (a : Adv t x) (hr : t.rawS ≤ t.rawE) (ht : TagOk t.rawTag)
    (hd : x.dataS = t.rawS ∧ x.dataE = t.rawS) : Post t (finishText x) := by
  unfold finishText
  have hrs := a.rawS
  have hm := a.mono
  split
  · rename_i hlt
    have a' : Adv0 t { x with dataE := x.rawE } := ⟨a.buf, a.rawS, a.mono, ⟨a.ok.le, a.ok.panic, a.ok.hang, a.ok.utf8⟩⟩
    exact post_leaf t { x with dataE := x.rawE } .text a' hr (by simp only [a.rawTag]; exact ht)
      (by simp only; omega) (by simp) (by simp [isTagLike]) (by simp) (by intro _; simp only; omega)
  · exact post_leaf t x .error a.to0 hr (by rw [a.rawTag]; exact ht) (by omega) (by omega)
      (by simp [isTagLike]) (by simp) (by simp)

theorem Post.rebase {t u t' : Tokenizer} (hb : u.buf = t.buf) (hs : u.rawS = t.rawS) (p : Post u t') : Post t t' :=
  ⟨p.buf.trans hb, p.rawS.trans hs, p.inv, p.spans, p.progress⟩

theorem markup_kind (t : Tokenizer) :
    isTagLike (readMarkupDeclaration t).2 = false ∧ (readMarkupDeclaration t).2 ≠ .error := by
  unfold readMarkupDeclaration markupGo markupRest
  simp only
  (repeat' split) <;> simp [isTagLike]

theorem isTagLike_start {k : TokenType} (h : k = .startTag ∨ k = .selfClosing) : isTagLike k = true := by
  rcases h with rfl | rfl <;> rfl

theorem dispatchTag_post (b t2 : Tokenizer) (c : Nat) (a : Adv b t2) (h2 : b.rawE + 2 ≤ t2.rawE)
    (hr : b.rawS ≤ b.rawE) (ht : TagOk b.rawTag) (hd : t2.dataS = b.rawS ∧ t2.dataE = b.rawS) :
    Post b (dispatchTag t2 c) := by
  unfold dispatchTag
  simp only [htmlTagOpenLen]
  have hle := a.ok.le
  have hrs := a.rawS
  have ht2 : TagOk t2.rawTag := by rw [a.rawTag]; exact ht
  split
  · omega
  · split
    · rename_i hx
      refine ⟨a.buf, a.rawS, ⟨?_, ⟨?_, a.ok.panic, a.ok.hang, a.ok.utf8⟩, ht2⟩, ⟨?_, ?_, ?_, ?_⟩, ?_⟩
      · simp only; omega
      · simp only; omega
      · simp only; omega
      · simp
      · simp [isTagLike]
      · simp
      · intro _; simp only; omega
    · split
      · -- start tag
        have s := readStartTag_spec t2 a.ok (by omega) ht2
        obtain ⟨s1, s2, s3, s4, s5, s6, s7⟩ := s
        generalize t2.readStartTag = st at *
        have a0 : Adv0 b st.1 := ⟨s1.buf.trans a.buf, s1.rawS.trans a.rawS, Nat.le_trans a.mono s1.mono,
          ⟨s1.ok.le, s1.ok.panic, s1.ok.hang, s1.ok.utf8⟩⟩
        have hm : t2.rawE ≤ st.1.rawE := s1.mono
        exact post_leaf b st.1 st.2 a0 hr s2 (by omega) s5 (by intro _; omega) (fun _ => ⟨s6, s7⟩)
          (by intro _; omega)
      · split
        · -- `</`
          have a3 := a.trans (readByte_adv a.ok)
          split
          · exact finishText_post b _ a3 hr ht (by simpa using hd)
          · rename_i herr3
            have e3 := readByte_succ herr3
            split
            · exact post_leaf b _ .comment a3.to0 hr (by rw [a3.rawTag]; exact ht) (by simp [hd])
                (by have := a3.mono; simp [hd]; omega) (by simp [isTagLike]) (by simp) (by intro _; have := a3.mono; omega)
            · split
              · -- end tag
                have a4 := readTag_adv t2.readByte.1 false a3.ok (by omega)
                have s4 := readTag_spec t2.readByte.1 false a3.ok (by omega)
                have a34 := a3.trans a4
                generalize t2.readByte.1.readTag false = t4 at *
                have hm := a4.mono
                split
                · exact post_leaf b t4 .error a34.to0 hr (by rw [a34.rawTag]; exact ht) (by omega) s4.2.2.1
                    (by simp [isTagLike]) (by simp) (by simp)
                · exact post_leaf b t4 .endTag a34.to0 hr (by rw [a34.rawTag]; exact ht) (by omega) s4.2.2.1
                    (by intro _; omega) (by simp) (by intro _; have := a34.mono; omega)
              · -- bogus comment `</x ... >`
                have a4 := a.trans (read_unread_adv a.ok herr3)
                have a5 := a4.trans (readUntilCloseAngle_adv _ a4.ok)
                have d5 := readUntilCloseAngle_data _ a4.ok
                have hu := unread_rawE_eq (t := t2.readByte.1) 1 (by omega)
                have hm5 := (readUntilCloseAngle_adv _ a4.ok).mono
                generalize (t2.readByte.1.unread 1).readUntilCloseAngle = t5 at *
                exact post_leaf b t5 .comment a5.to0 hr (by rw [a5.rawTag]; exact ht) d5.2.1 d5.2.2
                  (by simp [isTagLike]) (by simp) (by intro _; omega)
        · split
          · -- `<!`
            have am := readMarkupDeclaration_adv t2 a.ok (by omega)
            have dm := readMarkupDeclaration_data t2 a.ok (by omega)
            have km := markup_kind t2
            have a5 := a.trans am
            generalize t2.readMarkupDeclaration = m at *
            exact post_leaf b m.1 m.2 a5.to0 hr (by rw [a5.rawTag]; exact ht) dm.1 dm.2
              (by intro hk; rw [km.1] at hk; cases hk)
              (by intro hk; have := isTagLike_start hk; rw [km.1] at this; cases this)
              (by intro _; have := am.mono; omega)
          · -- `<?`
            have a4 := unread_adv 1 a (by omega)
            have a5 := a4.trans (readUntilCloseAngle_adv _ a4.ok)
            have d5 := readUntilCloseAngle_data _ a4.ok
            have hu := unread_rawE_eq (t := t2) 1 (by omega)
            generalize (t2.unread 1).readUntilCloseAngle = t5 at *
            exact post_leaf b t5 .comment a5.to0 hr (by rw [a5.rawTag]; exact ht) d5.2.1 d5.2.2
              (by simp [isTagLike]) (by simp)
              (by intro _; have := (readUntilCloseAngle_adv _ a4.ok).mono; omega)

theorem mainLoop_post (t : Tokenizer) (h : Ok t) (hr : t.rawS ≤ t.rawE) (ht : TagOk t.rawTag)
    (hd : t.dataS = t.rawS ∧ t.dataE = t.rawS) : Post t (mainLoop t) := by
  fun_induction mainLoop t
  all_goals (try simp +zetaDelta only at *)
  case case1 =>
    exact finishText_post _ _ (readByte_adv h) hr ht (by simpa using hd)
  case case2 ih =>
    have a1 := readByte_adv h
    exact (ih a1.ok (by have := a1.mono; rw [a1.rawS]; omega) (by rw [a1.rawTag]; exact ht)
      (by simp [a1.rawS, hd])).rebase a1.buf a1.rawS
  case case3 =>
    exact finishText_post _ _ ((readByte_adv h).trans (readByte_adv (readByte_adv h).ok)) hr ht (by simpa using hd)
  case case4 ih =>
    have a1 := readByte_adv h
    have a2 := a1.trans (read_unread_adv a1.ok (by assumption))
    exact (ih a2.ok (by have := a2.mono; rw [a2.rawS]; omega) (by rw [a2.rawTag]; exact ht)
      (by simp [a2.rawS, hd])).rebase a2.buf a2.rawS
  case case5 t _ herr1 _ _ herr2 _ =>
    have a1 := readByte_adv h
    have a2 := readByte_adv a1.ok
    have e1 := readByte_succ herr1
    have e2 := readByte_succ herr2
    exact dispatchTag_post t _ _ (a1.trans a2) (by omega) hr ht (by simpa using hd)

/-- `read_raw_or_cdata` -/
theorem readRawOrCdata_spec (t : Tokenizer) (h : Ok t) (ht : TagOk t.rawTag) :
    Adv0 t (readRawOrCdata t) ∧ (readRawOrCdata t).rawTag = [] ∧
    (readRawOrCdata t).dataS = t.dataS ∧ (readRawOrCdata t).dataE = (readRawOrCdata t).rawE := by
  unfold readRawOrCdata
  split
  · rename_i hs
    have hs' : t.rawTag = htmlScript := by simpa using hs
    unfold readScript
    have a := scriptGo_adv .data t t (Adv.refl h) (by simp [SS.need]) hs'
    have d := scriptGo_data .data t
    simp only
    generalize scriptGo SS.data t = t1 at *
    refine ⟨⟨a.buf, a.rawS, a.mono, ⟨a.ok.le, a.ok.panic, a.ok.hang, a.ok.utf8⟩⟩, ?_, ?_, ?_⟩ <;> simp [d.1]
  · have a := rawTextGo_adv t h ht
    have d := rawTextGo_data t
    simp only
    generalize rawTextGo t = t1 at *
    refine ⟨⟨a.buf, a.rawS, a.mono, ⟨a.ok.le, a.ok.panic, a.ok.hang, a.ok.utf8⟩⟩, ?_, ?_, ?_⟩ <;> simp [d.1]

theorem TagOk_nil : TagOk [] := by intro c hc; cases hc

/-- The specification of `next` after its three initial span assignments. -/
theorem nextGo_post (t0 : Tokenizer) (hok : Ok t0) (hrs : t0.rawS = t0.rawE) (hds : t0.dataS = t0.rawS)
    (hde : t0.dataE = t0.rawS) (htg : TagOk t0.rawTag) : Post t0 (nextGo t0) := by
  unfold nextGo
  simp only
  -- the continuation: the main loop
  have cont : ∀ t1 : Tokenizer, Adv0 t0 t1 → TagOk t1.rawTag → t1.dataS = t0.rawS → t1.dataE = t0.rawS →
      Post t0 (mainLoop { t1 with textIsRaw := false, convertNull := false }) := by
    intro t1 a htag d1 d2
    have ok1 : Ok ({ t1 with textIsRaw := false, convertNull := false } : Tokenizer) :=
      ⟨a.ok.le, a.ok.panic, a.ok.hang, a.ok.utf8⟩
    have := mainLoop_post { t1 with textIsRaw := false, convertNull := false } ok1
      (by have := a.rawS; have := a.mono; simp only; omega) htag (by simp only [d1, d2, a.rawS]; exact ⟨trivial, trivial⟩)
    exact Post.rebase (u := { t1 with textIsRaw := false, convertNull := false }) a.buf a.rawS this
  split
  · -- `self.err.is_some()`
    exact post_leaf t0 t0 .error ⟨rfl, rfl, Nat.le_refl _, hok⟩ (by omega) htg (by omega) (by omega)
      (by simp [isTagLike]) (by simp) (by simp)
  · split
    · -- raw text context
      have key : ∀ t1 : Tokenizer, Adv0 t0 t1 → TagOk t1.rawTag → t1.dataS = t0.rawS → t1.dataE = t1.rawE →
          Post t0 (if t1.dataE > t1.dataS then { t1 with token := .text, convertNull := true }
            else mainLoop { t1 with textIsRaw := false, convertNull := false }) := by
        intro t1 a htag d1 d2
        split
        · rename_i hgt
          have a' : Adv0 t0 { t1 with convertNull := true } := ⟨a.buf, a.rawS, a.mono, ⟨a.ok.le, a.ok.panic, a.ok.hang, a.ok.utf8⟩⟩
          exact post_leaf t0 { t1 with convertNull := true } .text a' (by omega) htag (by simp only; omega)
            (by simp only; omega) (by simp [isTagLike]) (by simp) (by intro _; simp only; omega)
        · rename_i hgt
          have hm := a.mono
          exact cont t1 a htag d1 (by omega)
      split
      · -- plaintext
        have a := readToEnd_adv t0 hok
        have d := readToEnd_data t0
        generalize t0.readToEnd = t1 at *
        have a' : Adv0 t0 { t1 with dataE := t1.rawE, textIsRaw := true } :=
          ⟨a.buf, a.rawS, a.mono, ⟨a.ok.le, a.ok.panic, a.ok.hang, a.ok.utf8⟩⟩
        exact key { t1 with dataE := t1.rawE, textIsRaw := true } a' (by simp only [a.rawTag]; exact htg)
          (by simp only [d.1, hds]) rfl
      · have s := readRawOrCdata_spec t0 hok htg
        generalize t0.readRawOrCdata = t1 at *
        exact key t1 s.1 (by rw [s.2.1]; exact TagOk_nil) (by rw [s.2.2.1, hds]) s.2.2.2
    · exact cont t0 ⟨rfl, rfl, Nat.le_refl _, hok⟩ htg hds hde

/-- The specification of one call of `next`. -/
theorem next_post (t : Tokenizer) (h : Inv t) :
    Post { t with rawS := t.rawE, dataS := t.rawE, dataE := t.rawE } (next t) :=
  nextGo_post _ ⟨h.ok.le, h.ok.panic, h.ok.hang, h.ok.utf8⟩ rfl rfl rfl h.tag

/-! ### iterating `next` -/

/-- the state after `n` calls of `next()` (accessors are not called in between; see `accessor_*` for
why calling them does not matter for the raw spans) -/
def nexts : Nat → Tokenizer → Tokenizer
  | 0, t => t
  | n + 1, t => next (nexts n t)

/-- bytes of the raw span / of the unread remainder, as total functions -/
def rawL (t : Tokenizer) : List Nat := (t.buf.extract t.rawS t.rawE).toList
def restL (t : Tokenizer) : List Nat := (t.buf.extract t.rawE t.buf.size).toList
def dataL (t : Tokenizer) : List Nat := (t.buf.extract t.dataS t.dataE).toList

theorem next_inv' (t : Tokenizer) (h : Inv t) : Inv (next t) := (next_post t h).inv
theorem next_buf' (t : Tokenizer) (h : Inv t) : (next t).buf = t.buf := (next_post t h).buf
theorem next_rawS' (t : Tokenizer) (h : Inv t) : (next t).rawS = t.rawE := (next_post t h).rawS

theorem nexts_inv (n : Nat) (t : Tokenizer) (h : Inv t) : Inv (nexts n t) := by
  induction n with
  | zero => exact h
  | succ n ih => exact next_inv' _ ih

theorem nexts_buf (n : Nat) (t : Tokenizer) (h : Inv t) : (nexts n t).buf = t.buf := by
  induction n with
  | zero => rfl
  | succ n ih => exact (next_buf' _ (nexts_inv n t h)).trans ih

theorem extract_split (a : Array Nat) (i j k : Nat) (h1 : i ≤ j) (h2 : j ≤ k) :
    (a.extract i k).toList = (a.extract i j).toList ++ (a.extract j k).toList := by
  have := Array.extract_append_extract (as := a) (i := i) (j := j) (k := k)
  rw [Nat.min_eq_left h1, Nat.max_eq_right h2] at this
  rw [← this, Array.toList_append]

/-- the bytes consumed after `n` calls are the concatenation of the `n` raw spans -/
theorem consumed_eq (n : Nat) (t : Tokenizer) (h : Inv t) :
    (t.buf.extract t.rawE (nexts n t).rawE).toList =
      ((List.range n).map fun i => rawL (nexts (i + 1) t)).flatten ∧ t.rawE ≤ (nexts n t).rawE := by
  induction n with
  | zero => simp [nexts]
  | succ n ih =>
    have hi := nexts_inv n t h
    have hs : (nexts (n + 1) t).rawS = (nexts n t).rawE := next_rawS' _ hi
    have hr := (nexts_inv (n + 1) t h).raw
    have hb := nexts_buf (n + 1) t h
    rw [List.range_succ, List.map_append, List.flatten_append, ← ih.1]
    refine ⟨?_, by omega⟩
    rw [extract_split t.buf t.rawE (nexts n t).rawE (nexts (n + 1) t).rawE ih.2 (by omega)]
    simp [rawL, hs, hb]

theorem nexts_progress (n : Nat) (t : Tokenizer) (h : Inv t)
    (hne : ∀ i, i < n → (nexts (i + 1) t).token ≠ .error) : t.rawE + n ≤ (nexts n t).rawE := by
  induction n with
  | zero => simp [nexts]
  | succ n ih =>
    have hi := nexts_inv n t h
    have hs : (nexts (n + 1) t).rawS = (nexts n t).rawE := next_rawS' _ hi
    have hp := (next_post _ hi).progress (hne n (Nat.lt_succ_self n))
    have := ih (fun i hi' => hne i (Nat.lt_succ_of_lt hi'))
    have hs' : (nexts n t).next.rawS = (nexts n t).rawE := hs
    simp only [nexts]
    omega

/-! ### accessors -/

theorem slice?_eq (t : Tokenizer) (a b : Nat) (h1 : a ≤ b) (h2 : b ≤ t.buf.size) :
    t.slice? a b = some (t.buf.extract a b).toList := by
  unfold slice?; simp [h1, h2]

theorem raw_eq (t : Tokenizer) (h : Inv t) : t.raw = some (rawL t) :=
  slice?_eq t _ _ h.raw h.ok.le

theorem buffered_eq (t : Tokenizer) (h : Inv t) : t.buffered = some (restL t) :=
  slice?_eq t _ _ h.ok.le (Nat.le_refl _)

theorem text_spec (t : Tokenizer) (h : Inv t) (s : Spans t) (hk : isTextLike t.token = true) :
    (text t).1 = (if validUtf8 (dataL t) then
        .ok (some (if t.convertNull || (t.token == .text && (dataL t).contains 0) then replaceNul (dataL t) else dataL t))
      else .utf8Err) ∧ Inv (text t).2 := by
  unfold text
  have hs := slice?_eq t t.dataS t.dataE s.dataLo (Nat.le_trans s.dataHi h.ok.le)
  simp only [hk, if_true, hs, dataL]
  by_cases hv : validUtf8 (t.buf.extract t.dataS t.dataE).toList = true
  · simp only [hv, Bool.not_true, Bool.false_eq_true, if_false, if_true]
    exact ⟨by tr, h.raw, ⟨h.ok.le, h.ok.panic, h.ok.hang, h.ok.utf8⟩, h.tag⟩
  · simp only [Bool.not_eq_true] at hv
    simp only [hv, Bool.not_false, if_true, Bool.false_eq_true, if_false]
    exact ⟨by tr, h⟩

theorem tagName_spec (t : Tokenizer) (h : Inv t) (s : Spans t) (hk : isTagLike t.token = true) :
    (tagName t).1 = (if validUtf8 (dataL t) then
        .ok (some ((dataL t).map lowerByte), decide (t.nAttrRet < t.attrs.size)) else .utf8Err) ∧
    Inv (tagName t).2 ∧ (tagName t).2.attrs = t.attrs ∧ (tagName t).2.nAttrRet = t.nAttrRet ∧
    (tagName t).2.token = t.token ∧ (tagName t).2.buf = t.buf := by
  unfold tagName
  have hs := slice?_eq t t.dataS t.dataE s.dataLo (Nat.le_trans s.dataHi h.ok.le)
  have hlt := s.tagData hk
  simp only [hk, hlt, decide_true, Bool.and_self, if_true, hs, dataL]
  by_cases hv : validUtf8 (t.buf.extract t.dataS t.dataE).toList = true
  · simp only [hv, Bool.not_true, Bool.false_eq_true, if_false, if_true]
    exact ⟨by tr, ⟨h.raw, ⟨h.ok.le, h.ok.panic, h.ok.hang, h.ok.utf8⟩, h.tag⟩, by tr, by tr, by tr, by tr⟩
  · simp only [Bool.not_eq_true] at hv
    simp only [hv, Bool.not_false, if_true, Bool.false_eq_true, if_false]
    exact ⟨by tr, h, by tr, by tr, by tr, by tr⟩

theorem tagAttr_spec (t : Tokenizer) (h : Inv t) (ha : AttrsOk t) :
    (tagAttr t).1 ≠ .panic ∧ Inv (tagAttr t).2 ∧ AttrsOk (tagAttr t).2 ∧
    (tagAttr t).2.token = t.token ∧
    (∀ (hi : t.nAttrRet < t.attrs.size), (t.token = .startTag ∨ t.token = .selfClosing) →
      validUtf8 (t.buf.extract t.attrs[t.nAttrRet].ks t.attrs[t.nAttrRet].ke).toList = true →
      validUtf8 (t.buf.extract t.attrs[t.nAttrRet].vs t.attrs[t.nAttrRet].ve).toList = true →
      (tagAttr t).1 = .ok (some ((t.buf.extract t.attrs[t.nAttrRet].ks t.attrs[t.nAttrRet].ke).toList.map lowerByte),
        some (t.buf.extract t.attrs[t.nAttrRet].vs t.attrs[t.nAttrRet].ve).toList,
        decide (t.nAttrRet + 1 < t.attrs.size))) := by
  unfold tagAttr
  split
  · rename_i hi
    have hmem := ha t.attrs[t.nAttrRet] (by simp)
    have hk := slice?_eq t _ _ hmem.1 hmem.2.1
    have hv := slice?_eq t _ _ hmem.2.2.1 hmem.2.2.2
    have inv' : Inv { t with nAttrRet := t.nAttrRet + 1 } :=
      ⟨h.raw, ⟨h.ok.le, h.ok.panic, h.ok.hang, h.ok.utf8⟩, h.tag⟩
    have ha' : AttrsOk { t with nAttrRet := t.nAttrRet + 1 } := ha
    split
    · simp only [hk, hv]
      split
      · exact ⟨by simp, inv', ha', rfl, fun _ _ hu => by simp_all⟩
      · split
        · exact ⟨by simp, inv', ha', rfl, fun _ _ _ hu => by simp_all⟩
        · refine ⟨by simp, inv', ha', rfl, fun _ _ _ _ => rfl⟩
    · rename_i hnk
      exact ⟨by simp, h, ha, rfl, fun _ hk' => by simp at hnk; rcases hk' with e | e <;> simp [e] at hnk⟩
  · rename_i hi
    exact ⟨by simp, h, ha, rfl, fun hi' => absurd hi' hi⟩

end Tokenizer
end Rio.Html
