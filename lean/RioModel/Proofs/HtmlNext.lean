/-
C16: the invariant of `Tokenizer.next` (built on the helper lemmas of `Proofs/Html.lean`).
-/
import RioModel.Proofs.Html
set_option linter.unusedSimpArgs false
set_option linter.unusedVariables false

namespace Rio.Html
namespace Tokenizer
open Rio.Consts

/-- What `next` needs and re-establishes; also preserved by the accessors. -/
structure Inv (t : Tokenizer) : Prop where
  raw : t.rawS ≤ t.rawE
  ok : Ok t
  tag : TagOk t.rawTag

/-- The span fields the accessors slice with, right after `next`. -/
structure Spans (t : Tokenizer) : Prop where
  dataLo : t.dataS ≤ t.dataE
  dataHi : t.dataE ≤ t.rawE
  tagData : isTagLike t.token = true → t.dataS < t.dataE
  attrs : (t.token = .startTag ∨ t.token = .selfClosing) → AttrsOk t ∧ t.nAttrRet = 0

/-- What a token-producing step establishes relative to the state `b` it started from. -/
structure Post (b t' : Tokenizer) : Prop where
  buf : t'.buf = b.buf
  rawS : t'.rawS = b.rawS
  inv : Inv t'
  spans : Spans t'
  progress : t'.token ≠ .error → t'.rawS < t'.rawE

/-- `Adv` without the clauses about `raw_tag` / `allow_cdata` -/
structure Adv0 (t t' : Tokenizer) : Prop where
  buf : t'.buf = t.buf
  rawS : t'.rawS = t.rawS
  mono : t.rawE ≤ t'.rawE
  ok : Ok t'

theorem Adv.to0 {t t' : Tokenizer} (h : Adv t t') : Adv0 t t' := ⟨h.buf, h.rawS, h.mono, h.ok⟩

theorem post_leaf (t x : Tokenizer) (k : TokenType) (a : Adv0 t x) (hr : t.rawS ≤ t.rawE) (ht : TagOk x.rawTag)
    (dlo : x.dataS ≤ x.dataE) (dhi : x.dataE ≤ x.rawE) (htd : isTagLike k = true → x.dataS < x.dataE)
    (hat : (k = .startTag ∨ k = .selfClosing) → AttrsOk x ∧ x.nAttrRet = 0)
    (hp : k ≠ .error → t.rawS < x.rawE) : Post t { x with token := k } := by
  refine ⟨a.buf, a.rawS, ⟨?_, ⟨a.ok.le, a.ok.panic, a.ok.hang, a.ok.utf8⟩, ht⟩, ⟨dlo, dhi, htd, hat⟩, ?_⟩
  · have := a.rawS; have := a.mono; simp only; omega
  · intro hk; have := a.rawS; have := hp hk; simp only; omega

theorem finishText_post (t x : Tokenizer) (a : Adv t x) (hr : t.rawS ≤ t.rawE) (ht : TagOk t.rawTag)
    (hd : x.dataS = t.rawS ∧ x.dataE = t.rawS) : Post t (finishText x) := by
  unfold finishText
  have hrs := a.rawS
  have hm := a.mono
  split
  · rename_i hlt
    have a' : Adv0 t { x with dataE := x.rawE } := ⟨a.buf, a.rawS, a.mono, ⟨a.ok.le, a.ok.panic, a.ok.hang, a.ok.utf8⟩⟩
    exact post_leaf t { x with dataE := x.rawE } .text a' hr (by simp only [a.rawTag]; exact ht)
      (by simp only; omega) (by simp) (by simp [isTagLike]) (by simp) (by intro _; simp only; omega)
  · exact post_leaf t x .error a.to0 hr (by rw [a.rawTag]; exact ht) (by omega) (by omega)
      (by simp [isTagLike]) (by simp) (by simp)

theorem Post.rebase {t u t' : Tokenizer} (hb : u.buf = t.buf) (hs : u.rawS = t.rawS) (p : Post u t') : Post t t' :=
  ⟨p.buf.trans hb, p.rawS.trans hs, p.inv, p.spans, p.progress⟩

theorem mainLoop_post (t : Tokenizer) (h : Ok t) (hr : t.rawS ≤ t.rawE) (ht : TagOk t.rawTag)
    (hd : t.dataS = t.rawS ∧ t.dataE = t.rawS) : Post t (mainLoop t) := by
  fun_induction mainLoop t
  all_goals (try simp +zetaDelta only at *)
  case case1 =>
    exact finishText_post _ _ (readByte_adv h) hr ht (by simpa using hd)
  case case2 ih =>
    have a1 := readByte_adv h
    exact (ih a1.ok (by have := a1.mono; rw [a1.rawS]; omega) (by rw [a1.rawTag]; exact ht)
      (by simp [a1.rawS, hd])).rebase a1.buf a1.rawS
  case case3 =>
    exact finishText_post _ _ ((readByte_adv h).trans (readByte_adv (readByte_adv h).ok)) hr ht (by simpa using hd)
  case case4 ih =>
    have a1 := readByte_adv h
    have a2 := a1.trans (read_unread_adv a1.ok (by assumption))
    exact (ih a2.ok (by have := a2.mono; rw [a2.rawS]; omega) (by rw [a2.rawTag]; exact ht)
      (by simp [a2.rawS, hd])).rebase a2.buf a2.rawS
  all_goals trace_state
  all_goals sorry

end Tokenizer
end Rio.Html
