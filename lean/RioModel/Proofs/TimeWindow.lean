/-
Lemmas about the date / time primitives (Model/TimeWindow.lean).
-/
import RioModel.Model.TimeWindow
set_option linter.unusedSimpArgs false
set_option linter.unusedVariables false

namespace Rio.TimeWindow

theorem nsPerSec_pos : 0 < nsPerSec := by decide
theorem nsPerDay_pos : 0 < nsPerDay := by decide
theorem nsPerDay_eq : nsPerDay = 86400 * nsPerSec := rfl

/-- Closed form of the four-way match: every present bound is respected (start inclusive, end exclusive). -/
theorem matches_iff (w : Window) (t : Nat) :
    w.matches t = true ↔ (∀ s, w.start = some s → s ≤ t) ∧ (∀ e, w.stop = some e → t < e) := by
  obtain ⟨start, stop⟩ := w
  cases start <;> cases stop <;> simp [Window.matches]

theorem matches_open (t : Nat) : (⟨none, none⟩ : Window).matches t = true := rfl

/-- A window whose end is not after its start is empty – in particular a time-of-day window written "across
midnight" (22:00–02:00). -/
theorem matches_empty_of_le {w : Window} {s e : Nat} (hs : w.start = some s) (he : w.stop = some e)
    (h : e ≤ s) (t : Nat) : w.matches t = false := by
  cases hm : w.matches t with
  | false => rfl
  | true =>
    rw [matches_iff] at hm
    have := hm.1 s hs
    have := hm.2 e he
    omega

theorem timeOfDay_lt (t : Nat) : timeOfDay t < nsPerDay := Nat.mod_lt _ nsPerDay_pos

theorem weekdayNum_lt (t : Nat) : weekdayNum t < 7 := Nat.mod_lt _ (by decide)

theorem instant_decomp (t : Nat) : t = t / nsPerDay * nsPerDay + timeOfDay t := by
  unfold timeOfDay
  have := Nat.div_add_mod t nsPerDay
  rw [Nat.mul_comm] at this
  exact this.symm

theorem timeOfDay_add_day (t : Nat) : timeOfDay (t + nsPerDay) = timeOfDay t := by
  unfold timeOfDay; exact Nat.add_mod_right _ _

theorem weekdayNum_add_day (t : Nat) : weekdayNum (t + nsPerDay) = (weekdayNum t + 1) % 7 := by
  unfold weekdayNum
  rw [Nat.add_div_right _ nsPerDay_pos]
  omega

theorem weekdayNum_add_week (t : Nat) : weekdayNum (t + 7 * nsPerDay) = weekdayNum t := by
  unfold weekdayNum
  rw [Nat.mul_comm, Nat.add_mul_div_left _ _ nsPerDay_pos]
  omega

theorem matchTime_add_day (w : Window) (t : Nat) : matchTime w (t + nsPerDay) = matchTime w t := by
  unfold matchTime; rw [timeOfDay_add_day]

/-! ### Whole-second bounds: the instant may be floored to seconds -/

/-- The same window with bounds in seconds. -/
def Window.toSec (w : Window) : Window := ⟨w.start.map (· / nsPerSec), w.stop.map (· / nsPerSec)⟩

/-- Both bounds (when present) are whole seconds. -/
def Window.WholeSec (w : Window) : Prop :=
  (∀ s, w.start = some s → s % nsPerSec = 0) ∧ (∀ e, w.stop = some e → e % nsPerSec = 0)

theorem le_iff_div_of_dvd {b t k : Nat} (hk : 0 < k) (hb : b % k = 0) : b ≤ t ↔ b / k ≤ t / k := by
  have hb' : b = b / k * k := by
    have := Nat.div_add_mod b k; rw [hb, Nat.add_zero, Nat.mul_comm] at this; exact this.symm
  rw [Nat.le_div_iff_mul_le hk, ← hb']

theorem lt_iff_div_of_dvd {b t k : Nat} (hk : 0 < k) (hb : b % k = 0) : t < b ↔ t / k < b / k := by
  have hb' : b = b / k * k := by
    have := Nat.div_add_mod b k; rw [hb, Nat.add_zero, Nat.mul_comm] at this; exact this.symm
  rw [Nat.div_lt_iff_lt_mul hk, ← hb']

/-- With whole-second bounds the sub-second part of the instant is irrelevant: matching in nanoseconds is matching
of the floored instant in seconds. -/
theorem matches_floor {w : Window} (h : w.WholeSec) (t : Nat) :
    w.matches t = w.toSec.matches (t / nsPerSec) := by
  rw [Bool.eq_iff_iff, matches_iff, matches_iff]
  obtain ⟨start, stop⟩ := w
  obtain ⟨h1, h2⟩ := h
  simp only [Window.toSec, Option.map_eq_some_iff, forall_exists_index, and_imp, forall_apply_eq_imp_iff₂] at *
  constructor
  · rintro ⟨a, b⟩
    exact ⟨fun s hs => (le_iff_div_of_dvd nsPerSec_pos (h1 s hs)).1 (a s hs),
      fun e he => (lt_iff_div_of_dvd nsPerSec_pos (h2 e he)).1 (b e he)⟩
  · rintro ⟨a, b⟩
    exact ⟨fun s hs => (le_iff_div_of_dvd nsPerSec_pos (h1 s hs)).2 (a s hs),
      fun e he => (lt_iff_div_of_dvd nsPerSec_pos (h2 e he)).2 (b e he)⟩

/-- Time of day and week day of the floored instant. -/
theorem timeOfDay_div (t : Nat) : timeOfDay t / nsPerSec = (t / nsPerSec) % 86400 := by
  unfold timeOfDay
  rw [nsPerDay_eq, Nat.mul_comm 86400 nsPerSec, Nat.mod_mul_right_div_self]

theorem weekdayNum_div (t : Nat) : weekdayNum t = ((t / nsPerSec) / 86400 + 3) % 7 := by
  unfold weekdayNum
  rw [nsPerDay_eq, Nat.div_div_eq_div_mul, Nat.mul_comm nsPerSec 86400]

/-! ### Week days and their order -/

theorem num_lt (d : Weekday) : d.num < 7 := by cases d <;> decide

theorem ofNum_num (d : Weekday) : Weekday.ofNum d.num = d := by cases d <;> rfl

theorem num_injective {a b : Weekday} (h : a.num = b.num) : a = b := by
  rw [← ofNum_num a, ← ofNum_num b, h]

theorem map_num_injective {a b : List Weekday} (h : a.map Weekday.num = b.map Weekday.num) : a = b := by
  induction a generalizing b with
  | nil => cases b <;> simp_all
  | cons x xs ih =>
    cases b with
    | nil => simp at h
    | cons y ys =>
      simp only [List.map_cons, List.cons.injEq] at h
      rw [num_injective h.1, ih h.2]

theorem cmpNums_eq_iff (a b : List Nat) : cmpNums a b = .eq ↔ a = b := by
  induction a generalizing b with
  | nil => cases b <;> simp [cmpNums]
  | cons x xs ih =>
    cases b with
    | nil => simp [cmpNums]
    | cons y ys =>
      simp only [cmpNums, List.cons.injEq]
      by_cases h1 : x < y
      · simp [h1]; omega
      · by_cases h2 : y < x
        · simp [h1, h2]; omega
        · have : x = y := by omega
          simp [h1, h2, this, ih]

theorem cmpNums_swap (a b : List Nat) : cmpNums a b = .lt ↔ cmpNums b a = .gt := by
  induction a generalizing b with
  | nil => cases b <;> simp [cmpNums]
  | cons x xs ih =>
    cases b with
    | nil => simp [cmpNums]
    | cons y ys =>
      simp only [cmpNums]
      by_cases h1 : x < y
      · have : ¬ y < x := by omega
        simp [h1, this]
      · by_cases h2 : y < x
        · simp [h1, h2]
        · simp [h1, h2, ih]

theorem cmpNums_lt_trans {a b c : List Nat} (h1 : cmpNums a b = .lt) (h2 : cmpNums b c = .lt) :
    cmpNums a c = .lt := by
  induction a generalizing b c with
  | nil =>
    cases c with
    | nil => cases b <;> simp [cmpNums] at h1 h2
    | cons _ _ => simp [cmpNums]
  | cons x xs ih =>
    cases b with
    | nil => simp [cmpNums] at h1
    | cons y ys =>
      cases c with
      | nil => simp [cmpNums] at h2
      | cons z zs =>
        simp only [cmpNums] at h1 h2 ⊢
        by_cases hxy : x < y
        · by_cases hyz : y < z
          · have : x < z := by omega
            simp [this]
          · by_cases hzy : z < y
            · simp [hyz, hzy] at h2
            · have : y = z := by omega
              subst this; simp [hxy]
        · by_cases hyx : y < x
          · simp [hxy, hyx] at h1
          · have hxy' : x = y := by omega
            subst hxy'
            simp only [hxy, if_false] at h1
            by_cases hyz : x < z
            · simp [hyz]
            · by_cases hzy : z < x
              · simp [hyz, hzy] at h2
              · simp only [hyz, hzy, if_false] at h2 ⊢
                exact ih h1 h2

/-- **Group keys never collide**: two `RouteWeekday`s compare `Equal` exactly when they are the same vector of
days (same days, same order, same repetitions) – consistent with the derived `Eq`. -/
theorem weekday_cmp_eq_iff (a b : RouteWeekday) : a.cmp b = .eq ↔ a = b := by
  unfold RouteWeekday.cmp
  rw [cmpNums_eq_iff]
  constructor
  · intro h
    have := map_num_injective h
    cases a; cases b; simp_all
  · rintro rfl; rfl

end Rio.TimeWindow
