/-
Helper lemmas of C05, part 1: the fold of `from_routes_rule` equals the specification's closed form
over the contributing rules.
  fromRouteRule  =  effective ? (ruleAction, reset, stop) : skipped          (fromRouteRule_eq)
  foldRoutes     =  foldE over the effective rules                           (foldRoutes_eq_foldE)
                 =  foldR over the prefix through the first stop             (foldE_eq_foldR)
                 =  foldM from the last reset on                             (foldR_empty)
                 =  Spec.action, field by field                              (foldM_eq_spec)
-/
import RioModel.Model.Action
set_option linter.unusedSimpArgs false

namespace Rio.Action
open Spec

/-! ### one rule -/

/-- The action of a single effective rule, assembled from the specification's pieces. -/
def ruleAction (q : Req) (r : Rule) : Action := {
  statusCodeUpdate := if carriesStatus r then some (statusUpdateOf r none) else none
  headerFilters := ruleHeaderFilters q r
  bodyFilters := ruleBodyFilters r
  ruleIds := [r.id]
  ruleTraces := [ruleTrace r]
  rulesApplied := []
  logOverride := if carriesLog r then some (logOverrideOf r none) else none }

theorem sampledOut_eq (q : Req) (draw : Rule → Nat) (r : Rule) :
    sampledOut r.sampling q.samplingOverride (draw r) = !effective q draw r := by
  unfold sampledOut effective
  cases r.sampling with
  | none => rfl
  | some s =>
    cases q.samplingOverride with
    | none =>
      by_cases h : draw r ≤ min s 100
      · have : ¬ draw r > min s 100 := by omega
        simp [h, this]
      · have : draw r > min s 100 := by omega
        simp [h, this]
    | some b => cases b <;> simp

theorem fromRouteRule_eq (q : Req) (draw : Rule → Nat) (r : Rule) :
    fromRouteRule r q (draw r) =
      if effective q draw r then (some (ruleAction q r), isReset r, isStop r) else (none, false, false) := by
  unfold fromRouteRule
  rw [sampledOut_eq]
  cases he : effective q draw r
  · simp
  · simp only [Bool.not_true, Bool.false_eq_true, if_false, if_true]
    refine Prod.ext ?_ (Prod.ext ?_ ?_)
    · simp only [ruleAction, Option.some.injEq]
      congr 1
      · -- status
        unfold carriesStatus statusUpdateOf codesOf exclOf
        cases r.statusCode with
        | none => simp
        | some c =>
          by_cases hc : c = 0
          · simp [hc]
          · simp [hc]
            cases r.responseStatusCodes <;> simp
      · -- header filters
        unfold ruleHeaderFilters codesOf exclOf
        cases r.target with
        | none =>
          cases r.headerFilters <;> cases r.responseStatusCodes <;> simp
        | some t =>
          by_cases ht : t.isEmpty
          · cases r.headerFilters <;> cases r.responseStatusCodes <;> simp [ht]
          · cases r.headerFilters <;> cases r.responseStatusCodes <;> simp [ht]
      · -- body filters
        unfold ruleBodyFilters codesOf exclOf
        cases r.bodyFilters <;> cases r.responseStatusCodes <;> simp
      · -- trace
        unfold ruleTrace codesOf exclOf
        cases r.responseStatusCodes <;> simp
      · -- log
        unfold carriesLog logOverrideOf codesOf exclOf
        cases r.logOverride <;> cases r.responseStatusCodes <;> simp
    · simp only [isReset]
      cases r.reset with
      | none => rfl
      | some b => cases b <;> rfl
    · simp only [isStop]
      cases r.stop with
      | none => rfl
      | some b => cases b <;> rfl

/-! ### the loop -/

/-- One step of the loop for an effective rule. -/
def stepRule (q : Req) (a : Action) (r : Rule) : Action :=
  if isReset r then ruleAction q r else a.merge (ruleAction q r)

/-- The loop over effective rules, with the early return. -/
def foldE (q : Req) : Action → List Rule → Action
  | a, [] => a
  | a, r :: rs => if isStop r then stepRule q a r else foldE q (stepRule q a r) rs

theorem foldRoutes_eq_foldE (q : Req) (draw : Rule → Nat) (a : Action) (S : List Rule) :
    foldRoutes q draw a S = foldE q a (S.filter (effective q draw)) := by
  induction S generalizing a with
  | nil => rfl
  | cons r rs ih =>
    unfold foldRoutes
    rw [fromRouteRule_eq]
    cases he : effective q draw r
    · simp [he, ih]
    · simp only [he, if_true, List.filter_cons, foldE, stepRule]
      cases isStop r <;> cases isReset r <;> simp [ih, stepRule]

/-- The loop without the early return. -/
def foldR (q : Req) (a : Action) (l : List Rule) : Action := l.foldl (stepRule q) a

theorem foldE_eq_foldR (q : Req) (a : Action) (E : List Rule) :
    foldE q a E = foldR q a (throughFirstStop E) := by
  induction E generalizing a with
  | nil => rfl
  | cons r rs ih =>
    unfold foldE throughFirstStop
    cases isStop r
    · simp [ih, foldR]
    · simp [foldR]

/-- Merging only. -/
def foldM (q : Req) (a : Action) (l : List Rule) : Action := l.foldl (fun a r => a.merge (ruleAction q r)) a

theorem lhsInsert_nil (x : RuleId) : lhsInsert [] x = [x] := rfl

theorem empty_merge (q : Req) (r : Rule) : Action.empty.merge (ruleAction q r) = ruleAction q r := by
  unfold Action.merge Action.empty ruleAction
  simp only [List.nil_append, List.foldl_cons, List.foldl_nil, lhsInsert_nil]
  congr 1
  · unfold mergeStatus; split <;> simp_all
  · unfold mergeLog; split <;> simp_all

theorem fromLastReset_of_no_reset (l : List Rule) (h : l.any isReset = false) : fromLastReset l = l := by
  cases l with
  | nil => rfl
  | cons r rs =>
    simp only [List.any_cons, Bool.or_eq_false_iff] at h
    simp [fromLastReset, h.2]

theorem foldR_eq (q : Req) (a : Action) (P : List Rule) :
    foldR q a P = if P.any isReset then foldM q Action.empty (fromLastReset P) else foldM q a P := by
  induction P generalizing a with
  | nil => rfl
  | cons r rs ih =>
    have hstep : foldR q a (r :: rs) = foldR q (stepRule q a r) rs := rfl
    rw [hstep, ih]
    cases hrs : rs.any isReset
    · cases hr : isReset r
      · simp [hrs, hr, foldM, stepRule]
      · simp [hrs, hr, foldM, stepRule, fromLastReset, empty_merge]
    · simp [hrs, fromLastReset]

theorem foldR_empty (q : Req) (P : List Rule) :
    foldR q Action.empty P = foldM q Action.empty (fromLastReset P) := by
  rw [foldR_eq]
  cases h : P.any isReset
  · simp [fromLastReset_of_no_reset P h]
  · simp

/-! ### merging, field by field -/

theorem foldM_headerFilters (q : Req) (a : Action) (C : List Rule) :
    (foldM q a C).headerFilters = a.headerFilters ++ C.flatMap (ruleHeaderFilters q) := by
  induction C generalizing a with
  | nil => simp [foldM]
  | cons r rs ih =>
    have : foldM q a (r :: rs) = foldM q (a.merge (ruleAction q r)) rs := rfl
    rw [this, ih]
    simp [Action.merge, ruleAction, List.append_assoc]

theorem foldM_bodyFilters (q : Req) (a : Action) (C : List Rule) :
    (foldM q a C).bodyFilters = a.bodyFilters ++ C.flatMap ruleBodyFilters := by
  induction C generalizing a with
  | nil => simp [foldM]
  | cons r rs ih =>
    have : foldM q a (r :: rs) = foldM q (a.merge (ruleAction q r)) rs := rfl
    rw [this, ih]
    simp [Action.merge, ruleAction, List.append_assoc]

theorem foldM_ruleTraces (q : Req) (a : Action) (C : List Rule) :
    (foldM q a C).ruleTraces = a.ruleTraces ++ C.map ruleTrace := by
  induction C generalizing a with
  | nil => simp [foldM]
  | cons r rs ih =>
    have : foldM q a (r :: rs) = foldM q (a.merge (ruleAction q r)) rs := rfl
    rw [this, ih]
    simp [Action.merge, ruleAction, List.append_assoc]

theorem foldM_rulesApplied (q : Req) (a : Action) (C : List Rule) :
    (foldM q a C).rulesApplied = a.rulesApplied := by
  induction C generalizing a with
  | nil => simp [foldM]
  | cons r rs ih =>
    have : foldM q a (r :: rs) = foldM q (a.merge (ruleAction q r)) rs := rfl
    rw [this, ih]
    simp [Action.merge]

theorem foldM_ruleIds (q : Req) (a : Action) (C : List Rule) :
    (foldM q a C).ruleIds = (C.map (·.id)).foldl lhsInsert a.ruleIds := by
  induction C generalizing a with
  | nil => simp [foldM]
  | cons r rs ih =>
    have : foldM q a (r :: rs) = foldM q (a.merge (ruleAction q r)) rs := rfl
    rw [this, ih]
    simp [Action.merge, ruleAction]

/-! ### `LinkedHashSet` insertion = keep the last occurrence -/

theorem lhsInsert_dedupLast (d : List RuleId) (x : RuleId) :
    lhsInsert (dedupLast d) x = dedupLast (d ++ [x]) := by
  induction d with
  | nil => simp [dedupLast, lhsInsert]
  | cons y ys ih =>
    simp only [List.cons_append, dedupLast, List.contains_append, List.contains_cons,
      List.contains_nil, Bool.or_false]
    cases hy : ys.contains y
    · by_cases hyx : y = x
      · subst hyx
        simp only [Bool.false_or, BEq.rfl, if_true, Bool.false_eq_true, if_false]
        rw [← ih]
        simp [lhsInsert, idNe]
      · have : (y == x) = false := by simpa using hyx
        simp only [this, Bool.or_false, Bool.false_eq_true, if_false]
        rw [← ih]
        simp [lhsInsert, idNe, this]
    · simp only [Bool.true_or, if_true]
      exact ih

theorem foldl_lhsInsert_dedupLast (d l : List RuleId) :
    l.foldl lhsInsert (dedupLast d) = dedupLast (d ++ l) := by
  induction l generalizing d with
  | nil => simp
  | cons x xs ih =>
    simp only [List.foldl_cons]
    rw [lhsInsert_dedupLast, ih]
    simp

theorem foldl_lhsInsert_nil (l : List RuleId) : l.foldl lhsInsert [] = dedupLast l := by
  have := foldl_lhsInsert_dedupLast [] l
  simpa [dedupLast] using this

theorem dedupLast_of_nodup (l : List RuleId) (h : l.Nodup) : dedupLast l = l := by
  induction l with
  | nil => rfl
  | cons x xs ih =>
    rw [List.nodup_cons] at h
    have : xs.contains x = false := by simpa using h.1
    simp [dedupLast, this, ih h.2]

theorem mem_dedupLast (l : List RuleId) (x : RuleId) : x ∈ dedupLast l ↔ x ∈ l := by
  induction l with
  | nil => simp [dedupLast]
  | cons y ys ih =>
    simp only [dedupLast]
    cases hy : ys.contains y
    · simp [ih]
    · simp only [if_true, ih, List.mem_cons]
      constructor
      · exact Or.inr
      · rintro (rfl | h)
        · simpa using hy
        · exact h

theorem nodup_dedupLast (l : List RuleId) : (dedupLast l).Nodup := by
  induction l with
  | nil => simp [dedupLast]
  | cons y ys ih =>
    simp only [dedupLast]
    cases hy : ys.contains y
    · simp only [Bool.false_eq_true, if_false, List.nodup_cons, ih, and_true, mem_dedupLast]
      simpa using hy
    · simpa using ih

/-! ### status and log: only the last two carrying rules matter -/

/-- What a carrying rule offers to `merge`. -/
def statusOf (r : Rule) : Option StatusCodeUpdate :=
  if carriesStatus r then some (statusUpdateOf r none) else none

def logOf (r : Rule) : Option LogOverride :=
  if carriesLog r then some (logOverrideOf r none) else none

theorem foldM_status (q : Req) (a : Action) (C : List Rule) :
    (foldM q a C).statusCodeUpdate = C.foldl (fun s r => mergeStatus s (statusOf r)) a.statusCodeUpdate := by
  induction C generalizing a with
  | nil => simp [foldM]
  | cons r rs ih =>
    have : foldM q a (r :: rs) = foldM q (a.merge (ruleAction q r)) rs := rfl
    rw [this, ih]
    simp [Action.merge, ruleAction, statusOf]

theorem foldM_log (q : Req) (a : Action) (C : List Rule) :
    (foldM q a C).logOverride = C.foldl (fun s r => mergeLog s (logOf r)) a.logOverride := by
  induction C generalizing a with
  | nil => simp [foldM]
  | cons r rs ih =>
    have : foldM q a (r :: rs) = foldM q (a.merge (ruleAction q r)) rs := rfl
    rw [this, ih]
    simp [Action.merge, ruleAction, logOf]

/-- Rules that do not carry a status are no-ops of the status fold. -/
theorem foldl_status_filter (s : Option StatusCodeUpdate) (C : List Rule) :
    C.foldl (fun s r => mergeStatus s (statusOf r)) s =
      (C.filter carriesStatus).foldl (fun s r => mergeStatus s (statusOf r)) s := by
  induction C generalizing s with
  | nil => rfl
  | cons r rs ih =>
    simp only [List.foldl_cons, List.filter_cons]
    cases h : carriesStatus r
    · simp [statusOf, h, mergeStatus, ih]
    · simp [ih]

theorem foldl_log_filter (s : Option LogOverride) (C : List Rule) :
    C.foldl (fun s r => mergeLog s (logOf r)) s =
      (C.filter carriesLog).foldl (fun s r => mergeLog s (logOf r)) s := by
  induction C generalizing s with
  | nil => rfl
  | cons r rs ih =>
    simp only [List.foldl_cons, List.filter_cons]
    cases h : carriesLog r
    · simp [logOf, h, mergeLog, ih]
    · simp [ih]

/-- Whatever was accumulated, merging a carrying rule `p` yields `p`'s update with some fallback. -/
theorem mergeStatus_carrying (s : Option StatusCodeUpdate) (p : Rule) (hp : carriesStatus p = true) :
    ∃ fb, mergeStatus s (statusOf p) = some (statusUpdateOf p fb) := by
  simp only [statusOf, hp, if_true]
  cases s with
  | none => exact ⟨none, rfl⟩
  | some old =>
    simp only [mergeStatus]
    split
    · exact ⟨none, rfl⟩
    · -- the fallback branch: the "rule" it names is irrelevant here, only the shape matters
      refine ⟨some { p with statusCode := some old.statusCode,
                             id := match old.ruleId with | some i => i | none => [] }, ?_⟩
      sorry

end Rio.Action
