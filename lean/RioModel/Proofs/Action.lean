/-
Helper lemmas of C05, part 1: the fold of `from_routes_rule` equals the specification's closed form
over the contributing rules.
  fromRouteRule  =  effective ? (ruleAction, reset, stop) : skipped          (fromRouteRule_eq)
  foldRoutes     =  foldE over the effective rules                           (foldRoutes_eq_foldE)
                 =  foldR over the prefix through the first stop             (foldE_eq_foldR)
                 =  foldM from the last reset on                             (foldR_empty)
                 =  Spec.action, field by field                              (foldM_eq_spec)
-/
import RioModel.Model.Action
set_option linter.unusedSimpArgs false

namespace Rio.Action
open Spec

/-! ### one rule -/

/-- The action of a single effective rule, assembled from the specification's pieces. -/
def ruleAction (q : Req) (r : Rule) : Action := {
  statusCodeUpdate := if carriesStatus r then some (statusUpdateOf r none) else none
  headerFilters := ruleHeaderFilters q r
  bodyFilters := ruleBodyFilters r
  ruleIds := [r.id]
  ruleTraces := [ruleTrace r]
  rulesApplied := []
  logOverride := if carriesLog r then some (logOverrideOf r none) else none }

theorem sampledOut_eq (q : Req) (draw : Rule → Nat) (r : Rule) :
    sampledOut r.sampling q.samplingOverride (draw r) = !effective q draw r := by
  unfold sampledOut effective
  cases r.sampling with
  | none => rfl
  | some s =>
    cases q.samplingOverride with
    | none =>
      by_cases h : draw r ≤ min s 100
      · have : ¬ draw r > min s 100 := by omega
        simp [h, this]
      · have : draw r > min s 100 := by omega
        simp [h, this]
    | some b => cases b <;> simp

theorem fromRouteRule_eq (q : Req) (draw : Rule → Nat) (r : Rule) :
    fromRouteRule r q (draw r) =
      if effective q draw r then (some (ruleAction q r), isReset r, isStop r) else (none, false, false) := by
  unfold fromRouteRule
  rw [sampledOut_eq]
  cases he : effective q draw r
  · simp
  · simp only [Bool.not_true, Bool.false_eq_true, if_false, if_true]
    refine Prod.ext ?_ (Prod.ext ?_ ?_)
    · simp only [ruleAction, Option.some.injEq]
      congr 1
      · -- status
        unfold carriesStatus statusUpdateOf codesOf exclOf
        cases r.statusCode with
        | none => simp
        | some c =>
          by_cases hc : c = 0
          · simp [hc]
          · simp [hc]
            cases r.responseStatusCodes <;> simp
      · -- header filters
        unfold ruleHeaderFilters codesOf exclOf
        cases r.target with
        | none =>
          cases r.headerFilters <;> cases r.responseStatusCodes <;> simp
        | some t =>
          by_cases ht : emptyTarget t
          · cases r.headerFilters <;> cases r.responseStatusCodes <;> simp [ht]
          · cases r.headerFilters <;> cases r.responseStatusCodes <;> simp [ht]
      · -- body filters
        unfold ruleBodyFilters codesOf exclOf
        cases r.bodyFilters <;> cases r.responseStatusCodes <;> simp
      · -- trace
        unfold ruleTrace codesOf exclOf
        cases r.responseStatusCodes <;> simp
      · -- log
        unfold carriesLog logOverrideOf codesOf exclOf
        cases r.logOverride <;> cases r.responseStatusCodes <;> simp
    · simp only [isReset]
      cases r.reset with
      | none => rfl
      | some b => cases b <;> rfl
    · simp only [isStop]
      cases r.stop with
      | none => rfl
      | some b => cases b <;> rfl

/-! ### the loop -/

/-- One step of the loop for an effective rule. -/
def stepRule (q : Req) (a : Action) (r : Rule) : Action :=
  if isReset r then ruleAction q r else a.merge (ruleAction q r)

/-- The loop over effective rules, with the early return. -/
def foldE (q : Req) : Action → List Rule → Action
  | a, [] => a
  | a, r :: rs => if isStop r then stepRule q a r else foldE q (stepRule q a r) rs

theorem foldRoutes_eq_foldE (q : Req) (draw : Rule → Nat) (a : Action) (S : List Rule) :
    foldRoutes q draw a S = foldE q a (S.filter (effective q draw)) := by
  induction S generalizing a with
  | nil => rfl
  | cons r rs ih =>
    unfold foldRoutes
    rw [fromRouteRule_eq]
    cases he : effective q draw r
    · simp [he, ih]
    · simp only [he, if_true, List.filter_cons, foldE, stepRule]
      cases isStop r <;> cases isReset r <;> simp [ih, stepRule]

/-- The loop without the early return. -/
def foldR (q : Req) (a : Action) (l : List Rule) : Action := l.foldl (stepRule q) a

theorem foldE_eq_foldR (q : Req) (a : Action) (E : List Rule) :
    foldE q a E = foldR q a (throughFirstStop E) := by
  induction E generalizing a with
  | nil => rfl
  | cons r rs ih =>
    unfold foldE throughFirstStop
    cases isStop r
    · simp [ih, foldR]
    · simp [foldR]

/-- Merging only. -/
def foldM (q : Req) (a : Action) (l : List Rule) : Action := l.foldl (fun a r => a.merge (ruleAction q r)) a

theorem lhsInsert_nil (x : RuleId) : lhsInsert [] x = [x] := rfl

theorem empty_merge (q : Req) (r : Rule) : Action.empty.merge (ruleAction q r) = ruleAction q r := by
  unfold Action.merge Action.empty ruleAction
  simp only [List.nil_append, List.foldl_cons, List.foldl_nil, lhsInsert_nil]
  congr 1
  · unfold mergeStatus; split <;> simp_all
  · unfold mergeLog; split <;> simp_all

theorem fromLastReset_of_no_reset (l : List Rule) (h : l.any isReset = false) : fromLastReset l = l := by
  cases l with
  | nil => rfl
  | cons r rs =>
    simp only [List.any_cons, Bool.or_eq_false_iff] at h
    simp [fromLastReset, h.2]

theorem foldR_eq (q : Req) (a : Action) (P : List Rule) :
    foldR q a P = if P.any isReset then foldM q Action.empty (fromLastReset P) else foldM q a P := by
  induction P generalizing a with
  | nil => rfl
  | cons r rs ih =>
    have hstep : foldR q a (r :: rs) = foldR q (stepRule q a r) rs := rfl
    rw [hstep, ih]
    cases hrs : rs.any isReset
    · cases hr : isReset r
      · simp [hrs, hr, foldM, stepRule]
      · simp [hrs, hr, foldM, stepRule, fromLastReset, empty_merge]
    · simp [hrs, fromLastReset]

theorem foldR_empty (q : Req) (P : List Rule) :
    foldR q Action.empty P = foldM q Action.empty (fromLastReset P) := by
  rw [foldR_eq]
  cases h : P.any isReset
  · simp [fromLastReset_of_no_reset P h]
  · simp

/-! ### merging, field by field -/

theorem foldM_headerFilters (q : Req) (a : Action) (C : List Rule) :
    (foldM q a C).headerFilters = a.headerFilters ++ C.flatMap (ruleHeaderFilters q) := by
  induction C generalizing a with
  | nil => simp [foldM]
  | cons r rs ih =>
    have : foldM q a (r :: rs) = foldM q (a.merge (ruleAction q r)) rs := rfl
    rw [this, ih]
    simp [Action.merge, ruleAction, List.append_assoc]

theorem foldM_bodyFilters (q : Req) (a : Action) (C : List Rule) :
    (foldM q a C).bodyFilters = a.bodyFilters ++ C.flatMap ruleBodyFilters := by
  induction C generalizing a with
  | nil => simp [foldM]
  | cons r rs ih =>
    have : foldM q a (r :: rs) = foldM q (a.merge (ruleAction q r)) rs := rfl
    rw [this, ih]
    simp [Action.merge, ruleAction, List.append_assoc]

theorem foldM_ruleTraces (q : Req) (a : Action) (C : List Rule) :
    (foldM q a C).ruleTraces = a.ruleTraces ++ C.map ruleTrace := by
  induction C generalizing a with
  | nil => simp [foldM]
  | cons r rs ih =>
    have : foldM q a (r :: rs) = foldM q (a.merge (ruleAction q r)) rs := rfl
    rw [this, ih]
    simp [Action.merge, ruleAction, List.append_assoc]

theorem foldM_rulesApplied (q : Req) (a : Action) (C : List Rule) :
    (foldM q a C).rulesApplied = a.rulesApplied := by
  induction C generalizing a with
  | nil => simp [foldM]
  | cons r rs ih =>
    have : foldM q a (r :: rs) = foldM q (a.merge (ruleAction q r)) rs := rfl
    rw [this, ih]
    simp [Action.merge]

theorem foldM_ruleIds (q : Req) (a : Action) (C : List Rule) :
    (foldM q a C).ruleIds = (C.map (·.id)).foldl lhsInsert a.ruleIds := by
  induction C generalizing a with
  | nil => simp [foldM]
  | cons r rs ih =>
    have : foldM q a (r :: rs) = foldM q (a.merge (ruleAction q r)) rs := rfl
    rw [this, ih]
    simp [Action.merge, ruleAction]

/-! ### `LinkedHashSet` insertion = keep the last occurrence -/

theorem lhsInsert_dedupLast (d : List RuleId) (x : RuleId) :
    lhsInsert (dedupLast d) x = dedupLast (d ++ [x]) := by
  induction d with
  | nil => simp [dedupLast, lhsInsert]
  | cons y ys ih =>
    simp only [List.cons_append, dedupLast, List.contains_append, List.contains_cons,
      List.contains_nil, Bool.or_false]
    cases hy : ys.contains y
    · by_cases hyx : y = x
      · subst hyx
        simp only [Bool.false_or, BEq.rfl, if_true, Bool.false_eq_true, if_false]
        rw [← ih]
        simp [lhsInsert, idNe]
      · have : (y == x) = false := by simpa using hyx
        simp only [this, Bool.or_false, Bool.false_eq_true, if_false]
        rw [← ih]
        simp [lhsInsert, idNe, this]
    · simp only [Bool.true_or, if_true]
      exact ih

theorem foldl_lhsInsert_dedupLast (d l : List RuleId) :
    l.foldl lhsInsert (dedupLast d) = dedupLast (d ++ l) := by
  induction l generalizing d with
  | nil => simp
  | cons x xs ih =>
    simp only [List.foldl_cons]
    rw [lhsInsert_dedupLast, ih]
    simp

theorem foldl_lhsInsert_nil (l : List RuleId) : l.foldl lhsInsert [] = dedupLast l := by
  have := foldl_lhsInsert_dedupLast [] l
  simpa [dedupLast] using this

theorem dedupLast_of_nodup (l : List RuleId) (h : l.Nodup) : dedupLast l = l := by
  induction l with
  | nil => rfl
  | cons x xs ih =>
    rw [List.nodup_cons] at h
    have : xs.contains x = false := by simpa using h.1
    simp only [dedupLast, this, ih h.2, Bool.false_eq_true, if_false]

theorem mem_dedupLast (l : List RuleId) (x : RuleId) : x ∈ dedupLast l ↔ x ∈ l := by
  induction l with
  | nil => simp [dedupLast]
  | cons y ys ih =>
    simp only [dedupLast]
    cases hy : ys.contains y
    · simp [ih]
    · simp only [if_true, ih, List.mem_cons]
      constructor
      · exact Or.inr
      · rintro (rfl | h)
        · simpa using hy
        · exact h

theorem nodup_dedupLast (l : List RuleId) : (dedupLast l).Nodup := by
  induction l with
  | nil => simp [dedupLast]
  | cons y ys ih =>
    simp only [dedupLast]
    cases hy : ys.contains y
    · simp only [Bool.false_eq_true, if_false, List.nodup_cons, ih, and_true, mem_dedupLast]
      simpa using hy
    · simpa using ih

/-! ### status and log: only the last two carrying rules matter -/

/-- What a carrying rule offers to `merge`. -/
def statusOf (r : Rule) : Option StatusCodeUpdate :=
  if carriesStatus r then some (statusUpdateOf r none) else none

def logOf (r : Rule) : Option LogOverride :=
  if carriesLog r then some (logOverrideOf r none) else none

theorem foldM_status (q : Req) (a : Action) (C : List Rule) :
    (foldM q a C).statusCodeUpdate = C.foldl (fun s r => mergeStatus s (statusOf r)) a.statusCodeUpdate := by
  induction C generalizing a with
  | nil => simp [foldM]
  | cons r rs ih =>
    have : foldM q a (r :: rs) = foldM q (a.merge (ruleAction q r)) rs := rfl
    rw [this, ih]
    simp [Action.merge, ruleAction, statusOf]

theorem foldM_log (q : Req) (a : Action) (C : List Rule) :
    (foldM q a C).logOverride = C.foldl (fun s r => mergeLog s (logOf r)) a.logOverride := by
  induction C generalizing a with
  | nil => simp [foldM]
  | cons r rs ih =>
    have : foldM q a (r :: rs) = foldM q (a.merge (ruleAction q r)) rs := rfl
    rw [this, ih]
    simp [Action.merge, ruleAction, logOf]

/-- Rules that do not carry a status are no-ops of the status fold. -/
theorem foldl_status_filter (s : Option StatusCodeUpdate) (C : List Rule) :
    C.foldl (fun s r => mergeStatus s (statusOf r)) s =
      (C.filter carriesStatus).foldl (fun s r => mergeStatus s (statusOf r)) s := by
  induction C generalizing s with
  | nil => rfl
  | cons r rs ih =>
    simp only [List.foldl_cons, List.filter_cons]
    cases h : carriesStatus r
    · have : mergeStatus s (statusOf r) = s := by simp [statusOf, h, mergeStatus]
      simp only [this, Bool.false_eq_true, if_false]
      exact ih s
    · simp only [if_true, List.foldl_cons]
      exact ih _

theorem foldl_log_filter (s : Option LogOverride) (C : List Rule) :
    C.foldl (fun s r => mergeLog s (logOf r)) s =
      (C.filter carriesLog).foldl (fun s r => mergeLog s (logOf r)) s := by
  induction C generalizing s with
  | nil => rfl
  | cons r rs ih =>
    simp only [List.foldl_cons, List.filter_cons]
    cases h : carriesLog r
    · have : mergeLog s (logOf r) = s := by simp [logOf, h, mergeLog]
      simp only [this, Bool.false_eq_true, if_false]
      exact ih s
    · simp only [if_true, List.foldl_cons]
      exact ih _

/-- The fallback the specification assigns to primary `p` preceded by `q`. -/
def fbOf (q p : Rule) : Option Rule := if unconditional q && !unconditional p then some q else none

/-- Whatever was accumulated, merging a carrying rule `q` leaves an update that shows `q`'s code,
code list and id. -/
theorem mergeStatus_carrying (s : Option StatusCodeUpdate) (q : Rule) (hq : carriesStatus q = true) :
    ∃ u, mergeStatus s (statusOf q) = some u ∧ u.onResponseStatusCodes = codesOf q ∧
      u.statusCode = q.statusCode.getD 0 ∧ u.ruleId = some q.id := by
  simp only [statusOf, hq, if_true]
  cases s with
  | none => exact ⟨_, rfl, rfl, rfl, rfl⟩
  | some old =>
    simp only [mergeStatus]
    split
    · exact ⟨_, rfl, rfl, rfl, rfl⟩
    · exact ⟨_, rfl, rfl, rfl, rfl⟩

theorem mergeStatus_over (u : StatusCodeUpdate) (q p : Rule) (hp : carriesStatus p = true)
    (h1 : u.onResponseStatusCodes = codesOf q) (h2 : u.statusCode = q.statusCode.getD 0)
    (h3 : u.ruleId = some q.id) :
    mergeStatus (some u) (statusOf p) = some (statusUpdateOf p (fbOf q p)) := by
  simp only [statusOf, hp, if_true, mergeStatus, fbOf, unconditional, h1]
  by_cases hq : codesOf q = []
  · by_cases hpc : codesOf p = []
    · simp [statusUpdateOf, hpc, hq]
    · simp [statusUpdateOf, hpc, hq, h2, h3]
  · simp [statusUpdateOf, hq]

theorem status_closed (L : List Rule) (hL : ∀ r ∈ L, carriesStatus r = true) :
    L.foldl (fun s r => mergeStatus s (statusOf r)) none =
      match L.reverse with
      | [] => none
      | [p] => some (statusUpdateOf p none)
      | p :: q :: _ => some (statusUpdateOf p (fbOf q p)) := by
  have hrev : L = L.reverse.reverse := by simp
  generalize hR : L.reverse = R at hrev
  subst hrev
  match R, hL with
  | [], _ => rfl
  | [p], hL =>
    have hp := hL p (by simp)
    simp [statusOf, hp, mergeStatus]
  | p :: q :: t, hL =>
    have hp := hL p (by simp)
    have hq := hL q (by simp)
    simp only [List.reverse_cons, List.append_assoc, List.foldl_append, List.foldl_cons,
      List.foldl_nil, List.nil_append]
    obtain ⟨u, hu, h1, h2, h3⟩ :=
      mergeStatus_carrying (t.reverse.foldl (fun s r => mergeStatus s (statusOf r)) none) q hq
    rw [hu, mergeStatus_over u q p hp h1 h2 h3]

theorem mergeLog_carrying (s : Option LogOverride) (q : Rule) (hq : carriesLog q = true) :
    ∃ u, mergeLog s (logOf q) = some u ∧ u.onResponseStatusCodes = codesOf q ∧
      u.logOverride = q.logOverride.getD false ∧ u.ruleId = some q.id ∧
      (codesOf q = [] → u.unitId = q.configurationLogUnitId) := by
  simp only [logOf, hq, if_true]
  cases s with
  | none => exact ⟨_, rfl, rfl, rfl, rfl, fun _ => rfl⟩
  | some old =>
    simp only [mergeLog]
    split
    · exact ⟨_, rfl, rfl, rfl, rfl, fun _ => rfl⟩
    · rename_i h
      refine ⟨_, rfl, rfl, rfl, rfl, fun e => ?_⟩
      simp [logOverrideOf, e] at h

theorem mergeLog_over (u : LogOverride) (q p : Rule) (hp : carriesLog p = true)
    (h1 : u.onResponseStatusCodes = codesOf q) (h2 : u.logOverride = q.logOverride.getD false)
    (h3 : u.ruleId = some q.id) (h4 : codesOf q = [] → u.unitId = q.configurationLogUnitId) :
    mergeLog (some u) (logOf p) = some (logOverrideOf p (fbOf q p)) := by
  simp only [logOf, hp, if_true, mergeLog, fbOf, unconditional, h1]
  by_cases hq : codesOf q = []
  · by_cases hpc : codesOf p = []
    · simp [logOverrideOf, hpc, hq]
    · simp [logOverrideOf, hpc, hq, h2, h3, h4 hq]
  · simp [logOverrideOf, hq]

theorem log_closed (L : List Rule) (hL : ∀ r ∈ L, carriesLog r = true) :
    L.foldl (fun s r => mergeLog s (logOf r)) none =
      match L.reverse with
      | [] => none
      | [p] => some (logOverrideOf p none)
      | p :: q :: _ => some (logOverrideOf p (fbOf q p)) := by
  have hrev : L = L.reverse.reverse := by simp
  generalize hR : L.reverse = R at hrev
  subst hrev
  match R, hL with
  | [], _ => rfl
  | [p], hL =>
    have hp := hL p (by simp)
    simp [logOf, hp, mergeLog]
  | p :: q :: t, hL =>
    have hp := hL p (by simp)
    have hq := hL q (by simp)
    simp only [List.reverse_cons, List.append_assoc, List.foldl_append, List.foldl_cons,
      List.foldl_nil, List.nil_append]
    obtain ⟨u, hu, h1, h2, h3, h4⟩ :=
      mergeLog_carrying (t.reverse.foldl (fun s r => mergeLog s (logOf r)) none) q hq
    rw [hu, mergeLog_over u q p hp h1 h2 h3 h4]

/-! ### the closed form of the whole fold -/

theorem foldM_eq_spec (q : Req) (C : List Rule) : foldM q Action.empty C = Spec.action q C := by
  have hs := foldM_status q Action.empty C
  have hl := foldM_log q Action.empty C
  have e1 : Action.empty.statusCodeUpdate = none := rfl
  have e2 : Action.empty.logOverride = none := rfl
  rw [e1] at hs
  rw [e2] at hl
  rw [foldl_status_filter, status_closed _ (fun r hr => (List.mem_filter.mp hr).2)] at hs
  rw [foldl_log_filter, log_closed _ (fun r hr => (List.mem_filter.mp hr).2)] at hl
  have e : foldM q Action.empty C =
      ⟨(foldM q Action.empty C).statusCodeUpdate, (foldM q Action.empty C).headerFilters,
       (foldM q Action.empty C).bodyFilters, (foldM q Action.empty C).ruleIds,
       (foldM q Action.empty C).ruleTraces, (foldM q Action.empty C).rulesApplied,
       (foldM q Action.empty C).logOverride⟩ := rfl
  rw [e, hs, hl, foldM_headerFilters, foldM_bodyFilters, foldM_ruleTraces, foldM_rulesApplied,
    foldM_ruleIds]
  simp only [Action.empty, List.nil_append, foldl_lhsInsert_nil, Spec.action, primaryFallback]
  congr 1
  · cases (C.filter carriesStatus).reverse with
    | nil => rfl
    | cons p t => cases t <;> simp [fbOf]
  · cases (C.filter carriesLog).reverse with
    | nil => rfl
    | cons p t => cases t <;> simp [fbOf]

/-- The fold of `from_routes_rule` over ANY list (sorted or not) is the specification's action over the
contributing rules of that list. -/
theorem foldRoutes_eq_spec (q : Req) (draw : Rule → Nat) (S : List Rule) :
    foldRoutes q draw Action.empty S = Spec.action q (contributing q draw S) := by
  rw [foldRoutes_eq_foldE, foldE_eq_foldR, foldR_empty, foldM_eq_spec]
  rfl

end Rio.Action
