/-
Lemmas about `Rio.Ffi` (abstract heap + ownership transfers of the C interface).

The invariant of `protocol_safe` is

    Inv st  :=  st.heap.faults = []  ∧  Perm (liveList st.heap) (ownedSlots st.slots)  ∧  buffers well formed

"the live allocations are, as a multiset, exactly what the caller's unreleased handles own, each with the size
it will be released with".  Every entry point is a composition of three kinds of moves, each preserving `Inv`:
a borrow (`use` of an owned allocation: no effect), an acquisition (the heap gains exactly what the new slot
owns), a release (the heap loses exactly what the released slot owned).
-/
import RioModel.Model.Ffi
set_option linter.unusedSimpArgs false
set_option linter.unusedSectionVars false
set_option linter.unusedVariables false

namespace Rio.Ffi
open Heap

abbrev Own := Nat × Nat × Kind

/-! ### Heap -/

theorem liveFrom_append (i : Nat) (a b : List Cell) :
    liveFrom i (a ++ b) = liveFrom i a ++ liveFrom (i + a.length) b := by
  induction a generalizing i with
  | nil => simp [liveFrom]
  | cons c cs ih =>
    simp only [List.cons_append, liveFrom, ih, List.length_cons, List.append_assoc]
    have : i + 1 + cs.length = i + (cs.length + 1) := by omega
    rw [this]

theorem alloc_faults (h : Heap) (k : Kind) (n : Nat) : (h.alloc k n).1.faults = h.faults := rfl

theorem alloc_live (h : Heap) (k : Kind) (n : Nat) :
    (h.alloc k n).1.liveList = h.liveList ++ [((h.alloc k n).2, n, k)] := by
  simp [alloc, liveList, liveFrom_append, liveFrom]

/-- ids reported by `liveFrom i` are ≥ `i` -/
theorem liveFrom_ge {i : Nat} {cells : List Cell} {x : Own} (hx : x ∈ liveFrom i cells) : i ≤ x.1 := by
  induction cells generalizing i with
  | nil => simp [liveFrom] at hx
  | cons c cs ih =>
    simp only [liveFrom, List.mem_append] at hx
    rcases hx with hx | hx
    · split at hx
      · simp at hx; rw [hx]; exact Nat.le_refl _
      · simp at hx
    · have := ih hx; omega

/-- a live triple is the cell at its index -/
theorem liveFrom_get {i : Nat} {cells : List Cell} {id size : Nat} {k : Kind}
    (hx : (id, size, k) ∈ liveFrom i cells) : ∃ c, cells[id - i]? = some c ∧ c.live = true ∧ c.size = size ∧ c.kind = k := by
  induction cells generalizing i with
  | nil => simp [liveFrom] at hx
  | cons c cs ih =>
    simp only [liveFrom, List.mem_append] at hx
    rcases hx with hx | hx
    · split at hx
      · rename_i hl
        simp only [List.mem_singleton, Prod.mk.injEq] at hx
        obtain ⟨h1, h2, h3⟩ := hx
        subst h1
        exact ⟨c, by simp, hl, h2.symm, h3.symm⟩
      · simp at hx
    · have hge := liveFrom_ge hx
      obtain ⟨c', h1, h2⟩ := ih hx
      refine ⟨c', ?_, h2⟩
      have : id - i = (id - (i + 1)) + 1 := by simp at hge; omega
      rw [this]; simpa using h1

theorem live_get {h : Heap} {id size : Nat} {k : Kind} (hx : (id, size, k) ∈ h.liveList) :
    ∃ c, h.cells[id]? = some c ∧ c.live = true ∧ c.size = size ∧ c.kind = k := by
  have := liveFrom_get hx
  simpa using this

/-- killing a live cell removes exactly its triple -/
theorem liveFrom_kill {i : Nat} {cells : List Cell} {n : Nat} {c : Cell}
    (hc : cells[n]? = some c) (hl : c.live = true) :
    List.Perm (liveFrom i cells) ((i + n, c.size, c.kind) :: liveFrom i (kill cells n)) := by
  induction cells generalizing i n with
  | nil => simp at hc
  | cons d ds ih =>
    cases n with
    | zero =>
      simp only [List.getElem?_cons_zero, Option.some.injEq] at hc
      subst hc
      simp [liveFrom, kill, hl]
    | succ n =>
      simp only [List.getElem?_cons_succ] at hc
      have := ih (i := i + 1) hc
      simp only [liveFrom, kill]
      have e : i + 1 + n = i + (n + 1) := by omega
      rw [e] at this
      refine List.Perm.trans (List.Perm.append_left _ this) ?_
      exact List.perm_middle

theorem use_live {h : Heap} {id size : Nat} {k : Kind} (hx : (id, size, k) ∈ h.liveList) : h.use id = h := by
  obtain ⟨c, hc, hl, _, _⟩ := live_get hx
  simp [Heap.use, hc, hl]

theorem dealloc_live {h : Heap} {id size : Nat} {k : Kind} (hx : (id, size, k) ∈ h.liveList) :
    (h.dealloc id size).faults = h.faults ∧
      List.Perm h.liveList ((id, size, k) :: (h.dealloc id size).liveList) := by
  obtain ⟨c, hc, hl, hs, hk⟩ := live_get hx
  have hp := liveFrom_kill (i := 0) hc hl
  simp only [Nat.zero_add, hs, hk] at hp
  unfold Heap.dealloc
  simp only [hc, hl, hs, Bool.true_eq_false, if_false, if_true]
  exact ⟨trivial, hp⟩

/-! ### Ownership bookkeeping of the slots -/

variable (sz : Kind → Nat)

theorem ownedSlots_append (a b : List Slot) : ownedSlots sz (a ++ b) = ownedSlots sz a ++ ownedSlots sz b := by
  induction a with
  | nil => simp [ownedSlots]
  | cons s rest ih => simp [ownedSlots, ih]

theorem ownedSlots_push (slots : List Slot) (h : Handle) :
    ownedSlots sz (slots ++ [⟨h, false⟩]) = ownedSlots sz slots ++ owns sz h := by
  simp [ownedSlots_append, ownedSlots]

theorem ownedSlots_release {slots : List Slot} {s : Nat} {sl : Slot}
    (hs : slots[s]? = some sl) (hr : sl.released = false) :
    List.Perm (ownedSlots sz slots) (owns sz sl.h ++ ownedSlots sz (releaseAt slots s)) := by
  induction slots generalizing s with
  | nil => simp at hs
  | cons d ds ih =>
    cases s with
    | zero =>
      simp only [List.getElem?_cons_zero, Option.some.injEq] at hs
      subst hs
      simp [ownedSlots, releaseAt, hr]
    | succ n =>
      simp only [List.getElem?_cons_succ] at hs
      have := ih hs
      simp only [ownedSlots, releaseAt]
      refine List.Perm.trans (List.Perm.append_left _ this) ?_
      rw [← List.append_assoc, ← List.append_assoc]
      exact List.Perm.append_right _ List.perm_append_comm

theorem holds_spec {st : State} {s : Nat} {p : Handle → Bool} (h : st.holds s p = true) :
    ∃ sl, st.slots[s]? = some sl ∧ sl.released = false ∧ p sl.h = true ∧ st.get s = some sl.h := by
  unfold State.holds at h
  split at h
  · rename_i sl hsl
    simp only [Bool.and_eq_true, Bool.not_eq_true'] at h
    exact ⟨sl, hsl, h.1, h.2, by simp [State.get, hsl]⟩
  · exact absurd h (by simp)

/-! ### The invariant and the three moves -/

/-- buffers the caller holds are the ones `from_vec` makes: a non-null pointer comes with at least one byte -/
def WfHandle : Handle → Prop
  | .buffer ⟨some _, bytes⟩ => bytes ≠ []
  | .buffer ⟨none, bytes⟩ => bytes = []
  | _ => True

structure Inv (st : State) : Prop where
  noFault : st.heap.faults = []
  owned : List.Perm st.heap.liveList (ownedSlots sz st.slots)
  wf : ∀ sl ∈ st.slots, sl.released = false → WfHandle sl.h

/-- what an unreleased slot owns is live -/
theorem Inv.mem_live {st : State} (inv : Inv sz st) {s : Nat} {sl : Slot} (hs : st.slots[s]? = some sl)
    (hr : sl.released = false) {x : Own} (hx : x ∈ owns sz sl.h) : x ∈ st.heap.liveList := by
  have hp := ownedSlots_release sz hs hr
  exact inv.owned.symm.subset (hp.symm.subset (List.mem_append_left _ hx))

/-- **acquisition**: the heap gained exactly what the new slot owns -/
theorem Inv.acquire {st : State} (inv : Inv sz st) (h' : Heap) (hd : Handle)
    (hf : h'.faults = st.heap.faults) (hl : List.Perm h'.liveList (st.heap.liveList ++ owns sz hd))
    (hw : WfHandle hd) : Inv sz ({ st with heap := h' }.push hd) := by
  refine ⟨by simp [State.push, hf, inv.noFault], ?_, ?_⟩
  · simp only [State.push, ownedSlots_push]
    exact hl.trans (List.Perm.append_right _ inv.owned)
  · intro sl hsl hr
    simp only [State.push, List.mem_append, List.mem_singleton] at hsl
    rcases hsl with hsl | hsl
    · exact inv.wf sl hsl hr
    · subst hsl; exact hw

/-- **release**: the heap lost exactly what slot `s` owned -/
theorem Inv.releaseSlot {st : State} (inv : Inv sz st) {s : Nat} {sl : Slot} (hs : st.slots[s]? = some sl)
    (hr : sl.released = false) (h' : Heap) (hf : h'.faults = st.heap.faults)
    (hl : List.Perm st.heap.liveList (owns sz sl.h ++ h'.liveList)) :
    Inv sz ({ st with heap := h' }.release s) := by
  refine ⟨by simp [State.release, hf, inv.noFault], ?_, ?_⟩
  · simp only [State.release]
    have hp := ownedSlots_release sz hs hr
    have : List.Perm (owns sz sl.h ++ h'.liveList) (owns sz sl.h ++ ownedSlots sz (releaseAt st.slots s)) :=
      (hl.symm.trans inv.owned).trans hp
    exact (List.perm_append_left_iff _).1 this
  · intro sl' hsl' hr'
    simp only [State.release] at hsl'
    -- a slot of releaseAt is either an old slot or the released one
    have key : ∀ (slots : List Slot) (n : Nat) (x : Slot), x ∈ releaseAt slots n → x.released = false → x ∈ slots := by
      intro slots
      induction slots with
      | nil => intro n x hx; simp [releaseAt] at hx
      | cons d ds ih =>
        intro n x hx hxr
        cases n with
        | zero =>
          simp only [releaseAt, List.mem_cons] at hx
          rcases hx with hx | hx
          · subst hx; simp at hxr
          · exact List.mem_cons_of_mem _ hx
        | succ n =>
          simp only [releaseAt, List.mem_cons] at hx
          rcases hx with hx | hx
          · subst hx; exact List.mem_cons_self
          · exact List.mem_cons_of_mem _ (ih n x hx hxr)
    exact inv.wf sl' (key _ _ _ hsl' hr') hr'

/-- a state change that touches neither the live set nor the faults nor the slots -/
theorem Inv.sameHeap {st : State} (inv : Inv sz st) (h' : Heap) (hf : h'.faults = st.heap.faults)
    (hl : List.Perm h'.liveList st.heap.liveList) : Inv sz { st with heap := h' } :=
  ⟨by simp [hf, inv.noFault], hl.trans inv.owned, inv.wf⟩

/-! ### Library primitives on the heap -/

/-- building a buffer from a fresh Vec: the heap gains exactly what the buffer owns -/
theorem make_buffer (h : Heap) (bytes : List Nat) (cap : Nat) :
    (fromVec (vecNew h bytes cap).1 (vecNew h bytes cap).2).1.faults = h.faults ∧
      List.Perm (fromVec (vecNew h bytes cap).1 (vecNew h bytes cap).2).1.liveList
        (h.liveList ++ owns sz (.buffer (fromVec (vecNew h bytes cap).1 (vecNew h bytes cap).2).2)) ∧
      (fromVec (vecNew h bytes cap).1 (vecNew h bytes cap).2).2.bytes = bytes ∧
      WfHandle (.buffer (fromVec (vecNew h bytes cap).1 (vecNew h bytes cap).2).2) := by
  by_cases hc : max cap bytes.length = 0
  · -- no allocation at all: empty content, capacity 0
    have hb : bytes = [] := by
      have : bytes.length = 0 := by omega
      exact List.length_eq_zero_iff.1 this
    subst hb
    have hv : vecNew h [] cap = (h, ⟨none, 0, []⟩) := by
      unfold vecNew; simp only [hc, if_true]
    rw [hv]
    simp [fromVec, vecDrop, owns, WfHandle]
  · have hv : vecNew h bytes cap = ((h.alloc .bytes (max cap bytes.length)).1,
        ⟨some (h.alloc .bytes (max cap bytes.length)).2, max cap bytes.length, bytes⟩) := by
      unfold vecNew; simp only [hc, if_false]
    rw [hv]
    have hlive1 := alloc_live h .bytes (max cap bytes.length)
    have hmem : ((h.alloc .bytes (max cap bytes.length)).2, max cap bytes.length, Kind.bytes) ∈
        (h.alloc .bytes (max cap bytes.length)).1.liveList := by rw [hlive1]; simp
    obtain ⟨hf2, hp2⟩ := dealloc_live hmem
    -- the heap after giving the Vec's block back is the original one, as far as live cells go
    have hback : List.Perm ((h.alloc .bytes (max cap bytes.length)).1.dealloc
        (h.alloc .bytes (max cap bytes.length)).2 (max cap bytes.length)).liveList h.liveList := by
      rw [hlive1] at hp2
      exact ((List.perm_cons _).1 (List.perm_append_comm.trans hp2)).symm
    by_cases he : bytes = []
    · -- empty content with capacity: the Vec is dropped
      subst he
      simp only [fromVec, if_true, vecDrop, owns, List.append_nil, WfHandle, and_true]
      exact ⟨by rw [hf2]; rfl, hback⟩
    · by_cases hcap : max cap bytes.length = bytes.length
      · -- capacity = length: the allocation is kept
        simp only [fromVec, he, if_false, hcap, if_true, owns, WfHandle]
        rw [hcap] at hlive1
        exact ⟨by first | rfl | trivial, by rw [hlive1], by first | rfl | trivial, he⟩
      · -- capacity ≠ length: realloc = give the old block back with its capacity, take a block of `len` bytes
        simp only [fromVec, he, if_false, hcap, owns, WfHandle]
        refine ⟨by rw [alloc_faults, hf2]; rfl, ?_, by first | rfl | trivial, he⟩
        rw [alloc_live]
        exact List.Perm.append_right _ hback

/-- dropping what `into_vec` gives back releases exactly what the buffer owns -/
theorem drop_buffer {h : Heap} {b : Buffer} (hw : WfHandle (.buffer b))
    (hown : ∀ x ∈ owns sz (.buffer b), x ∈ h.liveList) :
    (vecDrop h (intoVec b)).faults = h.faults ∧
      List.Perm h.liveList (owns sz (.buffer b) ++ (vecDrop h (intoVec b)).liveList) := by
  obtain ⟨id, bytes⟩ := b
  cases id with
  | none => simp [intoVec, vecDrop, owns]
  | some id =>
    have hne : bytes ≠ [] := hw
    have hmem : (id, bytes.length, Kind.bytes) ∈ h.liveList := hown _ (by simp [owns, hne])
    obtain ⟨hf, hp⟩ := dealloc_live hmem
    simp only [intoVec, hne, if_false, vecDrop, owns]
    exact ⟨hf, by simpa using hp⟩

/-- `duplicate`: the heap gains what the copy owns; the copy has the same bytes -/
theorem duplicate_spec {h : Heap} {b : Buffer} (hw : WfHandle (.buffer b))
    (hown : ∀ x ∈ owns sz (.buffer b), x ∈ h.liveList) :
    (duplicate h b).1.faults = h.faults ∧
      List.Perm (duplicate h b).1.liveList (h.liveList ++ owns sz (.buffer (duplicate h b).2)) ∧
      (duplicate h b).2.bytes = b.bytes ∧ WfHandle (.buffer (duplicate h b).2) := by
  obtain ⟨id, bytes⟩ := b
  cases id with
  | none =>
    have hb : bytes = [] := hw
    subst hb
    simp [duplicate, toVec, fromVec, vecDrop, owns, WfHandle]
  | some id =>
    have hne : bytes ≠ [] := hw
    have hmem : (id, bytes.length, Kind.bytes) ∈ h.liveList := hown _ (by simp [owns, hne])
    have hu := use_live hmem
    have hm := make_buffer sz h bytes bytes.length
    simp only [duplicate, toVec, hne, if_false, hu]
    exact hm

/-- releasing one allocation that is known to be live with this size -/
theorem dealloc_step {h : Heap} {x : Own} {R : List Own} (hp : List.Perm h.liveList (x :: R)) :
    (h.dealloc x.1 x.2.1).faults = h.faults ∧ List.Perm (h.dealloc x.1 x.2.1).liveList R := by
  have hmem : (x.1, x.2.1, x.2.2) ∈ h.liveList := hp.symm.subset (by simp)
  obtain ⟨hf, hq⟩ := dealloc_live hmem
  exact ⟨hf, ((List.perm_cons _).1 (hq.symm.trans hp))⟩

theorem ownsNodes_append (a b : List HNode) : ownsNodes sz (a ++ b) = ownsNodes sz a ++ ownsNodes sz b := by
  induction a with
  | nil => simp [ownsNodes]
  | cons t ts ih =>
    obtain ⟨node, n, v⟩ := t
    simp [ownsNodes, ih]

/-- `string_to_c_char` on one string: the heap gains what the (possibly NULL) string owns -/
theorem cstrOpt_spec (h : Heap) (l : Option Nat) :
    (cstrOpt h l).1.faults = h.faults ∧ (cstrOpt h l).1.liveList = h.liveList ++ ownsStr (cstrOpt h l).2 := by
  cases l with
  | none => simp [cstrOpt, ownsStr]
  | some len => simp [cstrOpt, cstrNew, ownsStr, alloc_live, alloc_faults]

theorem cstrOptFree_spec {h : Heap} {x : Option (Nat × Nat)} {R : List Own}
    (hp : List.Perm h.liveList (ownsStr x ++ R)) :
    (cstrOptFree h x).faults = h.faults ∧ List.Perm (cstrOptFree h x).liveList R := by
  cases x with
  | none => simpa [cstrOptFree, ownsStr] using hp
  | some p =>
    obtain ⟨id, len⟩ := p
    simp only [ownsStr, List.cons_append, List.nil_append] at hp
    exact dealloc_step (x := (id, len + 1, Kind.cstr)) hp

/-- `http_headers_to_header_map`: the heap gains exactly what the new nodes own -/
theorem headerList_spec : ∀ (l : List (Option Nat × Option Nat)) (h : Heap) (acc : List HNode),
    (headerList sz h l acc).1.faults = h.faults ∧
      ∃ new, (headerList sz h l acc).2 = new ++ acc ∧
        List.Perm (headerList sz h l acc).1.liveList (h.liveList ++ ownsNodes sz new) := by
  intro l
  induction l with
  | nil => intro h acc; exact ⟨rfl, [], by simp [headerList], by simp [headerList, ownsNodes]⟩
  | cons p rest ih =>
    intro h acc
    obtain ⟨nl, vl⟩ := p
    simp only [headerList, boxNew]
    obtain ⟨f1, l1⟩ := cstrOpt_spec h nl
    obtain ⟨f2, l2⟩ := cstrOpt_spec (cstrOpt h nl).1 vl
    obtain ⟨hf, new', hn, hp⟩ := ih (((cstrOpt (cstrOpt h nl).1 vl).1.alloc .hnode (sz .hnode)).1)
      ((((cstrOpt (cstrOpt h nl).1 vl).1.alloc .hnode (sz .hnode)).2, (cstrOpt h nl).2, (cstrOpt (cstrOpt h nl).1 vl).2) :: acc)
    refine ⟨by rw [hf, alloc_faults, f2, f1], new' ++ [(((cstrOpt (cstrOpt h nl).1 vl).1.alloc .hnode (sz .hnode)).2,
        (cstrOpt h nl).2, (cstrOpt (cstrOpt h nl).1 vl).2)], by rw [hn]; simp, ?_⟩
    refine hp.trans ?_
    rw [alloc_live, l2, l1, ownsNodes_append]
    simp only [ownsNodes, List.append_nil, List.append_assoc]
    apply List.Perm.append_left
    have := @List.perm_append_comm _ (ownsStr (cstrOpt h nl).2 ++ (ownsStr (cstrOpt (cstrOpt h nl).1 vl).2 ++
      [(((cstrOpt (cstrOpt h nl).1 vl).1.alloc .hnode (sz .hnode)).2, sz .hnode, Kind.hnode)])) (ownsNodes sz new')
    simpa [List.append_assoc] using this

/-- the caller frees a header list: the heap loses exactly what the nodes own -/
theorem headerListFree_spec : ∀ (nodes : List HNode) (h : Heap) (R : List Own),
    List.Perm h.liveList (ownsNodes sz nodes ++ R) →
      (headerListFree sz h nodes).faults = h.faults ∧ List.Perm (headerListFree sz h nodes).liveList R := by
  intro nodes
  induction nodes with
  | nil => intro h R hp; exact ⟨rfl, by simpa [headerListFree, ownsNodes] using hp⟩
  | cons t ts ih =>
    intro h R hp
    obtain ⟨node, n, v⟩ := t
    simp only [ownsNodes, List.append_assoc] at hp
    have hnode : (node, sz .hnode, Kind.hnode) ∈ h.liveList := hp.symm.subset (by simp)
    simp only [headerListFree, use_live hnode, boxDrop]
    obtain ⟨f1, p1⟩ := cstrOptFree_spec hp
    obtain ⟨f2, p2⟩ := cstrOptFree_spec p1
    simp only [List.cons_append, List.nil_append] at p2
    obtain ⟨f3, p3⟩ := dealloc_step (x := (node, sz .hnode, Kind.hnode)) p2
    obtain ⟨f4, p4⟩ := ih _ R p3
    exact ⟨by rw [f4, f3, f2, f1], p4⟩

/-! ### Every entry point preserves the invariant when the caller follows the protocol -/

theorem isBuffer_spec {h : Handle} (hp : isBuffer h = true) : ∃ b, h = .buffer b := by
  cases h <;> simp [isBuffer] at hp ⊢
theorem isCstr_spec {h : Handle} (hp : isCstr h = true) : ∃ id len, h = .cstr id len := by
  cases h <;> simp [isCstr] at hp ⊢
theorem isObj_spec {k : Kind} {h : Handle} (hp : isObj k h = true) : ∃ id, h = .obj k id := by
  cases h <;> simp [isObj] at hp ⊢
  exact hp
theorem isHlist_spec {h : Handle} (hp : isHlist h = true) : ∃ nodes, h = .hlist nodes := by
  cases h <;> simp [isHlist] at hp ⊢
theorem isTproxies_spec {h : Handle} (hp : isTproxies h = true) : ∃ o i, h = .tproxies o i := by
  cases h <;> simp [isTproxies] at hp ⊢

/-- what remains owned once slot `s` is released, as a statement about the current heap -/
theorem Inv.split {st : State} (inv : Inv sz st) {s : Nat} {sl : Slot} (hs : st.slots[s]? = some sl)
    (hr : sl.released = false) :
    List.Perm st.heap.liveList (owns sz sl.h ++ ownedSlots sz (releaseAt st.slots s)) :=
  inv.owned.trans (ownedSlots_release sz hs hr)

/-- release, stated with the remainder -/
theorem Inv.releaseTo {st : State} (inv : Inv sz st) {s : Nat} {sl : Slot} (hs : st.slots[s]? = some sl)
    (hr : sl.released = false) (h' : Heap) (hf : h'.faults = st.heap.faults)
    (hl : List.Perm h'.liveList (ownedSlots sz (releaseAt st.slots s))) :
    Inv sz ({ st with heap := h' }.release s) :=
  inv.releaseSlot sz hs hr h' hf ((inv.split sz hs hr).trans (List.Perm.append_left _ hl.symm))

theorem Inv.sameState {st : State} (inv : Inv sz st) (h' : Heap) (he : h' = st.heap) :
    Inv sz { st with heap := h' } := by subst he; exact inv

/-- reading a buffer (`to_vec`, then the copy is dropped) leaves the heap as it was -/
theorem read_spec {h : Heap} {b : Buffer} (hw : WfHandle (.buffer b))
    (hown : ∀ x ∈ owns sz (.buffer b), x ∈ h.liveList) :
    (vecDrop (toVec h b).1 (toVec h b).2).faults = h.faults ∧
      List.Perm (vecDrop (toVec h b).1 (toVec h b).2).liveList h.liveList := by
  obtain ⟨id, bytes⟩ := b
  cases id with
  | none => simp [toVec, vecDrop]
  | some id =>
    have hne : bytes ≠ [] := hw
    have hmem : (id, bytes.length, Kind.bytes) ∈ h.liveList := hown _ (by simp [owns, hne])
    have hlen : bytes.length ≠ 0 := by
      intro h0; exact hne (List.length_eq_zero_iff.1 h0)
    simp only [toVec, hne, if_false, use_live hmem, vecNew, Nat.max_self, hlen, vecDrop]
    have hlive := alloc_live h .bytes bytes.length
    have hp : List.Perm (h.alloc .bytes bytes.length).1.liveList (((h.alloc .bytes bytes.length).2, bytes.length, Kind.bytes) :: h.liveList) := by
      rw [hlive]; exact List.perm_append_comm
    obtain ⟨f, q⟩ := dealloc_step hp
    exact ⟨by rw [f]; rfl, q⟩

theorem mem_of_get {st : State} {s : Nat} {sl : Slot} (hs : st.slots[s]? = some sl) : sl ∈ st.slots :=
  List.mem_of_getElem? hs

theorem step_inv {st : State} (inv : Inv sz st) (c : Call) (hpre : pre st c = true) : Inv sz (step sz st c) := by
  cases c with
  | bufNew bytes cap =>
    obtain ⟨hf, hl, _, hw⟩ := make_buffer sz st.heap bytes cap
    simp only [step]
    exact inv.acquire sz _ _ hf hl hw
  | bufDup s =>
    obtain ⟨sl, hs, hr, hp, hget⟩ := holds_spec hpre
    obtain ⟨b, hb⟩ := isBuffer_spec hp
    have hw : WfHandle (.buffer b) := hb ▸ inv.wf sl (mem_of_get hs) hr
    have hown : ∀ x ∈ owns sz (.buffer b), x ∈ st.heap.liveList := fun x hx => inv.mem_live sz hs hr (hb ▸ hx)
    obtain ⟨hf, hl, _, hw'⟩ := duplicate_spec sz hw hown
    simp only [step, hget, hb]
    exact inv.acquire sz _ _ hf hl hw'
  | filterNull s =>
    obtain ⟨sl, hs, hr, hp, hget⟩ := holds_spec hpre
    obtain ⟨b, hb⟩ := isBuffer_spec hp
    have hw : WfHandle (.buffer b) := hb ▸ inv.wf sl (mem_of_get hs) hr
    have hown : ∀ x ∈ owns sz (.buffer b), x ∈ st.heap.liveList := fun x hx => inv.mem_live sz hs hr (hb ▸ hx)
    obtain ⟨hf, hl, _, hw'⟩ := duplicate_spec sz hw hown
    simp only [step, hget, hb]
    exact inv.acquire sz _ _ hf hl hw'
  | bufRead s =>
    obtain ⟨sl, hs, hr, hp, hget⟩ := holds_spec hpre
    obtain ⟨b, hb⟩ := isBuffer_spec hp
    have hw : WfHandle (.buffer b) := hb ▸ inv.wf sl (mem_of_get hs) hr
    have hown : ∀ x ∈ owns sz (.buffer b), x ∈ st.heap.liveList := fun x hx => inv.mem_live sz hs hr (hb ▸ hx)
    obtain ⟨hf, hl⟩ := read_spec sz hw hown
    simp only [step, hget, hb]
    exact inv.sameHeap sz _ hf hl
  | bufDrop s =>
    obtain ⟨sl, hs, hr, hp, hget⟩ := holds_spec hpre
    obtain ⟨b, hb⟩ := isBuffer_spec hp
    have hw : WfHandle (.buffer b) := hb ▸ inv.wf sl (mem_of_get hs) hr
    have hown : ∀ x ∈ owns sz (.buffer b), x ∈ st.heap.liveList := fun x hx => inv.mem_live sz hs hr (hb ▸ hx)
    obtain ⟨hf, hl⟩ := drop_buffer sz hw hown
    simp only [step, hget, hb]
    exact inv.releaseSlot sz hs hr _ hf (hb ▸ hl)
  | objNew k ok =>
    simp only [step]
    cases ok with
    | true =>
      simp only [if_true, boxNew]
      exact inv.acquire sz _ _ (alloc_faults _ _ _) (by rw [alloc_live]; simp [owns]) trivial
    | false =>
      simp only [Bool.false_eq_true, if_false]
      have := inv.acquire sz st.heap (.obj k none) rfl (by simp [owns]) trivial
      simpa using this
  | objUse k s =>
    obtain ⟨sl, hs, hr, hp, hget⟩ := holds_spec hpre
    obtain ⟨id, hb⟩ := isObj_spec hp
    simp only [step, hget, hb, bne_self_eq_false, Bool.false_eq_true, if_false]
    cases id with
    | none => exact inv
    | some id =>
      have hm : (id, sz k, k) ∈ st.heap.liveList := inv.mem_live sz hs hr (by rw [hb]; simp [owns])
      exact inv.sameState sz _ (use_live hm)
  | objSer k s len =>
    obtain ⟨sl, hs, hr, hp, hget⟩ := holds_spec hpre
    obtain ⟨id, hb⟩ := isObj_spec hp
    simp only [step, hget, hb, bne_self_eq_false, Bool.false_eq_true, if_false]
    cases id with
    | none =>
      have := inv.acquire sz st.heap (.cstr none 0) rfl (by simp [owns]) trivial
      simpa using this
    | some id =>
      have hm : (id, sz k, k) ∈ st.heap.liveList := inv.mem_live sz hs hr (by rw [hb]; simp [owns])
      simp only [use_live hm, cstrNew]
      exact inv.acquire sz _ _ (alloc_faults _ _ _) (by rw [alloc_live]; simp [owns]) trivial
  | objDrop k s =>
    obtain ⟨sl, hs, hr, hp, hget⟩ := holds_spec hpre
    obtain ⟨id, hb⟩ := isObj_spec hp
    simp only [step, hget, hb, bne_self_eq_false, Bool.false_eq_true, if_false]
    have hsp := inv.split sz hs hr
    rw [hb] at hsp
    cases id with
    | none =>
      have := inv.releaseTo sz hs hr st.heap rfl (by simpa [owns] using hsp)
      simpa using this
    | some id =>
      simp only [owns, List.cons_append, List.nil_append] at hsp
      obtain ⟨f, q⟩ := dealloc_step hsp
      exact inv.releaseTo sz hs hr _ f q
  | strNew len =>
    simp only [step, cstrNew]
    exact inv.acquire sz _ _ (alloc_faults _ _ _) (by rw [alloc_live]; simp [owns]) trivial
  | strFree s =>
    obtain ⟨sl, hs, hr, hp, hget⟩ := holds_spec hpre
    obtain ⟨id, len, hb⟩ := isCstr_spec hp
    simp only [step, hget, hb]
    have hsp := inv.split sz hs hr
    rw [hb] at hsp
    cases id with
    | none =>
      have := inv.releaseTo sz hs hr st.heap rfl (by simpa [owns] using hsp)
      simpa using this
    | some id =>
      simp only [owns, List.cons_append, List.nil_append] at hsp
      obtain ⟨f, q⟩ := dealloc_step hsp
      exact inv.releaseTo sz hs hr _ f q
  | logJson r a len =>
    simp only [pre, Bool.and_eq_true] at hpre
    obtain ⟨sl, hs, hr, hp, hget⟩ := holds_spec hpre.1
    obtain ⟨rid, hb⟩ := isObj_spec hp
    simp only [step, hget, hb]
    cases rid with
    | none =>
      have := inv.acquire sz st.heap (.cstr none 0) rfl (by simp [owns]) trivial
      simpa using this
    | some rid =>
      have hm : (rid, sz .request, Kind.request) ∈ st.heap.liveList := inv.mem_live sz hs hr (by rw [hb]; simp [owns])
      simp only [use_live hm]
      cases a with
      | none =>
        simp only [cstrNew]
        exact inv.acquire sz _ _ (alloc_faults _ _ _) (by rw [alloc_live]; simp [owns]) trivial
      | some a =>
        obtain ⟨sla, hsa, hra, hpa, hgeta⟩ := holds_spec hpre.2
        obtain ⟨aid, hba⟩ := isObj_spec hpa
        simp only [hgeta, hba, cstrNew]
        cases aid with
        | none => exact inv.acquire sz _ _ (alloc_faults _ _ _) (by rw [alloc_live]; simp [owns]) trivial
        | some aid =>
          have hma : (aid, sz .action, Kind.action) ∈ st.heap.liveList := inv.mem_live sz hsa hra (by rw [hba]; simp [owns])
          simp only [use_live hma]
          exact inv.acquire sz _ _ (alloc_faults _ _ _) (by rw [alloc_live]; simp [owns]) trivial
  | headers a out =>
    obtain ⟨sl, hs, hr, hp, hget⟩ := holds_spec hpre
    obtain ⟨id, hb⟩ := isObj_spec hp
    simp only [step, hget, hb]
    cases id with
    | none =>
      have := inv.acquire sz st.heap .alias rfl (by simp [owns]) trivial
      simpa using this
    | some id =>
      have hm : (id, sz .action, Kind.action) ∈ st.heap.liveList := inv.mem_live sz hs hr (by rw [hb]; simp [owns])
      simp only [use_live hm]
      obtain ⟨hf, new, hn, hl⟩ := headerList_spec sz out st.heap []
      refine inv.acquire sz _ _ hf ?_ trivial
      simp only [owns, hn, List.append_nil]
      exact hl
  | hmapNew out =>
    simp only [step]
    obtain ⟨hf, new, hn, hl⟩ := headerList_spec sz out st.heap []
    refine inv.acquire sz _ _ hf ?_ trivial
    simp only [owns, hn, List.append_nil]
    exact hl
  | hlistFree s =>
    obtain ⟨sl, hs, hr, hp, hget⟩ := holds_spec hpre
    obtain ⟨nodes, hb⟩ := isHlist_spec hp
    simp only [step, hget, hb]
    have hsp := inv.split sz hs hr
    rw [hb] at hsp
    obtain ⟨f, q⟩ := headerListFree_spec sz nodes st.heap _ hsp
    exact inv.releaseTo sz hs hr _ f q
  | filterNew a ok =>
    obtain ⟨sl, hs, hr, hp, hget⟩ := holds_spec hpre
    obtain ⟨id, hb⟩ := isObj_spec hp
    simp only [step, hget, hb]
    cases id with
    | none =>
      have := inv.acquire sz st.heap (.obj .filter none) rfl (by simp [owns]) trivial
      simpa using this
    | some id =>
      have hm : (id, sz .action, Kind.action) ∈ st.heap.liveList := inv.mem_live sz hs hr (by rw [hb]; simp [owns])
      simp only [use_live hm]
      cases ok with
      | true =>
        simp only [if_true, boxNew]
        exact inv.acquire sz _ _ (alloc_faults _ _ _) (by rw [alloc_live]; simp [owns]) trivial
      | false =>
        simp only [Bool.false_eq_true, if_false]
        have := inv.acquire sz st.heap (.obj .filter none) rfl (by simp [owns]) trivial
        simpa using this
  | filterFeed f b out =>
    simp only [pre, Bool.and_eq_true] at hpre
    obtain ⟨slf, hsf, hrf, hpf, hgetf⟩ := holds_spec hpre.1
    obtain ⟨fid, hbf⟩ := isObj_spec hpf
    obtain ⟨slb, hsb, hrb, hpb, hgetb⟩ := holds_spec hpre.2
    obtain ⟨buf, hbb⟩ := isBuffer_spec hpb
    have hw : WfHandle (.buffer buf) := hbb ▸ inv.wf slb (mem_of_get hsb) hrb
    have hown : ∀ x ∈ owns sz (.buffer buf), x ∈ st.heap.liveList := fun x hx => inv.mem_live sz hsb hrb (hbb ▸ hx)
    simp only [step, hgetf, hbf, hgetb, hbb]
    cases fid with
    | none =>
      obtain ⟨hf, hl, _, hw'⟩ := duplicate_spec sz hw hown
      exact inv.acquire sz _ _ hf hl hw'
    | some fid =>
      have hm : (fid, sz .filter, Kind.filter) ∈ st.heap.liveList := inv.mem_live sz hsf hrf (by rw [hbf]; simp [owns])
      simp only [use_live hm]
      obtain ⟨hf1, hl1⟩ := drop_buffer sz hw hown
      have inv1 := inv.releaseSlot sz hsb hrb _ hf1 (hbb ▸ hl1)
      obtain ⟨hf2, hl2, _, hw2⟩ := make_buffer sz (vecDrop st.heap (intoVec buf)) out out.length
      exact inv1.acquire sz _ _ hf2 hl2 hw2
  | filterClose f out =>
    obtain ⟨sl, hs, hr, hp, hget⟩ := holds_spec hpre
    obtain ⟨fid, hb⟩ := isObj_spec hp
    simp only [step, hget, hb]
    have hsp := inv.split sz hs hr
    rw [hb] at hsp
    cases fid with
    | none =>
      have inv1 := inv.releaseTo sz hs hr st.heap rfl (by simpa [owns] using hsp)
      have := inv1.acquire sz st.heap (.buffer ⟨none, []⟩) rfl (by simp [owns, State.release]) rfl
      simpa [State.release] using this
    | some fid =>
      have hm : (fid, sz .filter, Kind.filter) ∈ st.heap.liveList := inv.mem_live sz hs hr (by rw [hb]; simp [owns])
      simp only [use_live hm, boxDrop]
      simp only [owns, List.cons_append, List.nil_append] at hsp
      obtain ⟨f1, q1⟩ := dealloc_step hsp
      have inv1 := inv.releaseTo sz hs hr _ f1 q1
      obtain ⟨hf2, hl2, _, hw2⟩ := make_buffer sz (st.heap.dealloc fid (sz .filter)) out out.length
      exact inv1.acquire sz _ _ hf2 hl2 hw2
  | tpNew =>
    simp only [step, boxNew]
    refine inv.acquire sz _ _ (by simp [alloc_faults]) ?_ trivial
    rw [alloc_live, alloc_live]
    simp only [owns, List.append_assoc]
    apply List.Perm.append_left
    exact List.Perm.swap _ _ _
  | tpUse s =>
    obtain ⟨sl, hs, hr, hp, hget⟩ := holds_spec hpre
    obtain ⟨o, i, hb⟩ := isTproxies_spec hp
    simp only [step, hget, hb]
    have ho : (o, sz .tproxies, Kind.tproxies) ∈ st.heap.liveList := inv.mem_live sz hs hr (by rw [hb]; simp [owns])
    have hi : (i, sz .tconfig, Kind.tconfig) ∈ st.heap.liveList := inv.mem_live sz hs hr (by rw [hb]; simp [owns])
    exact inv.sameState sz _ (by rw [use_live ho, use_live hi])

theorem init_inv : Inv sz {} := ⟨rfl, by simp [Heap.liveList, Heap.liveFrom, ownedSlots], by simp⟩

/-- the invariant holds after every protocol-following call sequence -/
theorem run_inv : ∀ (calls : List Call) (st : State), Inv sz st → Follows sz st calls → Inv sz (run sz st calls) := by
  intro calls
  induction calls with
  | nil => intro st inv _; exact inv
  | cons c rest ih =>
    intro st inv hf
    simp only [run, List.foldl_cons]
    exact ih _ (step_inv sz inv c hf.1) hf.2

end Rio.Ffi
