/-
Bridge C10 ∘ C08 ∘ C01: the marker strings of C10 (W9: `Rio.Marker.build`, token view, `Decomp`), the
regex engine of C08 (W1: `Rio.Regex.engineOf G`, `GoodPat`, `PrefixSound`) and the router over the
real regex-tree model (W2: `towerTOps`, `RReprT`).

Part 1 — engines.  W9's matching theorems assume, of the engine, the law `EngineLaws.full_iff`:
  `full (renderRegex ts) s = true ↔ ∃ vs, Decomp L ceq ts s vs`
(`^regex$` matches `s` iff `s` decomposes along the tokens into case-equal literals and strings of
the marker languages).  Here it is PROVED for W1's model engine `engineOf G` (every meaning `G` of
group bodies, either case flag), with
  `L  := markerLang G ic`   (`re` accepts `v` iff `G ("?:" ++ re)` is a regex whose language has `v`)
  `ceq := litEq ic`          (class membership of `d` in `[c-c]` under the case flag)
for token lists whose groups are "good" in W1's sense (`TokGood`: the tree's scanner and the regex
syntax agree on where each `(?:re)` ends).  The other four fields of `EngineLaws` (`search_iff`,
`caps_*`) concern unanchored search and captures; W1's `Engine` has neither and matching through the
router does not need them.

Part 2 — the router.  A rule whose only triggers are a marker path (and optionally a marker host),
live in any state `RReprT` of the router over the real trees, is matched by the requests that
instantiate its template(s) with accepted values, and – for delimiter-separated templates – by no
request instantiating them with a rejected value.
-/
import RioModel.Props.C10
import RioModel.Props.C08
import RioModel.Proofs.RouterTreeTop

set_option linter.unusedSimpArgs false
set_option linter.unusedVariables false
set_option linter.unusedSectionVars false

namespace Rio.Bridge
open Rio.Router

/-! ## Part 1: W1's engine satisfies W9's matching law -/

/-- W9's token as W1's token: the group text of `(?:re)` is `?:re`. -/
def toRTok : Marker.Tok → Regex.Tok
  | .lit c => .lit c
  | .grp _ re => .grp ('?' :: ':' :: re)

theorem tok_render (t : Marker.Tok) : Marker.Tok.regex t = Regex.Tok.render (toRTok t) := by
  cases t with
  | lit c => rfl
  | grp n re =>
    simp [Marker.Tok.regex, Marker.groupRegex, Rio.Consts.markerGroupRegexFormat, toRTok, Regex.Tok.render]

/-- The string `MarkerString::new` builds (W9's rendering) is W1's rendering of the same tokens. -/
theorem render_bridge (ts : List Marker.Tok) : Marker.renderRegex ts = Regex.render (ts.map toRTok) := by
  induction ts with
  | nil => rfl
  | cons t ts ih =>
    simp only [Marker.renderRegex, Regex.render, List.flatMap_cons, List.map_cons] at ih ⊢
    rw [tok_render, ih]

/-- the groups are good for the tree (W1's `Tok.good`: `realClosed ∧ scanClosed` of `?:re`) -/
def TokGood (ts : List Marker.Tok) : Prop := ∀ t ∈ ts.map toRTok, t.good = true

/-- the language of a marker expression under the engine `engineOf G` -/
def markerLang (G : List Char → Option Regex.Re) (ic : Bool) (re v : List Char) : Prop :=
  ∃ r, G ('?' :: ':' :: re) = some r ∧ Regex.Lang ic r v

/-- a literal `c` of the pattern matches the char `d` of the haystack -/
def litEq (ic : Bool) (c d : Char) : Bool := (⟨false, [(c, c)]⟩ : Regex.Cls).mem ic d

theorem litEq_refl (ic : Bool) (c : Char) : litEq ic c c = true := by
  simp [litEq, Regex.Cls.mem, Regex.inRange]

theorem renderRegex_goodPat (ts : List Marker.Tok) (hg : TokGood ts) : Regex.GoodPat (Marker.renderRegex ts) :=
  ⟨ts.map toRTok, render_bridge ts, hg⟩

/-- the compiled token list decomposes the haystack exactly as `Decomp` says -/
theorem lang_tokens_iff (G : List Char → Option Regex.Re) (ic : Bool) (ts : List Marker.Tok) :
    ∀ s, (∃ rs, Regex.mapOpt (Regex.Tok.re G) (ts.map toRTok) = some rs ∧ Regex.Lang ic (Regex.catAll rs) s) ↔
      ∃ vs, Marker.Decomp (markerLang G ic) (litEq ic) ts s vs := by
  induction ts with
  | nil =>
    intro s
    simp only [List.map_nil, Regex.mapOpt, Option.some.injEq, exists_eq_left', Regex.catAll, Regex.lang_eps]
    constructor
    · intro h; subst h; exact ⟨[], .nil⟩
    · rintro ⟨vs, h⟩; cases h; rfl
  | cons t ts ih =>
    intro s
    cases t with
    | lit c =>
      simp only [List.map_cons, toRTok, Regex.mapOpt, Regex.Tok.re]
      constructor
      · rintro ⟨rs, hrs, hl⟩
        cases hm : Regex.mapOpt (Regex.Tok.re G) (ts.map toRTok) with
        | none => simp [hm] at hrs
        | some rs' =>
          simp only [hm, Option.map_some, Option.some.injEq] at hrs
          subst hrs
          simp only [Regex.catAll] at hl
          obtain ⟨u, w, rfl, hu, hw⟩ := Regex.lang_cat.1 hl
          obtain ⟨d, rfl, hd⟩ := Regex.lang_cls.1 hu
          obtain ⟨vs, hvs⟩ := (ih w).1 ⟨rs', hm, hw⟩
          exact ⟨vs, .lit hd hvs⟩
      · rintro ⟨vs, h⟩
        cases h with
        | lit hd hrest =>
          obtain ⟨rs', hm, hw⟩ := (ih _).2 ⟨_, hrest⟩
          refine ⟨Regex.Re.chr c :: rs', by simp [hm], ?_⟩
          simp only [Regex.catAll]
          exact Regex.lang_cat.2 ⟨[_], _, rfl, Regex.lang_cls.2 ⟨_, rfl, hd⟩, hw⟩
    | grp n re =>
      simp only [List.map_cons, toRTok, Regex.mapOpt, Regex.Tok.re]
      constructor
      · rintro ⟨rs, hrs, hl⟩
        cases hG : G ('?' :: ':' :: re) with
        | none => simp [hG] at hrs
        | some r =>
          cases hm : Regex.mapOpt (Regex.Tok.re G) (ts.map toRTok) with
          | none => simp [hG, hm] at hrs
          | some rs' =>
            simp only [hG, hm, Option.map_some, Option.some.injEq] at hrs
            subst hrs
            simp only [Regex.catAll] at hl
            obtain ⟨u, w, rfl, hu, hw⟩ := Regex.lang_cat.1 hl
            obtain ⟨vs, hvs⟩ := (ih w).1 ⟨rs', hm, hw⟩
            exact ⟨(n, u) :: vs, .grp ⟨r, hG, hu⟩ hvs⟩
      · rintro ⟨vs, h⟩
        cases h with
        | grp hv hrest =>
          obtain ⟨r, hG, hu⟩ := hv
          obtain ⟨rs', hm, hw⟩ := (ih _).2 ⟨_, hrest⟩
          refine ⟨r :: rs', by simp [hG, hm], ?_⟩
          simp only [Regex.catAll]
          exact Regex.lang_cat.2 ⟨_, _, rfl, hu, hw⟩

/-- **W1's engine satisfies W9's matching law** (`EngineLaws.full_iff`), for every meaning `G` of
group bodies and either case flag, on token lists with good groups. -/
theorem engineOf_full_iff (G : List Char → Option Regex.Re) (ic : Bool) (ts : List Marker.Tok)
    (hg : TokGood ts) (s : List Char) :
    (Regex.engineOf G).full ic (Marker.renderRegex ts) s = true ↔
      ∃ vs, Marker.Decomp (markerLang G ic) (litEq ic) ts s vs := by
  rw [← lang_tokens_iff G ic ts s, render_bridge]
  simp only [Regex.engineOf, Regex.compileStr_render G hg]
  cases hm : Regex.mapOpt (Regex.Tok.re G) (ts.map toRTok) with
  | none => simp
  | some rs => simp [Regex.fmatch_iff]

/-! ## Part 2: a marker rule in the router over the real trees -/

/-- The matching law for one engine / case flag / token list: the `full_iff` field of W9's
`EngineLaws`, with `full := E.full ic`. -/
def FullLaw (E : Regex.Engine) (ic : Bool) (L : List Char → List Char → Prop) (ceq : Char → Char → Bool)
    (ts : List Marker.Tok) : Prop :=
  ∀ s, E.full ic (Marker.renderRegex ts) s = true ↔ ∃ vs, Marker.Decomp L ceq ts s vs

theorem fullLaw_of_engineLaws {E : Regex.Engine} {ic : Bool} {L : List Char → List Char → Prop}
    {ceq : Char → Char → Bool} {search : List Char → List Char → Bool}
    {caps : List Char → List Char → Option (List (List Char × List Char))} {ts : List Marker.Tok}
    (laws : Marker.EngineLaws L ceq (E.full ic) search caps ts) : FullLaw E ic L ceq ts := laws.full_iff

theorem fullLaw_engineOf (G : List Char → Option Regex.Re) (ic : Bool) (ts : List Marker.Tok)
    (hg : TokGood ts) : FullLaw (Regex.engineOf G) ic (markerLang G ic) (litEq ic) ts :=
  engineOf_full_iff G ic ts hg

/-- A rule whose only triggers are a marker path `p` and, optionally, a marker host `ph`. -/
structure MarkerOnly (r : Route) (p : Pat) (ph : Option Pat) : Prop where
  path : r.path = .dyn p
  host : r.host = ph.map SoD.dyn
  scheme : r.scheme = none
  ips : r.ips = none
  methods : r.methods = none
  headers : r.headers = []
  datetime : r.datetime = none
  time : r.time = none
  weekdays : r.weekdays = none

section
variable (T : TEnv)

/-- the triggers of such a rule: its path regex (and host regex) match -/
theorem triggers_markerOnly (r : Route) (p : Pat) (ph : Option Pat) (h : MarkerOnly r p ph) (q : Req) :
    triggersOk T.env r q =
      ((match ph with
        | none => true
        | some k => match q.host with
          | none => false
          | some hh => T.engine.full T.icHost (T.render k) hh.toList) &&
       T.engine.full T.icPath (T.render p) q.path.toList) := by
  unfold triggersOk schemeOk schemeKey hostOk ipOk methodOk headersOk dateOk pathOk
  rw [h.path, h.host, h.scheme, h.ips, h.methods, h.headers, h.datetime, h.time, h.weekdays]
  cases ph with
  | none => simp [TEnv.env]
  | some k => cases q.host <;> simp [TEnv.env]

theorem triggers_pathOnly (r : Route) (p : Pat) (h : MarkerOnly r p none) (q : Req) :
    triggersOk T.env r q = T.engine.full T.icPath (T.render p) q.path.toList := by
  rw [triggers_markerOnly T r p none h q]; simp

theorem triggers_hostPath (r : Route) (p k : Pat) (h : MarkerOnly r p (some k)) (q : Req) (hh : String)
    (hq : q.host = some hh) :
    triggersOk T.env r q =
      (T.engine.full T.icHost (T.render k) hh.toList && T.engine.full T.icPath (T.render p) q.path.toList) := by
  rw [triggers_markerOnly T r p (some k) h q, hq]

theorem hostBound_markerOnly (r : Route) (p : Pat) (ph : Option Pat) (h : MarkerOnly r p ph) :
    hostBound r = ph.isSome := by
  unfold hostBound; rw [h.host]; cases ph <;> rfl

theorem schemeKey_markerOnly (r : Route) (p : Pat) (ph : Option Pat) (h : MarkerOnly r p ph) :
    schemeKey r = none := by
  unfold schemeKey; rw [h.scheme]

end
end Rio.Bridge
