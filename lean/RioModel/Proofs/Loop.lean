/-
Lemmas about `Rio.Loop` (model of `RedirectionLoop::compute`): the loop invariant, the case
analysis of one turn of the loop, and the post-condition of `run` from which the C19 / C07
theorems are projected.
-/
import RioModel.Model.Loop
set_option linter.unusedSimpArgs false
set_option linter.unusedSectionVars false

namespace Rio.Loop

variable {U M : Type} [DecidableEq U] [DecidableEq M]

theorem any_sameKey_iff (u : U) (m : M) (hs : List (Hop U M)) :
    hs.any (sameKey u m) = true ↔ (u, m) ∈ keys hs := by
  induction hs with
  | nil => simp [keys]
  | cons h t ih =>
    simp only [List.any_cons, Bool.or_eq_true, ih, keys, List.map_cons, List.mem_cons]
    constructor
    · rintro (h1 | h1)
      · left
        simp only [sameKey, Bool.and_eq_true, beq_iff_eq] at h1
        exact Prod.ext h1.1.symm h1.2.symm
      · right; exact h1
    · rintro (h1 | h1)
      · left
        simp only [sameKey, Bool.and_eq_true, beq_iff_eq]
        have := Prod.mk.inj h1
        exact ⟨this.1.symm, this.2.symm⟩
      · right; exact h1

theorem keys_append (a b : List (Hop U M)) : keys (a ++ b) = keys a ++ keys b := by
  simp [keys]

/-- One link of the chain of hops: `b` is what the turn of the loop started at `a` pushed. -/
def Link (step : U → M → StepOut U) (get : M) (a b : Hop U M) : Prop :=
  step a.url a.method = .resp b.status (some b.url) ∧ isRedirect b.status = true ∧
    b.method = (if rewritesToGet b.status then get else a.method)

/-- Every two consecutive hops are linked. -/
def Chained (step : U → M → StepOut U) (get : M) : List (Hop U M) → Prop
  | [] => True
  | [_] => True
  | a :: b :: rest => Link step get a b ∧ Chained step get (b :: rest)

theorem chained_snoc (step : U → M → StepOut U) (get : M) :
    ∀ (pre : List (Hop U M)) (a b : Hop U M),
      Chained step get (pre ++ [a]) → Link step get a b → Chained step get (pre ++ [a] ++ [b])
  | [], a, b, _, hl => by simp [Chained, hl]
  | [x], a, b, hc, hl => by
      simp only [List.cons_append, List.nil_append, Chained] at hc ⊢
      exact ⟨hc.1, hl, trivial⟩
  | x :: y :: rest, a, b, hc, hl => by
      simp only [List.cons_append, Chained] at hc ⊢
      refine ⟨hc.1, ?_⟩
      have := chained_snoc step get (y :: rest) a b (by simpa using hc.2) hl
      simpa using this

/-- The last hop is the first hop pushed twice: its `(url, method)` occurs among the earlier hops. -/
def LastRepeats (hs : List (Hop U M)) : Prop :=
  ∃ pre l, hs = pre ++ [l] ∧ (l.url, l.method) ∈ keys pre

/-- Why a walk that reports no `Loop` / `TooManyHops` stopped at its last hop. -/
def Stuck (step : U → M → StepOut U) (ext : U → Bool) (hs : List (Hop U M)) : Prop :=
  ∃ pre l, hs = pre ++ [l] ∧
    ((pre ≠ [] ∧ ext l.url = true) ∨ step l.url l.method = .reqErr ∨
      (∃ s loc, step l.url l.method = .resp s loc ∧ (isRedirect s = false ∨ loc = none)))

variable (step : U → M → StepOut U) (ext : U → Bool) (get : M) (maxHops : Nat)

/-- Loop invariant at the start of the turn with counter `i`. -/
structure Inv (i : Nat) (st : State U M) : Prop where
  len : st.hops.length = i
  last : ∃ pre s, st.hops = pre ++ [⟨st.url, s, st.method⟩]
  nodup : (keys st.hops).Nodup
  err : st.error = if 3 ≤ i then some Err.atLeastOneHop else none
  chain : Chained step get st.hops

/-- What holds of the value `compute` returns. -/
structure Post (r : State U M) : Prop where
  len_pos : 1 ≤ r.hops.length
  bound : r.hops.length ≤ maxHops + 1
  chain : Chained step get r.hops
  prefix_nodup : (keys r.hops.dropLast).Nodup
  loop_iff : r.error = some Err.loop ↔ LastRepeats r.hops
  too_many_iff : r.error = some Err.tooManyHops ↔
    (1 ≤ maxHops ∧ r.hops.length = maxHops + 1 ∧ (keys r.hops).Nodup ∧
      ∃ pre l, r.hops = pre ++ [l] ∧ ext l.url = false)
  other : r.error ≠ some Err.loop → r.error ≠ some Err.tooManyHops →
    r.error = (if 3 ≤ r.hops.length then some Err.atLeastOneHop else none) ∧
      (r.hops.length ≤ maxHops → Stuck step ext r.hops)

theorem not_lastRepeats_of_nodup {hs : List (Hop U M)} (h : (keys hs).Nodup) : ¬ LastRepeats hs := by
  rintro ⟨pre, l, rfl, hm⟩
  rw [keys_append, List.nodup_append] at h
  exact h.2.2 _ hm _ (by simp [keys]) rfl

/-- Post-condition when the loop stops on a state satisfying the invariant without pushing. -/
theorem post_of_inv {i : Nat} {st : State U M} (h1 : 1 ≤ i) (hi : i ≤ maxHops)
    (inv : Inv step get i st)
    (stuck : Stuck step ext st.hops) : Post step ext get maxHops st := by
  have hnd := inv.nodup
  refine ⟨by rw [inv.len]; exact h1, by rw [inv.len]; omega, inv.chain, ?_, ?_, ?_, ?_⟩
  · obtain ⟨pre, s, hp⟩ := inv.last
    rw [hp] at hnd ⊢
    rw [keys_append, List.nodup_append] at hnd
    simpa using hnd.1
  · rw [inv.err]
    constructor
    · intro h; split at h <;> simp at h
    · intro h; exact absurd h (not_lastRepeats_of_nodup hnd)
  · rw [inv.err]
    constructor
    · intro h; split at h <;> simp at h
    · rintro ⟨_, hl, _⟩; rw [inv.len] at hl; omega
  · intro _ _
    rw [inv.len]
    exact ⟨inv.err, fun _ => stuck⟩

/-- The five ways one turn of the loop can end. -/
theorem body_cases {i : Nat} {st : State U M} (inv : Inv step get i st) :
    (body step ext get maxHops i st = (st, false) ∧ Stuck step ext st.hops) ∨
    (∃ hop : Hop U M, Link step get ⟨st.url, 0, st.method⟩ hop ∧
      (((hop.url, hop.method) ∈ keys st.hops ∧
          body step ext get maxHops i st = (st.push hop (some Err.loop), false)) ∨
       ((hop.url, hop.method) ∉ keys st.hops ∧ ext hop.url = true ∧
          body step ext get maxHops i st =
            (st.push hop (if 3 ≤ i + 1 then some Err.atLeastOneHop else none), false)) ∨
       ((hop.url, hop.method) ∉ keys st.hops ∧ ext hop.url = false ∧ maxHops ≤ i ∧
          body step ext get maxHops i st = (st.push hop (some Err.tooManyHops), false)) ∨
       ((hop.url, hop.method) ∉ keys st.hops ∧ ext hop.url = false ∧ i < maxHops ∧
          body step ext get maxHops i st =
            (st.push hop (if 3 ≤ i + 1 then some Err.atLeastOneHop else none), true)))) := by
  obtain ⟨pre, s0, hlast⟩ := inv.last
  have herr1 : (if i > 1 then some Err.atLeastOneHop else st.error) =
      (if 3 ≤ i + 1 then some Err.atLeastOneHop else none) := by
    rw [inv.err]
    by_cases h : i > 1
    · have : 3 ≤ i + 1 := by omega
      simp [h, this]
    · have h2 : ¬ 3 ≤ i + 1 := by omega
      have h3 : ¬ 3 ≤ i := by omega
      simp [h, h2, h3]
  cases hs : step st.url st.method with
  | reqErr =>
    left
    exact ⟨by simp [body, hs], pre, _, hlast, Or.inr (Or.inl hs)⟩
  | resp status loc =>
    cases hred : isRedirect status with
    | false =>
      left
      exact ⟨by simp [body, hs, hred], pre, _, hlast, Or.inr (Or.inr ⟨status, loc, hs, Or.inl hred⟩)⟩
    | true =>
      cases loc with
      | none =>
        left
        exact ⟨by simp [body, hs, hred], pre, _, hlast, Or.inr (Or.inr ⟨status, none, hs, Or.inr rfl⟩)⟩
      | some newUrl =>
        right
        refine ⟨⟨newUrl, status, if rewritesToGet status then get else st.method⟩, ⟨hs, hred, rfl⟩, ?_⟩
        cases hany : st.hops.any (sameKey newUrl (if rewritesToGet status then get else st.method)) with
        | true =>
          have hmem := (any_sameKey_iff _ _ st.hops).1 hany
          exact Or.inl ⟨hmem, by simp [body, hs, hred, hany]⟩
        | false =>
          have hnm : (newUrl, if rewritesToGet status then get else st.method) ∉ keys st.hops := by
            intro h
            have := (any_sameKey_iff _ _ st.hops).2 h
            rw [hany] at this
            exact Bool.noConfusion this
          cases hext : ext newUrl with
          | true =>
            exact Or.inr (Or.inl ⟨hnm, rfl, by simp [body, hs, hred, hany, hext, herr1]⟩)
          | false =>
            by_cases hge : i ≥ maxHops
            · exact Or.inr (Or.inr (Or.inl ⟨hnm, rfl, hge, by simp [body, hs, hred, hany, hext, hge]⟩))
            · exact Or.inr (Or.inr (Or.inr ⟨hnm, rfl, by omega,
                by simp [body, hs, hred, hany, hext, hge, herr1]⟩))

/-- The invariant is re-established by a turn that pushes a fresh hop and goes on. -/
theorem inv_push {i : Nat} {st : State U M} (inv : Inv step get i st) (hop : Hop U M)
    (hl : Link step get ⟨st.url, 0, st.method⟩ hop) (hnm : (hop.url, hop.method) ∉ keys st.hops) :
    Inv step get (i + 1) (st.push hop (if 3 ≤ i + 1 then some Err.atLeastOneHop else none)) := by
  obtain ⟨pre, s0, hlast⟩ := inv.last
  refine ⟨by simp [State.push, inv.len], ⟨st.hops, hop.status, rfl⟩, ?_, rfl, ?_⟩
  · simp only [State.push, keys_append]
    rw [List.nodup_append]
    refine ⟨inv.nodup, by simp [keys], ?_⟩
    intro a ha b hb
    simp only [keys, List.map_cons, List.map_nil, List.mem_singleton] at hb
    subst hb
    intro h; subst h; exact hnm ha
  · simp only [State.push]
    rw [hlast]
    apply chained_snoc
    · rw [← hlast]; exact inv.chain
    · exact hl

theorem chained_push {i : Nat} {st : State U M} (inv : Inv step get i st) (hop : Hop U M)
    (hl : Link step get ⟨st.url, 0, st.method⟩ hop) : Chained step get (st.hops ++ [hop]) := by
  obtain ⟨pre, s0, hlast⟩ := inv.last
  rw [hlast]
  apply chained_snoc
  · rw [← hlast]; exact inv.chain
  · exact hl

theorem nodup_push {i : Nat} {st : State U M} (inv : Inv step get i st) (hop : Hop U M)
    (hnm : (hop.url, hop.method) ∉ keys st.hops) : (keys (st.hops ++ [hop])).Nodup := by
  rw [keys_append, List.nodup_append]
  refine ⟨inv.nodup, by simp [keys], ?_⟩
  intro a ha b hb
  simp only [keys, List.map_cons, List.map_nil, List.mem_singleton] at hb
  subst hb
  intro h; subst h; exact hnm ha

theorem snoc_inj {α : Type} {a b : List α} {x y : α} (h : a ++ [x] = b ++ [y]) : a = b ∧ x = y := by
  have := List.append_inj' h rfl
  exact ⟨this.1, by simpa using this.2⟩

theorem post_loop {i : Nat} {st : State U M} (h1 : 1 ≤ i) (hi : i ≤ maxHops) (inv : Inv step get i st)
    (hop : Hop U M) (hl : Link step get ⟨st.url, 0, st.method⟩ hop)
    (hm : (hop.url, hop.method) ∈ keys st.hops) :
    Post step ext get maxHops (st.push hop (some Err.loop)) := by
  have hlen : (st.push hop (some Err.loop)).hops.length = i + 1 := by simp [State.push, inv.len]
  refine ⟨by omega, by omega, chained_push step get inv hop hl, ?_, ?_, ?_, ?_⟩
  · simpa [State.push] using inv.nodup
  · exact ⟨fun _ => ⟨st.hops, hop, rfl, hm⟩, fun _ => rfl⟩
  · constructor
    · intro h; simp [State.push] at h
    · rintro ⟨_, _, hnd, _⟩
      exact absurd ⟨st.hops, hop, rfl, hm⟩ (not_lastRepeats_of_nodup hnd)
  · intro h; exact absurd rfl h

theorem post_ext {i : Nat} {st : State U M} (h1 : 1 ≤ i) (hi : i ≤ maxHops) (inv : Inv step get i st)
    (hop : Hop U M) (hl : Link step get ⟨st.url, 0, st.method⟩ hop)
    (hnm : (hop.url, hop.method) ∉ keys st.hops) (he : ext hop.url = true) :
    Post step ext get maxHops (st.push hop (if 3 ≤ i + 1 then some Err.atLeastOneHop else none)) := by
  have hlen : (st.push hop (if 3 ≤ i + 1 then some Err.atLeastOneHop else none)).hops.length = i + 1 := by
    simp [State.push, inv.len]
  have hnd := nodup_push step get inv hop hnm
  have hne : st.hops ≠ [] := by
    intro h; have := inv.len; rw [h] at this; simp at this; omega
  refine ⟨by omega, by omega, chained_push step get inv hop hl, ?_, ?_, ?_, ?_⟩
  · simpa [State.push] using inv.nodup
  · constructor
    · intro h; simp only [State.push] at h; split at h <;> simp at h
    · intro h; exact absurd h (not_lastRepeats_of_nodup hnd)
  · constructor
    · intro h; simp only [State.push] at h; split at h <;> simp at h
    · rintro ⟨_, _, _, pre, l, hpl, hel⟩
      have := snoc_inj hpl
      rw [← this.2, he] at hel
      exact Bool.noConfusion hel
  · intro _ _
    rw [hlen]
    exact ⟨rfl, fun _ => ⟨st.hops, hop, rfl, Or.inl ⟨hne, he⟩⟩⟩

theorem post_too_many {i : Nat} {st : State U M} (h1 : 1 ≤ i) (hi : i = maxHops) (inv : Inv step get i st)
    (hop : Hop U M) (hl : Link step get ⟨st.url, 0, st.method⟩ hop)
    (hnm : (hop.url, hop.method) ∉ keys st.hops) (he : ext hop.url = false) :
    Post step ext get maxHops (st.push hop (some Err.tooManyHops)) := by
  have hlen : (st.push hop (some Err.tooManyHops)).hops.length = i + 1 := by simp [State.push, inv.len]
  have hnd := nodup_push step get inv hop hnm
  refine ⟨by omega, by omega, chained_push step get inv hop hl, ?_, ?_, ?_, ?_⟩
  · simpa [State.push] using inv.nodup
  · constructor
    · intro h; simp [State.push] at h
    · intro h; exact absurd h (not_lastRepeats_of_nodup hnd)
  · exact ⟨fun _ => ⟨by omega, by omega, hnd, st.hops, hop, rfl, he⟩, fun _ => rfl⟩
  · intro _ h; exact absurd rfl h

/-- Post-condition of the rest of the loop from any state satisfying the invariant, as long as at
least one value of `i` is left (`i ≤ max_hops`). -/
theorem run_post : ∀ (n i : Nat) (st : State U M), i + n = maxHops → 1 ≤ i → Inv step get i st →
    Post step ext get maxHops (run step ext get maxHops i (n + 1) st) := by
  intro n
  induction n with
  | zero =>
    intro i st hin h1 inv
    have him : i = maxHops := by omega
    simp only [run]
    rcases body_cases step ext get maxHops inv with ⟨hb, hstuck⟩ | ⟨hop, hl, hc⟩
    · rw [hb]; exact post_of_inv step ext get maxHops h1 (by omega) inv hstuck
    · rcases hc with ⟨hm, hb⟩ | ⟨hnm, he, hb⟩ | ⟨hnm, he, hge, hb⟩ | ⟨_, _, hlt, _⟩
      · rw [hb]; exact post_loop step ext get maxHops h1 (by omega) inv hop hl hm
      · rw [hb]; exact post_ext step ext get maxHops h1 (by omega) inv hop hl hnm he
      · rw [hb]; exact post_too_many step ext get maxHops h1 him inv hop hl hnm he
      · omega
  | succ n ih =>
    intro i st hin h1 inv
    simp only [run]
    rcases body_cases step ext get maxHops inv with ⟨hb, hstuck⟩ | ⟨hop, hl, hc⟩
    · rw [hb]; exact post_of_inv step ext get maxHops h1 (by omega) inv hstuck
    · rcases hc with ⟨hm, hb⟩ | ⟨hnm, he, hb⟩ | ⟨hnm, he, hge, hb⟩ | ⟨hnm, he, hlt, hb⟩
      · rw [hb]; exact post_loop step ext get maxHops h1 (by omega) inv hop hl hm
      · rw [hb]; exact post_ext step ext get maxHops h1 (by omega) inv hop hl hnm he
      · omega
      · rw [hb]
        exact ih (i + 1) _ (by omega) (by omega) (inv_push step get inv hop hl hnm)

theorem init_inv (url : U) (method : M) : Inv step get 1 (init url method) :=
  ⟨rfl, ⟨[], 0, rfl⟩, by simp [init, keys], rfl, trivial⟩

/-- The post-condition of `compute`, for every `step`, `ext`, `get`, `max_hops`, start. -/
theorem compute_post (url : U) (method : M) :
    Post step ext get maxHops (compute step ext get maxHops url method) := by
  unfold compute
  cases hm : maxHops with
  | zero =>
    simp only [run]
    refine ⟨by simp [init], by simp [init], trivial, by simp [init, keys], ?_, ?_, ?_⟩
    · constructor
      · intro h; simp [init] at h
      · intro h; exact absurd h (not_lastRepeats_of_nodup (by simp [init, keys]))
    · constructor
      · intro h; simp [init] at h
      · rintro ⟨h, _⟩; omega
    · intro _ _
      refine ⟨by simp [init], ?_⟩
      intro h; simp [init] at h
  | succ k =>
    have := run_post step ext get (k + 1) k 1 (init url method) (by omega) (by omega)
      (init_inv step get url method)
    exact this

/-- `runCount` computes the same state as `run`, and evaluates `step` at most once per value of `i`. -/
theorem runCount_spec : ∀ (n i : Nat) (st : State U M) (c : Nat),
    (runCount step ext get maxHops i n st c).1 = run step ext get maxHops i n st ∧
    (runCount step ext get maxHops i n st c).2 ≤ c + n := by
  intro n
  induction n with
  | zero => intro i st c; simp [runCount, run]
  | succ n ih =>
    intro i st c
    cases hb : body step ext get maxHops i st with
    | mk st' b =>
      cases b with
      | true =>
        have := ih (i + 1) st' (c + 1)
        simp only [runCount, run, hb]
        exact ⟨this.1, by omega⟩
      | false =>
        simp only [runCount, run, hb]
        exact ⟨trivial, by omega⟩

/-- A turn of the loop only ever appends to `hops`. -/
theorem body_prefix (i : Nat) (st : State U M) :
    ∃ l, (body step ext get maxHops i st).1.hops = st.hops ++ l := by
  unfold body
  cases hs : step st.url st.method with
  | reqErr => exact ⟨[], by simp⟩
  | resp status loc =>
    cases hr : isRedirect status with
    | false => exact ⟨[], by simp [hr]⟩
    | true =>
      cases loc with
      | none => exact ⟨[], by simp [hr]⟩
      | some newUrl =>
        refine ⟨[⟨newUrl, status, if rewritesToGet status then get else st.method⟩], ?_⟩
        simp only [hr, Bool.not_true, Bool.false_eq_true, if_false]
        repeat' split
        all_goals rfl

theorem run_prefix : ∀ (n i : Nat) (st : State U M),
    ∃ l, (run step ext get maxHops i n st).hops = st.hops ++ l := by
  intro n
  induction n with
  | zero => intro i st; exact ⟨[], by simp [run]⟩
  | succ n ih =>
    intro i st
    obtain ⟨l, hl⟩ := body_prefix step ext get maxHops i st
    cases hb : body step ext get maxHops i st with
    | mk st' b =>
      rw [hb] at hl
      cases b with
      | true =>
        obtain ⟨l2, hl2⟩ := ih (i + 1) st'
        refine ⟨l ++ l2, ?_⟩
        simp only [run, hb]
        rw [hl2, hl, List.append_assoc]
      | false =>
        exact ⟨l, by simp only [run, hb]; exact hl⟩

end Rio.Loop
