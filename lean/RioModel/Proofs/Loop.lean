/-
Lemmas about `Rio.Loop` (model of `RedirectionLoop::compute`): the loop invariant, the case
analysis of one turn of the loop, and the post-condition of `run` from which the C19 / C07
theorems are projected.
-/
import RioModel.Model.Loop
set_option linter.unusedSimpArgs false

namespace Rio.Loop

variable {U M : Type} [DecidableEq U] [DecidableEq M]

theorem any_sameKey_iff (u : U) (m : M) (hs : List (Hop U M)) :
    hs.any (sameKey u m) = true ↔ (u, m) ∈ keys hs := by
  induction hs with
  | nil => simp [keys]
  | cons h t ih =>
    simp only [List.any_cons, Bool.or_eq_true, ih, keys, List.map_cons, List.mem_cons]
    constructor
    · rintro (h1 | h1)
      · left
        simp only [sameKey, Bool.and_eq_true, beq_iff_eq] at h1
        exact Prod.ext h1.1.symm h1.2.symm
      · right; exact h1
    · rintro (h1 | h1)
      · left
        simp only [sameKey, Bool.and_eq_true, beq_iff_eq]
        have := Prod.mk.inj h1
        exact ⟨this.1.symm, this.2.symm⟩
      · right; exact h1

theorem keys_append (a b : List (Hop U M)) : keys (a ++ b) = keys a ++ keys b := by
  simp [keys]

/-- One link of the chain of hops: `b` is what the turn of the loop started at `a` pushed. -/
def Link (step : U → M → StepOut U) (get : M) (a b : Hop U M) : Prop :=
  step a.url a.method = .resp b.status (some b.url) ∧ isRedirect b.status = true ∧
    b.method = (if rewritesToGet b.status then get else a.method)

/-- Every two consecutive hops are linked. -/
def Chained (step : U → M → StepOut U) (get : M) : List (Hop U M) → Prop
  | [] => True
  | [_] => True
  | a :: b :: rest => Link step get a b ∧ Chained step get (b :: rest)

theorem chained_snoc (step : U → M → StepOut U) (get : M) :
    ∀ (pre : List (Hop U M)) (a b : Hop U M),
      Chained step get (pre ++ [a]) → Link step get a b → Chained step get (pre ++ [a] ++ [b])
  | [], a, b, _, hl => by simp [Chained, hl]
  | [x], a, b, hc, hl => by
      simp only [List.cons_append, List.nil_append, Chained] at hc ⊢
      exact ⟨hc.1, hl, trivial⟩
  | x :: y :: rest, a, b, hc, hl => by
      simp only [List.cons_append, Chained] at hc ⊢
      refine ⟨hc.1, ?_⟩
      have := chained_snoc step get (y :: rest) a b (by simpa using hc.2) hl
      simpa using this

/-- The last hop is the first hop pushed twice: its `(url, method)` occurs among the earlier hops. -/
def LastRepeats (hs : List (Hop U M)) : Prop :=
  ∃ pre l, hs = pre ++ [l] ∧ (l.url, l.method) ∈ keys pre

/-- Why a walk that reports no `Loop` / `TooManyHops` stopped at its last hop. -/
def Stuck (step : U → M → StepOut U) (ext : U → Bool) (hs : List (Hop U M)) : Prop :=
  ∃ pre l, hs = pre ++ [l] ∧
    ((pre ≠ [] ∧ ext l.url = true) ∨ step l.url l.method = .reqErr ∨
      (∃ s loc, step l.url l.method = .resp s loc ∧ (isRedirect s = false ∨ loc = none)))

variable (step : U → M → StepOut U) (ext : U → Bool) (get : M) (maxHops : Nat)

/-- Loop invariant at the start of the turn with counter `i`. -/
structure Inv (i : Nat) (st : State U M) : Prop where
  len : st.hops.length = i
  last : ∃ pre s, st.hops = pre ++ [⟨st.url, s, st.method⟩]
  nodup : (keys st.hops).Nodup
  err : st.error = if 3 ≤ i then some Err.atLeastOneHop else none
  chain : Chained step get st.hops

/-- What holds of the value `compute` returns. -/
structure Post (r : State U M) : Prop where
  len_pos : 1 ≤ r.hops.length
  bound : r.hops.length ≤ maxHops + 1
  chain : Chained step get r.hops
  prefix_nodup : (keys r.hops.dropLast).Nodup
  loop_iff : r.error = some Err.loop ↔ LastRepeats r.hops
  too_many_iff : r.error = some Err.tooManyHops ↔
    (1 ≤ maxHops ∧ r.hops.length = maxHops + 1 ∧ (keys r.hops).Nodup ∧
      ∃ pre l, r.hops = pre ++ [l] ∧ ext l.url = false)
  other : r.error ≠ some Err.loop → r.error ≠ some Err.tooManyHops →
    r.error = (if 3 ≤ r.hops.length then some Err.atLeastOneHop else none) ∧
      (r.hops.length ≤ maxHops → Stuck step ext r.hops)

theorem not_lastRepeats_of_nodup {hs : List (Hop U M)} (h : (keys hs).Nodup) : ¬ LastRepeats hs := by
  rintro ⟨pre, l, rfl, hm⟩
  rw [keys_append, List.nodup_append] at h
  exact h.2.2 _ hm _ (by simp [keys]) rfl

/-- Post-condition when the loop stops on a state satisfying the invariant without pushing. -/
theorem post_of_inv {i : Nat} {st : State U M} (h1 : 1 ≤ i) (hi : i ≤ maxHops)
    (inv : Inv step get i st)
    (stuck : Stuck step ext st.hops) : Post step ext get maxHops st := by
  have hnd := inv.nodup
  refine ⟨by rw [inv.len]; exact h1, by rw [inv.len]; omega, inv.chain, ?_, ?_, ?_, ?_⟩
  · obtain ⟨pre, s, hp⟩ := inv.last
    rw [hp] at hnd ⊢
    rw [keys_append, List.nodup_append] at hnd
    simpa using hnd.1
  · rw [inv.err]
    constructor
    · intro h; split at h <;> simp at h
    · intro h; exact absurd h (not_lastRepeats_of_nodup hnd)
  · rw [inv.err]
    constructor
    · intro h; split at h <;> simp at h
    · rintro ⟨_, hl, _⟩; rw [inv.len] at hl; omega
  · intro _ _
    rw [inv.len]
    exact ⟨inv.err, fun _ => stuck⟩

/-- The five ways one turn of the loop can end. -/
theorem body_cases {i : Nat} {st : State U M} (inv : Inv step get i st) (h1 : 1 ≤ i) :
    let r := body step ext get maxHops i st
    (r = (st, false) ∧ Stuck step ext st.hops) ∨
    (∃ hop : Hop U M, Link step get ⟨st.url, 0, st.method⟩ hop ∧
      r.1.hops = st.hops ++ [hop] ∧ r.1.url = hop.url ∧ r.1.method = hop.method ∧
      (((hop.url, hop.method) ∈ keys st.hops ∧ r.2 = false ∧ r.1.error = some Err.loop) ∨
       ((hop.url, hop.method) ∉ keys st.hops ∧ ext hop.url = true ∧ r.2 = false ∧
          r.1.error = (if 3 ≤ i + 1 then some Err.atLeastOneHop else none)) ∨
       ((hop.url, hop.method) ∉ keys st.hops ∧ ext hop.url = false ∧ maxHops ≤ i ∧ r.2 = false ∧
          r.1.error = some Err.tooManyHops) ∨
       ((hop.url, hop.method) ∉ keys st.hops ∧ ext hop.url = false ∧ i < maxHops ∧ r.2 = true ∧
          r.1.error = (if 3 ≤ i + 1 then some Err.atLeastOneHop else none)))) := by
  intro r
  obtain ⟨pre, s0, hlast⟩ := inv.last
  have herr1 : (if i > 1 then some Err.atLeastOneHop else st.error) =
      (if 3 ≤ i + 1 then some Err.atLeastOneHop else none) := by
    rw [inv.err]
    by_cases h : i > 1
    · have : 3 ≤ i + 1 := by omega
      simp [h, this]
    · have h2 : ¬ 3 ≤ i + 1 := by omega
      have h3 : ¬ 3 ≤ i := by omega
      simp [h, h2, h3]
  cases hs : step st.url st.method with
  | reqErr =>
    left
    refine ⟨by simp [r, body, hs], pre, _, hlast, Or.inr (Or.inl hs)⟩
  | resp status loc =>
    cases hred : isRedirect status with
    | false =>
      left
      refine ⟨by simp [r, body, hs, hred], pre, _, hlast, Or.inr (Or.inr ⟨status, loc, hs, Or.inl hred⟩)⟩
    | true =>
      cases loc with
      | none =>
        left
        refine ⟨by simp [r, body, hs, hred], pre, _, hlast, Or.inr (Or.inr ⟨status, none, hs, Or.inr rfl⟩)⟩
      | some newUrl =>
        right
        let method := if rewritesToGet status then get else st.method
        refine ⟨⟨newUrl, status, method⟩, ⟨hs, hred, rfl⟩, ?_⟩
        cases hany : st.hops.any (sameKey newUrl method) with
        | true =>
          have hmem := (any_sameKey_iff newUrl method st.hops).1 hany
          have hr : r = ({ url := newUrl, method := method, hops := st.hops ++ [⟨newUrl, status, method⟩],
              error := some Err.loop }, false) := by
            simp [r, body, hs, hred, method, hany]
          rw [hr]
          exact ⟨rfl, rfl, rfl, Or.inl ⟨hmem, rfl, rfl⟩⟩
        | false =>
          have hnm : (newUrl, method) ∉ keys st.hops := by
            intro h
            have := (any_sameKey_iff newUrl method st.hops).2 h
            rw [hany] at this
            exact Bool.noConfusion this
          cases hext : ext newUrl with
          | true =>
            have hr : r = ({ url := newUrl, method := method, hops := st.hops ++ [⟨newUrl, status, method⟩],
                error := if i > 1 then some Err.atLeastOneHop else st.error }, false) := by
              simp [r, body, hs, hred, method, hany, hext]
            rw [hr]
            exact ⟨rfl, rfl, rfl, Or.inr (Or.inl ⟨hnm, hext, rfl, herr1⟩)⟩
          | false =>
            by_cases hge : i ≥ maxHops
            · have hr : r = ({ url := newUrl, method := method, hops := st.hops ++ [⟨newUrl, status, method⟩],
                  error := some Err.tooManyHops }, false) := by
                simp [r, body, hs, hred, method, hany, hext, hge]
              rw [hr]
              exact ⟨rfl, rfl, rfl, Or.inr (Or.inr (Or.inl ⟨hnm, hext, hge, rfl, rfl⟩))⟩
            · have hr : r = ({ url := newUrl, method := method, hops := st.hops ++ [⟨newUrl, status, method⟩],
                  error := if i > 1 then some Err.atLeastOneHop else st.error }, true) := by
                simp [r, body, hs, hred, method, hany, hext, hge]
              rw [hr]
              exact ⟨rfl, rfl, rfl, Or.inr (Or.inr (Or.inr ⟨hnm, hext, by omega, rfl, herr1⟩))⟩

end Rio.Loop
