/-
Helper lemmas for the action trace (`TraceAction::from_trace_rules`), C17 clause 3.
-/
import RioModel.Model.ActionTrace
import RioModel.Proofs.Action
import RioModel.Proofs.ActionSort
set_option linter.unusedSimpArgs false

namespace Rio.Action
open Spec

/-! ### one iteration -/

theorem traceFold_cons (q : Req) (draw : Rule → Nat) (a : Action) (r : Rule) (rest : List Rule) :
    traceFold q draw a (r :: rest) =
      if effective q draw r then
        ⟨stepRule q a r, r⟩ :: (if isStop r then [] else traceFold q draw (stepRule q a r) rest)
      else ⟨a, r⟩ :: traceFold q draw a rest := by
  rw [traceFold, fromRouteRule_eq]
  cases he : effective q draw r
  · simp
  · simp only [if_true, stepRule]

theorem foldRoutes_cons (q : Req) (draw : Rule → Nat) (a : Action) (r : Rule) (rest : List Rule) :
    foldRoutes q draw a (r :: rest) =
      if effective q draw r then
        (if isStop r then stepRule q a r else foldRoutes q draw (stepRule q a r) rest)
      else foldRoutes q draw a rest := by
  rw [foldRoutes_eq_foldE, List.filter_cons]
  cases he : effective q draw r
  · simp [foldRoutes_eq_foldE]
  · simp [foldE, foldRoutes_eq_foldE]

/-! ### the last step is the fold -/

/-- The action of the last step, `a` if there is none. -/
def lastOr (a : Action) (l : List TraceAction) : Action :=
  match l.getLast? with
  | some t => t.action
  | none => a

theorem lastOr_nil (a : Action) : lastOr a [] = a := rfl

theorem lastOr_cons (a : Action) (x : TraceAction) (l : List TraceAction) :
    lastOr a (x :: l) = lastOr x.action l := by
  cases l with
  | nil => rfl
  | cons y ys =>
    simp only [lastOr, List.getLast?_cons_cons]
    cases h : (y :: ys).getLast? with
    | some t => rfl
    | none => simp at h

theorem lastAction_eq_lastOr (l : List TraceAction) : lastAction l = lastOr Action.empty l := rfl

theorem lastOr_traceFold (q : Req) (draw : Rule → Nat) (a : Action) (S : List Rule) :
    lastOr a (traceFold q draw a S) = foldRoutes q draw a S := by
  induction S generalizing a with
  | nil => rfl
  | cons r rest ih =>
    rw [traceFold_cons, foldRoutes_cons]
    cases he : effective q draw r
    · simp only [Bool.false_eq_true, if_false, lastOr_cons]
      exact ih a
    · simp only [if_true, lastOr_cons]
      cases hs : isStop r
      · simp only [Bool.false_eq_true, if_false]
        exact ih _
      · simp [lastOr_nil]

/-! ### every step -/

theorem foldE_append_nostop (q : Req) (a : Action) (l m : List Rule) (h : ∀ x ∈ l, isStop x = false) :
    foldE q a (l ++ m) = foldE q (foldR q a l) m := by
  induction l generalizing a with
  | nil => rfl
  | cons x xs ih =>
    have hx : isStop x = false := h x (by simp)
    simp only [List.cons_append, foldE, hx, Bool.false_eq_true, if_false]
    rw [ih _ (fun y hy => h y (List.mem_cons_of_mem _ hy))]
    rfl

theorem foldE_nostop (q : Req) (a : Action) (l : List Rule) (h : ∀ x ∈ l, isStop x = false) :
    foldE q a l = foldR q a l := by
  have := foldE_append_nostop q a l [] h
  simpa [foldE] using this

/-- No rule of the list is both kept by the sampling decision and marked `stop`. -/
def NoEffStop (q : Req) (draw : Rule → Nat) (P : List Rule) : Prop :=
  ∀ x ∈ P, (effective q draw x && isStop x) = false

theorem foldRoutes_append_nostop (q : Req) (draw : Rule → Nat) (a : Action) (P X : List Rule)
    (h : NoEffStop q draw P) :
    foldRoutes q draw a (P ++ X) = foldRoutes q draw (foldRoutes q draw a P) X := by
  have hP : ∀ x ∈ P.filter (effective q draw), isStop x = false := by
    intro x hx
    have := List.mem_filter.mp hx
    have h' := h x this.1
    simpa [this.2] using h'
  rw [foldRoutes_eq_foldE, foldRoutes_eq_foldE, foldRoutes_eq_foldE, List.filter_append,
    foldE_append_nostop q a _ _ hP, foldE_nostop q a _ hP]

theorem foldRoutes_single (q : Req) (draw : Rule → Nat) (a : Action) (r : Rule) :
    foldRoutes q draw a [r] = if effective q draw r then stepRule q a r else a := by
  rw [foldRoutes_cons]
  cases effective q draw r <;> cases isStop r <;> simp [foldRoutes]

theorem take_append_succ (P : List Rule) (r : Rule) (rest : List Rule) :
    (P ++ r :: rest).take (P.length + 1) = P ++ [r] := by
  induction P with
  | nil => simp
  | cons x xs ih => simpa using ih

/-- The step list, with the steps numbered from `P.length` when a prefix `P` (without effective
stop) has already been folded. -/
theorem traceFold_steps (q : Req) (draw : Rule → Nat) (S P : List Rule) (hP : NoEffStop q draw P) :
    traceFold q draw (foldRoutes q draw Action.empty P) S =
      mapIdxFrom (fun k r => ⟨foldRoutes q draw Action.empty ((P ++ S).take (k + 1)), r⟩) P.length
        (throughFirstEffectiveStop q draw S) := by
  induction S generalizing P with
  | nil => rfl
  | cons r rest ih =>
    have hhead : foldRoutes q draw Action.empty ((P ++ r :: rest).take (P.length + 1)) =
        (if effective q draw r then stepRule q (foldRoutes q draw Action.empty P) r
         else foldRoutes q draw Action.empty P) := by
      rw [take_append_succ, foldRoutes_append_nostop q draw _ P [r] hP, foldRoutes_single]
    rw [traceFold_cons]
    unfold throughFirstEffectiveStop
    cases he : effective q draw r
    · -- skipped rule: the step repeats the current action
      have hP' : NoEffStop q draw (P ++ [r]) := by
        intro x hx
        rcases List.mem_append.mp hx with h | h
        · exact hP x h
        · simp only [List.mem_singleton] at h; subst h; simp [he]
      have hfold : foldRoutes q draw Action.empty (P ++ [r]) = foldRoutes q draw Action.empty P := by
        rw [foldRoutes_append_nostop q draw _ P [r] hP, foldRoutes_single, he]; rfl
      have := ih (P ++ [r]) hP'
      rw [hfold] at this
      simp only [Bool.false_eq_true, if_false, Bool.false_and, mapIdxFrom, hhead, he]
      rw [this]
      simp [List.append_assoc]
    · cases hs : isStop r
      · have hP' : NoEffStop q draw (P ++ [r]) := by
          intro x hx
          rcases List.mem_append.mp hx with h | h
          · exact hP x h
          · simp only [List.mem_singleton] at h; subst h; simp [hs]
        have hfold : foldRoutes q draw Action.empty (P ++ [r]) =
            stepRule q (foldRoutes q draw Action.empty P) r := by
          rw [foldRoutes_append_nostop q draw _ P [r] hP, foldRoutes_single, he]; rfl
        have := ih (P ++ [r]) hP'
        rw [hfold] at this
        simp only [if_true, Bool.true_and, Bool.false_eq_true, if_false, mapIdxFrom, hhead, he]
        rw [this]
        simp [List.append_assoc]
      · simp only [if_true, Bool.true_and, mapIdxFrom, hhead, he]

theorem mapIdxFrom_congr {β : Type} (f g : Nat → Rule → β) (n : Nat) (l : List Rule)
    (h : ∀ k r, f k r = g k r) : mapIdxFrom f n l = mapIdxFrom g n l := by
  induction l generalizing n with
  | nil => rfl
  | cons x xs ih => simp [mapIdxFrom, h, ih]

/-- The whole step list of the loop is the specification's step list. -/
theorem traceFold_eq_traceSteps (q : Req) (draw : Rule → Nat) (S : List Rule) :
    traceFold q draw Action.empty S = Spec.traceSteps q draw S := by
  have := traceFold_steps q draw S [] (fun x hx => by cases hx)
  simp only [foldRoutes, List.nil_append, List.length_nil] at this
  rw [this]
  unfold Spec.traceSteps
  apply mapIdxFrom_congr
  intro k r
  rw [foldRoutes_eq_spec]

theorem mapIdxFrom_map_rule (f : Nat → Rule → Action) (n : Nat) (l : List Rule) :
    (mapIdxFrom (fun k r => (⟨f k r, r⟩ : TraceAction)) n l).map (·.rule) = l := by
  induction l generalizing n with
  | nil => rfl
  | cons x xs ih => simp [mapIdxFrom, ih]

/-! ### the trace sort -/

/-- The comparison of `sort_by_key(priority)`. -/
def rankGe (a b : Rule) : Bool := decide (priorityOf a ≤ priorityOf b)

theorem rankGe_iff (a b : Rule) : rankGe a b = true ↔ b.rank ≤ a.rank := by
  unfold rankGe priorityOf
  simp only [decide_eq_true_eq]
  omega

theorem traceSort_perm (R : List Rule) : (traceSort R).Perm R := List.mergeSort_perm R _

theorem traceSort_sorted (R : List Rule) : (traceSort R).Pairwise (fun a b => rankGe a b = true) := by
  unfold traceSort
  apply List.pairwise_mergeSort (le := rankGe)
  · intro a b c h1 h2
    rw [rankGe_iff] at *
    omega
  · intro a b
    simp only [Bool.or_eq_true, rankGe_iff]
    omega

/-- With pairwise distinct ranks the rank-only order is the order of `Rule::cmp` (whose rank key is
compared descending — read from the source). -/
theorem traceSort_ruleLe (R : List Rule) (h : DistinctRanks R) :
    (traceSort R).Pairwise (fun a b => ruleLe a b = true) := by
  have hd : DistinctRanks (traceSort R) := h.perm (traceSort_perm R).symm
  unfold DistinctRanks at hd
  rw [List.Nodup, List.pairwise_map] at hd
  have := (traceSort_sorted R).and hd
  refine this.imp ?_
  intro a b ⟨h1, h2⟩
  rw [rankGe_iff] at h1
  rw [ruleLe_iff, keyCmp_nat_lt]
  left
  simp only [Rio.Consts.ruleCmpRankDescending, if_true]
  omega

theorem traceSort_eq_sortRules (R : List Rule) (h : DistinctRanks R) : traceSort R = sortRules R :=
  sorted_perm_unique_key (traceSort_ruleLe R h) (sortRules_sorted R)
    ((traceSort_perm R).trans (sortRules_perm R).symm) (h.keyInj.perm (traceSort_perm R).symm)

end Rio.Action
