/-
Stream laws of the tokenizer model, part 5: the content moved to HtmlTok2 (independent of the filter proofs); this module
keeps the old import path alive.
-/
import RioModel.Proofs.HtmlTok2
import RioModel.Proofs.HtmlStream4
