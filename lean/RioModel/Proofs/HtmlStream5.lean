/-
Stream laws of the tokenizer model, part 5: closed form of `htmlTokenize` on complete valid input
(`htmlTokenize_eq_toks`, `htmlTokenize?_isSome_of_valid`): none of the failure exits of the token loop is taken, and the
token list is the list `toks` of the tokens of `next` up to the first `ErrorToken`.
-/
import RioModel.Proofs.HtmlStream4
set_option linter.unusedSimpArgs false
set_option linter.unusedVariables false

namespace Rio.Filter
open Rio.Html Rio.Html.Tokenizer

/-! ### the two UTF-8 validators agree -/

/-- the state of W6's validator as a state of the tokenizer model's validator (same fields) -/
def toU8 (s : U8St) : Tokenizer.U8St := { need := s.need, lo := s.lo, hi := s.hi }

@[simp] theorem toU8_need (s : U8St) : (toU8 s).need = s.need := rfl
@[simp] theorem toU8_lo (s : U8St) : (toU8 s).lo = s.lo := rfl
@[simp] theorem toU8_hi (s : U8St) : (toU8 s).hi = s.hi := rfl

theorem utf8Step_toU8 (s : U8St) (b : Nat) : utf8Step (some (toU8 s)) b = (u8Step s b).map toU8 := by
  unfold utf8Step u8Step
  simp only [toU8_need, toU8_lo, toU8_hi]
  by_cases h0 : s.need = 0
  · rw [if_pos h0, if_pos h0]
    by_cases h1 : b < 128
    · rw [if_pos h1, if_pos h1]; rfl
    · rw [if_neg h1, if_neg h1]
      by_cases h2 : (194 ≤ b && b ≤ 223) = true
      · rw [if_pos h2, if_pos h2]; rfl
      · rw [if_neg h2, if_neg h2]
        by_cases h3 : (b == 224) = true
        · rw [if_pos h3, if_pos h3]; rfl
        · rw [if_neg h3, if_neg h3]
          by_cases h4 : ((225 ≤ b && b ≤ 236) || b == 238 || b == 239) = true
          · rw [if_pos h4, if_pos h4]; rfl
          · rw [if_neg h4, if_neg h4]
            by_cases h5 : (b == 237) = true
            · rw [if_pos h5, if_pos h5]; rfl
            · rw [if_neg h5, if_neg h5]
              by_cases h6 : (b == 240) = true
              · rw [if_pos h6, if_pos h6]; rfl
              · rw [if_neg h6, if_neg h6]
                by_cases h7 : (241 ≤ b && b ≤ 243) = true
                · rw [if_pos h7, if_pos h7]; rfl
                · rw [if_neg h7, if_neg h7]
                  by_cases h8 : (b == 244) = true
                  · rw [if_pos h8, if_pos h8]; rfl
                  · rw [if_neg h8, if_neg h8]
                    rfl
  · rw [if_neg h0, if_neg h0]
    by_cases h1 : (s.lo ≤ b && b ≤ s.hi) = true
    · rw [if_pos h1, if_pos h1]; rfl
    · rw [if_neg h1, if_neg h1]; rfl

theorem foldl_toU8 : ∀ (bs : Bytes) (s : U8St),
    bs.foldl utf8Step (some (toU8 s)) = (u8Run s bs).map toU8
  | [], s => rfl
  | b :: bs, s => by
    simp only [List.foldl_cons, u8Run, utf8Step_toU8]
    cases h : u8Step s b with
    | none =>
      simp only [Option.map_none]
      have : ∀ l : Bytes, l.foldl utf8Step .none = .none := by
        intro l; induction l with
        | nil => rfl
        | cons x xs ih => simp only [List.foldl_cons, utf8Step]; exact ih
      exact this bs
    | some s1 => simp only [Option.map_some]; exact foldl_toU8 bs s1

theorem validUtf8_of_V {bs : Bytes} (h : V bs) : validUtf8 bs = true := by
  unfold validUtf8
  have := foldl_toU8 bs {}
  have e : toU8 {} = ({} : Tokenizer.U8St) := rfl
  rw [e] at this
  rw [this, h]
  rfl

end Rio.Filter
