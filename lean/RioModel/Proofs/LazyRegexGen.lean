/-
W20 — the lazily compiled regex cell TRANSLATED from src/regex.rs (`Rio.Consts.GenLazyRegex`, `genLazyRegexNewNode`, `…NewLeaf`,
`…CreateRegex`, `…IsMatch`, `…Regex`, `…Compile`) and `Leaf::cache` (`genLeafCache`), related to the hand-written model
`Rio.Tree.LazyRegex` (Model/Tree.lean).  Helper definitions and lemmas; the theorems are in Props/C12gen.lean.

The translated code works on STRINGS (`regex : List Char`, the text handed to `RegexBuilder::new`) and on an abstract type `ρ` of
compiled regex values with the crate as parameters `build` / `run`; the model works on the structural `RxSrc` and on
`Compiled` = the inputs a value was built from, with the crate as `E : Engine`.  The two are related by

* `Rep val g rx` — field by field: same `original`, `g.regex = rx.regex.toStr` (the string the constructor really built), same
  case flag, `g.compiled = rx.compiled.map val` where `val : Compiled → ρ` names the crate value built from given inputs;
* `CrateAt E build run val src ic` — the crate parameters agree with the engine on the ONE regex text the cell hands to the
  builder (`build src.toStr ic` succeeds iff `Compiled.ok`, and then returns `val ⟨src, ic⟩`), and running a value is
  `Compiled.run`.  It is stated at one `(src, ic)` — not for all — because `RxSrc.toStr` is not injective
  (`leaf p` and `node (p ++ "$")` are the same text) and an arbitrary `Engine` need not respect that;
* `OkSound E` — "`full` / `pre` mean compiles AND matches" (the documented reading of `Engine`, true of `engineOf G`): needed
  because the code answers `false` when the lazily built regex does not compile while the model runs `Compiled.run`.
-/
import RioModel.Generated.Consts
import RioModel.Proofs.TreeCache
set_option linter.unusedSimpArgs false
set_option linter.unusedVariables false
set_option linter.unusedSectionVars false

namespace Rio.LazyRegexGen
open Rio.Consts Rio.Regex Rio.Tree

variable {ρ : Type}

/-- Field-by-field representation of a model `LazyRegex` by a translated one. -/
structure Rep (val : Compiled → ρ) (g : GenLazyRegex ρ) (rx : LazyRegex) : Prop where
  original : g.original = rx.original
  regex : g.regex = rx.regex.toStr
  ic : g.ignoreCase = rx.ic
  compiled : g.compiled = rx.compiled.map val

/-- The crate parameters agree with the engine `E` on the regex text `src.toStr` with flag `ic`. -/
structure CrateAt (E : Engine) (build : List Char → Bool → Option ρ) (run : ρ → List Char → Bool)
    (val : Compiled → ρ) (src : RxSrc) (ic : Bool) : Prop where
  build_eq : build src.toStr ic = if Compiled.ok E ⟨src, ic⟩ then some (val ⟨src, ic⟩) else none
  run_eq : ∀ c s, run (val c) s = Compiled.run E c s

/-- `full` / `pre` of the engine mean "compiles and matches". -/
def OkSound (E : Engine) : Prop := ∀ c s, Compiled.ok E c = false → Compiled.run E c s = false

theorem okSound_engineOf (G : List Char → Option Re) : OkSound (engineOf G) := by
  intro c s h
  obtain ⟨src, ic⟩ := c
  cases src with
  | leaf p =>
    simp only [Compiled.ok, engineOf] at h
    simp only [Compiled.run, engineOf]
    cases hc : compileStr G p with
    | none => rfl
    | some r => simp [hc] at h
  | node q =>
    simp only [Compiled.ok, engineOf] at h
    simp only [Compiled.run, engineOf]
    cases hc : compileStr G q with
    | none => rfl
    | some r => simp [hc] at h
  | any => simp [Compiled.ok] at h

/-- The representation the translated cell has of a model cell (for `ρ`, `val` given). -/
def toGen (val : Compiled → ρ) (rx : LazyRegex) : GenLazyRegex ρ :=
  { original := rx.original, regex := rx.regex.toStr, compiled := rx.compiled.map val, ignoreCase := rx.ic }

theorem rep_toGen (val : Compiled → ρ) (rx : LazyRegex) : Rep val (toGen val rx) rx := ⟨rfl, rfl, rfl, rfl⟩

theorem rep_iff (val : Compiled → ρ) (g : GenLazyRegex ρ) (rx : LazyRegex) : Rep val g rx ↔ g = toGen val rx := by
  constructor
  · intro h
    cases g
    simp only [toGen, GenLazyRegex.mk.injEq]
    exact ⟨h.original, h.regex, h.compiled, h.ic⟩
  · rintro rfl
    exact rep_toGen val rx

/-! ### constructors -/

theorem newNode_rep (val : Compiled → ρ) (q : List Char) (ic : Bool) :
    Rep val (genLazyRegexNewNode q ic) (LazyRegex.newNode q ic) := by
  refine ⟨rfl, ?_, rfl, rfl⟩
  simp only [genLazyRegexNewNode, LazyRegex.newNode]
  cases q <;> simp [RxSrc.toStr]

theorem newLeaf_rep (val : Compiled → ρ) (p : List Char) (ic : Bool) :
    Rep val (genLazyRegexNewLeaf p ic) (LazyRegex.newLeaf p ic) := by
  refine ⟨rfl, ?_, rfl, rfl⟩
  simp [genLazyRegexNewLeaf, LazyRegex.newLeaf, RxSrc.toStr]

/-! ### create_regex, is_match, regex, compile -/

/-- `match build .. { Ok(r) => Some(Arc::new(r)), Err(_) => None }` is `build ..`. -/
theorem createRegex_eta (build : List Char → Bool → Option ρ) (g : GenLazyRegex ρ) :
    genLazyRegexCreateRegex build g = build g.regex g.ignoreCase := by
  simp only [genLazyRegexCreateRegex]
  cases build g.regex g.ignoreCase <;> rfl

theorem createRegex_eq (E : Engine) {build : List Char → Bool → Option ρ} {run : ρ → List Char → Bool}
    {val : Compiled → ρ} {g : GenLazyRegex ρ} {rx : LazyRegex} (h : Rep val g rx)
    (hc : CrateAt E build run val rx.regex rx.ic) :
    genLazyRegexCreateRegex build g = (rx.createRegex E).map val := by
  simp only [genLazyRegexCreateRegex, LazyRegex.createRegex, h.regex, h.ic, hc.build_eq]
  cases Compiled.ok E ⟨rx.regex, rx.ic⟩ <;> simp

theorem isMatch_eq (E : Engine) (hE : OkSound E) {build : List Char → Bool → Option ρ} {run : ρ → List Char → Bool}
    {val : Compiled → ρ} {g : GenLazyRegex ρ} {rx : LazyRegex} (h : Rep val g rx)
    (hc : CrateAt E build run val rx.regex rx.ic) (s : List Char) :
    genLazyRegexIsMatch build run g s = rx.isMatch E s := by
  simp only [genLazyRegexIsMatch, createRegex_eq E h hc, LazyRegex.isMatch, LazyRegex.createRegex, h.compiled, h.original]
  cases hcm : rx.compiled with
  | some c => simp [hc.run_eq]
  | none =>
    simp only [Option.map_none]
    cases ho : rx.original.isEmpty
    · cases hok : Compiled.ok E ⟨rx.regex, rx.ic⟩
      · simp [hE _ s hok]
      · simp [hc.run_eq]
    · simp

theorem compile_rep (E : Engine) {build : List Char → Bool → Option ρ} {run : ρ → List Char → Bool}
    {val : Compiled → ρ} {g : GenLazyRegex ρ} {rx : LazyRegex} (h : Rep val g rx)
    (hc : CrateAt E build run val rx.regex rx.ic) :
    Rep val (genLazyRegexCompile build g) (rx.compile E) := by
  refine ⟨h.original, h.regex, h.ic, ?_⟩
  simp only [genLazyRegexCompile, LazyRegex.compile, createRegex_eq E h hc]

theorem regex_eq (E : Engine) {build : List Char → Bool → Option ρ} {run : ρ → List Char → Bool}
    {val : Compiled → ρ} {g : GenLazyRegex ρ} {rx : LazyRegex} (h : Rep val g rx)
    (hc : CrateAt E build run val rx.regex rx.ic) :
    genLazyRegexRegex build g = (match rx.compiled with | some c => some c | none => rx.createRegex E).map val := by
  simp only [genLazyRegexRegex, createRegex_eq E h hc, h.compiled]
  cases rx.compiled <;> simp

/-! ### `Leaf::cache` -/

/-- Same outcome: both underflow, or both return related cells and the same budget. -/
def CacheRel (val : Compiled → ρ) : Option (GenLazyRegex ρ × Nat) → Option (LazyRegex × Nat) → Prop
  | none, none => True
  | some a, some b => Rep val a.1 b.1 ∧ a.2 = b.2
  | _, _ => False

theorem leafCache_rel (E : Engine) {build : List Char → Bool → Option ρ} {run : ρ → List Char → Bool}
    {val : Compiled → ρ} {g : GenLazyRegex ρ} {rx : LazyRegex} (h : Rep val g rx)
    (hc : CrateAt E build run val rx.regex rx.ic) (left : Nat) :
    CacheRel val (genLeafCache build g left) (rxCache E rx left) := by
  have h' := compile_rep E h hc
  have e1 : g.compiled.isSome = rx.isCompiled := by simp [h.compiled, LazyRegex.isCompiled]
  have e2 : (genLazyRegexCompile build g).compiled.isSome = (rx.compile E).isCompiled := by
    simp [h'.compiled, LazyRegex.isCompiled]
  have e1n : g.compiled.isNone = !rx.isCompiled := by simp [h.compiled, LazyRegex.isCompiled]
  have e2n : (genLazyRegexCompile build g).compiled.isNone = !(rx.compile E).isCompiled := by
    simp [h'.compiled, LazyRegex.isCompiled]
  -- written so that equivalent spellings of the tests (`is_none()` / `is_some()`, the two returns swapped) are accepted too
  simp only [genLeafCache, rxCache, e1, e2, e1n, e2n]
  cases rx.isCompiled
  · cases (rx.compile E).isCompiled
    · simpa [CacheRel] using h'
    · by_cases hl : left = 0
      · simp [hl, CacheRel]
      · have : ¬ left < 1 := by omega
        simpa [hl, this, CacheRel] using h'
  · simpa [CacheRel] using h

/-! ### `Node::cache`, `Item::cache` — one level of the recursion, the recursive calls answered by the model -/

section tree
variable {ι V : Type} [DecidableEq ι]

/-- The translated loop over the children, its recursive call `child.cache(..)` being the model's `Item.cache`, is the model's
`cacheL` one level down. -/
theorem nodeCacheLoop_eq (E : Engine) (cs : List (Item ι V)) (left lvl cur : Nat) :
    genNodeCacheLoop (fun c l cl k => Item.cache E c l cl k) cs left lvl cur = cacheL E cs left lvl (cur + 1) := by
  induction cs generalizing left with
  | nil => rw [cacheL_nil]; rfl
  | cons c cs ih =>
    rw [cacheL_cons, genNodeCacheLoop]
    cases hc : Item.cache E c left lvl (cur + 1) with
    | none => rfl
    | some r =>
      simp only
      rw [ih]
      cases cacheL E cs r.2 lvl (cur + 1) <;> rfl

/-- The payload of `Item::Node` on the translated side: the translated cell and the children (model items). -/
abbrev GNode (ρ ι V : Type) := GenLazyRegex ρ × List (Item ι V)

/-- `Node::cache` translated, on a `GNode`, children answered by the model. -/
def nodeCacheFn (E : Engine) (build : List Char → Bool → Option ρ) (p : GNode ρ ι V) (l cl k : Nat) :
    Option (GNode ρ ι V × Nat) :=
  (genNodeCache build (fun c l cl k => Item.cache E c l cl k) p.1 p.2 l cl k).map fun r => ((r.1, r.2.1), r.2.2)

/-- Same outcome of a `cache` call on a node. -/
def NodeRel (val : Compiled → ρ) : Option (GNode ρ ι V × Nat) → Option (Item ι V × Nat) → Prop
  | none, none => True
  | some a, some (.node rx cs, m) => Rep val a.1.1 rx ∧ a.1.2 = cs ∧ a.2 = m
  | _, _ => False

/-- Same outcome of a `cache` call on a leaf. -/
def LeafRel (val : Compiled → ρ) (vs : List (ι × V)) : Option (GenLazyRegex ρ × Nat) → Option (Item ι V × Nat) → Prop
  | none, none => True
  | some a, some (.leaf rx vs', m) => Rep val a.1 rx ∧ vs' = vs ∧ a.2 = m
  | _, _ => False

/-- The head of `Node::cache` (compile at the right level unless already compiled, spend one unit iff it succeeded), followed by
the children: translated = model. -/
theorem nodeCache_rel (E : Engine) {build : List Char → Bool → Option ρ} {run : ρ → List Char → Bool}
    {val : Compiled → ρ} {g : GenLazyRegex ρ} {rx : LazyRegex} (h : Rep val g rx)
    (hc : CrateAt E build run val rx.regex rx.ic) (cs : List (Item ι V)) (left lvl cur : Nat) :
    NodeRel val (nodeCacheFn E build (g, cs) left lvl cur)
      (match (if lvl = cur then rxCache E rx left else some (rx, left)) with
        | none => none
        | some r => match cacheL E cs r.2 lvl (cur + 1) with
          | none => none
          | some r' => some (.node r.1 r'.1, r'.2)) := by
  have h' := compile_rep E h hc
  have e1 : g.compiled.isNone = !rx.isCompiled := by
    simp [h.compiled, LazyRegex.isCompiled]
  have e2 : (genLazyRegexCompile build g).compiled.isSome = (rx.compile E).isCompiled := by
    simp [h'.compiled, LazyRegex.isCompiled]
  have e1s : g.compiled.isSome = rx.isCompiled := by simp [h.compiled, LazyRegex.isCompiled]
  have e2n : (genLazyRegexCompile build g).compiled.isNone = !(rx.compile E).isCompiled := by
    simp [h'.compiled, LazyRegex.isCompiled]
  simp only [nodeCacheFn, genNodeCache, nodeCacheLoop_eq, e1, e2, e1s, e2n, Bool.not_not]
  by_cases hl : lvl = cur
  · subst hl
    simp only [beq_self_eq_true, Bool.true_and, if_true, rxCache]
    cases hcmp : rx.isCompiled
    · simp only [Bool.not_false, if_true, Bool.false_eq_true, if_false]
      cases hcmp' : (rx.compile E).isCompiled
      · simp only [Bool.false_eq_true, if_false]
        cases cacheL E cs left lvl (lvl + 1) <;> simp [NodeRel, h']
      · simp only [if_true]
        by_cases h0 : left = 0
        · subst h0; simp [NodeRel]
        · have : ¬ left < 1 := by omega
          simp only [this, h0, if_false]
          cases cacheL E cs (left - 1) lvl (lvl + 1) <;> simp [NodeRel, h']
    · simp only [Bool.not_true, Bool.false_eq_true, if_false, if_true]
      cases cacheL E cs left lvl (lvl + 1) <;> simp [NodeRel, h]
  · have hb : (lvl == cur) = false := by simpa using hl
    simp only [hb, Bool.false_and, Bool.false_eq_true, if_false, hl]
    cases cacheL E cs left lvl (cur + 1) <;> simp [NodeRel, h]

/-- `Item::cache`, arm `Item::Node`: the guards `left == 0`, `current_level > cache_level`, then `Node::cache`. -/
theorem itemCacheNode_rel (E : Engine) {build : List Char → Bool → Option ρ} {run : ρ → List Char → Bool}
    {val : Compiled → ρ} {g : GenLazyRegex ρ} {rx : LazyRegex} (h : Rep val g rx)
    (hc : CrateAt E build run val rx.regex rx.ic) (cs : List (Item ι V)) (left lvl cur : Nat) :
    NodeRel val (genItemCacheNode (nodeCacheFn E build) (g, cs) left lvl cur) (Item.cache E (.node rx cs) left lvl cur) := by
  rw [Item.cache]
  simp only [genItemCacheNode]
  by_cases h0 : left = 0
  · simp [h0, NodeRel, h]
  · have hb : (left == 0) = false := by simpa using h0
    simp only [hb, h0, Bool.false_eq_true, if_false]
    by_cases hg : cur > lvl
    · simp [hg, NodeRel, h]
    · simp only [hg, decide_false, Bool.false_eq_true, if_false]
      exact nodeCache_rel E h hc cs left lvl cur

/-- `Item::cache`, arm `Item::Leaf`: the guards, the level test, then `Leaf::cache`. -/
theorem itemCacheLeaf_rel (E : Engine) {build : List Char → Bool → Option ρ} {run : ρ → List Char → Bool}
    {val : Compiled → ρ} {g : GenLazyRegex ρ} {rx : LazyRegex} (h : Rep val g rx)
    (hc : CrateAt E build run val rx.regex rx.ic) (vs : List (ι × V)) (left lvl cur : Nat) :
    LeafRel val vs (genItemCacheLeaf (fun r l => genLeafCache build r l) g left lvl cur)
      (Item.cache E (.leaf rx vs) left lvl cur) := by
  rw [Item.cache]
  simp only [genItemCacheLeaf]
  by_cases h0 : left = 0
  · simp [h0, LeafRel, h]
  · have hb : (left == 0) = false := by simpa using h0
    simp only [hb, h0, Bool.false_eq_true, if_false]
    by_cases hg : cur > lvl
    · simp [hg, LeafRel, h]
    · simp only [hg, decide_false, Bool.false_eq_true, if_false]
      by_cases hl : lvl = cur
      · have hr := leafCache_rel E h hc left
        simp only [hl, beq_self_eq_true, if_true]
        cases ha : genLeafCache build g left with
        | none => cases hbm : rxCache E rx left with
          | none => simp [LeafRel]
          | some b => simp [ha, hbm, CacheRel] at hr
        | some a => cases hbm : rxCache E rx left with
          | none => simp [ha, hbm, CacheRel] at hr
          | some b =>
            rw [ha, hbm] at hr
            simp [LeafRel, hr.1, hr.2]
      · have hb' : (lvl == cur) = false := by simpa using hl
        simp [hb', hl, LeafRel, h]

/-- `Item::cache`, arm `Item::Empty`. -/
theorem itemCacheEmpty_eq (E : Engine) (ic : Bool) (left lvl cur : Nat) :
    (genItemCacheEmpty left lvl cur).map (fun n => ((Item.empty ic : Item ι V), n)) = Item.cache E (.empty ic) left lvl cur := by
  rw [Item.cache]
  simp only [genItemCacheEmpty]
  split <;> (try split) <;> rfl

/-! ### The translated recursion has ONE solution: the model -/

/-- `rx` is the cell of some node / leaf of the tree. -/
inductive CellOf : LazyRegex → Item ι V → Prop
  | leaf (rx vs) : CellOf rx (.leaf rx vs)
  | node (rx cs) : CellOf rx (.node rx cs)
  | child {r rx cs c} : c ∈ cs → CellOf r c → CellOf r (.node rx cs)

/-- The stored value of a translated cell (values = `Compiled`) put back next to the fields of a model cell. -/
def back (rx : LazyRegex) (g : GenLazyRegex Compiled) : LazyRegex := { rx with compiled := g.compiled }

theorem back_eq {g : GenLazyRegex Compiled} {rx rx' : LazyRegex} (h : Rep id g rx') (hs : rx'.strip = rx.strip) :
    back rx g = rx' := by
  have h1 : rx'.original = rx.original := by simpa using congrArg LazyRegex.original hs
  have h2 : rx'.regex = rx.regex := by simpa using congrArg LazyRegex.regex hs
  have h3 : rx'.ic = rx.ic := by simpa using congrArg LazyRegex.ic hs
  cases rx; cases rx'
  simp only [back, LazyRegex.mk.injEq]
  simp at h1 h2 h3
  exact ⟨h1.symm, h2.symm, h3.symm, by simpa using h.compiled⟩

/-- ONE step of the translated `Item::cache`: the three translated arms (the node arm with the translated `Node::cache`, the leaf
arm with the translated `Leaf::cache`), every recursive call `child.cache(..)` answered by `F`. -/
def genStep (build : List Char → Bool → Option Compiled) (F : Item ι V → Nat → Nat → Nat → Option (Item ι V × Nat)) :
    Item ι V → Nat → Nat → Nat → Option (Item ι V × Nat)
  | .empty ic, l, cl, k => (genItemCacheEmpty l cl k).map fun n => (.empty ic, n)
  | .leaf rx vs, l, cl, k =>
    (genItemCacheLeaf (fun r l => genLeafCache build r l) (toGen id rx) l cl k).map fun r => (.leaf (back rx r.1) vs, r.2)
  | .node rx cs, l, cl, k =>
    (genItemCacheNode
      (fun (p : GNode Compiled ι V) l cl k =>
        (genNodeCache build F p.1 p.2 l cl k).map fun r => ((r.1, r.2.1), r.2.2))
      (toGen id rx, cs) l cl k).map fun r => (.node (back rx r.1.1) r.1.2, r.2)

theorem nodeCacheLoop_congr {χ : Type} (F G : χ → Nat → Nat → Nat → Option (χ × Nat)) (cs : List χ)
    (h : ∀ c ∈ cs, ∀ l cl k, F c l cl k = G c l cl k) (left lvl cur : Nat) :
    genNodeCacheLoop F cs left lvl cur = genNodeCacheLoop G cs left lvl cur := by
  induction cs generalizing left with
  | nil => rw [genNodeCacheLoop, genNodeCacheLoop]
  | cons c cs ih =>
    rw [genNodeCacheLoop, genNodeCacheLoop, h c (by simp)]
    cases G c left lvl (cur + 1) with
    | none => rfl
    | some r => simp only; rw [ih (fun d hd => h d (by simp [hd]))]

theorem nodeCache_congr {χ : Type} (build : List Char → Bool → Option ρ) (F G : χ → Nat → Nat → Nat → Option (χ × Nat))
    (g : GenLazyRegex ρ) (cs : List χ) (h : ∀ c ∈ cs, ∀ l cl k, F c l cl k = G c l cl k) (left lvl cur : Nat) :
    genNodeCache build F g cs left lvl cur = genNodeCache build G g cs left lvl cur := by
  simp only [genNodeCache, nodeCacheLoop_congr F G cs h]

theorem cache_strip_of_eq (E : Engine) {t t' : Item ι V} {left lvl cur n : Nat}
    (h : t.cache E left lvl cur = some (t', n)) : t'.strip = t.strip := by
  obtain ⟨t'', n', h', hs, _⟩ := cache_spec_inv E t left lvl cur
  rw [h] at h'; simp only [Option.some.injEq, Prod.mk.injEq] at h'
  rw [h'.1]; exact hs

/-- The model's `Item.cache` satisfies the translated recursion equation at every item whose own cell is linked to the crate. -/
theorem genStep_model (E : Engine) {build : List Char → Bool → Option Compiled} {run : Compiled → List Char → Bool}
    (t : Item ι V) (hc : ∀ rx, CellOf rx t → CrateAt E build run id rx.regex rx.ic) (left lvl cur : Nat) :
    genStep build (fun c l cl k => Item.cache E c l cl k) t left lvl cur = Item.cache E t left lvl cur := by
  cases t with
  | empty ic => exact itemCacheEmpty_eq E ic left lvl cur
  | leaf rx vs =>
    have hr := itemCacheLeaf_rel E (rep_toGen id rx) (hc rx (.leaf rx vs)) vs left lvl cur
    simp only [genStep]
    cases ha : genItemCacheLeaf (fun r l => genLeafCache build r l) (toGen id rx) left lvl cur with
    | none =>
      rw [ha] at hr
      cases hb : Item.cache E (.leaf rx vs) left lvl cur with
      | none => rfl
      | some b => rw [hb] at hr; simp [LeafRel] at hr
    | some a =>
      rw [ha] at hr
      cases hb : Item.cache E (.leaf rx vs) left lvl cur with
      | none => rw [hb] at hr; simp [LeafRel] at hr
      | some b =>
        rw [hb] at hr
        obtain ⟨t', m⟩ := b
        cases t' with
        | leaf rx' vs' =>
          obtain ⟨h1, h2, h3⟩ := hr
          have hs := cache_strip_of_eq E hb
          simp only [strip_leaf, Item.leaf.injEq] at hs
          simp [back_eq h1 hs.1, h2, h3]
        | empty ic => simp [LeafRel] at hr
        | node rx' cs' => simp [LeafRel] at hr
  | node rx cs =>
    have hr := itemCacheNode_rel E (rep_toGen id rx) (hc rx (.node rx cs)) cs left lvl cur
    simp only [genStep]
    change Option.map _ (genItemCacheNode (nodeCacheFn E build) (toGen id rx, cs) left lvl cur) = _
    cases ha : genItemCacheNode (nodeCacheFn E build) (toGen id rx, cs) left lvl cur with
    | none =>
      rw [ha] at hr
      cases hb : Item.cache E (.node rx cs) left lvl cur with
      | none => rfl
      | some b => rw [hb] at hr; simp [NodeRel] at hr
    | some a =>
      rw [ha] at hr
      cases hb : Item.cache E (.node rx cs) left lvl cur with
      | none => rw [hb] at hr; simp [NodeRel] at hr
      | some b =>
        rw [hb] at hr
        obtain ⟨t', m⟩ := b
        cases t' with
        | node rx' cs' =>
          obtain ⟨h1, h2, h3⟩ := hr
          have hs := cache_strip_of_eq E hb
          simp only [strip_node, Item.node.injEq] at hs
          simp [back_eq h1 hs.1, h2, h3]
        | empty ic => simp [NodeRel] at hr
        | leaf rx' vs' => simp [NodeRel] at hr

/-- … and it is the ONLY function that does: any `F` satisfying the translated recursion equation at the trees all of whose cells
are linked to the crate agrees with the model on every such tree. -/
theorem genStep_unique (E : Engine) {build : List Char → Bool → Option Compiled} {run : Compiled → List Char → Bool}
    (F : Item ι V → Nat → Nat → Nat → Option (Item ι V × Nat))
    (hF : ∀ t, (∀ rx, CellOf rx t → CrateAt E build run id rx.regex rx.ic) →
      ∀ l cl k, F t l cl k = genStep build F t l cl k) (t : Item ι V)
    (hc : ∀ rx, CellOf rx t → CrateAt E build run id rx.regex rx.ic) (left lvl cur : Nat) :
    F t left lvl cur = Item.cache E t left lvl cur := by
  induction t using Item.ind generalizing left lvl cur with
  | hE ic => rw [hF _ hc, ← genStep_model E (.empty ic) hc]; rfl
  | hL rx vs => rw [hF _ hc, ← genStep_model E (.leaf rx vs) hc]; rfl
  | hN rx cs ih =>
    rw [hF _ hc, ← genStep_model E (.node rx cs) hc]
    have hcongr : ∀ c ∈ cs, ∀ l cl k, F c l cl k = Item.cache E c l cl k :=
      fun c hmem l cl k => ih c hmem (fun r hr => hc r (.child hmem hr)) l cl k
    simp only [genStep]
    congr 1
    simp only [genItemCacheNode]
    rw [nodeCache_congr build F (fun c l cl k => Item.cache E c l cl k) (toGen id rx) cs hcongr]

end tree

/-! ### A crate for every engine (non-vacuity of `CrateAt`) -/

/-- Reads a regex text back as the structural source: `.*` ↦ `any`, `^…$` ↦ `leaf`, `^…` ↦ `node`. -/
def decodeSrc : List Char → RxSrc
  | ['.', '*'] => .any
  | '^' :: rest => if rest.getLast? = some '$' then .leaf rest.dropLast else .node rest
  | _ => .any

theorem decodeSrc_leaf (p : List Char) : decodeSrc (RxSrc.leaf p).toStr = .leaf p := by
  simp [RxSrc.toStr, decodeSrc]

theorem decodeSrc_any : decodeSrc RxSrc.any.toStr = .any := by
  simp [RxSrc.toStr, decodeSrc]

theorem decodeSrc_node (q : List Char) (h : q.getLast? ≠ some '$') : decodeSrc (RxSrc.node q).toStr = .node q := by
  simp [RxSrc.toStr, decodeSrc, h]

/-- The crate induced by an engine: values are `Compiled`, `build` decodes the text. -/
def stdBuild (E : Engine) (str : List Char) (ic : Bool) : Option Compiled :=
  if Compiled.ok E ⟨decodeSrc str, ic⟩ then some ⟨decodeSrc str, ic⟩ else none

theorem crateAt_std (E : Engine) (src : RxSrc) (ic : Bool) (h : decodeSrc src.toStr = src) :
    CrateAt E (stdBuild E) (fun c s => Compiled.run E c s) id src ic :=
  ⟨by simp [stdBuild, h], fun _ _ => rfl⟩

end Rio.LazyRegexGen
