/-
W33 (property C02): the TRANSLATED top-level operations of `Router<T>` (`Rio.Consts.genRouter*`, generated from
src/router/mod.rs and src/api/rules_message.rs by tools/consts_dev/w33_router_top.py) instantiated with the operations
of the hand-written model `RouterG O` (Model/RouterLayers.lean), for EVERY outermost matcher `O : MOps`.

Instantiation of the abstract parameters (the `routes` id map is the association list of the model):
  matcherInsert / matcherRemove / matcherBatchRemove := `O.insert` / `O.remove` / `O.batchRemove`
  routeId := `Route.id`;  routesInsert k v := `aupsert (fun _ => v) v k` (`HashMap::insert`: replace or add)
  routesGet := `alookup`;  routesContainsKey k m := `(alookup k m).isSome`;  routesRemove k := filter (key ≠ k)
  routesRetain f := filter (fun e => f e.1 e.2);  routesLen := `List.length`
  idsContains := `List.contains`;  idsExtend := `++` (a `HashSet` as the list of its elements; only membership is observed)
  intoRoute := any `conv : τ → γ → Route` (`Rule::into_route`: abstract);  routerClone := `id` (a value model: the clone of the
  matcher tower and of the id map is the same value - W12's field-by-field justification, notes/wp/W12.md).
-/
import RioModel.Model.RouterOps
import RioModel.Generated.Consts

namespace Rio.Router
open Rio.Consts

namespace TopGen

def rInsert (k : String) (v : Route) (m : List (String × Route)) : List (String × Route) := aupsert (fun _ => v) v k m
def rGet (k : String) (m : List (String × Route)) : Option Route := alookup k m
def rContainsKey (k : String) (m : List (String × Route)) : Bool := (alookup k m).isSome
def rRemove (k : String) (m : List (String × Route)) : List (String × Route) := m.filter (fun e => e.1 != k)
def rRetain (f : String → Route → Bool) (m : List (String × Route)) : List (String × Route) := m.filter (fun e => f e.1 e.2)
def rLen (m : List (String × Route)) : Nat := m.length
def iContains (ids : List String) (id : String) : Bool := ids.contains id
def iExtend (ids : List String) (more : List String) : List String := ids ++ more

variable (O : MOps)

/-- the pair of fields of a model router -/
def st (S : RouterG O) : O.M × List (String × Route) := (S.matcher, S.routes)

/-- the translated `Router::insert_route` on the model's representation -/
def tInsertRoute (S : RouterG O) (r : Route) : O.M × List (String × Route) :=
  genRouterInsertRoute O.insert Route.id rInsert S.matcher S.routes r

def tGetRouteById (S : RouterG O) (id : String) : Option Route := genRouterGetRouteById rGet S.routes id

def tRemove (S : RouterG O) (id : String) : Option Route × O.M × List (String × Route) :=
  genRouterRemove O.remove rContainsKey rRemove S.matcher S.routes id

def tBatchRemove (S : RouterG O) (ids : List String) : O.M × List (String × Route) :=
  genRouterBatchRemove O.batchRemove rRetain iContains S.matcher S.routes ids

def tLen (S : RouterG O) : Nat := genRouterLen rLen S.routes

def tInsert {τ γ : Type} (conv : τ → γ → Route) (cfg : γ) (S : RouterG O) (x : τ) : O.M × List (String × Route) :=
  genRouterInsert O.insert Route.id rInsert conv cfg S.matcher S.routes x

def tApplyChangeSet {τ γ : Type} (conv : τ → γ → Route) (cfg : γ) (S : RouterG O) (added updated : List τ)
    (removed : List String) : O.M × List (String × Route) :=
  genRouterApplyChangeSet O.insert O.batchRemove Route.id rInsert rRetain iContains iExtend conv cfg
    S.matcher S.routes added updated removed

def tUpdateExisting {τ γ : Type} (conv : τ → γ → Route) (cfg : γ) (S : RouterG O) (added updated : List τ)
    (removed : List String) : O.M × List (String × Route) :=
  genUpdateExistingRouter O.insert O.batchRemove Route.id rInsert rRetain iContains iExtend conv cfg id
    added updated removed (S.matcher, S.routes)

theorem tInsertRoute_eq (S : RouterG O) (r : Route) : tInsertRoute O S r = st O (RouterG.insert O r S) := rfl

theorem tGetRouteById_eq (S : RouterG O) (id : String) : tGetRouteById O S id = RouterG.getRouteById O S id := rfl

theorem tRemove_eq (S : RouterG O) (id : String) :
    tRemove O S id = ((RouterG.remove O id S).2, st O (RouterG.remove O id S).1) := by
  unfold tRemove genRouterRemove RouterG.remove rContainsKey
  by_cases h : (alookup id S.routes).isSome = true
  · simp [h, st, rRemove]
  · simp [h, st]

theorem tBatchRemove_eq (S : RouterG O) (ids : List String) :
    tBatchRemove O S ids = st O (RouterG.batchRemove O ids S) := rfl

theorem tLen_eq (S : RouterG O) : tLen O S = RouterG.len O S := rfl

theorem tInsert_eq {τ γ : Type} (conv : τ → γ → Route) (cfg : γ) (S : RouterG O) (x : τ) :
    tInsert O conv cfg S x = st O (RouterG.insert O (conv x cfg) S) := rfl

/-- the `for item in v { self.insert_route(item) }` loop of the translation = the model's fold -/
theorem foldl_insertRoute (rs : List Route) (S : RouterG O) :
    List.foldl (fun (x5 : O.M × List (String × Route)) x6 =>
        let matcher := x5.1; let routes := x5.2
        let x7 := genRouterInsertRoute O.insert Route.id rInsert matcher routes x6
        let matcher := x7.1; let routes := x7.2; (matcher, routes)) (S.matcher, S.routes) rs
      = st O (rs.foldl (fun S r => RouterG.insert O r S) S) := by
  induction rs generalizing S with
  | nil => rfl
  | cons r rs ih => exact ih (RouterG.insert O r S)

theorem foldl_insert {τ γ : Type} (conv : τ → γ → Route) (cfg : γ) (xs : List τ) (S : RouterG O) :
    List.foldl (fun (x8 : O.M × List (String × Route)) x9 =>
        let matcher := x8.1; let routes := x8.2
        let x10 := genRouterInsert O.insert Route.id rInsert conv cfg matcher routes x9
        let matcher := x10.1; let routes := x10.2; (matcher, routes)) (S.matcher, S.routes) xs
      = st O ((xs.map (fun x => conv x cfg)).foldl (fun S r => RouterG.insert O r S) S) := by
  induction xs generalizing S with
  | nil => rfl
  | cons x xs ih => exact ih (RouterG.insert O (conv x cfg) S)

theorem tApplyChangeSet_eq {τ γ : Type} (conv : τ → γ → Route) (cfg : γ) (S : RouterG O) (added updated : List τ)
    (removed : List String) :
    tApplyChangeSet O conv cfg S added updated removed
      = st O (RouterG.applyChangeSet O (added.map (fun x => conv x cfg)) (updated.map (fun x => conv x cfg)) removed S) := by
  unfold tApplyChangeSet genRouterApplyChangeSet RouterG.applyChangeSet
  simp only []
  have hb := tBatchRemove_eq O S (iExtend removed (List.map (fun x3 => Route.id x3) (List.map (fun x1 => conv x1 cfg) updated)))
  unfold tBatchRemove at hb
  rw [hb]
  simp only [st]
  rw [foldl_insertRoute O _ (RouterG.batchRemove O _ S)]
  simp only [st]
  rw [foldl_insert O conv cfg added]
  rfl

theorem tUpdateExisting_eq {τ γ : Type} (conv : τ → γ → Route) (cfg : γ) (S : RouterG O) (added updated : List τ)
    (removed : List String) :
    tUpdateExisting O conv cfg S added updated removed
      = st O (RouterG.applyChangeSet O (added.map (fun x => conv x cfg)) (updated.map (fun x => conv x cfg)) removed S) :=
  tApplyChangeSet_eq O conv cfg S added updated removed

end TopGen
end Rio.Router
