/-
C03, html stage: chunk invariance of the TOTAL output (outputs of the `filter` calls followed by `end()`) at EVERY cut.

Since fe7eac6 the stage carries the tokenizer context across chunks (`last_context`, `Tokenizer::new_fragment`) and keeps
every token that was ended by the end of the data.  What the proof needs from the tokenizer is the restart law with a
context, `RestartLaw tk` (Proofs/FilterStreamLaws.lean): on complete valid data, tokenising `a1 ++ a'` in context `c` gives —
up to splitting / merging adjacent text tokens (`normText`), before the first cut token — the tokens processed for `a1`
followed by the tokens of `kept tail ++ a'` in the remembered context; the kept tail starts at a character boundary; the
remembered context is an accepted one.  The law is proved for the tokenizer model by W5 (Proofs/HtmlStream8*.lean).

  `total_formula`  the total does not depend on the "held" rule
  `total_split`    htmlTotal s (x ++ r) = o1 ++ htmlTotal s1 r          (every cut; `RestartLaw`)
  `seqRun_total`   any schedule gives the total of the single chunk
-/
import RioModel.Proofs.FilterSplit
import RioModel.Proofs.FilterUtf8
set_option linter.unusedSimpArgs false
set_option linter.unusedVariables false

namespace Rio.Filter

/-! ### text tokens can be split and merged -/

theorem push_push (s : HtmlSt) (out a b : Bytes) :
    push (push s out a).1 (push s out a).2 b = push s out (a ++ b) := by
  unfold push
  cases h : s.stack <;> simp [h]

/-- token lists equal up to splitting text tokens -/
inductive TextEq : List Tok → List Tok → Prop
  | refl (ts : List Tok) : TextEq ts ts
  | symm {a b : List Tok} : TextEq a b → TextEq b a
  | trans {a b c : List Tok} : TextEq a b → TextEq b c → TextEq a c
  | split (pre post : List Tok) (t1 t2 t12 : Tok) : t1.kind = .text → t2.kind = .text → t12.kind = .text →
      t12.raw = t1.raw ++ t2.raw → TextEq (pre ++ t12 :: post) (pre ++ t1 :: t2 :: post)

theorem TextEq.cons (t : Tok) {a b : List Tok} (h : TextEq a b) : TextEq (t :: a) (t :: b) := by
  induction h with
  | refl => exact .refl _
  | symm _ ih => exact .symm ih
  | trans _ _ ih1 ih2 => exact .trans ih1 ih2
  | split pre post t1 t2 t12 h1 h2 h3 h4 => exact .split (t :: pre) post t1 t2 t12 h1 h2 h3 h4

theorem TextEq.append_left (p : List Tok) {a b : List Tok} (h : TextEq a b) : TextEq (p ++ a) (p ++ b) := by
  induction p with
  | nil => exact h
  | cons t p ih => exact ih.cons t

variable (tk : Tokenize) (ev : Bytes → Bytes → Bool)

theorem stepTok_text (so : HtmlSt × Bytes) (t : Tok) (h : t.kind = .text) :
    stepTok tk ev so t = push so.1 so.2 t.raw := by
  obtain ⟨s, out⟩ := so
  exact stepTok_other tk ev s out t (by simp [h, isTagKind])

/-- the token loop does not see how text is cut into tokens -/
theorem fold_textEq {a b : List Tok} (h : TextEq a b) : ∀ (so : HtmlSt × Bytes),
    a.foldl (stepTok tk ev) so = b.foldl (stepTok tk ev) so := by
  induction h with
  | refl => intro so; rfl
  | symm _ ih => intro so; exact (ih so).symm
  | trans _ _ ih1 ih2 => intro so; exact (ih1 so).trans (ih2 so)
  | split pre post t1 t2 t12 h1 h2 h3 h4 =>
    intro so
    simp only [List.foldl_append, List.foldl_cons]
    congr 1
    rw [stepTok_text tk ev _ t12 h3, stepTok_text tk ev _ t1 h1, stepTok_text tk ev _ t2 h2, h4]
    exact (push_push _ _ _ _).symm

theorem textEq_normText : ∀ (ts : List Tok), TextEq ts (normText ts)
  | [] => .refl _
  | t :: ts => by
    have ih := (textEq_normText ts).cons t
    simp only [normText]
    cases hn : normText ts with
    | nil => rw [hn] at ih; exact ih
    | cons t' r =>
      rw [hn] at ih
      simp only
      split
      · rename_i hk
        exact .trans ih (.symm (.split [] r t t' _ hk.1 hk.2 rfl rfl))
      · exact ih

theorem textEq_of_norm {a b : List Tok} (h : normText a = normText b) : TextEq a b :=
  .trans (textEq_normText a) (h ▸ .symm (textEq_normText b))

/-! ### the total output of the stage on the whole remaining stream -/

/-- what the stage emits if `b` is all that is still to come: the output of `filter(b)` followed by `end()` -/
def htmlTotal (s : HtmlSt) (b : Bytes) : Option Bytes :=
  (filterHtml tk ev s b).map fun r => r.2 ++ endHtml r.1

/-- the total does not depend on the "held" rule: it is the ledger after ALL tokens before the first cut one, then the
cut token and the remainder -/
theorem total_formula (s : HtmlSt) (b data pending : Bytes) (h : utf8Split (s.last ++ b) = some (data, pending)) :
    htmlTotal tk ev s b =
      some (ledger ((view tk s.ctx data).all.foldl (stepTok tk ev) (s, [])).1
          ((view tk s.ctx data).all.foldl (stepTok tk ev) (s, [])).2 ++
        (view tk s.ctx data).rem ++ pending) := by
  unfold htmlTotal
  rw [filterHtml_view]
  simp only [h, Option.map_some]
  congr 1
  rcases view_cases tk s.ctx data with ⟨h1, h2⟩ | ⟨t, hk, h1, h2⟩
  · rw [h1, h2]
    simp only [endHtml_eq, ledger, List.append_assoc]
  · rw [h1, h2, List.foldl_append, List.foldl_cons, List.foldl_nil]
    rw [stepTok_text tk ev _ t hk, ledger_push]
    simp only [endHtml_eq, ledger, List.append_assoc]

theorem filterHtml_none_of (s : HtmlSt) (b : Bytes) (h : utf8Split (s.last ++ b) = none) :
    filterHtml tk ev s b = none := by
  unfold filterHtml
  rw [h]

/-- the state after a call remembers an accepted context -/
theorem filterHtml_ctx (hr : RestartLaw tk) (s s1 : HtmlSt) (x o1 : Bytes) (hc : Ctx s.ctx)
    (h1 : filterHtml tk ev s x = some (s1, o1)) : Ctx s1.ctx := by
  rw [filterHtml_view] at h1
  cases hsp : utf8Split (s.last ++ x) with
  | none => simp [hsp] at h1
  | some ap =>
    obtain ⟨a1, p1⟩ := ap
    simp only [hsp] at h1
    injection h1 with h1
    injection h1 with hs1 _
    subst hs1
    exact (hr s.ctx a1 [] hc (V_utf8Split hsp) V_nil).2.2.2

/-- **Splitting lemma for the total** (every cut): the total on `x ++ r` is the output of `filter(x)` followed by the
total of the new state on `r`. -/
theorem total_split (hr : RestartLaw tk) (s s1 : HtmlSt) (x r o1 : Bytes) (hc : Ctx s.ctx)
    (h1 : filterHtml tk ev s x = some (s1, o1)) :
    htmlTotal tk ev s (x ++ r) = (htmlTotal tk ev s1 r).map fun t => o1 ++ t := by
  rw [filterHtml_view] at h1
  cases hsp : utf8Split (s.last ++ x) with
  | none => simp [hsp] at h1
  | some ap =>
    obtain ⟨a1, p1⟩ := ap
    simp only [hsp] at h1
    have hva1 : V a1 := V_utf8Split hsp
    generalize hv1 : view tk s.ctx a1 = v1 at h1
    generalize hf1 : v1.todo.foldl (stepTok tk ev) (s, []) = f1 at h1
    obtain ⟨sf1, of1⟩ := f1
    simp only at h1
    injection h1 with h1
    injection h1 with hs1 ho1
    subst hs1 ho1
    have hvt : V v1.tail := by
      have := (hr s.ctx a1 [] hc hva1 V_nil).2.2.1
      rw [hv1] at this; exact this
    have hu2 : utf8Split ((v1.tail ++ p1) ++ r) = (utf8Split (p1 ++ r)).map fun q => (v1.tail ++ q.1, q.2) := by
      rw [List.append_assoc]
      exact utf8Split_prefix v1.tail (p1 ++ r) hvt
    have hu : utf8Split (s.last ++ (x ++ r)) = (utf8Split (p1 ++ r)).map fun q => (a1 ++ q.1, q.2) := by
      rw [← List.append_assoc]
      exact utf8Split_append_right hsp r
    cases hpr : utf8Split (p1 ++ r) with
    | none =>
      rw [hpr] at hu hu2
      have e1 : filterHtml tk ev s (x ++ r) = none := filterHtml_none_of tk ev s (x ++ r) hu
      have e2 : filterHtml tk ev { sf1 with last := v1.tail ++ p1, ctx := v1.ctx' } r = none :=
        filterHtml_none_of tk ev _ r hu2
      simp only [htmlTotal, e1, e2, Option.map_none]
    | some ap' =>
      obtain ⟨a', p'⟩ := ap'
      have hva' : V a' := V_utf8Split hpr
      obtain ⟨hk1, hk2, _, _⟩ := hr s.ctx a1 a' hc hva1 hva'
      rw [hv1] at hk1 hk2
      rw [hpr] at hu hu2
      simp only [Option.map_some] at hu hu2
      rw [total_formula tk ev s (x ++ r) (a1 ++ a') p' hu]
      rw [total_formula tk ev { sf1 with last := v1.tail ++ p1, ctx := v1.ctx' } r (v1.tail ++ a') p' hu2]
      simp only [Option.map_some]
      congr 1
      rw [fold_textEq tk ev (textEq_of_norm hk1), hk2, List.foldl_append, hf1]
      generalize view tk v1.ctx' (v1.tail ++ a') = v2
      have key := fold_setLast_out tk ev v2.all sf1 (v1.tail ++ p1) v1.ctx' []
      have key2 := fold_setLast_out tk ev v2.all sf1 sf1.last sf1.ctx of1
      have e : ({ sf1 with last := sf1.last, ctx := sf1.ctx } : HtmlSt) = sf1 := rfl
      rw [e] at key2
      rw [key, key2]
      simp [ledger, List.append_assoc]

/-- **Chunk invariance of the html stage (total output), every schedule.** -/
theorem seqRun_total (hr : RestartLaw tk) : ∀ (cs : List Bytes) (s s' : HtmlSt) (o : Bytes), cs ≠ [] → Ctx s.ctx →
    seqRun tk ev s cs = some (s', o) → htmlTotal tk ev s cs.flatten = some (o ++ endHtml s')
  | [], _, _, _, hne, _, _ => absurd rfl hne
  | [x], s, s', o, _, _, h => by
    simp only [seqRun] at h
    cases hf : filterHtml tk ev s x with
    | none => simp [hf] at h
    | some r =>
      obtain ⟨s1, o1⟩ := r
      simp only [hf, Option.map_some] at h
      injection h with h
      injection h with h1 h2
      subst h1 h2
      simp [htmlTotal, hf]
  | x :: y :: rest, s, s', o, _, hc, h => by
    simp only [seqRun] at h
    cases hf : filterHtml tk ev s x with
    | none => simp [hf] at h
    | some r =>
      obtain ⟨s1, o1⟩ := r
      have hrest : ∃ s2 o2, seqRun tk ev s1 (y :: rest) = some (s2, o2) ∧ s2 = s' ∧ o = o1 ++ o2 := by
        simp only [hf] at h
        cases hr' : seqRun tk ev s1 (y :: rest) with
        | none => simp [seqRun] at hr' h; simp [hr'] at h
        | some r2 =>
          obtain ⟨s2, o2⟩ := r2
          simp only [seqRun] at hr' h
          rw [hr'] at h
          simp only [Option.map_some] at h
          injection h with h
          injection h with h1 h2
          exact ⟨s2, o2, rfl, h1, h2.symm⟩
      obtain ⟨s2, o2, hr2, rfl, rfl⟩ := hrest
      have ih := seqRun_total hr (y :: rest) s1 s2 o2 (by simp) (filterHtml_ctx tk ev hr s s1 x o1 hc hf) hr2
      have := total_split tk ev hr s s1 x (y :: rest).flatten o1 hc hf
      simp only [List.flatten_cons] at this ih ⊢
      rw [this, ih]
      simp [List.append_assoc]

/-- a stage that holds nothing emits nothing for the empty stream (`run []` = `run [[]]`) -/
theorem htmlTotal_nil (hl : LosslessS tk) (s : HtmlSt) (hlast : s.last = []) (hnil : (tk.stream s.ctx []).1 = []) :
    htmlTotal tk ev s [] = some (endHtml s) := by
  have hsp : utf8Split (s.last ++ []) = some ([], []) := by rw [hlast]; rfl
  rw [total_formula tk ev s [] [] [] hsp]
  have hrem := view_all_rem tk hl s.ctx []
  have hall : (view tk s.ctx []).all = [] := by
    unfold view
    simp only [hnil, cutSplit, toksOf, List.takeWhile_nil, List.map_nil]
  rw [hall] at hrem ⊢
  simp only [rawsOf, List.flatMap_nil, List.nil_append] at hrem
  rw [hrem]
  simp [ledger, endHtml_eq, hlast]

end Rio.Filter
