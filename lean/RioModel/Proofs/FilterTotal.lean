/-
C03, html stage: chunk invariance of the TOTAL output (outputs of the `filter` calls followed by `end()`), at cuts that
are safe for the tokenizer *up to splitting of text tokens*.

`SafeCutT tk L x r` (L = `last_buffer` before the call, x = the chunk, r = everything that follows): on the valid
UTF-8 part, the tokens of `L ++ x ++ r` are — up to splitting / merging adjacent text tokens (`normText`) — the tokens
processed for `L ++ x` followed by the tokens a FRESH tokenizer produces for `held tail ++ r`, with the same
remainder; and the held tail starts at a character boundary.  This covers cuts at token boundaries, inside ordinary
text (the text is emitted and harmlessly split), inside start / end tags and trailing partial tags (held back and
re-tokenised from their first byte), and text containing `<` (held).  It fails exactly where the tokenizer context is
lost (raw-text zones, comments, declarations, CDATA: known finding D4).
-/
import RioModel.Proofs.FilterSplit
set_option linter.unusedSimpArgs false
set_option linter.unusedVariables false

namespace Rio.Filter

/-! ### text tokens can be split and merged -/

theorem push_push (s : HtmlSt) (out a b : Bytes) :
    push (push s out a).1 (push s out a).2 b = push s out (a ++ b) := by
  unfold push
  cases h : s.stack <;> simp [h]

/-- token lists equal up to splitting text tokens -/
inductive TextEq : List Tok → List Tok → Prop
  | refl (ts : List Tok) : TextEq ts ts
  | symm {a b : List Tok} : TextEq a b → TextEq b a
  | trans {a b c : List Tok} : TextEq a b → TextEq b c → TextEq a c
  | split (pre post : List Tok) (t1 t2 t12 : Tok) : t1.kind = .text → t2.kind = .text → t12.kind = .text →
      t12.raw = t1.raw ++ t2.raw → TextEq (pre ++ t12 :: post) (pre ++ t1 :: t2 :: post)

theorem TextEq.cons (t : Tok) {a b : List Tok} (h : TextEq a b) : TextEq (t :: a) (t :: b) := by
  induction h with
  | refl => exact .refl _
  | symm _ ih => exact .symm ih
  | trans _ _ ih1 ih2 => exact .trans ih1 ih2
  | split pre post t1 t2 t12 h1 h2 h3 h4 => exact .split (t :: pre) post t1 t2 t12 h1 h2 h3 h4

theorem TextEq.append_left (p : List Tok) {a b : List Tok} (h : TextEq a b) : TextEq (p ++ a) (p ++ b) := by
  induction p with
  | nil => exact h
  | cons t p ih => exact ih.cons t

variable (tk : Tokenize) (ev : Bytes → Bytes → Bool)

theorem stepTok_text (so : HtmlSt × Bytes) (t : Tok) (h : t.kind = .text) :
    stepTok tk ev so t = push so.1 so.2 t.raw := by
  obtain ⟨s, out⟩ := so
  exact stepTok_other tk ev s out t (by simp [h, isTagKind])

/-- the token loop does not see how text is cut into tokens -/
theorem fold_textEq {a b : List Tok} (h : TextEq a b) : ∀ (so : HtmlSt × Bytes),
    a.foldl (stepTok tk ev) so = b.foldl (stepTok tk ev) so := by
  induction h with
  | refl => intro so; rfl
  | symm _ ih => intro so; exact (ih so).symm
  | trans _ _ ih1 ih2 => intro so; exact (ih1 so).trans (ih2 so)
  | split pre post t1 t2 t12 h1 h2 h3 h4 =>
    intro so
    simp only [List.foldl_append, List.foldl_cons]
    congr 1
    rw [stepTok_text tk ev _ t12 h3, stepTok_text tk ev _ t1 h1, stepTok_text tk ev _ t2 h2, h4]
    exact (push_push _ _ _ _).symm

theorem textEq_normText : ∀ (ts : List Tok), TextEq ts (normText ts)
  | [] => .refl _
  | t :: ts => by
    have ih := (textEq_normText ts).cons t
    simp only [normText]
    cases hn : normText ts with
    | nil => rw [hn] at ih; exact ih
    | cons t' r =>
      rw [hn] at ih
      simp only
      split
      · rename_i hk
        exact .trans ih (.symm (.split [] r t t' _ hk.1 hk.2 rfl rfl))
      · exact ih

theorem textEq_of_norm {a b : List Tok} (h : normText a = normText b) : TextEq a b :=
  .trans (textEq_normText a) (h ▸ .symm (textEq_normText b))

/-! ### the total output of the stage on the whole remaining stream -/

/-- what the stage emits if `b` is all that is still to come: the output of `filter(b)` followed by `end()` -/
def htmlTotal (s : HtmlSt) (b : Bytes) : Option Bytes :=
  (filterHtml tk ev s b).map fun r => r.2 ++ endHtml r.1

/-- the token the "held" rule keeps back is a text token at the end of the list -/
theorem splitHeld_cases (ts : List Tok) :
    (splitHeld ts = (ts, [])) ∨
    (∃ t, t.kind = .text ∧ ts = (splitHeld ts).1 ++ [t] ∧ (splitHeld ts).2 = t.raw) := by
  unfold splitHeld
  split
  · rename_i t ht
    split
    · rename_i hc
      right
      obtain ⟨ys, hys⟩ := List.getLast?_eq_some_iff.mp ht
      refine ⟨t, hc.1, ?_, rfl⟩
      simp [hys]
    · left; rfl
  · rename_i ht
    simp at ht
    left; simp [ht]

/-- the total does not depend on the "held" rule: it is the ledger after ALL complete tokens, then the remainder -/
theorem total_formula (s : HtmlSt) (b data pending : Bytes) (h : utf8Split (s.last ++ b) = some (data, pending)) :
    htmlTotal tk ev s b =
      some (ledger ((tk data).1.foldl (stepTok tk ev) (s, [])).1 ((tk data).1.foldl (stepTok tk ev) (s, [])).2 ++
        (tk data).2 ++ pending) := by
  unfold htmlTotal filterHtml
  simp only [h, Option.map_some]
  congr 1
  rcases splitHeld_cases (tk data).1 with hc | ⟨t, hk, hts, hraw⟩
  · rw [hc]
    simp only [endHtml_eq, ledger, List.nil_append, List.append_assoc]
  · generalize hsh : splitHeld (tk data).1 = sh at hts hraw
    obtain ⟨todo, held⟩ := sh
    simp only at hts hraw ⊢
    rw [hts, List.foldl_append, List.foldl_cons, List.foldl_nil]
    rw [stepTok_text tk ev _ t hk, ledger_push, hraw]
    simp only [endHtml_eq, ledger, List.append_assoc]

/-! ### safe cuts for the total -/

/-- see the header; `r` = everything that follows the chunk `x` -/
def SafeCutT (L x r : Bytes) : Prop :=
  ∀ a1 p1, utf8Split (L ++ x) = some (a1, p1) →
    u8Run {} ((splitHeld (tk a1).1).2 ++ (tk a1).2) = some {} ∧
    ∀ a' p', utf8Split (p1 ++ r) = some (a', p') →
      normText (tk (a1 ++ a')).1 =
        normText ((splitHeld (tk a1).1).1 ++ (tk ((splitHeld (tk a1).1).2 ++ (tk a1).2 ++ a')).1) ∧
      (tk (a1 ++ a')).2 = (tk ((splitHeld (tk a1).1).2 ++ (tk a1).2 ++ a')).2

def safeCutTB (L x r : Bytes) : Bool :=
  match utf8Split (L ++ x) with
  | none => true
  | some (a1, p1) =>
    let todo1 := (splitHeld (tk a1).1).1
    let tail := (splitHeld (tk a1).1).2 ++ (tk a1).2
    (u8Run {} tail == some {}) &&
    match utf8Split (p1 ++ r) with
    | none => true
    | some (a', _) =>
      let w := tk (a1 ++ a')
      let c := tk (tail ++ a')
      (normText w.1 == normText (todo1 ++ c.1)) && (w.2 == c.2)

theorem safeCutTB_sound (L x r : Bytes) (h : safeCutTB tk L x r = true) : SafeCutT tk L x r := by
  intro a1 p1 h1
  simp only [safeCutTB, h1, Bool.and_eq_true, beq_iff_eq] at h
  refine ⟨h.1, ?_⟩
  intro a' p' h2
  have h3 := h.2
  simp only [h2, Bool.and_eq_true, beq_iff_eq] at h3
  exact h3

theorem filterHtml_none_of (s : HtmlSt) (b : Bytes) (h : utf8Split (s.last ++ b) = none) :
    filterHtml tk ev s b = none := by
  unfold filterHtml
  rw [h]

/-- **Splitting lemma for the total**: at a safe cut, the total on `x ++ r` is the output of `filter(x)` followed by
the total of the new state on `r`. -/
theorem total_split (s s1 : HtmlSt) (x r o1 : Bytes)
    (h1 : filterHtml tk ev s x = some (s1, o1)) (hsafe : SafeCutT tk s.last x r) :
    htmlTotal tk ev s (x ++ r) = (htmlTotal tk ev s1 r).map fun t => o1 ++ t := by
  unfold filterHtml at h1
  cases hsp : utf8Split (s.last ++ x) with
  | none => simp [hsp] at h1
  | some ap =>
    obtain ⟨a1, p1⟩ := ap
    simp only [hsp] at h1
    obtain ⟨hv, hrest⟩ := hsafe a1 p1 hsp
    generalize htk1 : tk a1 = tk1 at h1 hv hrest
    obtain ⟨ts1, r1⟩ := tk1
    generalize hsh1 : splitHeld ts1 = sh1 at h1 hv hrest
    obtain ⟨todo1, hd1⟩ := sh1
    simp only at h1 hv hrest
    generalize hf1 : todo1.foldl (stepTok tk ev) (s, []) = f1 at h1
    obtain ⟨sf1, of1⟩ := f1
    simp only at h1
    injection h1 with h1
    injection h1 with hs1 ho1
    subst hs1 ho1
    have hu2 : utf8Split ((hd1 ++ r1 ++ p1) ++ r) = (utf8Split (p1 ++ r)).map fun q => ((hd1 ++ r1) ++ q.1, q.2) := by
      rw [List.append_assoc]
      exact utf8Split_prefix (hd1 ++ r1) (p1 ++ r) hv
    have hu : utf8Split (s.last ++ (x ++ r)) = (utf8Split (p1 ++ r)).map fun q => (a1 ++ q.1, q.2) := by
      rw [← List.append_assoc]
      exact utf8Split_append_right hsp r
    cases hpr : utf8Split (p1 ++ r) with
    | none =>
      -- both calls fail on invalid UTF-8
      rw [hpr] at hu hu2
      have e1 : filterHtml tk ev s (x ++ r) = none := filterHtml_none_of tk ev s (x ++ r) hu
      have e2 : filterHtml tk ev { sf1 with last := hd1 ++ r1 ++ p1 } r = none :=
        filterHtml_none_of tk ev _ r hu2
      simp only [htmlTotal, e1, e2, Option.map_none]
    | some ap' =>
      obtain ⟨a', p'⟩ := ap'
      obtain ⟨hk1, hk2⟩ := hrest a' p' hpr
      rw [hpr] at hu hu2
      simp only [Option.map_some] at hu hu2
      rw [total_formula tk ev s (x ++ r) (a1 ++ a') p' hu]
      rw [total_formula tk ev { sf1 with last := hd1 ++ r1 ++ p1 } r ((hd1 ++ r1) ++ a') p' hu2]
      simp only [Option.map_some]
      congr 1
      rw [fold_textEq tk ev (textEq_of_norm hk1), hk2, List.foldl_append, hf1]
      generalize tk (hd1 ++ r1 ++ a') = tk2
      obtain ⟨ts2, r2⟩ := tk2
      simp only
      have key := fold_setLast_out tk ev ts2 sf1 (hd1 ++ r1 ++ p1) []
      have key2 := fold_setLast_out tk ev ts2 sf1 sf1.last of1
      have e : ({ sf1 with last := sf1.last } : HtmlSt) = sf1 := rfl
      rw [e] at key2
      rw [key, key2]
      simp [ledger, List.append_assoc]

/-- every cut of the schedule is safe, seen from the state the stage is actually in when the chunk arrives
(nothing is required of the last chunk: it is followed by `end()`, not by a cut) -/
def SafeRun (s : HtmlSt) : List Bytes → Prop
  | [] => True
  | [_] => True
  | x :: y :: rest =>
    SafeCutT tk s.last x (y :: rest).flatten ∧
      match filterHtml tk ev s x with
      | none => True
      | some (s1, _) => SafeRun s1 (y :: rest)

def safeRunB (s : HtmlSt) : List Bytes → Bool
  | [] => true
  | [_] => true
  | x :: y :: rest =>
    safeCutTB tk s.last x (y :: rest).flatten &&
      match filterHtml tk ev s x with
      | none => true
      | some (s1, _) => safeRunB s1 (y :: rest)

theorem safeRunB_sound : ∀ (cs : List Bytes) (s : HtmlSt), safeRunB tk ev s cs = true → SafeRun tk ev s cs
  | [], _, _ => trivial
  | [_], _, _ => trivial
  | x :: y :: rest, s, h => by
    simp only [safeRunB, Bool.and_eq_true] at h
    refine ⟨safeCutTB_sound tk _ _ _ h.1, ?_⟩
    cases hf : filterHtml tk ev s x with
    | none => trivial
    | some r =>
      obtain ⟨s1, o1⟩ := r
      have := h.2
      rw [hf] at this
      exact safeRunB_sound (y :: rest) s1 this

/-- **Chunk invariance of the html stage (total output) at safe cuts.** -/
theorem seqRun_total : ∀ (cs : List Bytes) (s s' : HtmlSt) (o : Bytes), cs ≠ [] → SafeRun tk ev s cs →
    seqRun tk ev s cs = some (s', o) → htmlTotal tk ev s cs.flatten = some (o ++ endHtml s')
  | [], _, _, _, hne, _, _ => absurd rfl hne
  | [x], s, s', o, _, _, h => by
    simp only [seqRun] at h
    cases hf : filterHtml tk ev s x with
    | none => simp [hf] at h
    | some r =>
      obtain ⟨s1, o1⟩ := r
      simp only [hf, Option.map_some] at h
      injection h with h
      injection h with h1 h2
      subst h1 h2
      simp [htmlTotal, hf]
  | x :: y :: rest, s, s', o, _, hsafe, h => by
    obtain ⟨hs1, hs2⟩ := hsafe
    simp only [seqRun] at h
    cases hf : filterHtml tk ev s x with
    | none => simp [hf] at h
    | some r =>
      obtain ⟨s1, o1⟩ := r
      rw [hf] at hs2
      simp only at hs2
      have hrest : ∃ s2 o2, seqRun tk ev s1 (y :: rest) = some (s2, o2) ∧ s2 = s' ∧ o = o1 ++ o2 := by
        simp only [hf] at h
        cases hr : seqRun tk ev s1 (y :: rest) with
        | none => simp [seqRun] at hr h; simp [hr] at h
        | some r2 =>
          obtain ⟨s2, o2⟩ := r2
          simp only [seqRun] at hr h
          rw [hr] at h
          simp only [Option.map_some] at h
          injection h with h
          injection h with h1 h2
          exact ⟨s2, o2, rfl, h1, h2.symm⟩
      obtain ⟨s2, o2, hr, rfl, rfl⟩ := hrest
      have ih := seqRun_total (y :: rest) s1 s2 o2 (by simp) hs2 hr
      have := total_split tk ev s s1 x (y :: rest).flatten o1 hf hs1
      simp only [List.flatten_cons] at this ih ⊢
      rw [this, ih]
      simp [List.append_assoc]

end Rio.Filter
