/-
`cache` only flips `compiled` flags: it never underflows its budget, always terminates, returns a
budget ≤ the one it was given, and leaves the tree unchanged up to those flags (`strip`).  Everything
observable – `inv`, `contents`, `get`, `len`, and (for non-empty leaf patterns) `find` – is a function
of the stripped tree.
-/
import RioModel.Proofs.TreeSpec
set_option linter.unusedSimpArgs false
set_option linter.unusedVariables false
set_option linter.unusedSectionVars false

namespace Rio.Tree
open Rio.Scan Rio.Regex

variable {ι V : Type} [DecidableEq ι]

def LazyRegex.strip (rx : LazyRegex) : LazyRegex := { rx with compiled := none }

mutual
/-- The tree with every cached regex value dropped (`compiled = None` everywhere). -/
def Item.strip : Item ι V → Item ι V
  | .empty ic => .empty ic
  | .leaf rx vs => .leaf rx.strip vs
  | .node rx cs => .node rx.strip (stripL cs)
def stripL : List (Item ι V) → List (Item ι V)
  | [] => []
  | c :: cs => Item.strip c :: stripL cs
end

theorem stripL_eq (cs : List (Item ι V)) : stripL cs = cs.map Item.strip := by
  induction cs with
  | nil => simp [stripL]
  | cons c cs ih => simp [stripL, ih]

@[simp] theorem strip_empty (ic : Bool) : (Item.empty ic : Item ι V).strip = .empty ic := by rw [Item.strip]
@[simp] theorem strip_leaf (rx) (vs : List (ι × V)) : (Item.leaf rx vs).strip = .leaf rx.strip vs := by
  rw [Item.strip]
@[simp] theorem strip_node (rx) (cs : List (Item ι V)) : (Item.node rx cs).strip = .node rx.strip (cs.map Item.strip) := by
  rw [Item.strip, stripL_eq]

@[simp] theorem strip_original (rx : LazyRegex) : rx.strip.original = rx.original := rfl
@[simp] theorem strip_regex (rx : LazyRegex) : rx.strip.regex = rx.regex := rfl
@[simp] theorem strip_compiled (rx : LazyRegex) : rx.strip.compiled = none := rfl
@[simp] theorem strip_ic (rx : LazyRegex) : rx.strip.ic = rx.ic := rfl
@[simp] theorem compile_strip (E : Engine) (rx : LazyRegex) : (rx.compile E).strip = rx.strip := rfl

/-! ### Observations factor through `strip` -/

theorem regex_strip (t : Item ι V) : t.strip.regex = t.regex := by
  cases t <;> simp

theorem childOk_strip (q : List Char) (t : Item ι V) : childOk q t.strip = childOk q t := by
  cases t with
  | empty ic => rfl
  | leaf rx vs => rw [strip_leaf]; rfl
  | node rx cs => rw [strip_node]; rfl

theorem strip_consistent (rx : LazyRegex) : rx.strip.consistent = true := rfl

theorem leafWf_strip {rx : LazyRegex} (h : rx.leafWf = true) : rx.strip.leafWf = true := by
  rw [leafWf_iff] at *; exact ⟨h.1, rfl⟩

theorem nodeWf_strip {rx : LazyRegex} (h : rx.nodeWf = true) : rx.strip.nodeWf = true := by
  rw [nodeWf_iff] at *; exact ⟨h.1, rfl⟩

/-- Two trees that differ only in cached values have the same invariant as soon as their `LazyRegex`es are equally
well-formed; the structural part of the invariant does not read the cache.  (`strip` itself makes every cache
consistent, so `t.strip.inv = t.inv` does NOT hold for a tree with a stale cached value: only this direction.) -/
theorem inv_strip (ic : Bool) (t : Item ι V) (h : t.inv ic = true) : t.strip.inv ic = true := by
  induction t using Item.ind with
  | hE ic' => simpa using h
  | hL rx vs =>
    obtain ⟨h1, h2, h3, h4⟩ := inv_leaf_iff.1 h
    rw [strip_leaf]; exact inv_leaf_iff.2 ⟨leafWf_strip h1, h2, h3, h4⟩
  | hN rx cs ih =>
    obtain ⟨h1, h2, h3, h4, h5, h6, h7⟩ := inv_node_iff.1 h
    rw [strip_node, inv_node_iff]
    refine ⟨nodeWf_strip h1, h2, h3, by simpa using h4, ?_, ?_, ?_⟩
    · intro c hc
      obtain ⟨d, hd, rfl⟩ := List.mem_map.1 hc
      rw [strip_original, childOk_strip]; exact h5 d hd
    · have : (cs.map Item.strip).map Item.regex = cs.map Item.regex := by
        rw [List.map_map]; exact List.map_congr_left fun c _ => by simp [regex_strip]
      rw [this]; exact h6
    · intro c hc
      obtain ⟨d, hd, rfl⟩ := List.mem_map.1 hc
      exact ih d hd (h7 d hd)

theorem contents_strip (t : Item ι V) : t.strip.contents = t.contents := by
  induction t using Item.ind with
  | hE ic => simp
  | hL rx vs => simp
  | hN rx cs ih =>
    rw [strip_node, contents_node, contents_node, contentsL_eq, contentsL_eq, List.flatMap_map]
    exact flatMap_congr' ih

theorem get_strip (t : Item ι V) (p : List Char) : t.strip.get p = t.get p := by
  induction t using Item.ind with
  | hE ic => simp
  | hL rx vs => rw [strip_leaf, get_leaf, get_leaf]; rfl
  | hN rx cs ih =>
    rw [strip_node, get_node, get_node, getL_eq, getL_eq, List.flatMap_map, strip_original]
    rw [flatMap_congr' (fun c hc => ih c hc)]

theorem len_strip (t : Item ι V) : t.strip.len = t.len := by
  rw [len_spec, len_spec, contents_strip]

/-- `LazyRegex::is_match` does not depend on whether the regex is cached – *because* the cached value of a well-formed
regex is the one `create_regex` builds from its fields – except for a leaf with the empty pattern. -/
theorem isMatch_strip (E : Engine) (rx : LazyRegex)
    (h : rx.nodeWf = true ∨ (rx.leafWf = true ∧ rx.original ≠ []))
    (s : List Char) : rx.strip.isMatch E s = rx.isMatch E s := by
  rcases h with h | ⟨h, hne⟩
  · rw [isMatch_node E h, isMatch_node E (nodeWf_strip h)]; simp
  · rw [isMatch_leaf E h hne, isMatch_leaf E (leafWf_strip h) (by simpa using hne)]; simp

theorem find_strip (E : Engine) {ic : Bool} (t : Item ι V) (h : t.inv ic = true)
    (hne : ∀ e ∈ t.contents, e.pat ≠ []) (s : List Char) : t.strip.find E s = t.find E s := by
  induction t using Item.ind with
  | hE ic' => simp
  | hL rx vs =>
    obtain ⟨h1, _, h3, _⟩ := inv_leaf_iff.1 h
    have : rx.original ≠ [] := by
      cases vs with
      | nil => exact absurd rfl h3
      | cons kv _ => exact hne ⟨rx.original, kv.1, kv.2⟩ (by simp)
    rw [strip_leaf, find_leaf, find_leaf, isMatch_strip E rx (Or.inr ⟨h1, this⟩)]
  | hN rx cs ih =>
    obtain ⟨h1, _, _, _, _, _, h7⟩ := inv_node_iff.1 h
    rw [strip_node, find_node, find_node, isMatch_strip E rx (Or.inl h1), findL_eq, findL_eq, List.flatMap_map]
    rw [flatMap_congr' (fun c hc => ih c hc (h7 c hc)
      (fun e he => hne e (by simp [mem_contentsL]; exact ⟨c, hc, he⟩)))]

/-! ### cache -/

theorem compile_leafWf (E : Engine) (rx : LazyRegex) (h : rx.compiled = none) :
    (rx.compile E).leafWf = rx.leafWf ∧ (rx.compile E).nodeWf = rx.nodeWf := by
  have hc : (rx.compile E).consistent = true := by
    rw [consistent_iff]
    intro c hc
    simp only [LazyRegex.compile, LazyRegex.createRegex] at hc
    split at hc
    · simp only [Option.some.injEq] at hc; exact hc.symm
    · simp at hc
  have hc0 : rx.consistent = true := by unfold LazyRegex.consistent; rw [h]
  simp only [LazyRegex.leafWf, LazyRegex.nodeWf, hc, hc0]
  exact ⟨rfl, rfl⟩

/-- `Leaf::cache` / the head of `Node::cache`: the result differs from the input only in the cached value, which – when it
was written – is `create_regex()` of the unchanged fields: well-formedness (consistency included) is untouched. -/
theorem rxCache_spec (E : Engine) (rx : LazyRegex) {left : Nat} (h : left ≠ 0) :
    ∃ rx' n, rxCache E rx left = some (rx', n) ∧ rx'.strip = rx.strip ∧ n ≤ left ∧
      rx'.leafWf = rx.leafWf ∧ rx'.nodeWf = rx.nodeWf := by
  by_cases h1 : rx.isCompiled = true
  · exact ⟨rx, left, by simp [rxCache, h1], rfl, Nat.le_refl _, rfl, rfl⟩
  · have hnone : rx.compiled = none := by
      unfold LazyRegex.isCompiled at h1; cases hc : rx.compiled <;> simp_all
    have hw := compile_leafWf E rx hnone
    by_cases h2 : (rx.compile E).isCompiled = true
    · exact ⟨rx.compile E, left - 1, by simp [rxCache, h1, h2, h], rfl, Nat.sub_le _ _, hw.1, hw.2⟩
    · exact ⟨rx.compile E, left, by simp [rxCache, h1, h2], rfl, Nat.le_refl _, hw.1, hw.2⟩

theorem cache_empty (E : Engine) (ic : Bool) (left lvl cur : Nat) :
    (Item.empty ic : Item ι V).cache E left lvl cur = some (.empty ic, left) := by rw [Item.cache]

theorem cacheL_nil (E : Engine) (left lvl cur : Nat) :
    cacheL E ([] : List (Item ι V)) left lvl cur = some ([], left) := by rw [cacheL]

theorem cacheL_cons (E : Engine) (c : Item ι V) (cs : List (Item ι V)) (left lvl cur : Nat) :
    cacheL E (c :: cs) left lvl cur =
      match c.cache E left lvl cur with
      | none => none
      | some r =>
        match cacheL E cs r.2 lvl cur with
        | none => none
        | some r' => some (r.1 :: r'.1, r'.2) := by rw [cacheL]; rfl

/-- Children that are equal after `strip` and have the same invariant can be exchanged inside a node. -/
theorem inv_node_congr {ic : Bool} {rx rx' : LazyRegex} {cs cs' : List (Item ι V)}
    (hs : rx'.strip = rx.strip) (hw : rx'.nodeWf = rx.nodeWf)
    (hcs : cs'.map Item.strip = cs.map Item.strip)
    (hinv : ∀ i (h : i < cs.length) (h' : i < cs'.length), (cs'[i]).inv ic = (cs[i]).inv ic) :
    (Item.node rx' cs' : Item ι V).inv ic = (Item.node rx cs).inv ic := by
  have hlen : cs'.length = cs.length := by simpa using congrArg List.length hcs
  have horig : rx'.original = rx.original := by simpa using congrArg LazyRegex.original hs
  have hic : rx'.ic = rx.ic := by simpa using congrArg LazyRegex.ic hs
  have hchild : ∀ q, cs'.all (childOk q) = cs.all (childOk q) := by
    intro q
    have := congrArg (fun l => l.all (childOk q)) hcs
    simpa [List.all_map, Function.comp_def, childOk_strip] using this
  have hreg : cs'.map Item.regex = cs.map Item.regex := by
    have := congrArg (fun l => l.map Item.regex) hcs
    simpa [List.map_map, Function.comp_def, regex_strip] using this
  have hL : invL ic cs' = invL ic cs := by
    rw [Bool.eq_iff_iff, invL_iff, invL_iff]
    constructor
    · intro h c hc
      obtain ⟨i, hi, rfl⟩ := List.getElem_of_mem hc
      rw [← hinv i hi (by omega)]; exact h _ (List.getElem_mem _)
    · intro h c hc
      obtain ⟨i, hi, rfl⟩ := List.getElem_of_mem hc
      rw [hinv i (by omega) hi]; exact h _ (List.getElem_mem _)
  simp only [Item.inv, hw, hic, horig, hlen, hchild, hreg, hL]

/-- `Item::cache` never underflows, returns a budget ≤ its input, changes nothing but cached values, and keeps the
invariant exactly (every value it stores is `create_regex()` of the fields it sits next to). -/
theorem cache_spec_inv (E : Engine) (t : Item ι V) (left lvl cur : Nat) :
    ∃ t' n, t.cache E left lvl cur = some (t', n) ∧ t'.strip = t.strip ∧ n ≤ left ∧
      ∀ ic, t'.inv ic = t.inv ic := by
  induction t using Item.ind generalizing left lvl cur with
  | hE ic => exact ⟨_, _, cache_empty E ic left lvl cur, rfl, Nat.le_refl _, fun _ => rfl⟩
  | hL rx vs =>
    rw [Item.cache]
    by_cases h0 : left = 0
    · simp only [h0, if_true]; exact ⟨_, _, rfl, rfl, Nat.le_refl _, fun _ => rfl⟩
    · simp only [h0, if_false]
      split
      · exact ⟨_, _, rfl, rfl, Nat.le_refl _, fun _ => rfl⟩
      · split
        · obtain ⟨rx', n, he, hs, hn, hw, _⟩ := rxCache_spec E rx h0
          rw [he]
          refine ⟨_, _, rfl, by simp [hs], hn, fun ic => ?_⟩
          have hic : rx'.ic = rx.ic := by simpa using congrArg LazyRegex.ic hs
          simp only [Item.inv, hw, hic]
        · exact ⟨_, _, rfl, rfl, Nat.le_refl _, fun _ => rfl⟩
  | hN rx cs ih =>
    have key : ∀ (l : List (Item ι V)), (∀ c ∈ l, c ∈ cs) → ∀ left lvl cur,
        ∃ l' n, cacheL E l left lvl cur = some (l', n) ∧ l'.map Item.strip = l.map Item.strip ∧ n ≤ left ∧
          ∀ ic i (h : i < l.length) (h' : i < l'.length), (l'[i]).inv ic = (l[i]).inv ic := by
      intro l
      induction l with
      | nil =>
        intro _ left lvl cur
        exact ⟨[], left, cacheL_nil E left lvl cur, rfl, Nat.le_refl _, fun _ i h => by simp at h⟩
      | cons c l ihl =>
        intro hsub left lvl cur
        obtain ⟨c', n1, h1, hs1, hn1, hi1⟩ := ih c (hsub c (by simp)) left lvl cur
        obtain ⟨l', n2, h2, hs2, hn2, hi2⟩ := ihl (fun d hd => hsub d (by simp [hd])) n1 lvl cur
        refine ⟨c' :: l', n2, ?_, by simp [hs1, hs2], Nat.le_trans hn2 hn1, ?_⟩
        · rw [cacheL_cons, h1]; simp only; rw [h2]
        · intro ic i h h'
          cases i with
          | zero => simpa using hi1 ic
          | succ i => simpa using hi2 ic i (by simpa using h) (by simpa using h')
    rw [Item.cache]
    by_cases h0 : left = 0
    · simp only [h0, if_true]; exact ⟨_, _, rfl, rfl, Nat.le_refl _, fun _ => rfl⟩
    · simp only [h0, if_false]
      split
      · exact ⟨_, _, rfl, rfl, Nat.le_refl _, fun _ => rfl⟩
      · have hrx : ∃ rx' n, (if lvl = cur then rxCache E rx left else some (rx, left)) = some (rx', n) ∧
            rx'.strip = rx.strip ∧ n ≤ left ∧ rx'.nodeWf = rx.nodeWf := by
          split
          · obtain ⟨rx', n, he, hs, hn, _, hw⟩ := rxCache_spec E rx h0
            exact ⟨rx', n, he, hs, hn, hw⟩
          · exact ⟨rx, left, rfl, rfl, Nat.le_refl _, rfl⟩
        obtain ⟨rx', n1, he, hs, hn1, hw⟩ := hrx
        rw [he]
        simp only
        obtain ⟨l', n2, h2, hs2, hn2, hi2⟩ := key cs (fun _ h => h) n1 lvl (cur + 1)
        rw [h2]
        exact ⟨_, _, rfl, by simp [hs, hs2], Nat.le_trans hn2 hn1,
          fun ic => inv_node_congr hs hw hs2 (hi2 ic)⟩

/-- `Item::cache` never underflows, returns a budget ≤ its input, and only changes cached values. -/
theorem cache_spec (E : Engine) (t : Item ι V) (left lvl cur : Nat) :
    ∃ t' n, t.cache E left lvl cur = some (t', n) ∧ t'.strip = t.strip ∧ n ≤ left := by
  obtain ⟨t', n, h, hs, hn, _⟩ := cache_spec_inv E t left lvl cur
  exact ⟨t', n, h, hs, hn⟩

/-- The `while` loop of `RegexTreeMap::cache(limit, None)` terminates within `left + 1` iterations. -/
theorem cacheLoop_spec_inv (E : Engine) (fuel : Nat) (root : Item ι V) (left lvl : Nat) (hf : left < fuel) :
    ∃ t' n, cacheLoop E fuel root left lvl = some (t', n) ∧ t'.strip = root.strip ∧ n ≤ left ∧
      ∀ ic, t'.inv ic = root.inv ic := by
  induction fuel generalizing root left lvl with
  | zero => omega
  | succ fuel ih =>
    rw [cacheLoop]
    by_cases h0 : left = 0
    · simp only [h0, if_true]; exact ⟨_, _, rfl, rfl, Nat.le_refl _, fun _ => rfl⟩
    · simp only [h0, if_false]
      obtain ⟨t1, n1, h1, hs1, hn1, hi1⟩ := cache_spec_inv E root left lvl 0
      rw [h1]
      simp only
      split
      · exact ⟨_, _, rfl, hs1, Nat.le_refl _, hi1⟩
      · next hne =>
        obtain ⟨t2, n2, h2, hs2, hn2, hi2⟩ := ih t1 n1 (lvl + 1) (by omega)
        exact ⟨t2, n2, h2, by rw [hs2, hs1], by omega, fun ic => by rw [hi2, hi1]⟩

theorem cacheLoop_spec (E : Engine) (fuel : Nat) (root : Item ι V) (left lvl : Nat) (hf : left < fuel) :
    ∃ t' n, cacheLoop E fuel root left lvl = some (t', n) ∧ t'.strip = root.strip ∧ n ≤ left := by
  obtain ⟨t', n, h, hs, hn, _⟩ := cacheLoop_spec_inv E fuel root left lvl hf
  exact ⟨t', n, h, hs, hn⟩

/-- `RegexTreeMap::cache(limit, level)`, with the invariant. -/
theorem treeCache_spec_inv (E : Engine) (root : Item ι V) (limit : Nat) (level : Option Nat) :
    ∃ t' n, treeCache E root limit level = some (t', n) ∧ t'.strip = root.strip ∧ n ≤ limit ∧
      ∀ ic, t'.inv ic = root.inv ic := by
  cases level with
  | some lvl => exact cache_spec_inv E root limit lvl 0
  | none => exact cacheLoop_spec_inv E (limit + 1) root limit 0 (by omega)

/-- `RegexTreeMap::cache(limit, level)`. -/
theorem treeCache_spec (E : Engine) (root : Item ι V) (limit : Nat) (level : Option Nat) :
    ∃ t' n, treeCache E root limit level = some (t', n) ∧ t'.strip = root.strip ∧ n ≤ limit := by
  obtain ⟨t', n, h, hs, hn, _⟩ := treeCache_spec_inv E root limit level
  exact ⟨t', n, h, hs, hn⟩

/-- The invariant of the tree `cache` returns is that of the tree it was given (both directions): what `cache` stores
is `create_regex()` of the current fields, and it stores nothing else. -/
theorem inv_of_treeCache {E : Engine} {t t' : Item ι V} {limit n : Nat} {level : Option Nat}
    (h : treeCache E t limit level = some (t', n)) (ic : Bool) : t'.inv ic = t.inv ic := by
  obtain ⟨t'', n', h', _, _, hi⟩ := treeCache_spec_inv E t limit level
  rw [h] at h'; simp only [Option.some.injEq, Prod.mk.injEq] at h'
  obtain ⟨rfl, rfl⟩ := h'
  exact hi ic

end Rio.Tree
