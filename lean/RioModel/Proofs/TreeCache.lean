/-
`cache` only flips `compiled` flags: it never underflows its budget, always terminates, returns a
budget ≤ the one it was given, and leaves the tree unchanged up to those flags (`strip`).  Everything
observable – `inv`, `contents`, `get`, `len`, and (for non-empty leaf patterns) `find` – is a function
of the stripped tree.
-/
import RioModel.Proofs.TreeSpec
set_option linter.unusedSimpArgs false
set_option linter.unusedVariables false
set_option linter.unusedSectionVars false

namespace Rio.Tree
open Rio.Scan Rio.Regex

variable {ι V : Type} [DecidableEq ι]

def LazyRegex.strip (rx : LazyRegex) : LazyRegex := { rx with compiled := false }

mutual
/-- The tree with every `compiled` flag cleared. -/
def Item.strip : Item ι V → Item ι V
  | .empty ic => .empty ic
  | .leaf rx vs => .leaf rx.strip vs
  | .node rx cs => .node rx.strip (stripL cs)
def stripL : List (Item ι V) → List (Item ι V)
  | [] => []
  | c :: cs => Item.strip c :: stripL cs
end

theorem stripL_eq (cs : List (Item ι V)) : stripL cs = cs.map Item.strip := by
  induction cs with
  | nil => simp [stripL]
  | cons c cs ih => simp [stripL, ih]

@[simp] theorem strip_empty (ic : Bool) : (Item.empty ic : Item ι V).strip = .empty ic := by rw [Item.strip]
@[simp] theorem strip_leaf (rx) (vs : List (ι × V)) : (Item.leaf rx vs).strip = .leaf rx.strip vs := by
  rw [Item.strip]
@[simp] theorem strip_node (rx) (cs : List (Item ι V)) : (Item.node rx cs).strip = .node rx.strip (cs.map Item.strip) := by
  rw [Item.strip, stripL_eq]

@[simp] theorem strip_original (rx : LazyRegex) : rx.strip.original = rx.original := rfl
@[simp] theorem strip_isLeaf (rx : LazyRegex) : rx.strip.isLeaf = rx.isLeaf := rfl
@[simp] theorem strip_ic (rx : LazyRegex) : rx.strip.ic = rx.ic := rfl
@[simp] theorem compile_strip (E : Engine) (rx : LazyRegex) : (rx.compile E).strip = rx.strip := rfl

/-! ### Observations factor through `strip` -/

theorem regex_strip (t : Item ι V) : t.strip.regex = t.regex := by
  cases t <;> simp

theorem childOk_strip (q : List Char) (t : Item ι V) : childOk q t.strip = childOk q t := by
  cases t with
  | empty ic => rfl
  | leaf rx vs => rw [strip_leaf]; rfl
  | node rx cs => rw [strip_node]; rfl

theorem inv_strip (ic : Bool) (t : Item ι V) : t.strip.inv ic = t.inv ic := by
  induction t using Item.ind with
  | hE ic' => simp
  | hL rx vs => simp [Item.inv]
  | hN rx cs ih =>
    rw [strip_node]
    simp only [Item.inv, strip_isLeaf, strip_ic, strip_original, List.length_map, List.all_map,
      List.map_map]
    have h1 : (cs.all (childOk rx.original ∘ Item.strip)) = cs.all (childOk rx.original) := by
      apply List.all_congr rfl; intro c; simp [childOk_strip]
    have h2 : List.map (Item.regex ∘ Item.strip) cs = List.map Item.regex cs := by
      apply List.map_congr_left; intro c _; simp [regex_strip]
    have h3 : invL ic (cs.map Item.strip) = invL ic cs := by
      rw [Bool.eq_iff_iff, invL_iff, invL_iff]
      simp only [List.mem_map, forall_exists_index, and_imp, forall_apply_eq_imp_iff₂]
      constructor
      · intro h c hc; rw [← ih c hc]; exact h c hc
      · intro h c hc; rw [ih c hc]; exact h c hc
    rw [h1, h2, h3]

theorem contents_strip (t : Item ι V) : t.strip.contents = t.contents := by
  induction t using Item.ind with
  | hE ic => simp
  | hL rx vs => simp
  | hN rx cs ih =>
    rw [strip_node, contents_node, contents_node, contentsL_eq, contentsL_eq, List.flatMap_map]
    exact flatMap_congr' ih

theorem get_strip (t : Item ι V) (p : List Char) : t.strip.get p = t.get p := by
  induction t using Item.ind with
  | hE ic => simp
  | hL rx vs => rw [strip_leaf, get_leaf, get_leaf]; rfl
  | hN rx cs ih =>
    rw [strip_node, get_node, get_node, getL_eq, getL_eq, List.flatMap_map, strip_original]
    rw [flatMap_congr' (fun c hc => ih c hc)]

theorem len_strip (t : Item ι V) : t.strip.len = t.len := by
  rw [len_spec, len_spec, contents_strip]

/-- `LazyRegex::is_match` does not depend on whether the regex is cached, except for a leaf with the
empty pattern. -/
theorem isMatch_strip (E : Engine) (rx : LazyRegex) (h : rx.isLeaf = false ∨ rx.original ≠ [])
    (s : List Char) : rx.strip.isMatch E s = rx.isMatch E s := by
  rcases h with h | h
  · rw [isMatch_node E h, isMatch_node E (by simpa using h)]; simp
  · cases hl : rx.isLeaf with
    | false => rw [isMatch_node E hl, isMatch_node E (by simpa using hl)]; simp
    | true => rw [isMatch_leaf E hl h, isMatch_leaf E (by simpa using hl) (by simpa using h)]; simp

theorem find_strip (E : Engine) {ic : Bool} (t : Item ι V) (h : t.inv ic = true)
    (hne : ∀ e ∈ t.contents, e.pat ≠ []) (s : List Char) : t.strip.find E s = t.find E s := by
  induction t using Item.ind with
  | hE ic' => simp
  | hL rx vs =>
    obtain ⟨_, _, h3, _⟩ := inv_leaf_iff.1 h
    have : rx.original ≠ [] := by
      cases vs with
      | nil => exact absurd rfl h3
      | cons kv _ => exact hne ⟨rx.original, kv.1, kv.2⟩ (by simp)
    rw [strip_leaf, find_leaf, find_leaf, isMatch_strip E rx (Or.inr this)]
  | hN rx cs ih =>
    obtain ⟨h1, _, _, _, _, _, h7⟩ := inv_node_iff.1 h
    rw [strip_node, find_node, find_node, isMatch_strip E rx (Or.inl h1), findL_eq, findL_eq, List.flatMap_map]
    rw [flatMap_congr' (fun c hc => ih c hc (h7 c hc)
      (fun e he => hne e (by simp [mem_contentsL]; exact ⟨c, hc, he⟩)))]

/-! ### cache -/

theorem rxCache_spec (E : Engine) (rx : LazyRegex) {left : Nat} (h : left ≠ 0) :
    ∃ rx' n, rxCache E rx left = some (rx', n) ∧ rx'.strip = rx.strip ∧ n ≤ left := by
  by_cases h1 : rx.compiled = true
  · exact ⟨rx, left, by simp [rxCache, h1], rfl, Nat.le_refl _⟩
  · by_cases h2 : (rx.compile E).compiled = true
    · exact ⟨rx.compile E, left - 1, by simp [rxCache, h1, h2, h], rfl, Nat.sub_le _ _⟩
    · exact ⟨rx.compile E, left, by simp [rxCache, h1, h2], rfl, Nat.le_refl _⟩

theorem cache_empty (E : Engine) (ic : Bool) (left lvl cur : Nat) :
    (Item.empty ic : Item ι V).cache E left lvl cur = some (.empty ic, left) := by rw [Item.cache]

theorem cacheL_nil (E : Engine) (left lvl cur : Nat) :
    cacheL E ([] : List (Item ι V)) left lvl cur = some ([], left) := by rw [cacheL]

theorem cacheL_cons (E : Engine) (c : Item ι V) (cs : List (Item ι V)) (left lvl cur : Nat) :
    cacheL E (c :: cs) left lvl cur =
      match c.cache E left lvl cur with
      | none => none
      | some r =>
        match cacheL E cs r.2 lvl cur with
        | none => none
        | some r' => some (r.1 :: r'.1, r'.2) := by rw [cacheL]; rfl

/-- `Item::cache` never underflows, returns a budget ≤ its input, and only changes `compiled` flags. -/
theorem cache_spec (E : Engine) (t : Item ι V) (left lvl cur : Nat) :
    ∃ t' n, t.cache E left lvl cur = some (t', n) ∧ t'.strip = t.strip ∧ n ≤ left := by
  induction t using Item.ind generalizing left lvl cur with
  | hE ic => exact ⟨_, _, cache_empty E ic left lvl cur, rfl, Nat.le_refl _⟩
  | hL rx vs =>
    rw [Item.cache]
    by_cases h0 : left = 0
    · simp only [h0, if_true]; exact ⟨_, _, rfl, rfl, Nat.le_refl _⟩
    · simp only [h0, if_false]
      split
      · exact ⟨_, _, rfl, rfl, Nat.le_refl _⟩
      · split
        · obtain ⟨rx', n, he, hs, hn⟩ := rxCache_spec E rx h0
          rw [he]
          exact ⟨_, _, rfl, by simp [hs], hn⟩
        · exact ⟨_, _, rfl, rfl, Nat.le_refl _⟩
  | hN rx cs ih =>
    have key : ∀ (l : List (Item ι V)), (∀ c ∈ l, c ∈ cs) → ∀ left lvl cur,
        ∃ l' n, cacheL E l left lvl cur = some (l', n) ∧ l'.map Item.strip = l.map Item.strip ∧ n ≤ left := by
      intro l
      induction l with
      | nil => intro _ left lvl cur; exact ⟨[], left, cacheL_nil E left lvl cur, rfl, Nat.le_refl _⟩
      | cons c l ihl =>
        intro hsub left lvl cur
        obtain ⟨c', n1, h1, hs1, hn1⟩ := ih c (hsub c (by simp)) left lvl cur
        obtain ⟨l', n2, h2, hs2, hn2⟩ := ihl (fun d hd => hsub d (by simp [hd])) n1 lvl cur
        refine ⟨c' :: l', n2, ?_, by simp [hs1, hs2], Nat.le_trans hn2 hn1⟩
        rw [cacheL_cons, h1]; simp only; rw [h2]
    rw [Item.cache]
    by_cases h0 : left = 0
    · simp only [h0, if_true]; exact ⟨_, _, rfl, rfl, Nat.le_refl _⟩
    · simp only [h0, if_false]
      split
      · exact ⟨_, _, rfl, rfl, Nat.le_refl _⟩
      · have hrx : ∃ rx' n, (if lvl = cur then rxCache E rx left else some (rx, left)) = some (rx', n) ∧
            rx'.strip = rx.strip ∧ n ≤ left := by
          split
          · exact rxCache_spec E rx h0
          · exact ⟨rx, left, rfl, rfl, Nat.le_refl _⟩
        obtain ⟨rx', n1, he, hs, hn1⟩ := hrx
        rw [he]
        simp only
        obtain ⟨l', n2, h2, hs2, hn2⟩ := key cs (fun _ h => h) n1 lvl (cur + 1)
        rw [h2]
        exact ⟨_, _, rfl, by simp [hs, hs2], Nat.le_trans hn2 hn1⟩

/-- The `while` loop of `RegexTreeMap::cache(limit, None)` terminates within `left + 1` iterations. -/
theorem cacheLoop_spec (E : Engine) (fuel : Nat) (root : Item ι V) (left lvl : Nat) (hf : left < fuel) :
    ∃ t' n, cacheLoop E fuel root left lvl = some (t', n) ∧ t'.strip = root.strip ∧ n ≤ left := by
  induction fuel generalizing root left lvl with
  | zero => omega
  | succ fuel ih =>
    rw [cacheLoop]
    by_cases h0 : left = 0
    · simp only [h0, if_true]; exact ⟨_, _, rfl, rfl, Nat.le_refl _⟩
    · simp only [h0, if_false]
      obtain ⟨t1, n1, h1, hs1, hn1⟩ := cache_spec E root left lvl 0
      rw [h1]
      simp only
      split
      · exact ⟨_, _, rfl, hs1, Nat.le_refl _⟩
      · next hne =>
        obtain ⟨t2, n2, h2, hs2, hn2⟩ := ih t1 n1 (lvl + 1) (by omega)
        exact ⟨t2, n2, h2, by rw [hs2, hs1], by omega⟩

/-- `RegexTreeMap::cache(limit, level)`. -/
theorem treeCache_spec (E : Engine) (root : Item ι V) (limit : Nat) (level : Option Nat) :
    ∃ t' n, treeCache E root limit level = some (t', n) ∧ t'.strip = root.strip ∧ n ≤ limit := by
  cases level with
  | some lvl => exact cache_spec E root limit lvl 0
  | none => exact cacheLoop_spec E (limit + 1) root limit 0 (by omega)

end Rio.Tree
