/-
Router proofs, part 8: `get_route` / `get_trace` pick a route of maximal priority.
-/
import RioModel.Proofs.RouterTop

set_option linter.unusedSimpArgs false
set_option linter.unusedVariables false
set_option linter.unusedSectionVars false

namespace Rio.Router

def prioLe (a b : Route) : Bool := decide (b.priority ≤ a.priority)

theorem sortByPriority_eq (rs : List Route) : sortByPriority rs = rs.mergeSort prioLe := rfl

/-- the head of the list sorted by `Reverse(priority)` is an element of maximal priority -/
theorem head_sortByPriority (rs : List Route) (h : Route) (hh : (sortByPriority rs).head? = some h) :
    h ∈ rs ∧ ∀ x ∈ rs, x.priority ≤ h.priority := by
  have hp := List.mergeSort_perm rs prioLe
  have hs : List.Pairwise (fun a b => prioLe a b = true) (rs.mergeSort prioLe) :=
    List.pairwise_mergeSort
      (by intro a b c h1 h2; simp only [prioLe, decide_eq_true_eq] at *; omega)
      (by intro a b; simp only [prioLe, Bool.or_eq_true, decide_eq_true_eq]; omega) rs
  rw [sortByPriority_eq] at hh
  cases hl : rs.mergeSort prioLe with
  | nil => rw [hl] at hh; simp at hh
  | cons a l =>
    rw [hl] at hh hs hp
    simp only [List.head?_cons, Option.some.injEq] at hh
    subst hh
    refine ⟨hp.mem_iff.1 (List.mem_cons_self ..), ?_⟩
    intro x hx
    have hx' := hp.mem_iff.2 hx
    rcases List.mem_cons.mp hx' with hx' | hx'
    · rw [hx']; exact Int.le_refl _
    · have := (List.pairwise_cons.mp hs).1 x hx'
      simpa [prioLe] using this

theorem head_sortByPriority_none (rs : List Route) (hh : (sortByPriority rs).head? = none) : rs = [] := by
  have hp := List.mergeSort_perm rs prioLe
  rw [sortByPriority_eq] at hh
  cases hl : rs.mergeSort prioLe with
  | nil => rw [hl] at hp; exact hp.symm.eq_nil
  | cons a l => rw [hl] at hh; simp at hh

/-- two lists with the same elements have heads of the same priority after sorting -/
theorem head_priority_congr (l1 l2 : List Route) (hm : ∀ x, x ∈ l1 ↔ x ∈ l2) :
    (sortByPriority l1).head?.map (·.priority) = (sortByPriority l2).head?.map (·.priority) := by
  cases h1 : (sortByPriority l1).head? with
  | none =>
    have e1 := head_sortByPriority_none l1 h1
    cases h2 : (sortByPriority l2).head? with
    | none => rfl
    | some b =>
      have := (head_sortByPriority l2 b h2).1
      rw [← hm, e1] at this; simp at this
  | some a =>
    have ha := head_sortByPriority l1 a h1
    cases h2 : (sortByPriority l2).head? with
    | none =>
      have e2 := head_sortByPriority_none l2 h2
      have := ha.1
      rw [hm, e2] at this; simp at this
    | some b =>
      have hb := head_sortByPriority l2 b h2
      simp only [Option.map_some, Option.some.injEq]
      have h3 := hb.2 a ((hm a).1 ha.1)
      have h4 := ha.2 b ((hm b).2 hb.1)
      omega

end Rio.Router
