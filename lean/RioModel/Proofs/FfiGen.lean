/-
W17 — lemmas about the TRANSLATED header-list functions of the C interface (section `w17_ffi_headers`, generated from
src/http/ffi.rs + src/ffi_helpers.rs) and their relation to the hand-written content model of Model/Ffi.lean
(`cstrOf`, `toHeaderMap`, `fromHeaderMap`).

Representation relation: `Chain store p nodes` — following the `next` POINTERS from `p` through the node memory `store`
visits exactly the nodes whose (name, value) are `nodes`, and ends in NULL.  The hand model works on `nodes` directly.
-/
import RioModel.Generated.Consts
import RioModel.Model.Ffi
set_option linter.unusedSimpArgs false
set_option linter.unusedVariables false

namespace Rio.FfiGen
open Rio.Consts Rio.Ffi

/-- the pointer `p` leads, through `store`, along a NULL-terminated list whose nodes carry `nodes` -/
inductive Chain (store : List GenHeaderMap) : Option Nat → List CNode → Prop
  | nil : Chain store none []
  | cons {i : Nat} {n : GenHeaderMap} {rest : List CNode} :
      store[i]? = some n → Chain store n.next rest → Chain store (some i) ((n.name, n.value) :: rest)

/-- what `c_char_to_str` returns: NULL and invalid UTF-8 give `None` -/
def strOf (utf8 : List Nat → Bool) : Option (List Nat) → Option (List Nat)
  | none => none
  | some b => if utf8 b then some b else none

/-- the header a node contributes to the walk (none: skipped by one of the two `continue`s) -/
def nodeHeader (utf8 : List Nat → Bool) (c : CNode) : Option HeaderBytes :=
  match strOf utf8 c.1, strOf utf8 c.2 with
  | some n, some v => some (n, v)
  | _, _ => none

/-- `c_char_to_str` never dereferences NULL (the guard in front of `CStr::from_ptr`) and computes `strOf` -/
theorem cCharToStr_eq (utf8 : List Nat → Bool) (p : Option (List Nat)) :
    genCCharToStr utf8 p = .ok (strOf utf8 p) := by
  cases p with
  | none => simp [genCCharToStr, strOf]
  | some b =>
    cases h : utf8 b <;> simp [genCCharToStr, genCStrFromPtr, genCStrToStr, strOf, h]

/-- `string_to_c_char` = the hand model's `cstrOf` -/
theorem stringToCChar_eq (s : List Nat) : genStringToCChar s = .ok (cstrOf s) := by
  by_cases h : 0 ∈ s <;> simp [genStringToCChar, genCStringNew, cstrOf, h]

/-- one execution of the loop body on a node that is in the store -/
theorem whileBody_eq (utf8 : List Nat → Bool) (store : List GenHeaderMap) (hm : Option Nat)
    (acc : List HeaderBytes) (i : Nat) (n : GenHeaderMap) (h : store[i]? = some n) :
    genHeaderMapToHttpHeadersWhile1Body utf8 store hm acc (some i)
      = .ok (acc ++ (nodeHeader utf8 (n.name, n.value)).toList, n.next) := by
  simp only [genHeaderMapToHttpHeadersWhile1Body, genDerefHeaderMap, h, cCharToStr_eq, nodeHeader]
  cases strOf utf8 n.name <;> cases strOf utf8 n.value <;> simp

/-- the walk over a chain, with exactly enough fuel -/
theorem while_chain (utf8 : List Nat → Bool) (store : List GenHeaderMap) (hm : Option Nat)
    {p : Option Nat} {nodes : List CNode} (hc : Chain store p nodes) (extra : Nat) (acc : List HeaderBytes) :
    genHeaderMapToHttpHeadersWhile1 utf8 store hm (nodes.length + extra) acc p
      = .ok (acc ++ nodes.filterMap (nodeHeader utf8), none) := by
  induction hc generalizing acc with
  | nil => unfold genHeaderMapToHttpHeadersWhile1; simp
  | @cons i n rest hi _ ih =>
    unfold genHeaderMapToHttpHeadersWhile1
    simp only [List.length_cons]
    rw [show rest.length + 1 + extra = (rest.length + extra) + 1 by omega]
    simp only [Option.isNone_some, Bool.not_false, if_true, whileBody_eq utf8 store hm acc i n hi, ih]
    cases hn : nodeHeader utf8 (n.name, n.value) <;> simp [List.filterMap_cons, hn]

/-- with less fuel than nodes the loop is cut: every node costs one execution of the body -/
theorem while_short (utf8 : List Nat → Bool) (store : List GenHeaderMap) (hm : Option Nat)
    {p : Option Nat} {nodes : List CNode} (hc : Chain store p nodes) (fuel : Nat) (hf : fuel < nodes.length)
    (acc : List HeaderBytes) :
    genHeaderMapToHttpHeadersWhile1 utf8 store hm fuel acc p = .error .outOfFuel := by
  induction hc generalizing acc fuel with
  | nil => simp at hf
  | @cons i n rest hi _ ih =>
    unfold genHeaderMapToHttpHeadersWhile1
    cases fuel with
    | zero => simp
    | succ f =>
      simp only [Option.isNone_some, Bool.not_false, if_true, whileBody_eq utf8 store hm acc i n hi]
      exact ih f (by simpa using hf) _

/-- converse of `while_chain`: a walk that comes back went along a NULL-terminated list no longer than the fuel -/
theorem while_ok_chain (utf8 : List Nat → Bool) (store : List GenHeaderMap) (hm : Option Nat) :
    ∀ (fuel : Nat) (acc : List HeaderBytes) (p : Option Nat) (out : List HeaderBytes × Option Nat),
      genHeaderMapToHttpHeadersWhile1 utf8 store hm fuel acc p = .ok out →
      ∃ nodes, Chain store p nodes ∧ nodes.length ≤ fuel := by
  intro fuel
  induction fuel with
  | zero =>
    intro acc p out h
    unfold genHeaderMapToHttpHeadersWhile1 at h
    cases p with
    | none => exact ⟨[], .nil, Nat.le_refl _⟩
    | some i => simp at h
  | succ f ih =>
    intro acc p out h
    unfold genHeaderMapToHttpHeadersWhile1 at h
    cases p with
    | none => exact ⟨[], .nil, Nat.zero_le _⟩
    | some i =>
      cases hs : store[i]? with
      | none =>
        simp [genHeaderMapToHttpHeadersWhile1Body, genDerefHeaderMap, hs] at h
      | some n =>
        simp only [Option.isNone_some, Bool.not_false, if_true, whileBody_eq utf8 store hm acc i n hs] at h
        obtain ⟨nodes, hc, hl⟩ := ih _ _ _ h
        exact ⟨(n.name, n.value) :: nodes, .cons hs hc, by simp; omega⟩

/-! ### Rust → C -/

/-- enlarging the store keeps every chain (addresses are never reused: `Box::new` gives a fresh one) -/
theorem Chain.mono {store : List GenHeaderMap} {p : Option Nat} {nodes : List CNode} (hc : Chain store p nodes)
    (more : List GenHeaderMap) : Chain (store ++ more) p nodes := by
  induction hc with
  | nil => exact .nil
  | @cons i n rest hi _ ih =>
    refine .cons ?_ ih
    have hlt : i < store.length := by
      rcases Nat.lt_or_ge i store.length with h | h
      · exact h
      · rw [List.getElem?_eq_none h] at hi; cases hi
    rw [List.getElem?_append_left hlt]; exact hi

/-- one execution of the `for` body: two strings, one fresh node IN FRONT of the list -/
theorem forBody_eq (hs : List HeaderBytes) (store : List GenHeaderMap) (cur : Option Nat) (h : HeaderBytes) :
    genHttpHeadersToHeaderMapFor1Body hs store cur h
      = .ok (store ++ [{ name := cstrOf h.1, value := cstrOf h.2, next := cur }], some store.length) := by
  simp [genHttpHeadersToHeaderMapFor1Body, stringToCChar_eq, genBoxIntoRawHeaderMap]

/-- the `for` loop never fails and builds a chain carrying the hand model's fold -/
theorem for_chain (all hs : List HeaderBytes) (store : List GenHeaderMap) (cur : Option Nat) (nodes : List CNode)
    (hc : Chain store cur nodes) :
    ∃ store' p, genHttpHeadersToHeaderMapFor1 all hs store cur = .ok (store', p)
      ∧ Chain store' p (hs.foldl (fun cur h => (cstrOf h.1, cstrOf h.2) :: cur) nodes)
      ∧ store'.length = store.length + hs.length ∧ store'.take store.length = store := by
  induction hs generalizing store cur nodes with
  | nil => exact ⟨store, cur, by simp [genHttpHeadersToHeaderMapFor1], hc, by simp, by simp⟩
  | cons h rest ih =>
    have hc' : Chain (store ++ [{ name := cstrOf h.1, value := cstrOf h.2, next := cur }]) (some store.length)
        ((cstrOf h.1, cstrOf h.2) :: nodes) :=
      Chain.cons (n := { name := cstrOf h.1, value := cstrOf h.2, next := cur }) (by simp) (hc.mono _)
    obtain ⟨s', p, he, hch, hl, ht⟩ := ih _ _ _ hc'
    refine ⟨s', p, ?_, hch, ?_, ?_⟩
    · unfold genHttpHeadersToHeaderMapFor1
      simp only [forBody_eq, he]
    · simp at hl ⊢; omega
    · have := congrArg (List.take store.length) ht
      simpa [List.take_take, Nat.min_eq_left] using this

end Rio.FfiGen
