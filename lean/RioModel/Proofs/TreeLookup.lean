/-
Keyed view of the stored entries, for clients that think of the tree as a map (pattern, id) ↦ value
(the router's `TreeSpec`): `lookupE` on `contents` after insert / remove / retain / modifyAt.
-/
import RioModel.Proofs.TreeDistinct
import RioModel.Proofs.TreeModify
set_option linter.unusedSimpArgs false
set_option linter.unusedVariables false
set_option linter.unusedSectionVars false

namespace Rio.Tree
open Rio.Scan Rio.Regex

variable {ι V : Type} [DecidableEq ι]

/-- The value stored under (pattern, id), if any. -/
def lookupE (L : List (Entry ι V)) (p : List Char) (id : ι) : Option V :=
  (L.find? fun e => decide (e.pat = p ∧ e.id = id)).map (·.val)

theorem lookupE_nil (p : List Char) (id : ι) : lookupE ([] : List (Entry ι V)) p id = none := rfl

theorem lookupE_cons (a : Entry ι V) (L : List (Entry ι V)) (p : List Char) (id : ι) :
    lookupE (a :: L) p id = if a.pat = p ∧ a.id = id then some a.val else lookupE L p id := by
  unfold lookupE
  rw [List.find?_cons]
  by_cases h : a.pat = p ∧ a.id = id <;> simp [h]

theorem lookupE_none_iff {L : List (Entry ι V)} {p : List Char} {id : ι} :
    lookupE L p id = none ↔ ∀ e ∈ L, ¬(e.pat = p ∧ e.id = id) := by
  induction L with
  | nil => simp [lookupE_nil]
  | cons a L ih =>
    rw [lookupE_cons]
    by_cases h : a.pat = p ∧ a.id = id
    · rw [if_pos h]
      constructor
      · intro hh; cases hh
      · intro hh; exact absurd h (hh a (by simp))
    · rw [if_neg h, ih]
      constructor
      · intro hh e he
        rcases List.mem_cons.1 he with rfl | he
        · exact h
        · exact hh e he
      · intro hh e he; exact hh e (by simp [he])

theorem KeyNodup.of_idNodup {L : List (Entry ι V)} (h : IdNodup L) : KeyNodup L :=
  h.imp fun hab hk => hab hk.2

theorem lookupE_some_iff {L : List (Entry ι V)} (h : KeyNodup L) {p : List Char} {id : ι} {v : V} :
    lookupE L p id = some v ↔ (⟨p, id, v⟩ : Entry ι V) ∈ L := by
  induction L with
  | nil => simp [lookupE_nil]
  | cons a L ih =>
    rw [KeyNodup, List.pairwise_cons] at h
    rw [lookupE_cons]
    by_cases hk : a.pat = p ∧ a.id = id
    · simp only [hk, and_self, if_true, Option.some.injEq, List.mem_cons]
      constructor
      · intro hv; left; obtain ⟨h1, h2⟩ := hk; cases a; simp_all
      · rintro (he | he)
        · rw [← he]
        · exact absurd hk (h.1 _ he)
    · simp only [hk, if_false, List.mem_cons]
      rw [ih h.2]
      constructor
      · exact Or.inr
      · rintro (he | he)
        · exfalso; apply hk; rw [← he]; exact ⟨rfl, rfl⟩
        · exact he

/-- The keyed view does not depend on the order (keys being distinct). -/
theorem lookupE_perm {L L' : List (Entry ι V)} (h : KeyNodup L) (hp : L.Perm L') (p : List Char) (id : ι) :
    lookupE L p id = lookupE L' p id := by
  have h' : KeyNodup L' := by
    unfold KeyNodup at *
    have hsymm : ∀ {a b : Entry ι V}, ¬(a.pat = b.pat ∧ a.id = b.id) → ¬(b.pat = a.pat ∧ b.id = a.id) :=
      fun hab hk => hab ⟨hk.1.symm, hk.2.symm⟩
    exact (hp.pairwise_iff hsymm).1 h
  cases hl : lookupE L' p id with
  | none =>
    rw [lookupE_none_iff] at hl ⊢
    exact fun e he => hl e (hp.subset he)
  | some v =>
    rw [lookupE_some_iff h'] at hl
    rw [lookupE_some_iff h]
    exact hp.symm.subset hl

theorem lookupE_refInsert (L : List (Entry ι V)) (p : List Char) (id : ι) (v : V) (p' : List Char) (id' : ι) :
    lookupE (refInsert L p id v) p' id' = if p' = p ∧ id' = id then some v else lookupE L p' id' := by
  induction L with
  | nil =>
    simp only [refInsert, lookupE_cons, lookupE_nil]
    by_cases h : p' = p ∧ id' = id
    · obtain ⟨rfl, rfl⟩ := h; simp
    · have : ¬(p = p' ∧ id = id') := fun hh => h ⟨hh.1.symm, hh.2.symm⟩
      simp only [h, this, if_false]
  | cons a L ih =>
    simp only [refInsert]
    by_cases hk : a.pat = p ∧ a.id = id
    · simp only [hk, and_self, if_true, lookupE_cons]
      by_cases h : p' = p ∧ id' = id
      · simp [h]
      · have h1 : ¬(p = p' ∧ id = id') := fun hh => h ⟨hh.1.symm, hh.2.symm⟩
        have h2 : ¬(a.pat = p' ∧ a.id = id') := by rw [hk.1, hk.2]; exact h1
        simp [h, h1, h2]
    · simp only [hk, if_false, lookupE_cons, ih]
      by_cases h : a.pat = p' ∧ a.id = id'
      · have : ¬(p' = p ∧ id' = id) := fun hh => hk ⟨h.1.trans hh.1, h.2.trans hh.2⟩
        simp [h, this]
      · simp [h]

theorem lookupE_refRetain {L : List (Entry ι V)} (h : KeyNodup L) (f : ι → V → Option V) (p : List Char) (id : ι) :
    lookupE (refRetain L f) p id = (lookupE L p id).bind (f id) := by
  induction L with
  | nil => simp [refRetain, lookupE_nil]
  | cons a L ih =>
    rw [KeyNodup, List.pairwise_cons] at h
    have ih' := ih h.2
    rw [lookupE_cons]
    cases hf : f a.id a.val with
    | none =>
      have hcons : refRetain (a :: L) f = refRetain L f := by
        simp [refRetain, List.filterMap_cons, hf]
      rw [hcons]
      by_cases hk : a.pat = p ∧ a.id = id
      · rw [if_pos hk, Option.bind_some, ← hk.2, hf, lookupE_none_iff]
        intro e he hke
        obtain ⟨e0, he0, hp, hi, _⟩ := mem_refRetain he
        exact h.1 e0 he0 ⟨hk.1.trans (hke.1.symm.trans hp), hke.2.symm.trans hi⟩
      · rw [if_neg hk]; exact ih'
    | some v' =>
      have hcons : refRetain (a :: L) f = ⟨a.pat, a.id, v'⟩ :: refRetain L f := by
        simp [refRetain, List.filterMap_cons, hf]
      rw [hcons, lookupE_cons]
      by_cases hk : a.pat = p ∧ a.id = id
      · rw [if_pos hk, if_pos hk, Option.bind_some, ← hk.2, hf]
      · rw [if_neg hk, if_neg hk]; exact ih'

theorem lookupE_refModify (L : List (Entry ι V)) (p0 : List Char) (g : ι → V → V) (p : List Char) (id : ι) :
    lookupE (refModify L p0 g) p id = (lookupE L p id).map fun v => if p = p0 then g id v else v := by
  induction L with
  | nil => simp [refModify, lookupE_nil]
  | cons a L ih =>
    have hcons : refModify (a :: L) p0 g =
        (if a.pat = p0 then ⟨a.pat, a.id, g a.id a.val⟩ else a) :: refModify L p0 g := by simp [refModify]
    rw [hcons, lookupE_cons, lookupE_cons, (refModify_id p0 g a).1, (refModify_id p0 g a).2]
    by_cases hk : a.pat = p ∧ a.id = id
    · simp only [hk, and_self, if_true, Option.map_some]
      by_cases hp : p = p0
      · simp [hp, hk.1.trans hp, hk.2]
      · have : ¬ a.pat = p0 := fun e => hp (hk.1.symm.trans e)
        simp [hp, this]
    · simp only [hk, if_false]; exact ih

theorem lookupE_refRemove {L : List (Entry ι V)} (h : IdNodup L) (id0 : ι) (p : List Char) (id : ι) :
    lookupE (refRemove L id0) p id = if id = id0 then none else lookupE L p id := by
  rw [refRemove_eq_filter h]
  induction L with
  | nil => simp [lookupE_nil]
  | cons a L ih =>
    rw [IdNodup, List.pairwise_cons] at h
    have ih' := ih h.2
    rw [List.filter_cons, lookupE_cons]
    by_cases ha : a.id = id0
    · simp only [ha, decide_true, Bool.not_true, Bool.false_eq_true, if_false]
      rw [ih']
      by_cases hi : id = id0
      · simp [hi]
      · have : ¬(a.pat = p ∧ id0 = id) := fun hh => hi hh.2.symm
        simp [hi, this]
    · simp only [ha, decide_false, Bool.not_false, if_true, lookupE_cons]
      by_cases hk : a.pat = p ∧ a.id = id
      · have : ¬ id = id0 := fun e => ha (hk.2.trans e)
        simp [hk, this]
      · simp only [hk, if_false]; exact ih'

/-! ### On the tree -/

/-- `insert(p, id, v)` as a map update. -/
theorem lookup_insert {ic : Bool} (t : Item ι V) (p : List Char) (id : ι) (v : V) (h : t.inv ic = true)
    (p' : List Char) (id' : ι) :
    lookupE (t.insert p id v).contents p' id' =
      if p' = p ∧ id' = id then some v else lookupE t.contents p' id' := by
  rw [lookupE_perm (keyNodup_contents _ (inv_insert t p id v h)) (contents_insert t p id v h), lookupE_refInsert]

/-- `retain(f)` as a map operation (`f` may update the value). -/
theorem lookup_retain {ic : Bool} (t : Item ι V) (f : ι → V → Option V) (h : t.inv ic = true)
    (p : List Char) (id : ι) :
    lookupE (t.retain f).contents p id = (lookupE t.contents p id).bind (f id) := by
  rw [contents_retain, lookupE_refRetain (keyNodup_contents t h)]

/-- `get_mut(p0)` + update as a map operation. -/
theorem lookup_modifyAt {ic : Bool} (t : Item ι V) (p0 : List Char) (g : ι → V → V) (h : t.inv ic = true)
    (p : List Char) (id : ι) :
    lookupE (t.modifyAt p0 g).contents p id =
      (lookupE t.contents p id).map fun v => if p = p0 then g id v else v := by
  rw [contents_modifyAt t p0 g h, lookupE_refModify]

/-- `remove(id0)` as a map operation, when ids are distinct. -/
theorem lookup_remove (t : Item ι V) (id0 : ι) (hnd : IdNodup t.contents) (p : List Char) (id : ι) :
    lookupE (t.remove id0).1.contents p id = if id = id0 then none else lookupE t.contents p id := by
  rw [(contents_remove t id0).1, lookupE_refRemove hnd]

/-- `find` as membership: `v` is returned iff some stored entry with a matching pattern holds `v`. -/
theorem mem_find_iff {E : Engine} {Good : List Char → Prop} (hPS : PrefixSound E Good) {ic : Bool}
    (t : Item ι V) (h : t.inv ic = true) (hgood : ∀ e ∈ t.contents, Good e.pat ∧ e.pat ≠ [])
    (s : List Char) (v : V) :
    v ∈ t.find E s ↔ ∃ e ∈ t.contents, E.full ic e.pat s = true ∧ e.val = v := by
  rw [find_eq_scan hPS t h hgood s]
  simp only [List.mem_map, List.mem_filter]
  constructor
  · rintro ⟨e, ⟨he, hm⟩, rfl⟩; exact ⟨e, he, hm, rfl⟩
  · rintro ⟨e, he, hm, rfl⟩; exact ⟨e, ⟨he, hm⟩, rfl⟩

end Rio.Tree
