/-
Stream laws of the tokenizer model, part 2: the simulation `Core` (see `Proofs/HtmlStream.lean`) for `next`, and its
two instances: PREFIX STABILITY (`next_prefix_stable`) and RESTART (`next_restart`).
-/
import RioModel.Proofs.HtmlStream
import RioModel.Proofs.HtmlStreamA
set_option linter.unusedSimpArgs false
set_option linter.unusedVariables false

namespace Rio.Html
namespace Tokenizer
open Rio.Consts

open Lean Parser Tactic in
syntax "sif'" " [" (simpStar <|> simpErase <|> simpLemma),* "]" (location)? : tactic
macro_rules
  | `(tactic| sif' [$ts,*] $[$loc]?) =>
    `(tactic| simp only [$ts,*, Bool.false_eq_true, if_false, if_true, dite_false, dite_true, ↓reduceIte, ↓reduceDIte,
        Bool.not_true, Bool.not_false, Bool.true_eq_false] $[$loc]?)

local macro "tr" : tactic => `(tactic| first | trivial | rfl)
/-- close `CoreT` from a `Core` fact, up to fields outside `live` and rewriting by hypotheses -/
local macro "ct " x:term : tactic =>
  `(tactic| (refine ⟨⟨Core.congr $x ?_ ?_, ?_⟩, ?_⟩ <;>
      first | rfl | (simp [live, *]; done) | (intro hTL; simp [isTagLike] at hTL; done)))

local macro "lrfl" : tactic => `(tactic| first | (simp [live, pushPending]; done) | rfl)

/-- `Core` plus the token type (set by every path of `next`) -/
def CoreT (F : Prop) (p : Nat) (t u : Tokenizer) : Prop := Core F p t u ∧ t.token = u.token

/-- … plus, for a tag token, the attribute list (rebuilt by `read_tag`): same spans up to the shift, same read position -/
def CoreTA (F : Prop) (p : Nat) (t u : Tokenizer) : Prop :=
  CoreT F p t u ∧ (isTagLike u.token = true → Sav p t u)

/-- a token that is not a tag says nothing about the attribute list -/
theorem CoreT.toA {F : Prop} {p : Nat} {t u : Tokenizer} (c : CoreT F p t u) (h : isTagLike u.token = false) :
    CoreTA F p t u := ⟨c, fun h' => by rw [h] at h'; cases h'⟩

@[simp] theorem finishText_err (t : Tokenizer) : (finishText t).err = t.err := by
  unfold finishText; split <;> rfl

theorem finishText_sim {F : Prop} {p : Nat} (t u : Tokenizer) (c : Core F p t u) :
    CoreTA F p (finishText t) (finishText u) := by
  unfold finishText
  have hc : (t.rawS < t.rawE) ↔ (u.rawS < u.rawE) := by rw [c.rawS, c.rawE]; omega
  by_cases h : u.rawS < u.rawE
  · sif' [h, hc.mpr h]
    exact CoreT.toA ⟨c.dataE_rawE.congr (by lrfl) (by lrfl), rfl⟩ rfl
  · have h' : ¬ t.rawS < t.rawE := fun x => h (hc.mp x)
    sif' [h, h']
    exact CoreT.toA ⟨c.congr (by lrfl) (by lrfl), rfl⟩ rfl

theorem dispatchTag_err (t : Tokenizer) (b : Nat) (h : t.err = true) : (dispatchTag t b).err = true := by
  unfold dispatchTag
  simp only
  have h1 := readByte_err _ h
  have h2 := readTag_err t.readByte.1 false h1
  have h3 := readUntilCloseAngle_err (t.readByte.1.unread 1) (by simpa using h1)
  have h4 := readMarkupDeclaration_err t h
  have h5 := readUntilCloseAngle_err (t.unread 1) (by simpa using h)
  have h6 : (readStartTag t).1.err = true := by
    unfold readStartTag; simp [readTag_err t true h]
  (repeat' split) <;> simp_all

theorem mainLoop_err (t : Tokenizer) (h : t.err = true) : (mainLoop t).err = true := by
  fun_induction mainLoop t <;> simp_all +zetaDelta [readByte_err, dispatchTag_err]

theorem dispatchTag_sim {F : Prop} {p : Nat} (t u : Tokenizer) (b : Nat) (c : Core F p t u) (ok : Ok u)
    (h2 : 2 ≤ u.rawE) (htag : TagOk u.rawTag) (e : EO F (dispatchTag u b)) :
    CoreTA F p (dispatchTag t b) (dispatchTag u b) := by
  unfold dispatchTag at e ⊢
  simp only [htmlTagOpenLen] at e ⊢
  have hu2 : ¬ u.rawE < 2 := by omega
  have ht2 : ¬ t.rawE < 2 := by have := c.rawE; omega
  sif' [hu2, ht2] at e ⊢
  have hx : (t.rawS < t.rawE - 2) ↔ (u.rawS < u.rawE - 2) := by rw [c.rawS, c.rawE]; omega
  by_cases h1 : u.rawS < u.rawE - 2
  · sif' [h1, hx.mpr h1]
    refine CoreT.toA ⟨⟨c.size, c.agree, c.full, c.rawS, ?_, c.dataS, ?_, c.err, c.rawTag, c.cdata, c.panic, c.hang, c.utf8⟩, rfl⟩ rfl
    · simp only; have := c.rawE; omega
    · simp only; have := c.rawE; omega
  · have h1' : ¬ t.rawS < t.rawE - 2 := fun x => h1 (hx.mp x)
    sif' [h1, h1'] at e ⊢
    by_cases ha : isAlpha b = true
    · sif' [ha] at e ⊢
      have s := readStartTag_sim t u c ok h2 htag e
      have sA := readStartTag_simA t u c ok h2 e
      have hs2 := s.2
      refine ⟨⟨Core.congr s.1 ?_ ?_, ?_⟩, fun _ => ⟨sA.attrs, sA.n⟩⟩ <;> first | rfl | (simp [live, *]; done)
    · sif' [ha] at e ⊢
      by_cases hs : (b == 47) = true
      · sif' [hs] at e ⊢
        have a3 := readByte_adv ok
        have e3 : EO F u.readByte.1 := e.back (fun h => by
          have g1 := readTag_err u.readByte.1 false h
          have g2 := readUntilCloseAngle_err (u.readByte.1.unread 1) (by simpa using h)
          (repeat' split) <;> simp_all)
        have rb := readByte_sim c e3
        simp only [rb.1.err, rb.2] at e ⊢
        by_cases h3 : u.readByte.1.err = true
        · sif' [h3]; exact finishText_sim _ _ rb.1
        · sif' [h3] at e ⊢
          have hp := readByte_pos h3
          by_cases h4 : (u.readByte.2 == 62) = true
          · sif' [h4]
            have hre := rb.1.err
            ct rb.1
          · sif' [h4] at e ⊢
            by_cases h5 : isAlpha u.readByte.2 = true
            · sif' [h5] at e ⊢
              have er : EO F (readTag u.readByte.1 false) := e.back (fun h => by split <;> simpa using h)
              have r := readTag_sim _ _ false rb.1 a3.ok hp er
              have rA := readTag_simA _ _ false rb.1 a3.ok hp er
              have hre := r.err
              by_cases h6 : (readTag u.readByte.1 false).err = true
              · have h6' : (readTag t.readByte.1 false).err = true := by rw [hre, h6]
                sif' [h6, h6']
                ct r
              · have h6' : ¬ (readTag t.readByte.1 false).err = true := by rw [hre]; exact h6
                sif' [h6, h6']
                refine ⟨⟨Core.congr r ?_ ?_, ?_⟩, fun _ => ⟨rA.attrs, rA.n⟩⟩ <;> first | rfl | (simp [live, *]; done)
            · sif' [h5] at e ⊢
              have r := readUntilCloseAngle_sim _ _ (unread_sim 1 rb.1 hp) (read_unread_adv ok h3).ok e
              ct r
      · sif' [hs] at e ⊢
        by_cases hb : (b == 33) = true
        · sif' [hb] at e ⊢
          have m := readMarkupDeclaration_sim t u c ok h2 e
          have hm2 := m.2
          have hk := (markup_kind u).1
          refine ⟨⟨Core.congr m.1 ?_ ?_, ?_⟩, fun hTL => ?_⟩
          · rfl
          · rfl
          · simp [live, *]
          · exfalso; simp only at hTL; rw [hk] at hTL; cases hTL
        · sif' [hb] at e ⊢
          have oku : Ok (u.unread 1) := by
            unfold unread
            simp only [show 1 ≤ u.rawE by omega, if_true]
            exact ⟨by have := ok.le; simp only; omega, ok.panic, ok.hang, ok.utf8⟩
          have r := readUntilCloseAngle_sim _ _ (unread_sim 1 c (by omega)) oku e
          ct r

theorem mainLoop_sim {F : Prop} {p : Nat} (t u : Tokenizer) (c : Core F p t u) (ok : Ok u)
    (htag : TagOk u.rawTag) (e : EO F (mainLoop u)) : CoreTA F p (mainLoop t) (mainLoop u) := by
  fun_induction mainLoop u generalizing t
  all_goals (try simp +zetaDelta only at *)
  case case1 =>
    have rb := readByte_sim c (by have := e; simp only [EO, finishText_err] at this; exact this)
    conv => arg 3; rw [mainLoop]
    sif' [rb.1.err, rb.2, *]
    exact finishText_sim _ _ rb.1
  case case2 ih =>
    have rb := readByte_sim c (e.back (mainLoop_err _))
    have a1 := readByte_adv ok
    conv => arg 3; rw [mainLoop]
    sif' [rb.1.err, rb.2, *]
    exact ih _ rb.1 a1.ok (by rw [a1.rawTag]; exact htag) e
  case case3 u _ herr1 _ _ herr2 =>
    have e2 : EO F u.readByte.1.readByte.1 := by have := e; simp only [EO, finishText_err] at this; exact this
    have rb := readByte_sim c (e2.back (readByte_err _))
    have rb2 := readByte_sim rb.1 e2
    conv => arg 3; rw [mainLoop]
    sif' [rb.1.err, rb.2, rb2.1.err, rb2.2, *]
    exact finishText_sim _ _ rb2.1
  case case4 ih =>
    have a1 := readByte_adv ok
    have a2 := a1.trans (read_unread_adv a1.ok (by assumption))
    have rb := readByte_sim c (e.back (fun h => mainLoop_err _ (by simpa using readByte_err _ h)))
    have rb2 := readByte_sim rb.1 (e.back (fun h => mainLoop_err _ (by simpa using h)))
    conv => arg 3; rw [mainLoop]
    sif' [rb.1.err, rb.2, rb2.1.err, rb2.2, *]
    exact ih _ (unread_sim 1 rb2.1 (readByte_pos (t := _) (by assumption))) a2.ok (by rw [a2.rawTag]; exact htag) e
  case case5 u _ herr1 _ _ herr2 _ =>
    have a1 := readByte_adv ok
    have a2 := readByte_adv a1.ok
    have rb := readByte_sim c (e.back (fun h => dispatchTag_err _ _ (readByte_err _ h)))
    have rb2 := readByte_sim rb.1 (e.back (dispatchTag_err _ _))
    have s1 := readByte_succ herr2
    have s0 := readByte_succ herr1
    have m1 := a1.mono
    conv => arg 3; rw [mainLoop]
    sif' [rb.1.err, rb.2, rb2.1.err, rb2.2, *]
    exact dispatchTag_sim _ _ _ rb2.1 a2.ok (by omega) (by rw [a2.rawTag, a1.rawTag]; exact htag) e

theorem readRawOrCdata_err (t : Tokenizer) (h : t.err = true) : (readRawOrCdata t).err = true := by
  unfold readRawOrCdata readScript
  have h1 := scriptGo_err .data t h
  have h2 := rawTextGo_err t h
  split <;> simp_all

theorem readRawOrCdata_sim {F : Prop} {p : Nat} (t u : Tokenizer) (c : Core F p t u) (ok : Ok u)
    (htag : TagOk u.rawTag) (e : EO F (readRawOrCdata u)) : Core F p (readRawOrCdata t) (readRawOrCdata u) := by
  unfold readRawOrCdata at e ⊢
  rw [c.rawTag]
  by_cases hs : (u.rawTag == htmlScript) = true
  · sif' [hs] at e ⊢
    have hs' : u.rawTag = htmlScript := by simpa using hs
    unfold readScript at e ⊢
    have g := scriptGo_sim .data t u c ok (by simp [SS.need]) hs' (by
      have := e; simp only [EO] at this ⊢; exact this)
    exact ⟨g.size, g.agree, g.full, g.rawS, g.rawE, g.dataS, g.rawE, g.err, rfl, g.cdata, g.panic, g.hang, g.utf8⟩
  · sif' [hs] at e ⊢
    have g := rawTextGo_sim t u c ok htag (by have := e; simp only [EO] at this ⊢; exact this)
    exact ⟨g.size, g.agree, g.full, g.rawS, g.rawE, g.dataS, g.rawE, g.err, rfl, g.cdata, g.panic, g.hang, g.utf8⟩

theorem nextGo_err (t : Tokenizer) (h : t.err = true) : (nextGo t).err = true := by
  unfold nextGo; simp [h]

theorem nextGo_sim {F : Prop} {p : Nat} (t u : Tokenizer) (c : Core F p t u) (ok : Ok u)
    (htag : TagOk u.rawTag) (e : EO F (nextGo u)) : CoreTA F p (nextGo t) (nextGo u) := by
  unfold nextGo at e ⊢
  simp only at e ⊢
  by_cases h0 : u.err = true
  · have ht0 : t.err = true := by rw [c.err]; exact h0
    rw [if_pos h0, if_pos ht0]
    exact CoreT.toA ⟨c.congr (by lrfl) (by lrfl), rfl⟩ rfl
  · have ht0 : ¬ t.err = true := by rw [c.err]; exact h0
    rw [if_neg h0] at e ⊢
    rw [if_neg ht0]
    -- the continuation: the main loop
    have cont : ∀ t1 u1 : Tokenizer, Core F p t1 u1 → Ok u1 → TagOk u1.rawTag →
        EO F (mainLoop { u1 with textIsRaw := false, convertNull := false }) →
        CoreTA F p (mainLoop { t1 with textIsRaw := false, convertNull := false })
          (mainLoop { u1 with textIsRaw := false, convertNull := false }) := by
      intro t1 u1 c1 ok1 tg1 e1
      exact mainLoop_sim _ _ (c1.congr (by lrfl) (by lrfl)) ⟨ok1.le, ok1.panic, ok1.hang, ok1.utf8⟩ tg1 e1
    by_cases h1 : (u.rawTag != []) = true
    · have ht1 : (t.rawTag != []) = true := by rw [c.rawTag]; exact h1
      rw [if_pos h1] at e ⊢
      rw [if_pos ht1]
      have key : ∀ t1 u1 : Tokenizer, Core F p t1 u1 → Ok u1 → TagOk u1.rawTag →
          EO F (if u1.dataE > u1.dataS then { u1 with token := .text, convertNull := true }
            else mainLoop { u1 with textIsRaw := false, convertNull := false }) →
          CoreTA F p (if t1.dataE > t1.dataS then { t1 with token := .text, convertNull := true }
            else mainLoop { t1 with textIsRaw := false, convertNull := false })
            (if u1.dataE > u1.dataS then { u1 with token := .text, convertNull := true }
            else mainLoop { u1 with textIsRaw := false, convertNull := false }) := by
        intro t1 u1 c1 ok1 tg1 e1
        have hc : (t1.dataE > t1.dataS) ↔ (u1.dataE > u1.dataS) := by rw [c1.dataE, c1.dataS]; omega
        by_cases h : u1.dataE > u1.dataS
        · rw [if_pos h, if_pos (hc.mpr h)]
          exact CoreT.toA ⟨c1.congr (by lrfl) (by lrfl), rfl⟩ rfl
        · have h' : ¬ t1.dataE > t1.dataS := fun x => h (hc.mp x)
          rw [if_neg h] at e1 ⊢
          rw [if_neg h']
          exact cont t1 u1 c1 ok1 tg1 e1
      by_cases h2 : (u.rawTag == htmlPlaintext) = true
      · have ht2 : (t.rawTag == htmlPlaintext) = true := by rw [c.rawTag]; exact h2
        rw [if_pos h2] at e ⊢
        rw [if_pos ht2]
        have a := readToEnd_adv u ok
        have h3 := readToEnd_err u
        -- `plaintext` always reads to EOF: the hypothesis `EO` can only hold because the window is full
        have f : F := by
          rcases e with f | e
          · exact f
          · exfalso
            split at e
            · simp [h3] at e
            · have := mainLoop_err ({ ({ u.readToEnd with dataE := u.readToEnd.rawE, textIsRaw := true } : Tokenizer) with
                textIsRaw := false, convertNull := false }) h3
              rw [this] at e; cases e
        have g := readToEnd_sim t u c (Or.inl f)
        have g' : Core F p { t.readToEnd with dataE := t.readToEnd.rawE, textIsRaw := true }
            { u.readToEnd with dataE := u.readToEnd.rawE, textIsRaw := true } := g.dataE_rawE.congr (by lrfl) (by lrfl)
        exact key _ _ g' ⟨a.ok.le, a.ok.panic, a.ok.hang, a.ok.utf8⟩ (by
          show TagOk u.readToEnd.rawTag; rw [a.rawTag]; exact htag) e
      · have ht2 : ¬ (t.rawTag == htmlPlaintext) = true := by rw [c.rawTag]; exact h2
        rw [if_neg h2] at e ⊢
        rw [if_neg ht2]
        have s := readRawOrCdata_spec u ok htag
        have er : EO F (readRawOrCdata u) := e.back (fun h => by
          split
          · exact h
          · exact mainLoop_err _ h)
        have g := readRawOrCdata_sim t u c ok htag er
        exact key _ _ g s.1.ok (by rw [s.2.1]; exact TagOk_nil) e
    · have ht1 : ¬ (t.rawTag != []) = true := by rw [c.rawTag]; exact h1
      rw [if_neg h1] at e ⊢
      rw [if_neg ht1]
      exact cont t u c ok htag e

/-! ### `next` -/

/-- What `next` needs of two states to behave alike: `u`'s buffer is the window of `t`'s buffer at `p`, the read
positions correspond, and the control fields agree.  (Span fields other than `raw.end` are overwritten by `next`.) -/
structure Pre (F : Prop) (p : Nat) (t u : Tokenizer) : Prop where
  size : p + u.buf.size ≤ t.buf.size
  agree : ∀ i, i < u.buf.size → t.buf[p + i]? = u.buf[i]?
  full : F → p + u.buf.size = t.buf.size
  rawE : t.rawE = p + u.rawE
  err : t.err = u.err
  rawTag : t.rawTag = u.rawTag
  cdata : t.allowCdata = u.allowCdata
  panic : t.panic = u.panic
  hang : t.hang = u.hang
  utf8 : t.utf8Err = u.utf8Err

theorem Core.toPre {F : Prop} {p : Nat} {t u : Tokenizer} (c : Core F p t u) : Pre F p t u :=
  ⟨c.size, c.agree, c.full, c.rawE, c.err, c.rawTag, c.cdata, c.panic, c.hang, c.utf8⟩

/-- **Simulation for `next`**: related states stay related (live fields and token type), provided the window is
full or the call on the window does not hit EOF. -/
theorem next_simA {F : Prop} {p : Nat} (t u : Tokenizer) (c : Pre F p t u) (inv : Inv u) (e : EO F (next u)) :
    CoreTA F p (next t) (next u) := by
  unfold next at e ⊢
  exact nextGo_sim _ _ ⟨c.size, c.agree, c.full, c.rawE, c.rawE, c.rawE, c.rawE, c.err, c.rawTag, c.cdata, c.panic,
    c.hang, c.utf8⟩ ⟨inv.ok.le, inv.ok.panic, inv.ok.hang, inv.ok.utf8⟩ inv.tag e

theorem next_sim {F : Prop} {p : Nat} (t u : Tokenizer) (c : Pre F p t u) (inv : Inv u) (e : EO F (next u)) :
    CoreT F p (next t) (next u) := (next_simA t u c inv e).1

theorem next_err_sticky (t : Tokenizer) (h : t.err = true) : (next t).err = true := nextGo_err _ h

/-- iterated: as long as the window is full or no call on the window has hit EOF -/
theorem nexts_sim {F : Prop} {p : Nat} (n : Nat) (t u : Tokenizer) (c : Pre F p t u) (inv : Inv u)
    (e : EO F (nexts n u)) : Pre F p (nexts n t) (nexts n u) ∧ (0 < n → CoreT F p (nexts n t) (nexts n u)) := by
  induction n with
  | zero => exact ⟨c, fun h => absurd h (Nat.lt_irrefl _)⟩
  | succ n ih =>
    have e' : EO F (nexts n u) := e.back (next_err_sticky _)
    have i := ih e'
    have s := next_sim (nexts n t) (nexts n u) i.1 (nexts_inv n u inv) e
    exact ⟨s.1.toPre, fun _ => s⟩

/-- iterated, with the attribute list of a tag token -/
theorem nexts_simA {F : Prop} {p : Nat} (n : Nat) (t u : Tokenizer) (c : Pre F p t u) (inv : Inv u)
    (e : EO F (nexts n u)) (hn : 0 < n) : CoreTA F p (nexts n t) (nexts n u) := by
  cases n with
  | zero => exact absurd hn (Nat.lt_irrefl _)
  | succ n =>
    have e' : EO F (nexts n u) := e.back (next_err_sticky _)
    have i := nexts_sim n t u c inv e'
    exact next_simA (nexts n t) (nexts n u) i.1 (nexts_inv n u inv) e

/-- the bytes of a span inside the window are the same bytes in the big buffer -/
theorem Pre.extract {F : Prop} {p : Nat} {t u : Tokenizer} (c : Pre F p t u) (a b : Nat) (h1 : a ≤ b)
    (h2 : b ≤ u.buf.size) : (t.buf.extract (p + a) (p + b)).toList = (u.buf.extract a b).toList := by
  have c' : Core F p { t with rawS := p + u.rawS, dataS := p + u.dataS, dataE := p + u.dataE } u :=
    ⟨c.size, c.agree, c.full, rfl, c.rawE, rfl, rfl, c.err, c.rawTag, c.cdata, c.panic, c.hang, c.utf8⟩
  have := c'.extract (b - a) a (by omega)
  rw [show p + a + (b - a) = p + b by omega, show a + (b - a) = b by omega] at this
  exact this

theorem CoreT.rawL {F : Prop} {p : Nat} {t u : Tokenizer} (c : CoreT F p t u) (inv : Inv u) : rawL t = rawL u := by
  unfold Tokenizer.rawL
  rw [c.1.rawS, c.1.rawE]
  exact c.1.toPre.extract _ _ inv.raw inv.ok.le

theorem CoreT.dataL {F : Prop} {p : Nat} {t u : Tokenizer} (c : CoreT F p t u) (inv : Inv u) (sp : Spans u) :
    dataL t = dataL u := by
  unfold Tokenizer.dataL
  rw [c.1.dataS, c.1.dataE]
  exact c.1.toPre.extract _ _ sp.dataLo (Nat.le_trans sp.dataHi inv.ok.le)

/-! ### the two instances -/

/-- the state `u` looking at a longer buffer -/
def extend (u : Tokenizer) (x : Array Nat) : Tokenizer := { u with buf := u.buf ++ x }

theorem pre_extend (u : Tokenizer) (x : Array Nat) : Pre False 0 (extend u x) u :=
  ⟨by simp [extend], by
    intro i hi
    simp only [extend, Nat.zero_add]
    rw [Array.getElem?_append_left hi], fun f => f.elim, by simp [extend], rfl, rfl, rfl, rfl, rfl, rfl⟩

/-- **PREFIX STABILITY**: if the first `n` calls of `next()` on a buffer never hit EOF (`err` still unset after the
`n`-th), then on any extension of the buffer the same `n` calls produce the same tokens: same type, same raw span,
same data span, same `raw_tag` / flags.  The tokenizer never looks at a byte at or beyond the final `raw.end` of a
token other than through a failed `read_byte`, so the look-ahead is exactly zero bytes: the condition is `err = false`,
nothing about the appended bytes. -/
theorem nexts_prefix_stable (n : Nat) (u : Tokenizer) (inv : Inv u) (x : Array Nat)
    (hne : (nexts n u).err = false) (hn : 0 < n) : CoreT False 0 (nexts n (extend u x)) (nexts n u) :=
  (nexts_sim n (extend u x) u (pre_extend u x) inv (Or.inr hne)).2 hn

theorem next_prefix_stable (u : Tokenizer) (inv : Inv u) (x : Array Nat) (hne : (next u).err = false) :
    CoreT False 0 (next (extend u x)) (next u) :=
  next_sim _ _ (pre_extend u x) inv (Or.inr hne)

/-- the fresh tokenizer on the unread remainder of `t` -/
def restartOf (t : Tokenizer) : Tokenizer := Tokenizer.new (t.buf.extract t.rawE t.buf.size)

theorem pre_restart (t : Tokenizer) (inv : Inv t) (herr : t.err = false) (htag : t.rawTag = [])
    (hcd : t.allowCdata = true) : Pre True t.rawE t (restartOf t) := by
  have hle := inv.ok.le
  have hsz : (restartOf t).buf.size = t.buf.size - t.rawE := by simp [restartOf, Tokenizer.new]
  refine ⟨by omega, ?_, fun _ => by omega, rfl, herr, htag, hcd, inv.ok.panic, inv.ok.hang, inv.ok.utf8⟩
  intro i hi
  simp only [restartOf, Tokenizer.new] at hi ⊢
  rw [Array.getElem?_extract]
  have : i < min t.buf.size t.buf.size - t.rawE := by simpa using hi
  simp [this]
  omega

/-- **RESTART**: at a token boundary outside a raw-text context (`raw_tag = ""`, EOF not reached, CDATA allowed as in a
fresh tokenizer) the tokenizer continues exactly like a fresh `Tokenizer::new` on the unread bytes, all positions
shifted by `raw.end`: for every number of further calls, same token type, same raw / data spans (shifted), same `err`,
same `raw_tag`. -/
theorem nexts_restart (n : Nat) (t : Tokenizer) (inv : Inv t) (herr : t.err = false) (htag : t.rawTag = [])
    (hcd : t.allowCdata = true) (hn : 0 < n) : CoreT True t.rawE (nexts n t) (nexts n (restartOf t)) :=
  (nexts_sim n t (restartOf t) (pre_restart t inv herr htag hcd) (by
    exact ⟨Nat.le_refl _, ⟨Nat.zero_le _, rfl, rfl, rfl⟩, TagOk_nil⟩) (Or.inl trivial)).2 hn

/-! ### the attribute list of a tag token is covered too -/

/-- **PREFIX STABILITY, attributes included**: a tag token produced without hitting EOF has, on every extension of the
buffer, the same attribute spans and the same `number_attribute_returned` (so `tag_attr()` returns the same) -/
theorem nexts_prefix_stableA (n : Nat) (u : Tokenizer) (inv : Inv u) (x : Array Nat)
    (hne : (nexts n u).err = false) (hn : 0 < n) : CoreTA False 0 (nexts n (extend u x)) (nexts n u) :=
  nexts_simA n (extend u x) u (pre_extend u x) inv (Or.inr hne) hn

/-- **RESTART, attributes included**: the attribute spans of a tag token after a restart are those of the continued
tokenizer, shifted by the restart position -/
theorem nexts_restartA (n : Nat) (t : Tokenizer) (inv : Inv t) (herr : t.err = false) (htag : t.rawTag = [])
    (hcd : t.allowCdata = true) (hn : 0 < n) : CoreTA True t.rawE (nexts n t) (nexts n (restartOf t)) :=
  nexts_simA n t (restartOf t) (pre_restart t inv herr htag hcd) (by
    exact ⟨Nat.le_refl _, ⟨Nat.zero_le _, rfl, rfl, rfl⟩, TagOk_nil⟩) (Or.inl trivial) hn

/-- a span inside the window is the same slice of the big buffer -/
theorem Pre.slice {F : Prop} {p : Nat} {t u : Tokenizer} (c : Pre F p t u) (a b : Nat) (h1 : a ≤ b)
    (h2 : b ≤ u.buf.size) : t.slice? (p + a) (p + b) = u.slice? a b := by
  unfold slice?
  have hs := c.size
  rw [if_pos ⟨by omega, by omega⟩, if_pos ⟨h1, h2⟩, c.extract a b h1 h2]

/-- **`tag_attr()` on related states**: with corresponding attribute lists (`Sav`, spans inside the window) the accessor
returns the same key / value / has-more, and the lists stay corresponding -/
theorem tagAttr_sim {F : Prop} {p : Nat} {t u : Tokenizer} (c : Pre F p t u) (sv : Sav p t u) (ha : AttrsOk u)
    (htok : t.token = u.token) : (tagAttr t).1 = (tagAttr u).1 ∧ Sav p (tagAttr t).2 (tagAttr u).2 := by
  have hsz : t.attrs.size = u.attrs.size := by rw [sv.attrs]; simp
  unfold tagAttr
  rw [htok, sv.n]
  by_cases h : u.nAttrRet < u.attrs.size
  · have h' : u.nAttrRet < t.attrs.size := by rw [hsz]; exact h
    rw [dif_pos h, dif_pos h']
    by_cases hk : (u.token == .startTag || u.token == .selfClosing) = true
    · rw [if_pos hk, if_pos hk]
      have hel : t.attrs[u.nAttrRet]'h' = AttrSpan.shift p (u.attrs[u.nAttrRet]'h) := by
        have := sv.attrs
        simp only [this, Array.getElem_map]
      have hin := ha (u.attrs[u.nAttrRet]'h) (by simp)
      simp only [hel, AttrSpan.shift]
      rw [c.slice _ _ hin.1 hin.2.1, c.slice _ _ hin.2.2.1 hin.2.2.2]
      have sv' : ∀ (x y : Tokenizer), x.attrs = t.attrs → y.attrs = u.attrs → x.nAttrRet = u.nAttrRet + 1 →
          y.nAttrRet = u.nAttrRet + 1 → Sav p x y := by
        intro x y h1 h2 h3 h4
        exact ⟨by rw [h1, h2]; exact sv.attrs, by rw [h3, h4]⟩
      cases hs1 : u.slice? (u.attrs[u.nAttrRet]'h).ks (u.attrs[u.nAttrRet]'h).ke with
      | none => exact ⟨rfl, sv' _ _ rfl rfl (by simp [sv.n]) rfl⟩
      | some k =>
        simp only
        by_cases hv : (!validUtf8 k) = true
        · rw [if_pos hv, if_pos hv]; exact ⟨rfl, sv' _ _ rfl rfl (by simp [sv.n]) rfl⟩
        · rw [if_neg hv, if_neg hv]
          cases hs2 : u.slice? (u.attrs[u.nAttrRet]'h).vs (u.attrs[u.nAttrRet]'h).ve with
          | none => exact ⟨rfl, sv' _ _ rfl rfl (by simp [sv.n]) rfl⟩
          | some v =>
            simp only
            by_cases hv2 : (!validUtf8 v) = true
            · rw [if_pos hv2, if_pos hv2]; exact ⟨rfl, sv' _ _ rfl rfl (by simp [sv.n]) rfl⟩
            · rw [if_neg hv2, if_neg hv2]
              refine ⟨?_, sv' _ _ rfl rfl (by simp [sv.n]) rfl⟩
              simp only [sv.n, hsz]
    · rw [if_neg hk, if_neg hk]; exact ⟨rfl, sv⟩
  · have h' : ¬ u.nAttrRet < t.attrs.size := by rw [hsz]; exact h
    rw [dif_neg h, dif_neg h']; exact ⟨rfl, sv⟩

end Tokenizer
end Rio.Html
