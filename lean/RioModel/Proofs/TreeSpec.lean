/-
What the tree *contains* and what it *answers*: `contents` after insert / remove / retain in terms of
the flat reference operations, and `find` / `get` / `len` as functions of `contents`.
-/
import RioModel.Proofs.TreeInsert
import RioModel.Proofs.TreeRemove
set_option linter.unusedSimpArgs false
set_option linter.unusedVariables false
set_option linter.unusedSectionVars false

namespace Rio.Tree
open Rio.Scan Rio.Regex

variable {ι V : Type} [DecidableEq ι]

theorem flatMap_congr' {α β : Type} {l : List α} {f g : α → List β} (h : ∀ a ∈ l, f a = g a) :
    l.flatMap f = l.flatMap g := by
  induction l with
  | nil => rfl
  | cons a l ih =>
    simp only [List.flatMap_cons]
    rw [h a (by simp), ih fun b hb => h b (by simp [hb])]

theorem filter_true' {α : Type} (l : List α) : l.filter (fun _ => true) = l := by
  induction l with
  | nil => rfl
  | cons a l ih => simp [ih]

/-- The entry of a leaf with pattern `p`. -/
def mkEntry (p : List Char) (kv : ι × V) : Entry ι V := ⟨p, kv.1, kv.2⟩

theorem contents_leaf' (rx) (vs : List (ι × V)) : (Item.leaf rx vs).contents = vs.map (mkEntry rx.original) := by
  simp [mkEntry]

/-! ### Every pattern below a node extends the node prefix at a scanner boundary -/

theorem contents_shape {ic : Bool} (t : Item ι V) (h : t.inv ic = true) :
    ∀ e ∈ t.contents, (t.isNode = false → e.pat = t.regex) ∧ (t.isNode = true → BPre t.regex e.pat) := by
  induction t using Item.ind with
  | hE ic' => simp
  | hL rx vs =>
    intro e he
    simp only [contents_leaf, List.mem_map] at he
    obtain ⟨kv, _, rfl⟩ := he
    simp [Item.isNode]
  | hN rx cs ih =>
    obtain ⟨_, _, _, _, h5, _, h7⟩ := inv_node_iff.1 h
    intro e he
    simp only [contents_node, mem_contentsL] at he
    obtain ⟨c, hc, hec⟩ := he
    refine ⟨by simp [Item.isNode], fun _ => ?_⟩
    have hb := childOk_bpre (h5 c hc)
    have := ih c hc (h7 c hc) e hec
    cases hn : c.isNode with
    | false => rw [this.1 hn]; exact hb
    | true => exact hb.trans (this.2 hn)

theorem inv_below {ic : Bool} {rx : LazyRegex} {cs : List (Item ι V)} (h : (Item.node rx cs).inv ic = true) :
    ∀ e ∈ contentsL cs, BPre rx.original e.pat := by
  intro e he
  exact (contents_shape _ h e (by simpa using he)).2 rfl

/-- Patterns stored below a child `c` of a node either are `c.regex()` (leaf) or extend it (node). -/
theorem child_pat {ic : Bool} {c : Item ι V} (h : c.inv ic = true) {e : Entry ι V} (he : e ∈ c.contents) :
    (c.isNode = false ∧ e.pat = c.regex) ∨ (c.isNode = true ∧ BPre c.regex e.pat) := by
  have := contents_shape c h e he
  cases hn : c.isNode with
  | false => exact Or.inl ⟨rfl, this.1 hn⟩
  | true => exact Or.inr ⟨rfl, this.2 hn⟩

/-! ### `len`, emptiness -/

theorem len_spec (t : Item ι V) : t.len = t.contents.length := by
  induction t using Item.ind with
  | hE ic => simp [Item.len]
  | hL rx vs => simp [Item.len]
  | hN rx cs ih =>
    simp only [Item.len, contents_node, lenL_eq, contentsL_eq, List.length_flatMap]
    congr 1
    exact List.map_congr_left ih

theorem isEmpty_contents (t : Item ι V) (h : t.isEmpty = true) : t.contents = [] := by
  induction t using Item.ind with
  | hE ic => simp
  | hL rx vs => rw [isEmpty_leaf] at h; simp [List.isEmpty_iff.1 h]
  | hN rx cs ih =>
    rw [isEmpty_node, List.all_eq_true] at h
    simp only [contents_node, contentsL_eq, List.flatMap_eq_nil_iff]
    exact fun c hc => ih c hc (h c hc)

theorem contentsL_keepNonEmpty (c : Item ι V) : contentsL (keepNonEmpty c) = c.contents := by
  unfold keepNonEmpty
  split
  · next h => simp [contentsL, isEmpty_contents c h]
  · simp [contentsL]

theorem contents_collapse1 (rx : LazyRegex) (cs : List (Item ι V)) :
    (collapse1 rx cs).contents = contentsL cs := by
  match cs with
  | [] => simp [collapse1]
  | [c] => simp [collapse1, contentsL]
  | _ :: _ :: _ => simp [collapse1]

/-! ### find -/

/-- The one law of the regex engine the tree relies on (for patterns in the domain `Good`):
a match of the whole pattern is a match of every non-empty boundary prefix of it. -/
def PrefixSound (E : Engine) (Good : List Char → Prop) : Prop :=
  ∀ ic p q s, Good p → q ≠ [] → BPre q p → E.full ic p s = true → E.pre ic q s = true

/-- Running the value built from the current fields of a leaf / node regex. -/
theorem run_leaf_src (E : Engine) (p : List Char) (ic : Bool) (s : List Char) :
    (⟨.leaf p, ic⟩ : Compiled).run E s = E.full ic p s := rfl

theorem run_node_src (E : Engine) (q : List Char) (ic : Bool) (s : List Char) :
    (⟨if q.isEmpty then RxSrc.any else .node q, ic⟩ : Compiled).run E s = (q.isEmpty || E.pre ic q s) := by
  cases h : q.isEmpty <;> simp [Compiled.run, h]

/-- A well-formed leaf regex answers `^original$` whether it runs its stored value (which, by consistency, was built
from the current `regex` and flag) or builds one on the fly. -/
theorem isMatch_leaf (E : Engine) {rx : LazyRegex} (h1 : rx.leafWf = true) (h2 : rx.original ≠ [])
    (s : List Char) : rx.isMatch E s = E.full rx.ic rx.original s := by
  have hne : rx.original.isEmpty = false := by cases h : rx.original <;> simp_all
  obtain ⟨hr, hc⟩ := leafWf_iff.1 h1
  unfold LazyRegex.isMatch
  cases hcomp : rx.compiled with
  | none => simp only [hne, Bool.false_eq_true, if_false]; rw [hr]; rfl
  | some c => rw [consistent_iff.1 hc c hcomp, hr]; rfl

/-- A well-formed node regex answers `^prefix` (everything for the empty prefix), cached or not. -/
theorem isMatch_node (E : Engine) {rx : LazyRegex} (h1 : rx.nodeWf = true) (s : List Char) :
    rx.isMatch E s = (rx.original.isEmpty || E.pre rx.ic rx.original s) := by
  obtain ⟨hr, hc⟩ := nodeWf_iff.1 h1
  unfold LazyRegex.isMatch
  cases hcomp : rx.compiled with
  | none =>
    simp only
    rw [hr, run_node_src]
    cases rx.original.isEmpty <;> simp
  | some c => simp only; rw [consistent_iff.1 hc c hcomp, hr, run_node_src]

theorem find_empty (E : Engine) (ic : Bool) (s : List Char) : (Item.empty ic : Item ι V).find E s = [] := by
  rw [Item.find]
theorem find_leaf (E : Engine) (rx) (vs : List (ι × V)) (s : List Char) :
    (Item.leaf rx vs).find E s = if rx.isMatch E s then vs.map (·.2) else [] := by
  rw [Item.find]
theorem find_node (E : Engine) (rx) (cs : List (Item ι V)) (s : List Char) :
    (Item.node rx cs).find E s = if rx.isMatch E s then findL E cs s else [] := by
  rw [Item.find]

/-- `find` is the linear scan of `contents`, in tree order. -/
theorem find_eq_scan {E : Engine} {Good : List Char → Prop} (hPS : PrefixSound E Good) {ic : Bool}
    (t : Item ι V) (h : t.inv ic = true) (hgood : ∀ e ∈ t.contents, Good e.pat ∧ e.pat ≠ [])
    (s : List Char) :
    t.find E s = (t.contents.filter fun e => E.full ic e.pat s).map (·.val) := by
  induction t using Item.ind with
  | hE ic' => simp [find_empty]
  | hL rx vs =>
    obtain ⟨h1, h2, h3, _⟩ := inv_leaf_iff.1 h
    have hne : rx.original ≠ [] := by
      cases vs with
      | nil => exact absurd rfl h3
      | cons kv _ => exact (hgood ⟨rx.original, kv.1, kv.2⟩ (by simp)).2
    rw [find_leaf, isMatch_leaf E h1 hne, h2, contents_leaf]
    cases hm : E.full ic rx.original s
    · simp [List.filter_map, Function.comp_def, hm]
    · simp [List.filter_map, Function.comp_def, hm, filter_true']
  | hN rx cs ih =>
    obtain ⟨h1, h2, _, _, _, _, h7⟩ := inv_node_iff.1 h
    rw [find_node, isMatch_node E h1, contents_node]
    have hbelow := inv_below h
    cases hm : (rx.original.isEmpty || E.pre rx.ic rx.original s)
    · -- the node prefix does not match: nothing below matches
      simp only [Bool.or_eq_false_iff] at hm
      have hq : rx.original ≠ [] := by intro e; rw [e] at hm; simp at hm
      simp only [Bool.false_eq_true, if_false]
      symm
      rw [List.map_eq_nil_iff, List.filter_eq_nil_iff]
      intro e he hfull
      have hg := hgood e (by simpa using he)
      have := hPS ic e.pat rx.original s hg.1 hq (hbelow e he) hfull
      rw [← h2, hm.2] at this; simp at this
    · simp only [if_true]
      rw [findL_eq, contentsL_eq, List.filter_flatMap, List.map_flatMap]
      apply flatMap_congr'
      intro c hc
      exact ih c hc (h7 c hc) (fun e he => hgood e (by simp [mem_contentsL]; exact ⟨c, hc, he⟩))

/-! ### get -/

theorem get_empty (ic : Bool) (p : List Char) : (Item.empty ic : Item ι V).get p = [] := by rw [Item.get]
theorem get_leaf (rx) (vs : List (ι × V)) (p : List Char) :
    (Item.leaf rx vs).get p = if rx.original = p then vs.map (·.2) else [] := by rw [Item.get]
theorem get_node (rx) (cs : List (Item ι V)) (p : List Char) :
    (Item.node rx cs).get p = if rx.original.isPrefixOf p then getL cs p else [] := by rw [Item.get]

/-- `get(pattern)` returns the values stored under that pattern. -/
theorem get_eq_filter {ic : Bool} (t : Item ι V) (h : t.inv ic = true) (p : List Char) :
    t.get p = (t.contents.filter fun e => decide (e.pat = p)).map (·.val) := by
  induction t using Item.ind with
  | hE ic' => simp [get_empty]
  | hL rx vs =>
    rw [get_leaf, contents_leaf]
    by_cases hp : rx.original = p
    · simp [List.filter_map, Function.comp_def, hp, filter_true']
    · simp [List.filter_map, Function.comp_def, hp]
  | hN rx cs ih =>
    obtain ⟨_, _, _, _, _, _, h7⟩ := inv_node_iff.1 h
    rw [get_node, contents_node]
    have hbelow := inv_below h
    by_cases hpre : rx.original.isPrefixOf p = true
    · simp only [hpre, if_true]
      rw [getL_eq, contentsL_eq, List.filter_flatMap, List.map_flatMap]
      apply flatMap_congr'
      intro c hc
      exact ih c hc (h7 c hc)
    · simp only [hpre, Bool.false_eq_true, if_false]
      symm
      rw [List.map_eq_nil_iff, List.filter_eq_nil_iff]
      intro e he hep
      simp only [decide_eq_true_eq] at hep
      have := (hbelow e he).1
      rw [hep] at this
      exact hpre (List.isPrefixOf_iff_prefix.2 this)

/-! ### Reference operations on lists -/

theorem refInsert_of_no_pat {L : List (Entry ι V)} {p : List Char} (h : ∀ e ∈ L, e.pat ≠ p) (id : ι) (v : V) :
    refInsert L p id v = L ++ [⟨p, id, v⟩] := by
  induction L with
  | nil => simp [refInsert]
  | cons e L ih =>
    have he := h e (by simp)
    simp [refInsert, he, ih fun e' he' => h e' (by simp [he'])]

theorem refInsert_append_of_no_pat {A : List (Entry ι V)} {p : List Char} (h : ∀ e ∈ A, e.pat ≠ p)
    (R : List (Entry ι V)) (id : ι) (v : V) :
    refInsert (A ++ R) p id v = A ++ refInsert R p id v := by
  induction A with
  | nil => simp
  | cons e A ih =>
    have he := h e (by simp)
    simp [refInsert, he, ih fun e' he' => h e' (by simp [he'])]

theorem refInsert_append_perm {B : List (Entry ι V)} {p : List Char} (h : ∀ e ∈ B, e.pat ≠ p)
    (C : List (Entry ι V)) (id : ι) (v : V) :
    (refInsert (C ++ B) p id v).Perm (refInsert C p id v ++ B) := by
  induction C with
  | nil =>
    simp only [List.nil_append, refInsert]
    rw [refInsert_of_no_pat h]
    exact List.perm_append_comm
  | cons e C ih =>
    simp only [List.cons_append, refInsert]
    split
    · simp
    · simpa using ih

theorem map_upsert (p : List Char) (vs : List (ι × V)) (id : ι) (v : V) :
    (upsert vs id v).map (mkEntry p) = refInsert (vs.map (mkEntry p)) p id v := by
  induction vs with
  | nil => simp [upsert, refInsert, mkEntry]
  | cons kv vs ih =>
    obtain ⟨k, w⟩ := kv
    simp only [upsert, List.map_cons, refInsert, mkEntry, true_and]
    split
    · next hk => subst hk; simp [mkEntry]
    · simp only [List.map_cons]; rw [ih]; rfl

/-! ### Routing: the inserted pattern can only be stored below the selected child -/

/-- Under a node with prefix `q`, if child `ci` is the one `Node::insert` selects for `p`, then no other
child `cj` stores an entry with pattern `p`. -/
theorem route_unique {ic : Bool} {q p : List Char} {ci cj : Item ι V}
    (hsib : Sib q.length ci.regex cj.regex)
    (hj : childOk q cj = true) (hinvj : cj.inv ic = true)
    (hsel : q.length < commonPrefixCharSize p ci.regex ∨ ci.regex = p) :
    ∀ e ∈ cj.contents, e.pat ≠ p := by
  intro e he hep
  rcases child_pat hinvj he with ⟨_, hpat⟩ | ⟨hn, hb⟩
  · -- cj is the leaf p
    rw [hep] at hpat
    rcases hsel with hsel | hsel
    · have := hsib.1; rw [← hpat, cpcs_comm] at this; omega
    · exact hsib.2 (by rw [hsel, hpat])
  · -- cj is a node whose prefix is a boundary prefix of p, longer than q
    rw [hep] at hb
    have hlt := childOk_lt hj hn
    rcases hsel with hsel | hsel
    · -- both ci.regex and cj.regex share a boundary prefix of p longer than q
      by_cases hk : commonPrefixCharSize p ci.regex ≤ cj.regex.length
      · -- take k p is a boundary prefix of both
        have hb1 : BPre (ci.regex.take (commonPrefixCharSize p ci.regex)) ci.regex := take_cpcs_bpre p ci.regex
        have hb2 : BPre (ci.regex.take (commonPrefixCharSize p ci.regex)) cj.regex := by
          refine ⟨?_, hb1.2⟩
          rw [← cpcs_take]
          have h1 : p.take (commonPrefixCharSize p ci.regex) <+: p.take cj.regex.length :=
            (List.prefix_take_iff.2 ⟨List.take_prefix _ _, by rw [List.length_take]; omega⟩)
          have h2 : p.take cj.regex.length = cj.regex := by
            obtain ⟨t, ht⟩ := hb.1
            rw [← ht]; simp
          rw [h2] at h1; exact h1
        have := le_cpcs_of_bpre hb1 hb2
        rw [List.length_take, Nat.min_eq_left (cpcs_le_right p ci.regex)] at this
        have := hsib.1
        omega
      · -- cj.regex is a boundary prefix of ci.regex
        have hb2 : BPre cj.regex ci.regex := by
          refine ⟨?_, hb.2⟩
          have h1 : cj.regex <+: p.take (commonPrefixCharSize p ci.regex) := by
            rw [List.prefix_take_iff]; exact ⟨hb.1, by omega⟩
          rw [cpcs_take] at h1
          exact h1.trans (List.take_prefix _ _)
        have := cpcs_eq_of_bpre hb2
        have := hsib.1
        omega
    · rw [← hsel] at hb
      have := cpcs_eq_of_bpre hb
      have := hsib.1
      omega

/-- No child was selected: `p` is stored nowhere below this node. -/
theorem no_pat_of_sel_none {ic : Bool} {q p : List Char} {c : Item ι V}
    (hc : childOk q c = true) (hinv : c.inv ic = true)
    (hnone : commonPrefixCharSize p c.regex ≤ q.length ∧ c.regex ≠ p) :
    ∀ e ∈ c.contents, e.pat ≠ p := by
  intro e he hep
  rcases child_pat hinv he with ⟨_, hpat⟩ | ⟨hn, hb⟩
  · exact hnone.2 (by rw [← hpat, hep])
  · rw [hep] at hb
    have := cpcs_eq_of_bpre hb
    have := childOk_lt hc hn
    omega

/-! ### contents after insert -/

theorem contents_newLeafItem (p : List Char) (id : ι) (v : V) (ic : Bool) :
    (newLeafItem p id v ic).contents = [⟨p, id, v⟩] := by
  simp [newLeafItem, LazyRegex.newLeaf]

/-- Inserting `(p, id, v)`: the value stored under the same (pattern, id) is replaced, otherwise the entry is
added (`refInsert` on the flat list; up to the order of the children). -/
theorem contents_insert {ic : Bool} (t : Item ι V) (p : List Char) (id : ι) (v : V) (h : t.inv ic = true) :
    (t.insert p id v).contents.Perm (refInsert t.contents p id v) := by
  induction t using Item.ind with
  | hE ic' => rw [insert_empty, contents_newLeafItem]; simp [refInsert]
  | hL rx vs =>
    rw [insert_leaf]; unfold leafInsert
    split
    · next hp =>
      rw [contents_leaf', contents_leaf', hp, map_upsert]
    · next hp =>
      rw [contents_node, contents_leaf']
      simp only [contentsL, contents_leaf', List.append_nil, LazyRegex.newLeaf, List.map_cons, List.map_nil,
        mkEntry]
      rw [refInsert_of_no_pat]
      intro e he
      simp only [List.mem_map] at he
      obtain ⟨kv, _, rfl⟩ := he
      exact fun e => hp e.symm
  | hN rx cs ih =>
    obtain ⟨h1, h2, h3, h4, h5, h6, h7⟩ := inv_node_iff.1 h
    have hbelow := inv_below h
    by_cases hsplit : commonPrefixCharSize p rx.original < rx.original.length
    · rw [insert_node_split hsplit]
      simp only [contents_node, contentsL, contents_newLeafItem, List.append_nil]
      rw [refInsert_of_no_pat]
      · exact List.perm_append_comm
      · intro e he hep
        have hb := hbelow e he
        rw [hep] at hb
        have := cpcs_eq_of_bpre hb
        omega
    · have hps : commonPrefixCharSize p rx.original = rx.original.length := by
        have := cpcs_le_right p rx.original; omega
      have hq : BPre rx.original p := ⟨prefix_of_cpcs_eq hps, h3⟩
      cases hs : selLoop p (cs.map Item.regex) 0 rx.original.length none with
      | none =>
        rw [insert_node_none hsplit hs]
        simp only [contents_node, contentsL_append, contentsL, contents_newLeafItem, List.append_nil]
        rw [refInsert_of_no_pat]
        intro e he
        obtain ⟨c, hc, hec⟩ := mem_contentsL.1 he
        have := selLoop_none hs c.regex (List.mem_map_of_mem hc)
        exact no_pat_of_sel_none (h5 c hc) (h7 c hc) this e hec
      | some i =>
        rw [insert_node_some hsplit hs]
        obtain ⟨pre, c, post, hcs, hsel, hat⟩ := insert_node_descend (id := id) (v := v) hq hs
        rw [hat]
        subst hcs
        have hcmem : c ∈ pre ++ c :: post := by simp
        have hih := ih c hcmem (h7 c hcmem)
        have hpw : ((pre ++ c :: post).map Item.regex).Pairwise (Sib rx.original.length) := h6
        rw [List.map_append, List.map_cons, List.pairwise_append, List.pairwise_cons] at hpw
        obtain ⟨_, ⟨hpc, _⟩, hprec⟩ := hpw
        have hA : ∀ e ∈ contentsL pre, e.pat ≠ p := by
          intro e he
          obtain ⟨d, hd, hed⟩ := mem_contentsL.1 he
          have hsib : Sib rx.original.length d.regex c.regex :=
            hprec d.regex (List.mem_map_of_mem hd) c.regex (by simp)
          exact route_unique hsib.symm (h5 d (by simp [hd])) (h7 d (by simp [hd])) hsel e hed
        have hB : ∀ e ∈ contentsL post, e.pat ≠ p := by
          intro e he
          obtain ⟨d, hd, hed⟩ := mem_contentsL.1 he
          have hsib : Sib rx.original.length c.regex d.regex := hpc d.regex (List.mem_map_of_mem hd)
          exact route_unique hsib (h5 d (by simp [hd])) (h7 d (by simp [hd])) hsel e hed
        simp only [contents_node, contentsL_append, contentsL, List.append_nil]
        rw [refInsert_append_of_no_pat hA]
        rw [List.append_assoc]
        apply List.Perm.append_left
        refine List.Perm.trans ?_ (refInsert_append_perm hB c.contents id v).symm
        exact List.perm_append_comm.trans (List.Perm.append_right _ hih)

/-! ### contents after remove / retain (exact, order included) -/

theorem refRemoved_append (A B : List (Entry ι V)) (id : ι) :
    refRemoved (A ++ B) id = (refRemoved A id).or (refRemoved B id) := by
  induction A with
  | nil => simp [refRemoved]
  | cons e A ih =>
    simp only [List.cons_append, refRemoved]
    split <;> simp [ih]

theorem refRemove_append_some {A : List (Entry ι V)} {id : ι} {v : V} (h : refRemoved A id = some v)
    (B : List (Entry ι V)) : refRemove (A ++ B) id = refRemove A id ++ B := by
  induction A with
  | nil => simp [refRemoved] at h
  | cons e A ih =>
    simp only [List.cons_append, refRemove, refRemoved] at h ⊢
    split
    · rfl
    · next hne => simp only [hne, if_false] at h; rw [ih h]; rfl

theorem refRemove_append_none {A : List (Entry ι V)} {id : ι} (h : refRemoved A id = none)
    (B : List (Entry ι V)) : refRemove (A ++ B) id = A ++ refRemove B id := by
  induction A with
  | nil => simp
  | cons e A ih =>
    simp only [List.cons_append, refRemove, refRemoved] at h ⊢
    split
    · next he => simp [he] at h
    · next hne => simp only [hne, if_false] at h; rw [ih h]

theorem refRemove_of_none {A : List (Entry ι V)} {id : ι} (h : refRemoved A id = none) : refRemove A id = A := by
  have := refRemove_append_none h []
  simpa [refRemove] using this

theorem map_eraseKey (p : List Char) (vs : List (ι × V)) (id : ι) :
    (eraseKey vs id).map (mkEntry p) = refRemove (vs.map (mkEntry p)) id ∧
    lookupKey vs id = refRemoved (vs.map (mkEntry p)) id := by
  induction vs with
  | nil => simp [eraseKey, refRemove, lookupKey, refRemoved]
  | cons kv vs ih =>
    obtain ⟨k, w⟩ := kv
    simp only [eraseKey, lookupKey, List.map_cons, refRemove, refRemoved, mkEntry]
    split
    · simp
    · simp only [List.map_cons]; exact ⟨by rw [ih.1]; rfl, ih.2⟩

/-- `remove(id)` drops the first entry (in tree order) stored under `id` and returns its value. -/
theorem contents_remove (t : Item ι V) (id : ι) :
    (t.remove id).1.contents = refRemove t.contents id ∧ (t.remove id).2 = refRemoved t.contents id := by
  induction t using Item.ind with
  | hE ic => rw [remove_empty]; simp [refRemove, refRemoved]
  | hL rx vs =>
    rw [remove_leaf, contents_leaf']
    have hm := map_eraseKey rx.original vs id
    cases hl : lookupKey vs id with
    | none =>
      rw [leafRemove_none hl]
      rw [hl] at hm
      exact ⟨by rw [contents_leaf', refRemove_of_none hm.2.symm], hm.2⟩
    | some v =>
      rw [leafRemove_some hl]
      rw [hl] at hm
      refine ⟨?_, hm.2⟩
      simp only
      split
      · next he => rw [← hm.1, List.isEmpty_iff.1 he]; simp
      · rw [contents_leaf', hm.1]
  | hN rx cs ih =>
    rw [remove_node]
    simp only [contents_collapse1, contents_node]
    have key : ∀ l : List (Item ι V), (∀ c ∈ l, c ∈ cs) →
        contentsL (removeL l id).1 = refRemove (contentsL l) id ∧ (removeL l id).2 = refRemoved (contentsL l) id := by
      intro l
      induction l with
      | nil => intro _; rw [removeL_nil]; simp [contentsL, refRemove, refRemoved]
      | cons c l ihl =>
        intro hsub
        obtain ⟨hc1, hc2⟩ := ih c (hsub c (by simp))
        have hl := ihl fun d hd => hsub d (by simp [hd])
        cases hrc : (c.remove id).2 with
        | some v =>
          rw [removeL_cons_some hrc]
          rw [hrc] at hc2
          simp only [contentsL_append, contentsL_keepNonEmpty, contentsL]
          rw [refRemove_append_some hc2.symm, refRemoved_append, ← hc2, hc1]
          simp
        | none =>
          rw [removeL_cons_none hrc]
          rw [hrc] at hc2
          simp only [contentsL_append, contentsL_keepNonEmpty, contentsL]
          rw [refRemove_append_none hc2.symm, refRemoved_append, ← hc2, hc1, refRemove_of_none hc2.symm, hl.1, hl.2]
          simp
    exact key cs fun _ h => h

theorem retain_contents_leaf (p : List Char) (vs : List (ι × V)) (f : ι → V → Option V) :
    (retainVals f vs).map (mkEntry p) = refRetain (vs.map (mkEntry p)) f := by
  simp only [retainVals, refRetain, List.map_filterMap, List.filterMap_map]
  congr 1
  funext kv
  cases hf : f kv.1 kv.2 <;> simp [mkEntry, Function.comp_def, hf]

/-- `retain(f)` keeps exactly the entries whose (id, value) satisfy `f`. -/
theorem contents_retain (t : Item ι V) (f : ι → V → Option V) :
    (t.retain f).contents = refRetain t.contents f := by
  induction t using Item.ind with
  | hE ic => rw [retain_empty]; simp [refRetain]
  | hL rx vs =>
    rw [retain_leaf, contents_leaf', ← retain_contents_leaf]
    split
    · next he => rw [List.isEmpty_iff.1 he]; simp
    · rw [contents_leaf']
  | hN rx cs ih =>
    rw [retain_node]
    have : contentsL (retainL cs f) = refRetain (contentsL cs) f := by
      rw [retainL_eq, contentsL_eq, contentsL_eq, refRetain, List.filterMap_flatMap, List.flatMap_assoc]
      apply flatMap_congr'
      intro c hc
      have := contentsL_keepNonEmpty (c.retain f)
      rw [contentsL_eq] at this
      rw [this, ih c hc, refRetain]
    split
    · next he => rw [contents_node, ← this, List.isEmpty_iff.1 he]; simp [contentsL]
    · rw [contents_collapse1, contents_node, this]

end Rio.Tree
