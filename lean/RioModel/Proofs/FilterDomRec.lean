/-
C15, byte level: a decidable RECOGNISER of the `Simple` grammar (`SimpleL simpleLaws`, Proofs/FilterDomUniv.lean +
FilterDomLaws.lean) with a soundness proof, so that the driver can count on how many generated documents the universal
theorems (`tokenize_serialize_universal`, `end_to_end_universal`, `compose_universal`) apply:

  `simpleLB_sound   : simpleLB doc = true → SimpleL simpleLaws doc`
  `stepsSimpleB_sound : stepsSimpleB ev doc fs = true → StepsSimple simpleLaws ev doc fs`

The attribute text of a tag is given generatively in the grammar (`∃ as trail, a = attrsOf as ++ trail ∧ …`); the
recogniser parses it greedily (`parseAttrs`): white space, key, `=` + quoted / unquoted value or nothing, repeated.
Soundness only (what the recogniser accepts is in the grammar); it is not claimed to accept all of the grammar.
-/
import RioModel.Proofs.FilterDomLaws
set_option linter.unusedSimpArgs false
set_option linter.unusedVariables false

namespace Rio.Filter
open Rio.Html Rio.Html.Tokenizer Rio.Consts

/-! ### the attribute text -/

theorem all_takeWhile {α : Type} (p : α → Bool) (l : List α) : (l.takeWhile p).all p = true := by
  rw [List.all_eq_true]
  exact fun x hx => mem_takeWhile_true p l x hx

theorem not_contains_takeWhile_ne (c : Nat) (l : Bytes) : (l.takeWhile (· != c)).contains c = false := by
  cases h : (l.takeWhile (· != c)).contains c with
  | false => rfl
  | true =>
    have hm : c ∈ l.takeWhile (· != c) := by simpa using h
    have := mem_takeWhile_true (· != c) l c hm
    simp at this

/-- the value that stands after the `=` (and the white space following the `=`) -/
def parseBody (r : Bytes) : Option (SVal × Bytes) :=
  match r with
  | 34 :: r' =>
    match r'.dropWhile (· != 34) with
    | 34 :: rest => some (.dq (r'.takeWhile (· != 34)), rest)
    | _ => none
  | 39 :: r' =>
    match r'.dropWhile (· != 39) with
    | 39 :: rest => some (.sq (r'.takeWhile (· != 39)), rest)
    | _ => none
  | _ =>
    if (SVal.unq (r.takeWhile unqByte)).ok then some (.unq (r.takeWhile unqByte), r.dropWhile unqByte) else none

theorem parseBody_sound {r : Bytes} {v : SVal} {rest : Bytes} (h : parseBody r = some (v, rest)) :
    r = v.body ++ rest ∧ v.ok = true ∧ v ≠ .none := by
  unfold parseBody at h
  split at h
  · rename_i r'
    split at h
    · rename_i rest' hd
      simp only [Option.some.injEq, Prod.mk.injEq] at h
      obtain ⟨rfl, rfl⟩ := h
      have := List.takeWhile_append_dropWhile (p := (· != 34)) (l := r')
      rw [hd] at this
      refine ⟨?_, by simp only [SVal.ok, not_contains_takeWhile_ne]; rfl, by simp⟩
      simp only [SVal.body, List.cons_append, List.nil_append, List.append_assoc, List.cons.injEq, true_and]
      exact this.symm
    · cases h
  · rename_i r'
    split at h
    · rename_i rest' hd
      simp only [Option.some.injEq, Prod.mk.injEq] at h
      obtain ⟨rfl, rfl⟩ := h
      have := List.takeWhile_append_dropWhile (p := (· != 39)) (l := r')
      rw [hd] at this
      refine ⟨?_, by simp only [SVal.ok, not_contains_takeWhile_ne]; rfl, by simp⟩
      simp only [SVal.body, List.cons_append, List.nil_append, List.append_assoc, List.cons.injEq, true_and]
      exact this.symm
    · cases h
  · split at h
    · rename_i hok
      simp only [Option.some.injEq, Prod.mk.injEq] at h
      obtain ⟨rfl, rfl⟩ := h
      exact ⟨(List.takeWhile_append_dropWhile (p := unqByte) (l := r)).symm, hok, by simp⟩
    · cases h

/-- what follows a key: nothing (bare key; the white space stays for the next attribute), or white space, `=`, white
space, value: (value, ws1, ws2, rest) -/
def parseVal (r : Bytes) : Option (SVal × Bytes × Bytes × Bytes) :=
  match r.dropWhile isWs with
  | 61 :: r2 =>
    match parseBody (r2.dropWhile isWs) with
    | some (v, rest) => some (v, r.takeWhile isWs, r2.takeWhile isWs, rest)
    | none => none
  | _ => some (.none, [], [], r)

theorem parseVal_sound {r : Bytes} {v : SVal} {w1 w2 rest : Bytes} (ws key : Bytes)
    (h : parseVal r = some (v, w1, w2, rest)) :
    r = (SAttr.mk ws key v w1 w2).vtext ++ rest ∧ v.ok = true ∧ (SAttr.mk ws key v w1 w2).wsOK = true := by
  unfold parseVal at h
  split at h
  · rename_i r2 hd
    cases hb : parseBody (r2.dropWhile isWs) with
    | none => rw [hb] at h; cases h
    | some vr =>
      obtain ⟨v', rest'⟩ := vr
      rw [hb] at h
      simp only [Option.some.injEq, Prod.mk.injEq] at h
      obtain ⟨rfl, rfl, rfl, rfl⟩ := h
      obtain ⟨e, ok, hne⟩ := parseBody_sound hb
      have s1 := List.takeWhile_append_dropWhile (p := isWs) (l := r)
      have s2 := List.takeWhile_append_dropWhile (p := isWs) (l := r2)
      refine ⟨?_, ok, ?_⟩
      · rw [SAttr.vtext_some (a := SAttr.mk ws key v' _ _) hne]
        simp only [List.append_assoc]
        rw [← e, s2]
        simp only [List.cons_append, List.nil_append]
        rw [← hd, s1]
      · simp only [SAttr.wsOK, all_takeWhile, Bool.true_and, Bool.or_eq_true, bne_iff_ne, ne_eq]
        exact Or.inl hne
  · simp only [Option.some.injEq, Prod.mk.injEq] at h
    obtain ⟨rfl, rfl, rfl, rfl⟩ := h
    exact ⟨by simp [SAttr.vtext], rfl, by simp [SAttr.wsOK]⟩

/-- (white space, key, value)* + trailing white space; the fuel is the length of the text + 1 -/
def parseAttrsGo : Nat → Bytes → Option (List SAttr × Bytes)
  | 0, _ => none
  | n + 1, a =>
    if (a.dropWhile isWs).isEmpty then some ([], a.takeWhile isWs)
    else if (a.takeWhile isWs).isEmpty then none
    else if ((a.dropWhile isWs).takeWhile keyByte).isEmpty then none
    else
      match parseVal ((a.dropWhile isWs).dropWhile keyByte) with
      | none => none
      | some (v, w1, w2, rest) =>
        match parseAttrsGo n rest with
        | none => none
        | some (as, trail) =>
          some (⟨a.takeWhile isWs, (a.dropWhile isWs).takeWhile keyByte, v, w1, w2⟩ :: as, trail)

def parseAttrs (a : Bytes) : Option (List SAttr × Bytes) := parseAttrsGo (a.length + 1) a

theorem parseAttrsGo_sound : ∀ (n : Nat) (a : Bytes) (as : List SAttr) (trail : Bytes),
    parseAttrsGo n a = some (as, trail) →
    a = attrsOf as ++ trail ∧ (∀ x ∈ as, x.ok = true) ∧ (∀ b ∈ trail, isWs b = true)
  | 0, _, _, _, h => by simp [parseAttrsGo] at h
  | n + 1, a, as, trail, h => by
    unfold parseAttrsGo at h
    have hsplit := List.takeWhile_append_dropWhile (p := isWs) (l := a)
    split at h
    · rename_i he
      simp only [Option.some.injEq, Prod.mk.injEq] at h
      obtain ⟨rfl, rfl⟩ := h
      refine ⟨?_, fun _ hx => (nomatch hx), fun b hb => mem_takeWhile_true isWs a b hb⟩
      rw [List.isEmpty_iff.mp he, List.append_nil] at hsplit
      simp [attrsOf, hsplit]
    · split at h
      · cases h
      · rename_i hws
        split at h
        · cases h
        · rename_i hkey
          have hsplit2 := List.takeWhile_append_dropWhile (p := keyByte) (l := a.dropWhile isWs)
          cases hv : parseVal ((a.dropWhile isWs).dropWhile keyByte) with
          | none => rw [hv] at h; cases h
          | some vr =>
            obtain ⟨v, w1, w2, rest⟩ := vr
            rw [hv] at h
            simp only at h
            cases hr : parseAttrsGo n rest with
            | none => rw [hr] at h; cases h
            | some res =>
              obtain ⟨as', trail'⟩ := res
              rw [hr] at h
              simp only [Option.some.injEq, Prod.mk.injEq] at h
              obtain ⟨rfl, rfl⟩ := h
              obtain ⟨ih1, ih2, ih3⟩ := parseAttrsGo_sound n rest as' trail' hr
              obtain ⟨hv1, hv2, hv3⟩ := parseVal_sound (a.takeWhile isWs) ((a.dropWhile isWs).takeWhile keyByte) hv
              refine ⟨?_, ?_, ih3⟩
              · simp only [attrsOf, SAttr.text, List.append_assoc]
                rw [← ih1, ← hv1, hsplit2, hsplit]
              · intro x hx
                simp only [List.mem_cons] at hx
                rcases hx with rfl | hx
                · simp only [SAttr.ok, Bool.and_eq_true, Bool.not_eq_true']
                  refine ⟨⟨⟨⟨⟨?_, all_takeWhile _ _⟩, ?_⟩, all_takeWhile _ _⟩, hv2⟩, hv3⟩
                  · simpa using hws
                  · simpa using hkey
                · exact ih2 x hx

theorem parseAttrs_sound {a : Bytes} {as : List SAttr} {trail : Bytes} (h : parseAttrs a = some (as, trail)) :
    a = attrsOf as ++ trail ∧ (∀ x ∈ as, x.ok = true) ∧ (∀ b ∈ trail, isWs b = true) :=
  parseAttrsGo_sound _ a as trail h

/-! ### the side conditions of the grammar, decidable -/

def nameOKUB (d : Bytes) : Bool := nameOK2 d && d.all (· < 128)

theorem nameOKUB_sound {d : Bytes} (h : nameOKUB d = true) : NameOKU d := by
  simp only [nameOKUB, Bool.and_eq_true, List.all_eq_true, decide_eq_true_eq] at h
  exact h

def startOKB (d a : Bytes) : Bool :=
  nameOKUB d && !isRawName (lowerName d) && (parseAttrs a).isSome

def selfOKB (d a : Bytes) : Bool :=
  nameOKUB d && !isRawName (lowerName d) &&
    (match parseAttrs a with
     | some (as, trail) => endOK as trail .slashGt
     | none => false)

def rawOKB (d a c : Bytes) : Bool :=
  nameOK d && isRawName (lowerName d) && (lowerName d != Rio.Consts.htmlPlaintext) && (parseAttrs a).isSome &&
    rawOK2 ((lowerName d).headD 0) c

/-- `<!--` body `-->` with `commentOK2 body`, or `<!` + DOCTYPE keyword + text free of `>` + `>`, or `<?` + text free of
`>` + `>` -/
def otherOKB (x : Bytes) : Bool :=
  (decide (7 ≤ x.length) && x.take 4 == [60, 33, 45, 45] && x.drop (x.length - 3) == [45, 45, 62] &&
    commentOK2 ((x.drop 4).take (x.length - 7))) ||
  (decide (3 ≤ x.length) && x.take 2 == [60, 63] && x.drop (x.length - 1) == [62] &&
    ((x.drop 2).take (x.length - 3)).all (· != 62)) ||
  (decide (2 + htmlDoctypePat.length + 1 ≤ x.length) && x.take 2 == [60, 33] && x.drop (x.length - 1) == [62] &&
    doctypeOK ((x.drop 2).take htmlDoctypePat.length)
      ((x.drop (2 + htmlDoctypePat.length)).take (x.length - (2 + htmlDoctypePat.length + 1))))

theorem startOKB_sound {d a : Bytes} (h : startOKB d a = true) : StartOKU d a := by
  simp only [startOKB, Bool.and_eq_true, Bool.not_eq_true'] at h
  obtain ⟨⟨h1, h2⟩, h3⟩ := h
  cases hp : parseAttrs a with
  | none => rw [hp] at h3; cases h3
  | some r =>
    obtain ⟨as, trail⟩ := r
    obtain ⟨e, ok, ws⟩ := parseAttrs_sound hp
    exact ⟨nameOKUB_sound h1, h2, as, trail, e, ok, ws⟩

theorem selfOKB_sound {d a : Bytes} (h : selfOKB d a = true) : SelfOKU d a := by
  simp only [selfOKB, Bool.and_eq_true, Bool.not_eq_true'] at h
  obtain ⟨⟨h1, h2⟩, h3⟩ := h
  cases hp : parseAttrs a with
  | none => rw [hp] at h3; cases h3
  | some r =>
    obtain ⟨as, trail⟩ := r
    rw [hp] at h3
    obtain ⟨e, ok, ws⟩ := parseAttrs_sound hp
    exact ⟨nameOKUB_sound h1, h2, as, trail, e, ok, ws, h3⟩

theorem rawOKB_sound {d a c : Bytes} (h : rawOKB d a c = true) : RawOKU d a c := by
  simp only [rawOKB, Bool.and_eq_true, bne_iff_ne, ne_eq] at h
  obtain ⟨⟨⟨⟨h1, h2⟩, h3⟩, h4⟩, h5⟩ := h
  cases hp : parseAttrs a with
  | none => rw [hp] at h4; cases h4
  | some r =>
    obtain ⟨as, trail⟩ := r
    obtain ⟨e, ok, ws⟩ := parseAttrs_sound hp
    exact ⟨h1, h2, h3, ⟨as, trail, e, ok, ws⟩, h5⟩

theorem take_append_mid_drop (x : Bytes) (i j : Nat) :
    x = x.take i ++ (x.drop i).take j ++ x.drop (i + j) := by
  rw [List.append_assoc, ← List.drop_drop, List.take_append_drop, List.take_append_drop]

theorem otherOKB_sound {x : Bytes} (h : otherOKB x = true) : OtherOKU x := by
  simp only [otherOKB, Bool.or_eq_true, Bool.and_eq_true, decide_eq_true_eq, beq_iff_eq] at h
  rcases h with (⟨⟨⟨hlen, h4⟩, h3⟩, hb⟩ | ⟨⟨⟨hlen, h2⟩, h1⟩, hq⟩) | ⟨⟨⟨hlen, h2⟩, h1⟩, hd⟩
  · refine Or.inl ⟨(x.drop 4).take (x.length - 7), hb, ?_⟩
    have := take_append_mid_drop x 4 (x.length - 7)
    rw [show 4 + (x.length - 7) = x.length - 3 by omega, h4, h3] at this
    exact this
  · refine Or.inr (Or.inr ⟨(x.drop 2).take (x.length - 3), ?_, ?_⟩)
    · intro b hb
      have := List.all_eq_true.mp hq b hb
      simpa using this
    · have := take_append_mid_drop x 2 (x.length - 3)
      rw [show 2 + (x.length - 3) = x.length - 1 by omega, h2, h1] at this
      exact this
  · refine Or.inr <| Or.inl ⟨(x.drop 2).take htmlDoctypePat.length,
      (x.drop (2 + htmlDoctypePat.length)).take (x.length - (2 + htmlDoctypePat.length + 1)), hd, ?_⟩
    have e1 := take_append_mid_drop x 2 htmlDoctypePat.length
    have e2 := take_append_mid_drop (x.drop (2 + htmlDoctypePat.length)) 0
      (x.length - (2 + htmlDoctypePat.length + 1))
    simp only [List.take_zero, List.nil_append, List.drop_zero, Nat.zero_add, List.drop_drop] at e2
    rw [show 2 + htmlDoctypePat.length + (x.length - (2 + htmlDoctypePat.length + 1)) = x.length - 1 by omega, h1] at e2
    rw [e2, h2] at e1
    simpa [List.append_assoc] using e1

/-! ### the grammar -/

mutual
  /-- decidable `SimpleN simpleLaws` -/
  def simpleNB : Node → Bool
    | .verb raw _ => (!raw.isEmpty && textOKB raw) || otherOKB raw
    | .el nm d a knd cs =>
      (nm == lowerName d) &&
      (match knd with
       | .normal => startOKB d a && nameOKUB d && simpleLB cs
       | .void => startOKB d a
       | .selfClosing => selfOKB d a
       | .raw => rawOKB d a (serializeList cs))
  def simpleLB : List Node → Bool
    | [] => true
    | n :: ns =>
      simpleNB n &&
      (match ns with
       | [] => true
       | m :: _ => !(isTextB n && isTextB m)) &&
      simpleLB ns
end

mutual
  theorem simpleNB_sound : ∀ (n : Node), simpleNB n = true → SimpleN simpleLaws n
    | .verb raw m, h => by
      unfold SimpleN
      simp only [simpleNB, Bool.or_eq_true, Bool.and_eq_true, Bool.not_eq_true', List.isEmpty_eq_false_iff] at h
      rcases h with ⟨h1, h2⟩ | h
      · exact Or.inl ⟨h1, h2⟩
      · exact Or.inr (otherOKB_sound h)
    | .el nm d a knd cs, h => by
      unfold SimpleN
      cases knd with
      | normal =>
        simp only [simpleNB, Bool.and_eq_true, beq_iff_eq] at h
        exact ⟨h.1, startOKB_sound h.2.1.1, nameOKUB_sound h.2.1.2, simpleLB_sound cs h.2.2⟩
      | void =>
        simp only [simpleNB, Bool.and_eq_true, beq_iff_eq] at h
        exact ⟨h.1, startOKB_sound h.2⟩
      | selfClosing =>
        simp only [simpleNB, Bool.and_eq_true, beq_iff_eq] at h
        exact ⟨h.1, selfOKB_sound h.2⟩
      | raw =>
        simp only [simpleNB, Bool.and_eq_true, beq_iff_eq] at h
        exact ⟨h.1, rawOKB_sound h.2⟩
  theorem simpleLB_sound : ∀ (ns : List Node), simpleLB ns = true → SimpleL simpleLaws ns
    | [], _ => by unfold SimpleL; trivial
    | [n], h => by
      unfold SimpleL
      simp only [simpleLB, Bool.and_eq_true] at h
      exact ⟨simpleNB_sound n h.1.1, trivial, by unfold SimpleL; trivial⟩
    | n :: m :: rest, h => by
      unfold SimpleL
      simp only [simpleLB, Bool.and_eq_true, Bool.not_eq_true', Bool.and_eq_false_imp] at h
      obtain ⟨⟨hn, hadj⟩, hrest⟩ := h
      refine ⟨simpleNB_sound n hn, ?_, simpleLB_sound (m :: rest) (by simpa [simpleLB, Bool.and_eq_true] using hrest)⟩
      simp only
      intro hh
      have := hadj hh.1
      rw [hh.2] at this
      cases this
end

/-! ### several filters -/

/-- decidable `StepsSimple simpleLaws ev` -/
def stepsSimpleB (ev : Bytes → Bytes → Bool) : List Node → List BodyFilter → Bool
  | _, [] => true
  | d, f :: fs =>
    simpleLB d && decide (utf8Split (serializeList d) = some (serializeList d, [])) && decide (NoHeld d) &&
    inDomainB htmlTokenize vtU d f &&
    (fs.isEmpty || !(serializeList (editD (decOf ev) d f)).isEmpty) &&
    stepsSimpleB ev (editD (decOf ev) d f) fs

theorem stepsSimpleB_sound (ev : Bytes → Bytes → Bool) : ∀ (fs : List BodyFilter) (d : List Node),
    stepsSimpleB ev d fs = true → StepsSimple simpleLaws ev d fs
  | [], _, _ => trivial
  | f :: fs, d, h => by
    unfold stepsSimpleB at h
    simp only [Bool.and_eq_true, Bool.or_eq_true, Bool.not_eq_true', List.isEmpty_eq_false_iff,
      decide_eq_true_eq] at h
    obtain ⟨⟨⟨⟨⟨h1, h2⟩, hh⟩, h3⟩, h4⟩, h5⟩ := h
    refine ⟨simpleLB_sound d h1, h2, hh, inDomainB_sound htmlTokenize vtU h3, ?_, stepsSimpleB_sound ev fs _ h5⟩
    intro hne
    rcases h4 with h4 | h4
    · exact absurd (List.isEmpty_iff.mp h4) hne
    · exact h4

end Rio.Filter
