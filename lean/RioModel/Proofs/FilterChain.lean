/-
The chain glue of `FilterBodyAction` for chains without codec stages: `do_filter` (with its `break`), `do_end`
(feeding order, in-flight data), the two error branches and `in_error`.

Main result `run_comp`: for every chunking, the concatenated output of a plain chain is related to the concatenated
input by the relational composition of the stages' stream relations (`Edit` for html and append/prepend text stages).
This holds whether or not the chain fails; when it fails during a `filter` call the proof needs that the stages that
had already consumed the chunk hold nothing (`OneHtml`: at most one html stage — see the note at `doFilter_err`).
-/
import RioModel.Proofs.FilterHtml
set_option linter.unusedSimpArgs false
set_option linter.unusedVariables false

namespace Rio.Filter

variable {D E : Type}

/-- bytes a stage holds (what its `end()` would give back) -/
def held : Stage D E → Bytes
  | .html s => endHtml s
  | _ => []

/-- what a stage may do to the stream -/
def stageRel : Stage D E → StreamRel
  | .html s => editRel (visIns s.visitor) (visRep s.visitor)
  | .text s => textRel s
  | _ => editRel [] []

def isPlain : Stage D E → Bool
  | .html _ => true
  | .text _ => true
  | _ => false

def isHtml : Stage D E → Bool
  | .html _ => true
  | _ => false

/-- state invariant of a stage: for a replace visitor the tokenizer law `TagSpanS` is available and every buffered
element starts with `<` -/
def StOK (tk : Tokenize) : Stage D E → Prop
  | .html s => s.visitor.kind = .replace → TagSpanS tk ∧ HInv s.stack
  | _ => True

section
variable {tk : Tokenize} (hl : LosslessAll tk) (ev : Bytes → Bytes → Bool) (codec : Codec D E)
include hl

theorem Stage.filter_spec (st st' : Stage D E) (x o : Bytes) (hp : isPlain st = true) (hok : StOK tk st)
    (h : st.filter tk ev codec x = some (st', o)) :
    isPlain st' = true ∧ isHtml st' = isHtml st ∧ StOK tk st' ∧ stageRel st' = stageRel st ∧
    (stageRel st).r (held st ++ x) (o ++ held st') := by
  cases st with
  | html s =>
    simp only [Stage.filter, Option.map_eq_some_iff] at h
    obtain ⟨⟨s', o'⟩, hf, heq⟩ := h
    simp only [Prod.mk.injEq] at heq
    obtain ⟨rfl, rfl⟩ := heq
    obtain ⟨h1, h2, h3⟩ := filterHtml_spec hl ev s s' x o' (fun hk => (hok hk).1) (fun hk => (hok hk).2) hf
    refine ⟨rfl, rfl, ?_, ?_, h3⟩
    · intro hk
      have : s.visitor.kind = .replace := (kind_of_static h1) ▸ hk
      exact ⟨(hok this).1, h2 this⟩
    · simp only [stageRel]
      rw [visIns_of_static h1, visRep_of_static h1]
  | text s =>
    simp only [Stage.filter] at h
    injection h with h
    injection h with h1 h2
    subst h1 h2
    refine ⟨rfl, rfl, trivial, ?_, ?_⟩
    · simp only [stageRel]; exact textRel_filter s x
    · simp only [held, stageRel, List.nil_append, List.append_nil]; exact filterText_rel s x
  | decode d => simp [isPlain] at hp
  | encode e => simp [isPlain] at hp

omit hl in
/-- a failing plain stage is an html stage (and it keeps its state: `doFilter` puts the same stage back) -/
theorem Stage.filter_none (st : Stage D E) (x : Bytes) (hp : isPlain st = true)
    (h : st.filter tk ev codec x = none) : isHtml st = true := by
  cases st with
  | html s => rfl
  | text s => simp [Stage.filter] at h
  | decode d => simp [isPlain] at hp
  | encode e => simp [isPlain] at hp

omit hl in
theorem Stage.end_spec (st st' : Stage D E) (o : Bytes) (hp : isPlain st = true) (hok : StOK tk st)
    (h : st.end codec = some (st', o)) :
    isPlain st' = true ∧ isHtml st' = isHtml st ∧ StOK tk st' ∧ stageRel st' = stageRel st ∧
    (stageRel st).r (held st) o := by
  cases st with
  | html s =>
    simp only [Stage.end] at h
    injection h with h
    injection h with h1 h2
    subst h1 h2
    exact ⟨rfl, rfl, hok, rfl, (stageRel _).refl _⟩
  | text s =>
    simp only [Stage.end] at h
    injection h with h
    injection h with h1 h2
    subst h1 h2
    refine ⟨rfl, rfl, trivial, ?_, ?_⟩
    · simp only [stageRel]; exact textRel_end s
    · simp only [held, stageRel]; exact endText_rel s
  | decode d => simp [isPlain] at hp
  | encode e => simp [isPlain] at hp

omit hl in
theorem Stage.end_some (st : Stage D E) (hp : isPlain st = true) : ∃ r, st.end codec = some r := by
  cases st with
  | html s => exact ⟨_, rfl⟩
  | text s => exact ⟨_, rfl⟩
  | decode d => simp [isPlain] at hp
  | encode e => simp [isPlain] at hp

end

/-! ### the invariant of a running chain -/

/-- `Inv items c e`: `c` = bytes consumed by the first stage so far, `e` = bytes emitted by the last stage so far;
between two stages the stream `m` that has been handed over. -/
def Inv : List (Stage D E) → Bytes → Bytes → Prop
  | [], c, e => c = e
  | st :: rest, c, e => ∃ m, (stageRel st).r c (m ++ held st) ∧ Inv rest m e

/-- what the error branches emit: what the html stages hold, last stage first -/
theorem flushHtml_cons (st : Stage D E) (rest : List (Stage D E)) :
    flushHtml (st :: rest) = flushHtml rest ++ held st := by
  cases st <;> simp [flushHtml, held]

@[simp] theorem flushHtml_nil : flushHtml ([] : List (Stage D E)) = [] := rfl

/-- Emitting what every stage holds (last stage first) and then passing `y` through is conservative. -/
theorem Inv.flush : ∀ (items : List (Stage D E)) (c e y : Bytes), Inv items c e →
    Comp (items.map stageRel) (c ++ y) (e ++ flushHtml items ++ y)
  | [], c, e, y, h => by simp [Inv] at h; simp [Comp, h]
  | st :: rest, c, e, y, h => by
    obtain ⟨m, h1, h2⟩ := h
    refine ⟨m ++ held st ++ y, (stageRel st).appR y h1, ?_⟩
    have := Inv.flush rest m e (held st ++ y) h2
    rw [flushHtml_cons]
    simpa [List.append_assoc] using this

def AllPlain (items : List (Stage D E)) : Prop := ∀ st ∈ items, isPlain st = true
def AllOK (tk : Tokenize) (items : List (Stage D E)) : Prop := ∀ st ∈ items, StOK tk st
def htmlCount (items : List (Stage D E)) : Nat := (items.filter isHtml).length

section
variable {tk : Tokenize} (hl : LosslessAll tk) (ev : Bytes → Bytes → Bool) (codec : Codec D E)
include hl

/-- `do_filter` succeeded: the invariant advances by the chunk and the output -/
theorem doFilter_ok : ∀ (items items' : List (Stage D E)) (x out c e : Bytes),
    AllPlain items → AllOK tk items → Inv items c e →
    doFilter tk ev codec items x = (items', some out) →
    AllPlain items' ∧ AllOK tk items' ∧ items'.map stageRel = items.map stageRel ∧
    items'.map isHtml = items.map isHtml ∧ Inv items' (c ++ x) (e ++ out)
  | [], items', x, out, c, e, _, _, hinv, h => by
    simp [doFilter] at h
    obtain ⟨rfl, rfl⟩ := h
    simp [Inv] at hinv ⊢
    exact ⟨fun _ h => by simp at h, fun _ h => by simp at h, hinv⟩
  | st :: rest, items', x, out, c, e, hp, hok, hinv, h => by
    obtain ⟨m, h1, h2⟩ := hinv
    rw [doFilter] at h
    cases hf : st.filter tk ev codec x with
    | none => simp [hf] at h
    | some r =>
      obtain ⟨st', o⟩ := r
      simp only [hf] at h
      obtain ⟨f1, f2, f3, f4, f5⟩ := Stage.filter_spec hl ev codec st st' x o (hp st (by simp)) (hok st (by simp)) hf
      have hstep : (stageRel st).r (c ++ x) (m ++ o ++ held st') := by
        have a := (stageRel st).appR x h1
        have b := (stageRel st).appL m f5
        have := (stageRel st).trans a (by simpa [List.append_assoc] using b)
        simpa [List.append_assoc] using this
      by_cases hemp : o.isEmpty = true
      · rw [if_pos hemp] at h
        injection h with h1' h2'
        subst h1'
        injection h2' with h2'
        subst h2'
        have ho : o = [] := by simpa using hemp
        subst ho
        refine ⟨?_, ?_, by simp [f4], by simp [f2], ⟨m, by rw [f4]; simpa using hstep, by simpa using h2⟩⟩
        · intro s hs; simp at hs; rcases hs with rfl | hs
          · exact f1
          · exact hp s (by simp [hs])
        · intro s hs; simp at hs; rcases hs with rfl | hs
          · exact f3
          · exact hok s (by simp [hs])
      · rw [if_neg hemp] at h
        cases hr : doFilter tk ev codec rest o with
        | mk rest' r =>
          rw [hr] at h
          simp only at h
          injection h with h1' h2'
          subst h1' h2'
          obtain ⟨i1, i2, i3, i4, i5⟩ := doFilter_ok rest rest' o out m e
            (fun s hs => hp s (by simp [hs])) (fun s hs => hok s (by simp [hs])) h2 hr
          refine ⟨?_, ?_, by simp [f4, i3], by simp [f2, i4], ⟨m ++ o, by rw [f4]; exact hstep, i5⟩⟩
          · intro s hs; simp at hs; rcases hs with rfl | hs
            · exact f1
            · exact i1 s hs
          · intro s hs; simp at hs; rcases hs with rfl | hs
            · exact f3
            · exact i2 s hs

omit hl in
/-- a chain of text stages never fails -/
theorem doFilter_text_ok : ∀ (items : List (Stage D E)) (x : Bytes),
    AllPlain items → htmlCount items = 0 → ∃ r, (doFilter tk ev codec items x).2 = some r
  | [], x, _, _ => ⟨x, rfl⟩
  | st :: rest, x, hp, hc => by
    rw [doFilter]
    cases hf : st.filter tk ev codec x with
    | none =>
      have := Stage.filter_none (tk := tk) ev codec st x (hp st (by simp)) hf
      simp [htmlCount, List.filter, this] at hc
    | some r =>
      obtain ⟨st', o⟩ := r
      simp only
      split
      · exact ⟨o, rfl⟩
      · have hc' : htmlCount rest = 0 := by
          simp [htmlCount, List.filter] at hc ⊢
          split at hc <;> simp_all
        obtain ⟨r, hr⟩ := doFilter_text_ok rest o (fun s hs => hp s (by simp [hs])) hc'
        exact ⟨r, by simpa using hr⟩

/-- `do_filter` failed.  With at most one html stage, the stages that consumed the chunk before the failing stage are
text stages: they hold nothing, so the invariant still describes the chain *before* the chunk.
(With several html stages the same is true of the real code — only the first html stage can meet invalid UTF-8,
the others receive Rust `String`s — but that argument is about UTF-8 validity of the intermediate streams and is
not part of this lemma.) -/
theorem doFilter_err : ∀ (items items' : List (Stage D E)) (x c e : Bytes),
    AllPlain items → AllOK tk items → htmlCount items ≤ 1 → Inv items c e →
    doFilter tk ev codec items x = (items', none) →
    AllPlain items' ∧ items'.map stageRel = items.map stageRel ∧ items'.map isHtml = items.map isHtml ∧ Inv items' c e
  | [], items', x, c, e, _, _, _, _, h => by simp [doFilter] at h
  | st :: rest, items', x, c, e, hp, hok, hc, hinv, h => by
    rw [doFilter] at h
    cases hf : st.filter tk ev codec x with
    | none =>
      simp only [hf] at h
      injection h with h1' _
      subst h1'
      exact ⟨hp, rfl, rfl, hinv⟩
    | some r =>
      obtain ⟨st', o⟩ := r
      simp only [hf] at h
      obtain ⟨f1, f2, f3, f4, f5⟩ := Stage.filter_spec hl ev codec st st' x o (hp st (by simp)) (hok st (by simp)) hf
      by_cases hemp : o.isEmpty = true
      · rw [if_pos hemp] at h
        injection h with _ h2'
        simp at h2'
      · rw [if_neg hemp] at h
        cases hr : doFilter tk ev codec rest o with
        | mk rest' r =>
          rw [hr] at h
          simp only at h
          injection h with h1' h2'
          subst h1' h2'
          -- `st` is not an html stage, otherwise `rest` is a chain of text stages and cannot fail
          have hnh : isHtml st = false := by
            cases hh : isHtml st with
            | false => rfl
            | true =>
              exfalso
              have hc' : htmlCount rest = 0 := by
                simp [htmlCount, List.filter, hh] at hc ⊢
                omega
              obtain ⟨r, hr'⟩ := doFilter_text_ok (tk := tk) ev codec rest o (fun s hs => hp s (by simp [hs])) hc'
              rw [hr] at hr'
              simp at hr'
          have hc' : htmlCount rest ≤ 1 := by
            simp [htmlCount, List.filter, hnh] at hc ⊢
            exact hc
          obtain ⟨m, h1, h2⟩ := hinv
          obtain ⟨i1, i2, i2', i3⟩ := doFilter_err rest rest' o m e
            (fun s hs => hp s (by simp [hs])) (fun s hs => hok s (by simp [hs])) hc' h2 hr
          -- a non-html plain stage holds nothing, before and after
          have hh0 : held st = [] := by
            cases st <;> simp_all [held, isHtml]
          have hh1 : held st' = [] := by
            have : isHtml st' = false := by rw [f2]; exact hnh
            cases st' <;> simp_all [held, isHtml]
          refine ⟨?_, by simp [f4, i2], by simp [f2, i2'], ⟨m, by rw [f4, hh1]; rw [hh0] at h1; exact h1, i3⟩⟩
          intro s hs; simp at hs; rcases hs with rfl | hs
          · exact f1
          · exact i1 s hs

/-- one stage of `do_end`, success: the stage's relation takes what it held plus the in-flight data to its output -/
theorem Stage.endWith_ok (st st' : Stage D E) (d : Option Bytes) (nd : Bytes) (hp : isPlain st = true) (hok : StOK tk st)
    (h : st.endWith tk ev codec d = (st', some nd)) :
    (stageRel st).r (held st ++ d.getD []) nd := by
  cases d with
  | none =>
    simp only [Stage.endWith] at h
    cases he : st.end codec with
    | none => simp [he] at h
    | some r =>
      obtain ⟨st1, o⟩ := r
      simp only [he] at h
      injection h with h1 h2
      injection h2 with h2
      subst h1 h2
      have := (Stage.end_spec (tk := tk) codec st st1 o hp hok he).2.2.2.2
      simpa using this
  | some str =>
    simp only [Stage.endWith] at h
    cases hf : st.filter tk ev codec str with
    | none => simp [hf] at h
    | some r =>
      obtain ⟨st1, o1⟩ := r
      simp only [hf] at h
      obtain ⟨f1, f2, f3, f4, f5⟩ := Stage.filter_spec hl ev codec st st1 str o1 hp hok hf
      cases he : st1.end codec with
      | none => simp [he] at h
      | some r =>
        obtain ⟨st2, o2⟩ := r
        simp only [he] at h
        injection h with h1 h2
        injection h2 with h2
        subst h1 h2
        have e5 := (Stage.end_spec (tk := tk) codec st1 st2 o2 f1 f3 he).2.2.2.2
        rw [f4] at e5
        have := (stageRel st).trans f5 ((stageRel st).appL o1 e5)
        simpa using this

omit hl in
/-- one stage of `do_end`, failure: only the `filter` of an html stage can fail, and it keeps its state -/
theorem Stage.endWith_err (st st' : Stage D E) (d : Option Bytes) (hp : isPlain st = true)
    (h : st.endWith tk ev codec d = (st', none)) : st' = st := by
  cases d with
  | none =>
    simp only [Stage.endWith] at h
    obtain ⟨r, hr⟩ := Stage.end_some codec st hp
    simp [hr] at h
  | some str =>
    simp only [Stage.endWith] at h
    cases hf : st.filter tk ev codec str with
    | none => simp only [hf] at h; injection h with h1 _; exact h1.symm
    | some r =>
      obtain ⟨st1, o1⟩ := r
      simp only [hf] at h
      have hp1 : isPlain st1 = true := by
        cases st with
        | html s =>
          simp only [Stage.filter, Option.map_eq_some_iff] at hf
          obtain ⟨a, _, ha⟩ := hf
          injection ha with ha _
          subst ha; rfl
        | text s =>
          simp only [Stage.filter] at hf
          injection hf with hf
          injection hf with ha _
          subst ha; rfl
        | decode d => simp [isPlain] at hp
        | encode e => simp [isPlain] at hp
      obtain ⟨r, hr⟩ := Stage.end_some codec st1 hp1
      simp [hr] at h

/-- `do_end`, success or failure: what comes out (the end output, or the pass-through of the error branch) is related
to everything that went in by the composition of the stage relations -/
theorem doEnd_comp : ∀ (items items' : List (Stage D E)) (d : Option Bytes) (c e : Bytes)
    (res : Except Bytes (Option Bytes)),
    AllPlain items → AllOK tk items → Inv items c e →
    doEnd tk ev codec items d = (items', res) →
    Comp (items.map stageRel) (c ++ d.getD [])
      (e ++ match res with | .ok r => r.getD [] | .error p => p)
  | [], items', d, c, e, res, _, _, hinv, h => by
    simp [doEnd] at h
    obtain ⟨_, rfl⟩ := h
    simp [Inv] at hinv
    simp [Comp, hinv]
  | st :: rest, items', d, c, e, res, hp, hok, hinv, h => by
    rw [doEnd] at h
    cases hw : st.endWith tk ev codec d with
    | mk st' r =>
      cases r with
      | none =>
        simp only [hw] at h
        injection h with h1 h2
        subst h1 h2
        have hst : st' = st := Stage.endWith_err ev codec st st' d (hp st (by simp)) hw
        subst hst
        have := Inv.flush (st' :: rest) c e (d.getD []) hinv
        simpa [List.append_assoc] using this
      | some nd =>
        simp only [hw] at h
        obtain ⟨m, h1, h2⟩ := hinv
        have hrel := Stage.endWith_ok hl ev codec st st' d nd (hp st (by simp)) (hok st (by simp)) hw
        cases hr : doEnd tk ev codec rest (if nd.isEmpty = true then none else some nd) with
        | mk rest' r =>
          rw [hr] at h
          simp only at h
          injection h with h1' h2'
          subst h1' h2'
          have hnd : (if nd.isEmpty = true then none else some nd : Option Bytes).getD [] = nd := by
            by_cases hemp : nd.isEmpty = true
            · have : nd = [] := by simpa using hemp
              simp [this]
            · simp [hemp]
          have ih := doEnd_comp rest rest' _ m e r (fun s hs => hp s (by simp [hs])) (fun s hs => hok s (by simp [hs])) h2 hr
          rw [hnd] at ih
          refine ⟨m ++ nd, ?_, ih⟩
          have a := (stageRel st).appR (d.getD []) h1
          have b := (stageRel st).appL m hrel
          exact (stageRel st).trans a (by simpa [List.append_assoc] using b)

end

/-! ### the chain -/

theorem htmlCount_eq_of_map {a b : List (Stage D E)} (h : a.map isHtml = b.map isHtml) : htmlCount a = htmlCount b := by
  have key : ∀ l : List (Stage D E), htmlCount l = ((l.map isHtml).filter id).length := by
    intro l
    induction l with
    | nil => rfl
    | cons x xs ih =>
      simp only [htmlCount, List.filter, List.map] at ih ⊢
      cases isHtml x <;> simp [ih]
  rw [key, key, h]

/-- A predicate `ES` on the stages that makes a failure inside `do_filter` harmless: it is kept by a successful call,
and when a call fails the invariant still describes the chain before the chunk (the stages that had already consumed
the chunk hold nothing). -/
structure ErrSafe (tk : Tokenize) (ev : Bytes → Bytes → Bool) (codec : Codec D E) (ES : List (Stage D E) → Prop) : Prop where
  ok : ∀ (items items' : List (Stage D E)) (x out : Bytes), AllPlain items → AllOK tk items → ES items →
    doFilter tk ev codec items x = (items', some out) → ES items'
  err : ∀ (items items' : List (Stage D E)) (x c e : Bytes), AllPlain items → AllOK tk items → ES items → Inv items c e →
    doFilter tk ev codec items x = (items', none) →
    AllPlain items' ∧ items'.map stageRel = items.map stageRel ∧ Inv items' c e

/-- invariant of a running chain w.r.t. the input consumed `c` and the output emitted `e` so far -/
structure CI (tk : Tokenize) (ES : List (Stage D E) → Prop) (rels : List StreamRel) (ch : Chain D E) (c e : Bytes) : Prop where
  plain : AllPlain ch.items
  ok : ch.inError = false → AllOK tk ch.items
  one : ch.inError = false → ES ch.items
  relsEq : ch.inError = false → ch.items.map stageRel = rels
  inv : if ch.inError then ∀ y, Comp rels (c ++ y) (e ++ y) else Inv ch.items c e

section
variable {tk : Tokenize} (hl : LosslessAll tk) (ev : Bytes → Bytes → Bool) (codec : Codec D E)
include hl

/-- `do_filter` never changes the kinds of the stages -/
theorem doFilter_kinds : ∀ (items items' : List (Stage D E)) (x : Bytes) (r : Option Bytes),
    AllPlain items → AllOK tk items → doFilter tk ev codec items x = (items', r) →
    items'.map isHtml = items.map isHtml
  | [], items', x, r, _, _, h => by
    simp [doFilter] at h
    rw [← h.1]
  | st :: rest, items', x, r, hp, hok, h => by
    rw [doFilter] at h
    cases hf : st.filter tk ev codec x with
    | none =>
      simp only [hf] at h
      injection h with h1 _
      rw [← h1]
    | some q =>
      obtain ⟨st', o⟩ := q
      simp only [hf] at h
      obtain ⟨_, f2, _, _, _⟩ := Stage.filter_spec hl ev codec st st' x o (hp st (by simp)) (hok st (by simp)) hf
      by_cases hemp : o.isEmpty = true
      · rw [if_pos hemp] at h
        injection h with h1 _
        rw [← h1]
        simp [f2]
      · rw [if_neg hemp] at h
        cases hr : doFilter tk ev codec rest o with
        | mk rest' r' =>
          rw [hr] at h
          simp only at h
          injection h with h1 _
          rw [← h1]
          have := doFilter_kinds rest rest' o r' (fun s hs => hp s (by simp [hs])) (fun s hs => hok s (by simp [hs])) hr
          simp [f2, this]

/-- at most one html stage is such a predicate -/
theorem errSafe_one : ErrSafe tk ev codec (fun items : List (Stage D E) => htmlCount items ≤ 1) := by
  constructor
  · intro items items' x out hp hok hes hd
    rw [htmlCount_eq_of_map (doFilter_kinds hl ev codec items items' x (some out) hp hok hd)]; exact hes
  · intro items items' x c e hp hok hes hinv hd
    obtain ⟨a1, a2, _, a3⟩ := doFilter_err hl ev codec items items' x c e hp hok hes hinv hd
    exact ⟨a1, a2, a3⟩

theorem Chain.filter_CI {ES : List (Stage D E) → Prop} (hes : ErrSafe tk ev codec ES) (rels : List StreamRel)
    (ch : Chain D E) (c e x : Bytes) (h : CI tk ES rels ch c e) :
    CI tk ES rels (ch.filter tk ev codec x).1 (c ++ x) (e ++ (ch.filter tk ev codec x).2) := by
  unfold Chain.filter
  cases herr : ch.inError with
  | true =>
    simp only [if_true]
    refine ⟨h.plain, fun h' => by simp [herr] at h', fun h' => by simp [herr] at h', fun h' => by simp [herr] at h', ?_⟩
    have := h.inv
    simp only [herr, if_true] at this ⊢
    intro y
    have := this (x ++ y)
    simpa [List.append_assoc] using this
  | false =>
    simp only [Bool.false_eq_true, if_false]
    have hinv := h.inv
    simp only [herr, Bool.false_eq_true, if_false] at hinv
    cases hd : doFilter tk ev codec ch.items x with
    | mk items' r =>
      cases r with
      | some out =>
        simp only
        obtain ⟨a1, a2, a3, a4, a5⟩ := doFilter_ok hl ev codec ch.items items' x out c e h.plain (h.ok herr) hinv hd
        refine ⟨a1, fun _ => a2, fun _ => hes.ok _ _ _ _ h.plain (h.ok herr) (h.one herr) hd, fun _ => by rw [a3]; exact h.relsEq herr, ?_⟩
        simp only [herr, Bool.false_eq_true, if_false]
        exact a5
      | none =>
        simp only
        obtain ⟨a1, a2, a3⟩ := hes.err ch.items items' x c e h.plain (h.ok herr) (h.one herr) hinv hd
        refine ⟨a1, fun h' => by simp at h', fun h' => by simp at h', fun h' => by simp at h', ?_⟩
        · simp only [if_true]
          intro y
          have := Inv.flush items' c e (x ++ y) a3
          rw [a2, h.relsEq herr] at this
          simpa [List.append_assoc] using this

theorem Chain.feed_CI {ES : List (Stage D E) → Prop} (hes : ErrSafe tk ev codec ES) (rels : List StreamRel) :
    ∀ (xs : List Bytes) (ch : Chain D E) (c e : Bytes), CI tk ES rels ch c e →
    CI tk ES rels (ch.feed tk ev codec xs).1 (c ++ xs.flatten) (e ++ (ch.feed tk ev codec xs).2.flatten)
  | [], ch, c, e, h => by simpa [Chain.feed] using h
  | x :: xs, ch, c, e, h => by
    have h1 := Chain.filter_CI hl ev codec hes rels ch c e x h
    have h2 := Chain.feed_CI hes rels xs _ _ _ h1
    simp only [Chain.feed, List.flatten_cons]
    simpa [List.append_assoc] using h2

theorem Chain.end_comp {ES : List (Stage D E) → Prop} (rels : List StreamRel) (ch : Chain D E) (c e : Bytes) (h : CI tk ES rels ch c e) :
    Comp rels c (e ++ (ch.end tk ev codec).2) := by
  unfold Chain.end
  cases herr : ch.inError with
  | true =>
    have := h.inv
    simp only [herr, if_true] at this ⊢
    simpa using this []
  | false =>
    have hinv := h.inv
    simp only [herr, Bool.false_eq_true, if_false] at hinv ⊢
    cases hd : doEnd tk ev codec ch.items none with
    | mk items' res =>
      have := doEnd_comp hl ev codec ch.items items' none c e res h.plain (h.ok herr) hinv hd
      rw [h.relsEq herr] at this
      cases res with
      | ok r => simpa using this
      | error p => simpa using this

/-- For every chunking, the concatenated output of the chain (outputs of the `filter` calls, then `end`) is related to
the concatenated input by the composition of the stage relations. -/
theorem Chain.run_comp {ES : List (Stage D E) → Prop} (hes : ErrSafe tk ev codec ES) (rels : List StreamRel)
    (ch : Chain D E) (h : CI tk ES rels ch [] []) (cs : List Bytes) :
    Comp rels cs.flatten (ch.run tk ev codec cs) := by
  have h1 := Chain.feed_CI hl ev codec hes rels cs ch [] [] h
  have h2 := Chain.end_comp hl ev codec rels _ _ _ h1
  simpa [Chain.run, Chain.runOuts] using h2

end

theorem Inv_init : ∀ (items : List (Stage D E)), (∀ st ∈ items, held st = []) → Inv items [] []
  | [], _ => rfl
  | st :: rest, hheld => by
    refine ⟨[], ?_, Inv_init rest fun s hs => hheld s (by simp [hs])⟩
    rw [hheld st (by simp)]; exact (stageRel st).refl _

/-- a freshly built plain chain satisfies the invariant -/
theorem CI_init (tk : Tokenize) (ES : List (Stage D E) → Prop) (items : List (Stage D E)) (hp : AllPlain items)
    (hok : AllOK tk items) (hone : ES items) (hheld : ∀ st ∈ items, held st = []) :
    CI tk ES (items.map stageRel) { items := items } [] [] := by
  refine ⟨hp, fun _ => hok, fun _ => hone, fun _ => rfl, ?_⟩
  simp only [Bool.false_eq_true, if_false]
  exact Inv_init items hheld

end Rio.Filter
