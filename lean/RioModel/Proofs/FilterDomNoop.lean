/-
C15, token level (W13): a filter one of whose path names stands NOWHERE in the document is the identity — for every state
the path-following machine can reach, not only the initial one.

`absent_path_noop` (Props/C15.lean) needs ALL path names absent.  Here ONE absent name `a` suffices: the machine may
follow the path down to the element before `a`, waits there for a start tag named `a` that never comes, and climbs back
on the end tags; `leave` of prepend / replace without buffering returns the data unchanged; `leave` of append inserts
the content only at the LAST path position, which is never reached when `a` stands before the last position
(`zone .append path = path.dropLast`; with `a` = the last element, append_child DOES insert: observation O7).

  `NoopInv a s`     invariant of the machine states: nothing buffered, `a` is not among the path elements already passed,
                    `a` is in the zone of the rest of the path, `enter` = the current or the next path element
  `fold_noop`       the fold over tokens none of whose tags is named `a` copies them and keeps the invariant
  `editListD_absent` the reference edit is the identity on such a document
  `NoOp vt doc f`, `noOpB` (+ soundness), `fold_noOp` (same shape as `fold_inDomain`), `StepsOK3`, `chained_of_steps3`
-/
import RioModel.Proofs.FilterDom
set_option linter.unusedSimpArgs false
set_option linter.unusedVariables false

namespace Rio.Filter

/-- the part of the (rest of the) path in which the absent name must stand: anywhere — for append_child: before the last
element -/
def zone (k : VKind) (l : List Bytes) : List Bytes :=
  match k with
  | .append => l.dropLast
  | _ => l

theorem zone_sub {k : VKind} {l : List Bytes} {a : Bytes} (h : a ∈ zone k l) : a ∈ l := by
  cases k
  · exact List.dropLast_subset _ h
  · exact h
  · exact h

theorem zone_tail {k : VKind} {c x a : Bytes} {rest : List Bytes} (h : a ∈ zone k (c :: x :: rest)) (hc : c ≠ a) :
    a ∈ zone k (x :: rest) := by
  cases k
  · simp only [zone, List.dropLast_cons_cons, List.mem_cons] at h ⊢
    rcases h with h | h
    · exact absurd h.symm hc
    · simpa [zone] using h
  · simp only [zone, List.mem_cons] at h ⊢
    rcases h with h | h
    · exact absurd h.symm hc
    · exact h
  · simp only [zone, List.mem_cons] at h ⊢
    rcases h with h | h
    · exact absurd h.symm hc
    · exact h

theorem zone_cons {k : VKind} {b c a : Bytes} {l : List Bytes} (h : a ∈ zone k (c :: l)) : a ∈ zone k (b :: c :: l) := by
  cases k
  · simp only [zone, List.dropLast_cons_cons] at h ⊢
    exact List.mem_cons_of_mem _ h
  · exact List.mem_cons_of_mem _ h
  · exact List.mem_cons_of_mem _ h

theorem zone_after_ne {k : VKind} {c a : Bytes} {l : List Bytes} (h : a ∈ zone k (c :: l)) (hc : c ≠ a) : l ≠ [] := by
  intro e
  subst e
  have := zone_sub h
  simp at this
  exact hc this.symm

theorem zone_append_after {c a : Bytes} {l : List Bytes} (h : a ∈ zone .append (c :: l)) : l ≠ [] := by
  intro e
  subst e
  simp [zone] at h

section
variable (tk : Tokenize) (ev : Bytes → Bytes → Bool)

/-- the machine states reachable on a document in which no tag is named `a` -/
structure NoopInv (a : Bytes) (s : HtmlSt) : Prop where
  stack : s.stack = []
  buf : s.visitor.isBuffering = false
  before : a ∉ s.visitor.before
  zone : a ∈ zone s.visitor.kind (s.visitor.cur :: s.visitor.after)
  enter : s.enter = some s.visitor.cur ∨
    (s.visitor.cur ≠ a ∧ ∃ x rest, s.visitor.after = x :: rest ∧ s.enter = some x)
  last : s.last = []

theorem enter_advance (v : Visitor) (data : Bytes) {x : Bytes} {rest : List Bytes} (h : v.after = x :: rest) :
    v.enter data = ((some x, some v.cur, false, data),
      { v with before := v.cur :: v.before, cur := x, after := rest }) := by
  simp [Visitor.enter, Visitor.advance, h]

theorem onStart_noop {a : Bytes} {s : HtmlSt} (hs : NoopInv a s) {name : Bytes} (hn : name ≠ a) (data : Bytes) :
    ∃ s', onStart s name data = (s', data) ∧ NoopInv a s' := by
  rw [onStart_eq]
  by_cases he : s.enter = some name
  · -- the current path element cannot be `a`, so a further path element exists: `enter` only advances
    have hcur : s.visitor.cur ≠ a := by
      rcases hs.enter with h | ⟨h, _⟩
      · rw [h] at he
        simp only [Option.some.injEq] at he
        rw [he]; exact hn
      · exact h
    have hne : s.visitor.after ≠ [] := zone_after_ne hs.zone hcur
    obtain ⟨x, rest, hafter⟩ : ∃ x rest, s.visitor.after = x :: rest := by
      cases h : s.visitor.after with
      | nil => exact absurd h hne
      | cons x rest => exact ⟨x, rest, rfl⟩
    rw [if_pos he]
    simp only [enter_advance s.visitor data hafter, Bool.false_eq_true, if_false]
    refine ⟨_, rfl, ⟨hs.stack, hs.buf, ?_, ?_, Or.inl rfl, hs.last⟩⟩
    · simp only [List.mem_cons, not_or]
      exact ⟨fun e => hcur e.symm, hs.before⟩
    · have := hs.zone
      rw [hafter] at this
      exact zone_tail this hcur
  · rw [if_neg he]
    exact ⟨s, rfl, hs⟩

theorem leave_noop {a : Bytes} (v : Visitor) (hbuf : v.isBuffering = false)
    (hz : a ∈ zone v.kind (v.cur :: v.after)) (data : Bytes) :
    v.leave tk ev data = ((some v.cur, (v.leaveMove true).1, data), (v.leaveMove true).2) := by
  unfold Visitor.leave
  cases hk : v.kind with
  | append =>
    rw [hk] at hz
    have : v.after ≠ [] := zone_append_after hz
    simp [this]
  | prepend => simp [hbuf]
  | replace => simp [hbuf]

theorem onEnd_noop {a : Bytes} {s : HtmlSt} (hs : NoopInv a s) (name data : Bytes) :
    ∃ s', onEnd tk ev s name data = (s', data) ∧ NoopInv a s' := by
  rw [onEnd_eq]
  have htm : topMatches s.stack name = false := by rw [hs.stack]; rfl
  simp only [htm, Bool.false_eq_true, if_false]
  by_cases hl : s.leave = some name
  · simp only [hl, if_true, leave_noop tk ev s.visitor hs.buf hs.zone data]
    cases hb : s.visitor.before with
    | nil =>
      have hm : s.visitor.leaveMove true = (none, s.visitor) := by simp [Visitor.leaveMove, hb]
      rw [hm]
      exact ⟨_, rfl, ⟨hs.stack, hs.buf, hs.before, hs.zone, Or.inl rfl, hs.last⟩⟩
    | cons b bs =>
      have hm : s.visitor.leaveMove true =
          (some b, { s.visitor with before := bs, cur := b, after := s.visitor.cur :: s.visitor.after }) := by
        simp [Visitor.leaveMove, Visitor.retreat, hb]
      rw [hm]
      have hbef := hs.before
      rw [hb] at hbef
      simp only [List.mem_cons, not_or] at hbef
      refine ⟨_, rfl, ⟨hs.stack, hs.buf, hbef.2, zone_cons hs.zone, Or.inr ⟨fun e => hbef.1 e.symm, _, _, rfl, rfl⟩, hs.last⟩⟩
  · simp only [hl, if_false]
    exact ⟨s, rfl, hs⟩

/-- **one token whose tag (if it is one) is not named `a`: copied, invariant kept** -/
theorem stepTok_noop {a : Bytes} {s : HtmlSt} (hs : NoopInv a s) {t : Tok} (ht : NeutralTok [a] t) (out : Bytes) :
    ∃ s', stepTok tk ev (s, out) t = (s', out ++ t.raw) ∧ NoopInv a s' := by
  by_cases hk : isTagKind t.kind = true
  · have hn : t.name ≠ a := by
      have := ht hk
      simpa using this
    cases hkind : t.kind with
    | startTag =>
      rw [stepTok_start tk ev s out t hkind]
      obtain ⟨s1, h1, i1⟩ := onStart_noop hs hn t.raw
      rw [h1]
      by_cases hv : isVoid t.name = true
      · obtain ⟨s2, h2, i2⟩ := onEnd_noop tk ev i1 t.name t.raw
        simp only [hv, if_true, h2]
        exact ⟨s2, push_empty_stack i2.stack _ _, i2⟩
      · simp only [hv, Bool.false_eq_true, if_false]
        exact ⟨s1, push_empty_stack i1.stack _ _, i1⟩
    | endTag =>
      rw [stepTok_end tk ev s out t hkind]
      obtain ⟨s1, h1, i1⟩ := onEnd_noop tk ev hs t.name t.raw
      rw [h1]
      exact ⟨s1, push_empty_stack i1.stack _ _, i1⟩
    | selfClosing =>
      rw [stepTok_self tk ev s out t hkind]
      obtain ⟨s1, h1, i1⟩ := onStart_noop hs hn t.raw
      rw [h1]
      obtain ⟨s2, h2, i2⟩ := onEnd_noop tk ev i1 t.name t.raw
      simp only [h2]
      exact ⟨s2, push_empty_stack i2.stack _ _, i2⟩
    | text => rw [hkind] at hk; simp [isTagKind] at hk
    | other => rw [hkind] at hk; simp [isTagKind] at hk
  · have hk' : isTagKind t.kind = false := by simpa using hk
    rw [stepTok_other tk ev s out t hk']
    exact ⟨s, push_empty_stack hs.stack _ _, hs⟩

/-- **the fold over tokens none of whose tags is named `a` copies them** -/
theorem fold_noop {a : Bytes} : ∀ (toks : List Tok), (∀ t ∈ toks, NeutralTok [a] t) →
    ∀ (s : HtmlSt) (out : Bytes), NoopInv a s →
      ∃ s', toks.foldl (stepTok tk ev) (s, out) = (s', out ++ rawsOf toks) ∧ NoopInv a s'
  | [], _, s, out, hs => ⟨s, by simp [rawsOf], hs⟩
  | t :: ts, hn, s, out, hs => by
    obtain ⟨s1, h1, i1⟩ := stepTok_noop tk ev hs (hn t (by simp)) out
    obtain ⟨s2, h2, i2⟩ := fold_noop ts (fun x hx => hn x (List.mem_cons_of_mem _ hx)) s1 (out ++ t.raw) i1
    refine ⟨s2, ?_, i2⟩
    rw [List.foldl_cons, h1, h2, rawsOf_cons, List.append_assoc]

end

/-! ### the reference edit on a document in which `a` does not stand -/

/-- only verbatim pieces (what a raw-text, void or self-closing element of a well-formed document holds) -/
def allVerbB : List Node → Bool
  | [] => true
  | .verb _ _ :: ns => allVerbB ns
  | .el _ _ _ _ _ :: _ => false

mutual
  /-- elements that are not of the normal kind hold no element nodes (the tokenizer would not see them as elements) -/
  def leafOKB : Node → Bool
    | .verb _ _ => true
    | .el _ _ _ knd cs =>
      match knd with
      | .normal => leafOKLB cs
      | _ => allVerbB cs
  def leafOKLB : List Node → Bool
    | [] => true
    | n :: ns => leafOKB n && leafOKLB ns
end

theorem editListD_allVerb (dec : Node → Bytes → Bool) (op : EditOp) (s' : Option Bytes) (ins : Node)
    (p : Bytes) (ps : List Bytes) (aw : Bool) : ∀ ns : List Node, allVerbB ns = true →
      editListD dec op s' ins p ps aw ns = ns
  | [], _ => by simp [editListD]
  | .verb r m :: ns, h => by
    simp only [allVerbB] at h
    simp [editListD, editNodeD, editListD_allVerb dec op s' ins p ps aw ns h]
  | .el _ _ _ _ _ :: _, h => by simp [allVerbB] at h

section
variable (vt : Bytes → List Tok)

mutual
  theorem editNodeD_absent (dec : Node → Bytes → Bool) (op : EditOp) (s' : Option Bytes) (ins : Node) {a : Bytes} :
      ∀ (n : Node) (p : Bytes) (ps : List Bytes) (aw : Bool), a ∈ p :: ps →
        (∀ t ∈ tokensOf vt n, NeutralTok [a] t) → leafOKB n = true → editNodeD dec op s' ins p ps aw n = n
    | .verb r m, _, _, _, _, _, _ => by simp [editNodeD]
    | .el nm d at_ knd cs, p, ps, aw, ha, hfree, hleaf => by
      have hnm : nm ≠ a := by
        have := name_not_mem_of_free vt hfree
        simpa using this
      have hcs : editListD dec op s' ins p ps true cs = cs ∧
          ∀ q qs, a ∈ q :: qs → editListD dec op s' ins q qs false cs = cs := by
        cases knd with
        | normal =>
          have hf : FreeL vt [a] cs := by
            intro t ht
            apply hfree t
            rw [tokensOf_el_normal]
            exact List.mem_cons_of_mem _ (List.mem_append_left _ ht)
          have hl : leafOKLB cs = true := by simpa [leafOKB] using hleaf
          exact ⟨editListD_absent dec op s' ins cs p ps true ha hf hl,
            fun q qs hq => editListD_absent dec op s' ins cs q qs false hq hf hl⟩
        | void =>
          have hl : allVerbB cs = true := by simpa [leafOKB] using hleaf
          exact ⟨editListD_allVerb dec op s' ins p ps true cs hl, fun q qs _ => editListD_allVerb dec op s' ins q qs false cs hl⟩
        | selfClosing =>
          have hl : allVerbB cs = true := by simpa [leafOKB] using hleaf
          exact ⟨editListD_allVerb dec op s' ins p ps true cs hl, fun q qs _ => editListD_allVerb dec op s' ins q qs false cs hl⟩
        | raw =>
          have hl : allVerbB cs = true := by simpa [leafOKB] using hleaf
          exact ⟨editListD_allVerb dec op s' ins p ps true cs hl, fun q qs _ => editListD_allVerb dec op s' ins q qs false cs hl⟩
      unfold editNodeD
      by_cases hb : (nm == p) = true
      · have hp : p ≠ a := by rw [← beq_iff_eq.mp hb]; exact hnm
        have hps : a ∈ ps := by
          simp only [List.mem_cons] at ha
          rcases ha with h | h
          · exact absurd h.symm hp
          · exact h
        cases ps with
        | nil => simp at hps
        | cons q qs => simp only [hb, if_true, hcs.2 q qs hps]
      · simp only [hb, Bool.false_eq_true, if_false]
        split
        · rw [hcs.1]
        · rfl
  /-- **the reference edit is the identity on a document in which one path name stands nowhere** -/
  theorem editListD_absent (dec : Node → Bytes → Bool) (op : EditOp) (s' : Option Bytes) (ins : Node) {a : Bytes} :
      ∀ (ns : List Node) (p : Bytes) (ps : List Bytes) (aw : Bool), a ∈ p :: ps →
        FreeL vt [a] ns → leafOKLB ns = true → editListD dec op s' ins p ps aw ns = ns
    | [], _, _, _, _, _, _ => by simp [editListD]
    | n :: ns, p, ps, aw, ha, hfree, hleaf => by
      simp only [leafOKLB, Bool.and_eq_true] at hleaf
      rw [editListD, editNodeD_absent dec op s' ins n p ps aw ha (FreeL.cons_head vt hfree) hleaf.1,
        editListD_absent dec op s' ins ns p ps aw ha (FreeL.cons_tail vt hfree) hleaf.2]
end

/-! ### the no-op domain of a filter -/

def actionKind (action : String) : Option VKind :=
  if action = Rio.Consts.filterActionAppend then some .append
  else if action = Rio.Consts.filterActionPrepend then some .prepend
  else if action = Rio.Consts.filterActionReplace then some .replace
  else none

/-- **the no-op domain**: one path name `a` — for append_child: one before the last — stands in no tag of the document
(tags as the tokenizer sees them: `vt` looks inside verbatim pieces) -/
inductive NoOp (doc : List Node) : BodyFilter → Prop where
  | mk (action : String) (p1 : Bytes) (ps : List Bytes) (sel : Option Bytes) (value : Bytes) (k : VKind) (a : Bytes)
      (hk : actionKind action = some k) (hz : a ∈ zone k (p1 :: ps)) (hfree : FreeL vt [a] doc)
      (hleaf : leafOKLB doc = true) : NoOp doc (.html action (p1 :: ps) sel value)

variable (tk : Tokenize) (ev : Bytes → Bytes → Bool)

theorem editD_noOp (dec : Node → Bytes → Bool) {doc : List Node} {f : BodyFilter} (h : NoOp vt doc f) :
    editD dec doc f = doc := by
  cases h with
  | mk action p1 ps sel value k a hk hz hfree hleaf =>
    have ha : a ∈ p1 :: ps := zone_sub hz
    unfold editD
    simp only
    split
    · rename_i op p ps' _ hpath
      simp only [List.cons.injEq] at hpath
      obtain ⟨rfl, rfl⟩ := hpath
      exact editListD_absent vt dec op _ _ doc p1 ps true ha hfree hleaf
    · rfl

/-- **one filter in its no-op domain** (same shape as `fold_inDomain`) -/
theorem fold_noOp (hvt : VtLossless vt) {doc : List Node} {f : BodyFilter} (h : NoOp vt doc f) :
    ∃ v s, VisitorsOf [f] [v] ∧
      (tokensOfList vt doc).foldl (stepTok tk ev) (HtmlSt.new v, []) =
        (s, serializeList (editD (decOf ev) doc f)) ∧ s.stack = [] := by
  rw [editD_noOp vt (decOf ev) h]
  cases h with
  | mk action p1 ps sel value k a hk hz hfree hleaf =>
    let v : Visitor := { kind := k, cur := p1, after := ps, sel := sel, content := value }
    have hv : Visitor.new action (p1 :: ps) sel value = some v := by
      obtain ⟨d1, d2, d3⟩ := actions_distinct
      unfold actionKind at hk
      unfold Visitor.new
      split at hk
      · rename_i h1
        simp only [Option.some.injEq] at hk
        subst hk
        simp [h1, v]
      · split at hk
        · rename_i h1 h2
          simp only [Option.some.injEq] at hk
          subst hk
          simp [h1, h2, v, d1]
        · split at hk
          · rename_i h1 h2 h3
            simp only [Option.some.injEq] at hk
            subst hk
            simp [h1, h2, h3, v, d2, d3]
          · cases hk
    have hinv : NoopInv a (HtmlSt.new v) :=
      ⟨rfl, rfl, by simp [HtmlSt.new, v], by simpa [HtmlSt.new, v] using hz, Or.inl (by simp [HtmlSt.new, Visitor.first, v]), rfl⟩
    obtain ⟨s, hs, is⟩ := fold_noop tk ev (tokensOfList vt doc) hfree (HtmlSt.new v) [] hinv
    refine ⟨v, s, ⟨⟨_, _, _, _, rfl, hv⟩, trivial⟩, ?_, is.stack⟩
    rw [hs, rawsOf_tokensOfList vt hvt]
    simp

/-- a list of filters applied one after the other, each in its domain OR in its no-op domain on the document it sees -/
def StepsOK3 : List Node → List BodyFilter → Prop
  | _, [] => True
  | d, f :: fs =>
    (InDomain tk vt d f ∨ NoOp vt d f) ∧ TokAgree tk vt d ∧ (fs ≠ [] → serializeList (editD (decOf ev) d f) ≠ []) ∧
    StepsOK3 (editD (decOf ev) d f) fs

theorem chained_of_steps3 (hvt : VtLossless vt) :
    ∀ (fs : List BodyFilter) (d : List Node), StepsOK3 vt tk ev d fs →
      ∃ vs, VisitorsOf fs vs ∧
        Chained tk ev vs (serializeList d) (serializeList (editAllD (decOf ev) d fs))
  | [], d, _ => ⟨[], trivial, by simp [Chained, editAllD]⟩
  | f :: fs, d, h => by
    obtain ⟨hdom, hag, hne, hrest⟩ := h
    obtain ⟨v, s, hv, hfold, hst⟩ : ∃ v s, VisitorsOf [f] [v] ∧
        (tokensOfList vt d).foldl (stepTok tk ev) (HtmlSt.new v, []) =
          (s, serializeList (editD (decOf ev) d f)) ∧ s.stack = [] := by
      rcases hdom with hdom | hdom
      · exact fold_inDomain tk ev vt hvt hdom
      · exact fold_noOp vt tk ev hvt hdom
    obtain ⟨vs, hvs, hch⟩ := chained_of_steps3 hvt fs _ hrest
    refine ⟨v :: vs, ⟨hv.1, hvs⟩, ?_⟩
    refine ⟨_, stageOK_of_fold tk ev vt hag hfold hst, ?_, ?_⟩
    · intro hvsne
      apply hne
      intro e; subst e
      cases vs with
      | nil => exact hvsne rfl
      | cons _ _ => simp [VisitorsOf] at hvs
    · simpa [editAllD] using hch

/-! ### executable check -/

def noOpB (doc : List Node) (f : BodyFilter) : Bool :=
  match f with
  | .html action (p1 :: ps) _ _ =>
    (match actionKind action with
     | some k => leafOKLB doc && (zone k (p1 :: ps)).any (fun a => freeLB vt [a] doc)
     | none => false)
  | _ => false

theorem noOpB_sound {doc : List Node} {f : BodyFilter} (h : noOpB vt doc f = true) : NoOp vt doc f := by
  unfold noOpB at h
  split at h
  · rename_i action p1 ps sel value
    split at h
    · rename_i k hk
      simp only [Bool.and_eq_true, List.any_eq_true] at h
      obtain ⟨hleaf, a, ha, hfree⟩ := h
      exact NoOp.mk action p1 ps sel value k a hk ha (freeLB_sound vt hfree) hleaf
    · cases h
  · cases h

end

end Rio.Filter
