/-
The header actions TRANSLATED FROM THE SOURCE on every run (`Rio.Consts.genHeader*`,
tools/consts.d/w4_translate.py) compute the same as the hand-written model (Model/Header.lean).
A `Header` travels as the pair `(name, value)` in the generated code (Generated/Consts.lean cannot
import the model).  A source change that alters the behaviour of one of the five `filter` functions
changes the generated definition and breaks the corresponding lemma here.
-/
import RioModel.Model.Header
set_option linter.unusedSimpArgs false
set_option linter.unusedVariables false

namespace Rio.Header
open Rio.Consts

def toPair (h : Header) : String × String := (h.name, h.value)
def ofPair (p : String × String) : Header := ⟨p.1, p.2⟩

@[simp] theorem ofPair_toPair (h : Header) : ofPair (toPair h) = h := rfl
@[simp] theorem toPair_ofPair (p : String × String) : toPair (ofPair p) = p := rfl

theorem map_toPair_ofPair (ps : List (String × String)) : (ps.map ofPair).map toPair = ps := by
  simp [List.map_map, Function.comp_def]

theorem map_ofPair_toPair (hs : List Header) : (hs.map toPair).map ofPair = hs := by
  simp [List.map_map, Function.comp_def]

variable (lower : String → String)

/-- `header.name.to_lowercase() != self.name.to_lowercase()` is the negated `sameName` -/
theorem bne_sameName (n : String) (h : Header) :
    (lower (toPair h).1 != lower n) = !sameName lower n h := rfl

theorem beq_sameName (n : String) (h : Header) :
    (lower (toPair h).1 == lower n) = sameName lower n h := rfl

/-! ### add -/

theorem genHeaderAdd_eq (n v : String) (hs : List Header) :
    genHeaderAdd lower n v (hs.map toPair) = (addAction n v hs).map toPair := by
  simp [genHeaderAdd, addAction, toPair]

/-! ### remove -/

theorem genHeaderRemoveLoop1_eq (n v : String) (hs acc : List Header) :
    genHeaderRemoveLoop1 lower n v (hs.map toPair) (acc.map toPair) =
      (hs.foldl (fun acc h => if !sameName lower n h then acc ++ [h] else acc) acc).map toPair := by
  induction hs generalizing acc with
  | nil => rfl
  | cons h t ih =>
    simp only [List.map_cons, genHeaderRemoveLoop1, List.foldl_cons, bne_sameName]
    rcases Bool.eq_false_or_eq_true (sameName lower n h) with hc | hc
    · simp only [hc, Bool.not_true, Bool.false_eq_true, if_false]
      exact ih acc
    · simp only [hc, Bool.not_false, if_true]
      have := ih (acc ++ [h])
      simpa using this

theorem genHeaderRemove_eq (n v : String) (hs : List Header) :
    genHeaderRemove lower n v (hs.map toPair) = (removeAction lower n hs).map toPair := by
  have := genHeaderRemoveLoop1_eq lower n v hs []
  simpa [genHeaderRemove, removeAction] using this

/-! ### replace -/

theorem genHeaderReplaceLoop1_eq (n v : String) (hs acc : List Header) :
    genHeaderReplaceLoop1 lower n v (hs.map toPair) (acc.map toPair) =
      (hs.foldl (fun acc h => if sameName lower n h then acc ++ [⟨n, v⟩] else acc ++ [h]) acc).map toPair := by
  induction hs generalizing acc with
  | nil => rfl
  | cons h t ih =>
    simp only [List.map_cons, genHeaderReplaceLoop1, List.foldl_cons, beq_sameName]
    rcases Bool.eq_false_or_eq_true (sameName lower n h) with hc | hc
    · simp only [hc, if_true]
      have := ih (acc ++ [⟨n, v⟩])
      simpa [toPair] using this
    · simp only [hc, Bool.false_eq_true, if_false]
      have := ih (acc ++ [h])
      simpa using this

theorem genHeaderReplace_eq (n v : String) (hs : List Header) :
    genHeaderReplace lower n v (hs.map toPair) = (replaceAction lower n v hs).map toPair := by
  have := genHeaderReplaceLoop1_eq lower n v hs []
  simpa [genHeaderReplace, replaceAction] using this

/-! ### override -/

theorem genHeaderOverrideLoop1_eq (n v : String) (hs acc : List Header) (found : Bool) :
    genHeaderOverrideLoop1 lower n v (hs.map toPair) (acc.map toPair) found =
      (let r := hs.foldl
          (fun (st : List Header × Bool) h =>
            if !sameName lower n h then (st.1 ++ [h], st.2) else (st.1 ++ [⟨n, v⟩], true))
          (acc, found)
       (r.1.map toPair, r.2)) := by
  induction hs generalizing acc found with
  | nil => rfl
  | cons h t ih =>
    simp only [List.map_cons, genHeaderOverrideLoop1, List.foldl_cons, bne_sameName]
    rcases Bool.eq_false_or_eq_true (sameName lower n h) with hc | hc
    · simp only [hc, Bool.not_true, Bool.false_eq_true, if_false]
      have := ih (acc ++ [⟨n, v⟩]) true
      simpa [toPair] using this
    · simp only [hc, Bool.not_false, if_true]
      have := ih (acc ++ [h]) found
      simpa using this

theorem genHeaderOverride_eq (n v : String) (hs : List Header) :
    genHeaderOverride lower n v (hs.map toPair) = (overrideAction lower n v hs).map toPair := by
  have := genHeaderOverrideLoop1_eq lower n v hs [] false
  simp only [List.map_nil] at this
  simp only [genHeaderOverride, overrideAction, this]
  split <;> simp_all [toPair]

/-! ### default

Two shapes of the source are accepted by the same statement: the `found` flag loop with `break`
(`genHeaderDefaultLoop1`) and the iterator form `headers.iter().any(|h| ..)`; the proof tries the first and
falls back to the second, so this behaviour-preserving refactoring does not raise an alarm. -/

theorem defaultFound_eq_any (n : String) (hs : List Header) :
    defaultFound lower n hs = hs.any (sameName lower n) := by
  induction hs with
  | nil => rfl
  | cons h t ih =>
    simp only [defaultFound, List.any_cons]
    rcases Bool.eq_false_or_eq_true (sameName lower n h) with hc | hc <;> simp [hc, ih]

theorem any_toPair (n : String) (hs : List Header) :
    (hs.map toPair).any (fun p => lower p.1 == lower n) = hs.any (sameName lower n) := by
  rw [List.any_map]; rfl

theorem genHeaderDefault_eq (n v : String) (hs : List Header) :
    genHeaderDefault lower n v (hs.map toPair) = (defaultAction lower n v hs).map toPair := by
  first
  | -- the flag loop
    have hloop : ∀ (hs : List Header) (found : Bool),
        genHeaderDefaultLoop1 lower n v (hs.map toPair) found =
          (if defaultFound lower n hs then true else found) := by
      intro hs found
      induction hs with
      | nil => rfl
      | cons h t ih =>
        simp only [List.map_cons, genHeaderDefaultLoop1, defaultFound, beq_sameName]
        rcases Bool.eq_false_or_eq_true (sameName lower n h) with hc | hc
        · simp [hc]
        · simp only [hc, Bool.false_eq_true, if_false]
          exact ih
    simp only [genHeaderDefault, defaultAction, hloop]
    cases defaultFound lower n hs <;> simp [toPair]
  | -- `.iter().any(..)`
    simp only [genHeaderDefault, defaultAction, any_toPair, defaultFound_eq_any]
    cases hs.any (sameName lower n) <;> simp [toPair]

end Rio.Header
