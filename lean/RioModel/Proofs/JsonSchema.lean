/-
Tie between the hand-written serde model and the source, by regeneration: the tables
`Rio.Consts.serde*` are re-extracted from the `#[derive(Serialize, Deserialize)]` items of
/repo/src on every run (tools/consts.d/w4_serde.py).  This file

* pins, literally, the schema the model was transcribed from (`schema_*`): an added, removed,
  renamed, reordered or re-typed field, a changed `#[serde(..)]` attribute, a changed variant
  order of the untagged union – each makes this module fail to build, so C06 is reported until
  the model has been revisited;
* proves that the keys the model's `ser*` emits are exactly the extracted keys, in the
  extracted order (`ser*_keys`), and that the variant names of `TextAction` are the extracted
  renames.
-/
import RioModel.Generated.Consts
import RioModel.Model.JsonAction
set_option linter.unusedSimpArgs false

namespace Rio.Json
open Rio.Consts

/-- keys of a JSON object, in order -/
def objKeys : Json → List String
  | .obj kvs => kvs.map (·.1)
  | _ => []

def schemaKeys (s : List (String × String × String)) : List String := s.map (·.1)

/-! ### the schema the model was written from -/

theorem schema_Action : serdeActionAttrs = [] ∧ serdeAction =
    [("status_code_update", "Option<StatusCodeUpdate>", ""),
     ("header_filters", "Vec<HeaderFilterAction>", ""),
     ("body_filters", "Vec<BodyFilterAction>", ""),
     ("rule_ids", "LinkedHashSet<String>", ""),
     ("rule_traces", "Vec<RuleTrace>", "default"),
     ("rules_applied", "LinkedHashSet<String>", "default"),
     ("log_override", "Option<LogOverride>", "")] := ⟨rfl, rfl⟩

theorem schema_RuleTrace : serdeRuleTraceAttrs = [] ∧ serdeRuleTrace =
    [("id", "String", ""), ("on_response_status_codes", "Vec<u16>", ""),
     ("exclude_response_status_codes", "bool", "")] := ⟨rfl, rfl⟩

theorem schema_HeaderFilterAction : serdeHeaderFilterActionAttrs = [] ∧ serdeHeaderFilterAction =
    [("filter", "HeaderFilter", ""), ("on_response_status_codes", "Vec<u16>", ""),
     ("exclude_response_status_codes", "bool", ""), ("rule_id", "Option<String>", "")] := ⟨rfl, rfl⟩

theorem schema_BodyFilterAction : serdeBodyFilterActionAttrs = [] ∧ serdeBodyFilterAction =
    [("filter", "BodyFilter", ""), ("on_response_status_codes", "Vec<u16>", ""),
     ("exclude_response_status_codes", "bool", ""), ("rule_id", "Option<String>", "")] := ⟨rfl, rfl⟩

theorem schema_StatusCodeUpdate : serdeStatusCodeUpdateAttrs = [] ∧ serdeStatusCodeUpdate =
    [("status_code", "u16", ""), ("on_response_status_codes", "Vec<u16>", ""),
     ("exclude_response_status_codes", "bool", ""), ("fallback_status_code", "u16", ""),
     ("rule_id", "Option<String>", ""), ("fallback_rule_id", "Option<String>", ""),
     ("unit_id", "Option<String>", ""), ("target_hash", "Option<String>", "")] := ⟨rfl, rfl⟩

theorem schema_LogOverride : serdeLogOverrideAttrs = [] ∧ serdeLogOverride =
    [("log_override", "bool", ""), ("rule_id", "Option<String>", ""),
     ("on_response_status_codes", "Vec<u16>", ""), ("exclude_response_status_codes", "bool", ""),
     ("fallback_log_override", "Option<bool>", ""), ("fallback_rule_id", "Option<String>", ""),
     ("unit_id", "Option<String>", "")] := ⟨rfl, rfl⟩

theorem schema_HeaderFilter : serdeHeaderFilterAttrs = [] ∧ serdeHeaderFilter =
    [("action", "String", ""), ("header", "String", ""), ("value", "String", ""),
     ("id", "Option<String>", ""), ("target_hash", "Option<String>", "")] := ⟨rfl, rfl⟩

theorem schema_HtmlBodyFilter : serdeHtmlBodyFilterAttrs = [] ∧ serdeHtmlBodyFilter =
    [("action", "String", ""), ("value", "String", ""), ("inner_value", "Option<String>", ""),
     ("element_tree", "Vec<String>", ""), ("css_selector", "Option<String>", ""),
     ("id", "Option<String>", ""), ("target_hash", "Option<String>", "")] := ⟨rfl, rfl⟩

theorem schema_TextBodyFilter : serdeTextBodyFilterAttrs = [] ∧ serdeTextBodyFilter =
    [("action", "TextAction", ""), ("content", "String", ""), ("id", "Option<String>", ""),
     ("target_hash", "Option<String>", "")] := ⟨rfl, rfl⟩

/-- unit variants, each renamed -/
theorem schema_TextAction : serdeTextActionAttrs = [] ∧ serdeTextAction =
    [("append_text", "", "rename = \"append_text\""),
     ("prepend_text", "", "rename = \"prepend_text\""),
     ("replace_text", "", "rename = \"replace_text\"")] := ⟨rfl, rfl⟩

/-- `#[serde(untagged)]`, `Text` declared (hence tried) before `HTML` -/
theorem schema_BodyFilter : serdeBodyFilterAttrs = ["untagged"] ∧ serdeBodyFilter =
    [("Text", "TextBodyFilter", ""), ("HTML", "HTMLBodyFilter", "")] := ⟨rfl, rfl⟩

theorem schema_Request : serdeRequestAttrs = [] ∧ serdeRequest =
    [("path_and_query", "PathAndQueryWithSkipped", "rename = \"path_and_query\""),
     ("path_and_query_v2", "Option<String>", "rename = \"path_and_query_v2\""),
     ("host", "Option<String>", ""), ("scheme", "Option<String>", ""),
     ("method", "Option<String>", ""), ("headers", "Vec<Header>", ""),
     ("remote_addr", "Option<IpAddr>", ""), ("created_at", "Option<DateTime<Utc>>", ""),
     ("sampling_override", "Option<bool>", "")] := ⟨rfl, rfl⟩

theorem schema_PathAndQuery : serdePathAndQueryAttrs = [] ∧ serdePathAndQuery =
    [("path_and_query", "String", ""), ("path_and_query_matching", "Option<String>", ""),
     ("skipped_query_params", "Option<String>", ""), ("original", "String", "")] := ⟨rfl, rfl⟩

theorem schema_Header : serdeHeaderAttrs = [] ∧ serdeHeader =
    [("name", "String", ""), ("value", "String", "")] := ⟨rfl, rfl⟩

/-! ### the model's `ser*` emits exactly the extracted keys, in the extracted order -/

theorem serAction_keys (a : Action) : objKeys (serAction a) = schemaKeys serdeAction := rfl
theorem serRuleTrace_keys (t : RuleTrace) : objKeys (serRuleTrace t) = schemaKeys serdeRuleTrace := rfl
theorem serHeaderFilterAction_keys (f : HeaderFilterAction) :
    objKeys (serHeaderFilterAction f) = schemaKeys serdeHeaderFilterAction := rfl
theorem serBodyFilterAction_keys (f : BodyFilterAction) :
    objKeys (serBodyFilterAction f) = schemaKeys serdeBodyFilterAction := rfl
theorem serStatusCodeUpdate_keys (s : StatusCodeUpdate) :
    objKeys (serStatusCodeUpdate s) = schemaKeys serdeStatusCodeUpdate := rfl
theorem serLogOverride_keys (l : LogOverride) :
    objKeys (serLogOverride l) = schemaKeys serdeLogOverride := rfl
theorem serHeaderFilter_keys (f : HeaderFilter) :
    objKeys (serHeaderFilter f) = schemaKeys serdeHeaderFilter := rfl
theorem serHtmlBodyFilter_keys (f : HtmlBodyFilter) :
    objKeys (serHtmlBodyFilter f) = schemaKeys serdeHtmlBodyFilter := rfl
theorem serTextBodyFilter_keys (f : TextBodyFilter) :
    objKeys (serTextBodyFilter f) = schemaKeys serdeTextBodyFilter := rfl
theorem serRequest_keys (q : Request) : objKeys (serRequest q) = schemaKeys serdeRequest := rfl
theorem serPathAndQuery_keys (p : PathAndQuery) :
    objKeys (serPathAndQuery p) = schemaKeys serdePathAndQuery := rfl
theorem serHeader_keys (h : Header) : objKeys (serHeader h) = schemaKeys serdeHeader := rfl

theorem textAction_names :
    [TextAction.append, .prepend, .replace].map TextAction.name = schemaKeys serdeTextAction := rfl

end Rio.Json
