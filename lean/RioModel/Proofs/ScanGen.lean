/-
`common_prefix_char_size` TRANSLATED FROM THE SOURCE on every run (`Rio.Consts.genCommonPrefixCharSize`,
tools/consts.d/w4_translate.py: the `loop` with the `next_char_or_return!` macro and the mutable counters
`prefix_length`, `was_escape`, `group_level`, `i`) computes the same as W1's model `Rio.Scan.cpLoop`.
-/
import RioModel.Generated.Consts
import RioModel.Model.Scan
set_option linter.unusedSimpArgs false
set_option linter.unusedVariables false

namespace Rio.Scan
open Rio.Consts

/-- the loop of the translated code is the loop of the model; the scanner state is
`(group_level, was_escape)` -/
theorem genLoop_eq (l r : List Char) (pl : Nat) (esc : Bool) (gl : Int) (i : Nat) :
    genCommonPrefixCharSizeLoop1 l r pl esc gl i = cpLoop l r ⟨gl, esc⟩ i pl := by
  induction l generalizing r pl esc gl i with
  | nil => unfold genCommonPrefixCharSizeLoop1; simp [cpLoop]
  | cons a l ih =>
    cases r with
    | nil => unfold genCommonPrefixCharSizeLoop1; simp [cpLoop]
    | cons b r =>
      unfold genCommonPrefixCharSizeLoop1
      by_cases hab : a = b
      · subst hab
        simp only [bne_self_eq_false, Bool.false_eq_true, if_false, cpLoop, ne_eq, not_true_eq_false]
        rw [ih]
        -- the two updates of the translated code are `St.step`, the boundary test is `atBoundary`
        cases esc <;> by_cases h1 : a = '(' <;> by_cases h2 : a = ')' <;> by_cases h3 : a = '\\' <;>
          simp_all [St.step, St.atBoundary] <;> (try (split <;> simp_all)) <;> (try omega)
      · have : (a != b) = true := by simpa using hab
        simp [this, cpLoop, hab]

theorem genCommonPrefixCharSize_eq (l r : List Char) :
    genCommonPrefixCharSize l r = commonPrefixCharSize l r := by
  simp only [genCommonPrefixCharSize, commonPrefixCharSize, genLoop_eq]
  rfl

end Rio.Scan
