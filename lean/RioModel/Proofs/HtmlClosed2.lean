/-
Closed forms of the tokenizer's readers, part 2: the raw-text element lookup of `read_start_tag`, and the closed forms of
`next` on a start tag / self-closing tag / end tag of the `Simple` grammar.
-/
import RioModel.Proofs.HtmlClosed
set_option linter.unusedSimpArgs false
set_option linter.unusedVariables false

namespace Rio.Html
namespace Tokenizer
open Rio.Consts

/-! ### the raw-text element lookup -/

/-- is the (lower-cased) name a raw-text element name of the regenerated table? -/
def isRawName (n : Bytes) : Bool := (htmlRawDispatch.flatMap (·.2)).contains n

theorem contains_append' (a b : List Bytes) (x : Bytes) : (a ++ b).contains x = (a.contains x || b.contains x) := by
  induction a with
  | nil => simp
  | cons y ys ih => simp only [List.cons_append, List.contains_cons, ih, Bool.or_assoc]

theorem contains_cons_false {s x : Bytes} {ss : List Bytes} (h : ¬ x = s) : (s :: ss).contains x = ss.contains x := by
  have : (x == s) = false := by simpa using h
  simp only [List.contains_cons, this, Bool.false_or]

theorem matchLower_closed : ∀ (s l : Bytes) (t : Tokenizer) (p : Nat), Has t p l → l.length = s.length →
    matchLower t p s = some (l.map lowerByte == s)
  | [], [], t, p, _, _ => by simp [matchLower]
  | [], _ :: _, _, _, _, hl => by simp at hl
  | _ :: _, [], _, _, _, hl => by simp at hl
  | c :: s, b :: l, t, p, h, hl => by
    have hb := h.head
    have hlt : p < t.buf.size := by
      rcases Nat.lt_or_ge p t.buf.size with h' | h'
      · exact h'
      · rw [Array.getElem?_eq_none h'] at hb; cases hb
    have hb' : t.buf[p] = b := by
      rw [Array.getElem?_eq_getElem hlt] at hb; injection hb
    simp only [matchLower, hlt, dite_true, hb']
    by_cases hc : lowerByte b = c
    · have ih := matchLower_closed s l t (p + 1) h.tail (by simpa using hl)
      simp [hc, ih]
    · simp [hc]

theorem startTagIn_closed (ss : List Bytes) (disp : Bytes) (t : Tokenizer) (h : Has t t.dataS disp)
    (hd : t.dataE = t.dataS + disp.length) : startTagIn t ss = some (ss.contains (disp.map lowerByte)) := by
  induction ss with
  | nil => rfl
  | cons s ss ih =>
    have hn : ¬ t.dataE < t.dataS := by omega
    have e1 : t.dataE - t.dataS = disp.length := by omega
    simp only [startTagIn, hn, if_false, e1, ih]
    by_cases hl : disp.length = s.length
    · have : ¬ (disp.length != s.length) = true := by simp [hl]
      rw [if_neg this, matchLower_closed s disp t t.dataS h hl]
      by_cases he : disp.map lowerByte = s
      · simp [he]
      · have h1 : (List.map lowerByte disp == s) = false := by simpa using he
        rw [h1, contains_cons_false he]
    · have : (disp.length != s.length) = true := by simpa using hl
      rw [if_pos this]
      have h2 : ¬ List.map lowerByte disp = s := by intro h; apply hl; rw [← h]; simp
      rw [contains_cons_false h2]

/-- well-formedness of the dispatch table: the names of an entry start with its letter, letters are distinct -/
def TableWF (tbl : List (Nat × List Bytes)) : Prop :=
  (∀ e ∈ tbl, ∀ s ∈ e.2, s.head? = some e.1) ∧ tbl.Pairwise (fun a b => a.1 ≠ b.1)

theorem rawLookup_closed (tbl : List (Nat × List Bytes)) (wf : TableWF tbl) (disp : Bytes) (first : Nat) (t : Tokenizer)
    (h : Has t t.dataS disp) (hd : t.dataE = t.dataS + disp.length) (hf : (disp.map lowerByte).head? = some first) :
    rawLookup t first tbl = some ((tbl.flatMap (·.2)).contains (disp.map lowerByte)) := by
  induction tbl with
  | nil => rfl
  | cons e tbl ih =>
    obtain ⟨l, names⟩ := e
    have wf' : TableWF tbl := ⟨fun e he => wf.1 e (by simp [he]), (List.pairwise_cons.mp wf.2).2⟩
    simp only [rawLookup, List.flatMap_cons]
    by_cases hl : first = l
    · subst hl
      simp only [beq_self_eq_true, if_true, startTagIn_closed names disp t h hd]
      -- no later entry can contain the name: its names start with another letter
      have hnot : (tbl.flatMap (·.2)).contains (disp.map lowerByte) = false := by
        simp only [List.contains_eq_mem, decide_eq_false_iff_not, List.mem_flatMap, not_exists, not_and]
        intro e he hs
        have h1 := wf.1 e (by simp [he]) _ hs
        rw [hf] at h1
        have := (List.pairwise_cons.mp wf.2).1 e he
        injection h1 with h1
        exact this h1
      rw [contains_append', hnot, Bool.or_false]
    · have hb : (first == l) = false := by simpa using hl
      simp only [hb, Bool.false_eq_true, if_false, ih wf']
      have hnot : names.contains (disp.map lowerByte) = false := by
        simp only [List.contains_eq_mem, decide_eq_false_iff_not]
        intro hs
        have h1 := wf.1 (l, names) (by simp) _ hs
        rw [hf] at h1
        injection h1 with h1
        exact hl h1
      rw [contains_append', hnot, Bool.false_or]

theorem rawTable_wf : TableWF htmlRawDispatch := by
  constructor
  · decide
  · decide

/-! ### from `next` to the tag dispatch -/

/-- `<` is followed by a byte that opens a tag / comment / declaration -/
def isOpener (c : Nat) : Bool := isAlpha c || c == 47 || c == 33 || c == 63

/-- the state `next` hands to `dispatchTag` after having read `<` and the opener `c` -/
def opened (t : Tokenizer) : Tokenizer :=
  (({ ({ t with rawS := t.rawE, dataS := t.rawE, dataE := t.rawE } : Tokenizer) with
      textIsRaw := false, convertNull := false } : Tokenizer).readByte.1).readByte.1

theorem next_dispatch (t : Tokenizer) (c : Nat) (ok : Ok t) (he : t.err = false) (htag : t.rawTag = [])
    (h : Has t t.rawE [60, c]) (hop : isOpener c = true) :
    next t = dispatchTag (opened t) c ∧ (opened t).rawE = t.rawE + 2 ∧ (opened t).rawS = t.rawE ∧
    (opened t).err = false ∧ (opened t).buf = t.buf ∧ (opened t).rawTag = [] ∧
    (opened t).allowCdata = t.allowCdata ∧ Ok (opened t) ∧ (opened t).dataS = t.rawE ∧ (opened t).dataE = t.rawE := by
  unfold opened
  generalize ht0 : ({ ({ t with rawS := t.rawE, dataS := t.rawE, dataE := t.rawE } : Tokenizer) with
      textIsRaw := false, convertNull := false } : Tokenizer) = t0
  have f0 : t0.rawE = t.rawE ∧ t0.rawS = t.rawE ∧ t0.err = t.err ∧ t0.buf = t.buf ∧ t0.rawTag = t.rawTag ∧
      t0.allowCdata = t.allowCdata ∧ t0.dataS = t.rawE ∧ t0.dataE = t.rawE ∧ t0.panic = t.panic ∧ t0.hang = t.hang ∧
      t0.utf8Err = t.utf8Err := by
    rw [← ht0]; exact ⟨rfl, rfl, rfl, rfl, rfl, rfl, rfl, rfl, rfl, rfl, rfl⟩
  obtain ⟨g1, g2, g3, g4, g5, g6, g7, g8, g9, g10, g11⟩ := f0
  have ok0 : Ok t0 := ⟨by rw [g1, g4]; exact ok.le, by rw [g9]; exact ok.panic, by rw [g10]; exact ok.hang,
    by rw [g11]; exact ok.utf8⟩
  have he0 : t0.err = false := by rw [g3]; exact he
  have hb0 : t0.buf[t0.rawE]? = some 60 := by rw [g4, g1]; exact h.head
  obtain ⟨e1, e2, e3, e4⟩ := read_known hb0 he0
  have hb1 : t0.readByte.1.buf[t0.readByte.1.rawE]? = some c := by
    rw [e4, e2, g4, g1]; exact h.tail.head
  obtain ⟨f1, f2, f3, f4⟩ := read_known hb1 e3
  have a1 := readByte_adv ok0
  have a2 := readByte_adv a1.ok
  have a12 := a1.trans a2
  refine ⟨?_, by rw [f2, e2, g1], by rw [a12.rawS, g2], f3, by rw [a12.buf, g4], by rw [a12.rawTag, g5, htag],
    by rw [a12.cdata, g6], a2.ok, by simp [g7], by simp [g8]⟩
  -- `next t` is the main loop on `t0`
  have hgo : ∀ T : Tokenizer, T.err = false → T.rawTag = [] →
      nextGo T = mainLoop { T with textIsRaw := false, convertNull := false } := by
    intro T h1 h2
    unfold nextGo
    simp only
    rw [if_neg (by rw [h1]; exact Bool.false_ne_true), if_neg (by rw [h2]; decide)]
  have hn : next t = mainLoop t0 := by
    unfold next
    rw [hgo { t with rawS := t.rawE, dataS := t.rawE, dataE := t.rawE } he htag, ← ht0]
  rw [hn, mainLoop]
  have hne1 : ¬ t0.readByte.1.err = true := by rw [e3]; exact Bool.false_ne_true
  have hne2 : ¬ t0.readByte.1.readByte.1.err = true := by rw [f3]; exact Bool.false_ne_true
  rw [dif_neg hne1]
  have h60 : ¬ (t0.readByte.2 != 60) = true := by rw [e1]; simp
  rw [if_neg h60]
  simp only []
  rw [dif_neg hne2]
  have hop' : ¬ (!(isAlpha t0.readByte.1.readByte.2 || t0.readByte.1.readByte.2 == 47 ||
      t0.readByte.1.readByte.2 == 33 || t0.readByte.1.readByte.2 == 63)) = true := by
    rw [f1]; unfold isOpener at hop; simp [hop]
  rw [if_neg hop', f1]

/-- the record of the closed forms: what `t1 = next t` looks like -/
structure Piece (t t1 : Tokenizer) (k : TokenType) (len : Nat) (tag : List Nat) : Prop where
  token : t1.token = k
  rawS : t1.rawS = t.rawE
  rawE : t1.rawE = t.rawE + len
  err : t1.err = false
  rawTag : t1.rawTag = tag
  cdata : t1.allowCdata = t.allowCdata
  buf : t1.buf = t.buf

theorem extract_toList_eq' (a : Array Nat) (i j : Nat) : (a.extract i j).toList = (a.toList.take j).drop i := by
  rw [Array.toList_extract, List.extract_eq_take_drop, List.drop_take]

theorem has_extract {t : Tokenizer} {p : Nat} {l : Bytes} (h : Has t p l) (hle : p + l.length ≤ t.buf.size) :
    (t.buf.extract p (p + l.length)).toList = l := by
  apply List.ext_getElem?
  intro i
  rw [extract_toList_eq', List.getElem?_drop, List.getElem?_take]
  by_cases hi : i < l.length
  · rw [if_pos (by omega), Array.getElem?_toList, h i hi, List.getElem?_eq_getElem hi]
  · rw [if_neg (by omega), List.getElem?_eq_none (by omega)]

theorem has_size {t : Tokenizer} {p : Nat} {l : Bytes} (h : Has t p l) : p + l.length ≤ t.buf.size ∨ l = [] := by
  cases hl : l.length with
  | zero => exact Or.inr (List.length_eq_zero_iff.mp hl)
  | succ n =>
    left
    have := h n (by omega)
    rcases Nat.lt_or_ge (p + n) t.buf.size with h' | h'
    · omega
    · rw [Array.getElem?_eq_none h'] at this; cases this

/-! ### start tags and self-closing tags -/

/-- tag name of the `Simple` grammar: a letter followed by letters / digits -/
def nameOK : Bytes → Bool
  | [] => false
  | c :: nm => isAlpha c && nm.all isAlnum

/-- tag name as `read_tag_name` really delimits it: a letter followed by bytes that are not white space, `/` or `>`
(so `-`, `:`, `_`, digits, `=`, `<`, non-ASCII bytes … are name bytes) -/
def nameOK2 : Bytes → Bool
  | [] => false
  | c :: nm => isAlpha c && nm.all nameByte

theorem nameOK2_of_nameOK {disp : Bytes} (h : nameOK disp = true) : nameOK2 disp = true := by
  cases disp with
  | nil => exact h
  | cons c nm =>
    simp only [nameOK, nameOK2, Bool.and_eq_true, List.all_eq_true] at h ⊢
    exact ⟨h.1, fun b hb => nameByte_of_alnum (h.2 b hb)⟩

theorem isAlnum_lt {b : Nat} (h : isAlnum b = true) : b < 128 ∧ b ≠ 47 := by
  simp only [isAlnum, isAlpha, Bool.or_eq_true, Bool.and_eq_true, decide_eq_true_eq] at h
  omega

theorem isAlpha_alnum {b : Nat} (h : isAlpha b = true) : isAlnum b = true := by simp [isAlnum, h]

/-- the bytes of a `Simple` tag name are ASCII -/
theorem nameOK_ascii {disp : Bytes} (h : nameOK disp = true) : ∀ b ∈ disp, b < 128 := by
  cases disp with
  | nil => simp [nameOK] at h
  | cons c nm =>
    simp only [nameOK, Bool.and_eq_true, List.all_eq_true] at h
    intro b hb
    simp only [List.mem_cons] at hb
    rcases hb with rfl | hb
    · exact (isAlnum_lt (isAlpha_alnum h.1)).1
    · exact (isAlnum_lt (h.2 b hb)).1

theorem isWs_ne47 {b : Nat} (h : isWs b = true) : b ≠ 47 := by
  simp only [isWs, Bool.or_eq_true, beq_iff_eq] at h; omega

theorem SAttr.text_last (a : SAttr) (h : a.ok = true) : ∃ b, a.text.getLast? = some b ∧ b ≠ 47 := by
  obtain ⟨_, _, hkne, hk, hval, _, _, _⟩ := SAttr.ok_spec h
  have hkl : ∃ b, a.key.getLast? = some b ∧ b ≠ 47 := by
    cases hg : a.key.getLast? with
    | none => rw [List.getLast?_eq_none_iff] at hg; exact absurd hg hkne
    | some b =>
      refine ⟨b, rfl, ?_⟩
      have := hk b (List.mem_of_getLast? hg)
      simp only [keyByte, Bool.and_eq_true, Bool.not_eq_true', bne_iff_ne, ne_eq] at this
      exact this.1.1.2
  unfold SAttr.text
  by_cases hn : a.val = .none
  · obtain ⟨b, hb, h47⟩ := hkl
    exact ⟨b, by rw [SAttr.vtext_none hn, List.append_nil, List.getLast?_append, hb]; rfl, h47⟩
  · rw [SAttr.vtext_some hn]
    -- the last byte of the value body
    have hbl : ∃ b, a.val.body.getLast? = some b ∧ b ≠ 47 := by
      cases hv : a.val with
      | none => exact absurd hv hn
      | dq v => exact ⟨34, by simp only [SVal.body]; rw [List.getLast?_append]; rfl, by decide⟩
      | sq v => exact ⟨39, by simp only [SVal.body]; rw [List.getLast?_append]; rfl, by decide⟩
      | unq v =>
        rw [hv] at hval
        cases v with
        | nil => simp [SVal.ok] at hval
        | cons c v' =>
          simp only [SVal.ok, Bool.and_eq_true, bne_iff_ne, ne_eq] at hval
          cases hg : (c :: v').getLast? with
          | none => simp at hg
          | some b => exact ⟨b, hg, by intro e; subst e; exact hval.2 hg⟩
    obtain ⟨b, hb, h47⟩ := hbl
    exact ⟨b, by rw [List.getLast?_append, List.getLast?_append, hb]; rfl, h47⟩

theorem attrsOf_last : ∀ (as : List SAttr), as ≠ [] → (∀ a ∈ as, a.ok = true) →
    ∃ b, (attrsOf as).getLast? = some b ∧ b ≠ 47
  | [], h, _ => absurd rfl h
  | [a], _, hok => by
    obtain ⟨b, hb, h47⟩ := a.text_last (hok a (by simp))
    exact ⟨b, by simp [attrsOf, hb], h47⟩
  | a :: b :: rest, _, hok => by
    obtain ⟨x, hx, h47⟩ := attrsOf_last (b :: rest) (by simp) (fun y hy => hok y (by simp [hy]))
    refine ⟨x, ?_, h47⟩
    show (a.text ++ attrsOf (b :: rest)).getLast? = some x
    rw [List.getLast?_append, hx]; rfl

/-- the byte before the `>` of a `Simple` start tag is not `/` -/
theorem body_last (disp : Bytes) (as : List SAttr) (trail : Bytes) (hn : nameOK2 disp = true)
    (hok : ∀ a ∈ as, a.ok = true) (htr : ∀ b ∈ trail, isWs b = true) :
    ∃ b, (disp ++ attrsOf as ++ trail).getLast? = some b ∧ b ≠ 47 := by
  cases hg : trail.getLast? with
  | some b =>
    exact ⟨b, by rw [List.getLast?_append, hg]; rfl, isWs_ne47 (htr b (List.mem_of_getLast? hg))⟩
  | none =>
    rw [List.getLast?_eq_none_iff] at hg
    subst hg
    simp only [List.append_nil]
    by_cases has : as = []
    · subst has
      simp only [attrsOf, List.append_nil]
      cases hd : disp.getLast? with
      | none => rw [List.getLast?_eq_none_iff] at hd; subst hd; simp [nameOK2] at hn
      | some b =>
        refine ⟨b, rfl, ?_⟩
        have hm := List.mem_of_getLast? hd
        cases disp with
        | nil => simp at hm
        | cons c nm =>
          simp only [nameOK2, Bool.and_eq_true, List.all_eq_true] at hn
          simp only [List.mem_cons] at hm
          rcases hm with rfl | hm
          · exact (isAlnum_lt (isAlpha_alnum hn.1)).2
          · have := hn.2 b hm
            simp only [nameByte, Bool.and_eq_true, bne_iff_ne, ne_eq] at this
            exact this.1.2
    · obtain ⟨b, hb, h47⟩ := attrsOf_last as has hok
      exact ⟨b, by rw [List.getLast?_append, hb]; rfl, h47⟩

def TagEnd.kind : TagEnd → TokenType
  | .gt => .startTag
  | .slashGt => .selfClosing

/-- **closed form of `next` on a start tag / self-closing tag** (any name `read_tag_name` accepts) followed by anything -/
theorem start_tag_closed_form2 (t : Tokenizer) (disp : Bytes) (as : List SAttr) (trail : Bytes) (e : TagEnd)
    (ok : Ok t) (he : t.err = false) (htag : t.rawTag = []) (hn : nameOK2 disp = true)
    (hok : ∀ a ∈ as, a.ok = true) (htr : ∀ b ∈ trail, isWs b = true) (hend : endOK as trail e = true)
    (h : Has t t.rawE ([60] ++ disp ++ attrsOf as ++ trail ++ e.text)) :
    Piece t (next t) e.kind ([60] ++ disp ++ attrsOf as ++ trail ++ e.text).length
      (if isRawName (disp.map lowerByte) then disp.map lowerByte else []) ∧
    (next t).dataS = t.rawE + 1 ∧ (next t).dataE = t.rawE + 1 + disp.length := by
  cases disp with
  | nil => simp [nameOK2] at hn
  | cons c nm =>
    simp only [nameOK2, Bool.and_eq_true, List.all_eq_true] at hn
    obtain ⟨hc, hnm⟩ := hn
    have hx : [60] ++ (c :: nm) ++ attrsOf as ++ trail ++ e.text = 60 :: c :: (nm ++ (attrsOf as ++ trail ++ e.text)) := by
      simp [List.append_assoc]
    rw [hx] at h ⊢
    obtain ⟨hnx, o1, o2, o3, o4, o5, o6, o7, o8, o9⟩ := next_dispatch t c ok he htag
      (fun i hi => by have := h i (by simp at hi ⊢; omega); rw [this]; match i, hi with | 0, _ => rfl | 1, _ => rfl)
      (by simp [isOpener, hc])
    generalize opened t = S at *
    have hS : Has S S.rawE (nm ++ (attrsOf as ++ trail ++ e.text)) :=
      ((h.tail.tail).congr o4).at (by rw [o1])
    have run := readTag_run nm as trail e S true o7 (by omega) o3 hnm hok htr hend hS
    have a1 := readTag_adv S true o7 (by omega)
    obtain ⟨⟨r1, r2⟩, r3, r4⟩ := run
    -- the raw-text lookup
    have hdisp : Has (readTag S true) (readTag S true).dataS (c :: nm) := by
      have h1 : Has t (t.rawE + 1) ((c :: nm) ++ (attrsOf as ++ trail ++ e.text)) := by
        simpa [List.append_assoc] using h.tail
      exact (h1.left.congr (a1.buf.trans o4)).at (by rw [r3, o1]; omega)
    have hdE : (readTag S true).dataE = (readTag S true).dataS + (c :: nm).length := by
      rw [r4, r3, o1]; simp; omega
    have hlook := rawLookup_closed htmlRawDispatch rawTable_wf (c :: nm) (lowerByte c) (readTag S true) hdisp hdE (by simp)
    have hle := a1.ok.le
    have hlt : (readTag S true).dataS < (readTag S true).buf.size := by rw [r3, o1]; rw [r1, o1] at hle; omega
    have hfirst : (readTag S true).buf[(readTag S true).dataS]'hlt = c := by
      have := hdisp.head
      rw [Array.getElem?_eq_getElem hlt] at this; injection this
    -- a name found in the dispatch table consists of ASCII letters
    have hascii : isRawName ((c :: nm).map lowerByte) = true → ∀ b ∈ (c :: nm), b < 128 := by
      intro hr b hb
      have hmem : (c :: nm).map lowerByte ∈ htmlRawDispatch.flatMap (·.2) := by
        unfold isRawName at hr; exact List.contains_iff_mem.mp hr
      have := rawNames_letters _ hmem (lowerByte b) (List.mem_map_of_mem hb)
      have := le_lowerByte b
      omega
    have hslice : (readTag S true).slice? (readTag S true).dataS (readTag S true).dataE = some (c :: nm) := by
      unfold slice?
      have hin : (readTag S true).dataS ≤ (readTag S true).dataE ∧ (readTag S true).dataE ≤ (readTag S true).buf.size := by
        rw [hdE]; rw [r4, o1] at *; rw [r1, o1] at hle; simp at *; omega
      rw [if_pos hin, hdE, has_extract hdisp (by rw [← hdE]; exact hin.2)]
    have hlook' : rawLookup (readTag S true) (lowerByte c) htmlRawDispatch = some (isRawName ((c :: nm).map lowerByte)) := hlook
    have hraw : startTagRaw (readTag S true) =
        if isRawName ((c :: nm).map lowerByte) then { readTag S true with rawTag := (c :: nm).map lowerByte }
        else readTag S true := by
      unfold startTagRaw
      rw [dif_pos hlt]
      simp only [hfirst]
      rw [hlook']
      cases hb : isRawName ((c :: nm).map lowerByte) with
      | false => rfl
      | true =>
        simp only [hslice, validUtf8_of_ascii _ (hascii hb), if_true]
    -- unfold `next`
    rw [hnx]
    unfold dispatchTag
    simp only [htmlTagOpenLen]
    rw [if_neg (by omega), if_neg (by rw [o2, o1]; omega), if_pos hc]
    unfold readStartTag
    simp only
    rw [if_neg (by rw [r2]; exact Bool.false_ne_true), hraw]
    -- the fields of the state after the raw-text detection
    generalize hT2 : (if isRawName ((c :: nm).map lowerByte) then { readTag S true with rawTag := (c :: nm).map lowerByte }
        else readTag S true) = T2
    have f : T2.rawE = (readTag S true).rawE ∧ T2.err = (readTag S true).err ∧ T2.buf = (readTag S true).buf ∧
        T2.rawS = (readTag S true).rawS ∧ T2.dataS = (readTag S true).dataS ∧ T2.dataE = (readTag S true).dataE ∧
        T2.panic = (readTag S true).panic ∧ T2.utf8Err = (readTag S true).utf8Err ∧
        T2.allowCdata = (readTag S true).allowCdata ∧
        T2.rawTag = (if isRawName ((c :: nm).map lowerByte) then (c :: nm).map lowerByte else (readTag S true).rawTag) := by
      rw [← hT2]; split <;> exact ⟨rfl, rfl, rfl, rfl, rfl, rfl, rfl, rfl, rfl, rfl⟩
    obtain ⟨f1, f2, f3, f4, f5, f6, f7, f8, f9, f10⟩ := f
    have hpf : ¬ (T2.panic || T2.utf8Err) = true := by rw [f7, f8, a1.ok.panic, a1.ok.utf8]; decide
    have hlenx : (60 :: c :: (nm ++ (attrsOf as ++ trail ++ e.text))).length =
        2 + (nm.length + (attrsOf as ++ trail ++ e.text).length) := by simp; omega
    have hrE : T2.rawE = t.rawE + (60 :: c :: (nm ++ (attrsOf as ++ trail ++ e.text))).length := by
      rw [f1, r1, o1, hlenx]; omega
    have hsz : ¬ (T2.rawE < 2 || T2.buf.size ≤ T2.rawE - 2) = true := by
      simp only [Bool.or_eq_true, decide_eq_true_eq, not_or]
      rw [f3]; rw [← f1] at hle
      rw [hrE, hlenx] at hle ⊢
      have : 1 ≤ (attrsOf as ++ trail ++ e.text).length := by
        cases e <;> simp only [TagEnd.text, List.length_append, List.length_cons, List.length_nil] <;> omega
      omega
    rw [if_neg hpf, if_neg hsz]
    -- the kind: the byte before the `>`
    have hkind : startTagKind T2 = e.kind := by
      unfold startTagKind
      have hlt2 : T2.rawE - 2 < T2.buf.size := by
        simp only [Bool.or_eq_true, decide_eq_true_eq, not_or] at hsz; omega
      rw [dif_pos hlt2]
      have herr2 : T2.err = false := by rw [f2, r2]
      -- position of that byte in the piece
      have hidx : ∀ (i : Nat) (hi : i < (60 :: c :: (nm ++ (attrsOf as ++ trail ++ e.text))).length),
          t.rawE + i = T2.rawE - 2 →
          T2.buf[T2.rawE - 2]'hlt2 = (60 :: c :: (nm ++ (attrsOf as ++ trail ++ e.text)))[i] := by
        intro i hi hpos
        have := h i hi
        rw [hpos, ← o4, ← a1.buf, ← f3, Array.getElem?_eq_getElem hlt2] at this
        injection this
      cases e with
      | slashGt =>
        have := hidx (2 + (nm.length + (attrsOf as ++ trail).length)) (by simp [TagEnd.text]; omega)
          (by rw [hrE, hlenx]; simp [TagEnd.text]; omega)
        rw [this]
        have : (60 :: c :: (nm ++ (attrsOf as ++ trail ++ TagEnd.slashGt.text)))[2 + (nm.length + (attrsOf as ++ trail).length)]'
            (by simp [TagEnd.text]; omega) = 47 := by
          simp only [TagEnd.text, List.getElem_cons_succ, show 2 + (nm.length + (attrsOf as ++ trail).length) =
            (nm.length + (attrsOf as ++ trail).length) + 1 + 1 by omega]
          rw [List.getElem_append_right (by simp), List.getElem_append_right (by simp)]
          simp
        rw [this, herr2]; rfl
      | gt =>
        obtain ⟨b, hb, h47⟩ := body_last (c :: nm) as trail (by simp [nameOK2, hc]; exact hnm) hok htr
        have hL : ((c :: nm) ++ attrsOf as ++ trail).length = 1 + nm.length + (attrsOf as ++ trail).length := by
          simp; omega
        have := hidx (1 + nm.length + (attrsOf as ++ trail).length) (by simp [TagEnd.text]; omega)
          (by rw [hrE, hlenx]; simp [TagEnd.text]; omega)
        rw [this]
        have hget : (60 :: c :: (nm ++ (attrsOf as ++ trail ++ TagEnd.gt.text)))[1 + nm.length + (attrsOf as ++ trail).length]'
            (by simp [TagEnd.text]; omega) = b := by
          have e1 : 60 :: c :: (nm ++ (attrsOf as ++ trail ++ TagEnd.gt.text)) =
              60 :: (((c :: nm) ++ attrsOf as ++ trail) ++ [62]) := by simp [TagEnd.text, List.append_assoc]
          have hb' := hb
          rw [List.getLast?_eq_getElem?] at hb'
          have hlt3 : ((c :: nm) ++ attrsOf as ++ trail).length - 1 < ((c :: nm) ++ attrsOf as ++ trail).length := by
            rw [hL]; omega
          rw [List.getElem?_eq_getElem hlt3] at hb'
          injection hb' with hb'
          simp only [e1, show 1 + nm.length + (attrsOf as ++ trail).length =
            (((c :: nm) ++ attrsOf as ++ trail).length - 1) + 1 by rw [hL]; omega, List.getElem_cons_succ]
          rw [List.getElem_append_left hlt3]
          exact hb'
        rw [hget, herr2]
        have : (b == 47) = false := by simpa using h47
        simp [this, TagEnd.kind]
    have hrs : T2.rawS = t.rawE := by rw [f4, a1.rawS, o2]
    refine ⟨⟨hkind, hrs, hrE, by rw [f2, r2], ?_, by rw [f9, a1.cdata, o6], by rw [f3, a1.buf, o4]⟩,
      by show T2.dataS = _; rw [f5, r3, o1]; omega, by show T2.dataE = _; rw [f6, r4, o1]; simp; omega⟩
    show T2.rawTag = _
    rw [f10, a1.rawTag, o5]

/-- the `Simple`-grammar instance (names = a letter followed by letters / digits) -/
theorem start_tag_closed_form (t : Tokenizer) (disp : Bytes) (as : List SAttr) (trail : Bytes) (e : TagEnd)
    (ok : Ok t) (he : t.err = false) (htag : t.rawTag = []) (hn : nameOK disp = true)
    (hok : ∀ a ∈ as, a.ok = true) (htr : ∀ b ∈ trail, isWs b = true) (hend : endOK as trail e = true)
    (h : Has t t.rawE ([60] ++ disp ++ attrsOf as ++ trail ++ e.text)) :
    Piece t (next t) e.kind ([60] ++ disp ++ attrsOf as ++ trail ++ e.text).length
      (if isRawName (disp.map lowerByte) then disp.map lowerByte else []) ∧
    (next t).dataS = t.rawE + 1 ∧ (next t).dataE = t.rawE + 1 + disp.length :=
  start_tag_closed_form2 t disp as trail e ok he htag (nameOK2_of_nameOK hn) hok htr hend h

end Tokenizer
end Rio.Html
