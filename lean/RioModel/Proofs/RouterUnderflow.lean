/-
Router proofs: NO `self.count -= 1` of ANY matcher of the tower underflows (review A, C02-3).

`Rio.C02.count_no_underflow` is about the outermost matcher.  `remove` of a matcher calls `remove` of its buckets
(`any_*` first, then – `retain` – EVERY keyed bucket), so one `Router::remove` executes many decrements, in all
seven layers.  The model's `count - 1` is a truncated subtraction; here the decrement sites are made explicit:
`under id m` is the executable predicate "while `remove id` runs on the state `m`, some `count -= 1` – of this
matcher or of any bucket below it – finds `count == 0`" (in the code: a panic with overflow checks, a wrap-around
without), defined layer by layer along the control flow of the `remove` functions, and `safe` proves it false in
every state that represents a rule list.  The two decrements of each matcher (`any` bucket hit / keyed bucket hit;
for the path matcher: tree hit / static hit) are both guarded by "the route was found", which is why one clause
per matcher suffices.
-/
import RioModel.Proofs.RouterTreeTop

set_option linter.unusedSimpArgs false
set_option linter.unusedVariables false
set_option linter.unusedSectionVars false

namespace Rio.Router
open Rio.Regex Rio.Tree

/-- A decrement-site detector for a matcher with representation relation `Repr`, and the proof that it never
fires in a represented state. -/
structure UFlow (I : MOps) (Repr : I.M → List Route → Prop) where
  /-- some `count -= 1` executed by `remove id` on this state (here or in a bucket below) finds `count == 0` -/
  under : String → I.M → Bool
  safe : ∀ m L id, Repr m L → under id m = false

/-- The innermost matcher (`PathAndQueryMatcher`, over the specification of its tree or over the tree model): both
decrements (`regex_tree_rule.remove(id)` found the route / a static bucket held it) are executed iff `remove`
returns the route. -/
def leafUFlow {I : MOps} (IL : MLaws I) : UFlow I IL.Repr where
  under := fun id m => (I.remove id m).2.isSome && I.len m == 0
  safe := by
    intro m L id h
    cases hs : (I.remove id m).2.isSome
    · rfl
    · have := IL.remove_pos m L id h hs
      have h0 : (I.len m == 0) = false := by simp; omega
      simp [h0]

section
variable {K : Type} [DecidableEq K] (I : MOps)

/-- `remove` of the six outer matchers, decrement sites made explicit: `self.any_*.remove(id)` runs first (and may
underflow below); if it found the route, `self.count -= 1`; otherwise `retain` runs `remove(id)` on EVERY keyed
bucket, and if one of them held the route, `self.count -= 1`. -/
def lUnderflow (Iu : String → I.M → Bool) (id : String) (s : LState I K) : Bool :=
  Iu id s.any ||
    (if (I.remove id s.any).2.isSome then s.count == 0
     else s.map.any (fun e => Iu id e.2) || ((removeAll I id s.map).2.isSome && s.count == 0))

variable {I} (IL : MLaws I) (keysOf : Route → Option (List K))

theorem lUnderflow_safe (U : UFlow I IL.Repr) (s : LState I K) (L : List Route) (id : String)
    (h : LRepr IL keysOf s L) : lUnderflow I U.under id s = false := by
  unfold lUnderflow
  have hany := U.safe _ _ id h.any
  have hmap : s.map.any (fun e => U.under id e.2) = false := by
    rw [List.any_eq_false]
    intro e he
    have := U.safe _ _ id (h.some e.1 e.2 (alookup_of_mem h.nodup he))
    simp [this]
  rw [hany, Bool.false_or, hmap, Bool.false_or]
  cases ha : (I.remove id s.any).2.isSome
  · simp only [Bool.false_eq_true, if_false]
    cases hr : (removeAll I id s.map).2.isSome
    · rfl
    · have hpos := lremove_pos IL keysOf s L id h (by simp [lRemove, ha, hr])
      have h0 : (s.count == 0) = false := by simp; omega
      simp [h0]
  · simp only [if_true]
    have hpos := lremove_pos IL keysOf s L id h (by simp [lRemove, ha])
    simp; omega

/-- One of the six outer matchers over a matcher that has a detector. -/
def outerUFlow (U : UFlow I IL.Repr) (mr : LState I K → Req → List Route) (tr : LState I K → Req → List Trace) :
    UFlow (outerOps I keysOf mr tr) (LRepr IL keysOf) where
  under := lUnderflow I U.under
  safe := fun s L id h => lUnderflow_safe IL keysOf U s L id h

end

/-! ### `HostMatcher` over the real regex tree -/

section
variable (T : TEnv) (Good : List Char → Prop) {I : MOps} (IL : MLaws I) (hPS : PrefixSound T.engine Good)

/-- `HostMatcher::remove`, decrement sites made explicit: `any_host.remove(id)`; if found `count -= 1`; otherwise
BOTH `retain`s run `remove(id)` on every static bucket and on every bucket of the regex tree, then `count -= 1` if
one of them held the route. -/
def HostT.underflow (Iu : String → I.M → Bool) (id : String) (s : HostTState I) : Bool :=
  Iu id s.any ||
    (if (I.remove id s.any).2.isSome then s.count == 0
     else s.statics.any (fun e => Iu id e.2) || s.tree.contents.any (fun e => Iu id e.val) ||
       ((HostT.remove I id s).2.isSome && s.count == 0))

include hPS in
theorem HostT.underflow_safe (U : UFlow I IL.Repr) (s : HostTState I) (L : List Route) (id : String)
    (h : HTRepr T Good IL s L) : HostT.underflow U.under id s = false := by
  unfold HostT.underflow
  have hany := U.safe _ _ id h.repr.any
  have hnd := h.repr.nodup
  have hst : s.statics.any (fun e => U.under id e.2) = false := by
    rw [List.any_eq_false]
    intro e he
    have hm : (HKeyG.static e.1, e.2) ∈ (absH s).map := by
      simp only [absH, List.mem_append, staticMap, List.mem_map]
      exact Or.inl ⟨e, he, rfl⟩
    have := U.safe _ _ id (h.repr.some _ _ (alookup_of_mem hnd hm))
    simp [this]
  have htr : s.tree.contents.any (fun e => U.under id e.val) = false := by
    rw [List.any_eq_false]
    intro e he
    have hm : (HKeyG.dyn e.pat, e.val) ∈ (absH s).map := by
      simp only [absH, List.mem_append, treeMap, List.mem_map]
      exact Or.inr ⟨e, he, rfl⟩
    have := U.safe _ _ id (h.repr.some _ _ (alookup_of_mem hnd hm))
    simp [this]
  have hany' : U.under id s.any = false := hany
  rw [hany', Bool.false_or, hst, htr]
  simp only [Bool.or_self, Bool.false_or]
  cases ha : (I.remove id s.any).2.isSome
  · simp only [Bool.false_eq_true, if_false]
    cases hr : (HostT.remove I id s).2.isSome
    · rfl
    · have hpos := (hostTLaws T Good IL hPS).remove_pos s L id h hr
      have h0 : (s.count == 0) = false := by
        have : 0 < s.count := hpos
        simp; omega
      simp [h0]
  · simp only [if_true]
    have hr : (HostT.remove I id s).2.isSome = true := by
      cases hra : (I.remove id s.any).2 with
      | none => rw [hra] at ha; simp at ha
      | some r0 => rw [HostT.remove_of_some id s r0 hra]; rfl
    have hpos : 0 < s.count := (hostTLaws T Good IL hPS).remove_pos s L id h hr
    simp; omega

/-- `HostMatcher` over the real tree, over a matcher that has a detector. -/
def hostTUFlow (U : UFlow I IL.Repr) : UFlow (hostTOps T I) (HTRepr T Good IL) where
  under := HostT.underflow U.under
  safe := fun s L id h => HostT.underflow_safe T Good IL hPS U s L id h

end

/-! ### The towers -/

section
variable (E : Env) {P0 : MOps} (PL : MLaws P0) (UP : UFlow P0 PL.Repr)

def dateTimeU : UFlow (dateTimeOps P0) (dateTimeL PL).Repr := outerUFlow PL DateTime.keysOf UP _ _
def headerU : UFlow (headerOps E (dateTimeOps P0)) (headerL E PL).Repr :=
  outerUFlow (dateTimeL PL) (Header.keysOf E) (dateTimeU PL UP) _ _
def methodU : UFlow (methodOps (headerOps E (dateTimeOps P0))) (methodL E PL).Repr :=
  outerUFlow (headerL E PL) Method.keysOf (headerU E PL UP) _ _
def ipU : UFlow (ipOps (methodOps (headerOps E (dateTimeOps P0)))) (ipL E PL).Repr :=
  outerUFlow (methodL E PL) Ip.keysOf (methodU E PL UP) _ _

variable {P : Type} [DecidableEq P] (H : HostCfg P)

def hostU : UFlow (hostOps H (ipOps (methodOps (headerOps E (dateTimeOps P0))))) (hostL E PL H).Repr :=
  outerUFlow (ipL E PL) (Host.keysOf H) (ipU E PL UP) _ _
def towerU : UFlow (schemeOps (hostOps H (ipOps (methodOps (headerOps E (dateTimeOps P0)))))) (towerL E PL H).Repr :=
  outerUFlow (hostL E PL H) Scheme.keysOf (hostU E PL UP H) _ _

/-- The detector of the whole specification-level tower: all 14 decrement sites of the seven matchers. -/
def towerUFlow : UFlow (towerOps E) (towerLaws E).Repr := towerU E (pathLaws E) (leafUFlow (pathLaws E)) (specHost E)

end

section
variable (T : TEnv) (Good : List Char → Prop) (hPS : PrefixSound T.engine Good)

/-- The detector of the tower over the real regex trees (`HostMatcher` and `PathAndQueryMatcher` over tree models). -/
def towerTUFlow : UFlow (towerTOps T) (towerTLaws T Good hPS).Repr :=
  outerUFlow (hostTLaws T Good (innerTLaws T Good hPS) hPS) Scheme.keysOf
    (hostTUFlow T Good (innerTLaws T Good hPS) hPS
      (ipU T.env (pathTLaws T Good hPS) (leafUFlow (pathTLaws T Good hPS)))) _ _

end

end Rio.Router
