/-
`is_empty`, and `UniqueRegexTreeMap` (`tree.rs`): the id of an entry is its pattern, so the side
condition "an id in use determines its pattern" holds by construction and `get(p)` is the value stored
under `p`.
-/
import RioModel.Proofs.TreeHistory
set_option linter.unusedSimpArgs false
set_option linter.unusedVariables false
set_option linter.unusedSectionVars false

namespace Rio.Tree
open Rio.Scan Rio.Regex

variable {ι V : Type} [DecidableEq ι]

/-! ### is_empty -/

theorem contents_ne_nil {ic : Bool} (t : Item ι V) (h : t.inv ic = true) (hne : t.isEmptyCtor = false) :
    t.contents ≠ [] := by
  induction t using Item.ind with
  | hE ic' => simp [Item.isEmptyCtor] at hne
  | hL rx vs =>
    obtain ⟨_, _, h3, _⟩ := inv_leaf_iff.1 h
    simpa using h3
  | hN rx cs ih =>
    obtain ⟨_, _, _, h4, h5, _, h7⟩ := inv_node_iff.1 h
    cases cs with
    | nil => simp at h4
    | cons c cs =>
      have := ih c (by simp) (h7 c (by simp)) (childOk_notEmpty (h5 c (by simp)))
      simp [contentsL, this]

/-- Under the invariant, `is_empty()` says exactly that nothing is stored. -/
theorem isEmpty_iff {ic : Bool} (t : Item ι V) (h : t.inv ic = true) :
    t.isEmpty = true ↔ t.contents = [] := by
  constructor
  · exact isEmpty_contents t
  · intro hc
    cases hne : t.isEmptyCtor with
    | true => cases t <;> simp_all [Item.isEmptyCtor, isEmpty_empty]
    | false => exact absurd hc (contents_ne_nil t h hne)

/-! ### Histories of a `UniqueRegexTreeMap` -/

/-- Every insert stores its value under the pattern itself. -/
def UniqueHist : List (Op (List Char) V) → Prop
  | [] => True
  | .insert p id _ :: ops => id = p ∧ UniqueHist ops
  | _ :: ops => UniqueHist ops

/-- Patterns inserted by a history. -/
def insertedPats' : List (Op ι V) → List (List Char)
  | [] => []
  | .insert p _ _ :: ops => p :: insertedPats' ops
  | _ :: ops => insertedPats' ops

/-- For a unique map the id condition of `histOk` is automatic. -/
theorem histOk_unique (good : List Char → Bool) (ops : List (Op (List Char) V)) :
    ∀ (L : List (Entry (List Char) V)), (∀ e ∈ L, e.id = e.pat) → UniqueHist ops →
      (∀ p ∈ insertedPats' ops, good p = true) → histOk good L ops = true := by
  induction ops with
  | nil => intro _ _ _ _; rfl
  | cons op ops ih =>
    intro L hL hu hg
    rw [histOk_cons, Bool.and_eq_true]
    cases op with
    | insert p id v =>
      obtain ⟨rfl, hu'⟩ := hu
      refine ⟨?_, ih _ ?_ hu' fun q hq => hg q (by simp [insertedPats', hq])⟩
      · simp only [opOk, Bool.and_eq_true, List.all_eq_true, decide_eq_true_eq]
        exact ⟨hg id (by simp [insertedPats']), fun e he hid => by rw [← hL e he]; exact hid⟩
      · intro e he
        rcases mem_refInsert he with rfl | he
        · rfl
        · exact hL e he
    | remove id =>
      exact ⟨rfl, ih _ (fun e he => hL e (mem_refRemove he)) hu fun q hq => hg q (by simpa [insertedPats'] using hq)⟩
    | retain f =>
      exact ⟨rfl, ih _ (fun e he => by
          obtain ⟨e0, he0, hp, hi, _⟩ := mem_refRetain he
          rw [hp, hi]; exact hL e0 he0) hu
        fun q hq => hg q (by simpa [insertedPats'] using hq)⟩
    | modify p g =>
      exact ⟨rfl, ih _ (fun e he => by
          obtain ⟨e0, he0, hp, hi⟩ := mem_refModify he
          rw [hp, hi]; exact hL e0 he0) hu
        fun q hq => hg q (by simpa [insertedPats'] using hq)⟩
    | cache limit level =>
      exact ⟨rfl, ih _ hL hu fun q hq => hg q (by simpa [insertedPats'] using hq)⟩

/-- The live entries of a unique history keep `id = pattern`. -/
theorem refRun_unique (ops : List (Op (List Char) V)) :
    ∀ (L : List (Entry (List Char) V)), (∀ e ∈ L, e.id = e.pat) → UniqueHist ops →
      ∀ e ∈ refRun L ops, e.id = e.pat := by
  induction ops with
  | nil => intro L hL _; exact hL
  | cons op ops ih =>
    intro L hL hu
    cases op with
    | insert p id v =>
      obtain ⟨rfl, hu'⟩ := hu
      refine ih _ ?_ hu'
      intro e he
      rcases mem_refInsert he with rfl | he
      · rfl
      · exact hL e he
    | remove id => exact ih _ (fun e he => hL e (mem_refRemove he)) hu
    | retain f =>
      exact ih _ (fun e he => by
        obtain ⟨e0, he0, hp, hi, _⟩ := mem_refRetain he
        rw [hp, hi]; exact hL e0 he0) hu
    | modify p g =>
      exact ih _ (fun e he => by
        obtain ⟨e0, he0, hp, hi⟩ := mem_refModify he
        rw [hp, hi]; exact hL e0 he0) hu
    | cache limit level => exact ih _ hL hu

/-! ### `UniqueRegexTreeMap::get` -/

theorem filter_id_length_le_one {L : List (Entry ι V)} (h : IdNodup L) (id : ι) :
    (L.filter fun e => decide (e.id = id)).length ≤ 1 := by
  induction L with
  | nil => simp
  | cons a L ih =>
    rw [IdNodup, List.pairwise_cons] at h
    rw [List.filter_cons]
    split
    · next ha =>
      simp only [decide_eq_true_eq] at ha
      have : (L.filter fun e => decide (e.id = id)) = [] := by
        rw [List.filter_eq_nil_iff]
        intro e he
        simp only [decide_eq_true_eq]
        intro hid; exact h.1 e he (by rw [ha, hid])
      simp [this]
    · exact ih h.2

theorem refRemoved_eq_head (L : List (Entry ι V)) (id : ι) :
    refRemoved L id = ((L.filter fun e => decide (e.id = id)).map (·.val)).head? := by
  induction L with
  | nil => simp [refRemoved]
  | cons a L ih =>
    simp only [refRemoved, List.filter_cons]
    split
    · next ha => simp [ha]
    · next ha => simp [ha, ih]

theorem perm_short_eq {α : Type} {l l' : List α} (hp : l.Perm l') (hl : l.length ≤ 1) : l = l' := by
  match l, l', hp, hl with
  | [], l', hp, _ => exact (List.Perm.nil_eq hp)
  | [a], l', hp, _ => exact (List.perm_singleton.1 hp.symm).symm

theorem getLast?_eq_head?_of_short {α : Type} (l : List α) (h : l.length ≤ 1) : l.getLast? = l.head? := by
  match l, h with
  | [], _ => rfl
  | [a], _ => rfl
  | _ :: _ :: _, h => simp at h

/-- `UniqueRegexTreeMap::get(p)` (`self.tree.get(p).pop()`) is the value stored under `p`. -/
theorem uGet_spec {ic : Bool} {t : Item (List Char) V} {L : List (Entry (List Char) V)}
    (hrep : Rep ic t L) (hnd : IdNodup L) (hid : ∀ e ∈ L, e.id = e.pat) (p : List Char) :
    uGet t p = refRemoved L p := by
  obtain ⟨hinv, hperm⟩ := hrep
  have hfe : (L.filter fun e => decide (e.pat = p)) = L.filter fun e => decide (e.id = p) := by
    apply List.filter_congr
    intro e he; rw [hid e he]
  have hshort : ((L.filter fun e => decide (e.pat = p)).map (·.val)).length ≤ 1 := by
    rw [hfe, List.length_map]; exact filter_id_length_le_one hnd p
  have hget : t.get p = (L.filter fun e => decide (e.pat = p)).map (·.val) := by
    rw [get_eq_filter t hinv p]
    exact (perm_short_eq ((hperm.symm.filter _).map _) hshort).symm
  unfold uGet
  rw [hget, refRemoved_eq_head, ← hfe]
  exact getLast?_eq_head?_of_short _ hshort

end Rio.Tree
