/-
Helper lemmas for C03 / C04 / C14 (chain glue, text stages, the `Edit` relation).
The html stage itself is in `Proofs/FilterHtml.lean`.
-/
import RioModel.Model.Filter
set_option linter.unusedSimpArgs false
set_option linter.unusedVariables false

namespace Rio.Filter

/-! ### the conservativity relation -/

/-- a span that a replace filter may substitute: starts with `<`, ends with `>` -/
def IsSpan (s : Bytes) : Prop := s.head? = some 60 ∧ s.getLast? = some 62

/-- `Edit I R a b`: `b` is obtained from `a` by a sequence of (i) insertions of a whole value of `I` at some
position, (ii) substitutions of a `<`…`>` span by a whole value of `R`.  Nothing else: no byte of `a` is lost,
duplicated or moved.  (A later operation may fall inside an earlier inserted value — that is what a chain of filters
can do.) -/
inductive Edit (I R : List Bytes) : Bytes → Bytes → Prop
  | refl (a : Bytes) : Edit I R a a
  | ins {a p q v : Bytes} : v ∈ I → Edit I R a (p ++ q) → Edit I R a (p ++ v ++ q)
  | rep {a p s q v : Bytes} : v ∈ R → IsSpan s → Edit I R a (p ++ s ++ q) → Edit I R a (p ++ v ++ q)

namespace Edit
variable {I R : List Bytes}

theorem trans {a b c : Bytes} (h1 : Edit I R a b) (h2 : Edit I R b c) : Edit I R a c := by
  induction h2 with
  | refl => exact h1
  | ins hv _ ih => exact .ins hv ih
  | rep hv hs _ ih => exact .rep hv hs ih

theorem mono {I' R' : List Bytes} (hI : ∀ v, v ∈ I → v ∈ I') (hR : ∀ v, v ∈ R → v ∈ R') {a b : Bytes}
    (h : Edit I R a b) : Edit I' R' a b := by
  induction h with
  | refl => exact .refl _
  | ins hv _ ih => exact .ins (hI _ hv) ih
  | rep hv hs _ ih => exact .rep (hR _ hv) hs ih

theorem appL (x : Bytes) {a b : Bytes} (h : Edit I R a b) : Edit I R (x ++ a) (x ++ b) := by
  induction h with
  | refl => exact .refl _
  | @ins p q v hv _ ih =>
    have : x ++ (p ++ v ++ q) = (x ++ p) ++ v ++ q := by simp
    rw [this]
    apply Edit.ins hv
    simpa using ih
  | @rep p s q v hv hs _ ih =>
    have : x ++ (p ++ v ++ q) = (x ++ p) ++ v ++ q := by simp
    rw [this]
    apply Edit.rep hv hs
    simpa using ih

theorem appR (y : Bytes) {a b : Bytes} (h : Edit I R a b) : Edit I R (a ++ y) (b ++ y) := by
  induction h with
  | refl => exact .refl _
  | @ins p q v hv _ ih =>
    have : p ++ v ++ q ++ y = p ++ v ++ (q ++ y) := by simp
    rw [this]
    apply Edit.ins hv
    simpa using ih
  | @rep p s q v hv hs _ ih =>
    have : p ++ v ++ q ++ y = p ++ v ++ (q ++ y) := by simp
    rw [this]
    apply Edit.rep hv hs
    simpa using ih

/-- one insertion -/
theorem ins1 {v : Bytes} (hv : v ∈ I) (p q : Bytes) : Edit I R (p ++ q) (p ++ v ++ q) :=
  .ins hv (.refl _)

/-- one substitution -/
theorem rep1 {v s : Bytes} (hv : v ∈ R) (hs : IsSpan s) (p q : Bytes) : Edit I R (p ++ s ++ q) (p ++ v ++ q) :=
  .rep hv hs (.refl _)

/-- insert-only edits never shrink -/
theorem length_le {a b : Bytes} (h : Edit I [] a b) : a.length ≤ b.length := by
  induction h with
  | refl => exact Nat.le_refl _
  | ins _ _ ih => simp at ih ⊢; omega
  | rep hv => simp at hv

end Edit

/-! ### stream relations (what a stage may do to the stream) -/

/-- a reflexive, transitive relation compatible with concatenation on both sides -/
structure StreamRel where
  r : Bytes → Bytes → Prop
  refl : ∀ a, r a a
  trans : ∀ {a b c}, r a b → r b c → r a c
  appL : ∀ (x : Bytes) {a b}, r a b → r (x ++ a) (x ++ b)
  appR : ∀ (y : Bytes) {a b}, r a b → r (a ++ y) (b ++ y)

def editRel (I R : List Bytes) : StreamRel where
  r := Edit I R
  refl := .refl
  trans := Edit.trans
  appL := Edit.appL
  appR := Edit.appR

/-- the relation of a `replace_text` stage: the whole stream is replaced -/
def anyRel : StreamRel where
  r := fun _ _ => True
  refl := by intros; trivial
  trans := by intros; trivial
  appL := by intros; trivial
  appR := by intros; trivial

/-- relational composition along a chain -/
def Comp : List StreamRel → Bytes → Bytes → Prop
  | [], a, b => a = b
  | ρ :: ρs, a, c => ∃ b, ρ.r a b ∧ Comp ρs b c

theorem Comp.refl : ∀ (ρs : List StreamRel) (a : Bytes), Comp ρs a a
  | [], _ => rfl
  | ρ :: ρs, a => ⟨a, ρ.refl a, Comp.refl ρs a⟩

/-! ### text stages -/

/-- what a text stage may do -/
def textRel (s : TextSt) : StreamRel :=
  match s.action with
  | .replace => anyRel
  | _ => editRel [s.content] []

@[simp] theorem editRel_r (I R : List Bytes) : (editRel I R).r = Edit I R := rfl
@[simp] theorem anyRel_r (a b : Bytes) : anyRel.r a b = True := rfl

theorem filterText_action (s : TextSt) (x : Bytes) : (filterText s x).1.action = s.action ∧ (filterText s x).1.content = s.content := by
  obtain ⟨a, c, e⟩ := s
  cases a <;> cases e <;> simp [filterText]

theorem endText_action (s : TextSt) : (endText s).1.action = s.action ∧ (endText s).1.content = s.content := by
  obtain ⟨a, c, e⟩ := s
  cases e <;> simp [endText]

theorem textRel_filter (s : TextSt) (x : Bytes) : textRel (filterText s x).1 = textRel s := by
  have h := filterText_action s x
  unfold textRel
  rw [h.1, h.2]

theorem textRel_end (s : TextSt) : textRel (endText s).1 = textRel s := by
  have h := endText_action s
  unfold textRel
  rw [h.1, h.2]

theorem edit_ins_front (c x : Bytes) : Edit [c] [] x (c ++ x) := by
  have := Edit.ins1 (I := [c]) (R := []) (v := c) (by simp) [] x
  simpa using this

theorem filterText_rel (s : TextSt) (x : Bytes) : (textRel s).r x (filterText s x).2 := by
  obtain ⟨a, c, e⟩ := s
  cases a <;> cases e <;> simp [filterText, textRel, edit_ins_front] <;> exact Edit.refl _

theorem endText_rel (s : TextSt) : (textRel s).r [] (endText s).2 := by
  obtain ⟨a, c, e⟩ := s
  cases a <;> cases e <;> simp [endText, textRel] <;>
    first | exact Edit.refl _ | (have := edit_ins_front c []; simpa using this)

end Rio.Filter
