/-
W15: `match_request` AND `trace` of the two condition-group layers of the router (HeaderMatcher, DateTimeMatcher) with
their per-request memo `execute_conditions`, TRANSLATED from src/router/request_matcher/{header,datetime}.rs on every run
(`Rio.Consts.genHeaderMatchRequest`, `genHeaderTrace`, `genDateTimeMatchRequest`, `genDateTimeTrace` and their `Loop1` =
the `'group` loop / `Loop2` = the loop over one group's conditions; tools/consts_dev/w15_memo.py) are W2's `matchGroups` /
`traceGroups` (Model/RouterLayers.lean).

In the translation the memo is ABSTRACT (`BTreeMap::new` / `get` / `insert` are parameters); the hand-written model keeps an
association list (`alookup`, consing).  `MemoImpl` = any implementation of the three operations that SIMULATES the
association list (`R`); the equalities below hold for every such implementation (`MemoImpl.assoc` = the model's own list
is one, so the hypothesis is not vacuous; a map that overwrites in place is another one).
The next layer's `match_request(request)` / `trace(request)` / `len()` are the parameters `next` / `nextTrace` / `lenOf`
(instantiated with `I.matchReq · q`, `I.trace · q`, `I.len`); `Trace::new` is instantiated with the model's constructor
(the model's `TInfo` forgets the per-condition payload of `TraceInfo::HeaderGroup` / `DateTimeGroup`; the payload the
translated code builds is characterised separately, `traceLoop2_infos`).
`m.len() as u64` is `genAsU64 (I.len m)`: the trace equalities assume `I.len m < 2^64` for the buckets (true of any `usize`).
-/
import RioModel.Generated.Consts
import RioModel.Proofs.RouterTower
import RioModel.Proofs.RouterGen
import RioModel.Model.RouterTreeLayers
set_option linter.unusedSimpArgs false
set_option linter.unusedSectionVars false
set_option linter.unusedVariables false

namespace Rio.RouterMemoGen
open Rio.Consts Rio.Router

/-- An implementation of the memo (`BTreeMap<Condition, bool>`: `new`, `get`, `insert`) together with the relation `R` by
which it simulates the model's association list. -/
structure MemoImpl (σ C : Type) [DecidableEq C] where
  new : σ
  get : σ → C → Option Bool
  insert : σ → C → Bool → σ
  R : σ → List (C × Bool) → Prop
  r_new : R new []
  r_get : ∀ s l c, R s l → get s c = alookup c l
  r_insert : ∀ s l c b, R s l → R (insert s c b) ((c, b) :: l)

/-- the model's own representation -/
def MemoImpl.assoc (C : Type) [DecidableEq C] : MemoImpl (List (C × Bool)) C where
  new := []
  get := fun l c => alookup c l
  insert := fun l c b => (c, b) :: l
  R := fun s l => s = l
  r_new := rfl
  r_get := by intro s l c h; subst h; rfl
  r_insert := by intro s l c b h; subst h; rfl

/-- a map that overwrites in place (what a `BTreeMap` does): also an implementation -/
def overwrite {C : Type} [DecidableEq C] (c : C) (b : Bool) : List (C × Bool) → List (C × Bool)
  | [] => [(c, b)]
  | (c', b') :: rest => if c' = c then (c', b) :: rest else (c', b') :: overwrite c b rest

theorem alookup_overwrite {C : Type} [DecidableEq C] (c : C) (b : Bool) (l : List (C × Bool)) (x : C) :
    alookup x (overwrite c b l) = if c = x then some b else alookup x l := by
  induction l with
  | nil => simp [overwrite, alookup]
  | cons e rest ih =>
    obtain ⟨c', b'⟩ := e
    by_cases h : c' = c
    · subst h
      by_cases hx : c' = x <;> simp [overwrite, alookup, hx]
    · by_cases hx : c' = x
      · subst hx
        have : ¬ c = c' := fun e => h e.symm
        simp [overwrite, alookup, h, this]
      · simp [overwrite, alookup, h, hx, ih]

def MemoImpl.inPlace (C : Type) [DecidableEq C] : MemoImpl (List (C × Bool)) C where
  new := []
  get := fun l c => alookup c l
  insert := fun l c b => overwrite c b l
  R := fun s l => ∀ x, alookup x s = alookup x l
  r_new := fun _ => rfl
  r_get := by intro s l c h; exact h c
  r_insert := by
    intro s l c b h x
    rw [alookup_overwrite, alookup_cons, h x]

section
variable {σ C μ : Type} [DecidableEq C] (M : MemoImpl σ C)

/-! ## `match_request`: the loop over one group's conditions (`Loop2`) = `evalGroup` -/

theorem dtMatchLoop2_eq {ρ : Type} (next : μ → List ρ) (ev : C → Bool) (cs : List C) :
    ∀ (s : σ) (l : List (C × Bool)), M.R s l →
      (genDateTimeMatchRequestLoop2 next M.new M.get M.insert ev cs s).1 = (evalGroup ev cs l).1 ∧
      M.R (genDateTimeMatchRequestLoop2 next M.new M.get M.insert ev cs s).2 (evalGroup ev cs l).2 := by
  induction cs with
  | nil => intro s l h; exact ⟨rfl, h⟩
  | cons c cs ih =>
    intro s l h
    simp only [genDateTimeMatchRequestLoop2, evalGroup, M.r_get s l c h]
    cases hl : alookup c l with
    | none =>
      simp only
      cases hc : ev c
      · simp only [Bool.not_false, if_true]
        have := M.r_insert s l c false h
        exact ⟨trivial, this⟩
      · simp only [Bool.not_true, Bool.false_eq_true, if_false]
        exact ih _ _ (M.r_insert s l c true h)
    | some b =>
      simp only
      -- (robust against `if !r { continue }` written as `if r {} else { continue }`)
      cases b <;> simp only [Bool.not_false, Bool.not_true, Bool.false_eq_true, if_true, if_false, ↓reduceIte] <;>
        first | exact ⟨trivial, h⟩ | exact ⟨rfl, h⟩ | exact ih _ _ h

theorem hdMatchLoop2_eq {ρ ν χ : Type} (next : μ → List ρ) (condOf : C → χ) (nameOf : C → ν) (mv : χ → ν → Bool)
    (cs : List C) :
    ∀ (s : σ) (l : List (C × Bool)), M.R s l →
      (genHeaderMatchRequestLoop2 next M.new M.get M.insert condOf nameOf mv cs s).1 =
        (evalGroup (fun c => mv (condOf c) (nameOf c)) cs l).1 ∧
      M.R (genHeaderMatchRequestLoop2 next M.new M.get M.insert condOf nameOf mv cs s).2
        (evalGroup (fun c => mv (condOf c) (nameOf c)) cs l).2 := by
  induction cs with
  | nil => intro s l h; exact ⟨rfl, h⟩
  | cons c cs ih =>
    intro s l h
    simp only [genHeaderMatchRequestLoop2, evalGroup, M.r_get s l c h]
    cases hl : alookup c l with
    | none =>
      simp only
      cases hc : mv (condOf c) (nameOf c)
      · simp only [Bool.not_false, if_true]
        have := M.r_insert s l c false h
        exact ⟨trivial, this⟩
      · simp only [Bool.not_true, Bool.false_eq_true, if_false]
        exact ih _ _ (M.r_insert s l c true h)
    | some b =>
      simp only
      -- (robust against `if !r { continue }` written as `if r {} else { continue }`)
      cases b <;> simp only [Bool.not_false, Bool.not_true, Bool.false_eq_true, if_true, if_false, ↓reduceIte] <;>
        first | exact ⟨trivial, h⟩ | exact ⟨rfl, h⟩ | exact ih _ _ h

/-! ## `match_request`: the `'group` loop (`Loop1`) = `matchGroups` -/

theorem dtMatchLoop1_eq (I : MOps) (q : Req) (ev : C → Bool) (gs : List (List C × I.M)) :
    ∀ (rules : List Route) (s : σ) (l : List (C × Bool)), M.R s l →
      (genDateTimeMatchRequestLoop1 (fun m => I.matchReq m q) M.new M.get M.insert ev gs rules s).1 =
        matchGroups I ev q gs l rules := by
  induction gs with
  | nil => intro rules s l h; rfl
  | cons g gs ih =>
    obtain ⟨cs, b⟩ := g
    intro rules s l h
    have sp := dtMatchLoop2_eq M (fun m => I.matchReq m q) ev cs s l h
    simp only [genDateTimeMatchRequestLoop1, matchGroups, sp.1]
    cases hg : (evalGroup ev cs l).1
    · simp only [Bool.false_eq_true, if_false]; exact ih _ _ _ sp.2
    · simp only [if_true]; exact ih _ _ _ sp.2

theorem hdMatchLoop1_eq {ν χ : Type} (I : MOps) (q : Req) (condOf : C → χ) (nameOf : C → ν) (mv : χ → ν → Bool)
    (gs : List (List C × I.M)) :
    ∀ (rules : List Route) (s : σ) (l : List (C × Bool)), M.R s l →
      (genHeaderMatchRequestLoop1 (fun m => I.matchReq m q) M.new M.get M.insert condOf nameOf mv gs rules s).1 =
        matchGroups I (fun c => mv (condOf c) (nameOf c)) q gs l rules := by
  induction gs with
  | nil => intro rules s l h; rfl
  | cons g gs ih =>
    obtain ⟨cs, b⟩ := g
    intro rules s l h
    have sp := hdMatchLoop2_eq M (fun m => I.matchReq m q) condOf nameOf mv cs s l h
    simp only [genHeaderMatchRequestLoop1, matchGroups, sp.1]
    cases hg : (evalGroup (fun c => mv (condOf c) (nameOf c)) cs l).1
    · simp only [Bool.false_eq_true, if_false]; exact ih _ _ _ sp.2
    · simp only [if_true]; exact ih _ _ _ sp.2

/-! ## `trace`: the loop over one group's conditions (`Loop2`) = `traceGroup` -/

theorem dtTraceLoop2_eq {τ ι : Type} (nextTrace : μ → List τ) (lenOf : μ → Nat) (ev : C → Bool)
    (mk : Bool → Bool → Nat → List τ → ι → τ) (grp : List (GenTraceInfoDateTimeCondition C) → ι) (cs : List C) :
    ∀ (s : σ) (l : List (C × Bool)) (m e : Bool) (is : List (GenTraceInfoDateTimeCondition C)), M.R s l →
      (genDateTimeTraceLoop2 nextTrace lenOf M.new M.get M.insert ev mk grp cs s m e is).2.1 =
        (traceGroup ev cs m e l).1 ∧
      M.R (genDateTimeTraceLoop2 nextTrace lenOf M.new M.get M.insert ev mk grp cs s m e is).1
        (traceGroup ev cs m e l).2 := by
  induction cs with
  | nil => intro s l m e is h; exact ⟨rfl, h⟩
  | cons c cs ih =>
    intro s l m e is h
    simp only [genDateTimeTraceLoop2, traceGroup, M.r_get s l c h]
    cases hl : alookup c l with
    | none =>
      simp only
      cases e
      · simp only [Bool.false_eq_true, if_false]; exact ih _ _ _ _ _ h
      · simp only [if_true]; exact ih _ _ _ _ _ (M.r_insert s l c _ h)
    | some b =>
      simp only
      exact ih _ _ _ _ _ h

theorem hdTraceLoop2_eq {τ ι ν χ : Type} (nextTrace : μ → List τ) (lenOf : μ → Nat) (condOf : C → χ) (nameOf : C → ν)
    (mv : χ → ν → Bool) (mk : Bool → Bool → Nat → List τ → ι → τ) (grp : List (GenTraceInfoHeaderCondition ν χ) → ι)
    (cs : List C) :
    ∀ (s : σ) (l : List (C × Bool)) (m e : Bool) (is : List (GenTraceInfoHeaderCondition ν χ)), M.R s l →
      (genHeaderTraceLoop2 nextTrace lenOf M.new M.get M.insert condOf nameOf mv mk grp cs s m e is).2.1 =
        (traceGroup (fun c => mv (condOf c) (nameOf c)) cs m e l).1 ∧
      M.R (genHeaderTraceLoop2 nextTrace lenOf M.new M.get M.insert condOf nameOf mv mk grp cs s m e is).1
        (traceGroup (fun c => mv (condOf c) (nameOf c)) cs m e l).2 := by
  induction cs with
  | nil => intro s l m e is h; exact ⟨rfl, h⟩
  | cons c cs ih =>
    intro s l m e is h
    simp only [genHeaderTraceLoop2, traceGroup, M.r_get s l c h]
    cases hl : alookup c l with
    | none =>
      simp only
      cases e
      · simp only [Bool.false_eq_true, if_false]; exact ih _ _ _ _ _ h
      · simp only [if_true]; exact ih _ _ _ _ _ (M.r_insert s l c _ h)
    | some b =>
      simp only
      exact ih _ _ _ _ _ h

/-! ## `trace`: the per-condition payload (`TraceInfo::HeaderGroup / DateTimeGroup { conditions }`)

The hand-written model forgets this payload; it is characterised here directly on the translated loop.  From a state with
`executed = matched` (the loop invariant; both are `true` initially) and a sound memo: one entry per condition, in order;
`result` is `Some(value of the condition)` as long as every earlier condition of the group held, `None` afterwards
("not executed"); `cached` says whether the memo already had the condition. -/

/-- the `result` column of the payload -/
def infoResults (ev : C → Bool) : List C → Bool → List (Option Bool)
  | [], _ => []
  | c :: cs, m => (if m then some (ev c) else none) :: infoResults ev cs (m && ev c)

theorem dtTraceLoop2_infos {τ ι : Type} (nextTrace : μ → List τ) (lenOf : μ → Nat) (ev : C → Bool)
    (mk : Bool → Bool → Nat → List τ → ι → τ) (grp : List (GenTraceInfoDateTimeCondition C) → ι) (cs : List C) :
    ∀ (s : σ) (l : List (C × Bool)) (m : Bool) (is : List (GenTraceInfoDateTimeCondition C)), M.R s l → MemoSound ev l →
      ((genDateTimeTraceLoop2 nextTrace lenOf M.new M.get M.insert ev mk grp cs s m m is).2.2.2.map (·.result) =
        is.map (·.result) ++ infoResults ev cs m) ∧
      ((genDateTimeTraceLoop2 nextTrace lenOf M.new M.get M.insert ev mk grp cs s m m is).2.2.2.map (·.condition) =
        is.map (·.condition) ++ cs) := by
  induction cs with
  | nil => intro s l m is h hs; simp [genDateTimeTraceLoop2, infoResults]
  | cons c cs ih =>
    intro s l m is h hs
    simp only [genDateTimeTraceLoop2, infoResults, M.r_get s l c h]
    cases hl : alookup c l with
    | none =>
      simp only
      cases m
      · simp only [Bool.false_eq_true, if_false, Bool.false_and]
        have := ih s l false (is ++ [{ result := none, condition := c, cached := false }]) h hs
        simpa using this
      · simp only [if_true, Bool.true_and]
        have := ih _ _ (ev c) (is ++ [{ result := some (ev c), condition := c, cached := false }])
          (M.r_insert s l c (ev c) h) (memoSound_cons ev l c hs)
        simpa using this
    | some b =>
      have hb := hs c b hl
      subst hb
      simp only
      have := ih s l (m && ev c) (is ++ [{ result := if m then some (ev c) else none, condition := c, cached := true }]) h hs
      simpa using this

theorem hdTraceLoop2_infos {τ ι ν χ : Type} (nextTrace : μ → List τ) (lenOf : μ → Nat) (condOf : C → χ) (nameOf : C → ν)
    (mv : χ → ν → Bool) (mk : Bool → Bool → Nat → List τ → ι → τ) (grp : List (GenTraceInfoHeaderCondition ν χ) → ι)
    (cs : List C) :
    ∀ (s : σ) (l : List (C × Bool)) (m : Bool) (is : List (GenTraceInfoHeaderCondition ν χ)), M.R s l →
      MemoSound (fun c => mv (condOf c) (nameOf c)) l →
      ((genHeaderTraceLoop2 nextTrace lenOf M.new M.get M.insert condOf nameOf mv mk grp cs s m m is).2.2.2.map (·.result) =
        is.map (·.result) ++ infoResults (fun c => mv (condOf c) (nameOf c)) cs m) ∧
      ((genHeaderTraceLoop2 nextTrace lenOf M.new M.get M.insert condOf nameOf mv mk grp cs s m m is).2.2.2.map
          (fun i => (i.name, i.condition)) =
        is.map (fun i => (i.name, i.condition)) ++ cs.map (fun c => (nameOf c, condOf c))) := by
  induction cs with
  | nil => intro s l m is h hs; simp [genHeaderTraceLoop2, infoResults]
  | cons c cs ih =>
    intro s l m is h hs
    simp only [genHeaderTraceLoop2, infoResults, M.r_get s l c h]
    cases hl : alookup c l with
    | none =>
      simp only
      cases m
      · simp only [Bool.false_eq_true, if_false, Bool.false_and]
        have := ih s l false (is ++ [{ result := none, name := nameOf c, condition := condOf c, cached := false }]) h hs
        simpa using this
      · simp only [if_true, Bool.true_and]
        have := ih _ _ (mv (condOf c) (nameOf c))
          (is ++ [{ result := some (mv (condOf c) (nameOf c)), name := nameOf c, condition := condOf c, cached := false }])
          (M.r_insert s l c (mv (condOf c) (nameOf c)) h) (memoSound_cons _ l c hs)
        simpa using this
    | some b =>
      have hb := hs c b hl
      subst hb
      simp only
      have := ih s l (m && mv (condOf c) (nameOf c))
        (is ++ [{ result := if m then some (mv (condOf c) (nameOf c)) else none, name := nameOf c, condition := condOf c,
                  cached := true }]) h hs
      simpa using this

/-! ## `trace`: the group loop (`Loop1`) = `traceGroups` -/

theorem genAsU64_of_lt (n : Nat) (h : n < 2 ^ 64) : genAsU64 n = n := by
  unfold genAsU64
  exact Nat.mod_eq_of_lt (by simpa using h)

/-- `Trace::new` with the model's `TInfo` (the per-condition payload is forgotten by the model) -/
def mkTraceM {ι : Type} (kind : String) : Bool → Bool → Nat → List Trace → ι → Trace :=
  fun m e n ch _ => Trace.mk m e n (.other kind) ch

theorem dtTraceLoop1_eq {ι : Type} (I : MOps) (q : Req) (kind : String) (ev : C → Bool)
    (grp : List (GenTraceInfoDateTimeCondition C) → ι) (gs : List (List C × I.M))
    (hlen : ∀ g ∈ gs, I.len g.2 < 2 ^ 64) :
    ∀ (traces : List Trace) (s : σ) (l : List (C × Bool)), M.R s l →
      (genDateTimeTraceLoop1 (fun m => I.trace m q) I.len M.new M.get M.insert ev (mkTraceM kind) grp gs traces s).1 =
        traceGroups I ev q kind gs l traces := by
  induction gs with
  | nil => intro traces s l h; rfl
  | cons g gs ih =>
    obtain ⟨cs, b⟩ := g
    intro traces s l h
    have sp := dtTraceLoop2_eq M (fun m => I.trace m q) I.len ev (mkTraceM kind) grp cs s l true true [] h
    have hb : genAsU64 (I.len b) = I.len b := genAsU64_of_lt _ (hlen (cs, b) (List.mem_cons_self ..))
    simp only [genDateTimeTraceLoop1, traceGroups, sp.1, hb, mkTraceM]
    exact ih (fun g hg => hlen g (List.mem_cons_of_mem _ hg)) _ _ _ sp.2

theorem hdTraceLoop1_eq {ι ν χ : Type} (I : MOps) (q : Req) (kind : String) (condOf : C → χ) (nameOf : C → ν)
    (mv : χ → ν → Bool) (grp : List (GenTraceInfoHeaderCondition ν χ) → ι) (gs : List (List C × I.M))
    (hlen : ∀ g ∈ gs, I.len g.2 < 2 ^ 64) :
    ∀ (traces : List Trace) (s : σ) (l : List (C × Bool)), M.R s l →
      (genHeaderTraceLoop1 (fun m => I.trace m q) I.len M.new M.get M.insert condOf nameOf mv (mkTraceM kind) grp gs
          traces s).1 =
        traceGroups I (fun c => mv (condOf c) (nameOf c)) q kind gs l traces := by
  induction gs with
  | nil => intro traces s l h; rfl
  | cons g gs ih =>
    obtain ⟨cs, b⟩ := g
    intro traces s l h
    have sp := hdTraceLoop2_eq M (fun m => I.trace m q) I.len condOf nameOf mv (mkTraceM kind) grp cs s l true true [] h
    have hb : genAsU64 (I.len b) = I.len b := genAsU64_of_lt _ (hlen (cs, b) (List.mem_cons_self ..))
    simp only [genHeaderTraceLoop1, traceGroups, sp.1, hb, mkTraceM]
    exact ih (fun g hg => hlen g (List.mem_cons_of_mem _ hg)) _ _ _ sp.2

end

/-! ## The four translated functions on W2's layer states -/

section
variable {σ : Type} (I : MOps)

/-- every bucket's `len()` is a `usize` (needed only where the code casts it: `matcher.len() as u64` in `trace`) -/
def LensFit {K : Type} (s : LState I K) : Prop := ∀ g ∈ s.map, I.len g.2 < 2 ^ 64

/-- translated `DateTimeMatcher::match_request` on a layer state (memo implementation `M`) -/
def genDateTimeMatch (M : MemoImpl σ DCond) (s : LState I (List DCond)) (q : Req) : List Route :=
  genDateTimeMatchRequest (fun m => I.matchReq m q) M.new M.get M.insert (fun c => DCond.eval c q) s.any s.map

/-- translated `DateTimeMatcher::trace` on a layer state -/
def genDateTimeTr (M : MemoImpl σ DCond) (s : LState I (List DCond)) (q : Req) : List Trace :=
  genDateTimeTrace (ι := List (GenTraceInfoDateTimeCondition DCond)) (fun m => I.trace m q) I.len M.new M.get M.insert
    (fun c => DCond.eval c q) (mkTraceM "date_time_group") id s.any s.map

theorem genDateTimeMatch_eq (M : MemoImpl σ DCond) (s : LState I (List DCond)) (q : Req) :
    genDateTimeMatch I M s q = DateTime.matchReq I s q := by
  unfold genDateTimeMatch genDateTimeMatchRequest DateTime.matchReq
  exact dtMatchLoop1_eq M I q _ s.map _ _ _ M.r_new

theorem genDateTimeTr_eq (M : MemoImpl σ DCond) (s : LState I (List DCond)) (q : Req) (hlen : LensFit I s) :
    genDateTimeTr I M s q = DateTime.trace I s q := by
  unfold genDateTimeTr genDateTimeTrace DateTime.trace
  exact dtTraceLoop1_eq M I q _ _ _ s.map hlen _ _ _ M.r_new

variable (E : Env)

/-- `c.condition.match_value(request, c.header_name)` on the model's `HCond` -/
def hMatchValue (q : Req) : HKind → String → Bool := fun k n => HCond.eval E ⟨n, k⟩ q

theorem hMatchValue_eq (q : Req) (c : HCond) : hMatchValue E q c.kind c.name = HCond.eval E c q := rfl

/-- translated `HeaderMatcher::match_request` on a layer state -/
def genHeaderMatch (M : MemoImpl σ HCond) (s : LState I (List HCond)) (q : Req) : List Route :=
  genHeaderMatchRequest (fun m => I.matchReq m q) M.new M.get M.insert HCond.kind HCond.name (hMatchValue E q)
    s.any s.map

/-- translated `HeaderMatcher::trace` on a layer state -/
def genHeaderTr (M : MemoImpl σ HCond) (s : LState I (List HCond)) (q : Req) : List Trace :=
  genHeaderTrace (ι := List (GenTraceInfoHeaderCondition String HKind)) (fun m => I.trace m q) I.len M.new M.get
    M.insert HCond.kind HCond.name (hMatchValue E q) (mkTraceM "header_group") id s.any s.map

theorem genHeaderMatch_eq (M : MemoImpl σ HCond) (s : LState I (List HCond)) (q : Req) :
    genHeaderMatch I E M s q = Header.matchReq E I s q := by
  unfold genHeaderMatch genHeaderMatchRequest Header.matchReq
  exact hdMatchLoop1_eq M I q _ _ _ s.map _ _ _ M.r_new

theorem genHeaderTr_eq (M : MemoImpl σ HCond) (s : LState I (List HCond)) (q : Req) (hlen : LensFit I s) :
    genHeaderTr I E M s q = Header.trace E I s q := by
  unfold genHeaderTr genHeaderTrace Header.trace
  exact hdTraceLoop1_eq M I q _ _ _ _ _ s.map hlen _ _ _ M.r_new

end

/-! ## The layers / the tower whose `match_request`s are the translated ones -/

section
variable {σd σh : Type}

def dateTimeOpsGen (M : MemoImpl σd DCond) (I : MOps) : MOps :=
  outerOps I DateTime.keysOf (genDateTimeMatch I M) (DateTime.trace I)

def headerOpsGen (E : Env) (M : MemoImpl σh HCond) (I : MOps) : MOps :=
  outerOps I (Header.keysOf E) (genHeaderMatch I E M) (Header.trace E I)

theorem dateTimeOpsGen_eq (M : MemoImpl σd DCond) (I : MOps) : dateTimeOpsGen M I = dateTimeOps I := by
  have e : genDateTimeMatch I M = DateTime.matchReq I := by funext s q; exact genDateTimeMatch_eq I M s q
  unfold dateTimeOpsGen dateTimeOps; rw [e]

theorem headerOpsGen_eq (E : Env) (M : MemoImpl σh HCond) (I : MOps) : headerOpsGen E M I = headerOps E I := by
  have e : genHeaderMatch I E M = Header.matchReq E I := by funext s q; exact genHeaderMatch_eq I E M s q
  unfold headerOpsGen headerOps; rw [e]

open Rio.RouterGen in
/-- the tower of the code with the translated `match_request` at SIX layers: scheme, host, ip, method (W4c) and header,
date-time (here); the path layer is W2's model -/
def towerOpsGen2 (E : Env) (Md : MemoImpl σd DCond) (Mh : MemoImpl σh HCond) : MOps :=
  schemeOpsGen (hostOpsGen (specHost E) (ipOpsGen (methodOpsGen (headerOpsGen E Mh (dateTimeOpsGen Md (pathOps E))))))

open Rio.RouterGen in
theorem towerOpsGen2_eq (E : Env) (Md : MemoImpl σd DCond) (Mh : MemoImpl σh HCond) :
    towerOpsGen2 E Md Mh = towerOps E := by
  unfold towerOpsGen2 towerOps
  rw [dateTimeOpsGen_eq, headerOpsGen_eq, methodOpsGen_eq, ipOpsGen_eq, hostOpsGen_eq, schemeOpsGen_eq]

open Rio.RouterGen in
/-- the same over the radix-tree model of both regex trees (`towerTOps`): scheme, ip, method (W4c), header, date-time (here)
translated; the two tree layers are the tree models -/
def towerTOpsGen2 (T : TEnv) (Md : MemoImpl σd DCond) (Mh : MemoImpl σh HCond) : MOps :=
  schemeOpsGen (hostTOps T (ipOpsGen (methodOpsGen (headerOpsGen T.env Mh (dateTimeOpsGen Md (pathTOps T))))))

open Rio.RouterGen in
theorem towerTOpsGen2_eq (T : TEnv) (Md : MemoImpl σd DCond) (Mh : MemoImpl σh HCond) :
    towerTOpsGen2 T Md Mh = towerTOps T := by
  unfold towerTOpsGen2 towerTOps
  rw [dateTimeOpsGen_eq, headerOpsGen_eq, methodOpsGen_eq, ipOpsGen_eq, schemeOpsGen_eq]

end

/-! ## Trace lists what matching returns, layer by layer, for the translated pair -/

section
variable {σ : Type} {I : MOps} (IL : MLaws I)

theorem genDateTime_mem_trace (M : MemoImpl σ DCond) (s : LState I (List DCond)) (L : List Route) (q : Req) (r : Route)
    (h : (dateTimeLaws IL).Repr s L) (hU : UIds L) (hlen : LensFit I s) :
    r ∈ rawRoutesOfList (genDateTimeTr I M s q) ↔ r ∈ genDateTimeMatch I M s q := by
  rw [genDateTimeTr_eq I M s q hlen, genDateTimeMatch_eq]
  exact (dateTimeLaws IL).mem_trace s L q r h hU

theorem genHeader_mem_trace (E : Env) (M : MemoImpl σ HCond) (s : LState I (List HCond)) (L : List Route) (q : Req)
    (r : Route) (h : (headerLaws IL E).Repr s L) (hU : UIds L) (hlen : LensFit I s) :
    r ∈ rawRoutesOfList (genHeaderTr I E M s q) ↔ r ∈ genHeaderMatch I E M s q := by
  rw [genHeaderTr_eq I E M s q hlen, genHeaderMatch_eq]
  exact (headerLaws IL E).mem_trace s L q r h hU

/-- the same through `get_routes_from_traces` (with its final dedupe) -/
theorem genDateTime_mem_routesOfList (M : MemoImpl σ DCond) (s : LState I (List DCond)) (L : List Route) (q : Req)
    (r : Route) (h : (dateTimeLaws IL).Repr s L) (hU : UIds L) (hlen : LensFit I s) :
    r ∈ routesOfList (genDateTimeTr I M s q) ↔ r ∈ genDateTimeMatch I M s q := by
  rw [mem_routesOfList_iff L hU _ ?_ r]
  · exact genDateTime_mem_trace IL M s L q r h hU hlen
  · intro y hy
    rw [genDateTimeTr_eq I M s q hlen] at hy
    exact (((dateTimeLaws IL).mem_match s L q y h hU).1 (((dateTimeLaws IL).mem_trace s L q y h hU).1 hy)).1

theorem genHeader_mem_routesOfList (E : Env) (M : MemoImpl σ HCond) (s : LState I (List HCond)) (L : List Route)
    (q : Req) (r : Route) (h : (headerLaws IL E).Repr s L) (hU : UIds L) (hlen : LensFit I s) :
    r ∈ routesOfList (genHeaderTr I E M s q) ↔ r ∈ genHeaderMatch I E M s q := by
  rw [mem_routesOfList_iff L hU _ ?_ r]
  · exact genHeader_mem_trace IL E M s L q r h hU hlen
  · intro y hy
    rw [genHeaderTr_eq I E M s q hlen] at hy
    exact (((headerLaws IL E).mem_match s L q y h hU).1 (((headerLaws IL E).mem_trace s L q y h hU).1 hy)).1

end

end Rio.RouterMemoGen
