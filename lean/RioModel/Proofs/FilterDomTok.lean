/-
C15, byte level: a compositional law for the tokenizer instance `htmlTokenize` (the C16 model of W5 as the
filters use it), derived from W5's stream laws (`Proofs/HtmlStream2.lean`: the simulation `next_sim`, PREFIX
STABILITY and RESTART):

  `htmlTokenize_append` — if the tokens of `x` are all produced without reaching the end of `x` and outside a
  raw-text context (`Closed x ts`), then for every `y`: tokens(x ++ y) = ts ++ tokens(y), same remainder.

So the token list of a serialised document is the concatenation of the token lists of its closed pieces.
-/
import RioModel.Proofs.HtmlStream2
import RioModel.Proofs.FilterTok
import RioModel.Proofs.FilterDom
set_option linter.unusedSimpArgs false
set_option linter.unusedVariables false
set_option linter.unusedSectionVars false

namespace Rio.Filter
open Rio.Html Rio.Html.Tokenizer

/-! ### one iteration of `tokenizeGo` -/

inductive StepR where
  | fail
  | stop (r : Bytes)
  | tok (k : Tok) (t' : Tokenizer)

/-- the body of `tokenizeGo` on the state before `next()` -/
def tgStep (t : Tokenizer) : StepR :=
  let t1 := t.next
  if t1.panic || t1.hang || t1.utf8Err then .fail
  else if t1.token == .error then
    match t1.raw, t1.buffered with
    | some r, some b => .stop (r ++ b)
    | _, _ => .fail
  else
    match t1.raw with
    | none => .fail
    | some r =>
      if Tokenizer.isTagLike t1.token then
        match t1.tagName with
        | (.ok (some nm, _), t2) => .tok { kind := kindOf t1.token, raw := r, name := nm } t2
        | (.ok (none, _), t2) => .tok { kind := kindOf t1.token, raw := r } t2
        | _ => .fail
      else .tok { kind := kindOf t1.token, raw := r } t1

theorem tokenizeGo_succ (n : Nat) (t : Tokenizer) (acc : List Tok) :
    tokenizeGo (n + 1) t acc =
      match tgStep t with
      | .fail => none
      | .stop r => some (acc.reverse, r)
      | .tok k t' => tokenizeGo n t' (k :: acc) := by
  rw [tokenizeGo]
  unfold tgStep
  simp only
  by_cases h1 : (t.next.panic || t.next.hang || t.next.utf8Err) = true
  · simp only [h1, if_true]
  · simp only [h1, if_false, Bool.false_eq_true]
    by_cases h2 : (t.next.token == TokenType.error) = true
    · simp only [h2, if_true]
      cases t.next.raw <;> cases t.next.buffered <;> rfl
    · simp only [h2, if_false, Bool.false_eq_true]
      cases t.next.raw with
      | none => rfl
      | some r =>
        simp only
        by_cases h3 : Tokenizer.isTagLike t.next.token = true
        · simp only [h3, if_true]
          rcases htn : t.next.tagName with ⟨res, t2⟩
          cases res with
          | ok x =>
            obtain ⟨nm, b⟩ := x
            cases nm <;> rfl
          | utf8Err => rfl
          | panic => rfl
        · simp only [h3, if_false, Bool.false_eq_true]

/-- the accumulator only collects -/
theorem tokenizeGo_acc : ∀ (n : Nat) (t : Tokenizer) (acc : List Tok),
    tokenizeGo n t acc = (tokenizeGo n t []).map fun r => (acc.reverse ++ r.1, r.2)
  | 0, _, _ => by simp [tokenizeGo]
  | n + 1, t, acc => by
    rw [tokenizeGo_succ, tokenizeGo_succ n t []]
    cases tgStep t with
    | fail => rfl
    | stop r => simp
    | tok k t' =>
      simp only
      rw [tokenizeGo_acc n t' (k :: acc), tokenizeGo_acc n t' [k]]
      cases tokenizeGo n t' [] with
      | none => rfl
      | some r => simp

/-- more fuel does not change a result -/
theorem tokenizeGo_fuel : ∀ (n m : Nat) (t : Tokenizer) (acc : List Tok) (r : List Tok × Bytes),
    tokenizeGo n t acc = some r → tokenizeGo (n + m) t acc = some r
  | 0, _, _, _, _, h => by simp [tokenizeGo] at h
  | n + 1, m, t, acc, r, h => by
    rw [show n + 1 + m = (n + m) + 1 by omega, tokenizeGo_succ]
    rw [tokenizeGo_succ] at h
    cases hs : tgStep t with
    | fail => rw [hs] at h; exact h
    | stop r' => rw [hs] at h; exact h
    | tok k t' => rw [hs] at h; simp only at h ⊢; exact tokenizeGo_fuel n m t' _ r h

/-! ### simulation of one iteration -/

theorem pre_tagName {F : Prop} {p : Nat} {t u : Tokenizer} (c : Pre F p t u)
    (ht : (tagName t).1 ≠ .panic) (hu : (tagName u).1 ≠ .panic) : Pre F p (tagName t).2 (tagName u).2 := by
  rcases tagName_cases' t with h | h | h
  · exact absurd h ht
  · rcases tagName_cases' u with h' | h' | h'
    · exact absurd h' hu
    · rw [h, h']; exact c
    · rw [h, h']
      exact ⟨c.size, c.agree, c.full, c.rawE, c.err, c.rawTag, c.cdata, c.panic, c.hang, c.utf8⟩
  · rcases tagName_cases' u with h' | h' | h'
    · exact absurd h' hu
    · rw [h, h']
      exact ⟨c.size, c.agree, c.full, c.rawE, c.err, c.rawTag, c.cdata, c.panic, c.hang, c.utf8⟩
    · rw [h, h']
      exact ⟨c.size, c.agree, c.full, c.rawE, c.err, c.rawTag, c.cdata, c.panic, c.hang, c.utf8⟩

theorem restL_of_full {p : Nat} {t u : Tokenizer} (c : Pre True p t u) (iu : Inv u) : restL t = restL u := by
  unfold restL
  have hfull := c.full trivial
  have := c.extract u.rawE u.buf.size iu.ok.le (Nat.le_refl _)
  rw [← c.rawE, hfull] at this
  exact this

/-- **one iteration of the token loop on a window**: a state `t` that sees the buffer of `u` as a window (full, or
such that `u`'s next token does not reach the end of the window) produces the same token and stays related. -/
theorem tgStep_sim {F : Prop} {p : Nat} (t u : Tokenizer) (c : Pre F p t u) (it : Inv t) (iu : Inv u)
    (e : EO F (next u)) :
    match tgStep u with
    | .fail => tgStep t = .fail
    | .stop r => F → tgStep t = .stop r
    | .tok k u' => ∃ t', tgStep t = .tok k t' ∧ Pre F p t' u' ∧ Inv t' ∧ Inv u' ∧ t'.buf = t.buf ∧
        u'.rawE = (next u).rawE ∧ u'.err = (next u).err ∧ u'.rawTag = (next u).rawTag ∧
        u'.allowCdata = (next u).allowCdata := by
  have ct := next_sim t u c iu e
  have it1 := next_inv' t it
  have iu1 := next_inv' u iu
  have spt := (next_post t it).spans
  have spu := (next_post u iu).spans
  have hraw : rawL (next t) = rawL (next u) := ct.rawL iu1
  have hdata : dataL (next t) = dataL (next u) := ct.dataL iu1 spu
  unfold tgStep
  simp only
  rw [ct.1.panic, ct.1.hang, ct.1.utf8, ct.2]
  by_cases h1 : ((next u).panic || (next u).hang || (next u).utf8Err) = true
  · simp only [h1, if_true]
  · simp only [h1, if_false, Bool.false_eq_true]
    rw [raw_eq _ it1, raw_eq _ iu1, buffered_eq _ it1, buffered_eq _ iu1, hraw]
    by_cases h2 : ((next u).token == TokenType.error) = true
    · simp only [h2, if_true]
      intro f
      have c1 : Pre True p (next t) (next u) :=
        ⟨ct.1.size, ct.1.agree, fun _ => ct.1.full f, ct.1.rawE, ct.1.err, ct.1.rawTag, ct.1.cdata, ct.1.panic,
          ct.1.hang, ct.1.utf8⟩
      rw [restL_of_full c1 iu1]
    · simp only [h2, if_false, Bool.false_eq_true]
      by_cases h3 : Tokenizer.isTagLike (next u).token = true
      · simp only [h3, if_true]
        have h3t : Tokenizer.isTagLike (next t).token = true := by rw [ct.2]; exact h3
        obtain ⟨ru, iu2, _, _, _, _⟩ := tagName_spec (next u) iu1 spu h3
        obtain ⟨rt, it2, _, _, _, hbuf2⟩ := tagName_spec (next t) it1 spt h3t
        rw [hdata] at rt
        have hpre : (tagName (next t)).1 ≠ .panic → (tagName (next u)).1 ≠ .panic →
            Pre F p (tagName (next t)).2 (tagName (next u)).2 := pre_tagName ct.1.toPre
        by_cases hv : validUtf8 (dataL (next u)) = true
        · rw [if_pos hv] at ru rt
          have hnpt : (tagName (next t)).1 ≠ .panic := by rw [rt]; simp
          have hnpu : (tagName (next u)).1 ≠ .panic := by rw [ru]; simp
          have hp := hpre hnpt hnpu
          rcases htu : tagName (next u) with ⟨resu, u2⟩
          rcases htt : tagName (next t) with ⟨rest, t2⟩
          rw [htu] at ru iu2 hp; rw [htt] at rt it2 hp hbuf2
          simp only at ru rt iu2 it2 hp hbuf2
          subst ru rt
          simp only
          have hu2 : u2 = (tagName (next u)).2 := by rw [htu]
          have hfields : u2.rawE = (next u).rawE ∧ u2.err = (next u).err ∧ u2.rawTag = (next u).rawTag ∧
              u2.allowCdata = (next u).allowCdata := by
            rw [hu2]
            rcases tagName_cases' (next u) with h | h | h
            · rw [htu] at h; simp at h
            · rw [h]; exact ⟨rfl, rfl, rfl, rfl⟩
            · rw [h]; exact ⟨rfl, rfl, rfl, rfl⟩
          exact ⟨t2, rfl, hp, it2, iu2, hbuf2.trans (next_buf' t it), hfields.1, hfields.2.1, hfields.2.2.1,
            hfields.2.2.2⟩
        · rw [if_neg hv] at ru rt
          rcases htu : tagName (next u) with ⟨resu, u2⟩
          rcases htt : tagName (next t) with ⟨rest, t2⟩
          rw [htu] at ru; rw [htt] at rt
          simp only at ru rt
          subst ru rt
          rfl
      · simp only [h3, if_false, Bool.false_eq_true]
        exact ⟨next t, rfl, ct.1.toPre, it1, iu1, next_buf' t it, trivial, trivial, trivial, trivial⟩

/-! ### the loop: RESTART and PREFIX STABILITY at the level of `tokenizeGo` -/

/-- on a full window the loop gives the same tokens and the same remainder -/
theorem tokenizeGo_full {p : Nat} : ∀ (n : Nat) (t u : Tokenizer), Pre True p t u → Inv t → Inv u →
    tokenizeGo n t [] = tokenizeGo n u []
  | 0, _, _, _, _, _ => by simp [tokenizeGo]
  | n + 1, t, u, c, it, iu => by
    rw [tokenizeGo_succ, tokenizeGo_succ]
    have hs := tgStep_sim t u c it iu (Or.inl trivial)
    cases hu : tgStep u with
    | fail => rw [hu] at hs; rw [hs]
    | stop r => rw [hu] at hs; rw [hs trivial]
    | tok k u' =>
      rw [hu] at hs
      obtain ⟨t', ht, c', it', iu', _⟩ := hs
      rw [ht]
      simp only
      rw [tokenizeGo_acc n t' [k], tokenizeGo_acc n u' [k], tokenizeGo_full n t' u' c' it' iu']

/-- run the loop over the tokens `ts`, none of which may reach the end of the buffer; the state afterwards -/
def closedEnd : Tokenizer → List Tok → Option Tokenizer
  | u, [] => some u
  | u, k :: ks =>
    match tgStep u with
    | .tok k' u1 => if k' = k ∧ (next u).err = false then closedEnd u1 ks else none
    | _ => none

theorem closedEnd_sim {p : Nat} : ∀ (ts : List Tok) (t u u' : Tokenizer), closedEnd u ts = some u' →
    Pre False p t u → Inv t → Inv u →
    ∃ t', (∀ n acc, tokenizeGo (n + ts.length) t acc = tokenizeGo n t' (ts.reverse ++ acc)) ∧
      Pre False p t' u' ∧ Inv t' ∧ Inv u' ∧ t'.buf = t.buf
  | [], t, u, u', h, c, it, iu => by
    simp only [closedEnd, Option.some.injEq] at h
    subst h
    exact ⟨t, fun n acc => by simp, c, it, iu, rfl⟩
  | k :: ks, t, u, u', h, c, it, iu => by
    unfold closedEnd at h
    cases hu : tgStep u with
    | fail => rw [hu] at h; cases h
    | stop r => rw [hu] at h; cases h
    | tok k' u1 =>
      rw [hu] at h
      simp only at h
      split at h
      · rename_i hk
        obtain ⟨hk1, herr⟩ := hk
        subst hk1
        have hs := tgStep_sim t u c it iu (Or.inr herr)
        rw [hu] at hs
        obtain ⟨t1, ht, c1, it1, iu1, hb1, _⟩ := hs
        obtain ⟨t', hrun, c', it', iu', hb'⟩ := closedEnd_sim ks t1 u1 u' h c1 it1 iu1
        refine ⟨t', ?_, c', it', iu', hb'.trans hb1⟩
        intro n acc
        rw [show n + (k' :: ks).length = (n + ks.length) + 1 by simp; omega, tokenizeGo_succ, ht]
        simp only
        rw [hrun n (k' :: acc)]
        simp
      · cases h

/-- the tokens `ts` of `x` are all produced before the end of `x` is reached, they consume `x` entirely, and the
tokenizer is then outside any raw-text context: nothing that follows `x` can change them -/
def Closed (x : Bytes) (ts : List Tok) : Prop :=
  ∃ u', closedEnd (Tokenizer.new x.toArray) ts = some u' ∧ u'.rawE = x.length ∧ u'.err = false ∧
    u'.rawTag = [] ∧ u'.allowCdata = true ∧ ts.length ≤ x.length

/-- decidable version -/
def closedB (x : Bytes) (ts : List Tok) : Bool :=
  match closedEnd (Tokenizer.new x.toArray) ts with
  | some u' => u'.rawE == x.length && !u'.err && u'.rawTag == [] && u'.allowCdata && decide (ts.length ≤ x.length)
  | none => false

theorem closedB_sound {x : Bytes} {ts : List Tok} (h : closedB x ts = true) : Closed x ts := by
  unfold closedB at h
  cases hc : closedEnd (Tokenizer.new x.toArray) ts with
  | none => rw [hc] at h; cases h
  | some u' =>
    rw [hc] at h
    simp only [Bool.and_eq_true, beq_iff_eq, Bool.not_eq_true', decide_eq_true_eq] at h
    exact ⟨u', hc, h.1.1.1.1, h.1.1.1.2, h.1.1.2, h.1.2, h.2⟩

theorem inv_new (a : Array Nat) : Inv (Tokenizer.new a) :=
  ⟨Nat.le_refl _, ⟨Nat.zero_le _, rfl, rfl, rfl⟩, TagOk_nil⟩

/-- **tokens(x ++ y) = tokens(x) ++ tokens(y) for a closed `x`.** -/
theorem htmlTokenize?_append {x y : Bytes} {ts ts' : List Tok} {r : Bytes} (hc : Closed x ts)
    (hy : htmlTokenize? y = some (ts', r)) : htmlTokenize? (x ++ y) = some (ts ++ ts', r) := by
  obtain ⟨u', hce, hrawE, herr, htag, hcd, hlen⟩ := hc
  unfold htmlTokenize? at hy ⊢
  -- the tokenizer on x ++ y sees the tokenizer on x as a prefix window
  have hext : Tokenizer.new (x ++ y).toArray = extend (Tokenizer.new x.toArray) y.toArray := by
    simp [Tokenizer.new, extend]
  have c0 : Pre False 0 (Tokenizer.new (x ++ y).toArray) (Tokenizer.new x.toArray) := by
    rw [hext]; exact pre_extend _ _
  obtain ⟨t', hrun, c', it', iu', hb'⟩ :=
    closedEnd_sim ts _ _ u' hce c0 (inv_new _) (inv_new _)
  -- fuel: |x| + |y| + 2 = (|y| + 2 + (|x| - |ts|)) + |ts|
  rw [show (x ++ y).length + 2 = (y.length + 2 + (x.length - ts.length)) + ts.length by
    simp only [List.length_append]; omega]
  rw [hrun, List.append_nil, tokenizeGo_acc]
  -- restart at the boundary
  have hrE : t'.rawE = x.length := by rw [c'.rawE, hrawE]; simp
  have herr' : t'.err = false := by rw [c'.err, herr]
  have htag' : t'.rawTag = [] := by rw [c'.rawTag, htag]
  have hcd' : t'.allowCdata = true := by rw [c'.cdata, hcd]
  have cr := pre_restart t' it' herr' htag' hcd'
  have hro : restartOf t' = Tokenizer.new y.toArray := by
    unfold restartOf
    rw [hb', hrE]
    congr 1
    simp [Tokenizer.new]
  rw [hro] at cr
  rw [tokenizeGo_full _ t' (Tokenizer.new y.toArray) cr it' (inv_new _),
    tokenizeGo_fuel _ (x.length - ts.length) _ [] _ hy]
  simp

theorem htmlTokenize?_nil : htmlTokenize? [] = some ([], []) := by decide +kernel

/-- a sequence of closed pieces followed by anything -/
theorem htmlTokenize?_pieces : ∀ (ps : List (Bytes × List Tok)), (∀ p ∈ ps, Closed p.1 p.2) →
    ∀ {y : Bytes} {ts' : List Tok} {r : Bytes}, htmlTokenize? y = some (ts', r) →
      htmlTokenize? (ps.flatMap (·.1) ++ y) = some (ps.flatMap (·.2) ++ ts', r)
  | [], _, y, ts', r, hy => by simpa using hy
  | p :: ps, h, y, ts', r, hy => by
    have ih := htmlTokenize?_pieces ps (fun q hq => h q (List.mem_cons_of_mem _ hq)) hy
    have := htmlTokenize?_append (h p (by simp)) ih
    simpa [List.flatMap_cons, List.append_assoc] using this

/-! ### the pieces of a document -/

section
variable (vt : Bytes → List Tok)

mutual
  /-- one piece per tag, per verbatim piece, per raw-text element (start tag, raw text and end tag together:
  between them the tokenizer is in a raw-text context) -/
  def piecesOf : Node → List (Bytes × List Tok)
    | .verb raw _ => [(raw, vt raw)]
    | .el nm d at_ knd cs =>
      match knd with
      | .selfClosing => [((selfTok nm d at_).raw, [selfTok nm d at_])]
      | .void => [((startTok nm d at_).raw, [startTok nm d at_])]
      | .raw => [(serialize (.el nm d at_ .raw cs), tokensOf vt (.el nm d at_ .raw cs))]
      | .normal =>
        ((startTok nm d at_).raw, [startTok nm d at_]) ::
          (piecesOfList cs ++ [((endTok nm d).raw, [endTok nm d])])
  def piecesOfList : List Node → List (Bytes × List Tok)
    | [] => []
    | n :: ns => piecesOf n ++ piecesOfList ns
end

mutual
  theorem piecesOf_bytes : ∀ n : Node, (piecesOf vt n).flatMap (·.1) = serialize n
    | .verb raw _ => by simp [piecesOf, serialize]
    | .el nm d at_ knd cs => by
      cases knd with
      | selfClosing => simp [piecesOf, serialize, selfTok]
      | void => simp [piecesOf, serialize, startTok]
      | raw => simp [piecesOf]
      | normal =>
        simp only [piecesOf, List.flatMap_cons, List.flatMap_append, piecesOfList_bytes cs, List.flatMap_nil,
          List.append_nil, serialize, startTok, endTok]
        simp [List.append_assoc]
  theorem piecesOfList_bytes : ∀ ns : List Node, (piecesOfList vt ns).flatMap (·.1) = serializeList ns
    | [] => by simp [piecesOfList, serializeList]
    | n :: ns => by
      simp only [piecesOfList, List.flatMap_append, piecesOf_bytes n, piecesOfList_bytes ns, serializeList]
end

mutual
  theorem piecesOf_toks : ∀ n : Node, (piecesOf vt n).flatMap (·.2) = tokensOf vt n
    | .verb raw _ => by simp [piecesOf, tokensOf]
    | .el nm d at_ knd cs => by
      cases knd with
      | selfClosing => simp [piecesOf, tokensOf]
      | void => simp [piecesOf, tokensOf]
      | raw => simp [piecesOf]
      | normal =>
        simp only [piecesOf, List.flatMap_cons, List.flatMap_append, piecesOfList_toks cs, List.flatMap_nil,
          List.append_nil, tokensOf]
        simp
  theorem piecesOfList_toks : ∀ ns : List Node, (piecesOfList vt ns).flatMap (·.2) = tokensOfList vt ns
    | [] => by simp [piecesOfList, tokensOfList]
    | n :: ns => by
      simp only [piecesOfList, List.flatMap_append, piecesOf_toks n, piecesOfList_toks ns, tokensOfList]
end

end

/-- a piece that is not closed on its own (a text: its extent depends on what follows) is merged with the next one -/
def mergeUnits : List (Bytes × List Tok) → List (Bytes × List Tok)
  | [] => []
  | p :: rest =>
    match mergeUnits rest with
    | [] => [p]
    | q :: qs => if closedB p.1 p.2 then p :: q :: qs else (p.1 ++ q.1, p.2 ++ q.2) :: qs

theorem mergeUnits_flat : ∀ ps : List (Bytes × List Tok),
    (mergeUnits ps).flatMap (·.1) = ps.flatMap (·.1) ∧ (mergeUnits ps).flatMap (·.2) = ps.flatMap (·.2)
  | [] => by simp [mergeUnits]
  | p :: rest => by
    have ih := mergeUnits_flat rest
    unfold mergeUnits
    cases hm : mergeUnits rest with
    | nil =>
      rw [hm] at ih
      simp only [List.flatMap_nil] at ih
      simp [List.flatMap_cons, ← ih.1, ← ih.2]
    | cons q qs =>
      rw [hm] at ih
      simp only
      split
      · simp only [List.flatMap_cons] at ih ⊢
        rw [ih.1, ih.2]; exact ⟨rfl, rfl⟩
      · simp only [List.flatMap_cons] at ih ⊢
        rw [← ih.1, ← ih.2]
        simp [List.append_assoc]

/-- every unit but the last is closed; the last one is closed or tokenises, at the end of the input, as expected -/
def unitsOKB (us : List (Bytes × List Tok)) : Bool :=
  match us.reverse with
  | [] => true
  | last :: initRev =>
    initRev.all (fun p => closedB p.1 p.2) &&
    (closedB last.1 last.2 || decide (htmlTokenize? last.1 = some (last.2, [])))

theorem htmlTokenize?_units {us : List (Bytes × List Tok)} (h : unitsOKB us = true) :
    htmlTokenize? (us.flatMap (·.1)) = some (us.flatMap (·.2), []) := by
  unfold unitsOKB at h
  cases hr : us.reverse with
  | nil =>
    have : us = [] := by simpa using hr
    subst this
    simpa using htmlTokenize?_nil
  | cons last initRev =>
    rw [hr] at h
    simp only [Bool.and_eq_true, Bool.or_eq_true, decide_eq_true_eq] at h
    have hus : us = initRev.reverse ++ [last] := by
      have := congrArg List.reverse hr
      simpa using this
    have hinit : ∀ p ∈ initRev.reverse, Closed p.1 p.2 := by
      intro p hp
      exact closedB_sound (List.all_eq_true.mp h.1 p (by simpa using hp))
    rw [hus, List.flatMap_append, List.flatMap_append]
    simp only [List.flatMap_cons, List.flatMap_nil, List.append_nil]
    rcases h.2 with hl | hl
    · have := htmlTokenize?_pieces (initRev.reverse ++ [last])
        (fun p hp => by
          rcases List.mem_append.mp hp with hp | hp
          · exact hinit p hp
          · simp at hp; subst hp; exact closedB_sound hl) htmlTokenize?_nil
      simpa [List.flatMap_append] using this
    · have := htmlTokenize?_pieces initRev.reverse hinit hl
      simpa using this

/-- **byte level, compositional**: if every unit of the serialised document — each tag on its own, each raw-text
element as a whole, each text together with the tag that follows it — is tokenised as expected in isolation (a
local, decidable check), then the whole serialised document is tokenised to `tokensOfList vt doc`. -/
theorem tokenize_serialize_units (vt : Bytes → List Tok) (doc : List Node)
    (h : unitsOKB (mergeUnits (piecesOfList vt doc)) = true) :
    htmlTokenize (serializeList doc) = (tokensOfList vt doc, []) := by
  have := htmlTokenize?_units h
  rw [(mergeUnits_flat _).1, (mergeUnits_flat _).2, piecesOfList_bytes, piecesOfList_toks] at this
  simp [htmlTokenize_apply, this]

/-! ### text followed by a tag: the one place where the tokenizer looks ahead -/

/-- a byte that opens a tag / comment / declaration after `<` -/
def isOpener (c : Nat) : Bool := isAlpha c || c == 47 || c == 33 || c == 63

theorem readByte_at {t : Tokenizer} {b : Nat} (h : t.buf[t.rawE]? = some b) :
    t.readByte = ({ t with rawE := t.rawE + 1 }, b) := by
  unfold readByte
  have hlt : t.rawE < t.buf.size := by
    rcases Nat.lt_or_ge t.rawE t.buf.size with h' | h'
    · exact h'
    · simp [Array.getElem?_eq_none h'] at h
  simp only [hlt, dite_true]
  simp [Array.getElem?_eq_getElem hlt] at h
  rw [h]

theorem mainLoop_skip {t : Tokenizer} {b : Nat} (hb : t.buf[t.rawE]? = some b) (hne : b ≠ 60)
    (herr : t.err = false) : mainLoop t = mainLoop { t with rawE := t.rawE + 1 } := by
  cases t
  simp only at herr hb
  subst herr
  rw [mainLoop, readByte_at hb]
  simp [hne]

theorem mainLoop_open {t : Tokenizer} {c : Nat} (h60 : t.buf[t.rawE]? = some 60)
    (hc : t.buf[t.rawE + 1]? = some c) (hop : isOpener c = true) (herr : t.err = false) :
    mainLoop t = dispatchTag { t with rawE := t.rawE + 2 } c := by
  cases t
  simp only at herr h60 hc
  subst herr
  rw [mainLoop, readByte_at h60]
  simp only [Bool.false_eq_true, dite_false, bne_self_eq_false, if_false]
  rw [readByte_at hc]
  have : (!(isAlpha c || c == 47 || c == 33 || c == 63)) = false := by
    unfold isOpener at hop; simp [hop]
  simp [this]

/-- a text as the `'main` loop delimits it: every `<` is followed, INSIDE the text, by a byte that opens no tag, comment or
declaration (not a letter, `/`, `!`, `?`) — so `a < b`, `1<2`, `<<` + non-opener are text; the last byte is not `<` -/
def textOKB : Bytes → Bool
  | [] => true
  | [b] => b != 60
  | b :: c :: r => (b != 60 || !Rio.Filter.isOpener c) && textOKB (c :: r)

theorem textOKB_of_no60 : ∀ (tx : Bytes), (∀ b ∈ tx, b ≠ 60) → textOKB tx = true
  | [], _ => rfl
  | [b], h => by simp [textOKB, h b (by simp)]
  | b :: c :: r, h => by
    have ih := textOKB_of_no60 (c :: r) (fun x hx => h x (List.mem_cons_of_mem _ hx))
    simp [textOKB, h b (by simp), ih]

theorem textOKB_tail {b : Nat} {tx : Bytes} (h : textOKB (b :: tx) = true) : textOKB tx = true := by
  cases tx with
  | nil => rfl
  | cons c r =>
    simp only [textOKB, Bool.and_eq_true] at h
    exact h.2

/-- `<` followed by a byte that opens nothing: the loop steps back onto that byte and goes on -/
theorem mainLoop_lt_skip {t : Tokenizer} {c : Nat} (h60 : t.buf[t.rawE]? = some 60)
    (hc : t.buf[t.rawE + 1]? = some c) (hop : Rio.Filter.isOpener c = false) (herr : t.err = false) :
    mainLoop t = mainLoop { t with rawE := t.rawE + 1 } := by
  cases t
  simp only at herr h60 hc
  subst herr
  rw [mainLoop, readByte_at h60]
  simp only [Bool.false_eq_true, dite_false, bne_self_eq_false, if_false]
  rw [readByte_at hc]
  have : (!(isAlpha c || c == 47 || c == 33 || c == 63)) = true := by
    unfold Rio.Filter.isOpener at hop; simp [hop]
  simp [this, unread]

/-- one step of the loop inside a text -/
theorem mainLoop_text_step {t : Tokenizer} {b : Nat} {tx : Bytes} (hok : textOKB (b :: tx) = true)
    (hbuf : ∀ i, i < (b :: tx).length → t.buf[t.rawE + i]? = (b :: tx)[i]?) (herr : t.err = false) :
    mainLoop t = mainLoop { t with rawE := t.rawE + 1 } := by
  have hb : t.buf[t.rawE]? = some b := by simpa using hbuf 0 (by simp)
  by_cases hne : b = 60
  · subst hne
    cases tx with
    | nil => simp [textOKB] at hok
    | cons c r =>
      have hc : t.buf[t.rawE + 1]? = some c := by simpa using hbuf 1 (by simp)
      simp only [textOKB, Bool.and_eq_true, Bool.or_eq_true, bne_self_eq_false, Bool.false_eq_true, false_or,
        Bool.not_eq_true'] at hok
      exact mainLoop_lt_skip hb hc hok.1 herr
  · exact mainLoop_skip hb hne herr

/-- the `'main` loop runs over a text and stops at `<` + opener -/
theorem mainLoop_text : ∀ (tx : Bytes) (t : Tokenizer) (c : Nat), textOKB tx = true →
    (∀ i, i < tx.length → t.buf[t.rawE + i]? = tx[i]?) → t.buf[t.rawE + tx.length]? = some 60 →
    t.buf[t.rawE + tx.length + 1]? = some c → isOpener c = true → t.err = false →
    mainLoop t = dispatchTag { t with rawE := t.rawE + tx.length + 2 } c
  | [], t, c, _, _, h60, hc, hop, herr => by
    simp only [List.length_nil, Nat.add_zero] at h60 hc ⊢
    exact mainLoop_open h60 hc hop herr
  | b :: tx, t, c, hne, hbuf, h60, hc, hop, herr => by
    rw [mainLoop_text_step hne hbuf herr]
    have h1 : ∀ i, i < tx.length → t.buf[t.rawE + 1 + i]? = tx[i]? := by
      intro i hi
      have := hbuf (i + 1) (by simp; omega)
      simp only [List.getElem?_cons_succ] at this
      rw [← this]; congr 1; omega
    have h2 : t.buf[t.rawE + 1 + tx.length]? = some 60 := by
      simp only [List.length_cons] at h60; rw [← h60]; congr 1; omega
    have h3 : t.buf[t.rawE + 1 + tx.length + 1]? = some c := by
      simp only [List.length_cons] at hc; rw [← hc]; congr 1; omega
    have := mainLoop_text tx { t with rawE := t.rawE + 1 } c (textOKB_tail hne)
      h1 h2 h3 hop herr
    rw [this]
    congr 2
    simp only [List.length_cons]; omega

theorem toArray_getElem?_append_left (a b : Bytes) (i : Nat) (h : i < a.length) :
    (a ++ b).toArray[i]? = a[i]? := by
  simp [List.getElem?_append_left h]

/-- the first token of `tx ++ '<' :: c :: rest` (`tx` non-empty, free of `<`; `c` an opener) is the text `tx` -/
theorem next_text (tx : Bytes) (c : Nat) (rest : Bytes) (hne : tx ≠ []) (h60 : textOKB tx = true)
    (hop : isOpener c = true) :
    next (Tokenizer.new (tx ++ 60 :: c :: rest).toArray) =
      { Tokenizer.new (tx ++ 60 :: c :: rest).toArray with
        rawE := tx.length, dataE := tx.length, token := .text } := by
  have hml := mainLoop_text tx (Tokenizer.new (tx ++ 60 :: c :: rest).toArray) c h60
    (fun i hi => by simp [Tokenizer.new, List.getElem?_append_left hi])
    (by simp [Tokenizer.new])
    (by simp [Tokenizer.new, List.getElem?_append_right, Nat.le_succ])
    hop rfl
  have hn : next (Tokenizer.new (tx ++ 60 :: c :: rest).toArray) =
      mainLoop (Tokenizer.new (tx ++ 60 :: c :: rest).toArray) := by
    simp [next, nextGo, Tokenizer.new]
  rw [hn, hml]
  unfold dispatchTag
  have hl : 0 < tx.length := List.length_pos_iff.mpr hne
  simp [Tokenizer.new, Rio.Consts.htmlTagOpenLen, hl]

/-- **a text followed by a tag**: tokens(tx ++ y) = text(tx) :: tokens(y) when `y` starts with `<` + opener -/
theorem htmlTokenize?_text {tx y : Bytes} {c : Nat} {rest : Bytes} {ts' : List Tok} {r : Bytes}
    (hne : tx ≠ []) (h60 : textOKB tx = true) (hy0 : y = 60 :: c :: rest) (hop : isOpener c = true)
    (hy : htmlTokenize? y = some (ts', r)) :
    htmlTokenize? (tx ++ y) = some (⟨.text, tx, []⟩ :: ts', r) := by
  subst hy0
  unfold htmlTokenize? at hy ⊢
  have hnext := next_text tx c rest hne h60 hop
  have inv1 : Inv (next (Tokenizer.new (tx ++ 60 :: c :: rest).toArray)) := next_inv' _ (inv_new _)
  -- the first iteration
  have hstep : tgStep (Tokenizer.new (tx ++ 60 :: c :: rest).toArray) =
      .tok ⟨.text, tx, []⟩ (next (Tokenizer.new (tx ++ 60 :: c :: rest).toArray)) := by
    unfold tgStep
    simp only
    rw [raw_eq _ inv1]
    have hraw : rawL (next (Tokenizer.new (tx ++ 60 :: c :: rest).toArray)) = tx := by
      rw [hnext]
      simp [rawL, Tokenizer.new]
    rw [hraw, hnext]
    simp [Tokenizer.new, Tokenizer.isTagLike, kindOf]
  rw [show (tx ++ 60 :: c :: rest).length + 2 = ((60 :: c :: rest).length + 2 + (tx.length - 1)) + 1 by
    have : 0 < tx.length := List.length_pos_iff.mpr hne
    simp only [List.length_append, List.length_cons]; omega]
  rw [tokenizeGo_succ, hstep]
  simp only
  rw [tokenizeGo_acc]
  -- restart after the text
  have hfields : (next (Tokenizer.new (tx ++ 60 :: c :: rest).toArray)).rawE = tx.length ∧
      (next (Tokenizer.new (tx ++ 60 :: c :: rest).toArray)).err = false ∧
      (next (Tokenizer.new (tx ++ 60 :: c :: rest).toArray)).rawTag = [] ∧
      (next (Tokenizer.new (tx ++ 60 :: c :: rest).toArray)).allowCdata = true ∧
      (next (Tokenizer.new (tx ++ 60 :: c :: rest).toArray)).buf = (tx ++ 60 :: c :: rest).toArray := by
    rw [hnext]; simp [Tokenizer.new]
  have cr := pre_restart _ inv1 hfields.2.1 hfields.2.2.1 hfields.2.2.2.1
  have hro : restartOf (next (Tokenizer.new (tx ++ 60 :: c :: rest).toArray)) =
      Tokenizer.new (60 :: c :: rest).toArray := by
    unfold restartOf
    rw [hfields.2.2.2.2, hfields.1]
    congr 1
    simp [Tokenizer.new]
  rw [hro] at cr
  rw [tokenizeGo_full _ _ _ cr inv1 (inv_new _), tokenizeGo_fuel _ (tx.length - 1) _ [] _ hy]
  simp


/-! ### the stream tokenizer of `filter` (`new_fragment(data, "")`) with the `cut` / `ctx` the filter reads -/

/-- the token of one iteration as the stream loop records it -/
def xTok (t : Tokenizer) (k : Tok) : TokX := { tok := k, cut := (next t).err, ctx := t.rawTag }

theorem tokenizeGoX_succ (n : Nat) (t : Tokenizer) (acc : List TokX) :
    tokenizeGoX (n + 1) t acc =
      match tgStep t with
      | .fail => none
      | .stop r => some (acc.reverse, r, t.rawTag)
      | .tok k t' => tokenizeGoX n t' (xTok t k :: acc) := by
  rw [tokenizeGoX]
  unfold tgStep xTok
  simp only
  by_cases h1 : (t.next.panic || t.next.hang || t.next.utf8Err) = true
  · simp only [h1, if_true]
  · simp only [h1, if_false, Bool.false_eq_true]
    by_cases h2 : (t.next.token == TokenType.error) = true
    · simp only [h2, if_true]
      cases t.next.raw <;> cases t.next.buffered <;> rfl
    · simp only [h2, if_false, Bool.false_eq_true]
      cases t.next.raw with
      | none => rfl
      | some r =>
        simp only
        by_cases h3 : Tokenizer.isTagLike t.next.token = true
        · simp only [h3, if_true]
          rcases htn : t.next.tagName with ⟨res, t2⟩
          cases res with
          | ok x =>
            obtain ⟨nm, b⟩ := x
            cases nm <;> rfl
          | utf8Err => rfl
          | panic => rfl
        · simp only [h3, if_false, Bool.false_eq_true]

theorem tokenizeGoX_acc : ∀ (n : Nat) (t : Tokenizer) (acc : List TokX),
    tokenizeGoX n t acc = (tokenizeGoX n t []).map fun r => (acc.reverse ++ r.1, r.2)
  | 0, _, _ => by simp [tokenizeGoX]
  | n + 1, t, acc => by
    rw [tokenizeGoX_succ, tokenizeGoX_succ n t []]
    cases tgStep t with
    | fail => rfl
    | stop r => simp
    | tok k t' =>
      simp only
      rw [tokenizeGoX_acc n t' (xTok t k :: acc), tokenizeGoX_acc n t' [xTok t k]]
      cases tokenizeGoX n t' [] with
      | none => rfl
      | some r => simp

theorem tokenizeGoX_fuel : ∀ (n m : Nat) (t : Tokenizer) (acc : List TokX) (r : List TokX × Bytes × Bytes),
    tokenizeGoX n t acc = some r → tokenizeGoX (n + m) t acc = some r
  | 0, _, _, _, _, h => by simp [tokenizeGoX] at h
  | n + 1, m, t, acc, r, h => by
    rw [show n + 1 + m = (n + m) + 1 by omega, tokenizeGoX_succ]
    rw [tokenizeGoX_succ] at h
    cases hs : tgStep t with
    | fail => rw [hs] at h; exact h
    | stop r' => rw [hs] at h; exact h
    | tok k t' => rw [hs] at h; simp only at h ⊢; exact tokenizeGoX_fuel n m t' _ r h

/-- the recorded `cut` and `ctx` are the same on a window -/
theorem xTok_sim {F : Prop} {p : Nat} (t u : Tokenizer) (c : Pre F p t u) (iu : Inv u) (e : EO F (next u))
    (k : Tok) : xTok t k = xTok u k := by
  have ct := next_sim t u c iu e
  unfold xTok
  rw [ct.1.err, c.rawTag]

theorem tokenizeGoX_full {p : Nat} : ∀ (n : Nat) (t u : Tokenizer), Pre True p t u → Inv t → Inv u →
    tokenizeGoX n t [] = tokenizeGoX n u []
  | 0, _, _, _, _, _ => by simp [tokenizeGoX]
  | n + 1, t, u, c, it, iu => by
    rw [tokenizeGoX_succ, tokenizeGoX_succ]
    have hs := tgStep_sim t u c it iu (Or.inl trivial)
    cases hu : tgStep u with
    | fail => rw [hu] at hs; rw [hs]
    | stop r => rw [hu] at hs; rw [hs trivial, c.rawTag]
    | tok k u' =>
      rw [hu] at hs
      obtain ⟨t', ht, c', it', iu', _⟩ := hs
      rw [ht]
      simp only
      rw [xTok_sim t u c iu (Or.inl trivial) k, tokenizeGoX_acc n t' [xTok u k], tokenizeGoX_acc n u' [xTok u k],
        tokenizeGoX_full n t' u' c' it' iu']

/-- the stream tokens of a closed run -/
def closedXs : Tokenizer → List Tok → List TokX
  | _, [] => []
  | u, k :: ks =>
    match tgStep u with
    | .tok _ u1 => xTok u k :: closedXs u1 ks
    | _ => []

/-- they are the tokens, and none is cut short -/
theorem closedXs_spec : ∀ (ts : List Tok) (u u' : Tokenizer), closedEnd u ts = some u' →
    toksOf (closedXs u ts) = ts ∧ ∀ x ∈ closedXs u ts, x.cut = false
  | [], _, _, _ => by simp [closedXs, toksOf]
  | k :: ks, u, u', h => by
    unfold closedEnd at h
    cases hu : tgStep u with
    | fail => rw [hu] at h; cases h
    | stop r => rw [hu] at h; cases h
    | tok k' u1 =>
      rw [hu] at h
      simp only at h
      split at h
      · rename_i hk
        obtain ⟨ih1, ih2⟩ := closedXs_spec ks u1 u' h
        have hx : closedXs u (k :: ks) = xTok u k :: closedXs u1 ks := by simp [closedXs, hu]
        rw [hx]
        refine ⟨?_, ?_⟩
        · simp only [toksOf, List.map_cons] at ih1 ⊢
          rw [ih1]; rfl
        · intro x hx'
          simp only [List.mem_cons] at hx'
          rcases hx' with rfl | hx'
          · exact hk.2
          · exact ih2 x hx'
      · cases h

theorem closedEnd_simX {p : Nat} : ∀ (ts : List Tok) (t u u' : Tokenizer), closedEnd u ts = some u' →
    Pre False p t u → Inv t → Inv u →
    ∃ t', (∀ n acc, tokenizeGoX (n + ts.length) t acc = tokenizeGoX n t' ((closedXs u ts).reverse ++ acc)) ∧
      Pre False p t' u' ∧ Inv t' ∧ Inv u' ∧ t'.buf = t.buf
  | [], t, u, u', h, c, it, iu => by
    simp only [closedEnd, Option.some.injEq] at h
    subst h
    exact ⟨t, fun n acc => by simp [closedXs], c, it, iu, rfl⟩
  | k :: ks, t, u, u', h, c, it, iu => by
    unfold closedEnd at h
    cases hu : tgStep u with
    | fail => rw [hu] at h; cases h
    | stop r => rw [hu] at h; cases h
    | tok k' u1 =>
      rw [hu] at h
      simp only at h
      split at h
      · rename_i hk
        obtain ⟨hk1, herr⟩ := hk
        subst hk1
        have hs := tgStep_sim t u c it iu (Or.inr herr)
        rw [hu] at hs
        obtain ⟨t1, ht, c1, it1, iu1, hb1, _⟩ := hs
        obtain ⟨t', hrun, c', it', iu', hb'⟩ := closedEnd_simX ks t1 u1 u' h c1 it1 iu1
        refine ⟨t', ?_, c', it', iu', hb'.trans hb1⟩
        intro n acc
        have hx : closedXs u (k' :: ks) = xTok u k' :: closedXs u1 ks := by simp [closedXs, hu]
        rw [show n + (k' :: ks).length = (n + ks.length) + 1 by simp; omega, tokenizeGoX_succ, ht]
        simp only
        rw [xTok_sim t u c iu (Or.inr herr) k', hrun n (xTok u k' :: acc), hx]
        simp
      · cases h

/-- **the stream tokenizer without a context** gives the tokens `ts` for `d`, leaves `r`, and no token is cut short by
the end of `d` in the sense of `filter` (`isCut`; a final plain text is not) -/
def StreamTo (d : Bytes) (ts : List Tok) (r : Bytes) : Prop :=
  ∃ xs c, htmlStream? [] d = some (xs, r, c) ∧ toksOf xs = ts ∧ ∀ x ∈ xs, isCut x = false

theorem isCut_of_cut {x : TokX} (h : x.cut = false) : isCut x = false := by simp [isCut, h]

theorem streamTo_nil : StreamTo [] [] [] :=
  ⟨[], [], by decide +kernel, rfl, fun _ h => by cases h⟩

theorem streamTo_nil_inv {ts : List Tok} {r : Bytes} (h : StreamTo [] ts r) : ts = [] ∧ r = [] := by
  obtain ⟨xs, c, h1, h2, _⟩ := h
  have h0 : htmlStream? [] [] = some ([], [], []) := by decide +kernel
  rw [h0] at h1
  simp only [Option.some.injEq, Prod.mk.injEq] at h1
  obtain ⟨rfl, rfl, _⟩ := h1
  exact ⟨h2.symm, rfl⟩

/-- what `filter` reads from `htmlTokenize.stream` -/
theorem streamTo_stream {d : Bytes} {ts : List Tok} {r : Bytes} (h : StreamTo d ts r) :
    toksOf (htmlTokenize.stream [] d).1 = ts ∧ (htmlTokenize.stream [] d).2.1 = r ∧
    ∀ x ∈ (htmlTokenize.stream [] d).1, isCut x = false := by
  obtain ⟨xs, c, h1, h2, h3⟩ := h
  show toksOf (htmlStream [] d).1 = ts ∧ (htmlStream [] d).2.1 = r ∧ ∀ x ∈ (htmlStream [] d).1, isCut x = false
  unfold htmlStream
  rw [h1]
  exact ⟨h2, rfl, h3⟩

/-- **stream tokens(x ++ y) = tokens(x) ++ tokens(y) for a closed `x`**, no token of `x` cut -/
theorem streamTo_append {x y : Bytes} {ts ts' : List Tok} {r : Bytes} (hc : Closed x ts)
    (hy : StreamTo y ts' r) : StreamTo (x ++ y) (ts ++ ts') r := by
  obtain ⟨u', hce, hrawE, herr, htag, hcd, hlen⟩ := hc
  obtain ⟨xs', cE, hy, hts', hcut'⟩ := hy
  obtain ⟨hx1, hx2⟩ := closedXs_spec ts _ u' hce
  refine ⟨closedXs (Tokenizer.new x.toArray) ts ++ xs', cE, ?_, by rw [toksOf_append, hx1, hts'], ?_⟩
  · unfold htmlStream? at hy ⊢
    rw [newFragment_nil] at hy ⊢
    have hext : Tokenizer.new (x ++ y).toArray = extend (Tokenizer.new x.toArray) y.toArray := by
      simp [Tokenizer.new, extend]
    have c0 : Pre False 0 (Tokenizer.new (x ++ y).toArray) (Tokenizer.new x.toArray) := by
      rw [hext]; exact pre_extend _ _
    obtain ⟨t', hrun, c', it', iu', hb'⟩ :=
      closedEnd_simX ts _ _ u' hce c0 (inv_new _) (inv_new _)
    rw [show (x ++ y).length + 2 = (y.length + 2 + (x.length - ts.length)) + ts.length by
      simp only [List.length_append]; omega]
    rw [hrun, List.append_nil, tokenizeGoX_acc]
    have hrE : t'.rawE = x.length := by rw [c'.rawE, hrawE]; simp
    have herr' : t'.err = false := by rw [c'.err, herr]
    have htag' : t'.rawTag = [] := by rw [c'.rawTag, htag]
    have hcd' : t'.allowCdata = true := by rw [c'.cdata, hcd]
    have cr := pre_restart t' it' herr' htag' hcd'
    have hro : restartOf t' = Tokenizer.new y.toArray := by
      unfold restartOf
      rw [hb', hrE]
      congr 1
      simp [Tokenizer.new]
    rw [hro] at cr
    rw [tokenizeGoX_full _ t' (Tokenizer.new y.toArray) cr it' (inv_new _),
      tokenizeGoX_fuel _ (x.length - ts.length) _ [] _ hy]
    simp
  · intro x' hx'
    rcases List.mem_append.mp hx' with h | h
    · exact isCut_of_cut (hx2 x' h)
    · exact hcut' x' h

/-- **a text followed by a tag**, stream tokenizer: the text is not cut -/
theorem streamTo_text {tx y : Bytes} {c : Nat} {rest : Bytes} {ts' : List Tok} {r : Bytes}
    (hne : tx ≠ []) (h60 : textOKB tx = true) (hy0 : y = 60 :: c :: rest) (hop : isOpener c = true)
    (hy : StreamTo y ts' r) : StreamTo (tx ++ y) (⟨.text, tx, []⟩ :: ts') r := by
  subst hy0
  obtain ⟨xs', cE, hy, hts', hcut'⟩ := hy
  have hnext := next_text tx c rest hne h60 hop
  have inv1 : Inv (next (Tokenizer.new (tx ++ 60 :: c :: rest).toArray)) := next_inv' _ (inv_new _)
  have hstep : tgStep (Tokenizer.new (tx ++ 60 :: c :: rest).toArray) =
      .tok ⟨.text, tx, []⟩ (next (Tokenizer.new (tx ++ 60 :: c :: rest).toArray)) := by
    unfold tgStep
    simp only
    rw [raw_eq _ inv1]
    have hraw : rawL (next (Tokenizer.new (tx ++ 60 :: c :: rest).toArray)) = tx := by
      rw [hnext]
      simp [rawL, Tokenizer.new]
    rw [hraw, hnext]
    simp [Tokenizer.new, Tokenizer.isTagLike, kindOf]
  have hfields : (next (Tokenizer.new (tx ++ 60 :: c :: rest).toArray)).rawE = tx.length ∧
      (next (Tokenizer.new (tx ++ 60 :: c :: rest).toArray)).err = false ∧
      (next (Tokenizer.new (tx ++ 60 :: c :: rest).toArray)).rawTag = [] ∧
      (next (Tokenizer.new (tx ++ 60 :: c :: rest).toArray)).allowCdata = true ∧
      (next (Tokenizer.new (tx ++ 60 :: c :: rest).toArray)).buf = (tx ++ 60 :: c :: rest).toArray := by
    rw [hnext]; simp [Tokenizer.new]
  have hx0 : (xTok (Tokenizer.new (tx ++ 60 :: c :: rest).toArray) ⟨.text, tx, []⟩).cut = false := hfields.2.1
  refine ⟨xTok (Tokenizer.new (tx ++ 60 :: c :: rest).toArray) ⟨.text, tx, []⟩ :: xs', cE, ?_,
    by simp only [toksOf, List.map_cons] at hts' ⊢; rw [hts']; rfl, ?_⟩
  · unfold htmlStream? at hy ⊢
    rw [newFragment_nil] at hy ⊢
    rw [show (tx ++ 60 :: c :: rest).length + 2 = ((60 :: c :: rest).length + 2 + (tx.length - 1)) + 1 by
      have : 0 < tx.length := List.length_pos_iff.mpr hne
      simp only [List.length_append, List.length_cons]; omega]
    rw [tokenizeGoX_succ, hstep]
    simp only
    rw [tokenizeGoX_acc]
    have cr := pre_restart _ inv1 hfields.2.1 hfields.2.2.1 hfields.2.2.2.1
    have hro : restartOf (next (Tokenizer.new (tx ++ 60 :: c :: rest).toArray)) =
        Tokenizer.new (60 :: c :: rest).toArray := by
      unfold restartOf
      rw [hfields.2.2.2.2, hfields.1]
      congr 1
      simp [Tokenizer.new]
    rw [hro] at cr
    rw [tokenizeGoX_full _ _ _ cr inv1 (inv_new _), tokenizeGoX_fuel _ (tx.length - 1) _ [] _ hy]
    simp
  · intro x' hx'
    simp only [List.mem_cons] at hx'
    rcases hx' with rfl | h
    · exact isCut_of_cut hx0
    · exact hcut' x' h

/-! ### a text at the end of the input -/

theorem readByte_eof {t : Tokenizer} (h : t.buf.size ≤ t.rawE) : t.readByte = ({ t with err := true }, 0) := by
  unfold readByte
  have : ¬ t.rawE < t.buf.size := by omega
  simp [this]

/-- the `'main` loop over bytes other than `<` up to the end of the buffer -/
theorem mainLoop_eof : ∀ (tx : Bytes) (t : Tokenizer), textOKB tx = true →
    (∀ i, i < tx.length → t.buf[t.rawE + i]? = tx[i]?) → t.buf.size = t.rawE + tx.length → t.err = false →
    mainLoop t = finishText { t with rawE := t.rawE + tx.length, err := true }
  | [], t, _, _, hsz, herr => by
    simp only [List.length_nil, Nat.add_zero] at hsz ⊢
    rw [mainLoop, readByte_eof (by omega)]
    simp
  | b :: tx, t, hne, hbuf, hsz, herr => by
    rw [mainLoop_text_step hne hbuf herr]
    have h1 : ∀ i, i < tx.length → t.buf[t.rawE + 1 + i]? = tx[i]? := by
      intro i hi
      have := hbuf (i + 1) (by simp; omega)
      simp only [List.getElem?_cons_succ] at this
      rw [← this]; congr 1; omega
    have := mainLoop_eof tx { t with rawE := t.rawE + 1 } (textOKB_tail hne) h1
      (by simp only [List.length_cons] at hsz; show t.buf.size = t.rawE + 1 + tx.length; omega) herr
    rw [this]
    congr 2
    simp only [List.length_cons]; omega

/-- **a non-empty text free of `<` at the end of the input is one text token, nothing is left** -/
theorem htmlTokenize?_text_eof {tx : Bytes} (hne : tx ≠ []) (h60 : textOKB tx = true) :
    htmlTokenize? tx = some ([⟨.text, tx, []⟩], []) := by
  have hl : 0 < tx.length := List.length_pos_iff.mpr hne
  have hn : next (Tokenizer.new tx.toArray) =
      { Tokenizer.new tx.toArray with rawE := tx.length, err := true, dataE := tx.length, token := .text } := by
    have hml := mainLoop_eof tx (Tokenizer.new tx.toArray) h60
      (fun i hi => by simp [Tokenizer.new]) (by simp [Tokenizer.new]) rfl
    have : next (Tokenizer.new tx.toArray) = mainLoop (Tokenizer.new tx.toArray) := by
      simp [next, nextGo, Tokenizer.new]
    rw [this, hml]
    unfold finishText
    simp [Tokenizer.new, hl]
  have inv1 : Inv (next (Tokenizer.new tx.toArray)) := next_inv' _ (inv_new _)
  have hstep1 : tgStep (Tokenizer.new tx.toArray) = .tok ⟨.text, tx, []⟩ (next (Tokenizer.new tx.toArray)) := by
    unfold tgStep
    simp only
    rw [raw_eq _ inv1]
    have hraw : rawL (next (Tokenizer.new tx.toArray)) = tx := by
      rw [hn]; simp [rawL, Tokenizer.new]
    rw [hraw, hn]
    simp [Tokenizer.new, Tokenizer.isTagLike, kindOf]
  have hstep2 : tgStep (next (Tokenizer.new tx.toArray)) = .stop [] := by
    have hnn : next (next (Tokenizer.new tx.toArray)) =
        ({ Tokenizer.new tx.toArray with
            rawS := tx.length
            rawE := tx.length
            err := true
            dataS := tx.length
            dataE := tx.length
            token := .error } : Tokenizer) := by
      rw [hn]
      simp [next, nextGo, Tokenizer.new]
    have inv2 : Inv (next (next (Tokenizer.new tx.toArray))) := next_inv' _ inv1
    unfold tgStep
    simp only
    rw [raw_eq _ inv2, buffered_eq _ inv2]
    have h1 : rawL (next (next (Tokenizer.new tx.toArray))) = [] := by rw [hnn]; simp [rawL, Tokenizer.new]
    have h2 : restL (next (next (Tokenizer.new tx.toArray))) = [] := by rw [hnn]; simp [restL, Tokenizer.new]
    rw [h1, h2, hnn]
    simp [Tokenizer.new]
  unfold htmlTokenize?
  have efuel : tx.length + 2 = (tx.length + 1) + 1 := rfl
  rw [efuel, tokenizeGo_succ, hstep1]
  simp only
  rw [tokenizeGo_succ, hstep2]
  rfl


/-- … and for the stream tokenizer: the text is ended by the end of the data (`cut`), but a plain text outside a
raw-text context is not held back by `filter` (`isCut` is false) -/
theorem streamTo_text_eof {tx : Bytes} (hne : tx ≠ []) (h60 : textOKB tx = true) :
    StreamTo tx [⟨.text, tx, []⟩] [] := by
  have hp := htmlTokenize?_text_eof hne h60
  have he := tokenizeGoX_erase (tx.length + 2) (Tokenizer.new tx.toArray) []
  unfold htmlTokenize? at hp
  simp only [toksOf, List.map_nil] at he
  rw [hp] at he
  have efuel : tx.length + 2 = (tx.length + 1) + 1 := rfl
  cases hx : tokenizeGoX (tx.length + 2) (Tokenizer.new tx.toArray) [] with
  | none => rw [hx] at he; cases he
  | some res =>
    obtain ⟨xs, r, c⟩ := res
    rw [hx] at he
    simp only [Option.map_some, Option.some.injEq, Prod.mk.injEq] at he
    obtain ⟨he1, rfl⟩ := he
    refine ⟨xs, c, by unfold htmlStream?; rw [newFragment_nil]; exact hx, he1, ?_⟩
    -- the only token is recorded on the fresh state: its context is empty
    rw [efuel, tokenizeGoX_succ] at hx
    cases hs : tgStep (Tokenizer.new tx.toArray) with
    | fail => rw [hs] at hx; cases hx
    | stop r' =>
      rw [hs] at hx
      simp only [Option.some.injEq, Prod.mk.injEq] at hx
      obtain ⟨rfl, _⟩ := hx
      intro x hx'; cases hx'
    | tok k t' =>
      rw [hs] at hx
      simp only at hx
      rw [tokenizeGoX_acc] at hx
      cases hr : tokenizeGoX (tx.length + 1) t' [] with
      | none => rw [hr] at hx; cases hx
      | some res' =>
        rw [hr] at hx
        simp only [Option.map_some, Option.some.injEq, Prod.mk.injEq] at hx
        obtain ⟨hxs, _⟩ := hx
        -- xs = xTok new k :: res'.1 and toksOf xs is a singleton
        have hlen : xs.length = 1 := by
          have := congrArg List.length he1
          simpa using this
        rw [← hxs] at hlen he1
        simp only [List.reverse_cons, List.reverse_nil, List.nil_append, List.singleton_append, List.length_cons]
          at hlen
        have hnil : res'.1 = [] := List.eq_nil_of_length_eq_zero (by omega)
        rw [← hxs, hnil]
        intro x hx'
        simp only [List.reverse_cons, List.reverse_nil, List.nil_append, List.singleton_append, List.mem_cons,
          List.not_mem_nil, or_false] at hx'
        subst hx'
        rw [hnil] at he1
        simp only [List.reverse_cons, List.reverse_nil, List.nil_append, List.singleton_append, List.map_cons,
          List.map_nil, List.cons.injEq, and_true] at he1
        simp only [xTok] at he1
        subst he1
        simp [isCut, xTok, Tokenizer.new]

/-! ### the four composition laws, shared by the plain and the stream tokenizer -/

/-- the plain tokenizer gives the tokens `ts` for `d` and leaves `r` -/
def PlainTo (d : Bytes) (ts : List Tok) (r : Bytes) : Prop := htmlTokenize? d = some (ts, r)

/-- what the grammar-directed proofs use of a tokenizer -/
structure TokLaws (P : Bytes → List Tok → Bytes → Prop) : Prop where
  nil : P [] [] []
  nil_inv : ∀ {ts : List Tok} {r : Bytes}, P [] ts r → ts = [] ∧ r = []
  append : ∀ {x y : Bytes} {ts ts' : List Tok} {r : Bytes}, Closed x ts → P y ts' r → P (x ++ y) (ts ++ ts') r
  text : ∀ {tx y : Bytes} {c : Nat} {rest : Bytes} {ts' : List Tok} {r : Bytes}, tx ≠ [] → textOKB tx = true →
    y = 60 :: c :: rest → isOpener c = true → P y ts' r → P (tx ++ y) (⟨.text, tx, []⟩ :: ts') r
  text_eof : ∀ {tx : Bytes}, tx ≠ [] → textOKB tx = true → P tx [⟨.text, tx, []⟩] []

theorem plainLaws : TokLaws PlainTo where
  nil := htmlTokenize?_nil
  nil_inv := by
    intro ts r h
    unfold PlainTo at h
    rw [htmlTokenize?_nil] at h
    simp only [Option.some.injEq, Prod.mk.injEq] at h
    exact ⟨h.1.symm, h.2.symm⟩
  append := fun hc hy => htmlTokenize?_append hc hy
  text := fun hne h60 hy0 hop hy => htmlTokenize?_text hne h60 hy0 hop hy
  text_eof := fun hne h60 => htmlTokenize?_text_eof hne h60

theorem streamLaws : TokLaws StreamTo where
  nil := streamTo_nil
  nil_inv := streamTo_nil_inv
  append := fun hc hy => streamTo_append hc hy
  text := fun hne h60 hy0 hop hy => streamTo_text hne h60 hy0 hop hy
  text_eof := fun hne h60 => streamTo_text_eof hne h60

/-! ### a universal statement: all documents over a checked tag vocabulary -/

/-- tags whose tokenisation in isolation is checked by evaluation -/
structure Vocab where
  /-- (name, display name, raw attribute text) of start tags (normal and void elements) -/
  starts : List (Bytes × Bytes × Bytes)
  /-- the same for self-closing tags -/
  selfs : List (Bytes × Bytes × Bytes)
  /-- (name, display name) of end tags -/
  ends : List (Bytes × Bytes)

def startsOpenerB (y : Bytes) : Bool :=
  match y with
  | 60 :: c :: _ => isOpener c
  | _ => false

theorem startsOpenerB_spec {y : Bytes} (h : startsOpenerB y = true) :
    ∃ c rest, y = 60 :: c :: rest ∧ isOpener c = true := by
  match y, h with
  | 60 :: c :: rest, h => exact ⟨c, rest, rfl, h⟩

/-- every tag of the vocabulary is, on its own, tokenised to its one expected token, completely, without reaching the
end of its bytes' look-ahead, and begins with `<` + opener -/
def Vocab.ok (V : Vocab) : Bool :=
  V.starts.all (fun x => closedB (startTok x.1 x.2.1 x.2.2).raw [startTok x.1 x.2.1 x.2.2] &&
    startsOpenerB (startTok x.1 x.2.1 x.2.2).raw) &&
  V.selfs.all (fun x => closedB (selfTok x.1 x.2.1 x.2.2).raw [selfTok x.1 x.2.1 x.2.2] &&
    startsOpenerB (selfTok x.1 x.2.1 x.2.2).raw) &&
  V.ends.all (fun x => closedB (endTok x.1 x.2).raw [endTok x.1 x.2])

def isVerb : Node → Bool
  | .verb _ _ => true
  | _ => false

mutual
  /-- documents over the vocabulary: text free of `<` (non-empty), normal / void / self-closing elements whose tags are
  in the vocabulary -/
  def simpleN (V : Vocab) : Node → Bool
    | .verb raw _ => !raw.isEmpty && !raw.contains 60
    | .el nm d at_ knd cs =>
      match knd with
      | .normal => V.starts.contains (nm, d, at_) && V.ends.contains (nm, d) && simpleL V cs
      | .void => V.starts.contains (nm, d, at_)
      | .selfClosing => V.selfs.contains (nm, d, at_)
      | .raw => false
  /-- … and no two adjacent text nodes (the tokenizer would see one text) -/
  def simpleL (V : Vocab) : List Node → Bool
    | [] => true
    | n :: ns =>
      simpleN V n &&
      (match ns with
       | [] => true
       | m :: _ => !(isVerb n && isVerb m)) &&
      simpleL V ns
end

def lastIsVerb : List Node → Bool
  | [] => false
  | [n] => isVerb n
  | _ :: ns => lastIsVerb ns

def StartsOpener (y : Bytes) : Prop := ∃ c rest, y = 60 :: c :: rest ∧ isOpener c = true

theorem startsOpener_append {a : Bytes} (h : StartsOpener a) (b : Bytes) : StartsOpener (a ++ b) := by
  obtain ⟨c, rest, rfl, hc⟩ := h
  exact ⟨c, rest ++ b, rfl, hc⟩

theorem startsOpener_endTok (nm d : Bytes) : StartsOpener (endTok nm d).raw :=
  ⟨47, d ++ [62], by simp [endTok], by decide⟩

section
variable (V : Vocab) (hV : V.ok = true)
include hV

theorem vocab_start {x : Bytes × Bytes × Bytes} (h : V.starts.contains x = true) :
    Closed (startTok x.1 x.2.1 x.2.2).raw [startTok x.1 x.2.1 x.2.2] ∧
    StartsOpener (startTok x.1 x.2.1 x.2.2).raw := by
  unfold Vocab.ok at hV
  simp only [Bool.and_eq_true, List.all_eq_true] at hV
  have := hV.1.1 x (by simpa using h)
  exact ⟨closedB_sound this.1, startsOpenerB_spec this.2⟩

theorem vocab_self {x : Bytes × Bytes × Bytes} (h : V.selfs.contains x = true) :
    Closed (selfTok x.1 x.2.1 x.2.2).raw [selfTok x.1 x.2.1 x.2.2] ∧
    StartsOpener (selfTok x.1 x.2.1 x.2.2).raw := by
  unfold Vocab.ok at hV
  simp only [Bool.and_eq_true, List.all_eq_true] at hV
  have := hV.1.2 x (by simpa using h)
  exact ⟨closedB_sound this.1, startsOpenerB_spec this.2⟩

theorem vocab_end {x : Bytes × Bytes} (h : V.ends.contains x = true) :
    Closed (endTok x.1 x.2).raw [endTok x.1 x.2] := by
  unfold Vocab.ok at hV
  simp only [Bool.and_eq_true, List.all_eq_true] at hV
  exact closedB_sound (hV.2 x (by simpa using h))

section
variable {P : Bytes → List Tok → Bytes → Prop} (hP : TokLaws P)
include hP

mutual
  theorem simpleN_tok : ∀ (n : Node), simpleN V n = true →
      ∀ (y : Bytes) (ts' : List Tok) (r : Bytes), P y ts' r →
        (isVerb n = true → StartsOpener y) →
        P (serialize n ++ y) (tokensOf textToks n ++ ts') r ∧
        (isVerb n = false → StartsOpener (serialize n))
    | .verb raw m, h, y, ts', r, hy, hop => by
      simp only [simpleN, Bool.and_eq_true, Bool.not_eq_true', List.isEmpty_eq_false_iff, ne_eq] at h
      obtain ⟨c, rest, hy0, hc⟩ := hop rfl
      have h60 : ∀ b ∈ raw, b ≠ 60 := by
        intro b hb e; subst e
        have := h.2
        simp only [List.contains_eq_mem, decide_eq_false_iff_not] at this
        exact this hb
      refine ⟨?_, fun hv => by simp [isVerb] at hv⟩
      have := hP.text h.1 (textOKB_of_no60 raw h60) hy0 hc hy
      simp only [serialize, tokensOf, textToks]
      have hne : raw.isEmpty = false := by cases raw with
        | nil => exact absurd rfl h.1
        | cons _ _ => rfl
      simpa [hne] using this
    | .el nm d at_ knd cs, h, y, ts', r, hy, _ => by
      cases knd with
      | raw => simp [simpleN] at h
      | void =>
        simp only [simpleN] at h
        obtain ⟨hc, ho⟩ := vocab_start V hV h
        refine ⟨?_, fun _ => by simpa [serialize, startTok] using ho⟩
        have := hP.append hc hy
        simpa [serialize, tokensOf, startTok] using this
      | selfClosing =>
        simp only [simpleN] at h
        obtain ⟨hc, ho⟩ := vocab_self V hV h
        refine ⟨?_, fun _ => by simpa [serialize, selfTok] using ho⟩
        have := hP.append hc hy
        simpa [serialize, tokensOf, selfTok] using this
      | normal =>
        simp only [simpleN, Bool.and_eq_true] at h
        obtain ⟨⟨hs, he⟩, hcs⟩ := h
        obtain ⟨hcS, hoS⟩ := vocab_start V hV hs
        have hcE := vocab_end V hV he
        -- the end tag, then what follows
        have h1 := hP.append hcE hy
        -- the children, followed by the end tag
        have h2 := simpleL_tok cs hcs ((endTok nm d).raw ++ y) _ r h1
          (fun _ => startsOpener_append (startsOpener_endTok nm d) y)
        -- the start tag
        have h3 := hP.append hcS h2
        refine ⟨?_, fun _ => ?_⟩
        · simp only [serialize, tokensOf]
          simp only [startTok, endTok] at h3 ⊢
          simpa [List.append_assoc] using h3
        · have := startsOpener_append hoS (serializeList cs ++ (endTok nm d).raw)
          simpa [serialize, startTok, endTok, List.append_assoc] using this
  theorem simpleL_tok : ∀ (ns : List Node), simpleL V ns = true →
      ∀ (y : Bytes) (ts' : List Tok) (r : Bytes), P y ts' r →
        (lastIsVerb ns = true → StartsOpener y) →
        P (serializeList ns ++ y) (tokensOfList textToks ns ++ ts') r
    | [], _, y, ts', r, hy, _ => by simpa [serializeList, tokensOfList] using hy
    | [n], h, y, ts', r, hy, hop => by
      simp only [simpleL, Bool.and_eq_true] at h
      have := (simpleN_tok n h.1.1 y ts' r hy (fun hv => hop (by simpa [lastIsVerb] using hv))).1
      simpa [serializeList, tokensOfList] using this
    | n :: m :: rest, h, y, ts', r, hy, hop => by
      simp only [simpleL, Bool.and_eq_true, Bool.not_eq_true', Bool.and_eq_false_imp] at h
      obtain ⟨⟨hn, hadj⟩, hrest⟩ := h
      have ih := simpleL_tok (m :: rest) (by simpa [simpleL, Bool.and_eq_true] using hrest) y ts' r hy
        (fun hv => hop (by simpa [lastIsVerb] using hv))
      -- what follows `n` starts with the first tag of `m` when `n` is a text
      have hfollow : isVerb n = true → StartsOpener (serializeList (m :: rest) ++ y) := by
        intro hv
        have hm : isVerb m = false := hadj hv
        have hmS : simpleN V m = true := hrest.1.1
        have := (simpleN_tok m hmS [] [] [] hP.nil (fun hv' => by rw [hm] at hv'; cases hv')).2 hm
        simpa [serializeList, List.append_assoc] using startsOpener_append this (serializeList rest ++ y)
      have := (simpleN_tok n hn _ _ r ih hfollow).1
      simpa [serializeList, tokensOfList, List.append_assoc] using this
end

end

mutual
  /-- the text tokens of such a document hold no `<` -/
  theorem simpleN_noLt : ∀ (n : Node), simpleN V n = true →
      ∀ t ∈ tokensOf textToks n, ¬(t.kind = .text ∧ hasLt t.raw = true)
    | .verb raw m, h, t, ht => by
      simp only [simpleN, Bool.and_eq_true, Bool.not_eq_true'] at h
      simp only [tokensOf, textToks] at ht
      split at ht
      · cases ht
      · simp only [List.mem_cons, List.not_mem_nil, or_false] at ht
        subst ht
        intro hh
        have := hh.2
        simp only [hasLt] at this
        rw [h.2] at this; cases this
    | .el nm d at_ knd cs, h, t, ht => by
      cases knd with
      | raw => simp [simpleN] at h
      | void => simp [tokensOf] at ht; subst ht; simp [startTok]
      | selfClosing => simp [tokensOf] at ht; subst ht; simp [selfTok]
      | normal =>
        simp only [simpleN, Bool.and_eq_true] at h
        simp only [tokensOf, List.mem_cons, List.mem_append, List.not_mem_nil, or_false] at ht
        rcases ht with e | e | e
        · subst e; simp [startTok]
        · exact simpleL_noLt cs h.2 t e
        · subst e; simp [endTok]
  theorem simpleL_noLt : ∀ (ns : List Node), simpleL V ns = true →
      ∀ t ∈ tokensOfList textToks ns, ¬(t.kind = .text ∧ hasLt t.raw = true)
    | [], _, t, ht => by simp [tokensOfList] at ht
    | n :: ns, h, t, ht => by
      simp only [simpleL, Bool.and_eq_true] at h
      simp only [tokensOfList, List.mem_append] at ht
      rcases ht with e | e
      · exact simpleN_noLt n h.1.1 t e
      · exact simpleL_noLt ns h.2 t e
end

theorem splitHeld_of_noLt {ts : List Tok} (h : ∀ t ∈ ts, ¬(t.kind = .text ∧ hasLt t.raw = true)) :
    splitHeld ts = (ts, []) := by
  unfold splitHeld
  cases hl : ts.getLast? with
  | none =>
    have : ts = [] := by simpa using hl
    subst this; rfl
  | some t =>
    simp only
    have hm : t ∈ ts := List.mem_of_getLast? hl
    rw [if_neg (h t hm)]

/-- **byte level, universal on the class**: every document over a checked vocabulary — text free of `<`, no two
adjacent text nodes, not ending with a text — is tokenised to `tokensOfList textToks doc`, whatever its shape and size. -/
theorem tokenize_serialize_simple (doc : List Node) (hs : simpleL V doc = true) (hl : lastIsVerb doc = false) :
    htmlTokenize (serializeList doc) = (tokensOfList textToks doc, []) := by
  have := simpleL_tok V hV plainLaws doc hs [] [] [] plainLaws.nil (fun hv => by rw [hl] at hv; cases hv)
  simp only [List.append_nil, PlainTo] at this
  simp [htmlTokenize_apply, this]

/-- the same for the stream tokenizer `filter` runs since fe7eac6, and no token is cut short -/
theorem stream_serialize_simple (doc : List Node) (hs : simpleL V doc = true) (hl : lastIsVerb doc = false) :
    StreamTo (serializeList doc) (tokensOfList textToks doc) [] := by
  have := simpleL_tok V hV streamLaws doc hs [] [] [] streamLaws.nil (fun hv => by rw [hl] at hv; cases hv)
  simpa only [List.append_nil] using this

/-- … hence `TokAgree` (given valid UTF-8): the bridge hypothesis of the token-level theorems holds on the class -/
theorem tokAgree_simple (doc : List Node) (hs : simpleL V doc = true) (hl : lastIsVerb doc = false)
    (hu : utf8Split (serializeList doc) = some (serializeList doc, [])) :
    TokAgree htmlTokenize textToks doc :=
  have h := streamTo_stream (stream_serialize_simple V hV doc hs hl)
  ⟨h.1, h.2.1, h.2.2, hu, splitHeld_of_noLt V hV (simpleL_noLt V hV doc hs)⟩

end

theorem textToks_lossless : VtLossless textToks := rawsOf_textToks

end Rio.Filter
