/-
C15, byte level: a compositional law for the tokenizer instance `htmlTokenize` (the C16 model of W5 as the
filters use it), derived from W5's stream laws (`Proofs/HtmlStream2.lean`: the simulation `next_sim`, PREFIX
STABILITY and RESTART):

  `htmlTokenize_append` — if the tokens of `x` are all produced without reaching the end of `x` and outside a
  raw-text context (`Closed x ts`), then for every `y`: tokens(x ++ y) = ts ++ tokens(y), same remainder.

So the token list of a serialised document is the concatenation of the token lists of its closed pieces.
-/
import RioModel.Proofs.HtmlStream2
import RioModel.Proofs.FilterTok
set_option linter.unusedSimpArgs false
set_option linter.unusedVariables false

namespace Rio.Filter
open Rio.Html Rio.Html.Tokenizer

/-! ### one iteration of `tokenizeGo` -/

inductive StepR where
  | fail
  | stop (r : Bytes)
  | tok (k : Tok) (t' : Tokenizer)

/-- the body of `tokenizeGo` on the state before `next()` -/
def tgStep (t : Tokenizer) : StepR :=
  let t1 := t.next
  if t1.panic || t1.hang || t1.utf8Err then .fail
  else if t1.token == .error then
    match t1.raw, t1.buffered with
    | some r, some b => .stop (r ++ b)
    | _, _ => .fail
  else
    match t1.raw with
    | none => .fail
    | some r =>
      if Tokenizer.isTagLike t1.token then
        match t1.tagName with
        | (.ok (some nm, _), t2) => .tok { kind := kindOf t1.token, raw := r, name := nm } t2
        | (.ok (none, _), t2) => .tok { kind := kindOf t1.token, raw := r } t2
        | _ => .fail
      else .tok { kind := kindOf t1.token, raw := r } t1

theorem tokenizeGo_succ (n : Nat) (t : Tokenizer) (acc : List Tok) :
    tokenizeGo (n + 1) t acc =
      match tgStep t with
      | .fail => none
      | .stop r => some (acc.reverse, r)
      | .tok k t' => tokenizeGo n t' (k :: acc) := by
  rw [tokenizeGo]
  unfold tgStep
  simp only
  by_cases h1 : (t.next.panic || t.next.hang || t.next.utf8Err) = true
  · simp only [h1, if_true]
  · simp only [h1, if_false, Bool.false_eq_true]
    by_cases h2 : (t.next.token == TokenType.error) = true
    · simp only [h2, if_true]
      cases t.next.raw <;> cases t.next.buffered <;> rfl
    · simp only [h2, if_false, Bool.false_eq_true]
      cases t.next.raw with
      | none => rfl
      | some r =>
        simp only
        by_cases h3 : Tokenizer.isTagLike t.next.token = true
        · simp only [h3, if_true]
          rcases htn : t.next.tagName with ⟨res, t2⟩
          cases res with
          | ok x =>
            obtain ⟨nm, b⟩ := x
            cases nm <;> rfl
          | utf8Err => rfl
          | panic => rfl
        · simp only [h3, if_false, Bool.false_eq_true]

/-- the accumulator only collects -/
theorem tokenizeGo_acc : ∀ (n : Nat) (t : Tokenizer) (acc : List Tok),
    tokenizeGo n t acc = (tokenizeGo n t []).map fun r => (acc.reverse ++ r.1, r.2)
  | 0, _, _ => by simp [tokenizeGo]
  | n + 1, t, acc => by
    rw [tokenizeGo_succ, tokenizeGo_succ n t []]
    cases tgStep t with
    | fail => rfl
    | stop r => simp
    | tok k t' =>
      simp only
      rw [tokenizeGo_acc n t' (k :: acc), tokenizeGo_acc n t' [k]]
      cases tokenizeGo n t' [] with
      | none => rfl
      | some r => simp

/-- more fuel does not change a result -/
theorem tokenizeGo_fuel : ∀ (n m : Nat) (t : Tokenizer) (acc : List Tok) (r : List Tok × Bytes),
    tokenizeGo n t acc = some r → tokenizeGo (n + m) t acc = some r
  | 0, _, _, _, _, h => by simp [tokenizeGo] at h
  | n + 1, m, t, acc, r, h => by
    rw [show n + 1 + m = (n + m) + 1 by omega, tokenizeGo_succ]
    rw [tokenizeGo_succ] at h
    cases hs : tgStep t with
    | fail => rw [hs] at h; exact h
    | stop r' => rw [hs] at h; exact h
    | tok k t' => rw [hs] at h; simp only at h ⊢; exact tokenizeGo_fuel n m t' _ r h

/-! ### simulation of one iteration -/

theorem pre_tagName {F : Prop} {p : Nat} {t u : Tokenizer} (c : Pre F p t u)
    (ht : (tagName t).1 ≠ .panic) (hu : (tagName u).1 ≠ .panic) : Pre F p (tagName t).2 (tagName u).2 := by
  rcases tagName_cases' t with h | h | h
  · exact absurd h ht
  · rcases tagName_cases' u with h' | h' | h'
    · exact absurd h' hu
    · rw [h, h']; exact c
    · rw [h, h']
      exact ⟨c.size, c.agree, c.full, c.rawE, c.err, c.rawTag, c.cdata, c.panic, c.hang, c.utf8⟩
  · rcases tagName_cases' u with h' | h' | h'
    · exact absurd h' hu
    · rw [h, h']
      exact ⟨c.size, c.agree, c.full, c.rawE, c.err, c.rawTag, c.cdata, c.panic, c.hang, c.utf8⟩
    · rw [h, h']
      exact ⟨c.size, c.agree, c.full, c.rawE, c.err, c.rawTag, c.cdata, c.panic, c.hang, c.utf8⟩

theorem restL_of_full {p : Nat} {t u : Tokenizer} (c : Pre True p t u) (iu : Inv u) : restL t = restL u := by
  unfold restL
  have hfull := c.full trivial
  have := c.extract u.rawE u.buf.size iu.ok.le (Nat.le_refl _)
  rw [← c.rawE, hfull] at this
  exact this

/-- **one iteration of the token loop on a window**: a state `t` that sees the buffer of `u` as a window (full, or
such that `u`'s next token does not reach the end of the window) produces the same token and stays related. -/
theorem tgStep_sim {F : Prop} {p : Nat} (t u : Tokenizer) (c : Pre F p t u) (it : Inv t) (iu : Inv u)
    (e : EO F (next u)) :
    match tgStep u with
    | .fail => tgStep t = .fail
    | .stop r => F → tgStep t = .stop r
    | .tok k u' => ∃ t', tgStep t = .tok k t' ∧ Pre F p t' u' ∧ Inv t' ∧ Inv u' ∧ u'.rawE = (next u).rawE ∧
        u'.err = (next u).err ∧ u'.rawTag = (next u).rawTag ∧ u'.allowCdata = (next u).allowCdata := by
  have ct := next_sim t u c iu e
  have it1 := next_inv' t it
  have iu1 := next_inv' u iu
  have spt := (next_post t it).spans
  have spu := (next_post u iu).spans
  have hraw : rawL (next t) = rawL (next u) := ct.rawL iu1
  have hdata : dataL (next t) = dataL (next u) := ct.dataL iu1 spu
  unfold tgStep
  simp only
  rw [ct.1.panic, ct.1.hang, ct.1.utf8, ct.2]
  by_cases h1 : ((next u).panic || (next u).hang || (next u).utf8Err) = true
  · simp only [h1, if_true]
  · simp only [h1, if_false, Bool.false_eq_true]
    rw [raw_eq _ it1, raw_eq _ iu1, buffered_eq _ it1, buffered_eq _ iu1, hraw]
    by_cases h2 : ((next u).token == TokenType.error) = true
    · simp only [h2, if_true]
      intro f
      have c1 : Pre True p (next t) (next u) :=
        ⟨ct.1.size, ct.1.agree, fun _ => ct.1.full f, ct.1.rawE, ct.1.err, ct.1.rawTag, ct.1.cdata, ct.1.panic,
          ct.1.hang, ct.1.utf8⟩
      rw [restL_of_full c1 iu1]
    · simp only [h2, if_false, Bool.false_eq_true]
      by_cases h3 : Tokenizer.isTagLike (next u).token = true
      · simp only [h3, if_true]
        have h3t : Tokenizer.isTagLike (next t).token = true := by rw [ct.2]; exact h3
        obtain ⟨ru, iu2, _, _, _, _⟩ := tagName_spec (next u) iu1 spu h3
        obtain ⟨rt, it2, _, _, _, _⟩ := tagName_spec (next t) it1 spt h3t
        rw [hdata] at rt
        have hpre : (tagName (next t)).1 ≠ .panic → (tagName (next u)).1 ≠ .panic →
            Pre F p (tagName (next t)).2 (tagName (next u)).2 := pre_tagName ct.1.toPre
        by_cases hv : validUtf8 (dataL (next u)) = true
        · rw [if_pos hv] at ru rt
          have hnpt : (tagName (next t)).1 ≠ .panic := by rw [rt]; simp
          have hnpu : (tagName (next u)).1 ≠ .panic := by rw [ru]; simp
          have hp := hpre hnpt hnpu
          rcases htu : tagName (next u) with ⟨resu, u2⟩
          rcases htt : tagName (next t) with ⟨rest, t2⟩
          rw [htu] at ru iu2 hp; rw [htt] at rt it2 hp
          simp only at ru rt iu2 it2 hp
          subst ru rt
          simp only
          have hu2 : u2 = (tagName (next u)).2 := by rw [htu]
          have hfields : u2.rawE = (next u).rawE ∧ u2.err = (next u).err ∧ u2.rawTag = (next u).rawTag ∧
              u2.allowCdata = (next u).allowCdata := by
            rw [hu2]
            rcases tagName_cases' (next u) with h | h | h
            · rw [htu] at h; simp at h
            · rw [h]; exact ⟨rfl, rfl, rfl, rfl⟩
            · rw [h]; exact ⟨rfl, rfl, rfl, rfl⟩
          exact ⟨t2, rfl, hp, it2, iu2, hfields.1, hfields.2.1, hfields.2.2.1, hfields.2.2.2⟩
        · rw [if_neg hv] at ru rt
          rcases htu : tagName (next u) with ⟨resu, u2⟩
          rcases htt : tagName (next t) with ⟨rest, t2⟩
          rw [htu] at ru; rw [htt] at rt
          simp only at ru rt
          subst ru rt
          rfl
      · simp only [h3, if_false, Bool.false_eq_true]
        exact ⟨next t, rfl, ct.1.toPre, it1, iu1, trivial, trivial, trivial, trivial⟩

end Rio.Filter
