/-
Bridge from the action model (`Rio.Action.Action`, C05) to the serde model (`Rio.Json.Action`, C06,
W4): field-by-field translation, and the fact that every action the C05 model builds or reaches by
observer calls satisfies the representation invariant `Rio.Json.Action.WF` (its two
`LinkedHashSet`s are duplicate-free).  `showId : RuleId → String` renders an id (the model keeps ids
as UTF-8 bytes); it only has to be injective.
-/
import RioModel.Model.JsonAction
import RioModel.Proofs.ActionObs
set_option linter.unusedSimpArgs false

namespace Rio.Action
open Spec

/-! ### translation -/

def toJsonHeaderFilter (f : HeaderFilter) : Rio.Json.HeaderFilter :=
  ⟨f.action, f.header, f.value, f.id, f.targetHash⟩

def toJsonTextAction : TextAction → Rio.Json.TextAction
  | .append => .append | .prepend => .prepend | .replace => .replace

def toJsonBodyFilter : BodyFilter → Rio.Json.BodyFilter
  | .text t => .text ⟨toJsonTextAction t.action, t.content, t.id, t.targetHash⟩
  | .html h => .html ⟨h.action, h.value, h.innerValue, h.elementTree, h.cssSelector, h.id, h.targetHash⟩

/-- `u16` (the model keeps status codes as `Nat`; they come from `u16` fields). -/
def u16 (n : Nat) : UInt16 := UInt16.ofNat n

section
variable (showId : RuleId → String)

def toJsonStatus (u : StatusCodeUpdate) : Rio.Json.StatusCodeUpdate :=
  ⟨u16 u.statusCode, u.onResponseStatusCodes.map u16, u.excludeResponseStatusCodes,
   u16 u.fallbackStatusCode, u.ruleId.map showId, u.fallbackRuleId.map showId, u.unitId, u.targetHash⟩

def toJsonLog (l : LogOverride) : Rio.Json.LogOverride :=
  ⟨l.logOverride, l.ruleId.map showId, l.onResponseStatusCodes.map u16, l.excludeResponseStatusCodes,
   l.fallbackLogOverride, l.fallbackRuleId.map showId, l.unitId⟩

/-- `Rio.Action.Action` as the serde model sees it. -/
def toJsonAction (a : Action) : Rio.Json.Action :=
  { status_code_update := a.statusCodeUpdate.map (toJsonStatus showId)
    header_filters := a.headerFilters.map fun f =>
      ⟨toJsonHeaderFilter f.filter, f.onResponseStatusCodes.map u16, f.excludeResponseStatusCodes,
       f.ruleId.map showId⟩
    body_filters := a.bodyFilters.map fun f =>
      ⟨toJsonBodyFilter f.filter, f.onResponseStatusCodes.map u16, f.excludeResponseStatusCodes,
       f.ruleId.map showId⟩
    rule_ids := a.ruleIds.map showId
    rule_traces := a.ruleTraces.map fun t =>
      ⟨showId t.id, t.onResponseStatusCodes.map u16, t.excludeResponseStatusCodes⟩
    rules_applied := a.rulesApplied.map showId
    log_override := a.logOverride.map (toJsonLog showId) }

/-! ### the two models of `LinkedHashSet::insert` agree -/

theorem filter_idNe_eq_erase (s : List RuleId) (x : RuleId) (h : s.Nodup) :
    s.filter (idNe x) = s.erase x := by
  rw [h.erase_eq_filter]
  apply List.filter_congr
  intro y _
  unfold idNe
  rfl

/-- This file's `lhsInsert` (drop every occurrence, push) and W4's `insertBack` (erase, push) build the
same set from a duplicate-free one, through any injective rendering of the ids. -/
theorem lhsInsert_map_eq_insertBack (hinj : Function.Injective showId) (s : List RuleId) (x : RuleId)
    (h : s.Nodup) :
    (lhsInsert s x).map showId = Rio.Json.insertBack (s.map showId) (showId x) := by
  unfold lhsInsert Rio.Json.insertBack
  rw [filter_idNe_eq_erase s x h, List.map_append, List.map_singleton]
  congr 1
  induction s with
  | nil => rfl
  | cons y ys ih =>
    rw [List.nodup_cons] at h
    by_cases hy : y = x
    · subst hy; simp
    · have hne : showId y ≠ showId x := fun e => hy (hinj e)
      have hne' : (y == x) = false := by simpa using hy
      have hne'' : (showId y == showId x) = false := by simpa using hne
      simp only [List.erase_cons, hne', hne'', List.map_cons, Bool.false_eq_true, if_false]
      rw [ih h.2]

theorem nodup_lhsInsert (s : List RuleId) (x : RuleId) (h : s.Nodup) : (lhsInsert s x).Nodup := by
  unfold lhsInsert
  rw [List.nodup_append]
  refine ⟨h.filter _, by simp, ?_⟩
  intro a ha b hb
  simp only [List.mem_singleton] at hb
  subst hb
  have := (List.mem_filter.mp ha).2
  unfold idNe at this
  intro e
  subst e
  simp at this

/-- Inserting a list of ids one by one, in both models. -/
theorem foldl_lhsInsert_map (hinj : Function.Injective showId) (l s : List RuleId) (h : s.Nodup) :
    (l.foldl lhsInsert s).map showId = (l.map showId).foldl Rio.Json.insertBack (s.map showId) := by
  induction l generalizing s with
  | nil => rfl
  | cons x xs ih =>
    simp only [List.foldl_cons, List.map_cons]
    rw [ih _ (nodup_lhsInsert s x h), lhsInsert_map_eq_insertBack showId hinj s x h]

/-! ### the states of a sequence of observer calls -/

/-- The action after a sequence of observer calls (`runOps` records the observations; this is the
`&mut self` it leaves behind). -/
def stateAfter (allowLog : Bool) (c : Nat) : Action → List Op → Action
  | a, [] => a
  | a, op :: ops => stateAfter allowLog c (runOp allowLog c a op).2 ops

theorem stateAfter_spec (q : Req) (C : List Rule) (allow : Bool) (c : Nat) (done : List RuleId)
    (ops : List Op) :
    stateAfter allow c (withApplied (Spec.action q C) (dedupLast done)) ops =
      withApplied (Spec.action q C) (dedupLast (done ++ ops.flatMap (insertedBy q C c))) := by
  induction ops generalizing done with
  | nil => simp [stateAfter]
  | cons op ops ih =>
    simp only [stateAfter, runOp_spec, List.flatMap_cons]
    rw [ih]
    simp [List.append_assoc]

theorem map_nodup_of_injective (hinj : Function.Injective showId) (l : List RuleId) (h : l.Nodup) :
    (l.map showId).Nodup := by
  induction l with
  | nil => simp
  | cons x xs ih =>
    rw [List.nodup_cons] at h
    simp only [List.map_cons, List.nodup_cons, List.mem_map, not_exists, not_and]
    exact ⟨fun y hy e => h.1 (hinj e ▸ hy), ih h.2⟩

/-- Every such state is well-formed for serialisation. -/
theorem withApplied_spec_wf (hinj : Function.Injective showId) (q : Req) (C : List Rule)
    (d : List RuleId) :
    (toJsonAction showId (withApplied (Spec.action q C) (dedupLast d))).WF := by
  unfold Rio.Json.Action.WF toJsonAction withApplied Spec.action
  exact ⟨map_nodup_of_injective showId hinj _ (nodup_dedupLast _),
         map_nodup_of_injective showId hinj _ (nodup_dedupLast _)⟩

end
end Rio.Action
