/-
Helper lemmas for the capture clause of C12 (Props/C12marker.lean).
-/
import RioModel.Model.MarkerCache
set_option linter.unusedSimpArgs false

namespace Rio.MarkerCache
open Rio.Marker
variable {R : Type} (lib : RegexLib R)

theorem createRegex_compile (r : LazyRegex R) : (r.compile lib).createRegex lib = r.createRegex lib := rfl

theorem compile_consistent (r : LazyRegex R) : (r.compile lib).Consistent lib := Or.inr rfl

theorem regexOf_eq_createRegex (r : LazyRegex R) (h : r.Consistent lib) : r.regexOf lib = r.createRegex lib := by
  unfold LazyRegex.regexOf
  rcases h with h | h
  · simp [h]
  · rw [h]; cases r.createRegex lib <;> rfl

theorem regexOf_compile (r : LazyRegex R) (h : r.Consistent lib) :
    (r.compile lib).regexOf lib = r.regexOf lib := by
  rw [regexOf_eq_createRegex lib _ (compile_consistent lib r), regexOf_eq_createRegex lib r h, createRegex_compile]

/-- `st'` is a store in which every handle captures what it captures in `st` (and which is consistent again). -/
def Sim (st st' : Store R) : Prop :=
  StoreOK lib st' ∧ ∀ (m : MString) (s : Str), m.captureOn lib st' s = m.captureOn lib st s

theorem Sim.refl (st : Store R) (h : StoreOK lib st) : Sim lib st st := ⟨h, fun _ _ => rfl⟩

theorem Sim.trans {a b c : Store R} (h1 : Sim lib a b) (h2 : Sim lib b c) : Sim lib a c :=
  ⟨h2.1, fun m s => (h2.2 m s).trans (h1.2 m s)⟩

theorem storeOK_set (st : Store R) (i : Nat) (r : LazyRegex R) (h : StoreOK lib st) (hr : r.Consistent lib) :
    StoreOK lib (st.set i r) := by
  intro x hx
  rcases List.mem_or_eq_of_mem_set hx with h1 | h1
  · exact h x h1
  · rw [h1]; exact hr

theorem sim_compileString (st : Store R) (h : StoreOK lib st) (m : MString) : Sim lib st (m.compile lib st).1 := by
  unfold MString.compile
  cases hc : st[m.cell]? with
  | none => exact Sim.refl lib st h
  | some r =>
    have hr : r.Consistent lib := h r (List.mem_of_getElem? hc)
    refine ⟨storeOK_set lib st m.cell _ h (compile_consistent lib r), ?_⟩
    intro m' s
    unfold MString.captureOn
    by_cases hcell : m'.cell = m.cell
    · -- the same cell: a clone (or the string itself) sees the compiled value
      have hlt : m.cell < st.length := (List.getElem?_eq_some_iff.mp hc).1
      rw [hcell, List.getElem?_set_self hlt, hc]
      simp only [regexOf_compile lib r hr]
    · rw [List.getElem?_set_ne (Ne.symm hcell)]

theorem compileString_snd (st : Store R) (m : MString) : (m.compile lib st).2 = true := by
  unfold MString.compile
  split <;> rfl

theorem sim_compileSoD (st : Store R) (h : StoreOK lib st) (x : SoD) : Sim lib st (x.compile lib st).1 := by
  cases x with
  | static s => exact Sim.refl lib st h
  | dynamic m => exact sim_compileString lib st h m

theorem sim_compileRoute (st : Store R) (h : StoreOK lib st) (rt : Route) : Sim lib st (rt.compile lib st).1 := by
  unfold Route.compile
  have h1 := sim_compileSoD lib st h rt.pathAndQuery
  cases hh : rt.host with
  | none => simpa using h1
  | some x =>
    have h2 := sim_compileSoD lib _ h1.1 x
    simpa using Sim.trans lib h1 h2

theorem sim_compileRoutes (st : Store R) (h : StoreOK lib st) (rts : List Route) (left : Int) :
    Sim lib st (compileRoutes lib st rts left) := by
  induction rts generalizing st left with
  | nil => exact Sim.refl lib st h
  | cons rt rest ih =>
    have h1 := sim_compileRoute lib st h rt
    simp only [compileRoutes]
    split
    · exact h1
    · exact Sim.trans lib h1 (ih _ h1.1 _)

theorem sim_op (st : Store R) (h : StoreOK lib st) (op : Op) : Sim lib st (op.run lib st) := by
  cases op with
  | compileString m => exact sim_compileString lib st h m
  | compileSoD x => exact sim_compileSoD lib st h x
  | compileRoute rt => exact sim_compileRoute lib st h rt
  | cacheRoutes rts left => exact sim_compileRoutes lib st h rts left

theorem sim_runOps (st : Store R) (h : StoreOK lib st) (ops : List Op) : Sim lib st (runOps lib st ops) := by
  induction ops generalizing st with
  | nil => exact Sim.refl lib st h
  | cons op rest ih =>
    have h1 := sim_op lib st h op
    exact Sim.trans lib h1 (ih _ h1.1)

end Rio.MarkerCache
