/-
W4c: `match_request` of the host / scheme / method / ip layers of the router, TRANSLATED from
src/router/request_matcher/{host,scheme,method,ip}.rs on every run (`Rio.Consts.genHostMatchRequest`,
`genSchemeMatchRequest`, `genMethodMatchRequest`, `genIpMatchRequest`; section `w4_translate_router`,
tools/consts.d/w4_translate.py) are W2's per-layer `matchReq` (Model/RouterLayers.lean).

In the translation the next layer's `match_request(request)` is the parameter `next`, `HashMap::get` /
`UniqueRegexTreeMap::find` are parameters, and a `HashMap` the code ITERATES (`exclude_methods`, the ip `matchers`) is
the list of its entries.  W2's model keeps ONE association list per layer (`LState.map`, keys tagged static / dyn resp.
only / exclude); the instantiations below read the code's maps off that list IN ITS ORDER (`dynMatchers`,
`exclEntries`), so the equalities are exact list equalities — the iteration order of the real hash maps is not
modelled by either side (C01 compares results as sets / after sorting by id).
-/
import RioModel.Generated.Consts
import RioModel.Model.RouterLayers
set_option linter.unusedSimpArgs false
set_option linter.unusedSectionVars false

namespace Rio.RouterGen
open Rio.Consts Rio.Router

section
variable (I : MOps)

/-! ### SchemeMatcher -/

def genScheme (s : LState I String) (q : Req) : List Route :=
  genSchemeMatchRequest (fun m => I.matchReq m q) (fun sc => alookup sc s.map) s.any q.scheme

theorem genScheme_eq (s : LState I String) (q : Req) : genScheme I s q = Scheme.matchReq I s q := by
  unfold genScheme genSchemeMatchRequest Scheme.matchReq
  cases q.scheme with
  | none => rfl
  | some sc => simp only; cases alookup sc s.map <;> rfl

/-! ### MethodMatcher -/

/-- the entries of `exclude_methods` -/
def exclEntries (s : LState I MKey) : List (List String × I.M) :=
  s.map.filterMap fun e =>
    match e.1 with
    | .exclude ms => some (ms, e.2)
    | .only _ => none

def genMethod (s : LState I MKey) (q : Req) : List Route :=
  genMethodMatchRequest (fun m => I.matchReq m q) (fun (ms : List String) (m : String) => ms.contains m)
    (fun m => alookup (MKey.only m) s.map) (exclEntries I s) s.any q.methodStr

theorem methodLoop_eq {ρ μ η ε : Type} (next : μ → List ρ) (listed : ε → η → Bool) (m : η) (es : List (ε × μ))
    (acc : List ρ) :
    genMethodMatchRequestLoop1 next listed m es acc =
      acc ++ es.flatMap (fun e => if !listed e.1 m then next e.2 else []) := by
  induction es generalizing acc with
  | nil => simp [genMethodMatchRequestLoop1]
  | cons e rest ih =>
    obtain ⟨k, v⟩ := e
    simp only [genMethodMatchRequestLoop1, ih, List.flatMap_cons]
    cases listed k m <;> simp

theorem exclEntries_flatMap (l : List (MKey × I.M)) (q : Req) :
    (l.filterMap fun e =>
        match e.1 with
        | .exclude ms => some (ms, e.2)
        | .only _ => none).flatMap
      (fun e => if !e.1.contains q.methodStr then I.matchReq e.2 q else []) =
    l.flatMap (fun e =>
      match e.1 with
      | .exclude ms => if !ms.contains q.methodStr then I.matchReq e.2 q else []
      | .only _ => []) := by
  induction l with
  | nil => rfl
  | cons e rest ih =>
    obtain ⟨k, v⟩ := e
    cases k with
    | only m => simp only [List.filterMap_cons, List.flatMap_cons, List.nil_append, ih]
    | exclude ms => simp only [List.filterMap_cons, List.flatMap_cons, ih]

theorem genMethod_eq (s : LState I MKey) (q : Req) : genMethod I s q = Method.matchReq I s q := by
  unfold genMethod genMethodMatchRequest Method.matchReq exclEntries
  simp only [methodLoop_eq, exclEntries_flatMap]
  cases alookup (MKey.only q.methodStr) s.map <;> rfl

/-! ### IpMatcher -/

def genIp (s : LState I RouteIp) (q : Req) : List Route :=
  genIpMatchRequest (fun m => I.matchReq m q) RouteIp.matchIp (fun r : Route => r.id) s.map s.any q.ip

theorem ipLoop2_eq {μ κ α : Type} (next : μ → List Route) (mi : κ → α → Bool) (new acc : List Route) :
    genIpMatchRequestLoop2 next mi (fun r : Route => r.id) new acc = pushNew acc new := by
  unfold pushNew
  induction new generalizing acc with
  | nil => simp [genIpMatchRequestLoop2]
  | cons r rest ih =>
    simp only [genIpMatchRequestLoop2, List.foldl_cons, ih]
    cases h : acc.any (fun x => x.id == r.id) <;> simp [h]

theorem ipLoop1_eq {μ κ α : Type} (next : μ → List Route) (mi : κ → α → Bool) (a : α) (es : List (κ × μ))
    (acc : List Route) :
    genIpMatchRequestLoop1 next mi (fun r : Route => r.id) a es acc =
      es.foldl (fun acc e => if mi e.1 a then pushNew acc (next e.2) else acc) acc := by
  induction es generalizing acc with
  | nil => simp [genIpMatchRequestLoop1]
  | cons e rest ih =>
    obtain ⟨k, v⟩ := e
    simp only [genIpMatchRequestLoop1, List.foldl_cons]
    cases h : mi k a <;> simp [h, ih, ipLoop2_eq]

theorem genIp_eq (s : LState I RouteIp) (q : Req) : genIp I s q = Ip.matchReq I s q := by
  unfold genIp genIpMatchRequest Ip.matchReq
  cases q.ip with
  | none => rfl
  | some a => simp only [ipLoop1_eq]

/-! ### HostMatcher -/

section
variable {P : Type} [DecidableEq P] (H : HostCfg P)

/-- `regex_tree_rule.find(host)`, specification level: the buckets of the patterns that match -/
def dynMatchers (s : LState I (HKeyG P)) (h : String) : List I.M :=
  s.map.filterMap fun e =>
    match e.1 with
    | .dyn p => if H.find p h then some e.2 else none
    | .static _ => none

def genHost (s : LState I (HKeyG P)) (q : Req) : List Route :=
  genHostMatchRequest (fun m => I.matchReq m q) (dynMatchers I H s) (fun h => alookup (HKeyG.static h) s.map)
    s.any H.always q.host

theorem hostLoop_eq {ρ μ : Type} (next : μ → List ρ) (ms : List μ) (acc : List ρ) :
    genHostMatchRequestLoop1 next ms acc = acc ++ ms.flatMap next := by
  induction ms generalizing acc with
  | nil => simp [genHostMatchRequestLoop1]
  | cons m rest ih => simp [genHostMatchRequestLoop1, ih]

theorem dynMatchers_flatMap (l : List (HKeyG P × I.M)) (h : String) (q : Req) :
    (l.filterMap fun e =>
        match e.1 with
        | .dyn p => if H.find p h then some e.2 else none
        | .static _ => none).flatMap (fun m => I.matchReq m q) =
      l.flatMap (Host.dynPart H I h q) := by
  induction l with
  | nil => rfl
  | cons e rest ih =>
    obtain ⟨k, v⟩ := e
    cases k with
    | static x => simp [List.filterMap_cons, Host.dynPart, ih]
    | dyn p => cases hf : H.find p h <;> simp [List.filterMap_cons, Host.dynPart, ih, hf]

/-- closed form of the translated `HostMatcher::match_request`, for any parameters -/
theorem genHostMatchRequest_closed {ρ μ η : Type} (next : μ → List ρ) (treeFind : η → List μ)
    (staticGet : η → Option μ) (anyHost : μ) (always : Bool) (host : Option η) (bound : List ρ)
    (hb : bound =
      match host with
      | none => []
      | some h => (treeFind h).flatMap next ++ ((staticGet h).map next).getD []) :
    genHostMatchRequest next treeFind staticGet anyHost always host =
      if always || bound.isEmpty then bound ++ next anyHost else bound := by
  subst hb
  cases host with
  | none => cases always <;> simp [genHostMatchRequest]
  | some h =>
    cases hs : staticGet h <;> cases always <;> simp [genHostMatchRequest, hostLoop_eq, hs] <;>
      (try split) <;> (try simp_all) <;> (try grind)

theorem genHost_eq (s : LState I (HKeyG P)) (q : Req) : genHost I H s q = Host.matchReq H I s q := by
  unfold genHost
  rw [genHostMatchRequest_closed _ _ _ _ _ _ (Host.matchBound H I s q)]
  · rfl
  · unfold Host.matchBound Host.boundFor
    cases q.host with
    | none => rfl
    | some h => simp only [dynMatchers, dynMatchers_flatMap]

end
end

/-! ### the router whose four outer `match_request`s are the translated ones -/

def methodOpsGen (I : MOps) : MOps := outerOps I Method.keysOf (genMethod I) (Method.trace I)
def ipOpsGen (I : MOps) : MOps := outerOps I Ip.keysOf (genIp I) (Ip.trace I)
def hostOpsGen {P : Type} [DecidableEq P] (H : HostCfg P) (I : MOps) : MOps :=
  outerOps I (Host.keysOf H) (genHost I H) (Host.trace H I)
def schemeOpsGen (I : MOps) : MOps := outerOps I Scheme.keysOf (genScheme I) (Scheme.trace I)

theorem methodOpsGen_eq (I : MOps) : methodOpsGen I = methodOps I := by
  have e : genMethod I = Method.matchReq I := by funext s q; exact genMethod_eq I s q
  unfold methodOpsGen methodOps; rw [e]

theorem ipOpsGen_eq (I : MOps) : ipOpsGen I = ipOps I := by
  have e : genIp I = Ip.matchReq I := by funext s q; exact genIp_eq I s q
  unfold ipOpsGen ipOps; rw [e]

theorem hostOpsGen_eq {P : Type} [DecidableEq P] (H : HostCfg P) (I : MOps) : hostOpsGen H I = hostOps H I := by
  have e : genHost I H = Host.matchReq H I := by funext s q; exact genHost_eq I H s q
  unfold hostOpsGen hostOps; rw [e]

theorem schemeOpsGen_eq (I : MOps) : schemeOpsGen I = schemeOps I := by
  have e : genScheme I = Scheme.matchReq I := by funext s q; exact genScheme_eq I s q
  unfold schemeOpsGen schemeOps; rw [e]

/-- the tower of the code with the translated `match_request` at the scheme, host, ip and method layers (header,
date-time and path layers: W2's models) -/
def towerOpsGen (E : Env) : MOps :=
  schemeOpsGen (hostOpsGen (specHost E) (ipOpsGen (methodOpsGen (headerOps E (dateTimeOps (pathOps E))))))

theorem towerOpsGen_eq (E : Env) : towerOpsGen E = towerOps E := by
  unfold towerOpsGen towerOps
  rw [methodOpsGen_eq, ipOpsGen_eq, hostOpsGen_eq, schemeOpsGen_eq]

end Rio.RouterGen
