/-
W14: `leave` and `new` of the three HTML body visitors (`BodyAppend`, `BodyPrepend`, `BodyReplace`,
src/filter/html_body_action/body_*.rs) and the constructor calls of `HtmlBodyVisitor::new` (mod.rs) TRANSLATED from the
source on every run (`Rio.Consts.genBody*Leave`, `genBody*New`, `genHtmlBodyVisitorNew*`; section
`w4_translate_visitor2`, tools/consts.d/w4_translate_visitor2.py) agree with W6's visitor model
(`Rio.Filter.Visitor.leave`, `Visitor.new`, Model/Filter.lean).

State relation: `Rep tree pos v` of Proofs/VisitorGen.lean (vector + index of the code / zipper of the model).
Parameters of the translated `leave`s: the selector oracle `evaluate` (any function) and the re-tokenising helpers,
instantiated here with the model's `appendChild tk` / `prependChild tk` (any tokenizer `tk`).
The code tests `position as i32 > 0` (`genAsI32`); the model tests `before ≠ []`.  They agree for
`tree.length < 2^31` (hypothesis `hs`, the one `Rio.C07.filter_no_panic` uses); `genAsI32_pos_imp` shows without
any hypothesis that the guard implies `0 < position`, so the truncating `position - 1` of the translation is exact.
-/
import RioModel.Proofs.VisitorGen
set_option linter.unusedSimpArgs false

namespace Rio.VisitorGen
open Rio.Consts Rio.Filter

/-! ### `position as i32` -/

theorem genAsI32_small {n : Nat} (h : n < 2147483648) : genAsI32 n = (n : Int) := by
  unfold genAsI32
  have hm : n % 4294967296 = n := Nat.mod_eq_of_lt (by omega)
  simp [hm, h]

theorem genAsI32_pos_iff {n : Nat} (h : n < 2147483648) : (genAsI32 n > 0) ↔ 0 < n := by
  rw [genAsI32_small h]; omega

/-- no hypothesis: where the code's guard `position as i32 > 0` holds, `position -= 1` does not underflow -/
theorem genAsI32_pos_imp (n : Nat) (h : genAsI32 n > 0) : 0 < n := by
  cases n with
  | zero => simp [genAsI32] at h
  | succ k => omega

/-! ### the zipper moves back -/

theorem Rep.pos_iff {tree : List Bytes} {pos : Nat} {v : Visitor} (h : Rep tree pos v) :
    0 < pos ↔ v.before ≠ [] := by
  rw [h.pos_eq]
  cases v.before <;> simp

theorem Rep.retreat {tree : List Bytes} {pos : Nat} {v : Visitor} (h : Rep tree pos v) (hb : v.before ≠ []) :
    Rep tree (pos - 1) v.retreat := by
  unfold Visitor.retreat
  cases hv : v.before with
  | nil => exact absurd hv hb
  | cons b rest =>
    refine ⟨?_, ?_⟩
    · rw [h.tree_eq, hv]; simp
    · rw [h.pos_eq, hv]; simp

/-- `Rep` only reads the zipper fields -/
theorem Rep.of_fields {tree : List Bytes} {pos : Nat} {v v' : Visitor} (h : Rep tree pos v)
    (h1 : v'.before = v.before) (h2 : v'.cur = v.cur) (h3 : v'.after = v.after) : Rep tree pos v' :=
  ⟨by rw [h1, h2, h3]; exact h.tree_eq, by rw [h1]; exact h.pos_eq⟩

theorem Rep.get {tree : List Bytes} {pos : Nat} {v : Visitor} (h : Rep tree pos v) :
    tree[pos]? = some v.cur := by
  rw [h.tree_eq, h.pos_eq]
  simp [List.getElem?_append_right]

theorem Rep.setBuf {tree : List Bytes} {pos : Nat} {v : Visitor} (h : Rep tree pos v) (b : Bool) :
    Rep tree pos { v with isBuffering := b } :=
  ⟨h.tree_eq, h.pos_eq⟩

/-- the `next_leave` computation of the three `leave`s (`g` = the extra `!self.is_buffering` of replace), as the
translation renders it, is the model's `leaveMove` -/
theorem genLeaveMove_eq {tree : List Bytes} {pos : Nat} {v : Visitor} (h : Rep tree pos v)
    (hs : tree.length < 2147483648) (g : Bool) :
    ((if (decide (genAsI32 pos > 0) && g) = true then (pos - 1, some ((tree[pos - 1]?).getD [])) else (pos, none)) :
        Nat × Option Bytes).2 = (v.leaveMove g).1 ∧
    Rep tree ((if (decide (genAsI32 pos > 0) && g) = true then (pos - 1, some ((tree[pos - 1]?).getD [])) else (pos, none)) :
        Nat × Option Bytes).1 (v.leaveMove g).2 := by
  have hl := h.len
  have hp : pos < 2147483648 := by omega
  have hi := genAsI32_pos_iff hp
  unfold Visitor.leaveMove
  by_cases hb : v.before ≠ []
  · have h0 : 0 < pos := h.pos_iff.mpr hb
    have hd : decide (genAsI32 pos > 0) = true := by simpa using hi.mpr h0
    cases g
    · simp [hd]; exact h
    · have hr := h.retreat hb
      simp [hd, hb, hr.cur]; exact hr
  · have h0 : ¬ 0 < pos := fun hh => hb (h.pos_iff.mp hh)
    have hd : decide (genAsI32 pos > 0) = false := by simpa using fun hh => h0 (hi.mp hh)
    simp [hd, hb]; exact h

theorem Rep.processing {tree : List Bytes} {pos : Nat} {v : Visitor} (h : Rep tree pos v) :
    decide (pos + 1 ≥ tree.length) = decide (v.after = []) := by
  have hl := h.len
  cases ha : v.after with
  | nil => simp [ha] at hl ⊢; omega
  | cons a r => simp [ha] at hl ⊢; omega

theorem hasSel_none (v : Visitor) (h : v.sel = none) : v.hasSel = false := by
  simp [Visitor.hasSel, h]

theorem hasSel_some (v : Visitor) (s : Bytes) (h : v.sel = some s) : v.hasSel = !s.isEmpty := by
  simp [Visitor.hasSel, h]

/-- **`BodyAppend::leave`** -/
theorem genAppendLeave_eq (tk : Tokenize) (ev : Bytes → Bytes → Bool) {tree : List Bytes} {pos : Nat} {v : Visitor}
    (hk : v.kind = .append) (h : Rep tree pos v) (hs : tree.length < 2147483648) (data : Bytes) :
    (genBodyAppendLeave ev (appendChild tk) tree pos v.sel v.content data).1 = (v.leave tk ev data).1 ∧
    Rep tree (genBodyAppendLeave ev (appendChild tk) tree pos v.sel v.content data).2 (v.leave tk ev data).2 := by
  have hl := h.len
  have hc := h.cur
  have hi := genAsI32_pos_iff (n := pos) (by omega)
  have hproc := h.processing
  unfold genBodyAppendLeave Visitor.leave Visitor.leaveMove Visitor.selector
  by_cases hb : v.before ≠ []
  · have hd : decide (genAsI32 pos > 0) = true := by simpa using hi.mpr (h.pos_iff.mpr hb)
    have hr := h.retreat hb
    have hrc := hr.cur
    by_cases ha : v.after = []
    · cases hse : v.sel with
      | none =>
        have hh := hasSel_none v hse
        refine ⟨?_, ?_⟩
        · simp [hk, hd, hb, hc, hrc, hproc, ha, hse, hh]
        · simp [hk, hd, hb, hc, hrc, hproc, ha, hse, hh]; exact hr
      | some s =>
        have hh := hasSel_some v s hse
        cases he : s.isEmpty <;> cases hev : ev data s <;> refine ⟨?_, ?_⟩ <;>
          simp [hk, hd, hb, hc, hrc, hproc, ha, hse, hh, he, hev] <;> exact hr
    · refine ⟨?_, ?_⟩
      · simp [hk, hd, hb, hc, hrc, hproc, ha]
      · simp [hk, hd, hb, hc, hrc, hproc, ha]; exact hr
  · have hd : decide (genAsI32 pos > 0) = false := by
      simpa using fun hh => hb (h.pos_iff.mp (hi.mp hh))
    by_cases ha : v.after = []
    · cases hse : v.sel with
      | none =>
        have hh := hasSel_none v hse
        refine ⟨?_, ?_⟩
        · simp [hk, hd, hb, hc, hproc, ha, hse, hh]
        · simp [hk, hd, hb, hc, hproc, ha, hse, hh]; exact h
      | some s =>
        have hh := hasSel_some v s hse
        cases he : s.isEmpty <;> cases hev : ev data s <;> refine ⟨?_, ?_⟩ <;>
          simp [hk, hd, hb, hc, hproc, ha, hse, hh, he, hev] <;> exact h
    · refine ⟨?_, ?_⟩
      · simp [hk, hd, hb, hc, hproc, ha]
      · simp [hk, hd, hb, hc, hproc, ha]; exact h

/-- **`BodyPrepend::leave`** -/
theorem genPrependLeave_eq (tk : Tokenize) (ev : Bytes → Bytes → Bool) {tree : List Bytes} {pos : Nat} {v : Visitor}
    (hk : v.kind = .prepend) (h : Rep tree pos v) (hs : tree.length < 2147483648) (data : Bytes) :
    (genBodyPrependLeave ev (prependChild tk) tree pos v.sel v.content v.isBuffering data).1 = (v.leave tk ev data).1 ∧
    Rep tree (genBodyPrependLeave ev (prependChild tk) tree pos v.sel v.content v.isBuffering data).2.1
      (v.leave tk ev data).2 ∧
    (genBodyPrependLeave ev (prependChild tk) tree pos v.sel v.content v.isBuffering data).2.2 =
      (v.leave tk ev data).2.isBuffering := by
  have hl := h.len
  have hc := h.cur
  have hi := genAsI32_pos_iff (n := pos) (by omega)
  unfold genBodyPrependLeave Visitor.leave Visitor.leaveMove Visitor.selector
  by_cases hb : v.before ≠ []
  · have hd : decide (genAsI32 pos > 0) = true := by simpa using hi.mpr (h.pos_iff.mpr hb)
    have hr := h.retreat hb
    have hrc := hr.cur
    have hrb : v.retreat.isBuffering = v.isBuffering := by
      unfold Visitor.retreat; cases v.before <;> rfl
    cases hbuf : v.isBuffering
    · refine ⟨?_, ?_, ?_⟩ <;> simp [hk, hd, hb, hc, hrc, hbuf, hrb] <;> exact hr
    · cases hse : v.sel with
      | none =>
        have hh := hasSel_none v hse
        refine ⟨?_, ?_, ?_⟩ <;> simp [hk, hd, hb, hc, hrc, hbuf, hrb, hse, hh] <;> exact hr
      | some s =>
        have hh := hasSel_some v s hse
        cases he : s.isEmpty <;> cases hev : ev data s <;> refine ⟨?_, ?_, ?_⟩ <;>
          simp [hk, hd, hb, hc, hrc, hbuf, hrb, hse, hh, he, hev] <;>
          first | exact hr | exact hr.of_fields rfl rfl rfl
  · have hd : decide (genAsI32 pos > 0) = false := by
      simpa using fun hh => hb (h.pos_iff.mp (hi.mp hh))
    cases hbuf : v.isBuffering
    · refine ⟨?_, ?_, ?_⟩ <;> simp [hk, hd, hb, hc, hbuf] <;> exact h
    · cases hse : v.sel with
      | none =>
        have hh := hasSel_none v hse
        refine ⟨?_, ?_, ?_⟩ <;> simp [hk, hd, hb, hc, hbuf, hse, hh] <;> exact h
      | some s =>
        have hh := hasSel_some v s hse
        cases he : s.isEmpty <;> cases hev : ev data s <;> refine ⟨?_, ?_, ?_⟩ <;>
          simp [hk, hd, hb, hc, hbuf, hse, hh, he, hev] <;>
          first | exact h | exact h.of_fields rfl rfl rfl

/-- **`BodyReplace::leave`** -/
theorem genReplaceLeave_eq (tk : Tokenize) (ev : Bytes → Bytes → Bool) {tree : List Bytes} {pos : Nat} {v : Visitor}
    (hk : v.kind = .replace) (h : Rep tree pos v) (hs : tree.length < 2147483648) (data : Bytes) :
    (genBodyReplaceLeave ev tree pos v.sel v.content v.isBuffering data).1 = (v.leave tk ev data).1 ∧
    Rep tree (genBodyReplaceLeave ev tree pos v.sel v.content v.isBuffering data).2.1 (v.leave tk ev data).2 ∧
    (genBodyReplaceLeave ev tree pos v.sel v.content v.isBuffering data).2.2 = (v.leave tk ev data).2.isBuffering := by
  have hl := h.len
  have hc := h.cur
  have hi := genAsI32_pos_iff (n := pos) (by omega)
  unfold genBodyReplaceLeave Visitor.leave Visitor.leaveMove Visitor.selector
  cases hbuf : v.isBuffering
  · -- not buffering: the move happens iff `before ≠ []`, data unchanged
    by_cases hb : v.before ≠ []
    · have hd : decide (genAsI32 pos > 0) = true := by simpa using hi.mpr (h.pos_iff.mpr hb)
      have hr := h.retreat hb
      have hrc := hr.cur
      have hrb : v.retreat.isBuffering = v.isBuffering := by
        unfold Visitor.retreat; cases v.before <;> rfl
      refine ⟨?_, ?_, ?_⟩ <;> simp [hk, hd, hb, hc, hrc, hbuf, hrb] <;> exact hr
    · have hd : decide (genAsI32 pos > 0) = false := by
        simpa using fun hh => hb (h.pos_iff.mp (hi.mp hh))
      refine ⟨?_, ?_, ?_⟩ <;> simp [hk, hd, hb, hc, hbuf] <;> exact h
  · -- buffering: no move (`&& !self.is_buffering`), the flag is cleared
    cases hse : v.sel with
    | none =>
      have hh := hasSel_none v hse
      refine ⟨?_, ?_, ?_⟩ <;> simp [hk, hc, hbuf, hse, hh] <;> exact h.of_fields rfl rfl rfl
    | some s =>
      have hh := hasSel_some v s hse
      cases he : s.isEmpty <;> cases hev : ev data s <;> refine ⟨?_, ?_, ?_⟩ <;>
        simp [hk, hc, hbuf, hse, hh, he, hev] <;> exact h.of_fields rfl rfl rfl

/-! ### `new` -/

/-- the action strings of the constructor calls are the regenerated action names the model dispatches on -/
theorem genActions_eq :
    genHtmlBodyVisitorActionAppend = filterActionAppend ∧ genHtmlBodyVisitorActionPrepend = filterActionPrepend ∧
    genHtmlBodyVisitorActionReplace = filterActionReplace := ⟨rfl, rfl, rfl⟩

/-- the model's `Visitor.new` on the three action strings and a non-empty path -/
theorem visitorNew_eq (p : Bytes) (ps : List Bytes) (sel : Option Bytes) (value : Bytes) :
    Visitor.new genHtmlBodyVisitorActionAppend (p :: ps) sel value =
      some { kind := .append, cur := p, after := ps, sel := sel, content := value } ∧
    Visitor.new genHtmlBodyVisitorActionPrepend (p :: ps) sel value =
      some { kind := .prepend, cur := p, after := ps, sel := sel, content := value } ∧
    Visitor.new genHtmlBodyVisitorActionReplace (p :: ps) sel value =
      some { kind := .replace, cur := p, after := ps, sel := sel, content := value } := by
  refine ⟨?_, ?_, ?_⟩ <;>
    simp [Visitor.new, genHtmlBodyVisitorActionAppend, genHtmlBodyVisitorActionPrepend, genHtmlBodyVisitorActionReplace,
      filterActionAppend, filterActionPrepend, filterActionReplace]

/-- the translated constructor calls: which field receives which value of the `HTMLBodyFilter` -/
theorem genNew_fields (tree : List Bytes) (sel : Option Bytes) (value : Bytes) (inner idv th : Option Bytes) :
    genHtmlBodyVisitorNewAppend tree sel value inner idv th = (tree, 0, sel, value, inner.getD value, idv, th) ∧
    genHtmlBodyVisitorNewPrepend tree sel value inner idv th = (tree, 0, sel, value, inner.getD value, false, idv, th) ∧
    genHtmlBodyVisitorNewReplace tree sel value inner idv th = (tree, 0, sel, value, inner.getD value, false, idv, th) :=
  ⟨rfl, rfl, rfl⟩

/-! ### any sequence of `enter` / `leave` calls -/

/-- one call of the visitor by `HtmlFilterBodyAction` -/
inductive VOp where
  | enter (data : Bytes)
  | leave (data : Bytes)

/-- what a call returns, in a common shape: (next_enter, next_leave, start buffering (`enter` only), data) -/
abbrev VOut := Option Bytes × Option Bytes × Option Bool × Bytes

/-- one call on the hand-written model -/
def modelStep (tk : Tokenize) (ev : Bytes → Bytes → Bool) (v : Visitor) : VOp → VOut × Visitor
  | .enter d => ((( v.enter d).1.1, (v.enter d).1.2.1, some (v.enter d).1.2.2.1, (v.enter d).1.2.2.2), (v.enter d).2)
  | .leave d => (((v.leave tk ev d).1.1, (v.leave tk ev d).1.2.1, none, (v.leave tk ev d).1.2.2), (v.leave tk ev d).2)

/-- one call on the TRANSLATED code; the mutable state of the code is (`position`, `is_buffering`) — `BodyAppend` has no
`is_buffering` field: the component is carried along unchanged -/
def genStep (tk : Tokenize) (ev : Bytes → Bytes → Bool) (kind : VKind) (tree : List Bytes) (sel : Option Bytes)
    (content : Bytes) (st : Nat × Bool) : VOp → VOut × (Nat × Bool)
  | .enter d =>
    match kind with
    | .append =>
      let r := genBodyAppendEnter tree st.1 sel content d
      ((r.1.1, r.1.2.1, some r.1.2.2.1, r.1.2.2.2), (r.2, st.2))
    | .prepend =>
      let r := genBodyPrependEnter tree st.1 sel content st.2 d
      ((r.1.1, r.1.2.1, some r.1.2.2.1, r.1.2.2.2), r.2)
    | .replace =>
      let r := genBodyReplaceEnter tree st.1 sel content st.2 d
      ((r.1.1, r.1.2.1, some r.1.2.2.1, r.1.2.2.2), r.2)
  | .leave d =>
    match kind with
    | .append =>
      let r := genBodyAppendLeave ev (appendChild tk) tree st.1 sel content d
      ((r.1.1, r.1.2.1, none, r.1.2.2), (r.2, st.2))
    | .prepend =>
      let r := genBodyPrependLeave ev (prependChild tk) tree st.1 sel content st.2 d
      ((r.1.1, r.1.2.1, none, r.1.2.2), r.2)
    | .replace =>
      let r := genBodyReplaceLeave ev tree st.1 sel content st.2 d
      ((r.1.1, r.1.2.1, none, r.1.2.2), r.2)

def modelRun (tk : Tokenize) (ev : Bytes → Bytes → Bool) (v : Visitor) : List VOp → List VOut × Visitor
  | [] => ([], v)
  | op :: ops =>
    let r := modelStep tk ev v op
    let rs := modelRun tk ev r.2 ops
    (r.1 :: rs.1, rs.2)

def genRun (tk : Tokenize) (ev : Bytes → Bytes → Bool) (kind : VKind) (tree : List Bytes) (sel : Option Bytes)
    (content : Bytes) (st : Nat × Bool) : List VOp → List VOut × (Nat × Bool)
  | [] => ([], st)
  | op :: ops =>
    let r := genStep tk ev kind tree sel content st op
    let rs := genRun tk ev kind tree sel content r.2 ops
    (r.1 :: rs.1, rs.2)

/-- the code's state represents the model's visitor -/
structure Inv (kind : VKind) (tree : List Bytes) (sel : Option Bytes) (content : Bytes) (st : Nat × Bool)
    (v : Visitor) : Prop where
  rep : Rep tree st.1 v
  kind_eq : v.kind = kind
  sel_eq : v.sel = sel
  content_eq : v.content = content
  buf_eq : kind ≠ .append → st.2 = v.isBuffering

theorem visitor_advance_fields (v : Visitor) :
    v.advance.kind = v.kind ∧ v.advance.sel = v.sel ∧ v.advance.content = v.content ∧
    v.advance.isBuffering = v.isBuffering := by
  unfold Visitor.advance; cases v.after <;> simp

theorem visitor_retreat_fields (v : Visitor) :
    v.retreat.kind = v.kind ∧ v.retreat.sel = v.sel ∧ v.retreat.content = v.content ∧
    v.retreat.isBuffering = v.isBuffering := by
  unfold Visitor.retreat; cases v.before <;> simp

theorem visitor_enter_fields (v : Visitor) (d : Bytes) :
    (v.enter d).2.kind = v.kind ∧ (v.enter d).2.sel = v.sel ∧ (v.enter d).2.content = v.content := by
  have ha := visitor_advance_fields v
  unfold Visitor.enter
  by_cases h : v.after ≠ []
  · simp [h, ha]
  · cases hk : v.kind <;> simp [h, hk] <;> split <;> simp [hk]

theorem visitor_leaveMove_fields (v : Visitor) (g : Bool) :
    (v.leaveMove g).2.kind = v.kind ∧ (v.leaveMove g).2.sel = v.sel ∧ (v.leaveMove g).2.content = v.content := by
  have hr := visitor_retreat_fields v
  unfold Visitor.leaveMove
  split <;> simp [hr]

theorem visitor_leave_fields (tk : Tokenize) (ev : Bytes → Bytes → Bool) (v : Visitor) (d : Bytes) :
    (v.leave tk ev d).2.kind = v.kind ∧ (v.leave tk ev d).2.sel = v.sel ∧ (v.leave tk ev d).2.content = v.content := by
  have h1 := visitor_leaveMove_fields v true
  have h2 := visitor_leaveMove_fields v (!v.isBuffering)
  unfold Visitor.leave
  cases hk : v.kind <;> simp only [] <;> (repeat' split) <;> simp_all

/-- one call: same result, invariant kept -/
theorem genStep_eq (tk : Tokenize) (ev : Bytes → Bytes → Bool) {kind : VKind} {tree : List Bytes}
    {sel : Option Bytes} {content : Bytes} {st : Nat × Bool} {v : Visitor} (hs : tree.length < 2147483648)
    (hi : Inv kind tree sel content st v) (op : VOp) :
    (genStep tk ev kind tree sel content st op).1 = (modelStep tk ev v op).1 ∧
    Inv kind tree sel content (genStep tk ev kind tree sel content st op).2 (modelStep tk ev v op).2 := by
  obtain ⟨hrep, hk, hse, hc, hb⟩ := hi
  subst hse hc
  cases op with
  | enter d =>
    have hf := visitor_enter_fields v d
    cases kind with
    | append =>
      have h := genAppendEnter_eq hk hrep d
      refine ⟨?_, ⟨?_, ?_, hf.2.1, hf.2.2, fun hh => absurd rfl hh⟩⟩
      · simp only [genStep, modelStep]; rw [h.1]
      · exact h.2
      · exact hf.1.trans hk
    | prepend =>
      have hbb := hb (by simp)
      have h := genPrependEnter_eq hk hrep d
      rw [← hbb] at h
      refine ⟨?_, ⟨?_, ?_, hf.2.1, hf.2.2, fun _ => ?_⟩⟩
      · simp only [genStep, modelStep]; rw [h.1]
      · exact h.2.1
      · exact hf.1.trans hk
      · exact h.2.2
    | replace =>
      have hbb := hb (by simp)
      have h := genReplaceEnter_eq hk hrep d
      rw [← hbb] at h
      refine ⟨?_, ⟨?_, ?_, hf.2.1, hf.2.2, fun _ => ?_⟩⟩
      · simp only [genStep, modelStep]; rw [h.1]
      · exact h.2.1
      · exact hf.1.trans hk
      · exact h.2.2
  | leave d =>
    have hf := visitor_leave_fields tk ev v d
    cases kind with
    | append =>
      have h := genAppendLeave_eq tk ev hk hrep hs d
      refine ⟨?_, ⟨?_, ?_, hf.2.1, hf.2.2, fun hh => absurd rfl hh⟩⟩
      · simp only [genStep, modelStep]; rw [h.1]
      · exact h.2
      · exact hf.1.trans hk
    | prepend =>
      have hbb := hb (by simp)
      have h := genPrependLeave_eq tk ev hk hrep hs d
      rw [← hbb] at h
      refine ⟨?_, ⟨?_, ?_, hf.2.1, hf.2.2, fun _ => ?_⟩⟩
      · simp only [genStep, modelStep]; rw [h.1]
      · exact h.2.1
      · exact hf.1.trans hk
      · exact h.2.2
    | replace =>
      have hbb := hb (by simp)
      have h := genReplaceLeave_eq tk ev hk hrep hs d
      rw [← hbb] at h
      refine ⟨?_, ⟨?_, ?_, hf.2.1, hf.2.2, fun _ => ?_⟩⟩
      · simp only [genStep, modelStep]; rw [h.1]
      · exact h.2.1
      · exact hf.1.trans hk
      · exact h.2.2

/-- any sequence of calls: same results, invariant kept -/
theorem genRun_eq (tk : Tokenize) (ev : Bytes → Bytes → Bool) {kind : VKind} {tree : List Bytes}
    {sel : Option Bytes} {content : Bytes} (hs : tree.length < 2147483648) (ops : List VOp) :
    ∀ {st : Nat × Bool} {v : Visitor}, Inv kind tree sel content st v →
      (genRun tk ev kind tree sel content st ops).1 = (modelRun tk ev v ops).1 ∧
      Inv kind tree sel content (genRun tk ev kind tree sel content st ops).2 (modelRun tk ev v ops).2 := by
  induction ops with
  | nil => intro st v hi; exact ⟨rfl, hi⟩
  | cons op ops ih =>
    intro st v hi
    have h1 := genStep_eq tk ev hs hi op
    have h2 := ih h1.2
    simp only [genRun, modelRun]
    exact ⟨by rw [h1.1, h2.1], h2.2⟩

theorem inv_new (kind : VKind) (p : Bytes) (ps : List Bytes) (sel : Option Bytes) (content : Bytes) :
    Inv kind (p :: ps) sel content (0, false)
      { kind := kind, cur := p, after := ps, sel := sel, content := content } :=
  ⟨rep_new kind p ps sel content, rfl, rfl, rfl, fun _ => rfl⟩

end Rio.VisitorGen
