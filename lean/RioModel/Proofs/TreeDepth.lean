/-
Depth of the tree as a function of the stored patterns.

Under the invariant, the node prefixes on a root-to-leaf path are boundary prefixes of the pattern at the bottom, of
strictly increasing length.  So the depth is at most 1 + the number of scanner-boundary positions of some stored pattern
(≤ 2 + its length) – and a chain of patterns each extending the previous one reaches a depth equal to their number.
-/
import RioModel.Proofs.TreeSpec
set_option linter.unusedSimpArgs false
set_option linter.unusedVariables false
set_option linter.unusedSectionVars false

namespace Rio.Tree
open Rio.Scan Rio.Regex

variable {ι V : Type} [DecidableEq ι]

theorem depth_empty (ic : Bool) : (Item.empty ic : Item ι V).depth = 0 := by rw [Item.depth]
theorem depth_leaf (rx) (vs : List (ι × V)) : (Item.leaf rx vs).depth = 1 := by rw [Item.depth]
theorem depth_node (rx) (cs : List (Item ι V)) : (Item.node rx cs).depth = 1 + depthL cs := by rw [Item.depth]
theorem depthL_nil : depthL ([] : List (Item ι V)) = 0 := by rw [depthL]
theorem depthL_cons (c : Item ι V) (cs : List (Item ι V)) : depthL (c :: cs) = max c.depth (depthL cs) := by
  rw [depthL]

/-- The deepest child. -/
theorem depthL_attained {cs : List (Item ι V)} (h : cs ≠ []) : ∃ c ∈ cs, depthL cs = c.depth := by
  induction cs with
  | nil => exact absurd rfl h
  | cons c cs ih =>
    rw [depthL_cons]
    by_cases hcs : cs = []
    · subst hcs; exact ⟨c, by simp, by simp [depthL_nil]⟩
    · obtain ⟨d, hd, hde⟩ := ih hcs
      by_cases hle : depthL cs ≤ c.depth
      · exact ⟨c, by simp, by omega⟩
      · exact ⟨d, by simp [hd], by omega⟩

theorem depth_le_depthL {cs : List (Item ι V)} {c : Item ι V} (h : c ∈ cs) : c.depth ≤ depthL cs := by
  induction cs with
  | nil => simp at h
  | cons d cs ih =>
    rw [depthL_cons]
    rcases List.mem_cons.1 h with rfl | h
    · omega
    · have := ih h; omega

/-- Number of scanner-boundary positions `k` of `p` with `lo ≤ k ≤ |p|`. -/
def boundariesFrom (lo : Nat) (p : List Char) : Nat :=
  (List.range (p.length + 1)).countP fun k => decide (lo ≤ k) && (scan b0 (p.take k)).atBoundary

theorem countP_lt_of_extra {α : Type} {l : List α} {p q : α → Bool} (hpq : ∀ x, q x = true → p x = true)
    {a : α} (ha : a ∈ l) (hp : p a = true) (hq : q a = false) : l.countP q + 1 ≤ l.countP p := by
  induction l with
  | nil => simp at ha
  | cons x l ih =>
    simp only [List.countP_cons]
    rcases List.mem_cons.1 ha with rfl | ha'
    · have : l.countP q ≤ l.countP p := List.countP_mono_left fun x _ h => hpq x h
      simp [hp, hq]; omega
    · have := ih ha'
      by_cases hqx : q x = true
      · simp [hqx, hpq x hqx]; omega
      · simp only [Bool.not_eq_true] at hqx
        simp [hqx]; split <;> omega

/-- A boundary prefix `q` of `p` is one more boundary position below any longer prefix. -/
theorem boundariesFrom_lt {q p : List Char} (hq : BPre q p) {lo' : Nat} (hlt : q.length < lo') :
    boundariesFrom lo' p + 1 ≤ boundariesFrom q.length p := by
  unfold boundariesFrom
  apply countP_lt_of_extra (a := q.length)
  · intro k hk
    simp only [Bool.and_eq_true, decide_eq_true_eq] at hk ⊢
    exact ⟨by omega, hk.2⟩
  · simp only [List.mem_range]; have := hq.length_le; omega
  · simp only [Bool.and_eq_true, decide_eq_true_eq, Nat.le_refl, true_and]
    have : p.take q.length = q := by
      obtain ⟨t, rfl⟩ := hq.1; simp
    rw [this]; exact hq.2
  · simp; omega

theorem boundariesFrom_pos {q p : List Char} (hq : BPre q p) : 1 ≤ boundariesFrom q.length p := by
  have := boundariesFrom_lt hq (Nat.lt_succ_self _)
  omega

theorem boundariesFrom_le_length (lo : Nat) (p : List Char) : boundariesFrom lo p ≤ p.length + 1 := by
  unfold boundariesFrom
  have := List.countP_le_length (p := fun k => decide (lo ≤ k) && (scan b0 (p.take k)).atBoundary)
    (l := List.range (p.length + 1))
  simpa using this

/-- Below a node with prefix `q` of depth `d` lies a stored pattern with at least `d - 1` boundary positions from `|q|` on. -/
theorem depth_node_le {ic : Bool} (t : Item ι V) (h : t.inv ic = true) :
    ∀ rx cs, t = .node rx cs → ∃ e ∈ t.contents, t.depth ≤ 1 + boundariesFrom rx.original.length e.pat := by
  induction t using Item.ind with
  | hE ic' => intro rx cs e; cases e
  | hL rx vs => intro rx' cs e; cases e
  | hN rx cs ih =>
    intro rx' cs' e
    cases e
    obtain ⟨_, _, _, h4, h5, _, h7⟩ := inv_node_iff.1 h
    have hne : cs ≠ [] := by intro e; rw [e] at h4; simp at h4
    obtain ⟨c, hc, hd⟩ := depthL_attained hne
    rw [depth_node, hd, contents_node]
    have hcok := h5 c hc
    have hb := childOk_bpre hcok
    cases c with
    | empty ic' => simp at hcok
    | leaf rxl vs =>
      obtain ⟨_, _, hvs, _⟩ := inv_leaf_iff.1 (h7 _ hc)
      cases vs with
      | nil => exact absurd rfl hvs
      | cons kv vs =>
        refine ⟨⟨rxl.original, kv.1, kv.2⟩, mem_contentsL.2 ⟨_, hc, by simp⟩, ?_⟩
        rw [depth_leaf]
        have := boundariesFrom_pos (q := rx.original) (p := rxl.original) hb
        simp only [regex_leaf] at *
        omega
    | node rxn csn =>
      obtain ⟨e, he, hle⟩ := ih _ hc (h7 _ hc) rxn csn rfl
      refine ⟨e, mem_contentsL.2 ⟨_, hc, he⟩, ?_⟩
      have hbe : BPre rx.original e.pat := inv_below h e (mem_contentsL.2 ⟨_, hc, he⟩)
      have hlt : rx.original.length < rxn.original.length := by
        have := childOk_lt hcok rfl; simpa using this
      have := boundariesFrom_lt hbe hlt
      omega

/-- **Depth bound.**  A non-empty tree satisfying the invariant stores a pattern `p` with
`depth ≤ 1 + (number of scanner-boundary positions of p)`; in particular `depth ≤ 2 + |p|`. -/
theorem depth_le_boundaries {ic : Bool} (t : Item ι V) (h : t.inv ic = true) (hne : t.contents ≠ []) :
    ∃ e ∈ t.contents, t.depth ≤ 1 + boundariesFrom 0 e.pat ∧ t.depth ≤ 2 + e.pat.length := by
  cases t with
  | empty ic' => simp at hne
  | leaf rx vs =>
    cases hc : (Item.leaf rx vs).contents with
    | nil => exact absurd hc hne
    | cons e _ =>
      refine ⟨e, by simp, ?_, ?_⟩ <;> rw [depth_leaf] <;> omega
  | node rx cs =>
    obtain ⟨e, he, hle⟩ := depth_node_le _ h rx cs rfl
    refine ⟨e, he, ?_, ?_⟩
    · have : boundariesFrom rx.original.length e.pat ≤ boundariesFrom 0 e.pat := by
        unfold boundariesFrom
        apply List.countP_mono_left
        intro k _ hk
        simp only [Bool.and_eq_true, decide_eq_true_eq] at hk ⊢
        exact ⟨by omega, hk.2⟩
      omega
    · have := boundariesFrom_le_length rx.original.length e.pat
      omega

/-! ### The bound is reached (up to the constant): chains of prefixes -/

/-- The pattern `aⁿ`. -/
def chainPat (n : Nat) : List Char := List.replicate n 'a'

theorem step_a : b0.step 'a' = b0 := by decide

theorem cpLoop_chain (m k i : Nat) :
    cpLoop (chainPat m) (chainPat k) b0 i i = i + min m k := by
  induction m generalizing k i with
  | zero => simp [chainPat, cpLoop]
  | succ m ih =>
    cases k with
    | zero => simp [chainPat, cpLoop]
    | succ k =>
      have : cpLoop (chainPat (m + 1)) (chainPat (k + 1)) b0 i i =
          cpLoop (chainPat m) (chainPat k) b0 (i + 1) (i + 1) := by
        simp [chainPat, List.replicate_succ, cpLoop, step_a]
      rw [this, ih]; omega

theorem cpcs_chain (m k : Nat) : commonPrefixCharSize (chainPat m) (chainPat k) = min m k := by
  unfold commonPrefixCharSize; rw [cpLoop_chain]; omega

theorem chainPat_length (n : Nat) : (chainPat n).length = n := by simp [chainPat]

theorem chainPat_inj {m k : Nat} (h : chainPat m = chainPat k) : m = k := by
  have := congrArg List.length h; simpa [chainPat_length] using this

theorem commonPrefix_chain (m k : Nat) (h : m ≤ k) : commonPrefix (chainPat m) (chainPat k) = chainPat m := by
  rw [commonPrefix_eq, cpcs_chain, Nat.min_eq_left h]
  simp [chainPat]

/-- The tree holding `aⁱ, …, aⁿ` (ids and values = the exponent): a spine of nodes `aⁱ`, each with the leaf `aⁱ` and the rest. -/
def chainFrom (ic : Bool) : Nat → Nat → Item Nat Nat
  | 0, i => .leaf (LazyRegex.newLeaf (chainPat i) ic) [(i, i)]
  | d + 1, i =>
    .node (LazyRegex.newNode (chainPat i) ic)
      [.leaf (LazyRegex.newLeaf (chainPat i) ic) [(i, i)], chainFrom ic d (i + 1)]

theorem chainFrom_regex (ic : Bool) (d i : Nat) : (chainFrom ic d i).regex = chainPat i := by
  cases d <;> simp [chainFrom]

theorem chainFrom_depth (ic : Bool) (d i : Nat) : (chainFrom ic d i).depth = d + 1 := by
  induction d generalizing i with
  | zero => simp [chainFrom, depth_leaf]
  | succ d ih =>
    rw [chainFrom, depth_node, depthL_cons, depthL_cons, depthL_nil, depth_leaf, ih]; omega

/-- Inserting the next longer pattern extends the spine by one level. -/
theorem chainFrom_insert (ic : Bool) (d i : Nat) (hi : 1 ≤ i) :
    (chainFrom ic d i).insert (chainPat (i + d + 1)) (i + d + 1) (i + d + 1) = chainFrom ic (d + 1) i := by
  induction d generalizing i with
  | zero =>
    simp only [chainFrom, Nat.add_zero]
    rw [insert_leaf]; unfold leafInsert
    have hne : chainPat (i + 1) ≠ (LazyRegex.newLeaf (chainPat i) ic).original := by
      intro e; have := chainPat_inj e; omega
    have hne' : ¬ chainPat (i + 1) = chainPat i := by intro e; have := chainPat_inj e; omega
    simp only [hne, if_false, newLeaf_original, newLeaf_ic, commonPrefix_chain i (i + 1) (by omega), hne']
  | succ d ih =>
    have hlen : (LazyRegex.newNode (chainPat i) ic).original.length = i := by simp [chainPat_length]
    have hsplit : ¬ commonPrefixCharSize (chainPat (i + (d + 1) + 1)) (LazyRegex.newNode (chainPat i) ic).original
        < (LazyRegex.newNode (chainPat i) ic).original.length := by
      rw [hlen, newNode_original, cpcs_chain]; omega
    have hsel : selLoop (chainPat (i + (d + 1) + 1))
        (List.map Item.regex [Item.leaf (LazyRegex.newLeaf (chainPat i) ic) [(i, i)], chainFrom ic d (i + 1)]) 0
        (LazyRegex.newNode (chainPat i) ic).original.length none = some 1 := by
      rw [hlen]
      simp only [List.map_cons, List.map_nil, regex_leaf, newLeaf_original, chainFrom_regex, selLoop, cpcs_chain]
      have h1 : ¬ (min (i + (d + 1) + 1) i > i) := by omega
      have h2 : (chainPat i == chainPat (i + (d + 1) + 1)) = false := by
        rw [beq_eq_false_iff_ne]; intro e; have := chainPat_inj e; omega
      have h3 : min (i + (d + 1) + 1) (i + 1) > i := by omega
      simp [h1, h2, h3]
    conv => lhs; rw [chainFrom]
    rw [insert_node_some hsplit hsel]
    have : insertAt [Item.leaf (LazyRegex.newLeaf (chainPat i) ic) [(i, i)], chainFrom ic d (i + 1)] 1
        (chainPat (i + (d + 1) + 1)) (i + (d + 1) + 1) (i + (d + 1) + 1)
        = [Item.leaf (LazyRegex.newLeaf (chainPat i) ic) [(i, i)],
            (chainFrom ic d (i + 1)).insert (chainPat (i + (d + 1) + 1)) (i + (d + 1) + 1) (i + (d + 1) + 1)] := by
      simp [insertAt]
    rw [this]
    have hidx : i + (d + 1) + 1 = (i + 1) + d + 1 := by omega
    rw [hidx, ih (i + 1) (by omega)]
    conv => rhs; rw [chainFrom]

/-- Insert `a¹, a², …, aⁿ` in this order. -/
def chainOps (n : Nat) : List (Op Nat Nat) := (List.range n).map fun i => .insert (chainPat (i + 1)) (i + 1) (i + 1)

theorem chainOps_succ (n : Nat) :
    chainOps (n + 1) = chainOps n ++ [.insert (chainPat (n + 1)) (n + 1) (n + 1)] := by
  simp [chainOps, List.range_succ]

theorem treeRun_append (E : Engine) (t : Item ι V) (a b : List (Op ι V)) :
    treeRun E t (a ++ b) = (treeRun E t a).bind fun t' => treeRun E t' b := by
  induction a generalizing t with
  | nil => simp [treeRun]
  | cons op a ih =>
    simp only [List.cons_append, treeRun]
    cases treeStep E t op with
    | none => simp
    | some t' => simp [ih]

/-- **The chain family**: after inserting `a¹ … aⁿ` (n ≥ 1) the tree is the spine of `n − 1` nested nodes. -/
theorem chain_tree (E : Engine) (ic : Bool) (n : Nat) :
    treeRun E (.empty ic) (chainOps (n + 1)) = some (chainFrom ic n 1) := by
  induction n with
  | zero => simp [chainOps, treeRun, treeStep, insert_empty, newLeafItem, chainFrom]
  | succ n ih =>
    rw [chainOps_succ, treeRun_append, ih]
    simp only [Option.bind_some, treeRun, treeStep]
    have := chainFrom_insert ic n 1 (by omega)
    have hidx : 1 + n + 1 = n + 1 + 1 := by omega
    rw [hidx] at this
    rw [this]

end Rio.Tree
