/-
Updates commute with clearing the `compiled` flags (`strip`), so a history with `cache` calls and the
same history without them end in trees that are equal up to those flags – for *every* history, with no
hypothesis on the patterns.
-/
import RioModel.Proofs.TreeHistory
set_option linter.unusedSimpArgs false
set_option linter.unusedVariables false
set_option linter.unusedSectionVars false

namespace Rio.Tree
open Rio.Scan Rio.Regex

variable {ι V : Type} [DecidableEq ι]

theorem isEmpty_strip (t : Item ι V) : t.strip.isEmpty = t.isEmpty := by
  induction t using Item.ind with
  | hE ic => simp
  | hL rx vs => simp [isEmpty_leaf]
  | hN rx cs ih =>
    rw [strip_node, isEmpty_node, isEmpty_node, List.all_map, Bool.eq_iff_iff]
    simp only [List.all_eq_true, Function.comp]
    constructor
    · intro h c hc; rw [← ih c hc]; exact h c hc
    · intro h c hc; rw [ih c hc]; exact h c hc

theorem keepNonEmpty_strip (c : Item ι V) : keepNonEmpty c.strip = (keepNonEmpty c).map Item.strip := by
  unfold keepNonEmpty
  rw [isEmpty_strip]
  split <;> simp

theorem collapse1_strip (rx : LazyRegex) (l : List (Item ι V)) :
    (collapse1 rx l).strip = collapse1 rx.strip (l.map Item.strip) := by
  match l with
  | [] => simp [collapse1]
  | [c] => simp [collapse1]
  | _ :: _ :: _ => simp [collapse1]

@[simp] theorem newLeaf_strip (p : List Char) (ic : Bool) : (LazyRegex.newLeaf p ic).strip = LazyRegex.newLeaf p ic := rfl
@[simp] theorem newNode_strip (p : List Char) (ic : Bool) : (LazyRegex.newNode p ic).strip = LazyRegex.newNode p ic := rfl

theorem newLeafItem_strip (p : List Char) (id : ι) (v : V) (ic : Bool) :
    (newLeafItem p id v ic).strip = newLeafItem p id v ic := by
  simp [newLeafItem]

theorem map_regex_strip (cs : List (Item ι V)) : (cs.map Item.strip).map Item.regex = cs.map Item.regex := by
  rw [List.map_map]; exact List.map_congr_left (fun c _ => by simp [regex_strip])

/-! ### insert -/

theorem insertAt_map_strip (cs : List (Item ι V)) (i : Nat) (p : List Char) (id : ι) (v : V)
    (h : ∀ c ∈ cs, (c.insert p id v).strip = c.strip.insert p id v) :
    (insertAt cs i p id v).map Item.strip = insertAt (cs.map Item.strip) i p id v := by
  induction cs generalizing i with
  | nil => simp [insertAt]
  | cons c cs ih =>
    cases i with
    | zero => simp [insertAt, h c (by simp)]
    | succ i => simp [insertAt, ih i fun d hd => h d (by simp [hd])]

theorem insert_strip (t : Item ι V) (p : List Char) (id : ι) (v : V) :
    (t.insert p id v).strip = t.strip.insert p id v := by
  induction t using Item.ind with
  | hE ic => simp [insert_empty, newLeafItem_strip]
  | hL rx vs =>
    rw [strip_leaf, insert_leaf, insert_leaf]
    unfold leafInsert
    simp only [strip_original, strip_ic]
    by_cases hp : p = rx.original <;> simp [hp]
  | hN rx cs ih =>
    rw [strip_node]
    by_cases hsplit : commonPrefixCharSize p rx.original < rx.original.length
    · rw [insert_node_split hsplit, insert_node_split (by simpa using hsplit)]
      simp [newLeafItem_strip]
    · cases hs : selLoop p (cs.map Item.regex) 0 rx.original.length none with
      | none =>
        rw [insert_node_none hsplit hs,
          insert_node_none (by simpa using hsplit) (by rw [map_regex_strip]; simpa using hs)]
        simp [newLeafItem_strip]
      | some i =>
        rw [insert_node_some hsplit hs,
          insert_node_some (by simpa using hsplit) (by rw [map_regex_strip]; simpa using hs)]
        rw [strip_node, insertAt_map_strip cs i p id v ih]

/-! ### remove -/

theorem leafRemove_strip (rx : LazyRegex) (vs : List (ι × V)) (id : ι) :
    (leafRemove rx vs id).1.strip = (leafRemove rx.strip vs id).1 ∧
    (leafRemove rx vs id).2 = (leafRemove rx.strip vs id).2 := by
  cases hl : lookupKey vs id with
  | none => rw [leafRemove_none hl, leafRemove_none hl]; simp
  | some w =>
    rw [leafRemove_some hl, leafRemove_some hl]
    simp only [strip_ic, and_true]
    split <;> simp

theorem remove_strip (t : Item ι V) (id : ι) :
    (t.remove id).1.strip = (t.strip.remove id).1 ∧ (t.remove id).2 = (t.strip.remove id).2 := by
  induction t using Item.ind with
  | hE ic => simp [remove_empty]
  | hL rx vs => rw [strip_leaf, remove_leaf, remove_leaf]; exact leafRemove_strip rx vs id
  | hN rx cs ih =>
    rw [strip_node, remove_node, remove_node]
    simp only
    have key : ∀ l : List (Item ι V), (∀ c ∈ l, c ∈ cs) →
        (removeL l id).1.map Item.strip = (removeL (l.map Item.strip) id).1 ∧
        (removeL l id).2 = (removeL (l.map Item.strip) id).2 := by
      intro l
      induction l with
      | nil => intro _; simp [removeL_nil]
      | cons c l ihl =>
        intro hsub
        obtain ⟨h1, h2⟩ := ih c (hsub c (by simp))
        obtain ⟨hl1, hl2⟩ := ihl fun d hd => hsub d (by simp [hd])
        rw [List.map_cons]
        cases hrc : (c.remove id).2 with
        | some w =>
          rw [removeL_cons_some hrc, removeL_cons_some (by rw [← h2]; exact hrc)]
          simp [← h1, keepNonEmpty_strip]
        | none =>
          rw [removeL_cons_none hrc, removeL_cons_none (by rw [← h2]; exact hrc)]
          simp [← h1, keepNonEmpty_strip, hl1, hl2]
    obtain ⟨k1, k2⟩ := key cs fun _ h => h
    exact ⟨by rw [collapse1_strip, k1], k2⟩

/-! ### retain -/

theorem retain_strip (t : Item ι V) (f : ι → V → Option V) : (t.retain f).strip = t.strip.retain f := by
  induction t using Item.ind with
  | hE ic => simp [retain_empty]
  | hL rx vs =>
    rw [strip_leaf, retain_leaf, retain_leaf]
    simp only [strip_ic]
    split <;> simp
  | hN rx cs ih =>
    rw [strip_node, retain_node, retain_node]
    have : (retainL cs f).map Item.strip = retainL (cs.map Item.strip) f := by
      rw [retainL_eq, retainL_eq, List.map_flatMap, List.flatMap_map]
      apply flatMap_congr'
      intro c hc
      rw [← ih c hc, keepNonEmpty_strip]
    rw [← this]
    simp only [strip_ic, List.isEmpty_map]
    split
    · simp
    · rw [collapse1_strip]

/-! ### get_mut + update -/

theorem modifyAt_strip (t : Item ι V) (p : List Char) (g : ι → V → V) :
    (t.modifyAt p g).strip = t.strip.modifyAt p g := by
  induction t using Item.ind with
  | hE ic => simp [modifyAt_empty]
  | hL rx vs =>
    rw [strip_leaf, modifyAt_leaf, modifyAt_leaf]
    simp only [strip_original]
    by_cases hp : rx.original = p <;> simp [hp]
  | hN rx cs ih =>
    rw [strip_node, modifyAt_node, modifyAt_node]
    simp only [strip_original]
    by_cases hp : rx.original.isPrefixOf p = true
    · simp only [hp, if_true]
      rw [strip_node, List.map_map, List.map_map]
      have : List.map (Item.strip ∘ fun c => c.modifyAt p g) cs
          = List.map ((fun c => c.modifyAt p g) ∘ Item.strip) cs :=
        List.map_congr_left fun c hc => ih c hc
      rw [this]
    · simp [hp]

/-! ### Histories with and without cache calls -/

/-- The history with every `cache` call removed. -/
def dropCache : List (Op ι V) → List (Op ι V)
  | [] => []
  | .cache _ _ :: ops => dropCache ops
  | op :: ops => op :: dropCache ops

/-- Running a history with cache calls from `t` and the cache-free history from `t0`, where `t` and `t0`
differ only in `compiled` flags: both complete, and the results differ only in `compiled` flags. -/
theorem run_drop_cache (E : Engine) (ops : List (Op ι V)) :
    ∀ (t t0 : Item ι V), t.strip = t0.strip →
      ∃ t' t0', treeRun E t ops = some t' ∧ treeRun E t0 (dropCache ops) = some t0' ∧ t'.strip = t0'.strip := by
  induction ops with
  | nil => intro t t0 h; exact ⟨t, t0, rfl, rfl, h⟩
  | cons op ops ih =>
    intro t t0 h
    cases op with
    | insert p id v =>
      obtain ⟨t', t0', h1, h2, h3⟩ := ih (t.insert p id v) (t0.insert p id v)
        (by rw [insert_strip, insert_strip, h])
      exact ⟨t', t0', by simpa [treeRun, treeStep] using h1, by simpa [dropCache, treeRun, treeStep] using h2, h3⟩
    | remove id =>
      obtain ⟨t', t0', h1, h2, h3⟩ := ih (t.remove id).1 (t0.remove id).1
        (by rw [(remove_strip t id).1, (remove_strip t0 id).1, h])
      exact ⟨t', t0', by simpa [treeRun, treeStep] using h1, by simpa [dropCache, treeRun, treeStep] using h2, h3⟩
    | retain f =>
      obtain ⟨t', t0', h1, h2, h3⟩ := ih (t.retain f) (t0.retain f)
        (by rw [retain_strip, retain_strip, h])
      exact ⟨t', t0', by simpa [treeRun, treeStep] using h1, by simpa [dropCache, treeRun, treeStep] using h2, h3⟩
    | modify p g =>
      obtain ⟨t', t0', h1, h2, h3⟩ := ih (t.modifyAt p g) (t0.modifyAt p g)
        (by rw [modifyAt_strip, modifyAt_strip, h])
      exact ⟨t', t0', by simpa [treeRun, treeStep] using h1, by simpa [dropCache, treeRun, treeStep] using h2, h3⟩
    | cache limit level =>
      obtain ⟨tc, n, hc, hs, _⟩ := treeCache_spec E t limit level
      obtain ⟨t', t0', h1, h2, h3⟩ := ih tc t0 (by rw [hs, h])
      exact ⟨t', t0', by simp [treeRun, treeStep, hc, h1], by simpa [dropCache] using h2, h3⟩

/-! ### Every reachable tree satisfies the invariant; its patterns are inserted patterns -/

/-- Patterns inserted by a history. -/
def insertedPats : List (Op ι V) → List (List Char)
  | [] => []
  | .insert p _ _ :: ops => p :: insertedPats ops
  | _ :: ops => insertedPats ops

theorem run_reachable (E : Engine) {ic : Bool} (P : List Char → Prop) (ops : List (Op ι V)) :
    ∀ (t : Item ι V), t.inv ic = true → (∀ e ∈ t.contents, P e.pat) → (∀ p ∈ insertedPats ops, P p) →
      ∀ t', treeRun E t ops = some t' → t'.inv ic = true ∧ ∀ e ∈ t'.contents, P e.pat := by
  induction ops with
  | nil => intro t hinv hP _ t' h; simp [treeRun] at h; subst h; exact ⟨hinv, hP⟩
  | cons op ops ih =>
    intro t hinv hP hins t' h
    cases op with
    | insert p id v =>
      simp only [treeRun, treeStep] at h
      refine ih _ (inv_insert t p id v hinv) ?_ (fun q hq => hins q (by simp [insertedPats, hq])) t' h
      intro e he
      rcases mem_refInsert ((contents_insert t p id v hinv).subset he) with rfl | he
      · exact hins p (by simp [insertedPats])
      · exact hP e he
    | remove id =>
      simp only [treeRun, treeStep] at h
      refine ih _ (inv_remove t id hinv) ?_ (fun q hq => hins q (by simpa [insertedPats] using hq)) t' h
      intro e he
      rw [(contents_remove t id).1] at he
      exact hP e (mem_refRemove he)
    | retain f =>
      simp only [treeRun, treeStep] at h
      refine ih _ (inv_retain t f hinv) ?_ (fun q hq => hins q (by simpa [insertedPats] using hq)) t' h
      intro e he
      rw [contents_retain] at he
      obtain ⟨e0, he0, hp, _, _⟩ := mem_refRetain he
      rw [hp]; exact hP e0 he0
    | modify p g =>
      simp only [treeRun, treeStep] at h
      refine ih _ (inv_modifyAt t p g hinv) ?_ (fun q hq => hins q (by simpa [insertedPats] using hq)) t' h
      intro e he
      rw [contents_modifyAt t p g hinv] at he
      obtain ⟨e0, he0, hp, _⟩ := mem_refModify he
      rw [hp]; exact hP e0 he0
    | cache limit level =>
      obtain ⟨tc, n, hc, hs, _⟩ := treeCache_spec E t limit level
      simp only [treeRun, treeStep, hc, Option.map_some] at h
      refine ih tc (by rw [inv_of_treeCache hc]; exact hinv) ?_
        (fun q hq => hins q (by simpa [insertedPats] using hq)) t' h
      rw [← contents_strip, hs, contents_strip]; exact hP

end Rio.Tree

namespace Rio.Tree
variable {ι V : Type} [DecidableEq ι]

theorem insertedPats_dropCache (ops : List (Op ι V)) : insertedPats (dropCache ops) = insertedPats ops := by
  induction ops with
  | nil => rfl
  | cons op ops ih => cases op <;> simp [dropCache, insertedPats, ih]

end Rio.Tree
