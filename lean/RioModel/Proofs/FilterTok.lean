/-
Tokenizer laws of the filter theorems, discharged for the concrete tokenizer `htmlTokenize` (the instantiation of the
C16 model in `Model/FilterHtml.lean`) from the C16 lemmas of W5 (`Proofs/HtmlNext.lean`).

  `htmlTokenize_lossless : Lossless htmlTokenize`   (hypothesis of every C04 theorem)
-/
import RioModel.Proofs.FilterHtml
import RioModel.Model.FilterHtml
import RioModel.Proofs.HtmlNext
set_option linter.unusedSimpArgs false
set_option linter.unusedVariables false

namespace Rio.Filter
open Rio.Html Rio.Html.Tokenizer

theorem tagName_cases' (t : Tokenizer) :
    (tagName t).1 = .panic ∨ (tagName t).2 = t ∨ (tagName t).2 = { t with dataS := t.rawE, dataE := t.rawE } := by
  unfold tagName
  (repeat' split) <;> simp

/-- the accessor `tag_name()` does not touch what `next()` and the raw spans depend on -/
theorem tagName_frame (t : Tokenizer) (x : Option (List Nat) × Bool) (h : (tagName t).1 = .ok x) (hi : Inv t) :
    Inv (tagName t).2 ∧ restL (tagName t).2 = restL t := by
  rcases tagName_cases' t with hc | hc | hc
  · rw [hc] at h; cases h
  · rw [hc]; exact ⟨hi, rfl⟩
  · rw [hc]
    exact ⟨⟨hi.raw, ⟨hi.ok.le, hi.ok.panic, hi.ok.hang, hi.ok.utf8⟩, hi.tag⟩, rfl⟩

theorem tokenizeGo_lossless : ∀ (n : Nat) (t : Tokenizer) (acc ts : List Tok) (r : Bytes), Inv t →
    tokenizeGo n t acc = some (ts, r) → rawsOf ts ++ r = rawsOf acc.reverse ++ restL t
  | 0, _, _, _, _, _, h => by simp [tokenizeGo] at h
  | n + 1, t, acc, ts, r, hi, h => by
    have hi1 : Inv (next t) := next_inv' t hi
    have hb : (next t).buf = t.buf := next_buf' t hi
    have hs : (next t).rawS = t.rawE := next_rawS' t hi
    -- the unread bytes before the call = the raw span of the new token, then the unread bytes after it
    have hsplit : restL t = rawL (next t) ++ restL (next t) := by
      unfold restL rawL
      rw [hb, hs]
      exact extract_split t.buf t.rawE (next t).rawE t.buf.size (by rw [← hs]; exact hi1.raw) (by rw [← hb]; exact hi1.ok.le)
    rw [tokenizeGo] at h
    split at h
    · simp at h
    · split at h
      · -- ErrorToken
        rw [raw_eq _ hi1, buffered_eq _ hi1] at h
        simp only at h
        injection h with h
        injection h with h1 h2
        subst h1 h2
        rw [hsplit]
      · rw [raw_eq _ hi1] at h
        simp only at h
        split at h
        · -- a tag token: `tag_name()` is called
          split at h
          · rename_i nm b t2 htn
            have hfr := tagName_frame (next t) (some nm, b) (by rw [htn]) hi1
            rw [htn] at hfr
            have := tokenizeGo_lossless n t2 _ ts r hfr.1 h
            rw [this, hfr.2, hsplit]
            simp [rawsOf, List.append_assoc]
          · rename_i b t2 htn
            have hfr := tagName_frame (next t) (none, b) (by rw [htn]) hi1
            rw [htn] at hfr
            have := tokenizeGo_lossless n t2 _ ts r hfr.1 h
            rw [this, hfr.2, hsplit]
            simp [rawsOf, List.append_assoc]
          · simp at h
        · have := tokenizeGo_lossless n (next t) _ ts r hi1 h
          rw [this, hsplit]
          simp [rawsOf, List.append_assoc]

/-- **C16 `lossless` on the level of the filters**: the raw bytes of the tokens followed by the remainder are the input. -/
theorem htmlTokenize_lossless : Lossless htmlTokenize := by
  intro d
  unfold htmlTokenize
  cases h : htmlTokenize? d with
  | none => simp [rawsOf]
  | some r =>
    obtain ⟨ts, rest⟩ := r
    simp only [Option.getD_some]
    unfold htmlTokenize? at h
    have hnew : Inv (Tokenizer.new d.toArray) :=
      ⟨Nat.le_refl _, ⟨Nat.zero_le _, rfl, rfl, rfl⟩, TagOk_nil⟩
    have := tokenizeGo_lossless _ _ [] ts rest hnew h
    rw [this]
    simp [rawsOf, restL, Tokenizer.new]

end Rio.Filter
