/-
Tokenizer laws of the filter theorems, discharged for the concrete tokenizer `htmlTokenize` (the instantiation of the
C16 model in `Model/FilterHtml.lean`) from the C16 lemmas of W5 (`Proofs/HtmlNext.lean`).

  `htmlTokenize_lossless : Lossless htmlTokenize`      (`Tokenizer::new`, append_child / prepend_child)
  `htmlTokenize_losslessS : LosslessS htmlTokenize`    (`Tokenizer::new_fragment(data, last_context)`, the filter loop)
  `htmlTokenize_losslessAll`                           (both: hypothesis of every C04 theorem)
  `htmlStream_nil_erase`                               (without context the stream tokenizer IS the plain one)
-/
import RioModel.Proofs.FilterHtml
import RioModel.Model.FilterHtml
import RioModel.Proofs.HtmlNext
import RioModel.Proofs.HtmlStream7
set_option linter.unusedSimpArgs false
set_option linter.unusedVariables false

namespace Rio.Filter
open Rio.Html Rio.Html.Tokenizer

theorem tagName_cases' (t : Tokenizer) :
    (tagName t).1 = .panic ∨ (tagName t).2 = t ∨ (tagName t).2 = { t with dataS := t.rawE, dataE := t.rawE } := by
  unfold tagName
  (repeat' split) <;> simp

/-- the accessor `tag_name()` does not touch what `next()` and the raw spans depend on -/
theorem tagName_frame (t : Tokenizer) (x : Option (List Nat) × Bool) (h : (tagName t).1 = .ok x) (hi : Inv t) :
    Inv (tagName t).2 ∧ restL (tagName t).2 = restL t := by
  rcases tagName_cases' t with hc | hc | hc
  · rw [hc] at h; cases h
  · rw [hc]; exact ⟨hi, rfl⟩
  · rw [hc]
    exact ⟨⟨hi.raw, ⟨hi.ok.le, hi.ok.panic, hi.ok.hang, hi.ok.utf8⟩, hi.tag⟩, rfl⟩

theorem tokenizeGo_lossless : ∀ (n : Nat) (t : Tokenizer) (acc ts : List Tok) (r : Bytes), Inv t →
    tokenizeGo n t acc = some (ts, r) → rawsOf ts ++ r = rawsOf acc.reverse ++ restL t
  | 0, _, _, _, _, _, h => by simp [tokenizeGo] at h
  | n + 1, t, acc, ts, r, hi, h => by
    have hi1 : Inv (next t) := next_inv' t hi
    have hb : (next t).buf = t.buf := next_buf' t hi
    have hs : (next t).rawS = t.rawE := next_rawS' t hi
    -- the unread bytes before the call = the raw span of the new token, then the unread bytes after it
    have hsplit : restL t = rawL (next t) ++ restL (next t) := by
      unfold restL rawL
      rw [hb, hs]
      exact extract_split t.buf t.rawE (next t).rawE t.buf.size (by rw [← hs]; exact hi1.raw) (by rw [← hb]; exact hi1.ok.le)
    rw [tokenizeGo] at h
    split at h
    · simp at h
    · split at h
      · -- ErrorToken
        rw [raw_eq _ hi1, buffered_eq _ hi1] at h
        simp only at h
        injection h with h
        injection h with h1 h2
        subst h1 h2
        rw [hsplit]
      · rw [raw_eq _ hi1] at h
        simp only at h
        split at h
        · -- a tag token: `tag_name()` is called
          split at h
          · rename_i nm b t2 htn
            have hfr := tagName_frame (next t) (some nm, b) (by rw [htn]) hi1
            rw [htn] at hfr
            have := tokenizeGo_lossless n t2 _ ts r hfr.1 h
            rw [this, hfr.2, hsplit]
            simp [rawsOf, List.append_assoc]
          · rename_i b t2 htn
            have hfr := tagName_frame (next t) (none, b) (by rw [htn]) hi1
            rw [htn] at hfr
            have := tokenizeGo_lossless n t2 _ ts r hfr.1 h
            rw [this, hfr.2, hsplit]
            simp [rawsOf, List.append_assoc]
          · simp at h
        · have := tokenizeGo_lossless n (next t) _ ts r hi1 h
          rw [this, hsplit]
          simp [rawsOf, List.append_assoc]

/-- **C16 `lossless` on the level of the filters**: the raw bytes of the tokens followed by the remainder are the input. -/
theorem htmlTokenize_lossless : Lossless htmlTokenize := by
  intro d
  show rawsOf (htmlPlain d).1 ++ (htmlPlain d).2 = d
  unfold htmlPlain
  cases h : htmlTokenize? d with
  | none => simp [rawsOf]
  | some r =>
    obtain ⟨ts, rest⟩ := r
    simp only [Option.getD_some]
    unfold htmlTokenize? at h
    have hnew : Inv (Tokenizer.new d.toArray) :=
      ⟨Nat.le_refl _, ⟨Nat.zero_le _, rfl, rfl, rfl⟩, TagOk_nil⟩
    have := tokenizeGo_lossless _ _ [] ts rest hnew h
    rw [this]
    simp [rawsOf, restL, Tokenizer.new]

/-! ### the stream tokenizer (`new_fragment(data, last_context)`) -/

theorem tokenizeGoX_lossless : ∀ (n : Nat) (t : Tokenizer) (acc xs : List TokX) (r c : Bytes), Inv t →
    tokenizeGoX n t acc = some (xs, r, c) → rawsOf (toksOf xs) ++ r = rawsOf (toksOf acc.reverse) ++ restL t
  | 0, _, _, _, _, _, _, h => by simp [tokenizeGoX] at h
  | n + 1, t, acc, xs, r, c, hi, h => by
    have hi1 : Inv (next t) := next_inv' t hi
    have hb : (next t).buf = t.buf := next_buf' t hi
    have hs : (next t).rawS = t.rawE := next_rawS' t hi
    have hsplit : restL t = rawL (next t) ++ restL (next t) := by
      unfold restL rawL
      rw [hb, hs]
      exact extract_split t.buf t.rawE (next t).rawE t.buf.size (by rw [← hs]; exact hi1.raw) (by rw [← hb]; exact hi1.ok.le)
    rw [tokenizeGoX] at h
    split at h
    · simp at h
    · split at h
      · rw [raw_eq _ hi1, buffered_eq _ hi1] at h
        simp only at h
        injection h with h
        injection h with h1 h2
        injection h2 with h2 h3
        subst h1 h2
        rw [hsplit]
      · rw [raw_eq _ hi1] at h
        simp only at h
        split at h
        · split at h
          · rename_i nm b t2 htn
            have hfr := tagName_frame (next t) (some nm, b) (by rw [htn]) hi1
            rw [htn] at hfr
            have := tokenizeGoX_lossless n t2 _ xs r c hfr.1 h
            rw [this, hfr.2, hsplit]
            simp [rawsOf, toksOf, List.append_assoc]
          · rename_i b t2 htn
            have hfr := tagName_frame (next t) (none, b) (by rw [htn]) hi1
            rw [htn] at hfr
            have := tokenizeGoX_lossless n t2 _ xs r c hfr.1 h
            rw [this, hfr.2, hsplit]
            simp [rawsOf, toksOf, List.append_assoc]
          · simp at h
        · have := tokenizeGoX_lossless n (next t) _ xs r c hi1 h
          rw [this, hsplit]
          simp [rawsOf, toksOf, List.append_assoc]

theorem newFragment_inv (b : Array Nat) (c : List Nat) : Inv (Tokenizer.newFragment b c) := by
  obtain ⟨_, h2, h3, _, _, h6, h7, h8⟩ := newFragment_fields b c
  exact ⟨by rw [h2, h3]; exact Nat.le_refl _, ⟨by rw [h2]; exact Nat.zero_le _, h6, h7, h8⟩,
    (newFragment_rawCtx b c).tagOk⟩

/-- **`lossless` for the stream tokenizer**, whatever the context -/
theorem htmlTokenize_losslessS : LosslessS htmlTokenize := by
  intro c d
  show rawsOf (toksOf (htmlStream c d).1) ++ (htmlStream c d).2.1 = d
  unfold htmlStream
  cases h : htmlStream? c d with
  | none => simp [rawsOf, toksOf]
  | some r =>
    obtain ⟨xs, rest, c'⟩ := r
    simp only [Option.getD_some]
    unfold htmlStream? at h
    have := tokenizeGoX_lossless _ _ [] xs rest c' (newFragment_inv d.toArray c) h
    rw [this]
    simp [rawsOf, toksOf, restL, (newFragment_fields d.toArray c).1, (newFragment_fields d.toArray c).2.1]

theorem htmlTokenize_losslessAll : LosslessAll htmlTokenize := ⟨htmlTokenize_lossless, htmlTokenize_losslessS⟩

/-! ### without a context the stream tokenizer is the plain one -/

theorem tokenizeGoX_erase : ∀ (n : Nat) (t : Tokenizer) (acc : List TokX),
    (tokenizeGoX n t acc).map (fun r => (toksOf r.1, r.2.1)) = tokenizeGo n t (toksOf acc)
  | 0, _, _ => rfl
  | n + 1, t, acc => by
    rw [tokenizeGoX, tokenizeGo]
    split
    · rfl
    · split
      · cases (next t).raw <;> cases (next t).buffered <;> simp [toksOf]
      · cases (next t).raw with
        | none => rfl
        | some r =>
          simp only
          split
          · split
            · rename_i nm b t2 htn
              rw [tokenizeGoX_erase n t2]
              simp [toksOf]
            · rename_i b t2 htn
              rw [tokenizeGoX_erase n t2]
              simp [toksOf]
            · rfl
          · rw [tokenizeGoX_erase n (next t)]
            simp [toksOf]

/-- **With the empty context, the tokens and the remainder of the stream tokenizer are those of the plain tokenizer**
(`new_fragment(data, "")` = `new(data)`). -/
theorem htmlStream_nil_erase (d : Bytes) :
    toksOf (htmlTokenize.stream [] d).1 = (htmlTokenize d).1 ∧ (htmlTokenize.stream [] d).2.1 = (htmlTokenize d).2 := by
  show toksOf (htmlStream [] d).1 = (htmlPlain d).1 ∧ (htmlStream [] d).2.1 = (htmlPlain d).2
  have h := tokenizeGoX_erase (d.length + 2) (Tokenizer.new d.toArray) []
  unfold htmlStream htmlPlain htmlStream? htmlTokenize?
  rw [newFragment_nil]
  simp only [toksOf, List.map_nil] at h
  rw [← h]
  cases tokenizeGoX (d.length + 2) (Tokenizer.new d.toArray) [] with
  | none => simp [toksOf]
  | some r => simp [toksOf]

/-- nothing in, nothing out -/
theorem htmlStream_nil_nil : (htmlTokenize.stream [] []).1 = [] := by decide +kernel

end Rio.Filter
