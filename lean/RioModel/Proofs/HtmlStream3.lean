/-
Stream laws of the tokenizer model, part 3: where tokens end.  `err` set means `raw.end` is at the end of the buffer;
a token that did not hit EOF ends right after a `>` or right before a `<`; tag tokens start with `<`, their name is
delimited by ASCII bytes.  (Used for: token boundaries are UTF-8 character boundaries; `TagSpan`.)
-/
import RioModel.Proofs.HtmlStream2
set_option linter.unusedSimpArgs false
set_option linter.unusedVariables false

namespace Rio.Html
namespace Tokenizer
open Rio.Consts

/-! ### `err` set ⇒ `raw.end` at (or beyond) the end of the buffer -/

/-- once a read has failed, `raw.end` stays at the end of the buffer: every `raw.end -= k` of the code happens after
a *successful* read in a branch where `err` is still unset -/
def ErrGe (t : Tokenizer) : Prop := t.err = true → t.buf.size ≤ t.rawE

theorem readByte_errGe (t : Tokenizer) (h : ErrGe t) : ErrGe t.readByte.1 := by
  unfold readByte ErrGe at *
  split
  · intro he; simp only at he; have := h he; omega
  · intro _; simp only; omega

@[simp] theorem setDataEndBack_rawE (t : Tokenizer) (k : Nat) : (t.setDataEndBack k).rawE = t.rawE := by
  unfold setDataEndBack; split <;> rfl
@[simp] theorem setDataEndBack_buf (t : Tokenizer) (k : Nat) : (t.setDataEndBack k).buf = t.buf := by
  unfold setDataEndBack; split <;> rfl

attribute [local simp] readByte_buf unread_buf

/-- generic closing tactic of the `ErrGe` family -/
local macro "errge" : tactic => `(tactic| first
    | exact readByte_errGe _ ‹_›
    | (apply_assumption; exact readByte_errGe _ ‹_›)
    | (apply_assumption; exact readByte_errGe _ (readByte_errGe _ ‹_›))
    | (intro he
       have h1 := readByte_errGe _ ‹ErrGe _›
       have h2 := readByte_errGe _ h1
       simp_all [ErrGe]
       done))

theorem skipWsGo_errGe (t : Tokenizer) (h : ErrGe t) : ErrGe (skipWsGo t) := by
  fun_induction skipWsGo t
  all_goals (try simp +zetaDelta only at *)
  all_goals errge

theorem skipWhiteSpace_errGe (t : Tokenizer) (h : ErrGe t) : ErrGe (skipWhiteSpace t) := by
  unfold skipWhiteSpace; split
  · exact h
  · exact skipWsGo_errGe t h

theorem commentGo_errGe (t : Tokenizer) (d : Nat) (h : ErrGe t) : ErrGe (commentGo t d) := by
  fun_induction commentGo t d
  all_goals (try simp +zetaDelta only at *)
  all_goals errge

theorem untilCloseAngleGo_errGe (t : Tokenizer) (h : ErrGe t) : ErrGe (untilCloseAngleGo t) := by
  fun_induction untilCloseAngleGo t
  all_goals (try simp +zetaDelta only at *)
  all_goals errge

theorem cdataGo_errGe (t : Tokenizer) (b : Nat) (h : ErrGe t) : ErrGe (cdataGo t b) := by
  fun_induction cdataGo t b
  all_goals (try simp +zetaDelta only at *)
  all_goals errge

theorem tagNameGo_errGe (t : Tokenizer) (h : ErrGe t) : ErrGe (tagNameGo t) := by
  fun_induction tagNameGo t
  all_goals (try simp +zetaDelta only at *)
  all_goals errge

theorem attrKeyGo_errGe (t : Tokenizer) (h : ErrGe t) : ErrGe (attrKeyGo t) := by
  fun_induction attrKeyGo t
  all_goals (try simp +zetaDelta only at *)
  all_goals errge

theorem attrValQuotedGo_errGe (t : Tokenizer) (q : Nat) (h : ErrGe t) : ErrGe (attrValQuotedGo t q) := by
  fun_induction attrValQuotedGo t q
  all_goals (try simp +zetaDelta only at *)
  all_goals errge

theorem attrValUnquotedGo_errGe (t : Tokenizer) (h : ErrGe t) : ErrGe (attrValUnquotedGo t) := by
  fun_induction attrValUnquotedGo t
  all_goals (try simp +zetaDelta only at *)
  all_goals errge

theorem readToEnd_errGe (t : Tokenizer) (h : ErrGe t) : ErrGe (readToEnd t) := by
  fun_induction readToEnd t
  all_goals (try simp +zetaDelta only at *)
  all_goals first | exact h | errge

theorem unread_errGe_of_noerr (t : Tokenizer) (k : Nat) (h : t.err = false) : ErrGe (t.unread k) := by
  intro he; simp [h] at he

theorem rawEndTagLoop_errGe (t : Tokenizer) (cs : List Nat) (h : ErrGe t) : ErrGe (rawEndTagLoop t cs).1 := by
  induction cs generalizing t with
  | nil => exact h
  | cons c cs ih =>
    have h1 := readByte_errGe t h
    simp only [rawEndTagLoop]
    split
    · exact h1
    · rename_i herr
      have hf : t.readByte.1.err = false := by simpa using herr
      (repeat' split) <;> first | exact ih _ h1 | exact unread_errGe_of_noerr _ _ hf | (intro he; simp_all)

theorem readRawEndTag_errGe (t : Tokenizer) (h : ErrGe t) : ErrGe (readRawEndTag t).1 := by
  have h1 := rawEndTagLoop_errGe t t.rawTag h
  have h2 := readByte_errGe _ h1
  unfold readRawEndTag
  simp only
  split
  · exact h1
  · split
    · exact h2
    · rename_i herr
      have hf : (rawEndTagLoop t t.rawTag).1.readByte.1.err = false := by simpa using herr
      split <;> exact unread_errGe_of_noerr _ _ hf

theorem dblEscLoop_errGe (t : Tokenizer) (cs : List (Nat × Nat)) (h : ErrGe t) : ErrGe (dblEscLoop t cs).1 := by
  induction cs generalizing t with
  | nil => exact h
  | cons c cs ih =>
    obtain ⟨lo, up⟩ := c
    have h1 := readByte_errGe t h
    simp only [dblEscLoop]
    split
    · exact h1
    · rename_i herr
      have hf : t.readByte.1.err = false := by simpa using herr
      split
      · exact unread_errGe_of_noerr _ _ hf
      · exact ih _ h1

theorem addRawE_errGe (t : Tokenizer) (k : Nat) (h : ErrGe t) : ErrGe (t.addRawE k) := by
  intro he; have := h he; simp only [addRawE] at *; omega

theorem scriptGo_errGe (st : SS) (t : Tokenizer) (h : ErrGe t) : ErrGe (scriptGo st t) := by
  fun_induction scriptGo st t
  all_goals (try simp +zetaDelta only at *)
  all_goals first
    | errge
    | exact readRawEndTag_errGe _ h
    | (apply_assumption; exact readRawEndTag_errGe _ h)
    | (apply_assumption; exact addRawE_errGe _ _ (readRawEndTag_errGe _ h))
    | exact dblEscLoop_errGe _ _ h
    | (apply_assumption; exact dblEscLoop_errGe _ _ h)
    | exact readByte_errGe _ (dblEscLoop_errGe _ _ h)
    | (apply_assumption; exact readByte_errGe _ (dblEscLoop_errGe _ _ h))
    | (apply_assumption; exact unread_errGe_of_noerr _ _ (by simpa using ‹¬ _ = true›))
    | skip

theorem rawTextGo_errGe (t : Tokenizer) (h : ErrGe t) : ErrGe (rawTextGo t) := by
  fun_induction rawTextGo t
  all_goals (try simp +zetaDelta only at *)
  all_goals first
    | errge
    | exact readRawEndTag_errGe _ (readByte_errGe _ (readByte_errGe _ h))
    | (apply_assumption; exact readRawEndTag_errGe _ (readByte_errGe _ (readByte_errGe _ h)))

theorem readComment_errGe (t : Tokenizer) (h : ErrGe t) : ErrGe (readComment t) := by
  unfold readComment
  have := commentGo_errGe { t with dataS := t.rawE } 2 h
  simp only
  split
  · exact this
  · exact this

theorem readUntilCloseAngle_errGe (t : Tokenizer) (h : ErrGe t) : ErrGe (readUntilCloseAngle t) :=
  untilCloseAngleGo_errGe _ h

theorem declLoop_errGe (t : Tokenizer) (cs : List (Nat × Nat)) (h : ErrGe t) : ErrGe (declLoop t cs).1 := by
  induction cs generalizing t with
  | nil => exact h
  | cons c cs ih =>
    obtain ⟨c, c'⟩ := c
    have h1 := readByte_errGe t h
    simp only [declLoop]
    split
    · exact h1
    · rename_i herr
      have hf : t.readByte.1.err = false := by simpa using herr
      split
      · intro he; simp [hf] at he
      · exact ih _ h1

theorem readDocType_errGe (t : Tokenizer) (h : ErrGe t) : ErrGe (readDocType t).1 := by
  unfold readDocType
  simp only
  have h1 := declLoop_errGe t htmlDoctypePat h
  have h2 := skipWhiteSpace_errGe _ h1
  have h3 := readUntilCloseAngle_errGe _ h2
  split
  · exact h1
  · split
    · exact h2
    · exact h3

theorem readCdata_errGe (t : Tokenizer) (h : ErrGe t) : ErrGe (readCdata t).1 := by
  unfold readCdata
  simp only
  have h1 := declLoop_errGe t htmlCdataPat h
  have h2 := cdataGo_errGe { (declLoop t htmlCdataPat).1 with dataS := (declLoop t htmlCdataPat).1.rawE } 0 h1
  split
  · exact h1
  · exact h2

theorem markupRest_errGe (t : Tokenizer) (h : ErrGe t) : ErrGe (markupRest t).1 := by
  unfold markupRest
  simp only
  have h1 := readDocType_errGe t h
  have h2 := readCdata_errGe _ h1
  have h3 := readUntilCloseAngle_errGe _ h2
  have h4 := readUntilCloseAngle_errGe _ h1
  split
  · exact h1
  · split
    · split
      · exact h2
      · exact h3
    · exact h4

theorem markupGo_errGe (t : Tokenizer) (h : ErrGe t) : ErrGe (markupGo t).1 := by
  unfold markupGo
  simp only
  have h1 := readByte_errGe t h
  have h2 := readByte_errGe _ h1
  split
  · exact h1
  · split
    · exact h2
    · rename_i herr
      have hf : t.readByte.1.readByte.1.err = false := by simpa using herr
      split
      · exact readComment_errGe _ h2
      · exact markupRest_errGe _ (unread_errGe_of_noerr _ _ hf)

theorem readMarkupDeclaration_errGe (t : Tokenizer) (h : ErrGe t) : ErrGe (readMarkupDeclaration t).1 :=
  markupGo_errGe _ h

theorem readTagName_errGe (t : Tokenizer) (h : ErrGe t) : ErrGe (readTagName t) := by
  unfold readTagName
  split
  · exact h
  · exact tagNameGo_errGe _ h

theorem attrValRest_errGe (t : Tokenizer) (h : ErrGe t) : ErrGe (attrValRest t) := by
  unfold attrValRest
  simp only
  have h1 := skipWhiteSpace_errGe t h
  have h2 := readByte_errGe _ h1
  split
  · exact h1
  · split
    · exact h2
    · rename_i herr
      have hf : t.skipWhiteSpace.readByte.1.err = false := by simpa using herr
      split
      · exact unread_errGe_of_noerr _ _ hf
      · split
        · exact attrValQuotedGo_errGe _ _ h2
        · split
          · exact h2
          · exact attrValUnquotedGo_errGe _ h2

theorem attrValGo_errGe (t : Tokenizer) (h : ErrGe t) : ErrGe (attrValGo t) := by
  unfold attrValGo
  simp only
  have h1 := skipWhiteSpace_errGe t h
  have h2 := readByte_errGe _ h1
  split
  · exact h1
  · split
    · exact h2
    · rename_i herr
      have hf : t.skipWhiteSpace.readByte.1.err = false := by simpa using herr
      split
      · exact unread_errGe_of_noerr _ _ hf
      · exact attrValRest_errGe _ h2

theorem readAttr_errGe (t : Tokenizer) (s : Bool) (h : ErrGe t) : ErrGe (readAttr t s) := by
  unfold readAttr readTagAttrVal readTagAttrKey
  simp only
  have h1 := attrKeyGo_errGe { t with pkS := t.rawE } h
  have h2 := attrValGo_errGe { ({ t with pkS := t.rawE } : Tokenizer).attrKeyGo with
    pvS := ({ t with pkS := t.rawE } : Tokenizer).attrKeyGo.rawE, pvE := ({ t with pkS := t.rawE } : Tokenizer).attrKeyGo.rawE } h1
  split
  · exact skipWhiteSpace_errGe _ h2
  · exact skipWhiteSpace_errGe _ h2

theorem tagAttrsGo_errGe (t : Tokenizer) (s : Bool) (h : ErrGe t) : ErrGe (tagAttrsGo t s) := by
  fun_induction tagAttrsGo t s
  all_goals (try simp +zetaDelta only at *)
  case case1 => exact readByte_errGe _ h
  case case2 t _ hne _ _ =>
    have hf : t.readByte.1.err = false := by
      cases he : t.readByte.1.err with
      | false => rfl
      | true => simp [he] at hne
    exact readAttr_errGe _ _ (unread_errGe_of_noerr _ _ hf)
  case case3 t _ hne _ _ _ ih =>
    have hf : t.readByte.1.err = false := by
      cases he : t.readByte.1.err with
      | false => rfl
      | true => simp [he] at hne
    exact ih (readAttr_errGe _ _ (unread_errGe_of_noerr _ _ hf))
  case case4 t _ hne _ _ _ =>
    have hf : t.readByte.1.err = false := by
      cases he : t.readByte.1.err with
      | false => rfl
      | true => simp [he] at hne
    exact readAttr_errGe _ _ (unread_errGe_of_noerr _ _ hf)

theorem readTag_errGe (t : Tokenizer) (s : Bool) (h : ErrGe t) : ErrGe (readTag t s) := by
  unfold readTag
  simp only
  have h1 := skipWhiteSpace_errGe _ (readTagName_errGe { t with attrs := #[], nAttrRet := 0 } h)
  split
  · exact h1
  · exact tagAttrsGo_errGe _ _ h1

theorem startTagRaw_fields (t : Tokenizer) :
    (startTagRaw t).err = t.err ∧ (startTagRaw t).rawE = t.rawE ∧ (startTagRaw t).buf = t.buf ∧
    (startTagRaw t).rawS = t.rawS ∧ (startTagRaw t).dataS = t.dataS ∧ (startTagRaw t).dataE = t.dataE := by
  unfold startTagRaw
  split
  · simp only
    generalize t.rawLookup _ htmlRawDispatch = r
    generalize t.slice? t.dataS t.dataE = sl
    rcases r with _ | _ | _
    · simp
    · simp
    · rcases sl with _ | bs
      · simp
      · simp only; split <;> simp
  · simp

theorem readStartTag_errGe (t : Tokenizer) (h : ErrGe t) : ErrGe (readStartTag t).1 := by
  unfold readStartTag
  simp only
  have h1 := readTag_errGe t true h
  have f := startTagRaw_fields (readTag t true)
  have h2 : ErrGe (startTagRaw (readTag t true)) := by
    intro he; rw [f.1] at he; have := h1 he; rw [f.2.1, f.2.2.1]; exact this
  (repeat' split) <;> first | exact h1 | exact h2

theorem finishText_errGe (t : Tokenizer) (h : ErrGe t) : ErrGe (finishText t) := by
  unfold finishText; split <;> exact h

theorem dispatchTag_errGe (t : Tokenizer) (b : Nat) (h : t.err = false) : ErrGe (dispatchTag t b) := by
  have h0 : ErrGe t := by intro he; rw [h] at he; cases he
  have h1 := readByte_errGe t h0
  unfold dispatchTag
  simp only
  split
  · exact h0
  · split
    · intro he; simp [h] at he
    · split
      · exact readStartTag_errGe t h0
      · split
        · split
          · exact finishText_errGe _ h1
          · rename_i herr
            have hf : t.readByte.1.err = false := by simpa using herr
            split
            · exact h1
            · split
              · have := readTag_errGe t.readByte.1 false h1
                split <;> exact this
              · exact readUntilCloseAngle_errGe _ (unread_errGe_of_noerr _ _ hf)
        · split
          · exact readMarkupDeclaration_errGe t h0
          · exact readUntilCloseAngle_errGe _ (unread_errGe_of_noerr _ _ h)

theorem mainLoop_errGe (t : Tokenizer) (h : ErrGe t) : ErrGe (mainLoop t) := by
  fun_induction mainLoop t
  all_goals (try simp +zetaDelta only at *)
  case case1 => exact finishText_errGe _ (readByte_errGe _ h)
  case case2 ih => exact ih (readByte_errGe _ h)
  case case3 => exact finishText_errGe _ (readByte_errGe _ (readByte_errGe _ h))
  case case4 t _ _ _ _ herr2 _ ih =>
    exact ih (unread_errGe_of_noerr _ _ (by simpa using herr2))
  case case5 t _ _ _ _ herr2 _ =>
    exact dispatchTag_errGe _ _ (by simpa using herr2)

theorem readRawOrCdata_errGe (t : Tokenizer) (h : ErrGe t) : ErrGe (readRawOrCdata t) := by
  unfold readRawOrCdata readScript
  split
  · exact scriptGo_errGe _ _ h
  · exact rawTextGo_errGe _ h

theorem nextGo_errGe (t : Tokenizer) (h : ErrGe t) : ErrGe (nextGo t) := by
  unfold nextGo
  simp only
  have h1 := readToEnd_errGe t h
  have h2 := readRawOrCdata_errGe t h
  split
  · exact h
  · split
    · split
      · split
        · exact h1
        · exact mainLoop_errGe _ h1
      · split
        · exact h2
        · exact mainLoop_errGe _ h2
    · exact mainLoop_errGe _ h

theorem next_errGe (t : Tokenizer) (h : ErrGe t) : ErrGe (next t) := nextGo_errGe _ h

theorem nexts_errGe (n : Nat) (t : Tokenizer) (h : ErrGe t) : ErrGe (nexts n t) := by
  induction n with
  | zero => exact h
  | succ n ih => exact next_errGe _ ih

/-- a token that hit EOF ends at the end of the buffer -/
theorem err_rawE_eq (t : Tokenizer) (inv : Inv t) (h : ErrGe t) (he : t.err = true) : t.rawE = t.buf.size :=
  Nat.le_antisymm inv.ok.le (h he)

/-! ### where a token ends -/

/-- the last byte read is `>` -/
def EndsGt (t : Tokenizer) : Prop := 1 ≤ t.rawE ∧ t.buf[t.rawE - 1]? = some 62
/-- the next byte is `<` -/
def AtLt (t : Tokenizer) : Prop := t.buf[t.rawE]? = some 60
/-- "hit EOF, or stopped right after a `>`" -/
def EndG (t : Tokenizer) : Prop := t.err = true ∨ EndsGt t

theorem lastRead {t : Tokenizer} (herr : ¬ t.readByte.1.err = true) :
    1 ≤ t.readByte.1.rawE ∧ t.readByte.1.buf[t.readByte.1.rawE - 1]? = some t.readByte.2 := by
  have g := get_of_readByte herr
  have e := readByte_succ herr
  refine ⟨by omega, ?_⟩
  rw [e, readByte_buf]
  simpa using g.1

theorem EndG.congr {t t' : Tokenizer} (h : EndG t) (e1 : t'.err = t.err) (e2 : t'.rawE = t.rawE) (e3 : t'.buf = t.buf) :
    EndG t' := by
  unfold EndG EndsGt at *
  rw [e1, e2, e3]; exact h

theorem endG_of_gt {t : Tokenizer} (herr : ¬ t.readByte.1.err = true) (h : (t.readByte.2 == 62) = true) :
    EndG t.readByte.1 := by
  have l := lastRead herr
  have : t.readByte.2 = 62 := by simpa using h
  exact Or.inr ⟨l.1, by rw [l.2, this]⟩

theorem untilCloseAngleGo_end (t : Tokenizer) : EndG (untilCloseAngleGo t) := by
  fun_induction untilCloseAngleGo t
  all_goals (try simp +zetaDelta only at *)
  case case1 => exact Or.inl (by assumption)
  case case2 => exact (endG_of_gt (by assumption) (by assumption)).congr (by simp) (by simp) (by simp)
  case case3 ih => exact ih

theorem readUntilCloseAngle_end (t : Tokenizer) : EndG (readUntilCloseAngle t) := untilCloseAngleGo_end _

theorem commentGo_end (t : Tokenizer) (d : Nat) : EndG (commentGo t d) := by
  fun_induction commentGo t d
  all_goals (try simp +zetaDelta only at *)
  case case1 => exact Or.inl (by simpa using ‹_ = true›)
  case case3 => exact (endG_of_gt (by assumption) (by assumption)).congr (by simp) (by simp) (by simp)
  case case5 => exact Or.inl (by assumption)
  case case6 => exact (endG_of_gt (by assumption) (by assumption)).congr (by simp) (by simp) (by simp)
  all_goals assumption

theorem readComment_end (t : Tokenizer) : EndG (readComment t) := by
  unfold readComment
  have := commentGo_end { t with dataS := t.rawE } 2
  simp only
  split
  · exact this.congr rfl rfl rfl
  · exact this

theorem cdataGo_end (t : Tokenizer) (b : Nat) : EndG (cdataGo t b) := by
  fun_induction cdataGo t b
  all_goals (try simp +zetaDelta only at *)
  case case1 => exact Or.inl (by assumption)
  case case3 => exact (endG_of_gt (by assumption) (by assumption)).congr (by simp) (by simp) (by simp)
  all_goals assumption

theorem readDocType_end (t : Tokenizer) (h : (readDocType t).2 = true) : EndG (readDocType t).1 := by
  unfold readDocType at h ⊢
  simp only at h ⊢
  split
  · rename_i hf; simp [hf] at h
  · split
    · rename_i he; exact Or.inl he
    · exact readUntilCloseAngle_end _

theorem readCdata_end (t : Tokenizer) (h : (readCdata t).2 = true) : EndG (readCdata t).1 := by
  unfold readCdata at h ⊢
  simp only at h ⊢
  split
  · rename_i hf; simp [hf] at h
  · exact cdataGo_end _ _

theorem markupRest_end (t : Tokenizer) : EndG (markupRest t).1 := by
  unfold markupRest
  simp only
  split
  · rename_i h; exact readDocType_end t h
  · split
    · split
      · rename_i h; exact (readCdata_end _ h).congr rfl rfl rfl
      · exact readUntilCloseAngle_end _
    · exact readUntilCloseAngle_end _

theorem markupGo_end (t : Tokenizer) : EndG (markupGo t).1 := by
  unfold markupGo
  simp only
  split
  · rename_i h; exact Or.inl h
  · split
    · rename_i h; exact Or.inl h
    · split
      · exact readComment_end _
      · exact markupRest_end _

theorem readMarkupDeclaration_end (t : Tokenizer) : EndG (readMarkupDeclaration t).1 := markupGo_end _

/-- `read_tag`'s attribute loop stops at EOF or right after the `>` (the `hang` case is excluded by `tagAttrsGo_adv`) -/
theorem tagAttrsGo_end (t : Tokenizer) (s : Bool) : EndG (tagAttrsGo t s) ∨ (tagAttrsGo t s).hang = true := by
  fun_induction tagAttrsGo t s
  all_goals (try simp +zetaDelta only at *)
  case case1 t _ h =>
    by_cases he : t.readByte.1.err = true
    · exact Or.inl (Or.inl he)
    · have : (t.readByte.2 == 62) = true := by simpa [he] using h
      exact Or.inl (endG_of_gt he this)
  case case2 => exact Or.inl (Or.inl (by assumption))
  case case3 ih => exact ih
  case case4 => exact Or.inr (by first | trivial | rfl)

theorem readTag_end (t : Tokenizer) (s : Bool) (ok : Ok t) (h1 : 1 ≤ t.rawE) : EndG (readTag t s) := by
  have a := readTag_adv t s ok h1
  have hh := a.ok.hang
  unfold readTag at hh ⊢
  simp only at hh ⊢
  generalize ({ t with attrs := #[], nAttrRet := 0 } : Tokenizer).readTagName.skipWhiteSpace = t2 at *
  by_cases he : t2.err = true
  · rw [if_pos he]; exact Or.inl he
  · rw [if_neg he] at hh ⊢
    rcases tagAttrsGo_end t2 s with h | h
    · exact h
    · rw [hh] at h; cases h

theorem readStartTag_end (t : Tokenizer) (ok : Ok t) (h1 : 1 ≤ t.rawE) : EndG (readStartTag t).1 := by
  have e := readTag_end t true ok h1
  have f := startTagRaw_fields (readTag t true)
  have e2 : EndG (startTagRaw (readTag t true)) := e.congr f.1 f.2.1 f.2.2.1
  unfold readStartTag
  simp only
  (repeat' split) <;> first | exact e | exact e2 | exact e2.congr rfl rfl rfl

/-! ### raw text ends right before the `<` of its end tag -/

def Lt1 (t : Tokenizer) : Prop := 1 ≤ t.rawE ∧ t.buf[t.rawE - 1]? = some 60
def Lt2 (t : Tokenizer) : Prop := 2 ≤ t.rawE ∧ t.buf[t.rawE - 2]? = some 60
/-- "hit EOF, or stopped right before a `<`" -/
def EndL (t : Tokenizer) : Prop := t.err = true ∨ AtLt t

theorem lt1_of_read {t : Tokenizer} (herr : ¬ t.readByte.1.err = true) (h : (t.readByte.2 == 60) = true) :
    Lt1 t.readByte.1 := by
  have l := lastRead herr
  have : t.readByte.2 = 60 := by simpa using h
  exact ⟨l.1, by rw [l.2, this]⟩

theorem lt2_of_read {t : Tokenizer} (herr : ¬ t.readByte.1.err = true) (h : Lt1 t) : Lt2 t.readByte.1 := by
  have e := readByte_succ herr
  refine ⟨by have := h.1; omega, ?_⟩
  rw [e, readByte_buf, show t.rawE + 1 - 2 = t.rawE - 1 by omega]
  exact h.2

theorem rawEndTag_atLt (t : Tokenizer) (ok : Ok t) (h2 : Lt2 t) (htag : ∀ x ∈ t.rawTag, 32 ≤ x)
    (h : (readRawEndTag t).2 = true) : AtLt (readRawEndTag t).1 := by
  have ro := readRawEndTag_ok t ok h2.1 htag
  have e := (ro.2.2.2 h).1
  unfold AtLt
  rw [ro.2.2.1, show (readRawEndTag t).1.rawE = t.rawE - 2 by omega]
  exact h2.2

theorem rawTextGo_end (t : Tokenizer) (ok : Ok t) (htag : ∀ x ∈ t.rawTag, 32 ≤ x) : EndL (rawTextGo t) := by
  fun_induction rawTextGo t
  all_goals (try simp +zetaDelta only at *)
  case case1 => exact Or.inl (by assumption)
  case case2 ih =>
    have a1 := readByte_adv ok
    exact ih a1.ok (by rw [a1.rawTag]; exact htag)
  case case3 => exact Or.inl (by assumption)
  case case4 ih =>
    have a1 := readByte_adv ok
    have a2 := readByte_adv a1.ok
    exact ih a2.ok (by rw [a2.rawTag, a1.rawTag]; exact htag)
  case case5 t _ herr hlt _ herr2 hsl _ hor =>
    have a1 := readByte_adv ok
    have a2 := readByte_adv a1.ok
    by_cases he : t.readByte.1.readByte.1.readRawEndTag.1.err = true
    · exact Or.inl he
    · have htrue : t.readByte.1.readByte.1.readRawEndTag.2 = true := by simpa [he] using hor
      have hl : (t.readByte.2 == 60) = true := by simpa using hlt
      exact Or.inr (rawEndTag_atLt _ a2.ok (lt2_of_read herr2 (lt1_of_read herr hl))
        (by rw [a2.rawTag, a1.rawTag]; exact htag) htrue)
  case case6 t _ herr _ _ herr2 _ _ _ ih =>
    have a1 := readByte_adv ok
    have a2 := readByte_adv a1.ok
    have e1 := readByte_succ herr
    have e2 := readByte_succ herr2
    have htag2 : ∀ x ∈ t.readByte.1.readByte.1.rawTag, 32 ≤ x := by rw [a2.rawTag, a1.rawTag]; exact htag
    have ro := readRawEndTag_ok _ a2.ok (by omega) htag2
    exact ih ro.1 (by rw [ro.2.1]; exact htag2)

theorem lt_unread {t : Tokenizer} (herr : ¬ t.readByte.1.err = true) :
    (t.readByte.1.unread 1).rawE = t.rawE ∧ (t.readByte.1.unread 1).buf = t.buf := by
  have e := readByte_succ herr
  have := unread_rawE_eq (t := t.readByte.1) 1 (by omega)
  exact ⟨by omega, by simp⟩

/-- the script automaton returns at EOF or right before the `<` of `</script`; in the three "less-than-sign" states the
last byte read is `<`, in the three "end tag" states the last two are `</` -/
theorem scriptGo_end (st : SS) (t : Tokenizer) (ok : Ok t) (hs : t.rawTag = htmlScript)
    (p1 : st.need = 1 → Lt1 t) (p2 : st.need = 2 → Lt2 t) : EndL (scriptGo st t) := by
  fun_induction scriptGo st t
  all_goals (try simp +zetaDelta only [SS.need] at *)
  -- edges that start with `read_byte`
  all_goals try (
    first
      | exact Or.inl (by assumption)
      | (apply_assumption
         · first | exact (readByte_adv ok).ok | exact (read_unread_adv ok (by assumption)).ok
         · first | (rw [(readByte_adv ok).rawTag]; exact hs) | (rw [(read_unread_adv ok (by assumption)).rawTag]; exact hs)
         · intro hn
           first
           | exact absurd hn (by decide)
           | exact lt1_of_read (by assumption) (by assumption)
         · intro hn
           first
           | exact absurd hn (by decide)
           | exact lt2_of_read (by assumption) (p1 (by first | trivial | rfl))))
  -- read_script_data_end_tag_open / read_script_data_escaped_end_tag_open: the return points
  case case8 | case33 =>
    rename_i t _ hor
    by_cases he : t.readRawEndTag.1.err = true
    · exact Or.inl he
    · have htrue : t.readRawEndTag.2 = true := by simpa [he] using hor
      exact Or.inr (rawEndTag_atLt t ok (p2 trivial) (by rw [hs]; exact script_letters) htrue)
  case case9 | case34 | case58 =>
    have ro := readRawEndTag_ok _ ok (p2 trivial).1 (by rw [hs]; exact script_letters)
    apply_assumption
    · exact ro.1
    · rw [ro.2.1]; exact hs
    · intro hn; exact absurd hn (by decide)
    · intro hn; exact absurd hn (by decide)
  case case36 =>
    have la := dblEscLoop_adv _ htmlDoubleEscapePat ok
    apply_assumption
    · exact la.ok
    · rw [la.rawTag]; exact hs
    · intro hn; exact absurd hn (by decide)
    · intro hn; exact absurd hn (by decide)
  case case38 =>
    have la := dblEscLoop_adv _ htmlDoubleEscapePat ok
    apply_assumption
    · exact (readByte_adv la.ok).ok
    · rw [(readByte_adv la.ok).rawTag, la.rawTag]; exact hs
    · intro hn; exact absurd hn (by decide)
    · intro hn; exact absurd hn (by decide)
  case case39 =>
    have la := dblEscLoop_adv _ htmlDoubleEscapePat ok
    apply_assumption
    · exact (read_unread_adv la.ok (by assumption)).ok
    · rw [(read_unread_adv la.ok (by assumption)).rawTag, la.rawTag]; exact hs
    · intro hn; exact absurd hn (by decide)
    · intro hn; exact absurd hn (by decide)
  case case56 =>
    rename_i t _ htrue ih
    have ro := readRawEndTag_ok t ok (p2 trivial).1 (by rw [hs]; exact script_letters)
    have hlen : t.rawTag.length = 6 := by rw [hs]; rfl
    have h3 := ro.2.2.2 htrue
    refine ih ⟨?_, ro.1.panic, ro.1.hang, ro.1.utf8⟩ (by
      show t.readRawEndTag.1.rawTag = htmlScript; rw [ro.2.1]; exact hs) (fun hn => absurd hn (by decide))
      (fun hn => absurd hn (by decide))
    show t.readRawEndTag.1.rawE + htmlScriptEndTagLen ≤ t.readRawEndTag.1.buf.size
    rw [ro.2.2.1]
    simp only [htmlScriptEndTagLen]
    omega

/-! ### every token ends at EOF, right after a `>`, or right before a `<` -/

def End (t : Tokenizer) : Prop := t.err = true ∨ EndsGt t ∨ AtLt t

theorem EndG.toEnd {t : Tokenizer} (h : EndG t) : End t := by
  rcases h with h | h
  · exact Or.inl h
  · exact Or.inr (Or.inl h)

theorem EndL.toEnd {t : Tokenizer} (h : EndL t) : End t := by
  rcases h with h | h
  · exact Or.inl h
  · exact Or.inr (Or.inr h)

theorem End.congr {t t' : Tokenizer} (h : End t) (e1 : t'.err = t.err) (e2 : t'.rawE = t.rawE) (e3 : t'.buf = t.buf) :
    End t' := by
  unfold End EndsGt AtLt at *
  rw [e1, e2, e3]; exact h

theorem finishText_end (t : Tokenizer) (h : t.err = true) : End (finishText t) := Or.inl (by simpa using h)

theorem dispatchTag_end (t : Tokenizer) (b : Nat) (ok : Ok t) (h2 : Lt2 t) : End (dispatchTag t b) := by
  unfold dispatchTag
  simp only [htmlTagOpenLen]
  have hn : ¬ t.rawE < 2 := by have := h2.1; omega
  rw [if_neg hn]
  split
  · exact Or.inr (Or.inr h2.2)
  · split
    · exact ((readStartTag_end t ok (by have := h2.1; omega)).toEnd).congr rfl rfl rfl
    · split
      · split
        · rename_i he; exact finishText_end _ he
        · rename_i he
          split
          · rename_i hg
            exact ((endG_of_gt he hg).toEnd).congr rfl rfl rfl
          · split
            · have := (readTag_end t.readByte.1 false (readByte_adv ok).ok (readByte_pos he)).toEnd
              split <;> exact this.congr rfl rfl rfl
            · exact ((readUntilCloseAngle_end _).toEnd).congr rfl rfl rfl
      · split
        · exact ((readMarkupDeclaration_end t).toEnd).congr rfl rfl rfl
        · exact ((readUntilCloseAngle_end _).toEnd).congr rfl rfl rfl

theorem mainLoop_end (t : Tokenizer) (ok : Ok t) : End (mainLoop t) := by
  fun_induction mainLoop t
  all_goals (try simp +zetaDelta only at *)
  case case1 => exact finishText_end _ (by assumption)
  case case2 ih => exact ih (readByte_adv ok).ok
  case case3 => exact finishText_end _ (by assumption)
  case case4 t _ herr1 _ _ herr2 _ ih =>
    have a1 := readByte_adv ok
    exact ih (a1.trans (read_unread_adv a1.ok herr2)).ok
  case case5 t _ herr1 hlt _ herr2 _ =>
    have a1 := readByte_adv ok
    have a2 := readByte_adv a1.ok
    have hl : (t.readByte.2 == 60) = true := by simpa using hlt
    exact dispatchTag_end _ _ a2.ok (lt2_of_read herr2 (lt1_of_read herr1 hl))

theorem readRawOrCdata_end (t : Tokenizer) (ok : Ok t) (htag : TagOk t.rawTag) : End (readRawOrCdata t) := by
  unfold readRawOrCdata readScript
  split
  · rename_i hs
    have hs' : t.rawTag = htmlScript := by simpa using hs
    exact ((scriptGo_end .data t ok hs' (fun hn => absurd hn (by decide)) (fun hn => absurd hn (by decide))).toEnd).congr
      rfl rfl rfl
  · exact ((rawTextGo_end t ok htag).toEnd).congr rfl rfl rfl

theorem nextGo_end (t : Tokenizer) (ok : Ok t) (htag : TagOk t.rawTag) : End (nextGo t) := by
  unfold nextGo
  simp only
  split
  · rename_i he; exact Or.inl he
  · have cont : ∀ t1 : Tokenizer, Ok t1 → End (mainLoop { t1 with textIsRaw := false, convertNull := false }) :=
      fun t1 ok1 => mainLoop_end _ ⟨ok1.le, ok1.panic, ok1.hang, ok1.utf8⟩
    split
    · have key : ∀ t1 : Tokenizer, Ok t1 → End t1 →
          End (if t1.dataE > t1.dataS then { t1 with token := .text, convertNull := true }
            else mainLoop { t1 with textIsRaw := false, convertNull := false }) := by
        intro t1 ok1 e1
        split
        · exact e1.congr rfl rfl rfl
        · exact cont t1 ok1
      split
      · have a := readToEnd_adv t ok
        exact key _ ⟨a.ok.le, a.ok.panic, a.ok.hang, a.ok.utf8⟩ (Or.inl (readToEnd_err t))
      · exact key _ (readRawOrCdata_spec t ok htag).1.ok (readRawOrCdata_end t ok htag)
    · exact cont t ok

theorem next_end (t : Tokenizer) (inv : Inv t) : End (next t) :=
  nextGo_end _ ⟨inv.ok.le, inv.ok.panic, inv.ok.hang, inv.ok.utf8⟩ inv.tag

/-! ### tag tokens: `<` first, `>` last, the name is delimited by ASCII bytes -/

/-- the byte at position `i` exists and is ASCII -/
def AsciiAt (t : Tokenizer) (i : Nat) : Prop := ∃ c, t.buf[i]? = some c ∧ c < 128

theorem isWs_lt {c : Nat} (h : isWs c = true) : c < 128 := by
  simp only [isWs, Bool.or_eq_true, beq_iff_eq] at h
  omega

theorem tagNameGo_dataE (t : Tokenizer) : (tagNameGo t).err = true ∨ AsciiAt (tagNameGo t) (tagNameGo t).dataE := by
  fun_induction tagNameGo t
  all_goals (try simp +zetaDelta only at *)
  case case1 => exact Or.inl (by assumption)
  case case2 t _ herr hws =>
    have l := lastRead herr
    have s := setDataEndBack_spec t.readByte.1 1 l.1
    refine Or.inr ⟨t.readByte.2, ?_, isWs_lt hws⟩
    rw [s.1, setDataEndBack_buf]; exact l.2
  case case3 t _ herr _ hsg _ =>
    have l := lastRead herr
    have u := lt_unread herr
    have e := readByte_succ herr
    refine Or.inr ⟨t.readByte.2, ?_, by simp only [Bool.or_eq_true, beq_iff_eq] at hsg; omega⟩
    show (t.readByte.1.unread 1).buf[(t.readByte.1.unread 1).rawE]? = some t.readByte.2
    rw [u.1, u.2]
    have := l.2
    rw [e, readByte_buf] at this
    simpa using this
  case case4 ih => exact ih

theorem readTag_nameEnd (t : Tokenizer) (save : Bool) (ok : Ok t) (h1 : 1 ≤ t.rawE) :
    (readTag t save).err = true ∨ AsciiAt (readTag t save) (readTag t save).dataE := by
  have h0 : Adv t { t with attrs := #[], nAttrRet := 0 } := (Adv.refl ok).congr (by simp [core])
  have a1 := readTagName_adv _ h0.ok h1
  unfold readTag
  simp only
  unfold readTagName at a1 ⊢
  have hne : ¬ t.rawE = 0 := by omega
  simp only [hne, if_false] at a1 ⊢
  have h00 : Adv t { t with attrs := #[], nAttrRet := 0, dataS := t.rawE - 1 } := (Adv.refl ok).congr (by simp [core])
  have d := tagNameGo_data { t with attrs := #[], nAttrRet := 0, dataS := t.rawE - 1 } h00.ok
  have n := tagNameGo_dataE { t with attrs := #[], nAttrRet := 0, dataS := t.rawE - 1 }
  simp only at d
  generalize ({ t with attrs := #[], nAttrRet := 0, dataS := t.rawE - 1 } : Tokenizer).tagNameGo = t1 at *
  have a2 := skipWhiteSpace_adv _ a1.ok
  have f2 := skipWhiteSpace_frame t1
  have sk := skipWhiteSpace_err t1
  generalize t1.skipWhiteSpace = t2 at *
  have hao : AttrsOk t2 := by
    intro a hmem; rw [f2.2.2.1, d.2.2.2.1] at hmem; simp at hmem
  split
  · rename_i he; exact Or.inl he
  · have s := tagAttrsGo_spec t2 save a2.ok hao
    have ab := (tagAttrsGo_adv t2 save a2.ok).buf
    rcases n with n | ⟨c, hc, hlt⟩
    · exact Or.inl (tagAttrsGo_err _ _ (sk n))
    · refine Or.inr ⟨c, ?_, hlt⟩
      rw [s.2.2.1, ab, f2.2.1, a2.buf]; exact hc

theorem startTagKind_cases (t : Tokenizer) :
    startTagKind t = .selfClosing ∨ startTagKind t = .startTag ∨ startTagKind t = .error := by
  unfold startTagKind
  (repeat' split) <;> simp

/-- facts about the result of `read_start_tag` when it is a tag token -/
theorem readStartTag_tag (t : Tokenizer) (ok : Ok t) (h2 : 2 ≤ t.rawE) (htag : TagOk t.rawTag)
    (hk : isTagLike (readStartTag t).2 = true) :
    (readStartTag t).1.err = false ∧ AsciiAt (readStartTag t).1 (readStartTag t).1.dataE := by
  have n := readTag_nameEnd t true ok (by omega)
  have f := startTagRaw_fields (readTag t true)
  unfold readStartTag at hk ⊢
  simp only at hk ⊢
  by_cases he : (readTag t true).err = true
  · rw [if_pos he] at hk; simp [isTagLike] at hk
  · rw [if_neg he] at hk ⊢
    have hf : (readTag t true).err = false := by simpa using he
    have key : (startTagRaw (readTag t true)).err = false ∧
        AsciiAt (startTagRaw (readTag t true)) (startTagRaw (readTag t true)).dataE := by
      refine ⟨by rw [f.1, hf], ?_⟩
      rcases n with n | ⟨c, hc, hlt⟩
      · rw [hf] at n; cases n
      · exact ⟨c, by rw [f.2.2.2.2.2, f.2.2.1]; exact hc, hlt⟩
    split
    · rename_i h; rw [if_pos h] at hk; simp [isTagLike] at hk
    · split
      · rename_i h1 h; rw [if_neg h1, if_pos h] at hk; simp [isTagLike] at hk
      · exact key

/-- what holds of a start / end / self-closing tag token -/
structure TagFacts (t : Tokenizer) : Prop where
  noErr : t.err = false
  first : t.buf[t.rawS]? = some 60
  last : EndsGt t
  nameS : 1 ≤ t.dataS ∧ AsciiAt t (t.dataS - 1)
  nameE : AsciiAt t t.dataE

theorem TagFacts.congr {t t' : Tokenizer} (h : TagFacts t) (e0 : t'.err = t.err) (e1 : t'.buf = t.buf)
    (e2 : t'.rawS = t.rawS) (e3 : t'.rawE = t.rawE) (e4 : t'.dataS = t.dataS) (e5 : t'.dataE = t.dataE) :
    TagFacts t' := by
  obtain ⟨h1, h2, h3, h4, h5⟩ := h
  refine ⟨by rw [e0]; exact h1, by rw [e1, e2]; exact h2, ?_, ?_, ?_⟩
  · unfold EndsGt at *; rw [e1, e3]; exact h3
  · unfold AsciiAt at *; rw [e1, e4]; exact h4
  · unfold AsciiAt at *; rw [e1, e5]; exact h5

theorem endsGt_of {t : Tokenizer} (h : EndG t) (he : t.err = false) : EndsGt t := by
  rcases h with h | h
  · rw [he] at h; cases h
  · exact h

theorem dispatchTag_tag (t : Tokenizer) (b : Nat) (ok : Ok t) (h2 : Lt2 t) (hr : t.rawS + 2 ≤ t.rawE)
    (htag : TagOk t.rawTag) (hb : t.buf[t.rawE - 1]? = some b)
    (hk : isTagLike (dispatchTag t b).token = true) : TagFacts (dispatchTag t b) := by
  unfold dispatchTag at hk ⊢
  simp only [htmlTagOpenLen] at hk ⊢
  have hn : ¬ t.rawE < 2 := by omega
  rw [if_neg hn] at hk ⊢
  by_cases h1 : t.rawS < t.rawE - 2
  · rw [if_pos h1] at hk; simp [isTagLike] at hk
  · rw [if_neg h1] at hk ⊢
    have hrs : t.rawS = t.rawE - 2 := by omega
    by_cases ha : isAlpha b = true
    · rw [if_pos ha] at hk ⊢
      simp only at hk
      have sp := readStartTag_spec t ok (by omega) htag
      have tg := readStartTag_tag t ok (by omega) htag hk
      have en := readStartTag_end t ok (by omega)
      obtain ⟨s1, s2, s3, s4, s5, s6, s7⟩ := sp
      generalize readStartTag t = r at *
      have hbuf : r.1.buf = t.buf := s1.buf
      have hrs' : r.1.rawS = t.rawS := s1.rawS
      refine TagFacts.congr (t := r.1) ⟨tg.1, ?_, endsGt_of en tg.1, ⟨by omega, ?_⟩, tg.2⟩ rfl rfl rfl rfl rfl rfl
      · rw [hbuf, hrs', hrs]; exact h2.2
      · refine ⟨60, ?_, by decide⟩
        rw [hbuf, s3, show t.rawE - 1 - 1 = t.rawE - 2 by omega]; exact h2.2
    · rw [if_neg ha] at hk ⊢
      by_cases hs : (b == 47) = true
      · rw [if_pos hs] at hk ⊢
        have hb47 : b = 47 := by simpa using hs
        by_cases h3 : t.readByte.1.err = true
        · rw [if_pos h3] at hk
          exfalso
          unfold finishText at hk
          split at hk <;> simp [isTagLike] at hk
        · rw [if_neg h3] at hk ⊢
          by_cases h4 : (t.readByte.2 == 62) = true
          · rw [if_pos h4] at hk; simp [isTagLike] at hk
          · rw [if_neg h4] at hk ⊢
            by_cases h5 : isAlpha t.readByte.2 = true
            · rw [if_pos h5] at hk ⊢
              have a3 := readByte_adv ok
              have e3 := readByte_succ h3
              have hp := readByte_pos h3
              have a4 := readTag_adv t.readByte.1 false a3.ok hp
              have s4 := readTag_spec t.readByte.1 false a3.ok hp
              have n4 := readTag_nameEnd t.readByte.1 false a3.ok hp
              have en := readTag_end t.readByte.1 false a3.ok hp
              generalize t.readByte.1.readTag false = t4 at *
              by_cases h6 : t4.err = true
              · rw [if_pos h6] at hk; simp [isTagLike] at hk
              · rw [if_neg h6] at hk ⊢
                have hf : t4.err = false := by simpa using h6
                have hbuf : t4.buf = t.buf := (a3.trans a4).buf
                have hrs' : t4.rawS = t.rawS := (a3.trans a4).rawS
                refine TagFacts.congr (t := t4) ⟨hf, ?_, endsGt_of en hf, ⟨by omega, ?_⟩, ?_⟩ rfl rfl rfl rfl rfl rfl
                · rw [hbuf, hrs', hrs]; exact h2.2
                · refine ⟨b, ?_, by omega⟩
                  rw [hbuf, s4.1, e3, show t.rawE + 1 - 1 - 1 = t.rawE - 1 by omega]; exact hb
                · rcases n4 with n | n
                  · rw [hf] at n; cases n
                  · exact n
            · rw [if_neg h5] at hk; simp [isTagLike] at hk
      · rw [if_neg hs] at hk
        by_cases hbang : (b == 33) = true
        · rw [if_pos hbang] at hk
          simp only at hk
          rw [(markup_kind t).1] at hk; cases hk
        · rw [if_neg hbang] at hk; simp [isTagLike] at hk

theorem mainLoop_tag (t : Tokenizer) (ok : Ok t) (hr : t.rawS ≤ t.rawE) (htag : TagOk t.rawTag)
    (hk : isTagLike (mainLoop t).token = true) : TagFacts (mainLoop t) := by
  fun_induction mainLoop t
  all_goals (try simp +zetaDelta only at *)
  case case1 => exfalso; unfold finishText at hk; split at hk <;> simp [isTagLike] at hk
  case case2 ih =>
    have a1 := readByte_adv ok
    exact ih a1.ok (by rw [a1.rawS]; have := a1.mono; omega) (by rw [a1.rawTag]; exact htag) hk
  case case3 => exfalso; unfold finishText at hk; split at hk <;> simp [isTagLike] at hk
  case case4 t _ herr1 _ _ herr2 _ ih =>
    have a1 := readByte_adv ok
    have a2 := a1.trans (read_unread_adv a1.ok herr2)
    exact ih a2.ok (by rw [a2.rawS]; have := a2.mono; omega) (by rw [a2.rawTag]; exact htag) hk
  case case5 t _ herr1 hlt _ herr2 _ =>
    have a1 := readByte_adv ok
    have a2 := readByte_adv a1.ok
    have a12 := a1.trans a2
    have hl : (t.readByte.2 == 60) = true := by simpa using hlt
    have e1 := readByte_succ herr1
    have e2 := readByte_succ herr2
    exact dispatchTag_tag _ _ a2.ok (lt2_of_read herr2 (lt1_of_read herr1 hl)) (by rw [a12.rawS]; omega)
      (by rw [a12.rawTag]; exact htag) (lastRead herr2).2 hk

theorem nextGo_tag (t : Tokenizer) (ok : Ok t) (hr : t.rawS ≤ t.rawE) (htag : TagOk t.rawTag)
    (hk : isTagLike (nextGo t).token = true) : TagFacts (nextGo t) := by
  unfold nextGo at hk ⊢
  simp only at hk ⊢
  by_cases h0 : t.err = true
  · rw [if_pos h0] at hk; simp [isTagLike] at hk
  · rw [if_neg h0] at hk ⊢
    have cont : ∀ t1 : Tokenizer, Ok t1 → t1.rawS ≤ t1.rawE → TagOk t1.rawTag →
        isTagLike (mainLoop { t1 with textIsRaw := false, convertNull := false }).token = true →
        TagFacts (mainLoop { t1 with textIsRaw := false, convertNull := false }) :=
      fun t1 ok1 hr1 tg1 hk1 => mainLoop_tag _ ⟨ok1.le, ok1.panic, ok1.hang, ok1.utf8⟩ hr1 tg1 hk1
    by_cases h1 : (t.rawTag != []) = true
    · rw [if_pos h1] at hk ⊢
      have key : ∀ t1 : Tokenizer, Ok t1 → t1.rawS ≤ t1.rawE → TagOk t1.rawTag →
          isTagLike (if t1.dataE > t1.dataS then { t1 with token := .text, convertNull := true }
            else mainLoop { t1 with textIsRaw := false, convertNull := false }).token = true →
          TagFacts (if t1.dataE > t1.dataS then { t1 with token := .text, convertNull := true }
            else mainLoop { t1 with textIsRaw := false, convertNull := false }) := by
        intro t1 ok1 hr1 tg1 hk1
        by_cases h : t1.dataE > t1.dataS
        · rw [if_pos h] at hk1; simp [isTagLike] at hk1
        · rw [if_neg h] at hk1 ⊢
          exact cont t1 ok1 hr1 tg1 hk1
      by_cases h2 : (t.rawTag == htmlPlaintext) = true
      · rw [if_pos h2] at hk ⊢
        have a := readToEnd_adv t ok
        exact key _ ⟨a.ok.le, a.ok.panic, a.ok.hang, a.ok.utf8⟩ (by
          show t.readToEnd.rawS ≤ t.readToEnd.rawE; rw [a.rawS]; have := a.mono; omega) (by
          show TagOk t.readToEnd.rawTag; rw [a.rawTag]; exact htag) hk
      · rw [if_neg h2] at hk ⊢
        have s := readRawOrCdata_spec t ok htag
        exact key _ s.1.ok (by rw [s.1.rawS]; have := s.1.mono; omega) (by rw [s.2.1]; exact TagOk_nil) hk
    · rw [if_neg h1] at hk ⊢
      exact cont t ok hr htag hk

/-- **tag tokens**: a start / end / self-closing tag token did not hit EOF, its raw span starts with `<` and ends with
`>`, and its name is preceded and followed by ASCII bytes -/
theorem next_tag (t : Tokenizer) (inv : Inv t) (hk : isTagLike (next t).token = true) : TagFacts (next t) :=
  nextGo_tag _ ⟨inv.ok.le, inv.ok.panic, inv.ok.hang, inv.ok.utf8⟩ (Nat.le_refl _) inv.tag hk

end Tokenizer
end Rio.Html
