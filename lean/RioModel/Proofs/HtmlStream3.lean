/-
Stream laws of the tokenizer model, part 3: where tokens end.  `err` set means `raw.end` is at the end of the buffer;
a token that did not hit EOF ends right after a `>` or right before a `<`; tag tokens start with `<`, their name is
delimited by ASCII bytes.  (Used for: token boundaries are UTF-8 character boundaries; `TagSpan`.)
-/
import RioModel.Proofs.HtmlStream2
set_option linter.unusedSimpArgs false
set_option linter.unusedVariables false

namespace Rio.Html
namespace Tokenizer
open Rio.Consts

/-! ### `err` set ⇒ `raw.end` at (or beyond) the end of the buffer -/

/-- once a read has failed, `raw.end` stays at the end of the buffer: every `raw.end -= k` of the code happens after
a *successful* read in a branch where `err` is still unset -/
def ErrGe (t : Tokenizer) : Prop := t.err = true → t.buf.size ≤ t.rawE

theorem readByte_errGe (t : Tokenizer) (h : ErrGe t) : ErrGe t.readByte.1 := by
  unfold readByte ErrGe at *
  split
  · intro he; simp only at he; have := h he; omega
  · intro _; simp only; omega

@[simp] theorem setDataEndBack_rawE (t : Tokenizer) (k : Nat) : (t.setDataEndBack k).rawE = t.rawE := by
  unfold setDataEndBack; split <;> rfl
@[simp] theorem setDataEndBack_buf (t : Tokenizer) (k : Nat) : (t.setDataEndBack k).buf = t.buf := by
  unfold setDataEndBack; split <;> rfl

attribute [local simp] readByte_buf unread_buf

/-- generic closing tactic of the `ErrGe` family -/
local macro "errge" : tactic => `(tactic| first
    | exact readByte_errGe _ ‹_›
    | (apply_assumption; exact readByte_errGe _ ‹_›)
    | (apply_assumption; exact readByte_errGe _ (readByte_errGe _ ‹_›))
    | (intro he
       have h1 := readByte_errGe _ ‹ErrGe _›
       have h2 := readByte_errGe _ h1
       simp_all [ErrGe]
       done))

theorem skipWsGo_errGe (t : Tokenizer) (h : ErrGe t) : ErrGe (skipWsGo t) := by
  fun_induction skipWsGo t
  all_goals (try simp +zetaDelta only at *)
  all_goals errge

theorem skipWhiteSpace_errGe (t : Tokenizer) (h : ErrGe t) : ErrGe (skipWhiteSpace t) := by
  unfold skipWhiteSpace; split
  · exact h
  · exact skipWsGo_errGe t h

theorem commentGo_errGe (t : Tokenizer) (d : Nat) (h : ErrGe t) : ErrGe (commentGo t d) := by
  fun_induction commentGo t d
  all_goals (try simp +zetaDelta only at *)
  all_goals errge

theorem untilCloseAngleGo_errGe (t : Tokenizer) (h : ErrGe t) : ErrGe (untilCloseAngleGo t) := by
  fun_induction untilCloseAngleGo t
  all_goals (try simp +zetaDelta only at *)
  all_goals errge

theorem cdataGo_errGe (t : Tokenizer) (b : Nat) (h : ErrGe t) : ErrGe (cdataGo t b) := by
  fun_induction cdataGo t b
  all_goals (try simp +zetaDelta only at *)
  all_goals errge

theorem tagNameGo_errGe (t : Tokenizer) (h : ErrGe t) : ErrGe (tagNameGo t) := by
  fun_induction tagNameGo t
  all_goals (try simp +zetaDelta only at *)
  all_goals errge

theorem attrKeyGo_errGe (t : Tokenizer) (h : ErrGe t) : ErrGe (attrKeyGo t) := by
  fun_induction attrKeyGo t
  all_goals (try simp +zetaDelta only at *)
  all_goals errge

theorem attrValQuotedGo_errGe (t : Tokenizer) (q : Nat) (h : ErrGe t) : ErrGe (attrValQuotedGo t q) := by
  fun_induction attrValQuotedGo t q
  all_goals (try simp +zetaDelta only at *)
  all_goals errge

theorem attrValUnquotedGo_errGe (t : Tokenizer) (h : ErrGe t) : ErrGe (attrValUnquotedGo t) := by
  fun_induction attrValUnquotedGo t
  all_goals (try simp +zetaDelta only at *)
  all_goals errge

theorem readToEnd_errGe (t : Tokenizer) (h : ErrGe t) : ErrGe (readToEnd t) := by
  fun_induction readToEnd t
  all_goals (try simp +zetaDelta only at *)
  all_goals first | exact h | errge

theorem unread_errGe_of_noerr (t : Tokenizer) (k : Nat) (h : t.err = false) : ErrGe (t.unread k) := by
  intro he; simp [h] at he

theorem rawEndTagLoop_errGe (t : Tokenizer) (cs : List Nat) (h : ErrGe t) : ErrGe (rawEndTagLoop t cs).1 := by
  induction cs generalizing t with
  | nil => exact h
  | cons c cs ih =>
    have h1 := readByte_errGe t h
    simp only [rawEndTagLoop]
    split
    · exact h1
    · rename_i herr
      have hf : t.readByte.1.err = false := by simpa using herr
      (repeat' split) <;> first | exact ih _ h1 | exact unread_errGe_of_noerr _ _ hf | (intro he; simp_all)

theorem readRawEndTag_errGe (t : Tokenizer) (h : ErrGe t) : ErrGe (readRawEndTag t).1 := by
  have h1 := rawEndTagLoop_errGe t t.rawTag h
  have h2 := readByte_errGe _ h1
  unfold readRawEndTag
  simp only
  split
  · exact h1
  · split
    · exact h2
    · rename_i herr
      have hf : (rawEndTagLoop t t.rawTag).1.readByte.1.err = false := by simpa using herr
      split <;> exact unread_errGe_of_noerr _ _ hf

theorem dblEscLoop_errGe (t : Tokenizer) (cs : List (Nat × Nat)) (h : ErrGe t) : ErrGe (dblEscLoop t cs).1 := by
  induction cs generalizing t with
  | nil => exact h
  | cons c cs ih =>
    obtain ⟨lo, up⟩ := c
    have h1 := readByte_errGe t h
    simp only [dblEscLoop]
    split
    · exact h1
    · rename_i herr
      have hf : t.readByte.1.err = false := by simpa using herr
      split
      · exact unread_errGe_of_noerr _ _ hf
      · exact ih _ h1

theorem addRawE_errGe (t : Tokenizer) (k : Nat) (h : ErrGe t) : ErrGe (t.addRawE k) := by
  intro he; have := h he; simp only [addRawE] at *; omega

theorem scriptGo_errGe (st : SS) (t : Tokenizer) (h : ErrGe t) : ErrGe (scriptGo st t) := by
  fun_induction scriptGo st t
  all_goals (try simp +zetaDelta only at *)
  all_goals first
    | errge
    | exact readRawEndTag_errGe _ h
    | (apply_assumption; exact readRawEndTag_errGe _ h)
    | (apply_assumption; exact addRawE_errGe _ _ (readRawEndTag_errGe _ h))
    | exact dblEscLoop_errGe _ _ h
    | (apply_assumption; exact dblEscLoop_errGe _ _ h)
    | exact readByte_errGe _ (dblEscLoop_errGe _ _ h)
    | (apply_assumption; exact readByte_errGe _ (dblEscLoop_errGe _ _ h))
    | (apply_assumption; exact unread_errGe_of_noerr _ _ (by simpa using ‹¬ _ = true›))
    | skip

end Tokenizer
end Rio.Html
